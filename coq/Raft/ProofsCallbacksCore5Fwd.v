(* C02 x Tier C5, the forwarded case of the id -> command link, lifted to the Tier C5 fragment
   (hypotheses exactly as in Props/TierC5.v).  Port of ProofsCallbacksFwd3 against Refine5Main /
   Refine5Final and the node-level lemmas of ProofsCallbacksCore5Node (no file_dump = false; the
   dump-file condition of each tick comes from run_ok5).  The channel bookkeeping (csub / CS) of
   ProofsCallbacksFwd3 does not depend on the fragment and is reused. *)
From Coq Require Import ZArith NArith List Bool Lia ZifyBool Arith PeanoNat.
From RecordUpdate Require Import RecordSet.
From PSO Require Import Raft.Types Raft.Node Raft.Net Raft.Obs Raft.ProofsCommitBase.
From PSO Require Import Raft.ProofsApplyBase Raft.ProofsApply Raft.ProofsApplyLog Raft.ProofsCallbacks Raft.ProofsCallbacks2
  Raft.ProofsApplyWf.
From PSO Require Import Raft.ProofsElectionGhost.
From PSO Require Import Raft.RefineAbs Raft.Refine5Abs Raft.Refine5Main Raft.Refine5Final.
From PSO Require Raft.ProofsElectionBase Raft.ProofsCommitGlobal Raft.ProofsCommitLog Raft.ProofsCallbacksCore Raft.ProofsCallbacksCore2 Raft.ProofsCallbacksFull2
  Raft.ProofsCallbacksCore3 Raft.ProofsCallbacksFwd3 Raft.ProofsCallbacksCore5Node Raft.ProofsElectionMain Raft.Refine5Sim.
From PSO Require Import Raft.ProofsCallbacksFwdNode Raft.ProofsCallbacksCore5.
Import ListNotations.
Import RecordSetNotations.
Open Scope N_scope.

Ltac frs := intros; reflexivity.

Notation csub := ProofsCallbacksFwd3.csub.
Notation CS := ProofsCallbacksFwd3.CS.
Notation chan_get_src := ProofsCallbacksFwd3.chan_get_src.
Notation csub_refl := ProofsCallbacksFwd3.csub_refl.
Notation csub_trans := ProofsCallbacksFwd3.csub_trans.
Notation csub_chan_set := ProofsCallbacksFwd3.csub_chan_set.
Notation CS_of := ProofsCallbacksFwd3.CS_of.
Notation CS_then := ProofsCallbacksFwd3.CS_then.
Notation finish_CS := ProofsCallbacksFwd3.finish_CS.

(* ------------------------------------------------------------------------------------------ *)
(* the ghost invariant                                                                        *)

Section Fwd.
Variables (c : conf) (V : list nid).
Hypothesis NDV : NoDup V.
Hypothesis VRO : forall v, In v V -> v < RO_BASE.
Hypothesis VNE : V <> [].
Hypothesis Hb1 : 1 < batch c.
Hypothesis Hdyn : dyn c = false.

Notation GI := (GI c V).
Notation llog_has := (ProofsCallbacksCore3.llog_has c).

(* a request (f, r) carrying cm: r was issued by f, and if f still waits for the answer, the
   callback that waits was submitted with cm *)
Definition req_ok (nds : list (nid * node)) (hist : list event) (f : nid) (cm : cmd) (r : N) : Prop :=
  forall fn, aget f nds = Some fn ->
    r <= local_ctr fn /\ forall id, In (r, CbLocal id) (wait_reply fn) -> submitted f cm id hist.

(* an answer (r, i, t) for f: if f still waits for it, the leader log of term t holds at i the
   command submitted with the waiting callback *)
Definition ans_ok (nds : list (nid * node)) (s : M.state) (hist : list event) (f : nid) (r i t : N) : Prop :=
  forall fn, aget f nds = Some fn ->
    r <= local_ctr fn /\
    forall id, In (r, CbLocal id) (wait_reply fn) -> exists cm, submitted f cm id hist /\ llog_has s i t cm.

Definition fmsg_ok (nds : list (nid * node)) (st : list nid) (s : M.state) (hist : list event)
           (a b : nid) (m : msg) : Prop :=
  match m with
  | ApplyCmd cm (Some r) => a < RO_BASE -> In a st /\ req_ok nds hist a cm r
  | ApplyResp r true i t => b < RO_BASE -> ans_ok nds s hist b r i t
  | _ => True
  end.

Record NodeInv2 (x : nid) (xn : node) (s : M.state) (hist : list event) : Prop := {
  N2_q : forall cm id, In (cm, CbLocal id) (queue xn) -> submitted x cm id hist;
  N2_wc : forall i subs t id, In (i, subs) (wait_commit xn) -> In (t, id) (local_subs subs) ->
          exists cm, submitted x cm id hist /\ llog_has s i t cm
}.

Record FwInv (g : gstate) (st : list nid) (s : M.state) (hist : list event) : Prop := {
  FI_node : forall x xn, aget x (nodes g) = Some xn -> x < RO_BASE -> NodeInv2 x xn s hist;
  FI_wr : forall x xn, aget x (nodes g) = Some xn -> WR xn;
  FI_rq : forall l ln cm f r, aget l (nodes g) = Some ln -> In (cm, CbRemote f r) (queue ln) -> f < RO_BASE ->
            In f st /\ req_ok (nodes g) hist f cm r;
  FI_ch : forall ch m, In ch (chan g) -> In m (snd ch) ->
            fmsg_ok (nodes g) st s hist (fst (fst ch)) (snd (fst ch)) m
}.

(* how the node f evolves: the counter grows, new pending replies are above the old counter *)
Definition evo (nds nds' : list (nid * node)) (f : nid) : Prop :=
  forall fn', aget f nds' = Some fn' ->
    exists fn, aget f nds = Some fn /\ local_ctr fn <= local_ctr fn' /\
      forall r cb, In (r, cb) (wait_reply fn') -> In (r, cb) (wait_reply fn) \/ local_ctr fn < r.

Lemma evo_same nds nds' f : aget f nds' = aget f nds -> evo nds nds' f.
Proof. intros E fn' H. rewrite E in H. exists fn'. split; [exact H|]. split; [lia|auto]. Qed.

Lemma req_ok_tr nds nds' hist h' f cm r :
  evo nds nds' f -> req_ok nds hist f cm r -> req_ok nds' (hist ++ h') f cm r.
Proof.
  intros Ev H fn' Hf. destruct (Ev fn' Hf) as (fn & Hfn & Hle & Hw). destruct (H fn Hfn) as [H1 H2].
  split; [lia|]. intros id Hid. apply submitted_mono. destruct (Hw _ _ Hid) as [Ho|Hlt]; [now apply H2|lia].
Qed.

Lemma ans_ok_tr nds nds' s s' hist h' f r i t :
  evo nds nds' f -> llog_mono s s' -> ans_ok nds s hist f r i t -> ans_ok nds' s' (hist ++ h') f r i t.
Proof.
  intros Ev M H fn' Hf. destruct (Ev fn' Hf) as (fn & Hfn & Hle & Hw). destruct (H fn Hfn) as [H1 H2].
  split; [lia|]. intros id Hid. destruct (Hw _ _ Hid) as [Ho|Hlt]; [|lia].
  destruct (H2 id Ho) as (cm & Hs & Hl). exists cm. split; [now apply submitted_mono|eapply llog_has_mono; eauto].
Qed.

Lemma fmsg_ok_tr nds nds' st st' s s' hist h' a b m :
  (a < RO_BASE -> In a st -> evo nds nds' a) -> (b < RO_BASE -> evo nds nds' b) ->
  llog_mono s s' -> incl st st' ->
  fmsg_ok nds st s hist a b m -> fmsg_ok nds' st' s' (hist ++ h') a b m.
Proof.
  intros Ea Eb M Hi H. destruct m as [t lli llt|t|t cc prev es|t cc prev lab off len en|t cc p|c0 req|req okr a0 b0|t nx r0 su];
    try exact I.
  - destruct req as [r|]; [|exact I]. cbn in *. intros Hlt. destruct (H Hlt) as [H1 H2].
    split; [now apply Hi|]. apply (req_ok_tr nds); auto.
  - destruct okr; [|exact I]. cbn in *. intros Hlt. eapply ans_ok_tr; eauto.
Qed.

Lemma NodeInv2_mono x xn s s' h h' : llog_mono s s' -> NodeInv2 x xn s h -> NodeInv2 x xn s' (h ++ h').
Proof.
  intros M [A B]. constructor.
  - intros cm id H. apply submitted_mono. eauto.
  - intros i subs t id Hp Ht. destruct (B i subs t id Hp Ht) as (cm & H1 & H2).
    exists cm. split; [now apply submitted_mono|eapply llog_has_mono; eauto].
Qed.

Lemma voter_started g gh st s n x : GI g gh st s -> aget n (nodes g) = Some x -> n < RO_BASE -> In n st.
Proof.
  intros G Hx Hlt. pose proof (GI_inv c V g gh st s G) as I.
  destruct (I_node V g gh st I n x Hx) as (_ & Hv & _). now apply Hv.
Qed.

Lemma ro_follower g gh st s n x : GI g gh st s -> aget n (nodes g) = Some x -> role x = LEADER -> n < RO_BASE.
Proof.
  intros G Hx Hr. pose proof (GI_inv c V g gh st s G) as I.
  destruct (I_node V g gh st I n x Hx) as (_ & _ & Hro).
  destruct (N.lt_ge_cases n RO_BASE) as [H|H]; [exact H|]. destruct (Hro H) as [_ Hf]. rewrite Hr in Hf. discriminate Hf.
Qed.

(* the generic step: node n ran, from x to (nd S0), sending (outs S0) *)
Lemma stepped_fw g gh st s hist ev g1 gh1 st1 s1 n x S0 :
  GI g gh st s -> FwInv g st s hist -> GI g1 gh1 st1 s1 -> llog_mono s s1 -> incl st st1 ->
  aget n (nodes g) = Some x -> nodes g1 = aset n (nd S0) (nodes g) -> CS g g1 n (outs S0) ->
  local_ctr x <= local_ctr (nd S0) ->
  (forall r cb, In (r, cb) (wait_reply (nd S0)) -> In (r, cb) (wait_reply x) \/ local_ctr x < r <= local_ctr (nd S0)) ->
  (n < RO_BASE -> forall cm id, In (cm, CbLocal id) (queue (nd S0)) ->
     In (cm, CbLocal id) (queue x) \/ submitted n cm id (hist ++ [ev])) ->
  (forall cm f r, In (cm, CbRemote f r) (queue (nd S0)) -> f < RO_BASE ->
     In (cm, CbRemote f r) (queue x) \/ (In f st /\ req_ok (nodes g) hist f cm r)) ->
  (n < RO_BASE -> forall i subs t id, In (i, subs) (wait_commit (nd S0)) -> In (t, id) (local_subs subs) ->
     old_sub (wait_commit x) i t id \/ exists cm, submitted n cm id (hist ++ [ev]) /\ llog_has s1 i t cm) ->
  (n < RO_BASE -> forall d cm r, In (Send d (ApplyCmd cm (Some r))) (outs S0) ->
     local_ctr x < r <= local_ctr (nd S0) /\
     forall id, In (r, CbLocal id) (wait_reply (nd S0)) -> submitted n cm id (hist ++ [ev])) ->
  (forall d r i t, In (Send d (ApplyResp r true i t)) (outs S0) -> d < RO_BASE ->
     exists cm, In (cm, CbRemote d r) (queue x) /\ llog_has s1 i t cm) ->
  FwInv g1 st1 s1 (hist ++ [ev]).
Proof.
  intros G I G1 M Hst Hx Hn HCS A1 A2 A3a A3b A4 A5 A6.
  assert (Wx : WR x) by exact (FI_wr _ _ _ _ I n x Hx).
  assert (Ev : forall f, evo (nodes g) (nodes g1) f).
  { intros f fn' Hf. rewrite Hn, aget_aset in Hf. destruct (f =? n) eqn:E.
    - apply N.eqb_eq in E. subst f. injection Hf as <-. exists x. split; [exact Hx|]. split; [exact A1|].
      intros r cb Hin. destruct (A2 r cb Hin) as [H|H]; [now left|right; lia].
    - exists fn'. split; [exact Hf|]. split; [lia|auto]. }
  constructor.
  - intros x' xn' Hx' Hlt. rewrite Hn, aget_aset in Hx'. destruct (x' =? n) eqn:E.
    + apply N.eqb_eq in E. subst x'. injection Hx' as <-.
      pose proof (FI_node _ _ _ _ I n x Hx Hlt) as [Bq Bw]. constructor.
      * intros cm id Hq. destruct (A3a Hlt cm id Hq) as [H|H]; [apply submitted_mono; eauto|exact H].
      * intros i subs t id Hp Ht. destruct (A4 Hlt i subs t id Hp Ht) as [(subs0 & Hp0 & Ht0)|H]; [|exact H].
        destruct (Bw i subs0 t id Hp0 Ht0) as (cm & H1 & H2).
        exists cm. split; [now apply submitted_mono|eapply llog_has_mono; eauto].
    + apply (NodeInv2_mono x' xn' s s1 hist [ev] M). exact (FI_node _ _ _ _ I x' xn' Hx' Hlt).
  - intros x' xn' Hx'. rewrite Hn, aget_aset in Hx'. destruct (x' =? n) eqn:E; [|exact (FI_wr _ _ _ _ I x' xn' Hx')].
    injection Hx' as <-. intros r cb Hin. destruct (A2 r cb Hin) as [H|H]; [|lia].
    specialize (Wx r cb H). lia.
  - intros l ln cm f r Hl Hq Hf. rewrite Hn, aget_aset in Hl.
    assert (Old : In f st /\ req_ok (nodes g) hist f cm r -> In f st1 /\ req_ok (nodes g1) (hist ++ [ev]) f cm r).
    { intros [H1 H2]. split; [now apply Hst|]. apply (req_ok_tr (nodes g)); auto. }
    destruct (l =? n) eqn:E.
    + injection Hl as <-. destruct (A3b cm f r Hq Hf) as [H|H]; [|now apply Old].
      apply Old. exact (FI_rq _ _ _ _ I n x cm f r Hx H Hf).
    + apply Old. exact (FI_rq _ _ _ _ I l ln cm f r Hl Hq Hf).
  - intros ch m Hc Hm. destruct (HCS ch m Hc Hm) as [(ch0 & H0 & Hk & Hm0)|[Hs Hi]].
    + pose proof (FI_ch _ _ _ _ I ch0 m H0 Hm0) as Ho. rewrite Hk in Ho.
      apply (fmsg_ok_tr (nodes g) (nodes g1) st st1 s s1 hist [ev]); auto.
    + destruct ch as [[a b] q]. cbn [fst snd] in *. subst a.
      destruct m as [t lli llt|t|t cc prev es|t cc prev lab off len en|t cc p|c0 req|req okr a0 b0|t nx r0 su];
        try exact I0; try exact Logic.I.
      * destruct req as [r|]; [|exact Logic.I]. cbn. intros Hlt. split.
        -- apply Hst. eapply voter_started; eauto.
        -- intros fn' Hf. rewrite Hn, aget_aset, N.eqb_refl in Hf. injection Hf as <-.
           destruct (A5 Hlt b c0 r Hi) as [H1 H2]. split; [lia|exact H2].
      * destruct okr; [|exact Logic.I]. cbn. intros Hlt.
        destruct (A6 b req a0 b0 Hi Hlt) as (cm & Hq & Hll).
        destruct (FI_rq _ _ _ _ I n x cm b req Hx Hq Hlt) as [_ Hfo].
        pose proof (req_ok_tr _ _ hist [ev] b cm req (Ev b) Hfo) as Hfo'.
        intros fn' Hf. destruct (Hfo' fn' Hf) as [Hle Hids]. split; [exact Hle|].
        intros id Hid. exists cm. split; [now apply Hids|exact Hll].
Qed.

Lemma idle_fw g gh st s hist ev g1 gh1 st1 s1 n x y :
  GI g gh st s -> FwInv g st s hist -> GI g1 gh1 st1 s1 -> llog_mono s s1 -> incl st st1 ->
  aget n (nodes g) = Some x -> nodes g1 = aset n y (nodes g) -> CS g g1 n [] ->
  local_ctr y = local_ctr x -> wait_reply y = wait_reply x -> queue y = queue x -> wait_commit y = wait_commit x ->
  FwInv g1 st1 s1 (hist ++ [ev]).
Proof.
  intros G I G1 M Hst Hx Hn HCS E1 E2 E3 E4.
  apply (stepped_fw g gh st s hist ev g1 gh1 st1 s1 n x (idle_S y) G I G1 M Hst Hx Hn HCS); cbn [nd idle_S outs].
  - rewrite E1. lia.
  - intros r cb Hin. rewrite E2 in Hin. now left.
  - intros _ cm id Hq. rewrite E3 in Hq. now left.
  - intros cm f r Hq _. rewrite E3 in Hq. now left.
  - intros _ i subs t id Hp Ht. rewrite E4 in Hp. left. eapply old_sub_refl; eauto.
  - intros _ d cm r [].
  - intros d r i t [].
Qed.

Lemma shrink_fw g st s hist g1 st1 s1 h' :
  FwInv g st s hist -> llog_mono s s1 -> incl st st1 ->
  (forall x xn, aget x (nodes g1) = Some xn -> aget x (nodes g) = Some xn) -> csub g g1 ->
  FwInv g1 st1 s1 (hist ++ h').
Proof.
  intros I M Hst Hn Hc.
  assert (Ev : forall f, evo (nodes g) (nodes g1) f).
  { intros f fn' Hf. exists fn'. split; [now apply Hn|]. split; [lia|auto]. }
  constructor.
  - intros x xn Hx Hlt. apply (NodeInv2_mono x xn s s1 hist h' M). exact (FI_node _ _ _ _ I x xn (Hn _ _ Hx) Hlt).
  - intros x xn Hx. exact (FI_wr _ _ _ _ I x xn (Hn _ _ Hx)).
  - intros l ln cm f r Hl Hq Hf. destruct (FI_rq _ _ _ _ I l ln cm f r (Hn _ _ Hl) Hq Hf) as [H1 H2].
    split; [now apply Hst|]. apply (req_ok_tr (nodes g)); auto.
  - intros ch m H1 H2. destruct (Hc ch m H1 H2) as (ch0 & I0 & K0 & M0).
    pose proof (FI_ch _ _ _ _ I ch0 m I0 M0) as Ho. rewrite K0 in Ho.
    apply (fmsg_ok_tr (nodes g) (nodes g1) st st1 s s1 hist h'); auto.
Qed.

Lemma st_after_incl st ev : incl st (st_after st ev).
Proof.
  destruct ev; cbn; try apply incl_refl. destruct (_ <? _); [apply incl_tl|]; apply incl_refl.
Qed.

Lemma nocrit_start e x : nocrit (start_S e x).
Proof. constructor. Qed.

(* one global step *)
Lemma step_fwinv g gh st s hist ev g1 r gh1 s1 :
  GI g gh st s -> FwInv g st s hist -> ev_ok V st ev = true -> tick_ok c g ev ->
  gstep c g ev = Some (g1, r) -> GI g1 gh1 (st_after st ev) s1 -> kstar V s s1 ->
  FwInv g1 (st_after st ev) s1 (hist ++ [ev]).
Proof.
  intros G I Hev Htk ST G1 K.
  pose proof (llog_mono_kstar V s s1 (GI_reach c V g gh st s G) K) as M.
  pose proof (st_after_incl st ev) as Hst.
  destruct ev as [n now rnd bud ord sl|a b now rnd ord|a b|a b k|a b|n cm cb|n cm cb|n cm cb|n|n|n oth now rnd sv];
    unfold gstep in ST; cbv zeta in ST.
  - (* tick *)
    destruct (aget n (nodes g)) as [x|] eqn:Hx; [|discriminate]. injection ST as <- <-.
    set (e := mk_env c now rnd bud ord sl) in *.
    assert (Hx1 : aget n (nodes (finish n (on_tick e x) g)) = Some (nd (on_tick e x))).
    { rewrite nodes_finish, aget_aset, N.eqb_refl. reflexivity. }
    assert (Hfd : tickp e x) by (exact (Htk x Hx)).
    pose proof (ProofsCallbacksCore5Node.on_tick_fw e x Hdyn Hfd (FI_wr _ _ _ _ I n x Hx)) as (T0 & T1 & T2 & Tq & T3 & T4).
    apply (stepped_fw g gh st s hist _ _ gh1 _ s1 n x (on_tick e x) G I G1 M Hst Hx); [apply nodes_finish|apply finish_CS|..].
    + exact T1.
    + intros r0 cb Hin. destruct (T2 r0 cb Hin) as [H|H]; [now left|]. right. split; [exact H|]. exact (T0 r0 cb Hin).
    + intros _ cm id Hq. left. now apply Tq.
    + intros cm f r0 Hq _. left. now apply Tq.
    + intros Hlt i subs t id Hp Ht.
      destruct (node_facts c V NDV VRO VNE Hb1 Hdyn g gh st s n x G Hx Hlt) as (W0 & Hal & Hcur).
      destruct (ProofsCallbacksCore5Node.on_tick_res e x Hfd W0 Hal Hcur) as [_ R2].
      destruct (R2 i subs t id Hp Ht) as [Ho|(cm & Hq & He & _)]; [now left|].
      right. exists cm. split.
      * apply submitted_mono. apply (N2_q _ _ _ _ (FI_node _ _ _ _ I n x Hx Hlt)). exact Hq.
      * pose proof (entry_in_llog c V NDV VRO VNE Hb1 _ gh1 _ s1 n _ (mkEntry cm i t) G1 Hx1 Hlt He) as L. exact L.
    + intros Hlt d cm r0 Hin. destruct (T3 d cm r0 Hin) as [H1 H2]. split; [exact H1|].
      intros id Hid. apply submitted_mono. apply (N2_q _ _ _ _ (FI_node _ _ _ _ I n x Hx Hlt)). now apply H2.
    + intros d r0 i t Hin Hd. destruct (T4 d r0 i t Hin) as (cm & Hq & Hrole & HE).
      exists cm. split; [exact Hq|].
      assert (Hlt : n < RO_BASE) by (eapply ro_follower; eauto).
      destruct (node_facts c V NDV VRO VNE Hb1 Hdyn g gh st s n x G Hx Hlt) as (W0 & Hal & Hcur).
      pose proof (entry_in_llog c V NDV VRO VNE Hb1 _ gh1 _ s1 n _ (mkEntry cm i t) G1 Hx1 Hlt (HE W0 Hal Hcur)) as L.
      exact L.
  - (* deliver *)
    destruct (aget b (nodes g)) as [x|] eqn:Hx; [|discriminate].
    destruct (chan_get a b g) as [|m rest] eqn:Ec; [discriminate|]. injection ST as <- <-.
    set (e := mk_env c now rnd DEFAULT_BUDGET ord 0) in *.
    pose proof (wsub_on_message e a m x) as [Wa Wb].
    pose proof (nocrit_on_message e a m x) as Hnc.
    assert (Hm : fmsg_ok (nodes g) st s hist a b m).
    { assert (Hin : In m (chan_get a b g)) by (rewrite Ec; now left).
      apply chan_get_src in Hin. destruct Hin as (ch0 & H0 & K0 & M0).
      pose proof (FI_ch _ _ _ _ I ch0 m H0 M0) as Ho. rewrite K0 in Ho. exact Ho. }
    apply (stepped_fw g gh st s hist _ _ gh1 _ s1 b x (on_message e a m x) G I G1 M Hst Hx).
    + rewrite nodes_finish, nodes_chan_set. reflexivity.
    + apply (CS_of g (chan_set a b rest g)); [|apply finish_CS].
      apply csub_chan_set. intros m0 Hm0. rewrite Ec. now right.
    + rewrite Wb. lia.
    + intros r0 cb Hin. left. now apply Wa.
    + intros Hlt cm id Hq. left.
      destruct m as [t lli llt|t|t cc prev es|t cc prev lab off len en|t cc p|c0 req|req okr a0 b0|t nx r0 su].
      * now rewrite (fr_msg_request_vote queue) in Hq by frs.
      * now rewrite (fr_msg_response_vote queue) in Hq by frs.
      * unfold on_message in Hq. now rewrite (fr_on_append_entries queue) in Hq by frs.
      * unfold on_message in Hq. now rewrite (fr_on_append_entries queue) in Hq by frs.
      * unfold on_message in Hq. now rewrite (fr_on_append_entries queue) in Hq by frs.
      * unfold on_message in Hq. apply submit_queue in Hq. destruct Hq as [Hq|Hq]; [exact Hq|].
        destruct req; inversion Hq.
      * now rewrite (fr_msg_apply_resp queue) in Hq by frs.
      * now rewrite (fr_msg_next_idx queue) in Hq by frs.
    + intros cm f r1 Hq Hf.
      destruct m as [t lli llt|t|t cc prev es|t cc prev lab off len en|t cc p|c0 req|req okr a0 b0|t nx r0 su].
      * left. now rewrite (fr_msg_request_vote queue) in Hq by frs.
      * left. now rewrite (fr_msg_response_vote queue) in Hq by frs.
      * left. unfold on_message in Hq. now rewrite (fr_on_append_entries queue) in Hq by frs.
      * left. unfold on_message in Hq. now rewrite (fr_on_append_entries queue) in Hq by frs.
      * left. unfold on_message in Hq. now rewrite (fr_on_append_entries queue) in Hq by frs.
      * unfold on_message in Hq. apply submit_queue in Hq. destruct Hq as [Hq|Hq]; [now left|].
        destruct req as [r2|]; inversion Hq; subst. right. cbn in Hm. now apply Hm.
      * left. now rewrite (fr_msg_apply_resp queue) in Hq by frs.
      * left. now rewrite (fr_msg_next_idx queue) in Hq by frs.
    + intros Hlt i subs t id Hp Ht.
      destruct m as [t0 lli llt|t0|t0 cc prev es|t0 cc prev lab off len en|t0 cc p|c0 req|req okr a0 b0|t0 nx r0 su].
      * rewrite (fr_msg_request_vote wait_commit) in Hp by frs. left. eapply old_sub_refl; eauto.
      * rewrite (fr_msg_response_vote wait_commit) in Hp by frs. left. eapply old_sub_refl; eauto.
      * unfold on_message in Hp. rewrite (fr_on_append_entries wait_commit) in Hp by frs. left. eapply old_sub_refl; eauto.
      * unfold on_message in Hp. rewrite (fr_on_append_entries wait_commit) in Hp by frs. left. eapply old_sub_refl; eauto.
      * unfold on_message in Hp. rewrite (fr_on_append_entries wait_commit) in Hp by frs. left. eapply old_sub_refl; eauto.
      * rewrite (fr_msg_apply_cmd wait_commit) in Hp by frs. left. eapply old_sub_refl; eauto.
      * unfold on_message in Hp. cbn [nd start_S] in Hp.
        destruct (aget req (wait_reply x)) as [cbk|] eqn:Er; [|left; eapply old_sub_refl; eauto].
        destruct okr; cbn [negb] in Hp; [|rewrite nd_fire in Hp; left; eapply old_sub_refl; eauto].
        destruct (_ <=? _); [rewrite nd_fire in Hp; left; eapply old_sub_refl; eauto|].
        cbn in Hp. apply ProofsCommitLog.In_aset in Hp. destruct Hp as [Hp|Hp]; [|left; eapply old_sub_refl; eauto].
        injection Hp as -> ->. rewrite local_subs_app in Ht. apply in_app_or in Ht. destruct Ht as [Ht|Ht].
        -- left. fold (subs_of a0 (wait_commit x)) in Ht. now apply subs_of_In.
        -- right. destruct cbk as [|id0|rn rid]; cbn in Ht; try contradiction.
           destruct Ht as [Ht|[]]. injection Ht as <- <-.
           cbn in Hm. destruct (Hm Hlt x Hx) as [_ Hids].
           destruct (Hids id0 (ProofsCommitLog.aget_In _ _ _ Er)) as (cm & Hs & Hl).
           exists cm. split; [now apply submitted_mono|eapply llog_has_mono; eauto].
      * rewrite (fr_msg_next_idx wait_commit) in Hp by frs. left. eapply old_sub_refl; eauto.
    + intros _ d cm r0 Hin. exfalso. eapply nocrit_no; eauto.
    + intros d r0 i t Hin _. exfalso. eapply nocrit_no; eauto.
  - (* drop *)
    destruct (aget a (nodes g)) as [x|] eqn:Hx; [|discriminate]. injection ST as <- <-.
    apply (idle_fw g gh st s hist _ _ gh1 _ s1 a x (on_disconnected b x) G I G1 M Hst Hx).
    + rewrite nodes_chan_set, nodes_finish. reflexivity.
    + apply (CS_then g (finish a (idle_S (on_disconnected b x)) g)); [apply (finish_CS a (idle_S (on_disconnected b x)) g)|].
      apply csub_chan_set. intros m0 [].
    + apply (fr_on_disconnected local_ctr); frs.
    + apply (fr_on_disconnected wait_reply); frs.
    + apply (fr_on_disconnected queue); frs.
    + apply (fr_on_disconnected wait_commit); frs.
  - (* lose *)
    injection ST as <- <-. apply (shrink_fw g st s hist _ _ s1 _ I M Hst).
    + intros x xn Hx. now rewrite nodes_chan_set in Hx.
    + apply csub_chan_set. intros m0 Hm0. eapply ProofsCommitGlobal.In_firstn; eauto.
  - (* connect *)
    destruct (aget a (nodes g)) as [x|] eqn:Hx; [|discriminate]. injection ST as <- <-.
    apply (idle_fw g gh st s hist _ _ gh1 _ s1 a x (on_connected b x) G I G1 M Hst Hx).
    + rewrite nodes_finish. destruct (match aget b (nodes g) with Some y => negb (smem a (tconn y)) | None => true end); reflexivity.
    + match goal with |- CS g (finish a ?S0 ?g') a [] => apply (CS_of g g'); [|apply (finish_CS a S0 g')] end.
      destruct (match aget b (nodes g) with Some y => negb (smem a (tconn y)) | None => true end); [|now apply csub_refl].
      eapply csub_trans; [|apply csub_chan_set; intros m0 []]. apply csub_chan_set. intros m0 [].
    + apply (fr_on_connected local_ctr); frs.
    + apply (fr_on_connected wait_reply); frs.
    + apply (fr_on_connected queue); frs.
    + apply (fr_on_connected wait_commit); frs.
  - (* submit *)
    destruct (aget n (nodes g)) as [x|] eqn:Hx; [|discriminate]. injection ST as <- <-.
    set (e := mk_env c 0 0 DEFAULT_BUDGET [] 0) in *.
    assert (Hnc : nocrit (api_submit e cm (cb_of cb) x)) by (apply submit_outs_nocrit, nocrit_start).
    apply (stepped_fw g gh st s hist _ _ gh1 _ s1 n x (api_submit e cm (cb_of cb) x) G I G1 M Hst Hx); [apply nodes_finish|apply finish_CS|..].
    + unfold api_submit. rewrite (fr_submit local_ctr) by frs. cbn. lia.
    + intros r0 cb0 Hin. unfold api_submit in Hin. rewrite (fr_submit wait_reply) in Hin by frs. now left.
    + intros _ cm' id Hq. unfold api_submit in Hq. apply submit_queue in Hq. destruct Hq as [Hq|Hq]; [now left|].
      right. injection Hq as -> Hcb. symmetry in Hcb. apply cb_of_local in Hcb. subst cb.
      left. apply in_or_app. right. now left.
    + intros cm' f r0 Hq _. unfold api_submit in Hq. apply submit_queue in Hq. destruct Hq as [Hq|Hq]; [now left|].
      unfold cb_of in Hq. destruct (cb =? 0); inversion Hq.
    + intros _ i subs t id Hp Ht. left. unfold api_submit in Hp. rewrite (fr_submit wait_commit) in Hp by frs.
      eapply old_sub_refl; eauto.
    + intros _ d cm' r0 Hin. exfalso. eapply nocrit_no; eauto.
    + intros d r0 i t Hin _. exfalso. eapply nocrit_no; eauto.
  - (* admin: refused without dynamic membership *)
    destruct (aget n (nodes g)) as [x|] eqn:Hx; [|discriminate]. injection ST as <- <-.
    set (e := mk_env c 0 0 DEFAULT_BUDGET [] 0) in *.
    assert (E : api_admin e cm (cb_of cb) x = raise EXC_GENERIC (start_S e x)).
    { unfold api_admin. cbn [cf e mk_env]. now rewrite Hdyn. }
    rewrite E in *.
    apply (idle_fw g gh st s hist _ _ gh1 _ s1 n x x G I G1 M Hst Hx);
      [apply nodes_finish|apply (finish_CS n (raise EXC_GENERIC (start_S e x)) g)|reflexivity..].
  - (* setver *)
    destruct (aget n (nodes g)) as [x|] eqn:Hx; [|discriminate]. injection ST as <- <-.
    set (e := mk_env c 0 0 DEFAULT_BUDGET [] 0) in *.
    unfold api_setver in *. revert G1. destruct (_ || _); intros G1.
    { apply (idle_fw g gh st s hist _ _ gh1 _ s1 n x x G I G1 M Hst Hx);
        [apply nodes_finish|apply (finish_CS n (raise EXC_GENERIC (start_S e x)) g)|reflexivity..]. }
    assert (Hnc : nocrit (submit e cm (cb_of cb) (start_S e x))) by (apply submit_outs_nocrit, nocrit_start).
    apply (stepped_fw g gh st s hist _ _ gh1 _ s1 n x (submit e cm (cb_of cb) (start_S e x)) G I G1 M Hst Hx); [apply nodes_finish|apply finish_CS|..].
    + rewrite (fr_submit local_ctr) by frs. cbn. lia.
    + intros r0 cb0 Hin. rewrite (fr_submit wait_reply) in Hin by frs. now left.
    + intros _ cm' id Hq. apply submit_queue in Hq. destruct Hq as [Hq|Hq]; [now left|].
      right. injection Hq as -> Hcb. symmetry in Hcb. apply cb_of_local in Hcb. subst cb.
      right. apply in_or_app. right. now left.
    + intros cm' f r0 Hq _. apply submit_queue in Hq. destruct Hq as [Hq|Hq]; [now left|].
      unfold cb_of in Hq. destruct (cb =? 0); inversion Hq.
    + intros _ i subs t id Hp Ht. left. rewrite (fr_submit wait_commit) in Hp by frs.
      eapply old_sub_refl; eauto.
    + intros _ d cm' r0 Hin. exfalso. eapply nocrit_no; eauto.
    + intros d r0 i t Hin _. exfalso. eapply nocrit_no; eauto.
  - (* compact *)
    destruct (aget n (nodes g)) as [x|] eqn:Hx; [|discriminate]. injection ST as <- <-.
    apply (idle_fw g gh st s hist _ _ gh1 _ s1 n x (api_compact x) G I G1 M Hst Hx);
      [apply nodes_finish|apply (finish_CS n (idle_S (api_compact x)) g)|reflexivity..].
  - (* kill *)
    injection ST as <- <-. pose proof (I_sorted V g gh st (GI_inv c V g gh st s G)) as Hks.
    apply (shrink_fw g st s hist _ _ s1 _ I M Hst).
    + intros x xn Hx.
      assert (Hn : aget x (adel n (nodes g)) = Some xn).
      { destruct (aget n (nodes g)) as [y|]; [destruct (disk_of c y)|]; exact Hx. }
      destruct (N.eq_dec x n) as [->|Hne]; [rewrite (ProofsElectionBase.aget_adel_same n (nodes g) Hks) in Hn; discriminate|].
      now rewrite aget_adel_ne in Hn.
    + intros ch m H1 H2. exists ch. split; [|auto].
      assert (H3 : In ch (filter (fun c0 : nid * nid * list msg => negb ((fst (fst c0) =? n) || (snd (fst c0) =? n))) (chan g))).
      { destruct (aget n (nodes g)) as [y|]; [destruct (disk_of c y)|]; exact H1. }
      apply filter_In in H3. tauto.
  - (* restart: a fresh node holds nothing *)
    injection ST as <- <-.
    set (e := mk_env c now rnd DEFAULT_BUDGET [] 0) in *.
    set (y := match aget n (disks g) with
              | Some d => match (if RO_BASE <=? n then None else Some n) with
                          | Some _ => init_from_disk e (if RO_BASE <=? n then None else Some n) oth sv d
                          | None => init_node e (if RO_BASE <=? n then None else Some n) oth sv end
              | None => init_node e (if RO_BASE <=? n then None else Some n) oth sv end) in *.
    assert (E : queue y = [] /\ wait_commit y = [] /\ wait_reply y = []).
    { subst y. destruct (aget n (disks g)) as [d|]; [|cbn; auto].
      destruct (RO_BASE <=? n); [cbn; auto|]. unfold init_from_disk. destruct (d_log d); cbn; auto. }
    destruct E as (E1 & E2 & E3).
    assert (Ev : forall f, f <> n -> evo (nodes g) (aset n y (nodes g)) f).
    { intros f Hne. apply evo_same. rewrite aget_aset. destruct (f =? n) eqn:Ef; [apply N.eqb_eq in Ef; contradiction|reflexivity]. }
    assert (Hfresh : forall f, f < RO_BASE -> In f st -> f <> n).
    { intros f Hf Hin ->. cbn [ev_ok] in Hev. apply N.ltb_lt in Hf. rewrite Hf in Hev.
      apply andb_true_iff in Hev as [Hev _]. apply andb_true_iff in Hev as [_ Hev].
      apply negb_true_iff in Hev. apply smem_In in Hin. congruence. }
    constructor; cbn [nodes put_node chan set].
    + intros x xn Hx Hlt. change (aget x (aset n y (nodes g)) = Some xn) in Hx. rewrite aget_aset in Hx.
      destruct (x =? n) eqn:Ex.
      * injection Hx as <-. constructor; intros; rewrite ?E1, ?E2 in *; contradiction.
      * apply (NodeInv2_mono x xn s s1 hist _ M). exact (FI_node _ _ _ _ I x xn Hx Hlt).
    + intros x xn Hx. change (aget x (aset n y (nodes g)) = Some xn) in Hx. rewrite aget_aset in Hx.
      destruct (x =? n) eqn:Ex; [|exact (FI_wr _ _ _ _ I x xn Hx)].
      injection Hx as <-. intros r0 cb0 Hin. rewrite E3 in Hin. destruct Hin.
    + intros l ln cm f r0 Hl Hq Hf. change (aget l (aset n y (nodes g)) = Some ln) in Hl. rewrite aget_aset in Hl.
      destruct (l =? n) eqn:El; [injection Hl as <-; rewrite E1 in Hq; destruct Hq|].
      destruct (FI_rq _ _ _ _ I l ln cm f r0 Hl Hq Hf) as [H1 H2].
      split; [now apply Hst|]. apply (req_ok_tr (nodes g)); [|exact H2]. apply Ev. now apply Hfresh.
    + intros ch m H1 H2.
      change (In ch (filter (fun c0 : nid * nid * list msg => negb ((fst (fst c0) =? n) || (snd (fst c0) =? n))) (chan g))) in H1.
      apply filter_In in H1. destruct H1 as [H1 H3]. apply negb_true_iff, orb_false_iff in H3. destruct H3 as [H3 H4].
      apply N.eqb_neq in H3, H4.
      pose proof (FI_ch _ _ _ _ I ch m H1 H2) as Ho.
      apply (fmsg_ok_tr (nodes g) _ st _ s s1 hist _ _ _ m); auto.
Qed.

End Fwd.

(* ------------------------------------------------------------------------------------------ *)
(* the invariant along a run                                                                  *)

Section RunF.
Variables (c : conf) (V : list nid).
Hypothesis NDV : NoDup V.
Hypothesis VRO : forall v, In v V -> v < RO_BASE.
Hypothesis VNE : V <> [].
Hypothesis Hb1 : 1 < batch c.
Hypothesis Hdyn : dyn c = false.

Lemma run_fwinv evs : forall g gh st s hist g' gh',
  GI c V g gh st s -> FwInv c g st s hist ->
  valid_from V st evs = true -> run_ok5 c g evs = true ->
  grun c g gh evs = Some (g', gh') ->
  exists s', kstar V s s' /\ GI c V g' gh' (RefineFinal.sts_after st evs) s' /\
             FwInv c g' (RefineFinal.sts_after st evs) s' (hist ++ evs).
Proof.
  induction evs as [|ev evs IH]; intros g gh st s hist g' gh' G I Hv Hr Hg; cbn in *.
  - injection Hg as <- <-. exists s. split; [constructor|]. split; [exact G|]. now rewrite app_nil_r.
  - apply andb_true_iff in Hv as [Hev Hv].
    apply andb_true_iff in Hr as [Htb Hr].
    destruct (gstep c g ev) as [[g1 r]|] eqn:Est; [|discriminate].
    destruct (step_sim c V NDV VRO VNE Hb1 Hdyn g gh st s ev g1 r G Hev Htb Est) as (s1 & K1 & G1).
    pose proof (step_fwinv c V NDV VRO VNE Hb1 Hdyn g gh st s hist ev g1 r _ s1 G I Hev (tick_okb_ok c g ev Htb) Est G1 K1) as I1.
    destruct (IH g1 _ _ s1 _ g' gh' G1 I1 Hv Hr Hg) as (s2 & K2 & G2 & I2).
    exists s2. split; [eapply kstar_trans; eauto|]. split; [exact G2|].
    rewrite <- app_assoc in I2. exact I2.
Qed.

End RunF.

Lemma FwInv_init c V : FwInv c ginit [] (M.init (absV V)) [].
Proof. constructor; cbn; intros; try discriminate; contradiction. Qed.

(* C02_success_is_committed_core5, also for commands forwarded to the leader: the entry that
   fired the callback at a voter carries the command submitted under that callback id *)
Theorem success_is_committed_core5_forwarded :
  forall (c : conf) (V : list nid) (evs1 : list event) (ev : event) (evs2 : list event)
         (g1 g2 g3 : gstate) (x : nid) (s : S) (id r : N),
  dyn c = false -> 1 < batch c ->
  valid V (evs1 ++ ev :: evs2) = true -> run_ok5 c ginit (evs1 ++ ev :: evs2) = true ->
  run_trace c ginit evs1 = Some g1 -> gstep c g1 ev = Some (g2, Some (x, s)) -> x < RO_BASE ->
  In (id, r, SUCCESS) (fired (outs s)) ->
  run_trace c g2 evs2 = Some g3 ->
  exists en cm,
    submitted x cm id evs1 /\ ecmd en = cm /\
    In en (log (nd s)) /\ eidx en <= commit (nd s) /\
    forall b xb eb, aget b (nodes g3) = Some xb -> b < RO_BASE -> In eb (log xb) -> eidx eb = eidx en ->
                    eidx en <= commit xb -> eb = en.
Proof.
  intros c V evs1 ev evs2 g1 g2 g3 x s id r Hd Hb Hv Hok R1 ST Hx Hin R3.
  destruct (success_is_committed_core5_partial c V evs1 ev evs2 g1 g2 g3 x s id r
              Hd Hb Hv Hok R1 ST Hx Hin R3)
    as (en & x0 & now & rnd & bud & ord & sl & -> & Hx0 & Hx2 & Hen & Hlo & Hic & Hsub & Hall).
  assert (F : core_frag5 c V (evs1 ++ ETick x now rnd bud ord sl :: evs2)) by (apply core_frag_intro; assumption).
  destruct (core_frag_facts c V _ F) as (ND & HV & HNE & Hb1 & Hdyn & Hvf & Hro).
  rewrite RefineFinal.valid_from_app in Hvf. apply andb_true_iff in Hvf as [Hv1 Hv2].
  rewrite (run_ok5_app c ginit evs1 _ g1 R1) in Hro. apply andb_true_iff in Hro as [Hok1 Hok2].
  destruct (proj1 (grun_run_trace c ginit gh0 evs1 g1) R1) as [gh1 Hg1].
  destruct (run_fwinv c V ND HV HNE Hb1 Hdyn evs1 ginit gh0 [] (M.init (absV V)) [] g1 gh1
              (GI_init c V) (FwInv_init c V) Hv1 Hok1 Hg1) as (s1 & K1 & G1 & I1).
  cbn [app] in I1.
  (* the step itself *)
  cbn [valid_from] in Hv2. apply andb_true_iff in Hv2 as [Hev _].
  cbn [run_ok5] in Hok2. apply andb_true_iff in Hok2 as [Htb _].
  (* the subscription was there before the tick *)
  set (e := mk_env c now rnd bud ord sl) in *.
  pose proof (tickp_of_okb c g1 x now rnd bud ord sl x0 Htb Hx0) as Hfd. fold e in Hfd.
  destruct (quiet_tick_pre e x0 Hfd) as (_ & Qw & _).
  apply subs_of_In in Hsub. destruct Hsub as (subs0 & Hp0 & Ht0). apply Qw in Hp0.
  pose proof (FI_node _ _ _ _ _ I1 x x0 Hx0 Hx) as NI.
  destruct (N2_wc _ _ _ _ _ NI _ _ _ _ Hp0 Ht0) as (cm & Hsm & Hll).
  destruct (step_sim c V ND HV HNE Hb1 Hdyn g1 gh1 _ s1 _ g2 _ G1 Hev Htb ST) as (s2 & K2 & G2).
  pose proof (entry_in_llog c V ND HV HNE Hb1 g2 _ _ s2 x (nd s) en G2 Hx2 Hx Hen) as L2.
  pose proof (llog_has_mono c s1 s2 _ _ _ (llog_mono_kstar V s1 s2 (GI_reach c V g1 gh1 _ s1 G1) K2) Hll) as L1.
  unfold ProofsCallbacksCore3.llog_has in L1. rewrite L2 in L1.
  assert (L3 : absE (pk c) en = absE (pk c) (mkEntry cm (eidx en) (eterm en))) by congruence.
  apply absE_inj in L3. clear L1. rename L3 into L1.
  exists en, cm. split; [exact Hsm|]. split; [rewrite L1; reflexivity|]. split; [exact Hen|]. split; [exact Hic|exact Hall].
Qed.

(* ------------------------------------------------------------------------------------------ *)
(* a run with a forwarded command and a dump file configured (file_dump = true; every node ticks once
   right after its start, steps 9-11): callback 21 is submitted at the follower 2 (step 21), forwarded to
   the leader 1 with request id 1 (step 22), appended at index 3 (step 24), the answer moves the callback
   to the subscriptions of index 3 (step 26); node 2 starts a compaction (ECompact, step 35; the
   serializer runs from step 36 on, pid = 1 during the firing tick) and callback 21 fires SUCCESS at
   node 2 in step 40.  The Tier C3 statement does not apply to this run (file_dump = true). *)
From PSO Require Import Raft.Refine5Example.

Definition fw5_trace : list event :=
  [ERestart 1 [2;3] 0 0 1; ERestart 2 [1;3] 0 0 1; ERestart 3 [1;2] 0 0 1;
   EConnect 1 2; EConnect 2 1; EConnect 1 3; EConnect 3 1; EConnect 2 3; EConnect 3 2;
   t5T 1 1; t5T 1 2; t5T 1 3;
   t5T 50 1; t5D 51 1 3; t5D 52 3 1; t5D 51 1 2; t5D 52 2 1;
   t5D 53 1 3; t5D 54 3 1; t5D 53 1 2; t5D 54 2 1;
   ESubmit 2 (t5_cmd 7) 21; t5T 60 2;
   t5D 61 2 1; t5T 71 1;
   t5D 72 1 2; t5D 72 1 2; t5D 73 2 1; t5D 72 1 3; t5D 73 3 1;
   t5T 82 1; t5D 83 1 2; t5D 83 1 3; t5D 84 2 1; t5D 84 3 1;
   ECompact 2; t5T 90 2;
   t5T 93 1; t5D 94 1 2; t5D 94 1 3; t5T 104 2; t5T 104 3; t5T 115 2].

Example fw5_in_fragment : core_frag5 t5_confD t5_V fw5_trace.
Proof. repeat split; vm_compute; reflexivity. Qed.

Definition fw5_state (k : nat) : gstate :=
  match run_trace t5_confD ginit (firstn k fw5_trace) with Some g => g | None => ginit end.
Definition fw5_event (k : nat) : event := nth k fw5_trace (EKill 0).

Example success_forwarded5_example :
  fw5_trace = firstn 40 fw5_trace ++ fw5_event 40 :: skipn 41 fw5_trace /\
  dyn t5_confD = false /\ file_dump t5_confD = true /\ 1 < batch t5_confD /\
  valid t5_V fw5_trace = true /\ run_ok5 t5_confD ginit fw5_trace = true /\
  run_trace t5_confD ginit (firstn 40 fw5_trace) = Some (fw5_state 40) /\
  In 21 (fwd_run t5_confD ginit (firstn 40 fw5_trace)) /\
  In (ESubmit 2 (t5_cmd 7) 21) (firstn 40 fw5_trace) /\
  (exists n2, aget 2 (nodes (fw5_state 40)) = Some n2 /\ pid (sr n2) = 1) /\
  exists g2 s, gstep t5_confD (fw5_state 40) (fw5_event 40) = Some (g2, Some (2, s)) /\
               In (21, 2, SUCCESS) (fired (outs s)) /\
               map (fun en => (ck (ecmd en), ca (ecmd en), eidx en)) (log (nd s)) = [(1, 0, 1); (1, 0, 2); (0, 7, 3)] /\
               commit (nd s) = 3 /\
               exists g3, run_trace t5_confD g2 (skipn 41 fw5_trace) = Some g3.
Proof.
  split; [vm_compute; reflexivity|]. split; [reflexivity|]. split; [reflexivity|]. split; [vm_compute; reflexivity|].
  destruct fw5_in_fragment as (_ & _ & Hv & Hok). split; [exact Hv|]. split; [exact Hok|].
  split; [vm_compute; reflexivity|].
  split; [vm_compute; repeat (first [left; reflexivity|right])|].
  split; [vm_compute; repeat (first [left; reflexivity|right])|].
  split; [eexists; split; vm_compute; reflexivity|].
  do 2 eexists. split; [vm_compute; reflexivity|]. split; [vm_compute; auto|].
  split; [vm_compute; reflexivity|]. split; [vm_compute; reflexivity|]. eexists. vm_compute. reflexivity.
Qed.

(* the theorem instantiated on it *)
Example success_forwarded5_instance :
  exists g2 s g3 en,
    gstep t5_confD (fw5_state 40) (fw5_event 40) = Some (g2, Some (2, s)) /\
    run_trace t5_confD g2 (skipn 41 fw5_trace) = Some g3 /\
    submitted 2 (ecmd en) 21 (firstn 40 fw5_trace) /\ In en (log (nd s)) /\ eidx en <= commit (nd s) /\
    forall b xb eb, aget b (nodes g3) = Some xb -> b < RO_BASE -> In eb (log xb) -> eidx eb = eidx en ->
                    eidx en <= commit xb -> eb = en.
Proof.
  destruct success_forwarded5_example as (Es & Hd & _ & Hb & Hv & Hok & R1 & _ & _ & _ & g2 & s & ST & Hin & _ & _ & g3 & R3).
  rewrite Es in Hv, Hok.
  destruct (success_is_committed_core5_forwarded t5_confD t5_V _ _ _ _ g2 g3 2 s 21 2 Hd Hb Hv Hok R1 ST
              ltac:(reflexivity) Hin R3) as (en & cm & H1 & H2 & H3 & H4 & H5).
  exists g2, s, g3, en. rewrite H2.
  split; [exact ST|]. split; [exact R3|]. split; [exact H1|]. split; [exact H3|]. split; [exact H4|exact H5].
Qed.
