(* Tier CM2, part 7 (merge of Refine2MsgB.v and RefineMMsgB.v): the append_entries handler of a voter with
   dynamic membership whose log may be compacted.
   Regular AppendEntries: the follower's surgery on the suffix it still holds is AbstractM's [merge] on the
   ghost full log ([suffix_merge']); the membership undo / redo of [ae_regular] recomputes the member table
   from the new FULL log (exact because every membership entry of the log is effective).
   General forms of the two answers (K_ae_fail / K_ae_ok) that also allow the snapshot store, the member
   table and the match table of the L1 node to move (used by the snapshot branch in RefineM2MsgC). *)
From Coq Require Import ZArith NArith List Bool Lia ZifyBool Arith PeanoNat.
From RecordUpdate Require Import RecordSet.
From PSO Require Import Raft.Types Raft.Node Raft.Net Raft.ProofsCommitBase Raft.ProofsCommit.
From PSO Require Import Raft.ProofsElectionBase Raft.ProofsMembership Raft.ProofsMembershipInv.
From PSO Require Import Raft.RefineMAbs Raft.RefineMEff Raft.RefineMCfg Raft.RefineMK Raft.RefineMSpecA
  Raft.RefineMTickA Raft.RefineMMsgB.
From PSO Require Import Raft.RefineM2Abs Raft.RefineM2SpecA Raft.RefineM2Sim Raft.RefineM2TickA.
From PSO Require AbstractM.Model AbstractM.Lib AbstractM.Kstep AbstractM.Cfg AbstractM.Safety1_WF AbstractM.SafetyAll.
Import ListNotations.
Import RecordSetNotations.
Open Scope N_scope.
#[local] Arguments firstn : simpl nomatch.
#[local] Arguments skipn : simpl nomatch.

(* ------------------------------------------------------------------------------------------ *)
(* lists (copied from Refine2MsgB.v)                                                          *)

Lemma firstn_skipn_comm' {A} m n (l : list A) : firstn m (skipn n l) = skipn n (firstn (n + m) l).
Proof.
  revert l. induction n as [|n IH]; intros l; [reflexivity|].
  destruct l as [|a l]; [cbn; rewrite firstn_nil; reflexivity|]. cbn [skipn plus firstn]. apply IH.
Qed.

Lemma first_idx_app_firstn (l r : list entry) q :
  l <> [] -> (1 <= q)%nat -> first_idx (firstn q l ++ r) = first_idx l.
Proof. intros Hl Hq. destruct l as [|a l]; [contradiction|]. destruct q; [lia|]. reflexivity. Qed.

Lemma matched_prefix_le old new : (matched_prefix old new <= length old)%nat.
Proof.
  revert new. induction old as [|o old IH]; intros [|n new]; cbn; try lia.
  destruct (eterm o =? eterm n); [|lia]. specialize (IH new). lia.
Qed.

(* the follower's surgery on the suffix it holds is the merge on the full log; the part of the full
   log that was cut away is untouched *)
Lemma suffix_merge' l full pidx es b :
  l = skipn b full -> (b < length full)%nat -> first_idx l = N.of_nat b + 1 ->
  first_idx l <= pidx -> (n2 pidx <= length full)%nat ->
  let ptail := skipn (n2 pidx) full in
  let m := matched_prefix ptail es in
  let tr := truncating (skipn m ptail) (skipn m es) in
  let lg := (if tr then delete_from l (pidx + 1 + N.of_nat m) else l) ++ skipn m es in
  let full' := firstn (n2 pidx) full ++ l1merge ptail es in
  lg = skipn b full' /\ (b < length full')%nat /\ firstn b full' = firstn b full /\ first_idx lg = first_idx l.
Proof.
  intros E Hb Efi Hf Hlen. cbv zeta.
  pose proof (matched_prefix_le (skipn (n2 pidx) full) es) as Hm. rewrite skipn_length in Hm.
  assert (Hne : l <> []).
  { intros H0. assert (Hl : length l = 0%nat) by (rewrite H0; reflexivity).
    rewrite E, skipn_length in Hl. lia. }
  assert (Hpre : forall X, firstn b (firstn (n2 pidx) full ++ X) = firstn b full).
  { intros X. rewrite ML.firstn_app_le by (rewrite firstn_length; lia).
    rewrite firstn_firstn. f_equal. lia. }
  split; [|split; [|split; [apply Hpre|]]].
  - unfold l1merge.
    set (m := matched_prefix (skipn (n2 pidx) full) es) in *.
    destruct (truncating (skipn m (skipn (n2 pidx) full)) (skipn m es)).
    + unfold delete_from. rewrite Efi.
      destruct (pidx + 1 + N.of_nat m <? N.of_nat b + 1) eqn:E1; [lia|].
      assert (Hq : (b + n2 (pidx + 1 + N.of_nat m - (N.of_nat b + 1)) = n2 pidx + m)%nat) by lia.
      rewrite E at 1. rewrite firstn_skipn_comm', Hq. rewrite app_assoc, <- ML.firstn_add.
      rewrite skipn_app.
      assert (Hl : length (firstn (n2 pidx + m) full) = (n2 pidx + m)%nat) by (rewrite firstn_length; lia).
      rewrite Hl. replace (b - (n2 pidx + m))%nat with 0%nat by lia. reflexivity.
    + rewrite app_assoc, firstn_skipn. rewrite E.
      rewrite skipn_app. replace (b - length full)%nat with 0%nat by lia. reflexivity.
  - rewrite app_length, firstn_length. lia.
  - set (m := matched_prefix (skipn (n2 pidx) full) es) in *.
    destruct (truncating (skipn m (skipn (n2 pidx) full)) (skipn m es)).
    + unfold delete_from. rewrite Efi.
      destruct (pidx + 1 + N.of_nat m <? N.of_nat b + 1) eqn:E1; [lia|].
      rewrite <- Efi. apply first_idx_app_firstn; [exact Hne|rewrite Efi; lia].
    + destruct l; [contradiction|reflexivity].
Qed.

(* the fields the node relation reads, without the serializer, the member table and the match table *)
Definition fy (x : node) := (self x, role x, term x, voted x, commit x).

Lemma fy_eq x y : fy x = fy y ->
  self x = self y /\ role x = role y /\ term x = term y /\ voted x = voted y /\ commit x = commit y.
Proof. unfold fy. intros H. repeat split; congruence. Qed.

(* the same with the member table, the log and the match table *)
Definition fx (x : node) := (self x, others x, role x, term x, voted x, log x, commit x, match_idx x).

Lemma fx_eq x y : fx x = fx y ->
  self x = self y /\ others x = others y /\ role x = role y /\ term x = term y /\ voted x = voted y /\
  log x = log y /\ commit x = commit y /\ match_idx x = match_idx y.
Proof. unfold fx. intros H. repeat split; congruence. Qed.

Lemma fv_fx x y : fv x = fv y -> fx x = fx y.
Proof. intros H. fvinj H. unfold fx. congruence. Qed.

Lemma fvo_fy x y : fvo x = fvo y -> fy x = fy y.
Proof.
  intros H. destruct (fvo_eq _ _ H) as (E1 & E2 & E3 & E4 & E5 & E6 & E7 & _). unfold fy. congruence.
Qed.

Section Msg.
Variable c : conf.
Variable mf : N -> N -> N * N.
Variable V : list nid.
Hypothesis NDV : NoDup V.
Hypothesis SV : ssorted V.
Hypothesis VNE : V <> [].
Hypothesis VRO : forall v, In v V -> v < RO_BASE.
Hypothesis Hb1 : 1 < batch c.
Hypothesis Hdyn : dyn c = true.
Hypothesis Hfd : file_dump c = false.
Variable e : env.
Hypothesis Hc : cf e = c.
Set Default Proof Using "All".

Notation V' := (absV V).
Notation Rn := (Rn c mf V).
Notation Rmsg := (Rmsg c mf V).
Notation Ro := (Ro c mf V).
Notation Hn := (Hn c mf).
Notation ksn := (ksn V).
Notation kstar := (kstar V).
Notation LS := (LS c mf V).
Notation pk := (pk c).
Notation small := (small c mf).
Notation held := (held c mf V).
Notation blob_valid := (blob_valid c mf V).
Notation okout := (okout c mf V).
Notation kall := (kall V NDV VNE).
Notation LS_ksn := (LS_ksn c mf V NDV SV VNE VRO Hb1).
Notation LS_full := (LS_full c mf V NDV SV VNE VRO Hb1).
Notation LS_up := (LS_up c mf V NDV SV VNE VRO Hb1).
Notation LS_not_self := (LS_not_self c mf V NDV SV VNE VRO Hb1).
Notation LS_sorted := (LS_sorted c mf V NDV SV VNE VRO Hb1).
Notation Hn_hv := (Hn_hv c mf V NDV SV VNE VRO Hb1).
Notation held_le := (held_le c mf V NDV SV VNE VRO Hb1).
Notation grow_Ro := (grow_Ro c mf V NDV SV VNE VRO Hb1 Hdyn Hfd e Hc).
Notation nosend_okout := (nosend_okout c mf V NDV SV VNE VRO Hb1 Hdyn Hfd e Hc).
Notation Hn_hv0 := (Hn_hv0 c mf V NDV SV VNE VRO Hb1 Hdyn Hfd e Hc).

(* what may happen to the snapshot store of the L1 node during a handler *)
Definition blobs_ok (x x' : node) (s : M.state) : Prop :=
  (forall bl, stored (sr x') = Some bl -> stored (sr x) = Some bl \/ held x' s bl) /\
  tr_ok x x' /\
  (forall ps bl o l, incoming (sr x') = Some ps -> In (bl, o, l) ps ->
     (exists ps0, incoming (sr x) = Some ps0 /\ In (bl, o, l) ps0) \/ blob_valid s bl).

Lemma blobs_ok_same x x' s : sr x' = sr x -> blobs_ok x x' s.
Proof.
  intros E. split; [|split].
  - intros bl H. left. congruence.
  - apply tr_ok_same. congruence.
  - intros ps bl o l H1 H2. left. exists ps. split; [congruence|auto].
Qed.

Lemma Rn_intro2 n x x' s s' :
  KS.kreachable V' F0 s -> kstar s s' -> Rn n x s -> blobs_ok x x' s ->
  commit x <= commit x' ->
  M.lf (M.nodes s' (n2 n)) = M.Up ->
  M.term (M.nodes s' (n2 n)) = n2 (term x') ->
  M.voted (M.nodes s' (n2 n)) = option_map n2 (voted x') ->
  M.rl (M.nodes s' (n2 n)) = absR (role x') ->
  (exists full, M.log (M.nodes s' (n2 n)) = absL pk full /\ suffix_of (log x') full /\
                Forall small full /\ others x' = fold_members (vminus n V) full (Some n)) ->
  M.commit (M.nodes s' (n2 n)) = n2 (commit x') ->
  (role x' = CANDIDATE ->
     length (M.votesFrom (M.nodes s' (n2 n))) = n2 (votes x') /\ In (n2 n) (M.votesFrom (M.nodes s' (n2 n)))) ->
  (forall f m, In f (others x') -> f <> n -> aget f (match_idx x') = Some m ->
     (n2 m <= M.matchIdx (M.nodes s' (n2 n)) (n2 f))%nat) ->
  (voted x' = Some n -> In (n2 (term x'), n2 n, n2 n) (M.grants s')) ->
  (role x' = LEADER -> noop_idx x' = Some (N.of_nat (M.noopi (M.nodes s' (n2 n))) + 1)) ->
  Rn n x' s'.
Proof.
  intros HR K [A0 A1 A2 A3 A4 A5 A6 A7 A8 A9 A10 A11 A12] (Bs & Bt & Bi) Hcm B0 B1 B2 B3 B4 B5 B6 B7 B8 B9.
  constructor; auto.
  - intros bl Hb. destruct (Bs bl Hb) as [H|H].
    + eapply held_le; [exact Hcm|]. eapply (held_kstar c mf V NDV VNE); eauto.
    + eapply (held_kstar c mf V NDV VNE); eauto.
  - intros d bl off Hb. eapply held_le; [exact Hcm|]. eapply (held_kstar c mf V NDV VNE); eauto.
    destruct (Bt d bl off Hb) as [H1|(d' & off' & H1)]; eauto.
  - intros ps bl o l Hi Hb. destruct (Bi ps bl o l Hi Hb) as [(ps0 & H1 & H2)|H];
      eapply (blob_valid_kstar c mf V NDV VNE); eauto.
Qed.

(* adopt the sender's term when it is higher; the role is settled by the following step *)
Lemma sim_ae_adopt n S s t :
  LS n s S -> term (nd S) <= t ->
  exists s1, ksn (n2 n) s s1 /\ KS.kreachable V' F0 s1 /\
    M.term (M.nodes s1 (n2 n)) = n2 t /\
    M.voted (M.nodes s1 (n2 n)) = option_map n2 (if term (nd S) <? t then None else voted (nd S)) /\
    M.log (M.nodes s1 (n2 n)) = M.log (M.nodes s (n2 n)) /\
    M.commit (M.nodes s1 (n2 n)) = M.commit (M.nodes s (n2 n)) /\
    M.matchIdx (M.nodes s1 (n2 n)) = M.matchIdx (M.nodes s (n2 n)) /\
    M.net s1 = M.net s /\ M.grants s1 = M.grants s /\ M.lf (M.nodes s1 (n2 n)) = M.Up.
Proof.
  intros L Ht.
  pose proof (LS_n _ _ _ _ _ _ L) as RN. pose proof (LS_up _ _ _ L) as Hj.
  pose proof (Rn_term _ _ _ _ _ _ RN) as A1. pose proof (Rn_voted _ _ _ _ _ _ RN) as A2.
  destruct (term (nd S) <? t) eqn:E.
  - apply N.ltb_lt in E.
    assert (Hlt : (M.term (M.nodes s (n2 n)) < n2 t)%nat) by (rewrite A1; lia).
    destruct (t_adopt_ok V' (n2 n) (n2 t) s Hj Hlt) as [K E1].
    exists (t_adopt (n2 n) (n2 t) s). split; [apply ksn_one; auto|].
    split; [eapply KS.kreach_step; [apply (LS_reach _ _ _ _ _ _ L)|exact K]|].
    unfold t_adopt, M.set_node, M.bump. cbn [M.nodes M.net M.grants]. rewrite upd_eq. cbn. auto 12.
  - apply N.ltb_ge in E. exists s. split; [constructor|]. split; [apply (LS_reach _ _ _ _ _ _ L)|].
    rewrite A1, A2. repeat split; auto. f_equal. lia.
Qed.

(* the refusing answer, in general *)
Lemma sim_ae_fail n a (S S' : Node.S) s t :
  LS n s S -> some_ae t a n s -> a <> n -> term (nd S) <= t ->
  fx (nd S') = fx ((nd S) <| term := if term (nd S) <? t then t else term (nd S) |>
                           <| voted := if term (nd S) <? t then None else voted (nd S) |>
                           <| role := FOLLOWER |>) ->
  blobs_ok (nd S) (nd S') s -> Hn (nd S') ->
  grow (is_fail_reply a) S S' ->
  exists s', ksn (n2 n) s s' /\ LS n s' S'.
Proof.
  intros L (pi & pt & es & lc & Hae) Hne Ht F B HN G.
  destruct (sim_ae_adopt n S s t L Ht) as (s1 & K1 & R1 & B1 & B2 & B3 & B4 & B5 & B6 & B7 & B8).
  pose proof (LS_n _ _ _ _ _ _ L) as RN.
  assert (Hin : In (M.AppendEntries (n2 t) (n2 a) (n2 n) pi pt es lc) (M.net s1)) by (rewrite B6; exact Hae).
  assert (Hnj : n2 n <> n2 a) by lia.
  destruct (t_ae_fail_ok V' (n2 n) (n2 t) (n2 a) pi pt es lc s1 B8 Hin Hnj B1) as [K2 E2].
  set (s2 := M.ae_fail (n2 n) (n2 t) s1) in *.
  assert (K : ksn (n2 n) s s2) by (eapply ksn_trans; [exact K1|apply ksn_one; auto]).
  exists s2. split; [exact K|].
  destruct (fx_eq _ _ F) as (Fself & Foth & Frole & Fterm & Fvoted & Flog & Fcommit & Fmatch).
  cbn in Fself, Foth, Frole, Fterm, Fvoted, Flog, Fcommit, Fmatch.
  apply (LS_ksn n s s2 S S' K L).
  - eapply Rn_intro2;
      [apply (LS_reach _ _ _ _ _ _ L)|eapply ksn_kstar; exact K|exact RN|exact B|rewrite Fcommit; lia|..];
      unfold s2, M.ae_fail; cbn [M.nodes M.grants]; rewrite ?upd_eq;
      cbn [M.term M.voted M.rl M.log M.commit M.votesFrom M.matchIdx M.lf M.noopi].
    + exact B8.
    + rewrite Fterm, B1. destruct (term (nd S) <? t) eqn:E; [reflexivity|]. apply N.ltb_ge in E. f_equal. lia.
    + rewrite Fvoted, B2. reflexivity.
    + rewrite Frole. reflexivity.
    + rewrite Flog, Foth, B3. apply (Rn_log _ _ _ _ _ _ RN).
    + rewrite Fcommit, B4. apply (Rn_commit _ _ _ _ _ _ RN).
    + intros Hx. rewrite Frole in Hx. compute in Hx. discriminate.
    + intros f m Hf Hnf Hg. rewrite Fmatch in Hg. rewrite Foth in Hf. rewrite B5.
      eapply (Rn_match _ _ _ _ _ _ RN); eauto.
    + intros Hv. rewrite Fvoted in Hv. rewrite B7. rewrite Fterm.
      destruct (term (nd S) <? t); [discriminate|]. apply (Rn_self _ _ _ _ _ _ RN). exact Hv.
    + intros Hx. rewrite Frole in Hx. discriminate.
  - exact HN.
  - rewrite Fself. apply (LS_self _ _ _ _ _ _ L).
  - apply (grow_Ro (is_fail_reply a)); [|exact G].
    intros o [Ho|(t' & nx & r & ->)]; [apply nosend_okout; auto|]. cbn. intros Hx. discriminate.
Qed.

(* the accepting answer, in general: [full'] is the merge on the ghost full log; the member table of the
   result is the fold over [full'], the match table stays below AbstractM's matchIdx *)
Lemma sim_ae_ok n a (S S' : Node.S) s t cm pidx pterm es p0 full full' cmt nx :
  LS n s S -> a <> n -> a < RO_BASE -> term (nd S) <= t ->
  M.log (M.nodes s (n2 n)) = absL pk full -> Forall small full ->
  In (M.AppendEntries (n2 t) (n2 a) (n2 n) (n2 pidx) (n2 pterm) (absL pk es) (n2 cm)) (M.net s) ->
  Forall small es -> 1 <= pidx ->
  nth_error full (n2 pidx - 1) = Some p0 -> eterm p0 = pterm ->
  full' = firstn (n2 pidx) full ++ l1merge (skipn (n2 pidx) full) es ->
  suffix_of (log (nd S')) full' ->
  (forall s2, KS.kreachable V' F0 s2 -> kstar s s2 -> M.log (M.nodes s2 (n2 n)) = absL pk full' ->
     (n2 cmt <= M.commit (M.nodes s2 (n2 n)))%nat -> others (nd S') = fold_members (vminus n V) full' (Some n)) ->
  cmt = (if commit (nd S) <? cm then N.max (commit (nd S)) (N.min cm (nx - 1)) else commit (nd S)) ->
  nx - 1 = pidx + N.of_nat (length es) ->
  fy (nd S') = fy ((nd S) <| term := if term (nd S) <? t then t else term (nd S) |>
                           <| voted := if term (nd S) <? t then None else voted (nd S) |>
                           <| role := FOLLOWER |> <| commit := cmt |>) ->
  Pm (M.matchIdx (M.nodes s (n2 n))) (nd S') ->
  blobs_ok (nd S) (nd S') s -> Hn (nd S') ->
  grow (fun o => nosend o \/ o = Send a (NextIdx t nx false true)) S S' ->
  exists s', ksn (n2 n) s s' /\ LS n s' S'.
Proof.
  intros L Hne Ha Ht EL Smf Hae Hsm Hp1 Hp0 Hpt Efull Sx' Hoth0 Ecmt Enx F HPm B HN G.
  destruct (sim_ae_adopt n S s t L Ht) as (s1 & K1 & R1 & B1 & B2 & B3 & B4 & B5 & B6 & B7 & B8).
  pose proof (LS_n _ _ _ _ _ _ L) as RN.
  assert (Hpi : n2 pidx = Sn (n2 pidx - 1)) by lia.
  assert (Hin : In (M.AppendEntries (n2 t) (n2 a) (n2 n) (Sn (n2 pidx - 1)) (n2 pterm) (absL pk es) (n2 cm)) (M.net s1)).
  { rewrite B6, <- Hpi. exact Hae. }
  assert (Hnj : n2 n <> n2 a) by lia.
  assert (Hpe : nth_error (M.log (M.nodes s1 (n2 n))) (n2 pidx - 1) = Some (absE pk p0)).
  { rewrite B3, EL, absL_nth, Hp0. reflexivity. }
  assert (Hpte : M.eterm (absE pk p0) = n2 pterm) by (cbn; rewrite Hpt; reflexivity).
  destruct (t_ae_ok_ok V' (n2 n) (n2 t) (n2 a) (n2 pidx - 1) (n2 pterm) (absL pk es) (n2 cm) (absE pk p0) s1
              B8 Hin Hnj B1 Hpe Hpte) as [K2 E2].
  set (s2 := M.ae_ok (n2 n) (n2 t) (Sn (n2 pidx - 1)) (absL pk es) (n2 cm) s1) in *.
  assert (K : ksn (n2 n) s s2) by (eapply ksn_trans; [exact K1|apply ksn_one; auto]).
  exists s2. split; [exact K|].
  destruct (fy_eq _ _ F) as (Fself & Frole & Fterm & Fvoted & Fcommit).
  cbn in Fself, Frole, Fterm, Fvoted, Fcommit.
  assert (Hcm : commit (nd S) <= commit (nd S')).
  { rewrite Fcommit, Ecmt. destruct (commit (nd S) <? cm); lia. }
  assert (EL2 : M.log (M.nodes s2 (n2 n)) = absL pk full').
  { unfold s2, M.ae_ok. cbn [M.nodes]. rewrite upd_eq. cbn [M.log].
    rewrite Efull, B3, EL, <- Hpi. rewrite absL_app, absL_firstn. f_equal.
    rewrite <- absL_skipn. apply merge_abs. }
  assert (EC2 : M.commit (M.nodes s2 (n2 n)) = n2 cmt).
  { unfold s2, M.ae_ok. cbn [M.nodes]. rewrite upd_eq. cbn [M.commit].
    rewrite Ecmt, B4, (Rn_commit _ _ _ _ _ _ RN). rewrite absL_length, <- Hpi.
    destruct (commit (nd S) <? cm) eqn:E; [apply N.ltb_lt in E|apply N.ltb_ge in E]; lia. }
  assert (Hoth : others (nd S') = fold_members (vminus n V) full' (Some n)).
  { apply (Hoth0 s2); [eapply ksn_kreachable; [exact K|apply (LS_reach _ _ _ _ _ _ L)]|eapply ksn_kstar; exact K|exact EL2|].
    rewrite EC2. lia. }
  apply (LS_ksn n s s2 S S' K L).
  - eapply Rn_intro2;
      [apply (LS_reach _ _ _ _ _ _ L)|eapply ksn_kstar; exact K|exact RN|exact B|exact Hcm|..];
      unfold s2, M.ae_ok; cbn [M.nodes M.grants]; rewrite ?upd_eq;
      cbn [M.term M.voted M.rl M.log M.commit M.votesFrom M.matchIdx M.lf M.noopi].
    + exact B8.
    + rewrite Fterm, B1. destruct (term (nd S) <? t) eqn:E; [reflexivity|]. apply N.ltb_ge in E. f_equal. lia.
    + rewrite Fvoted, B2. reflexivity.
    + rewrite Frole. reflexivity.
    + exists full'. split; [|split; [exact Sx'|split; [|exact Hoth]]].
      * rewrite Efull, B3, EL, <- Hpi. rewrite absL_app, absL_firstn. f_equal.
        rewrite <- absL_skipn. apply merge_abs.
      * rewrite Efull. apply Forall_app. split; [apply Forall_firstn; exact Smf|].
        apply l1merge_small; [apply Forall_skipn; exact Smf|exact Hsm].
    + rewrite Fcommit, Ecmt, B4, (Rn_commit _ _ _ _ _ _ RN). rewrite absL_length, <- Hpi.
      destruct (commit (nd S) <? cm) eqn:E; [apply N.ltb_lt in E|apply N.ltb_ge in E]; lia.
    + intros Hx. rewrite Frole in Hx. compute in Hx. discriminate.
    + intros f m Hf Hnf Hg. rewrite B5. apply (HPm f m Hf Hg).
    + intros Hv. rewrite Fvoted in Hv. rewrite B7. rewrite Fterm.
      destruct (term (nd S) <? t); [discriminate|]. apply (Rn_self _ _ _ _ _ _ RN). exact Hv.
    + intros Hx. rewrite Frole in Hx. discriminate.
  - exact HN.
  - rewrite Fself. apply (LS_self _ _ _ _ _ _ L).
  - apply (grow_Ro (fun o => nosend o \/ o = Send a (NextIdx t nx false true))); [|exact G].
    intros o [Ho| ->]; [apply nosend_okout; auto|]. cbn. intros _ _.
    unfold s2, M.ae_ok. cbn [M.net]. left. rewrite absL_length. f_equal. lia.
Qed.

(* ---- a regular AppendEntries ---- *)
Lemma sim_msg_ae n a x s t cm prev es :
  LS n s (start_S e x) -> Rmsg a n (AE t cm prev es) s ->
  exists s', ksn (n2 n) s s' /\ LS n s' (on_message e a (AE t cm prev es) x).
Proof.
  intros L Hm. unfold on_message. set (S0 := start_S e x) in *.
  rewrite on_append_entries_eq.
  destruct (t <? term (nd S0)) eqn:Et; [exists s; split; [constructor|exact L]|].
  apply N.ltb_ge in Et.
  destruct (ae_pre_spec e a t cm S0) as [F1 G1].
  destruct (ae_pre_nc e a t cm S0) as [N1 N2].
  set (S1 := ae_pre e a t cm S0) in *. clearbody S1.
  destruct (LS_full _ _ _ L) as (full & EL & W & Sx & Smf & Hof).
  pose proof (LS_h _ _ _ _ _ _ L) as HN0. pose proof (LS_n _ _ _ _ _ _ L) as RN.
  pose proof (LS_lt _ _ _ _ _ _ L) as Hnlt.
  assert (Hd : dyn (cf e) = true) by (rewrite Hc; exact Hdyn).
  fvinj_n F1 P.
  assert (Hlog1 : log (nd S1) = log (nd S0)) by exact Plog.
  cbn [ae_body_of].
  (* failing branches *)
  assert (Hfail : forall S', nd S' = nd S1 -> grow (is_fail_reply a) S1 S' -> some_ae t a n s -> a <> n ->
                  exists s', ksn (n2 n) s s' /\ LS n s' S').
  { intros S' En G Hs Hne. apply (sim_ae_fail n a S0 S' s t); auto.
    - rewrite En. apply fv_fx. exact F1.
    - apply blobs_ok_same. rewrite En. exact Psr.
    - eapply Hn_hv0; [| |exact HN0].
      + rewrite En. unfold hv0. rewrite Plog, Pqueue, Preplay, Papplied, Pro, Pcommit, Psr, Poth. reflexivity.
      + apply pend_not_leader. rewrite En, Prole. discriminate.
    - eapply grow_trans; [|exact G]. eapply grow_mono; [|exact G1]. intros o Ho. left. exact Ho. }
  destruct prev as [[pidx pterm]|].
  2:{ destruct Hm as (Ha & Hne & Hs).
      destruct (ae_regular_fail_none e a cm es S1) as [En G]. apply Hfail; auto. }
  destruct Hm as (Ha & Hne & Hsm & Hin). specialize (Hin Hnlt).
  assert (Hs : some_ae t a n s) by (unfold some_ae; eauto).
  destruct (N.ltb_spec pidx (first_idx (log (nd S0)))) as [Hlt|Hge0].
  { destruct (ae_regular_fail_empty e a cm pidx pterm es S1) as [En G];
      [rewrite Hlog1; apply suffix_lt; exact Hlt|].
    apply Hfail; auto. }
  pose proof (suffix_first_pos _ _ W Sx) as Hfp.
  assert (Hp1 : 1 <= pidx) by lia.
  assert (Hge : get_entries (log (nd S1)) (Some pidx) None None = skipn (n2 pidx - 1) full).
  { rewrite Hlog1, (suffix_ge _ _ W Sx) by exact Hge0. apply ge_from; auto. }
  destruct (nth_error full (n2 pidx - 1)) as [p0|] eqn:Ep.
  2:{ destruct (ae_regular_fail_empty e a cm pidx pterm es S1) as [En G].
      - rewrite Hge. apply skipn_all2. apply nth_error_None. exact Ep.
      - apply Hfail; auto. }
  rewrite (skipn_nth_cons _ _ _ Ep) in Hge. replace (Sn (n2 pidx - 1)) with (n2 pidx) in Hge by lia.
  destruct (N.eq_dec (eterm p0) pterm) as [Hpt|Hpt].
  2:{ destruct (ae_regular_fail_term e a cm pidx pterm es S1 p0 _ Hge Hpt) as [En G]. apply Hfail; auto. }
  (* the accepting branch *)
  destruct (ae_regular_succ e Hd a cm pidx pterm es S1 p0 _ Hge Hpt) as [F2 G2]. cbv zeta in F2, G2.
  assert (Hlen : (n2 pidx <= length full)%nat).
  { assert (n2 pidx - 1 < length full)%nat by (apply nth_error_Some; congruence). lia. }
  destruct (suffix_base _ _ W Sx) as (b & Eb & Hb & Efi).
  destruct (suffix_merge' (log (nd S0)) full pidx es b Eb Hb Efi Hge0 Hlen) as (Elg & Hb' & Ecut & Hfi').
  cbv zeta in Elg, Hb', Ecut, Hfi'.
  (* the member table follows the FULL log *)
  set (cut := firstn b full) in *.
  assert (Efull : full = cut ++ log (nd S0)) by (unfold cut; rewrite Eb, firstn_skipn; reflexivity).
  assert (Hsb : ssorted (vminus n V)) by (apply ssorted_vminus; exact SV).
  set (base' := fold_members (vminus n V) cut (Some n)).
  assert (Hsb' : ssorted base') by (apply ssorted_fold_members; exact Hsb).
  assert (Hself1 : self (nd S1) = Some n) by (rewrite Pself; apply (LS_self _ _ _ _ _ _ L)).
  assert (Hoth1 : others (nd S1) = fold_members base' (log (nd S1)) (self (nd S1))).
  { rewrite Hself1, Poth, Plog. unfold base'. rewrite <- fold_members_app. change (log x) with (log (nd S0)).
    rewrite <- Efull. exact Hof. }
  assert (Hleff : leff V' (absL pk full)).
  { rewrite <- EL. apply (leff_kreachable V' F0 F0_disc (V'_nodup V NDV) (V'_ne V NDV VNE)).
    apply (LS_reach _ _ _ _ _ _ L). }
  destruct (members_follow_log_append e a cm pidx pterm es S1 p0 _ base' Hd Hge Hpt Hsb' Hoth1)
    as (Hsplit & Hlog2 & Hoth2).
  { intros _. rewrite Hself1. unfold base'. rewrite <- fold_members_app. apply (leff_undo pk n V _ _ Hsb).
    rewrite <- app_assoc, <- (ae_split (log (nd S1)) pidx p0 _ _ Hge), Hlog1, <- Efull. exact Hleff. }
  cbv zeta in Hsplit, Hlog2, Hoth2. rewrite Hself1 in Hoth2.
  (* the match table *)
  assert (HPm : Pm (M.matchIdx (M.nodes s (n2 n))) (nd (ae_regular e a cm (Some (pidx, pterm)) es S1))).
  { apply (ae_regular_Pm e Hd).
    - rewrite Poth. apply (LS_sorted _ _ _ L).
    - intros f mm Hf Hg. rewrite Poth in Hf. rewrite Pmatch in Hg.
      apply (Rn_match _ _ _ _ _ _ RN f mm Hf); [|exact Hg].
      intros ->. apply (LS_not_self _ _ _ L). exact Hf. }
  set (S2 := ae_regular e a cm (Some (pidx, pterm)) es S1) in *. clearbody S2.
  set (ptail := skipn (n2 pidx) full) in *.
  set (m := matched_prefix ptail es) in *.
  set (nx := match last_entry es with Some le => eidx le + 1 | None => pidx + 1 end) in *.
  set (tr := truncating (skipn m ptail) (skipn m es)) in *.
  rewrite Hlog1 in F2, Hlog2.
  set (lg := (if tr then delete_from (log (nd S0)) (pidx + 1 + N.of_nat m) else log (nd S0)) ++ skipn m es) in *.
  set (full' := firstn (n2 pidx) full ++ l1merge ptail es) in *.
  set (cmt := if commit (nd S0) <? cm then N.max (commit (nd S0)) (N.min cm (nx - 1)) else commit (nd S0)).
  destruct (fvo_eq _ _ F2) as (Qself & Qrole & Qterm & Qvoted & Qvotes & Qlog & Qcommit & Qsr & Qqueue & Qapplied &
                               Qreplay & Qro & Qnoop & Qchg).
  cbn in Qself, Qrole, Qterm, Qvoted, Qvotes, Qlog, Qcommit, Qsr, Qqueue, Qapplied, Qreplay, Qro, Qnoop, Qchg.
  assert (Efull' : full' = cut ++ lg).
  { rewrite <- (firstn_skipn b full'), Ecut, <- Elg. reflexivity. }
  assert (Hnx : nx - 1 = pidx + N.of_nat (length es)).
  { apply (es_last_idx c V NDV SV VNE VRO Hb1 Hdyn Hfd e Hc s t a (n2 n) pidx pterm es cm); auto.
    apply (LS_reach _ _ _ _ _ _ L). }
  assert (G3 : grow (fun o => nosend o \/ o = Send a (NextIdx t nx false true)) S0 S2).
  { eapply grow_trans; [eapply grow_mono; [|exact G1]; intros o Ho; left; exact Ho|].
    eapply grow_mono; [|exact G2]. intros o [Ho| ->]; [left; exact Ho|]. right. rewrite Pterm.
    change (term (nd S0)) with (term x) in Et.
    destruct (term x <? t) eqn:E; [reflexivity|]. apply N.ltb_ge in E. f_equal. f_equal. lia. }
  apply (sim_ae_ok n a S0 S2 s t cm pidx pterm es p0 full full' cmt nx); auto.
  - rewrite Qlog. exists b. split; [exact Elg|exact Hb'].
  - intros _ _ _ _ _. rewrite Hoth2, Hlog2, Efull'. unfold base'. rewrite <- fold_members_app. reflexivity.
  - unfold fy. rewrite Qself, Qrole, Qterm, Qvoted, Qcommit.
    rewrite Pself, Prole, Pterm, Pvoted, Pcommit. reflexivity.
  - apply blobs_ok_same. rewrite Qsr. exact Psr.
  - destruct HN0 as [C1 C2 C3 C4 C5 C6 C7 C8 C9 C10]. change (nd S0) with x in C1, C2, C3, C4, C5, C6, C7, C8, C9, Hfi' |- *.
    constructor; rewrite ?Qlog, ?Qqueue, ?Qreplay, ?Qapplied, ?Qro, ?Qcommit, ?Qsr,
      ?Pqueue, ?Preplay, ?Papplied, ?Pro, ?Pcommit, ?Psr; auto.
    + unfold lg. apply Forall_app. split; [|apply Forall_skipn; exact Hsm].
      destruct tr; [|exact C1]. unfold delete_from.
      destruct (pidx + 1 + N.of_nat m <? first_idx (log (nd S0))); [exact C1|apply Forall_firstn; exact C1].
    + assert (Hrp : forall bb : bool, (if bb then N.min (replay_idx x) (pidx + N.of_nat m) else replay_idx x) <= applied x) by (intros [|]; lia). apply Hrp.
    + destruct (commit x <? cm); lia.
    + rewrite Hfi'. exact C6.
    + apply pend_not_leader. rewrite Qrole, Prole. discriminate.
Qed.

End Msg.
