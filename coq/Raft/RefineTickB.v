(* Tier C, part 6: the phases of _onTick, second half: applying entries, heartbeats, the command
   queue, log compaction (idle in the fragment), and the whole tick. *)
From Coq Require Import ZArith NArith List Bool Lia ZifyBool Arith PeanoNat.
From RecordUpdate Require Import RecordSet.
From PSO Require Import Raft.Types Raft.Node Raft.Net Raft.ProofsCommitBase.
From PSO Require Import Raft.ProofsElectionBase Raft.RefineAbs Raft.RefineK Raft.RefineSpecA Raft.RefineSim
  Raft.RefineTickA.
From PSO Require Abstract.Model Abstract.Lib Abstract.Kstep.
Import ListNotations.
Import RecordSetNotations.
Open Scope N_scope.
#[local] Arguments firstn : simpl nomatch.
#[local] Arguments skipn : simpl nomatch.

(* everything the refinement reads except [applied] *)
Definition fvA (x : node) :=
  (self x, others x, role x, term x, voted x, votes x, log x, commit x, match_idx x,
   sr x, queue x, replay_idx x, readonly x).

Lemma fvA_eq x y : fvA x = fvA y ->
  self x = self y /\ others x = others y /\ rv x = rv y /\
  sr x = sr y /\ log x = log y /\ queue x = queue y /\ replay_idx x = replay_idx y /\ readonly x = readonly y.
Proof. unfold fvA, rv. intros H. injection H; intros. repeat split; congruence. Qed.

Definition app_rel (s s' : S) : Prop :=
  fvA (nd s') = fvA (nd s) /\ applied (nd s) <= applied (nd s') /\ grow nosend s s'.

Lemma app_rel_refl s : app_rel s s.
Proof. split; auto. split; [lia|apply grow_refl]. Qed.

Lemma app_rel_trans a b c : app_rel a b -> app_rel b c -> app_rel a c.
Proof.
  intros (A1 & A2 & A3) (B1 & B2 & B3). split; [congruence|]. split; [lia|]. eapply grow_trans; eauto.
Qed.

Lemma do_apply_spec cm s :
  replay_idx (nd s) <= applied (nd s) ->
  fv (nd (fst (do_apply cm s))) = fv (nd s) /\ outs (fst (do_apply cm s)) = outs s.
Proof.
  intros Hr. unfold do_apply.
  destruct (ck cm =? 3).
  - destruct (self_ver (nd s) <? ca cm); cbn; auto.
  - destruct (membership_of cm) as [[a x]|].
    + destruct (applied (nd s) <? replay_idx (nd s)) eqn:E; [lia|]. cbn. auto.
    + destruct (ck cm =? 0); [|cbn; auto]. destruct (cb cm =? 1); cbn; auto.
Qed.

Lemma fold_fire_nd (f : S -> N * cbref -> S) l s :
  (forall s tc, nd (f s tc) = nd s) -> nd (fold_left f l s) = nd s.
Proof. apply nd_fold. Qed.

Lemma apply_one_spec en s :
  replay_idx (nd s) <= applied (nd s) -> app_rel s (fst (apply_one en s)).
Proof.
  intros Hr. unfold apply_one.
  set (s0 := upd (fun n => n <| wait_commit := adel (eidx en) (wait_commit n) |>) s).
  destruct (do_apply_spec (ecmd en) s0) as [F O]; [exact Hr|].
  assert (A0 : app_rel s (fst (do_apply (ecmd en) s0))).
  { split; [|split].
    - fvinj_n F F. unfold fvA. unfold rv. cbn in *. congruence.
    - fvinj_n F F. cbn in *. lia.
    - apply grow_eq. rewrite O. reflexivity. }
  destruct (do_apply (ecmd en) s0) as [s1 ar]. cbn [fst] in *.
  assert (Hfin : forall r, app_rel s
     (upd (fun n => n <| applied := applied n + 1 |>)
        (fold_left (fun s2 tc => if fst tc =? eterm en then fire (snd tc) r SUCCESS s2
                                 else fire (snd tc) 0 DISCARDED s2)
                   match aget (eidx en) (wait_commit (nd s)) with Some l => l | None => [] end s1))).
  { intros r. eapply app_rel_trans; [exact A0|].
    set (l := match aget (eidx en) (wait_commit (nd s)) with Some l => l | None => [] end).
    set (f := fun (s2 : S) (tc : N * cbref) => if fst tc =? eterm en then fire (snd tc) r SUCCESS s2
                                 else fire (snd tc) 0 DISCARDED s2).
    assert (Nf : nd (fold_left f l s1) = nd s1).
    { apply nd_fold. intros s2 tc. unfold f. destruct (_ =? _); apply nd_fire. }
    split; [|split].
    - rewrite nd_upd, Nf. reflexivity.
    - rewrite nd_upd, Nf. cbn. lia.
    - eapply grow_trans; [|apply grow_upd]. apply grow_fold. intros s2 tc. unfold f.
      destruct (_ =? _); apply grow_fire; auto. }
  destruct ar; cbn [fst]; auto.
Qed.

Lemma app_rel_rinv s s' : app_rel s s' -> replay_idx (nd s) <= applied (nd s) -> replay_idx (nd s') <= applied (nd s').
Proof.
  intros (A & B & _) H. destruct (fvA_eq _ _ A) as (_ & _ & _ & _ & _ & _ & E & _). lia.
Qed.

Lemma apply_list_spec es s :
  replay_idx (nd s) <= applied (nd s) -> app_rel s (apply_list es s).
Proof.
  revert s. induction es as [|en es IH]; intros s Hr; cbn [apply_list]; [apply app_rel_refl|].
  pose proof (apply_one_spec en s Hr) as A.
  destruct (apply_one en s) as [s1 go]. cbn [fst] in A.
  destruct go; auto. eapply app_rel_trans; [exact A|]. apply IH. eapply app_rel_rinv; eauto.
Qed.

Lemma apply_entries_spec e s :
  replay_idx (nd s) <= applied (nd s) -> app_rel s (fst (apply_entries e s)).
Proof.
  intros Hr. unfold apply_entries. destruct (applied (nd s) <? commit (nd s)); cbn [fst].
  - apply apply_list_spec; auto.
  - apply app_rel_refl.
Qed.

(* the apply loop never runs ahead of the commit index *)
Lemma applied_do_apply cm s : applied (nd (fst (do_apply cm s))) = applied (nd s).
Proof.
  unfold do_apply. destruct (ck cm =? 3).
  - destruct (self_ver (nd s) <? ca cm); reflexivity.
  - destruct (membership_of cm) as [[a x]|].
    + destruct (applied (nd s) <? replay_idx (nd s)); [|reflexivity].
      unfold do_change_cluster. destruct (xorb a false).
      * destruct (_ || _); [reflexivity|]. cbn. destruct (role (nd s) =? LEADER); reflexivity.
      * destruct (self_is x (nd s)); [reflexivity|]. destruct (negb _); reflexivity.
    + destruct (ck cm =? 0); [|reflexivity]. destruct (cb cm =? 1); reflexivity.
Qed.

Lemma apply_one_bound en s : applied (nd (fst (apply_one en s))) <= applied (nd s) + 1.
Proof.
  unfold apply_one.
  set (s0 := upd (fun n => n <| wait_commit := adel (eidx en) (wait_commit n) |>) s).
  pose proof (applied_do_apply (ecmd en) s0) as A.
  destruct (do_apply (ecmd en) s0) as [s1 ar]. cbn [fst] in A.
  assert (Hfin : forall r,
     applied (nd (upd (fun n => n <| applied := applied n + 1 |>)
        (fold_left (fun s2 tc => if fst tc =? eterm en then fire (snd tc) r SUCCESS s2
                                 else fire (snd tc) 0 DISCARDED s2)
                   match aget (eidx en) (wait_commit (nd s)) with Some l => l | None => [] end s1)))
     <= applied (nd s) + 1).
  { intros r. rewrite nd_upd.
    match goal with |- context [fold_left ?f ?l s1] =>
      assert (Nf : nd (fold_left f l s1) = nd s1)
        by (apply nd_fold; intros s2 tc; destruct (_ =? _); apply nd_fire); rewrite Nf end.
    cbn. rewrite A. unfold s0. cbn. lia. }
  destruct ar; cbn [fst]; auto. rewrite A. unfold s0. cbn. lia.
Qed.

Lemma apply_list_bound es s : applied (nd (apply_list es s)) <= applied (nd s) + N.of_nat (length es).
Proof.
  revert s. induction es as [|en es IH]; intros s; cbn [apply_list length]; [lia|].
  pose proof (apply_one_bound en s) as A.
  destruct (apply_one en s) as [s1 go]. cbn [fst] in A.
  destruct go; [specialize (IH s1)|]; lia.
Qed.

Lemma ge_count_length l f k : (length (get_entries l (Some f) (Some k) None) <= N.to_nat k)%nat.
Proof. unfold get_entries. destruct (_ <? _); [cbn; lia|]. apply firstn_le_length. Qed.

Lemma apply_entries_bound e s :
  applied (nd s) <= commit (nd s) -> applied (nd (fst (apply_entries e s))) <= commit (nd s).
Proof.
  intros H. unfold apply_entries. destruct (applied (nd s) <? commit (nd s)) eqn:E; cbn [fst]; auto.
  apply N.ltb_lt in E.
  pose proof (apply_list_bound (get_entries (log (nd s)) (Some (applied (nd s) + 1))
                                  (Some (commit (nd s) - applied (nd s))) None) s) as B.
  pose proof (ge_count_length (log (nd s)) (applied (nd s) + 1) (commit (nd s) - applied (nd s))) as L.
  lia.
Qed.

Section Tick.
Variable c : conf.
Variable V : list nid.
Hypothesis NDV : NoDup V.
Hypothesis VRO : forall v, In v V -> v < RO_BASE.
Hypothesis Hb1 : 1 < batch c.
Hypothesis Hdyn : dyn c = false.
Hypothesis Hfd : file_dump c = false.
Variable e : env.
Hypothesis Hc : cf e = c.

Notation V' := (absV V).
Notation Rn := (Rn c V).
Notation Rmsg := (Rmsg c).
Notation Ro := (Ro c).
Notation Hn := (Hn c).
Notation ksn := (ksn V).
Notation LS := (LS c V).
Notation simf := (simf c V).
Notation simc := (simc c V).
Notation pk := (pk c).

(* a step that keeps the abstract view, re-establishing hygiene by hand *)
Lemma LS_keep n s (S S' : Node.S) :
  LS n s S -> rv (nd S') = rv (nd S) -> Hn (nd S') -> self (nd S') = self (nd S) ->
  others (nd S') = others (nd S) -> grow (okout c n s) S S' -> LS n s S'.
Proof.
  intros L Hrv HH Hs Ho G.
  apply (LS_ksn c V n s s S S').
  - constructor.
  - exact L.
  - eapply Rn_rv; [exact Hrv|apply (LS_n _ _ _ _ _ L)].
  - exact HH.
  - rewrite Hs. apply (LS_self _ _ _ _ _ L).
  - rewrite Ho. apply (LS_others _ _ _ _ _ L).
  - apply (grow_Ro c (okout c n s)); auto.
Qed.

Lemma LS_app n s (S S' : Node.S) :
  LS n s S -> app_rel S S' -> applied (nd S') <= commit (nd S) -> LS n s S'.
Proof.
  intros L (A & B & G) Hac. destruct (fvA_eq _ _ A) as (E1 & E2 & E3 & E4 & E5 & E6 & E7 & E8).
  destruct (rv_eq _ _ E3) as (_ & _ & _ & _ & _ & Ec & _).
  apply (LS_keep n s S S'); auto.
  - destruct (LS_h _ _ _ _ _ L) as [B1 B2 B3 B4 B5 B6 B7 B8]. constructor; try congruence; lia.
  - eapply grow_mono; [|exact G]. intros o. apply nosend_okout.
Qed.

(* ---- tick_send ---- *)
Lemma sim_tick_send n need : simf n (tick_send e need).
Proof.
  intros S s L. unfold tick_send.
  destruct (role (nd S) =? LEADER) eqn:Er; [|exists s; split; [constructor|exact L]].
  apply N.eqb_eq in Er.
  destruct (_ || need); [|exists s; split; [constructor|exact L]].
  apply (sim_send_ae c V VRO Hb1 e Hc n S s L Er).
Qed.

(* ---- one queued command ---- *)
Lemma sim_check_one n cm cbk S s :
  LS n s S -> small_cmd c cm -> exists s', ksn (n2 n) s s' /\ LS n s' (check_one e cm cbk S).
Proof.
  intros L Hsm. unfold check_one.
  destruct (role (nd S) =? LEADER) eqn:Er.
  - (* leader: append *)
    apply N.eqb_eq in Er. rewrite Hc, Hdyn.
    set (en := mkEntry cm (last_idx (log (nd S)) + 1) (term (nd S))).
    set (s1 := upd (log_add en) S).
    pose proof (LS_n _ _ _ _ _ L) as RN. pose proof (LS_wf _ _ _ _ _ L) as W.
    pose proof (LS_j _ _ _ _ _ L) as Hj. pose proof (LS_h _ _ _ _ _ L) as HH.
    destruct RN as [A1 A2 A3 A4 A5 A6 A7 A8].
    assert (Hl : M.rl (M.nodes s (n2 n)) = M.Leader) by (rewrite A3, Er; reflexivity).
    destruct (t_client_ok V' (n2 n) (enc pk cm) s Hj Hl) as [K E].
    set (s' := M.do_client (n2 n) (enc pk cm) s) in *.
    assert (K1 : ksn (n2 n) s s') by (apply ksn_one; auto).
    assert (L1 : LS n s' s1).
    { apply (LS_ksn c V n s s' S s1); auto.
      - constructor; unfold s', M.do_client; cbn [M.nodes M.grants]; rewrite ?upd_eq;
          cbn [M.term M.voted M.rl M.log M.commit M.votesFrom M.matchIdx]; unfold s1; rewrite ?nd_upd;
          [exact A1|exact A2|exact A3| |exact A5|exact A6|exact A7|exact A8].
        change (log (log_add en (nd S))) with (log (nd S) ++ [en]).
        rewrite absL_app, A4. f_equal. unfold absL, absE, en. cbn. rewrite A1, map_length, (wf1_last_idx _ W).
        f_equal. f_equal. lia.
      - destruct HH as [B1 B2 B3 B4 B5 B6 B7]. constructor; unfold s1; rewrite ?nd_upd; cbn; auto.
        apply Forall_app. split; auto.
      - apply (LS_self _ _ _ _ _ L).
      - apply (LS_others _ _ _ _ _ L).
      - exists []. rewrite app_nil_r. split; auto. apply Ro_nil. }
    assert (Hr1 : role (nd s1) = LEADER) by exact Er.
    clearbody s1 s'.
    (* the callback registration *)
    assert (L2 : exists s2, LS n s' s2 /\ role (nd s2) = LEADER /\
              (match cbk with
               | CbRemote rn rid => send rn (ApplyResp rid true (last_idx (log (nd S)) + 1) (term (nd S))) s1
               | CbLocal _ =>
                   upd (fun n0 => n0 <| wait_commit :=
                      aset (last_idx (log (nd S)) + 1)
                        ((match aget (last_idx (log (nd S)) + 1) (wait_commit n0) with Some l => l | None => [] end)
                           ++ [(term (nd S), cbk)]) (wait_commit n0) |>) s1
               | CbNone => s1
               end) = s2).
    { eexists. split; [|split; [|reflexivity]].
      - destruct cbk as [|id|rn rid].
        + exact L1.
        + apply (LS_quiet c V n s' s1); [exact L1|reflexivity|apply grow_upd].
        + apply (LS_stutter c V n s' s1); [exact L1|rewrite nd_send; reflexivity|].
          apply (grow_Ro c (okout c n s')); [auto|]. apply grow_send. exact I.
      - destruct cbk; rewrite ?nd_send; auto. }
    destruct L2 as (s2 & L2 & Hr2 & ->).
    destruct (use_batch c).
    + exists s'. auto.
    + destruct (sim_send_ae c V VRO Hb1 e Hc n s2 s' L2 Hr2) as (s3 & K3 & L3).
      exists s3. split; auto. eapply ksn_trans; eauto.
  - (* not the leader: forward or fail *)
    exists s. split; [constructor|].
    destruct (leader (nd S)) as [l|].
    + destruct cbk as [|id|rn rid].
      * apply (LS_stutter c V n s S); [exact L|rewrite nd_send; reflexivity|].
        apply (grow_Ro c (okout c n s)); [auto|]. apply grow_send. exact Hsm.
      * apply (LS_stutter c V n s S); [exact L|rewrite nd_send; reflexivity|].
        apply (grow_Ro c (okout c n s)); [auto|]. eapply grow_trans; [apply grow_upd|]. apply grow_send. exact Hsm.
      * apply (LS_stutter c V n s S); [exact L|rewrite nd_send; reflexivity|].
        apply (grow_Ro c (okout c n s)); [auto|]. apply grow_send. exact I.
    + apply (LS_stutter c V n s S); [exact L|rewrite nd_call_err; reflexivity|].
      apply (grow_Ro c (okout c n s)); [auto|].
      destruct cbk as [|id|rn rid]; cbn [call_err].
      * apply grow_refl.
      * apply grow_emit. exact I.
      * apply grow_send. exact I.
Qed.

Lemma sim_check_loop n fuel start : simf n (check_loop fuel e start).
Proof.
  induction fuel as [|f IH]; intros S s L; cbn [check_loop]; [exists s; split; [constructor|exact L]|].
  destruct (_ <? _)%Z; [|exists s; split; [constructor|exact L]].
  assert (Hgo : exists s', ksn (n2 n) s s' /\
            LS n s' (match queue (nd S) with
                     | [] => S
                     | (cm, cbk) :: rest =>
                         let s0 := upd (fun n0 => n0 <| queue := rest |>) S in
                         let s0 := check_one e cm cbk s0 in
                         if ok s0 then check_loop f e start s0 else s0
                     end)).
  { destruct (queue (nd S)) as [|[cm cbk] rest] eqn:Eq; [exists s; split; [constructor|exact L]|].
    cbv zeta.
    pose proof (LS_h _ _ _ _ _ L) as HH.
    assert (Hq : Forall (fun q => small_cmd c (fst q)) ((cm, cbk) :: rest)) by (rewrite <- Eq; apply (H_queue _ _ HH)).
    pose proof (Forall_inv Hq) as Hcm. pose proof (Forall_inv_tail Hq) as Hrest. cbn [fst] in Hcm.
    set (s0 := upd (fun n0 => n0 <| queue := rest |>) S).
    assert (L0 : LS n s s0).
    { apply (LS_keep n s S s0); auto; try reflexivity.
      - destruct HH as [B1 B2 B3 B4 B5 B6 B7]. constructor; unfold s0; rewrite ?nd_upd; cbn; auto.
      - apply grow_upd. }
    destruct (sim_check_one n cm cbk s0 s L0 Hcm) as (s1 & K1 & L1).
    destruct (ok (check_one e cm cbk s0)); [|exists s1; auto].
    destruct (IH _ _ L1) as (s2 & K2 & L2). exists s2. split; auto. eapply ksn_trans; eauto. }
  destruct (leader (nd S)); [exact Hgo|].
  destruct (wait_leader (cf e)); [exists s; split; [constructor|exact L]|exact Hgo].
Qed.

Lemma sim_check_commands n : simf n (check_commands e).
Proof. intros S s L. unfold check_commands. apply sim_check_loop. exact L. Qed.

(* ---- log compaction never starts (hypothesis on the run: the serializer stays idle) ---- *)
Lemma sim_try_compact n : simc n (try_compact e).
Proof.
  intros S s L. exists s. split; [constructor|]. revert H. unfold try_compact. cbv zeta.
  rewrite (H_pid _ _ (LS_h _ _ _ _ _ L)). cbn [N.eqb negb].
  destruct (_ && _); [intros _; exact L|].
  destruct (get_entries _ _ _ _) as [|e0 [|e1 r]].
  - intros _. apply (LS_quiet c V n s S); [exact L|reflexivity|].
    eapply grow_trans; apply grow_upd.
  - intros _. apply (LS_quiet c V n s S); [exact L|reflexivity|].
    eapply grow_trans; apply grow_upd.
  - destruct (opt_eqb _ _).
    + intros _. apply (LS_quiet c V n s S); [exact L|reflexivity|].
      eapply grow_trans; apply grow_upd.
    + intros P. cbn in P. discriminate.
Qed.

(* ---- the whole tick ---- *)
Lemma sim_tick_tail n :
  simc n (fun s => let (s, need) := apply_entries e s in
                   if ok s then (tick_send e need ;; tick_ready ;; check_commands e ;; try_compact e) s else s).
Proof.
  intros S s L.
  pose proof (apply_entries_spec e S (H_rinv _ _ (LS_h _ _ _ _ _ L))) as A.
  pose proof (apply_entries_bound e S (H_ac _ _ (LS_h _ _ _ _ _ L))) as Bd.
  destruct (apply_entries e S) as [S1 need]. cbn [fst] in A, Bd.
  assert (L1 : LS n s S1) by (eapply LS_app; eauto).
  destruct (ok S1); [|intros _; exists s; split; [constructor|exact L1]].
  assert (T : simc n (tick_send e need ;; tick_ready ;; check_commands e ;; try_compact e)).
  { apply simc_andthen; [apply sim_tick_send|].
    apply simc_andthen; [eapply sim_tick_ready; eauto|].
    apply simc_andthen; [apply sim_check_commands|].
    apply sim_try_compact. }
  exact (T S1 s L1).
Qed.

Lemma sim_on_tick n x s :
  LS n s (start_S e x) -> pid (sr (nd (on_tick e x))) = 0 ->
  exists s', ksn (n2 n) s s' /\ LS n s' (on_tick e x).
Proof.
  intros L. unfold on_tick.
  assert (T : simc n (tick_load e ;; tick_timer e ;; tick_election e ;; tick_leader e ;;
     (fun s => let (s, need) := apply_entries e s in
               if ok s then (tick_send e need ;; tick_ready ;; check_commands e ;; try_compact e) s else s))).
  { apply simc_andthen; [eapply sim_tick_load; eauto|].
    apply simc_andthen; [eapply sim_tick_timer; eauto|].
    apply simc_andthen; [eapply sim_tick_election; eauto|].
    apply simc_andthen; [eapply sim_tick_leader; eauto|].
    apply sim_tick_tail. }
  exact (T (start_S e x) s L).
Qed.

End Tick.
