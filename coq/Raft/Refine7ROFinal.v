(* Tier C7, part 5: C01 / C18 for ALL nodes.  The sequence sigma of Tier C6 (the committed log at the end of
   the run) also explains every read-only node: at every moment of the run its user state is the replay
   of the first [applied - 1] entries of sigma, and so is the state stored in every snapshot it holds.
   Corollaries: the applied (and the committed) entries of any two nodes agree; the user states of any
   two nodes, at any two moments, are comparable. *)
From Coq Require Import ZArith NArith List Bool Lia ZifyBool Arith PeanoNat.
From RecordUpdate Require Import RecordSet.
From PSO Require Import Raft.Types Raft.Node Raft.Net Raft.Obs Raft.ProofsCommitBase.
From PSO Require Import Raft.ProofsApplyBase Raft.ProofsApplyLog.
From PSO Require Raft.ProofsApplyReplay.
From PSO Require Import Raft.ProofsElectionBase Raft.ProofsElectionGhost Raft.ProofsElectionInv Raft.ProofsElectionMain.
From PSO Require Import Raft.RefineAbs.
From PSO Require Raft.RefineFinal.
From PSO Require Import Raft.Refine5Abs Raft.Refine5SpecA Raft.Refine5Sim Raft.Refine5Global Raft.Refine5Main
  Raft.Refine5Final.
From PSO Require Import Raft.Refine6Base Raft.Refine6Snaps Raft.Refine6Tick Raft.Refine6Main Raft.Refine6Final.
From PSO Require Import Raft.Refine7ROBase Raft.Refine7ROMain.
From PSO Require Abstract.Model Abstract.Lib Abstract.Kstep.
Import ListNotations.
Import RecordSetNotations.
Open Scope N_scope.
#[local] Arguments firstn : simpl nomatch.
#[local] Arguments skipn : simpl nomatch.

Section Final7.
Variable c : conf.
Variable V : list nid.
Hypothesis NDV : NoDup V.
Hypothesis VRO : forall v, In v V -> v < RO_BASE.
Hypothesis VNE : V <> [].
Hypothesis Hb1 : 1 < batch c.
Hypothesis Hdyn : dyn c = false.
Set Default Proof Using "All".

Notation V' := (absV V).
Notation kstar := (kstar V).
Notation GI := (GI c V).
Notation J := (J c).
Notation LI := (LI c).
Notation HI := (HI c).
Notation SH := (SH c).
Notation Lr := (Lr c).
Notation pk := (pk c).
Notation HI_kstar := (HI_kstar c V NDV VRO VNE Hb1).
Notation SH_kstar := (SH_kstar c V NDV VRO VNE Hb1).
Notation max_committed := (max_committed c V NDV VRO VNE Hb1 Hdyn).
Notation replay_cpre := (replay_cpre c V NDV VRO VNE Hb1 Hdyn).
Notation Lg_full := (Lg_full c V NDV VRO VNE Hb1).

(* ---- one sequence for every node of every moment of the run ---- *)
Theorem one_common_sequence_all evs :
  valid_from V [] evs = true -> run_ok5 c ginit evs = true ->
  exists sigma : list entry,
    forall evs1 evs2 g x n, evs = evs1 ++ evs2 -> run_trace c ginit evs1 = Some g ->
      aget x (nodes g) = Some n ->
      (exists k, hist n = replay (firstn k sigma) /\ N.of_nat k + 1 = applied n) /\
      (forall sn, stored (sr n) = Some (Good sn) ->
         exists k, s_hist sn = replay (firstn k sigma) /\ N.of_nat k + 1 = eidx (s_e1 sn)).
Proof.
  intros Hv Hok.
  destruct (longest_run c evs ginit) as (evsA & evsB & gA & E & RA & Hmax).
  rewrite E in Hv, Hok.
  rewrite RefineFinal.valid_from_app in Hv. apply andb_true_iff in Hv as [HvA _].
  rewrite (run_ok5_app c ginit evsA evsB gA RA) in Hok. apply andb_true_iff in Hok as [HokA _].
  destruct (proj1 (grun_run_trace c ginit gh0 evsA gA) RA) as [ghA HgA].
  destruct (run_sim7_all c V NDV VRO VNE Hb1 Hdyn evsA ginit gh0 [] (M.init V') gA ghA (GI_init c V)
              (J_init c V NDV VRO VNE Hb1 Hdyn) (LI_init c V NDV VRO VNE Hb1 Hdyn) HvA HokA HgA)
    as (sf & _ & HRf & Hall).
  destruct (max_committed sf HRf) as (C & HC).
  exists (tl (decL pk C)).
  intros evs1 evs2 g x n E1 R1 Hx.
  destruct (Hmax evs1 evs2 g E1 R1) as (evs3 & EA).
  destruct (Hall evs1 evs3 g EA R1) as (gh1 & st1 & s1 & G1 & J1 & L1 & K1).
  pose proof (GI_reach _ _ _ _ _ _ G1) as HR1. pose proof (GI_R _ _ _ _ _ _ G1) as RR1.
  (* the two facts, for a voter and for a read-only node *)
  assert (Hfacts : HI s1 n /\ 1 <= applied n /\
            (forall sn, stored (sr n) = Some (Good sn) -> SH s1 sn /\ 2 <= eidx (s_e1 sn))).
  { destruct (N.ltb_spec x RO_BASE) as [Hlt|Hge].
    - pose proof (R_node _ _ _ _ _ _ RR1 x n Hx Hlt) as RN. pose proof (R_hyg _ _ _ _ _ _ RR1 x n Hx Hlt) as HH.
      split; [apply (J_hist _ _ _ J1 x n Hx Hlt)|]. split.
      + destruct (Rn_full c V NDV VRO VNE Hb1 x n s1 HR1 RN) as (full & _ & W & Sx).
        pose proof (suffix_first_pos _ _ W Sx). pose proof (H_fi _ _ HH). lia.
      + intros sn Hst. destruct (J_node _ _ _ J1 x n Hx Hlt) as (X & _). split; [apply (X _ Hst)|].
        pose proof (Rn_stored _ _ _ _ _ RN _ Hst) as (_ & _ & H2 & _). lia.
    - pose proof (L1 x n Hx Hge) as LR.
      split; [apply (Lr_hist _ _ _ LR)|]. split.
      + destruct (Lg_full n s1 HR1 (Lr_g _ _ _ LR)) as (full & _ & W & Sx & _).
        pose proof (suffix_first_pos _ _ W Sx). pose proof (Lh_fi _ (Lr_h _ _ _ LR)). lia.
      + intros sn Hst. destruct (Lr_sr _ _ _ LR) as (X & _). pose proof (X _ Hst) as [Hv0 Hs0]. cbn in Hv0, Hs0.
        split; [exact Hs0|]. destruct Hv0 as (_ & _ & H2 & _). lia. }
  destruct Hfacts as (H1 & Ha & Hsn).
  split.
  - apply (HI_kstar s1 sf n HR1 K1) in H1. destruct H1 as (l & Cl & Eh).
    exists (n2 (applied n) - 1)%nat. split; [|lia].
    rewrite Eh. apply (replay_cpre sf C l _ HRf HC); [lia|exact Cl].
  - intros sn Hst. destruct (Hsn sn Hst) as [H2 Hk].
    apply (SH_kstar s1 sf sn HR1 K1) in H2. destruct H2 as (l & Cl & Eh).
    exists (n2 (eidx (s_e1 sn)) - 1)%nat. split; [|lia].
    rewrite Eh. apply (replay_cpre sf C l _ HRf HC); [lia|exact Cl].
Qed.

(* ---- statements about one reachable state ---- *)
Lemma run_LI evs g :
  valid_from V [] evs = true -> run_ok5 c ginit evs = true -> run_trace c ginit evs = Some g ->
  exists gh st s, GI g gh st s /\ J g s /\ LI g s.
Proof.
  intros Hv Hok Hr.
  destruct (proj1 (grun_run_trace c ginit gh0 evs g) Hr) as [gh Hg].
  destruct (run_sim7_all c V NDV VRO VNE Hb1 Hdyn evs ginit gh0 [] (M.init V') g gh (GI_init c V)
              (J_init c V NDV VRO VNE Hb1 Hdyn) (LI_init c V NDV VRO VNE Hb1 Hdyn) Hv Hok Hg)
    as (sf & _ & _ & Hall).
  destruct (Hall evs [] g (eq_sym (app_nil_r evs)) Hr) as (gh1 & st1 & s1 & G1 & J1 & L1 & _).
  eauto 6.
Qed.

Section State.
Variables (g : gstate) (gh : ghost) (st : list nid) (s : M.state).
Hypothesis G : GI g gh st s.
Hypothesis L : LI g s.

(* what any node has applied / committed is a committed prefix of a full log that extends its own log *)
Lemma node_prefixes a xa :
  aget a (nodes g) = Some xa ->
  exists full Tb, wf1 full /\ suffix_of (log xa) full /\
    S7.committed_upto s Tb (absL pk full) (n2 (applied xa)) /\
    S7.committed_upto s Tb (absL pk full) (n2 (commit xa)).
Proof.
  intros Ha. pose proof (GI_reach _ _ _ _ _ _ G) as HR. pose proof (GI_R _ _ _ _ _ _ G) as RR.
  destruct (N.ltb_spec a RO_BASE) as [Hlt|Hge].
  - pose proof (R_node _ _ _ _ _ _ RR a xa Ha Hlt) as RN.
    destruct (Rn_full c V NDV VRO VNE Hb1 a xa s HR RN) as (full & EL & W & Sx).
    exists full, (n2 (term xa)). split; auto. split; auto. rewrite <- EL. split.
    + apply (Rn_applied _ _ _ _ _ RN).
    + pose proof (S7.I7_node _ (S7.inv7_kreachable V' (V'_nodup c V NDV VRO VNE Hb1) (V'_ne c V NDV VRO VNE Hb1) s HR) (n2 a)) as C7.
      rewrite (Rn_term _ _ _ _ _ RN), (Rn_commit _ _ _ _ _ RN) in C7. exact C7.
  - destruct (Lg_full xa s HR (Lr_g _ _ _ (L a xa Ha Hge))) as (full & _ & W & Sx & CA & CC).
    exists full, (n2 (term xa)). auto.
Qed.

(* two committed prefixes that reach index i hold the same entry there *)
Lemma prefixes_agree fa fb Ta Tb (ka kb : nat) ea eb (la lb : list entry) :
  wf1 fa -> wf1 fb -> suffix_of la fa -> suffix_of lb fb ->
  S7.committed_upto s Ta (absL pk fa) ka -> S7.committed_upto s Tb (absL pk fb) kb ->
  In ea la -> In eb lb -> eidx ea = eidx eb -> (n2 (eidx ea) <= ka)%nat -> (n2 (eidx ea) <= kb)%nat ->
  ea = eb.
Proof.
  intros Wa Wb Sa Sb Ca Cb Hea Heb Hi Hka Hkb.
  pose proof (GI_reach _ _ _ _ _ _ G) as HR.
  destruct (In_full_nth _ _ _ Wa Sa Hea) as [Na Pa]. destruct (In_full_nth _ _ _ Wb Sb Heb) as [Nb Pb].
  set (k := n2 (eidx ea)) in *.
  apply (cpre_of_committed c V NDV VRO VNE Hb1) in Ca, Cb.
  apply (cpre_le c V NDV VRO VNE Hb1 s ka k _ Hka) in Ca. apply (cpre_le c V NDV VRO VNE Hb1 s kb k _ Hkb) in Cb.
  pose proof (cpre_fun c V NDV VRO VNE Hb1 s k _ _ HR Ca Cb) as F.
  rewrite !firstn_firstn in F.
  replace (Nat.min k ka) with k in F by lia. replace (Nat.min k kb) with k in F by lia.
  assert (E : nth_error (absL pk fa) (k - 1) = nth_error (absL pk fb) (k - 1)).
  { apply (ML.firstn_eq_nth _ _ k); auto. lia. }
  apply (nth_abs_inj c) in E. rewrite Na in E. unfold k in E. rewrite Hi, Nb in E. congruence.
Qed.

Lemma st_applied_agree_all a b xa xb ea eb :
  aget a (nodes g) = Some xa -> aget b (nodes g) = Some xb ->
  In ea (log xa) -> In eb (log xb) -> eidx ea = eidx eb -> eidx ea <= applied xa -> eidx ea <= applied xb ->
  ea = eb.
Proof.
  intros Ha Hb Hea Heb Hi Hia Hib.
  destruct (node_prefixes a xa Ha) as (fa & Ta & Wa & Sa & Ca & _).
  destruct (node_prefixes b xb Hb) as (fb & Tb & Wb & Sb & Cb & _).
  eapply (prefixes_agree fa fb Ta Tb _ _ ea eb); eauto; lia.
Qed.

Lemma st_committed_agree_all a b xa xb ea eb :
  aget a (nodes g) = Some xa -> aget b (nodes g) = Some xb ->
  In ea (log xa) -> In eb (log xb) -> eidx ea = eidx eb -> eidx ea <= commit xa -> eidx ea <= commit xb ->
  ea = eb.
Proof.
  intros Ha Hb Hea Heb Hi Hia Hib.
  destruct (node_prefixes a xa Ha) as (fa & Ta & Wa & Sa & _ & Ca).
  destruct (node_prefixes b xb Hb) as (fb & Tb & Wb & Sb & _ & Cb).
  eapply (prefixes_agree fa fb Ta Tb _ _ ea eb); eauto; lia.
Qed.

End State.
End Final7.

(* ------------------------------------------------------------------------------------------ *)
(* the statements with the fragment hypotheses spelled out (exported by Props/TierC7.v)        *)

Lemma TierC7_one_common_sequence_all :
  forall (c : conf) (V : list nid) (evs : list event),
    dyn c = false -> 1 < batch c -> valid V evs = true -> run_ok5 c ginit evs = true ->
    exists sigma : list entry,
      forall evs1 evs2 g x n, evs = evs1 ++ evs2 -> run_trace c ginit evs1 = Some g ->
        aget x (nodes g) = Some n ->
        exists k, hist n = replay (firstn k sigma) /\ N.of_nat k + 1 = applied n.
Proof.
  intros c V evs H1 H3 H4 H5.
  destruct (core_frag_facts c V evs (core_frag_intro c V evs H1 H3 H4 H5)) as (ND & HV & HNE & Hb & Hd & Hv & Hok).
  destruct (one_common_sequence_all c V ND HV HNE Hb Hd evs Hv Hok) as (sigma & H).
  exists sigma. intros evs1 evs2 g x n E R Hx. apply (H evs1 evs2 g x n E R Hx).
Qed.

Lemma TierC7_one_common_sequence_all_snapshots :
  forall (c : conf) (V : list nid) (evs : list event),
    dyn c = false -> 1 < batch c -> valid V evs = true -> run_ok5 c ginit evs = true ->
    exists sigma : list entry,
      forall evs1 evs2 g x n, evs = evs1 ++ evs2 -> run_trace c ginit evs1 = Some g ->
        aget x (nodes g) = Some n ->
        (exists k, hist n = replay (firstn k sigma) /\ N.of_nat k + 1 = applied n) /\
        (forall sn, stored (sr n) = Some (Good sn) ->
           exists k, s_hist sn = replay (firstn k sigma) /\ N.of_nat k + 1 = eidx (s_e1 sn)).
Proof.
  intros c V evs H1 H3 H4 H5.
  destruct (core_frag_facts c V evs (core_frag_intro c V evs H1 H3 H4 H5)) as (ND & HV & HNE & Hb & Hd & Hv & Hok).
  exact (one_common_sequence_all c V ND HV HNE Hb Hd evs Hv Hok).
Qed.

(* the statement kept open by Refine6Final *)
Lemma TierC7_state_is_replay_all_nodes : C01_one_common_sequence_all_nodes_full.
Proof.
  intros c evs (V & H1 & H3 & H4 & H5). exact (TierC7_one_common_sequence_all c V evs H1 H3 H4 H5).
Qed.

(* the user states of two nodes of any kind, at any two moments of a run, are comparable *)
Lemma TierC7_states_comparable_all :
  forall (c : conf) (V : list nid) (evs ea ea' eb eb' : list event) (ga gb : gstate) (a b : nid) (na nb : node),
    dyn c = false -> 1 < batch c -> valid V evs = true -> run_ok5 c ginit evs = true ->
    evs = ea ++ ea' -> evs = eb ++ eb' ->
    run_trace c ginit ea = Some ga -> run_trace c ginit eb = Some gb ->
    aget a (nodes ga) = Some na -> aget b (nodes gb) = Some nb ->
    applied na <= applied nb -> exists r, hist nb = hist na ++ r.
Proof.
  intros c V evs ea ea' eb eb' ga gb a b na nb H1 H3 H4 H5 Ea Eb Ra Rb Ha Hb Hle.
  destruct (TierC7_one_common_sequence_all c V evs H1 H3 H4 H5) as (sigma & H).
  destruct (H ea ea' ga a na Ea Ra Ha) as (ka & Eha & Eka).
  destruct (H eb eb' gb b nb Eb Rb Hb) as (kb & Ehb & Ekb).
  exists (replay (firstn (kb - ka) (skipn ka sigma))).
  rewrite Eha, Ehb, <- replay_app. f_equal.
  replace kb with (ka + (kb - ka))%nat at 1 by lia. apply ML.firstn_add.
Qed.

(* C18: what a read-only node has applied is what every other node (voter or read-only) has applied *)
Lemma TierC7_applied_entries_agree_all :
  forall (c : conf) (V : list nid) (evs : list event) (g : gstate) (a b : nid) (xa xb : node) (ea eb : entry),
    dyn c = false -> 1 < batch c -> valid V evs = true -> run_ok5 c ginit evs = true ->
    run_trace c ginit evs = Some g ->
    aget a (nodes g) = Some xa -> aget b (nodes g) = Some xb ->
    In ea (log xa) -> In eb (log xb) -> eidx ea = eidx eb -> eidx ea <= applied xa -> eidx ea <= applied xb ->
    ea = eb.
Proof.
  intros c V evs g a b xa xb ea eb H1 H3 H4 H5 Hr.
  destruct (core_frag_facts c V evs (core_frag_intro c V evs H1 H3 H4 H5)) as (ND & HV & HNE & Hb & Hd & Hv & Hok).
  destruct (run_LI c V ND HV HNE Hb Hd evs g Hv Hok Hr) as (gh & st & s & G & _ & L).
  intros Q1 Q2 Q3 Q4 Q5 Q6 Q7.
  exact (st_applied_agree_all c V ND HV HNE Hb Hd _ _ _ _ G L a b xa xb ea eb Q1 Q2 Q3 Q4 Q5 Q6 Q7).
Qed.

(* state machine safety for all nodes: entries up to both commit indices agree *)
Lemma TierC7_state_machine_safety_all :
  forall (c : conf) (V : list nid) (evs : list event) (g : gstate) (a b : nid) (xa xb : node) (ea eb : entry),
    dyn c = false -> 1 < batch c -> valid V evs = true -> run_ok5 c ginit evs = true ->
    run_trace c ginit evs = Some g ->
    aget a (nodes g) = Some xa -> aget b (nodes g) = Some xb ->
    In ea (log xa) -> In eb (log xb) -> eidx ea = eidx eb -> eidx ea <= commit xa -> eidx ea <= commit xb ->
    ea = eb.
Proof.
  intros c V evs g a b xa xb ea eb H1 H3 H4 H5 Hr.
  destruct (core_frag_facts c V evs (core_frag_intro c V evs H1 H3 H4 H5)) as (ND & HV & HNE & Hb & Hd & Hv & Hok).
  destruct (run_LI c V ND HV HNE Hb Hd evs g Hv Hok Hr) as (gh & st & s & G & _ & L).
  intros Q1 Q2 Q3 Q4 Q5 Q6 Q7.
  exact (st_committed_agree_all c V ND HV HNE Hb Hd _ _ _ _ G L a b xa xb ea eb Q1 Q2 Q3 Q4 Q5 Q6 Q7).
Qed.
