(* Tier C5, part 12: the refinement theorem for whole runs with log compaction, snapshot install
   and entries sent in pieces, and the L0 safety theorems transported to L1 runs of the fragment.  An L1 log is the
   suffix the node still holds, so the statements speak about entries by their index. *)
From Coq Require Import ZArith NArith List Bool Lia ZifyBool Arith PeanoNat.
From RecordUpdate Require Import RecordSet.
From PSO Require Import Raft.Types Raft.Node Raft.Net Raft.Obs Raft.ProofsCommitBase.
From PSO Require Import Raft.ProofsElectionBase Raft.ProofsElectionFrame Raft.ProofsElectionStep
  Raft.ProofsElectionGhost Raft.ProofsElectionInv Raft.ProofsElectionMain.
From PSO Require Import Raft.RefineAbs Raft.RefineK Raft.RefineSpecA.
From PSO Require Raft.RefineFinal.
From PSO Require Import Raft.Refine5Abs Raft.Refine5SpecA Raft.Refine5Sim Raft.Refine5Global Raft.Refine5Main.
From PSO Require Abstract.Model Abstract.Lib Abstract.Kstep Abstract.Safety1_WF Abstract.Safety2_Election
  Abstract.Safety3_LeaderLog Abstract.Safety4_LogMatching Abstract.Safety6_LeaderCompleteness
  Abstract.Safety7_StateMachine.
Import ListNotations.
Import RecordSetNotations.
Open Scope N_scope.

Notation sts_after := RefineFinal.sts_after.

Lemma run_ok5_app c g a b g1 :
  run_trace c g a = Some g1 -> run_ok5 c g (a ++ b) = run_ok5 c g a && run_ok5 c g1 b.
Proof.
  revert g. induction a as [|ev a IH]; intros g H; cbn in *.
  - injection H as <-. reflexivity.
  - destruct (gstep c g ev) as [[g' r]|]; [|discriminate].
    rewrite (IH g' H). rewrite !andb_assoc. reflexivity.
Qed.

(* an entry of a held suffix sits at its index in the full log *)
Lemma In_full_nth l full en :
  wf1 full -> suffix_of l full -> In en l -> nth_error full (n2 (eidx en) - 1) = Some en /\ 1 <= eidx en.
Proof.
  intros W Sx Hin. pose proof (suffix_In l full Sx en Hin) as Hf.
  apply In_nth_error in Hf as [p Hp]. destruct W as [_ H]. pose proof (H p en Hp) as E.
  split; [|lia]. replace (n2 (eidx en) - 1)%nat with p by lia. exact Hp.
Qed.

Section Run.
Variable c : conf.
Variable V : list nid.
Hypothesis NDV : NoDup V.
Hypothesis VRO : forall v, In v V -> v < RO_BASE.
Hypothesis VNE : V <> [].
Hypothesis Hb1 : 1 < batch c.
Hypothesis Hdyn : dyn c = false.

Notation V' := (absV V).
Notation GI := (GI c V).
Notation kstar := (kstar V).
Notation pk := (pk c).
Notation V'_nodup := (V'_nodup c V NDV VRO VNE Hb1).
Notation V'_ne := (V'_ne c V NDV VRO VNE Hb1).

Lemma GI_init : GI ginit gh0 [] (M.init V').
Proof.
  constructor.
  - apply inv_init.
  - constructor.
  - constructor.
    + intros v x H. cbn in H. discriminate.
    + intros v Hv _. unfold pristine. cbn. repeat split; reflexivity.
    + intros a b m H. cbn in H. destruct H.
    + intros t v cd H. destruct H.
    + intros v x H. cbn in H. discriminate.
    + intros v x H. cbn in H. discriminate.
    + intros v x en o l H. cbn in H. discriminate.
Qed.

(* the forward simulation along a run *)
Theorem run_sim evs : forall g gh st s g' gh',
  GI g gh st s -> valid_from V st evs = true -> run_ok5 c g evs = true ->
  grun c g gh evs = Some (g', gh') ->
  exists s', kstar s s' /\ GI g' gh' (sts_after st evs) s'.
Proof.
  induction evs as [|ev evs IH]; intros g gh st s g' gh' G Hv Hr Hg; cbn in *.
  - injection Hg as <- <-. exists s. split; [constructor|exact G].
  - apply andb_true_iff in Hv as [Hev Hv].
    apply andb_true_iff in Hr as [Htb Hr].
    destruct (gstep c g ev) as [[g1 r]|] eqn:Est; [|discriminate].
    destruct (step_sim c V NDV VRO VNE Hb1 Hdyn g gh st s ev g1 r G Hev Htb Est) as (s1 & K1 & G1).
    destruct (IH g1 _ _ s1 g' gh' G1 Hv Hr Hg) as (s2 & K2 & G2).
    exists s2. split; auto. eapply kstar_trans; eauto.
Qed.

(* REFINEMENT: every run of the fragment from ginit has a reachable abstract counterpart *)
Theorem refinement evs g gh :
  valid_from V [] evs = true -> run_ok5 c ginit evs = true ->
  grun c ginit gh0 evs = Some (g, gh) ->
  exists s, KS.kreachable V' s /\ R c V g gh (sts_after [] evs) s.
Proof.
  intros Hv Hr Hg.
  destruct (run_sim evs ginit gh0 [] (M.init V') g gh GI_init Hv Hr Hg) as (s & K & [I HR RR]).
  exists s. auto.
Qed.

(* ---------------------------------------------------------------------------------------- *)
(* consequences on L1 states related to a reachable L0 state                                 *)

Lemma nth_abs_inj la lb p :
  nth_error (absL pk la) p = nth_error (absL pk lb) p -> nth_error la p = nth_error lb p.
Proof.
  rewrite !absL_nth. destruct (nth_error la p) as [a|], (nth_error lb p) as [b|]; cbn [option_map]; intros H;
    try discriminate; auto.
  assert (H' : absE pk a = absE pk b) by congruence. apply absE_inj in H'. congruence.
Qed.

Section State.
Variables (g : gstate) (gh : ghost) (st : list nid) (s : M.state).
Hypothesis G : GI g gh st s.

Lemma GI_node a xa : aget a (nodes g) = Some xa -> a < RO_BASE -> Rn c V a xa s.
Proof.
  intros Ha Hlt. destruct G as [I HR RR]. apply (R_node _ _ _ _ _ _ RR a xa Ha Hlt).
Qed.

(* the ghost full log of a running voter *)
Lemma GI_full a xa : aget a (nodes g) = Some xa -> a < RO_BASE ->
  exists full, M.log (M.nodes s (n2 a)) = absL pk full /\ wf1 full /\ suffix_of (log xa) full.
Proof.
  intros Ha Hlt. apply (Rn_full c V NDV VRO VNE Hb1 a xa s (GI_reach _ _ _ _ _ _ G)). apply GI_node; auto.
Qed.

(* LOG MATCHING: two voters that hold an entry with the same index and term hold the same entries
   at every index up to it that both still have *)
Lemma st_log_matching a b xa xb ea eb ea' eb' :
  aget a (nodes g) = Some xa -> aget b (nodes g) = Some xb -> a < RO_BASE -> b < RO_BASE ->
  In ea (log xa) -> In eb (log xb) -> eidx ea = eidx eb -> eterm ea = eterm eb ->
  In ea' (log xa) -> In eb' (log xb) -> eidx ea' = eidx eb' -> eidx ea' <= eidx ea -> ea' = eb'.
Proof.
  intros Ha Hb Hla Hlb Hea Heb Hi Ht Hea' Heb' Hi' Hle.
  destruct (GI_full a xa Ha Hla) as (fa & Ea & Wa & Sa). destruct (GI_full b xb Hb Hlb) as (fb & Eb & Wb & Sb).
  destruct (In_full_nth _ _ _ Wa Sa Hea) as [Na Pa]. destruct (In_full_nth _ _ _ Wb Sb Heb) as [Nb Pb].
  destruct (In_full_nth _ _ _ Wa Sa Hea') as [Na' Pa']. destruct (In_full_nth _ _ _ Wb Sb Heb') as [Nb' Pb'].
  pose proof (S7.k_log_matching V' s (n2 a) (n2 b) (n2 (eidx ea) - 1) (absE pk ea) (absE pk eb)
                (GI_reach _ _ _ _ _ _ G)) as H.
  rewrite Ea, Eb, !absL_nth, Na in H. rewrite Hi, Nb in H.
  specialize (H eq_refl eq_refl). cbn in H. rewrite Ht in H. specialize (H eq_refl).
  rewrite <- !absL_firstn in H. apply absL_inj in H.
  assert (X : nth_error fa (n2 (eidx ea') - 1) = nth_error fb (n2 (eidx ea') - 1)).
  { apply (ML.firstn_eq_nth _ _ _ _ H). lia. }
  rewrite Na' in X. rewrite Hi', Nb' in X. congruence.
Qed.

(* STATE MACHINE SAFETY: two voters agree on every committed index both still hold; and a voter
   holds every committed index from the start of its log *)
Lemma st_state_machine_safety a b xa xb ea eb :
  aget a (nodes g) = Some xa -> aget b (nodes g) = Some xb -> a < RO_BASE -> b < RO_BASE ->
  In ea (log xa) -> In eb (log xb) -> eidx ea = eidx eb -> eidx ea <= commit xa -> eidx ea <= commit xb ->
  ea = eb.
Proof.
  intros Ha Hb Hla Hlb Hea Heb Hi Hca Hcb.
  pose proof (GI_node a xa Ha Hla) as Ra. pose proof (GI_node b xb Hb Hlb) as Rb.
  destruct (GI_full a xa Ha Hla) as (fa & Ea & Wa & Sa). destruct (GI_full b xb Hb Hlb) as (fb & Eb & Wb & Sb).
  destruct (In_full_nth _ _ _ Wa Sa Hea) as [Na Pa]. destruct (In_full_nth _ _ _ Wb Sb Heb) as [Nb Pb].
  pose proof (GI_reach _ _ _ _ _ _ G) as HR.
  destruct (S7.k_state_machine_safety V' V'_nodup V'_ne s (n2 a) (n2 b) (n2 (eidx ea) - 1)%nat HR) as [E L].
  { rewrite (Rn_commit _ _ _ _ _ Ra). lia. }
  { rewrite (Rn_commit _ _ _ _ _ Rb). lia. }
  rewrite Ea, Eb in E. apply nth_abs_inj in E. rewrite Na in E. rewrite Hi, Nb in E. congruence.
Qed.

Lemma st_committed_held a xa i :
  aget a (nodes g) = Some xa -> a < RO_BASE -> first_idx (log xa) <= i -> i <= commit xa ->
  exists en, In en (log xa) /\ eidx en = i.
Proof.
  intros Ha Hla Hfi Hc0.
  pose proof (GI_node a xa Ha Hla) as Ra.
  destruct (GI_full a xa Ha Hla) as (fa & Ea & Wa & Sa).
  pose proof (Rn_commit_le c V NDV VRO VNE Hb1 a xa s fa (GI_reach _ _ _ _ _ _ G) Ra Ea) as Hlen.
  pose proof (suffix_first_pos _ _ Wa Sa) as Hp.
  assert (Hn : nth_error (log xa) (n2 i - 1 + 1 - n2 (first_idx (log xa))) = nth_error fa (n2 i - 1)).
  { apply (suffix_nth _ _ Wa Sa). lia. }
  destruct (nth_error fa (n2 i - 1)) as [en|] eqn:En; [|apply nth_error_None in En; lia].
  exists en. split; [eapply nth_error_In; exact Hn|]. destruct Wa as [_ H]. rewrite (H _ _ En). lia.
Qed.

(* what two voters have APPLIED to their state machines at a common index is the same entry *)
Lemma st_applied_agree a b xa xb ea eb :
  aget a (nodes g) = Some xa -> aget b (nodes g) = Some xb -> a < RO_BASE -> b < RO_BASE ->
  In ea (log xa) -> In eb (log xb) -> eidx ea = eidx eb -> eidx ea <= applied xa -> eidx ea <= applied xb ->
  ea = eb.
Proof.
  intros Ha Hb Hla Hlb Hea Heb Hi Hia Hib.
  pose proof (GI_node a xa Ha Hla) as Ra. pose proof (GI_node b xb Hb Hlb) as Rb.
  destruct (GI_full a xa Ha Hla) as (fa & Ea & Wa & Sa). destruct (GI_full b xb Hb Hlb) as (fb & Eb & Wb & Sb).
  destruct (In_full_nth _ _ _ Wa Sa Hea) as [Na Pa]. destruct (In_full_nth _ _ _ Wb Sb Heb) as [Nb Pb].
  pose proof (GI_reach _ _ _ _ _ _ G) as HR.
  destruct (Rn_applied _ _ _ _ _ Ra) as (La & T0 & p0 & D0 & _ & Lp0 & F0).
  destruct (Rn_applied _ _ _ _ _ Rb) as (Lb & T1 & p1 & D1 & _ & Lp1 & F1).
  pose proof (S2.inv2_kreachable V' s HR) as I2. pose proof (S3.inv3_kreachable V' s HR) as I3.
  pose proof (S4.inv4_kreachable V' s HR) as I4. pose proof (S6.inv6_kreachable V' V'_nodup V'_ne s HR) as I6.
  set (k := n2 (eidx ea)) in *.
  assert (Hc0 : firstn k (M.llog s T0) = firstn k (M.llog s T1)).
  { destruct (Nat.le_ge_cases T0 T1) as [L|L].
    - pose proof (S7.direct_compat V' s T0 p0 T1 p1 I2 I3 I4 I6 D0 D1 L) as F.
      symmetry. eapply ML.firstn_le_eq; [|exact F]. lia.
    - pose proof (S7.direct_compat V' s T1 p1 T0 p0 I2 I3 I4 I6 D1 D0 L) as F.
      eapply ML.firstn_le_eq; [|exact F]. lia. }
  assert (Xa : nth_error (M.log (M.nodes s (n2 a))) (k - 1) = nth_error (M.llog s T0) (k - 1)).
  { apply (ML.firstn_eq_nth _ _ _ _ F0). lia. }
  assert (Xb : nth_error (M.log (M.nodes s (n2 b))) (k - 1) = nth_error (M.llog s T1) (k - 1)).
  { apply (ML.firstn_eq_nth _ _ _ _ F1). unfold k. lia. }
  assert (Xc : nth_error (M.llog s T0) (k - 1) = nth_error (M.llog s T1) (k - 1)).
  { apply (ML.firstn_eq_nth _ _ k); auto. lia. }
  rewrite Ea in Xa. rewrite Eb in Xb.
  assert (E : nth_error (absL pk fa) (k - 1) = nth_error (absL pk fb) (k - 1)) by congruence.
  apply nth_abs_inj in E. rewrite Na in E. unfold k in E. rewrite Hi, Nb in E. congruence.
Qed.

(* SNAPSHOTS: the dump a voter holds (made by itself or received) is a piece of the committed log:
   its last entry is what every voter has committed at that index *)
Lemma st_snapshot_agrees a b xa xb sn eb :
  aget a (nodes g) = Some xa -> aget b (nodes g) = Some xb -> a < RO_BASE -> b < RO_BASE ->
  stored (sr xa) = Some (Good sn) ->
  In eb (log xb) -> eidx eb = eidx (s_e1 sn) -> eidx eb <= commit xb -> eb = s_e1 sn.
Proof.
  intros Ha Hb Hla Hlb Hst Heb Hi Hcb.
  pose proof (GI_node a xa Ha Hla) as Ra. pose proof (GI_node b xb Hb Hlb) as Rb.
  pose proof (GI_reach _ _ _ _ _ _ G) as HR.
  pose proof (Rn_stored _ _ _ _ _ Ra _ Hst : snap_valid c s _ sn) as Hv.
  destruct (GI_full b xb Hb Hlb) as (fb & Eb & Wb & Sb).
  destruct (In_full_nth _ _ _ Wb Sb Heb) as [Nb Pb].
  destruct (valid_own c V NDV VRO VNE Hb1 s (n2 b) _ sn HR Hv) as (N1 & _).
  { rewrite (Rn_commit _ _ _ _ _ Rb). lia. }
  rewrite Eb, absL_nth, <- Hi, Nb in N1. cbn [option_map] in N1.
  assert (X : absE pk eb = absE pk (s_e1 sn)) by congruence. apply absE_inj in X. exact X.
Qed.

End State.

(* two moments of one run *)
Lemma stable_star s1 s2 j :
  KS.kreachable V' s1 -> kstar s1 s2 -> S7.stable s1 s2 j.
Proof.
  intros HR K. induction K as [|sa sb K IH Ks]; [apply S7.stable_refl|].
  eapply S7.stable_trans; [exact IH|].
  apply (S7.k_commit_stable V' V'_nodup V'_ne).
  - eapply kstar_kreachable; eauto.
  - exact Ks.
Qed.

Lemma committed_star s1 s2 Tb l k :
  KS.kreachable V' s1 -> kstar s1 s2 -> S7.committed_upto s1 Tb l k -> S7.committed_upto s2 Tb l k.
Proof.
  intros HR K H. induction K as [|sa sb K IH Ks]; auto.
  assert (HRa : KS.kreachable V' sa) by (eapply kstar_kreachable; eauto).
  eapply (S7.committed_mono V' sa sb Tb Tb); eauto.
  - apply (S1.inv1_kreachable V'); auto.
  - apply S2.inv2_kreachable; auto.
  - apply (S3.inv3_kreachable V'); auto.
Qed.

(* a node running at two moments of a run: what it had committed stays what it was *)
Lemma st_committed_never_change g1 gh1 st1 s1 g2 gh2 st2 s2 a xa1 xa2 e1 e2 :
  GI g1 gh1 st1 s1 -> GI g2 gh2 st2 s2 -> kstar s1 s2 ->
  aget a (nodes g1) = Some xa1 -> aget a (nodes g2) = Some xa2 -> a < RO_BASE ->
  In e1 (log xa1) -> eidx e1 <= commit xa1 ->
  commit xa1 <= commit xa2 /\ (In e2 (log xa2) -> eidx e2 = eidx e1 -> e2 = e1).
Proof.
  intros G1 G2 K Ha1 Ha2 Hla He1 Hc1.
  pose proof (GI_node _ _ _ _ G1 a xa1 Ha1 Hla) as R1. pose proof (GI_node _ _ _ _ G2 a xa2 Ha2 Hla) as R2.
  destruct (GI_full _ _ _ _ G1 a xa1 Ha1 Hla) as (f1 & E1 & W1 & X1).
  destruct (GI_full _ _ _ _ G2 a xa2 Ha2 Hla) as (f2 & E2 & W2 & X2).
  destruct (stable_star s1 s2 (n2 a) (GI_reach _ _ _ _ _ _ G1) K) as [C F].
  rewrite (Rn_commit _ _ _ _ _ R1), (Rn_commit _ _ _ _ _ R2) in C.
  rewrite (Rn_commit _ _ _ _ _ R1), E1, E2 in F.
  split; [lia|]. intros He2 Hi.
  destruct (In_full_nth _ _ _ W1 X1 He1) as [N1 P1]. destruct (In_full_nth _ _ _ W2 X2 He2) as [N2 P2].
  assert (X : nth_error f2 (n2 (eidx e1) - 1) = nth_error f1 (n2 (eidx e1) - 1)).
  { apply nth_abs_inj. apply (ML.firstn_eq_nth _ _ _ _ F). lia. }
  rewrite N1 in X. rewrite <- Hi, N2 in X. congruence.
Qed.

(* LEADER COMPLETENESS: an entry a voter had committed is in the log of every later leader *)
Lemma st_leader_completeness g1 gh1 st1 s1 g2 gh2 st2 s2 a l xa xl ea el :
  GI g1 gh1 st1 s1 -> GI g2 gh2 st2 s2 -> kstar s1 s2 ->
  aget a (nodes g1) = Some xa -> aget l (nodes g2) = Some xl -> a < RO_BASE -> l < RO_BASE ->
  role xl = LEADER -> term xa <= term xl -> In ea (log xa) -> eidx ea <= commit xa ->
  eidx ea <= last_idx (log xl) /\ (In el (log xl) -> eidx el = eidx ea -> el = ea).
Proof.
  intros G1 G2 K Ha Hl Hla Hll Hrole Ht Hea Hc1.
  pose proof (GI_node _ _ _ _ G1 a xa Ha Hla) as Ra. pose proof (GI_node _ _ _ _ G2 l xl Hl Hll) as Rl.
  destruct (GI_full _ _ _ _ G1 a xa Ha Hla) as (fa & Ea & Wa & Xa).
  destruct (GI_full _ _ _ _ G2 l xl Hl Hll) as (fl & El & Wl & Xl).
  pose proof (GI_reach _ _ _ _ _ _ G1) as HR1. pose proof (GI_reach _ _ _ _ _ _ G2) as HR2.
  pose proof (S7.I7_node _ (S7.inv7_kreachable V' V'_nodup V'_ne s1 HR1) (n2 a)) as C1.
  apply (committed_star s1 s2 _ _ _ HR1 K) in C1.
  assert (Hlead : M.rl (M.nodes s2 (n2 l)) = M.Leader).
  { rewrite (Rn_role _ _ _ _ _ Rl), Hrole. reflexivity. }
  pose proof (S2.inv2_kreachable V' s2 HR2) as I2.
  destruct (S2.I2_leader _ _ I2 _ Hlead) as [Q HQ].
  pose proof (S7.committed_in_leader V' s2 _ _ _ _ _ Q I2
                (S4.inv4_kreachable V' s2 HR2) (S6.inv6_kreachable V' V'_nodup V'_ne s2 HR2) C1 HQ) as F.
  rewrite <- (S3.I3_wlog _ (S3.inv3_kreachable V' s2 HR2) _ _ _ HQ eq_refl) in F.
  rewrite (Rn_term _ _ _ _ _ Ra), (Rn_term _ _ _ _ _ Rl) in F.
  assert (Hle : (n2 (term xa) <= n2 (term xl))%nat) by lia. specialize (F Hle).
  rewrite Ea, El, (Rn_commit _ _ _ _ _ Ra) in F.
  destruct (In_full_nth _ _ _ Wa Xa Hea) as [Na Pa].
  assert (X : nth_error fl (n2 (eidx ea) - 1) = nth_error fa (n2 (eidx ea) - 1)).
  { apply nth_abs_inj. symmetry. apply (ML.firstn_eq_nth _ _ _ _ F). lia. }
  rewrite Na in X.
  split.
  - rewrite (suffix_last_idx _ _ Xl), (wf1_last_idx _ Wl).
    assert (n2 (eidx ea) - 1 < length fl)%nat by (apply nth_error_Some; congruence). lia.
  - intros Hel Hi. destruct (In_full_nth _ _ _ Wl Xl Hel) as [Nl Pl]. rewrite Hi, X in Nl. congruence.
Qed.

End Run.

(* ------------------------------------------------------------------------------------------ *)
(* the theorems on L1 runs                                                                    *)

Lemma core_frag_facts c V evs :
  core_frag5 c V evs ->
  NoDup V /\ (forall v, In v V -> v < RO_BASE) /\ V <> [] /\ 1 < batch c /\ dyn c = false /\
  valid_from V [] evs = true /\ run_ok5 c ginit evs = true.
Proof.
  intros (A & C & D & E). unfold valid in D. apply andb_true_iff in D as [D1 D2].
  destruct (Vok_spec V D1) as (ND & HV & HL).
  repeat split; auto. intros ->. cbn in HL. lia.
Qed.

Lemma run_GI c V evs g :
  core_frag5 c V evs -> run_trace c ginit evs = Some g ->
  exists gh s, GI c V g gh (sts_after [] evs) s.
Proof.
  intros F Hr. destruct (core_frag_facts c V evs F) as (ND & HV & HNE & Hb & Hd & Hv & Hok).
  destruct (proj1 (grun_run_trace c ginit gh0 evs g) Hr) as [gh Hg].
  destruct (run_sim c V ND HV HNE Hb Hd evs ginit gh0 [] (M.init (absV V)) g gh (GI_init c V) Hv Hok Hg)
    as (s & K & G).
  eauto.
Qed.

Lemma run_GI2 c V evs1 evs2 g1 g2 :
  core_frag5 c V (evs1 ++ evs2) -> run_trace c ginit evs1 = Some g1 -> run_trace c g1 evs2 = Some g2 ->
  exists gh1 st1 s1 gh2 st2 s2, GI c V g1 gh1 st1 s1 /\ GI c V g2 gh2 st2 s2 /\ kstar V s1 s2.
Proof.
  intros F Hr1 Hr2. destruct (core_frag_facts c V _ F) as (ND & HV & HNE & Hb & Hd & Hv & Hok).
  rewrite RefineFinal.valid_from_app in Hv. apply andb_true_iff in Hv as [Hv1 Hv2].
  rewrite (run_ok5_app c ginit evs1 evs2 g1 Hr1) in Hok. apply andb_true_iff in Hok as [Hok1 Hok2].
  destruct (proj1 (grun_run_trace c ginit gh0 evs1 g1) Hr1) as [gh1 Hg1].
  destruct (proj1 (grun_run_trace c g1 gh1 evs2 g2) Hr2) as [gh2 Hg2].
  destruct (run_sim c V ND HV HNE Hb Hd evs1 ginit gh0 [] _ g1 gh1 (GI_init c V) Hv1 Hok1 Hg1) as (s1 & K1 & G1).
  destruct (run_sim c V ND HV HNE Hb Hd evs2 g1 gh1 _ s1 g2 gh2 G1 Hv2 Hok2 Hg2) as (s2 & K2 & G2).
  do 6 eexists. eauto.
Qed.

Lemma core_frag_intro c V evs :
  dyn c = false -> 1 < batch c -> valid V evs = true -> run_ok5 c ginit evs = true ->
  core_frag5 c V evs.
Proof. intros. repeat split; assumption. Qed.

(* the statements with the fragment hypotheses spelled out (exported by Props/TierC5.v) *)

Lemma TierC5_refinement :
  forall (c : conf) (V : list nid) (evs : list event) (g : gstate),
    dyn c = false -> 1 < batch c -> valid V evs = true -> run_ok5 c ginit evs = true ->
    run_trace c ginit evs = Some g ->
    exists gh s, grun c ginit gh0 evs = Some (g, gh) /\ KS.kreachable (absV V) s /\
                 R c V g gh (RefineFinal.sts_after [] evs) s.
Proof.
  intros c V evs g H1 H3 H4 H5 Hr.
  destruct (core_frag_facts c V evs (core_frag_intro c V evs H1 H3 H4 H5)) as (ND & HV & HNE & Hb & Hd & Hv & Hok).
  destruct (proj1 (grun_run_trace c ginit gh0 evs g) Hr) as [gh Hg].
  destruct (refinement c V ND HV HNE Hb Hd evs g gh Hv Hok Hg) as (s & A & B).
  exists gh, s. auto.
Qed.

Lemma TierC5_log_matching :
  forall (c : conf) (V : list nid) (evs : list event) (g : gstate) (a b : nid) (xa xb : node)
         (ea eb ea' eb' : entry),
    dyn c = false -> 1 < batch c -> valid V evs = true -> run_ok5 c ginit evs = true ->
    run_trace c ginit evs = Some g ->
    aget a (nodes g) = Some xa -> aget b (nodes g) = Some xb -> a < RO_BASE -> b < RO_BASE ->
    In ea (log xa) -> In eb (log xb) -> eidx ea = eidx eb -> eterm ea = eterm eb ->
    In ea' (log xa) -> In eb' (log xb) -> eidx ea' = eidx eb' -> eidx ea' <= eidx ea -> ea' = eb'.
Proof.
  intros c V evs g a b xa xb ea eb ea' eb' H1 H3 H4 H5 Hr.
  pose proof (core_frag_intro c V evs H1 H3 H4 H5) as F.
  destruct (core_frag_facts c V evs F) as (ND & HV & HNE & Hb & Hd & _).
  destruct (run_GI c V evs g F Hr) as (gh & s & G).
  intros Q1 Q2 Q3 Q4 Q5 Q6 Q7 Q8 Q9 Q10 Q11 Q12.
  exact (st_log_matching c V ND HV HNE Hb Hd _ _ _ _ G a b xa xb ea eb ea' eb' Q1 Q2 Q3 Q4 Q5 Q6 Q7 Q8 Q9 Q10 Q11 Q12).
Qed.

Lemma TierC5_state_machine_safety :
  forall (c : conf) (V : list nid) (evs : list event) (g : gstate) (a b : nid) (xa xb : node) (ea eb : entry),
    dyn c = false -> 1 < batch c -> valid V evs = true -> run_ok5 c ginit evs = true ->
    run_trace c ginit evs = Some g ->
    aget a (nodes g) = Some xa -> aget b (nodes g) = Some xb -> a < RO_BASE -> b < RO_BASE ->
    In ea (log xa) -> In eb (log xb) -> eidx ea = eidx eb -> eidx ea <= commit xa -> eidx ea <= commit xb ->
    ea = eb.
Proof.
  intros c V evs g a b xa xb ea eb H1 H3 H4 H5 Hr.
  pose proof (core_frag_intro c V evs H1 H3 H4 H5) as F.
  destruct (core_frag_facts c V evs F) as (ND & HV & HNE & Hb & Hd & _).
  destruct (run_GI c V evs g F Hr) as (gh & s & G).
  intros Q1 Q2 Q3 Q4 Q5 Q6 Q7 Q8 Q9.
  exact (st_state_machine_safety c V ND HV HNE Hb Hd _ _ _ _ G a b xa xb ea eb Q1 Q2 Q3 Q4 Q5 Q6 Q7 Q8 Q9).
Qed.

Lemma TierC5_committed_held :
  forall (c : conf) (V : list nid) (evs : list event) (g : gstate) (a : nid) (xa : node) (i : N),
    dyn c = false -> 1 < batch c -> valid V evs = true -> run_ok5 c ginit evs = true ->
    run_trace c ginit evs = Some g ->
    aget a (nodes g) = Some xa -> a < RO_BASE -> first_idx (log xa) <= i -> i <= commit xa ->
    exists en, In en (log xa) /\ eidx en = i.
Proof.
  intros c V evs g a xa i H1 H3 H4 H5 Hr.
  pose proof (core_frag_intro c V evs H1 H3 H4 H5) as F.
  destruct (core_frag_facts c V evs F) as (ND & HV & HNE & Hb & Hd & _).
  destruct (run_GI c V evs g F Hr) as (gh & s & G).
  intros Q1 Q2 Q3 Q4.
  exact (st_committed_held c V ND HV HNE Hb Hd _ _ _ _ G a xa i Q1 Q2 Q3 Q4).
Qed.

Lemma TierC5_applied_entries_agree :
  forall (c : conf) (V : list nid) (evs : list event) (g : gstate) (a b : nid) (xa xb : node) (ea eb : entry),
    dyn c = false -> 1 < batch c -> valid V evs = true -> run_ok5 c ginit evs = true ->
    run_trace c ginit evs = Some g ->
    aget a (nodes g) = Some xa -> aget b (nodes g) = Some xb -> a < RO_BASE -> b < RO_BASE ->
    In ea (log xa) -> In eb (log xb) -> eidx ea = eidx eb -> eidx ea <= applied xa -> eidx ea <= applied xb ->
    ea = eb.
Proof.
  intros c V evs g a b xa xb ea eb H1 H3 H4 H5 Hr.
  pose proof (core_frag_intro c V evs H1 H3 H4 H5) as F.
  destruct (core_frag_facts c V evs F) as (ND & HV & HNE & Hb & Hd & _).
  destruct (run_GI c V evs g F Hr) as (gh & s & G).
  intros Q1 Q2 Q3 Q4 Q5 Q6 Q7 Q8 Q9.
  exact (st_applied_agree c V ND HV HNE Hb Hd _ _ _ _ G a b xa xb ea eb Q1 Q2 Q3 Q4 Q5 Q6 Q7 Q8 Q9).
Qed.

Lemma TierC5_snapshot_agrees :
  forall (c : conf) (V : list nid) (evs : list event) (g : gstate) (a b : nid) (xa xb : node)
         (sn : snapshot) (eb : entry),
    dyn c = false -> 1 < batch c -> valid V evs = true -> run_ok5 c ginit evs = true ->
    run_trace c ginit evs = Some g ->
    aget a (nodes g) = Some xa -> aget b (nodes g) = Some xb -> a < RO_BASE -> b < RO_BASE ->
    stored (sr xa) = Some (Good sn) ->
    In eb (log xb) -> eidx eb = eidx (s_e1 sn) -> eidx eb <= commit xb -> eb = s_e1 sn.
Proof.
  intros c V evs g a b xa xb sn eb H1 H3 H4 H5 Hr.
  pose proof (core_frag_intro c V evs H1 H3 H4 H5) as F.
  destruct (core_frag_facts c V evs F) as (ND & HV & HNE & Hb & Hd & _).
  destruct (run_GI c V evs g F Hr) as (gh & s & G).
  intros Q1 Q2 Q3 Q4 Q5 Q6 Q7 Q8.
  exact (st_snapshot_agrees c V ND HV HNE Hb Hd _ _ _ _ G a b xa xb sn eb Q1 Q2 Q3 Q4 Q5 Q6 Q7 Q8).
Qed.

Lemma TierC5_committed_never_change :
  forall (c : conf) (V : list nid) (evs1 evs2 : list event) (g1 g2 : gstate) (a : nid) (xa1 xa2 : node)
         (e1 e2 : entry),
    dyn c = false -> 1 < batch c -> valid V (evs1 ++ evs2) = true ->
    run_ok5 c ginit (evs1 ++ evs2) = true ->
    run_trace c ginit evs1 = Some g1 -> run_trace c g1 evs2 = Some g2 ->
    aget a (nodes g1) = Some xa1 -> aget a (nodes g2) = Some xa2 -> a < RO_BASE ->
    In e1 (log xa1) -> eidx e1 <= commit xa1 ->
    commit xa1 <= commit xa2 /\ (In e2 (log xa2) -> eidx e2 = eidx e1 -> e2 = e1).
Proof.
  intros c V evs1 evs2 g1 g2 a xa1 xa2 e1 e2 H1 H3 H4 H5 Hr1 Hr2.
  pose proof (core_frag_intro c V _ H1 H3 H4 H5) as F.
  destruct (core_frag_facts c V _ F) as (ND & HV & HNE & Hb & Hd & _).
  destruct (run_GI2 c V evs1 evs2 g1 g2 F Hr1 Hr2) as (gh1 & st1 & s1 & gh2 & st2 & s2 & G1 & G2 & K).
  intros Ha1 Ha2 Hla He1 Hc1.
  eapply (st_committed_never_change c V ND HV HNE Hb Hd _ _ _ _ _ _ _ _ a xa1 xa2 e1 e2 G1 G2 K); eauto.
Qed.

Lemma TierC5_leader_completeness :
  forall (c : conf) (V : list nid) (evs1 evs2 : list event) (g1 g2 : gstate) (a l : nid) (xa xl : node)
         (ea el : entry),
    dyn c = false -> 1 < batch c -> valid V (evs1 ++ evs2) = true ->
    run_ok5 c ginit (evs1 ++ evs2) = true ->
    run_trace c ginit evs1 = Some g1 -> run_trace c g1 evs2 = Some g2 ->
    aget a (nodes g1) = Some xa -> aget l (nodes g2) = Some xl -> a < RO_BASE -> l < RO_BASE ->
    role xl = LEADER -> term xa <= term xl -> In ea (log xa) -> eidx ea <= commit xa ->
    eidx ea <= last_idx (log xl) /\ (In el (log xl) -> eidx el = eidx ea -> el = ea).
Proof.
  intros c V evs1 evs2 g1 g2 a l xa xl ea el H1 H3 H4 H5 Hr1 Hr2.
  pose proof (core_frag_intro c V _ H1 H3 H4 H5) as F.
  destruct (core_frag_facts c V _ F) as (ND & HV & HNE & Hb & Hd & _).
  destruct (run_GI2 c V evs1 evs2 g1 g2 F Hr1 Hr2) as (gh1 & st1 & s1 & gh2 & st2 & s2 & G1 & G2 & K).
  intros Ha Hl Hla Hll Hrole Ht Hea Hc1.
  eapply (st_leader_completeness c V ND HV HNE Hb Hd _ _ _ _ _ _ _ _ a l xa xl ea el G1 G2 K); eauto.
Qed.
