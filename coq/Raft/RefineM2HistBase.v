(* Tier CM2, user-state half of C01, part 1 (port of Refine6Base.v to AbstractM / the RefineM2 relation):
   - [decE]: reads an AbstractM entry back as an L1 entry with the same EFFECT on the user state (exact for
     regular / no-op / version commands, a size-less membership command for CAdd / CRem: membership and
     version entries are no-ops of [replay]);
   - [cpre s k l]: l is THE committed prefix of length k of the AbstractM history;
   - [HI s x]: the user state [hist x] is the replay of the committed prefix of length [applied x];
   - [SH s sn]: the user state stored in snapshot sn is the replay of the committed prefix ending at its last entry. *)
From Coq Require Import ZArith NArith List Bool Lia ZifyBool Arith PeanoNat Cantor.
From RecordUpdate Require Import RecordSet.
From PSO Require Import Raft.Types Raft.Node Raft.Net Raft.ProofsApplyBase Raft.ProofsApplyLog.
From PSO Require Import Raft.ProofsElectionBase Raft.ProofsMembership.
From PSO Require Import Raft.RefineMAbs Raft.RefineM2Abs Raft.RefineM2SpecA Raft.RefineM2Sim.
From PSO Require AbstractM.Model AbstractM.Lib AbstractM.Kstep.
Import ListNotations.
Import RecordSetNotations.
Open Scope N_scope.
#[local] Arguments firstn : simpl nomatch.
#[local] Arguments skipn : simpl nomatch.

(* ------------------------------------------------------------------------------------------ *)
(* reading an AbstractM entry back                                                            *)

Definition dec (pk : N) (k : nat) : cmd :=
  match k with
  | O => noop_cmd pk
  | Sn m =>
    let (a, r1) := Cantor.of_nat m in
    let (b, r2) := Cantor.of_nat r1 in
    let (c0, r3) := Cantor.of_nat r2 in
    let (d, e) := Cantor.of_nat r3 in
    mkCmd (N.of_nat a) (N.of_nat b) (N.of_nat c0) (N.of_nat d) (N.of_nat e)
  end.

Lemma dec_code pk c : dec pk (code pk c) = c.
Proof.
  unfold code. destruct (is_noop pk c) eqn:E.
  - apply is_noop_spec in E. subst. reflexivity.
  - unfold dec, cmd_code. rewrite !Cantor.cancel_of_to. destruct c; cbn. rewrite !N2Nat.id. reflexivity.
Qed.

Definition decC (pk : N) (m : M.cmd) : cmd :=
  match m with
  | M.Cmd k => dec pk k
  | M.CAdd x => mkCmd 2 1 (N.of_nat x) 0 0
  | M.CRem x => mkCmd 2 2 (N.of_nat x) 0 0
  end.

Lemma effect_dec pk c : cmd_effect (decC pk (enc pk c)) = cmd_effect c.
Proof.
  unfold enc, membership_of. destruct (ck c =? 2) eqn:E.
  - apply N.eqb_eq in E. unfold cmd_effect. rewrite E. destruct (ca c =? 1); reflexivity.
  - cbn [decC]. rewrite dec_code. reflexivity.
Qed.

Definition decE (pk : N) (e : M.entry) : entry :=
  mkEntry (decC pk (M.ecmd e)) (N.of_nat (M.eidx e)) (N.of_nat (M.eterm e)).

Definition decL (pk : N) (l : list M.entry) : list entry := map (decE pk) l.

Lemma replay_dec pk l : replay (decL pk (absL pk l)) = replay l.
Proof.
  unfold replay, decL, absL. induction l as [|a l IH]; [reflexivity|]. cbn [map flat_map]. rewrite IH. f_equal.
  unfold decE, absE. cbn [M.ecmd ecmd]. apply effect_dec.
Qed.

Lemma decL_firstn pk k l : decL pk (firstn k l) = firstn k (decL pk l).
Proof. unfold decL. symmetry. apply firstn_map. Qed.

Lemma effect_e0 pk : cmd_effect (ecmd (decE pk M.e0)) = [].
Proof. reflexivity. Qed.

(* ------------------------------------------------------------------------------------------ *)
(* consecutive entries of a suffix of a well-formed full log (from Refine6Base.v)             *)

Lemma consec_of_nth l i :
  (forall p e, nth_error l p = Some e -> eidx e = i + N.of_nat p) -> consec i l.
Proof.
  revert i. induction l as [|a l IH]; intros i H; cbn; auto. split.
  - rewrite (H 0%nat a eq_refl). lia.
  - apply IH. intros p e Hp. rewrite (H (Sn p) e Hp). lia.
Qed.

Lemma suffix_log_wf l full : wf1 full -> suffix_of l full -> log_wf l.
Proof.
  intros W Sx. split; [eapply suffix_ne; eauto|].
  destruct (suffix_base _ _ W Sx) as (b & E & Hb & Efi).
  apply consec_of_nth. intros p e Hp. rewrite E, RefineM2Abs.nth_error_skipn in Hp.
  destruct W as [_ H]. rewrite (H _ _ Hp), Efi. lia.
Qed.

Lemma consec_window l full es (k : nat) :
  wf1 full -> suffix_of l full -> (forall e, In e es -> In e l) -> consec (N.of_nat k + 1) es ->
  (k + length es <= length full)%nat ->
  firstn (length es) (skipn k full) = es.
Proof.
  intros W Sx Hin Hc Hlen. apply ML.nth_error_ext. intros i.
  destruct (Nat.lt_ge_cases i (length es)) as [Hi|Hi].
  - rewrite ML.nth_error_firstn_lt by exact Hi. rewrite RefineM2Abs.nth_error_skipn.
    destruct (nth_error es i) as [e|] eqn:Ee; [|apply nth_error_None in Ee; lia].
    assert (Hie : eidx e = N.of_nat k + 1 + N.of_nat i).
    { clear - Hc Ee. revert i k Hc Ee. induction es as [|a es IH]; intros i k Hc Ee; [destruct i; discriminate|].
      destruct Hc as [Ea Hc]. destruct i as [|i].
      - injection Ee as <-. lia.
      - cbn in Ee. replace (N.of_nat k + 1 + 1) with (N.of_nat (Sn k) + 1) in Hc by lia.
        rewrite (IH i (Sn k) Hc Ee). lia. }
    assert (Hf : In e full) by (eapply suffix_In; [exact Sx|]; apply Hin; eapply nth_error_In; eauto).
    apply In_nth_error in Hf as [p Hp]. destruct W as [_ Hw]. pose proof (Hw p e Hp) as Ep.
    replace (k + i)%nat with p by lia. exact Hp.
  - rewrite ML.nth_error_firstn_ge by exact Hi. symmetry. apply nth_error_None. exact Hi.
Qed.

(* ------------------------------------------------------------------------------------------ *)
Section Base.
Variable c : conf.
Variable mf : N -> N -> N * N.
Variable V : list nid.
Hypothesis NDV : NoDup V.
Hypothesis SV : ssorted V.
Hypothesis VNE : V <> [].
Hypothesis VRO : forall v, In v V -> v < RO_BASE.
Hypothesis Hb1 : 1 < batch c.
Set Default Proof Using "All".

Notation V' := (absV V).
Notation kstar := (kstar V).
Notation pk := (pk c).
Notation kall := (kall V NDV VNE).
Notation Rn := (Rn c mf V).

(* THE committed prefix of length k *)
Definition cpre (s : M.state) (k : nat) (l : list M.entry) : Prop :=
  exists T0 p0 C0, In (T0, p0, C0) (M.direct s) /\ (k <= Sn p0)%nat /\ l = firstn k (M.llog s T0).

Lemma direct_len s T0 p0 C0 :
  KS.kreachable V' F0 s -> In (T0, p0, C0) (M.direct s) -> (Sn p0 <= length (M.llog s T0))%nat.
Proof.
  intros HR D. destruct (S6.I6_direct _ (SA.A6 _ _ _ (kall s HR)) _ _ _ D) as [(e & He & _) _].
  assert (p0 < length (M.llog s T0))%nat by (apply nth_error_Some; congruence). lia.
Qed.

Lemma cpre_length s k l : KS.kreachable V' F0 s -> cpre s k l -> length l = k.
Proof.
  intros HR (T0 & p0 & C0 & D & Hk & ->). pose proof (direct_len s T0 p0 C0 HR D). rewrite firstn_length. lia.
Qed.

Lemma cpre_fun s k l l' : KS.kreachable V' F0 s -> cpre s k l -> cpre s k l' -> l = l'.
Proof.
  intros HR (T0 & p0 & C0 & D & Hk & ->) (T1 & p1 & C1 & D' & Hk' & ->).
  apply (direct_prefix c mf V NDV SV VNE VRO Hb1 s T0 p0 C0 T1 p1 C1 k HR D D' Hk Hk').
Qed.

Lemma cpre_le s k k' l : (k' <= k)%nat -> cpre s k l -> cpre s k' (firstn k' l).
Proof.
  intros Hle (T0 & p0 & C0 & D & Hk & ->). exists T0, p0, C0. split; auto. split; [lia|].
  rewrite firstn_firstn. f_equal. lia.
Qed.

Lemma cpre_kstep s s' k l : KS.kreachable V' F0 s -> KS.kstep V' F0 s s' -> cpre s k l -> cpre s' k l.
Proof.
  intros HR K (T0 & p0 & C0 & D & Hk & ->). pose proof (direct_len s T0 p0 C0 HR D) as Hl.
  exists T0, p0, C0. split; [eapply KS.kstep_direct; eauto|]. split; auto.
  destruct (llog_kstep V NDV VNE s s' T0 HR K) as (r & ->).
  rewrite ML.firstn_app_le by lia. reflexivity.
Qed.

Lemma cpre_kstar s s' k l : KS.kreachable V' F0 s -> kstar s s' -> cpre s k l -> cpre s' k l.
Proof.
  intros HR K. induction K as [|s1 s2 K IH Ks]; auto. intros H.
  eapply cpre_kstep; [|exact Ks|auto]. eapply kstar_kreachable; eauto.
Qed.

Lemma cpre_of_committed s Tb L k : S7.committed_upto s Tb L k -> cpre s k (firstn k L).
Proof. intros (A & T0 & p0 & C0 & B & C & D & E). exists T0, p0, C0. auto. Qed.

(* the committed prefix a voter has applied, read off its own AbstractM log *)
Lemma cpre_node s n x :
  KS.kreachable V' F0 s -> Rn n x s -> applied x <= commit x ->
  cpre s (n2 (applied x)) (firstn (n2 (applied x)) (M.log (M.nodes s (n2 n)))).
Proof.
  intros HR RN Hac. pose proof (S7.I7_node _ (SA.A7 _ _ _ (kall s HR)) (n2 n)) as C.
  apply cpre_of_committed in C. rewrite (Rn_commit _ _ _ _ _ _ RN) in C.
  assert (Hle : (n2 (applied x) <= n2 (commit x))%nat) by lia.
  pose proof (cpre_le s _ (n2 (applied x)) _ Hle C) as X. rewrite firstn_firstn in X.
  replace (Nat.min (n2 (applied x)) (n2 (commit x))) with (n2 (applied x)) in X by lia. exact X.
Qed.

(* the first entry of a committed prefix is the common entry e0 *)
Lemma cpre_head s k l : KS.kreachable V' F0 s -> cpre s k l -> (1 <= k)%nat -> exists r, l = M.e0 :: r.
Proof.
  intros HR (T0 & p0 & C0 & D & Hk & ->) H1. pose proof (direct_len s T0 p0 C0 HR D) as Hl.
  pose proof (S8.I8_llog _ (S8.inv8_kreachable V' F0 s HR) T0) as H0.
  destruct (M.llog s T0) as [|a r] eqn:E; [cbn in Hl; lia|].
  specialize (H0 ltac:(discriminate)). cbn in H0. injection H0 as ->.
  destruct k as [|k]; [lia|]. cbn [firstn]. eauto.
Qed.

(* ---- the two invariants ---- *)
Definition HI (s : M.state) (x : node) : Prop :=
  exists l, cpre s (n2 (applied x)) (absL pk l) /\ hist x = replay l.

Definition SH (s : M.state) (sn : snapshot) : Prop :=
  exists l, cpre s (n2 (eidx (s_e1 sn))) (absL pk l) /\ s_hist sn = replay l.

Lemma HI_kstar s s' x : KS.kreachable V' F0 s -> kstar s s' -> HI s x -> HI s' x.
Proof. intros HR K (l & A & B). exists l. split; auto. eapply cpre_kstar; eauto. Qed.

Lemma SH_kstar s s' sn : KS.kreachable V' F0 s -> kstar s s' -> SH s sn -> SH s' sn.
Proof. intros HR K (l & A & B). exists l. split; auto. eapply cpre_kstar; eauto. Qed.

Lemma HI_uview s x y : hist y = hist x -> applied y = applied x -> HI s x -> HI s y.
Proof. intros E1 E2 (l & A & B). exists l. rewrite E1, E2. auto. Qed.

Lemma HI_of_SH s sn x : hist x = s_hist sn -> applied x = eidx (s_e1 sn) -> SH s sn -> HI s x.
Proof. intros E1 E2 (l & A & B). exists l. rewrite E1, E2. auto. Qed.

Lemma SH_of_HI s sn x : s_hist sn = hist x -> eidx (s_e1 sn) = applied x -> HI s x -> SH s sn.
Proof. intros E1 E2 (l & A & B). exists l. rewrite E1, E2. auto. Qed.

(* a freshly started voter *)
Lemma HI_init s n x :
  KS.kreachable V' F0 s -> Rn n x s -> applied x = 1 -> commit x = 1 -> hist x = [] -> HI s x.
Proof.
  intros HR RN Ea Ec Eh.
  assert (Hac : applied x <= commit x) by lia.
  pose proof (cpre_node s n x HR RN Hac) as C. rewrite Ea in C. change (n2 1) with 1%nat in C.
  destruct (Rn_full c mf V NDV SV VNE VRO Hb1 n x s HR RN) as (full & EL & W & _).
  exists (firstn 1 full). rewrite Ea. change (n2 1) with 1%nat. rewrite absL_firstn, <- EL. split; [exact C|].
  destruct (cpre_head s 1 _ HR C (le_n _)) as (r & E).
  pose proof (cpre_length s 1 _ HR C) as Hl. rewrite E in Hl. destruct r; [|cbn in Hl; lia].
  rewrite EL, <- absL_firstn in E.
  destruct (firstn 1 full) as [|f0 [|f1 fr]] eqn:Ef; try discriminate E.
  rewrite Eh. unfold replay. cbn [flat_map]. rewrite app_nil_r.
  assert (X : absE pk f0 = M.e0) by (cbn in E; congruence).
  rewrite <- (effect_dec pk (ecmd f0)). unfold absE in X. injection X as _ _ X. rewrite X. reflexivity.
Qed.

(* the apply loop: the state is extended by the replay of the entries executed *)
Lemma HI_apply n s x0 x1 es :
  KS.kreachable V' F0 s -> Rn n x1 s -> applied x1 <= commit x1 -> HI s x0 ->
  (forall e, In e es -> In e (log x1)) -> consec (applied x0 + 1) es ->
  hist x1 = hist x0 ++ replay es -> applied x1 = applied x0 + N.of_nat (length es) ->
  HI s x1.
Proof.
  intros HR RN Hac (l0 & C0 & H0) Hin Hc Eh Ea.
  destruct (Rn_full c mf V NDV SV VNE VRO Hb1 n x1 s HR RN) as (full & EL & W & Sx & _).
  pose proof (cpre_node s n x1 HR RN Hac) as CA.
  pose proof (Rn_commit_le c mf V NDV SV VNE VRO Hb1 n x1 s full HR RN EL) as Hlen.
  set (k0 := n2 (applied x0)) in *. set (k1 := n2 (applied x1)) in *.
  assert (Ek : k1 = (k0 + length es)%nat) by (unfold k0, k1; lia).
  assert (E0 : absL pk l0 = firstn k0 (M.log (M.nodes s (n2 n)))).
  { eapply cpre_fun; [exact HR|exact C0|].
    assert (Hle : (k0 <= k1)%nat) by lia.
    pose proof (cpre_le s k1 k0 _ Hle CA) as X. rewrite firstn_firstn in X.
    replace (Nat.min k0 k1) with k0 in X by lia. exact X. }
  exists (l0 ++ es). split.
  - rewrite absL_app, E0.
    replace (absL pk es) with (firstn (length es) (skipn k0 (M.log (M.nodes s (n2 n))))).
    + rewrite <- ML.firstn_add, <- Ek. exact CA.
    + rewrite EL, <- absL_skipn, <- absL_firstn. f_equal.
      apply (consec_window (log x1) full es k0 W Sx Hin).
      * replace (N.of_nat k0) with (applied x0) by (unfold k0; lia). exact Hc.
      * lia.
  - rewrite Eh, H0, replay_app. reflexivity.
Qed.

End Base.
