(* C05 (partial by nature): the fuel of the send loop suffices; one pass of
   _checkCommandsToApply drains the queue. *)
From Coq Require Import ZArith NArith List Bool Lia ZifyBool ZifyN.
From RecordUpdate Require Import RecordSet.
From PSO Require Import Raft.Types Raft.Node Raft.Net Raft.Obs Raft.ProofsSnapshotBase Raft.ProofsSnapshot
  Raft.ProofsSnapshotChunks Raft.ProofsDisk.
Import ListNotations.
Import RecordSetNotations.
Open Scope N_scope.

(* ================= C05_send_loop_fuel ================= *)
Definition clk (s : S) := (used s, jmp s, tnow s).

Lemma send_clk : forall d m s, clk (send d m s) = clk s.
Proof. intros. unfold send, emit. destruct (smem _ _); reflexivity. Qed.

Lemma send_pieces_clk : forall f x en prev b pos s,
  clk (send_pieces f x en prev b pos s) = clk s /\ exc (send_pieces f x en prev b pos s) = exc s.
Proof.
  induction f as [|f IH]; intros; cbn; auto.
  destruct (psize en <=? pos); auto.
  match goal with |- context [send_pieces f x en prev b ?p ?s0] => destruct (IH x en prev b p s0) as [H1 H2] end.
  rewrite H1, H2. rewrite send_clk. split; auto. apply send_frame.
Qed.

Lemma get_transmission_clk : forall e x s, clk (fst (get_transmission e x s)) = clk s.
Proof.
  intros e x s. unfold get_transmission. destruct (negb _); auto.
  destruct (match aget x (trans (sr (nd s))) with Some t => Some t | None => _ end) as [[b off]|]; auto.
Qed.

Lemma ae_body_clk : forall e x next s,
  clk (fst (ae_body e x next s)) = clk s /\
  (exc s = 0 -> exc (fst (ae_body e x next s)) = 0 \/ exc (fst (ae_body e x next s)) = EXC_INDEX).
Proof.
  intros e x next s. unfold ae_body.
  destruct (first_idx (log (nd s)) <? next).
  - set (pr := if next <=? last_idx (log (nd s)) then _ else _).
    assert (Hpr : clk (fst pr) = clk s /\ exc (fst pr) = exc s).
    { subst pr. destruct (next <=? last_idx (log (nd s))); cbn; auto. }
    destruct pr as [s1 entries]. cbn [fst] in Hpr. destruct Hpr as [H1 H2].
    destruct entries as [|e1 [|e2 r]].
    + cbn [fst]. rewrite send_clk. destruct (send_frame x (AE (term (nd s)) (commit (nd s)) (get_prev (log (nd s)) next) []) s1) as (_ & Hx & _).
      rewrite Hx, H2. split; auto.
    + destruct (batch (cf e) <=? csz (ecmd e1)); cbn [fst].
      * match goal with |- context [send_pieces ?f x e1 ?pv ?b 0 s1] => destruct (send_pieces_clk f x e1 pv b 0 s1) as [P1 P2] end.
        rewrite P1, P2, H2. split; auto.
      * rewrite send_clk.
        match goal with |- context [send x ?m s1] => destruct (send_frame x m s1) as (_ & Hx & _) end.
        rewrite Hx, H2. split; auto.
    + cbn [fst]. rewrite send_clk.
      match goal with |- context [send x ?m s1] => destruct (send_frame x m s1) as (_ & Hx & _) end.
      rewrite Hx, H2. split; auto.
  - pose proof (get_transmission_clk e x s) as Hg.
    destruct (get_transmission_log e x s) as (_ & Hgx & _).
    destruct (get_transmission e x s) as [s1 td]. cbn [fst] in *.
    match goal with |- context [send x ?m s1] => set (M := m) end.
    pose proof (send_clk x M s1) as Hs. destruct (send_frame x M s1) as (_ & Hx & _).
    destruct td as [|b off len f la].
    + cbn [fst]. rewrite Hs, Hx, Hg, Hgx. auto.
    + destruct la.
      * destruct (log (nd (send x M s1))) as [|a [|b2 r]]; cbn [fst]; unfold raise, upd;
          (split; [change (clk (send x M s1) = clk s); congruence | cbn; rewrite ?Hx, ?Hgx; auto]).
      * cbn [fst]. rewrite Hs, Hx, Hg, Hgx. auto.
Qed.

Definition loop_inv (e : env) (start : Z) (s : S) : Prop :=
  (jmp s = false -> tnow s = start) /\ (jmp s = true -> (period (cf e) < tnow s - start)%Z).

Lemma ae_loop_fuel : forall fuel e start x single ser_ s,
  exc s = 0 -> loop_inv e start s ->
  (N.to_nat (budget e + 1 - used s) < fuel)%nat ->
  let s' := ae_loop fuel e start x single ser_ s in
  exc s' <> EXC_FUEL /\ loop_inv e start s'.
Proof.
  induction fuel as [|f IH]; intros e start x single ser_ s Hx Hinv Hf; [lia|].
  cbv zeta. cbn [ae_loop].
  destruct (aget x (next_idx (nd s))) as [next|]; [|unfold raise; cbn; split; [discriminate|exact Hinv]].
  destruct ((next <=? last_idx (log (nd s))) || single || ser_); [|split; [rewrite Hx; discriminate|exact Hinv]].
  destruct (ae_body_clk e x next s) as [Hc He]. specialize (He Hx).
  destruct (ae_body e x next s) as [s1 ser']. cbn [fst] in *.
  unfold clk in Hc. injection Hc as Hu Hj Ht.
  destruct (ok s1) eqn:Eok.
  2:{ split; [destruct He as [He|He]; rewrite He; discriminate|].
      unfold loop_inv in *. rewrite Ht, Hj. exact Hinv. }
  assert (Hx1 : exc s1 = 0) by (unfold ok in Eok; lia).
  unfold delta_read. cbn.
  destruct ((budget e <? used s1 + 1) && negb (jmp s1)) eqn:Ej.
  - (* the clock jumps: the loop ends *)
    cbn. destruct Hinv as [I1 I2].
    assert (Hjf : jmp s = false) by (destruct (jmp s1) eqn:E; [cbn in Ej; lia | congruence]).
    specialize (I1 Hjf).
    destruct (period (cf e) <? tnow s1 + period (cf e) + 1 - start)%Z eqn:Ep; [|lia].
    cbn. split; [rewrite Hx1; discriminate|]. unfold loop_inv. cbn. split; [discriminate|intros _; lia].
  - cbn. destruct (period (cf e) <? tnow s1 - start)%Z eqn:Ep.
    + cbn. split; [rewrite Hx1; discriminate|]. unfold loop_inv in *. cbn. rewrite Ht, Hj. exact Hinv.
    + (* go on: the clock has not jumped yet, so one more unit of the budget is used *)
      destruct Hinv as [I1 I2].
      assert (Hjf : jmp s1 = false).
      { destruct (jmp s1) eqn:E; auto. exfalso.
        assert (E' : jmp s = true) by congruence. specialize (I2 E'). lia. }
      rewrite Hjf in Ej. cbn in Ej. rewrite andb_true_r in Ej.
      apply IH.
      * exact Hx1.
      * unfold loop_inv. cbn. rewrite Ht, Hjf. split; [intros _; apply I1; congruence|discriminate].
      * cbn. lia.
Qed.

(* C05_send_loop_fuel: the fuel given to the send loop is never exhausted *)
Lemma send_loop_fuel : forall e s, exc s <> EXC_FUEL -> exc (send_ae e s) <> EXC_FUEL.
Proof.
  intros e s Hx. unfold send_ae.
  set (s0 := upd _ (s <| used := 0 |> <| jmp := false |>)).
  set (start := tnow s0).
  set (fuel := Datatypes.S (N.to_nat (budget e) + length (targets e (nd s0)) + 1)).
  assert (H0 : exc s0 <> EXC_FUEL /\ (exc s0 = 0 -> loop_inv e start s0)).
  { subst s0 start. unfold upd, loop_inv. cbn. split; auto. intros _. split; [reflexivity|discriminate]. }
  assert (Hfuel : forall s1, (N.to_nat (budget e + 1 - used s1) < fuel)%nat) by (intros; subst fuel; lia).
  clearbody fuel. clearbody start. clearbody s0.
  apply (fold_left_keeps _ _ (fun s' => exc s' <> EXC_FUEL /\ (exc s' = 0 -> loop_inv e start s'))); auto.
  intros a b [A1 A2]. destruct (ok a) eqn:Eok; [|auto].
  assert (Ha : exc a = 0) by (unfold ok in Eok; lia).
  destruct (negb (smem b (connected (nd a)))).
  - unfold cancel_transmission, upd. cbn. split; auto.
  - destruct (ae_loop_fuel fuel e start b true false a Ha (A2 Ha) (Hfuel a)) as [B1 B2]. auto.
Qed.

(* ================= C05_queue_drains ================= *)
Lemma do_change_cluster_clock : forall a x rev s,
  tnow (fst (do_change_cluster a x rev s)) = tnow s /\ exc (fst (do_change_cluster a x rev s)) = exc s /\
  role (nd (fst (do_change_cluster a x rev s))) = role (nd s) /\
  leader (nd (fst (do_change_cluster a x rev s))) = leader (nd s) /\
  queue (nd (fst (do_change_cluster a x rev s))) = queue (nd s) /\
  log (nd (fst (do_change_cluster a x rev s))) = log (nd s) /\
  term (nd (fst (do_change_cluster a x rev s))) = term (nd s).
Proof.
  intros a x rev s. unfold do_change_cluster.
  destruct (xorb a rev).
  - destruct (self_is x (nd s) || smem x (others (nd s))); cbn; [repeat split; auto|].
    destruct (role (nd s) =? LEADER); cbn; repeat split; auto.
  - destruct (self_is x (nd s)); cbn; [repeat split; auto|].
    destruct (negb (smem x (others (nd s)))); cbn; repeat split; auto.
Qed.

Lemma change_cluster_clock : forall a x s,
  tnow (fst (change_cluster a x s)) = tnow s /\ exc (fst (change_cluster a x s)) = exc s /\
  role (nd (fst (change_cluster a x s))) = role (nd s) /\
  leader (nd (fst (change_cluster a x s))) = leader (nd s) /\
  queue (nd (fst (change_cluster a x s))) = queue (nd s) /\
  log (nd (fst (change_cluster a x s))) = log (nd s) /\
  term (nd (fst (change_cluster a x s))) = term (nd s).
Proof.
  intros a x s. unfold change_cluster.
  destruct (negb _); [cbn; repeat split; auto|].
  set (s1 := match change_idx (nd s) with Some ci => _ | None => s end).
  assert (H1 : tnow s1 = tnow s /\ exc s1 = exc s /\ role (nd s1) = role (nd s) /\
               leader (nd s1) = leader (nd s) /\ queue (nd s1) = queue (nd s) /\ log (nd s1) = log (nd s) /\
               term (nd s1) = term (nd s)).
  { subst s1. destruct (change_idx (nd s)) as [ci|]; [|repeat split; auto].
    destruct (ci <=? applied (nd s)); unfold upd; cbn; repeat split; auto. }
  clearbody s1. destruct (change_idx (nd s1)); [cbn; exact H1|].
  destruct (do_change_cluster_clock a x false s1) as (D1 & D2 & D3 & D4 & D5 & D6 & D7).
  destruct H1 as (A1 & A2 & A3 & A4 & A5 & A6 & A7). repeat split; congruence.
Qed.

Definition calm (e : env) (s : S) : Prop := use_batch (cf e) = true \/ role (nd s) <> LEADER.

Lemma check_one_clock : forall e c cbk s, calm e s ->
  let s' := check_one e c cbk s in
  tnow s' = tnow s /\ exc s' = exc s /\ role (nd s') = role (nd s) /\ leader (nd s') = leader (nd s) /\
  queue (nd s') = queue (nd s).
Proof.
  intros e c cbk s Hcalm. cbv zeta. unfold check_one.
  destruct (role (nd s) =? LEADER) eqn:Er.
  - assert (Hub : use_batch (cf e) = true) by (destruct Hcalm as [H|H]; auto; lia).
    rewrite Hub.
    set (req := if dyn (cf e) then membership_of c else None).
    set (pr := match req with None => (s, true) | Some (a, x) => change_cluster a x s end).
    assert (Hpr : tnow (fst pr) = tnow s /\ exc (fst pr) = exc s /\ role (nd (fst pr)) = role (nd s) /\
                  leader (nd (fst pr)) = leader (nd s) /\ queue (nd (fst pr)) = queue (nd s)).
    { subst pr. destruct req as [[a x]|]; [|cbn; repeat split; auto].
      destruct (change_cluster_clock a x s) as (D1 & D2 & D3 & D4 & D5 & _). repeat split; auto. }
    destruct pr as [s1 accepted]. cbn [fst] in Hpr. destruct Hpr as (A1 & A2 & A3 & A4 & A5).
    destruct accepted.
    + set (s2 := upd (log_add _) s1).
      set (s3 := match req with Some _ => upd (fun n => n <| change_idx := Some (last_idx (log (nd s)) + 1) |>) s2 | None => s2 end).
      assert (H3 : tnow s3 = tnow s /\ exc s3 = exc s /\ role (nd s3) = role (nd s) /\
                   leader (nd s3) = leader (nd s) /\ queue (nd s3) = queue (nd s)).
      { subst s3 s2. destruct req; unfold upd, log_add; cbn; repeat split; auto. }
      clearbody s3. destruct H3 as (B1 & B2 & B3 & B4 & B5).
      destruct cbk as [|id|rn rid].
      * repeat split; auto.
      * unfold upd; cbn. repeat split; auto.
      * match goal with |- context [send rn ?m s3] => destruct (send_frame rn m s3) as (S1 & S2 & S3) end.
        rewrite S1, S2, S3. repeat split; auto.
    + destruct cbk as [|id|rn rid].
      * repeat split; auto.
      * unfold emit; cbn. repeat split; auto.
      * match goal with |- context [send rn ?m s1] => destruct (send_frame rn m s1) as (S1 & S2 & S3) end.
        rewrite S1, S2, S3. repeat split; auto.
  - destruct (leader (nd s)) as [l|] eqn:El.
    + destruct cbk as [|id|rn rid].
      * match goal with |- context [send l ?m s] => destruct (send_frame l m s) as (S1 & S2 & S3) end.
        rewrite S1, S2, S3. repeat split; auto.
      * match goal with |- context [send l ?m ?s0] => destruct (send_frame l m s0) as (S1 & S2 & S3) end.
        rewrite S1, S2, S3. unfold upd; cbn. repeat split; auto.
      * match goal with |- context [send rn ?m s] => destruct (send_frame rn m s) as (S1 & S2 & S3) end.
        rewrite S1, S2, S3. repeat split; auto.
    + unfold call_err. destruct cbk as [|id|rn rid].
      * repeat split; auto.
      * unfold emit; cbn. repeat split; auto.
      * match goal with |- context [send rn ?m s] => destruct (send_frame rn m s) as (S1 & S2 & S3) end.
        rewrite S1, S2, S3. repeat split; auto.
Qed.

(* take the head command off the queue and handle it *)
Definition pop_check (e : env) (s : S) (q : cmd * cbref) : S :=
  check_one e (fst q) (snd q) (upd (fun n => n <| queue := tl (queue n) |>) s).

Lemma check_loop_drains : forall e start q s,
  (0 < period (cf e))%Z -> tnow s = start -> exc s = 0 -> calm e s ->
  (leader (nd s) <> None \/ wait_leader (cf e) = false) ->
  queue (nd s) = q ->
  check_loop (Datatypes.S (length q)) e start s = fold_left (pop_check e) q s /\
  queue (nd (fold_left (pop_check e) q s)) = [] /\ exc (fold_left (pop_check e) q s) = 0 /\
  tnow (fold_left (pop_check e) q s) = start.
Proof.
  intros e start q. induction q as [|[c cbk] rest IH]; intros s Hp Ht Hx Hcalm Hl Hq.
  - cbn [length check_loop fold_left]. rewrite Ht, Hq.
    destruct (start - start <? period (cf e))%Z; [|auto].
    destruct (leader (nd s)); [auto|]. destruct (wait_leader (cf e)); auto.
  - cbn [length]. remember (Datatypes.S (length rest)) as f. cbn [check_loop fold_left]. rewrite Ht.
    destruct (start - start <? period (cf e))%Z eqn:Ep; [|lia].
    assert (Hnw : match leader (nd s), wait_leader (cf e) with None, true => False | _, _ => True end).
    { destruct (leader (nd s)); auto. destruct (wait_leader (cf e)); auto.
      destruct Hl as [Hl|Hl]; [congruence|discriminate]. }
    rewrite Hq.
    set (s1 := upd (fun n => n <| queue := rest |>) s).
    assert (Hpc : pop_check e s (c, cbk) = check_one e c cbk s1).
    { unfold pop_check. cbn [fst snd]. subst s1. unfold upd. rewrite Hq. reflexivity. }
    assert (Hcalm1 : calm e s1) by exact Hcalm.
    destruct (check_one_clock e c cbk s1 Hcalm1) as (C1 & C2 & C3 & C4 & C5).
    set (s2 := check_one e c cbk s1) in *.
    assert (Hok : ok s2 = true) by (unfold ok; rewrite C2; subst s1; unfold upd; cbn; lia).
    assert (IHs : check_loop f e start s2 = fold_left (pop_check e) rest s2 /\
                  queue (nd (fold_left (pop_check e) rest s2)) = [] /\
                  exc (fold_left (pop_check e) rest s2) = 0 /\ tnow (fold_left (pop_check e) rest s2) = start).
    { subst f. apply IH; auto.
      - rewrite C1. exact Ht.
      - rewrite C2. exact Hx.
      - unfold calm in *. rewrite C3. exact Hcalm.
      - rewrite C4. exact Hl. }
    rewrite Hpc. fold s2.
    destruct (leader (nd s)) as [l|]; [rewrite Hok; exact IHs|].
    destruct (wait_leader (cf e)); [contradiction|]. rewrite Hok. exact IHs.
Qed.

(* C05_queue_drains: with a frozen clock (batching on, or not the leader: no send loop runs
   inside) and a known leader, one pass handles every queued command in order and leaves the
   queue empty *)
Lemma queue_drains : forall e s,
  (0 < period (cf e))%Z -> exc s = 0 -> calm e s ->
  (leader (nd s) <> None \/ wait_leader (cf e) = false) ->
  check_commands e s = fold_left (pop_check e) (queue (nd s)) s /\
  queue (nd (check_commands e s)) = [] /\ exc (check_commands e s) = 0.
Proof.
  intros e s Hp Hx Hcalm Hl. unfold check_commands.
  destruct (check_loop_drains e (tnow s) (queue (nd s)) s Hp eq_refl Hx Hcalm Hl eq_refl) as (H1 & H2 & H3 & _).
  rewrite H1. auto.
Qed.

(* without a leader and with waitLeader the queue is left alone *)
Lemma queue_waits_for_leader : forall e s,
  leader (nd s) = None -> wait_leader (cf e) = true -> check_commands e s = s.
Proof.
  intros e s Hl Hw. unfold check_commands. cbn [check_loop]. rewrite Hl, Hw.
  destruct (_ <? _)%Z; reflexivity.
Qed.

(* what happens to one queued command: appended to the log, denied (with the error reply),
   forwarded to the leader (ApplyCmd sent, or dropped because the leader is not connected),
   or failed for lack of a leader *)
Lemma check_one_outcome : forall e c cbk s, calm e s ->
  let s' := check_one e c cbk s in
  (role (nd s) = LEADER /\
     (log (nd s') = log (nd s) ++ [mkEntry c (last_idx (log (nd s)) + 1) (term (nd s))] \/
      (log (nd s') = log (nd s) /\ dyn (cf e) = true /\ membership_of c <> None /\
       match cbk with
       | CbLocal id => In (Fired id 0 REQUEST_DENIED) (outs s')
       | CbRemote rn rid => smem rn (tconn (nd s')) = true ->
                            In (Send rn (ApplyResp rid false REQUEST_DENIED 0)) (outs s')
       | CbNone => True
       end))) \/
  (role (nd s) <> LEADER /\ log (nd s') = log (nd s) /\
     match leader (nd s) with
     | Some l =>
       match cbk with
       | CbRemote rn rid => smem rn (tconn (nd s)) = true ->
                            In (Send rn (ApplyResp rid false NOT_LEADER 0)) (outs s')
       | CbLocal id => aget (local_ctr (nd s) + 1) (wait_reply (nd s')) = Some cbk /\
                       (smem l (tconn (nd s)) = true ->
                        In (Send l (ApplyCmd c (Some (local_ctr (nd s) + 1)))) (outs s'))
       | CbNone => smem l (tconn (nd s)) = true -> In (Send l (ApplyCmd c None)) (outs s')
       end
     | None =>
       match cbk with
       | CbRemote rn rid => smem rn (tconn (nd s)) = true ->
                            In (Send rn (ApplyResp rid false MISSING_LEADER 0)) (outs s')
       | CbLocal id => In (Fired id 0 MISSING_LEADER) (outs s')
       | CbNone => True
       end
     end).
Proof.
  intros e c cbk s Hcalm. cbv zeta. unfold check_one.
  destruct (role (nd s) =? LEADER) eqn:Er.
  - left. split; [lia|].
    assert (Hub : use_batch (cf e) = true) by (destruct Hcalm as [H|H]; auto; lia).
    rewrite Hub.
    destruct (dyn (cf e)) eqn:Ed.
    + destruct (membership_of c) as [[a x]|] eqn:Em.
      * destruct (change_cluster_clock a x s) as (_ & _ & _ & _ & _ & D6 & D7).
        destruct (change_cluster a x s) as [s1 accepted]. cbn [fst] in *.
        destruct accepted.
        -- left. destruct cbk as [|id|rn rid]; unfold upd, log_add; cbn;
             try (match goal with |- context [send ?d ?m ?s0] => destruct (send_frame d m s0) as (S1 & _); rewrite S1 end; cbn);
             rewrite ?D6, ?D7; reflexivity.
        -- right. repeat split; auto; try discriminate.
           ++ destruct cbk as [|id|rn rid]; cbn; auto.
              match goal with |- context [send ?d ?m ?s0] => destruct (send_frame d m s0) as (S1 & _); rewrite S1 end. auto.
           ++ destruct cbk as [|id|rn rid]; auto.
              ** unfold emit; cbn. apply in_or_app. right. left. reflexivity.
              ** match goal with |- context [send rn ?m s1] => destruct (send_frame rn m s1) as (S1 & _); rewrite S1 end.
                 intros Hc. rewrite send_outs.
                 rewrite Hc. apply in_or_app. right. left. reflexivity.
      * left. destruct cbk as [|id|rn rid]; unfold upd, log_add; cbn;
          try (match goal with |- context [send ?d ?m ?s0] => destruct (send_frame d m s0) as (S1 & _); rewrite S1 end; cbn);
          reflexivity.
    + left. destruct cbk as [|id|rn rid]; unfold upd, log_add; cbn;
        try (match goal with |- context [send ?d ?m ?s0] => destruct (send_frame d m s0) as (S1 & _); rewrite S1 end; cbn);
        reflexivity.
  - right. split; [lia|].
    destruct (leader (nd s)) as [l|].
    + destruct cbk as [|id|rn rid].
      * split; [match goal with |- context [send ?d ?m ?s0] => destruct (send_frame d m s0) as (S1 & _); rewrite S1 end; reflexivity|].
        intros Hc. rewrite send_outs, Hc. apply in_or_app. right. left. reflexivity.
      * split; [match goal with |- context [send ?d ?m ?s0] => destruct (send_frame d m s0) as (S1 & _); rewrite S1 end; reflexivity|].
        split.
        -- match goal with |- context [send ?d ?m ?s0] => destruct (send_frame d m s0) as (S1 & _); rewrite S1 end.
           unfold upd; cbn. apply aget_aset_same.
        -- intros Hc. rewrite send_outs. unfold upd; cbn. rewrite Hc. apply in_or_app. right. left. reflexivity.
      * split; [match goal with |- context [send ?d ?m ?s0] => destruct (send_frame d m s0) as (S1 & _); rewrite S1 end; reflexivity|].
        intros Hc. rewrite send_outs, Hc. apply in_or_app. right. left. reflexivity.
    + unfold call_err. destruct cbk as [|id|rn rid].
      * split; auto.
      * split; [reflexivity|]. unfold emit; cbn. apply in_or_app. right. left. reflexivity.
      * split; [match goal with |- context [send ?d ?m ?s0] => destruct (send_frame d m s0) as (S1 & _); rewrite S1 end; reflexivity|].
        intros Hc. rewrite send_outs, Hc. apply in_or_app. right. left. reflexivity.
Qed.
