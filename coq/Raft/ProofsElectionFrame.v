(* Election safety (C03/C07), part 2: frame lemmas for the helpers of Node.v.
   rel K0 s s' : s' has the same election core (self, role, term, voted, votes) as s and has
                 emitted no further "loud" output (ResponseVote send or Role _ LEADER);
   rel KB s s' : `others` is unchanged, and if replay_idx <= applied held in s it holds in s'. *)
From Coq Require Import ZArith NArith List Bool Lia.
From RecordUpdate Require Import RecordSet.
From PSO Require Import Raft.Types Raft.Node Raft.ProofsElectionBase.
Import ListNotations.
Import RecordSetNotations.
Open Scope N_scope.

Definition core (n : node) := (self n, role n, term n, voted n, votes n).
Definition aux (n : node) := (others n, applied n, replay_idx n).
Definition big (n : node) := (core n, aux n).

Definition quiet (o : out) : bool :=
  match o with
  | Send _ (ResponseVote _) => false
  | Role _ r => negb (r =? LEADER)
  | _ => true
  end.
Definition loud (os : list out) : list out := filter (fun o => negb (quiet o)) os.

Definition rinv (n : node) : Prop := replay_idx n <= applied n.
Definition static (c : conf) : Prop := dyn c = false /\ file_dump c = false.

Definition same0 (s s' : S) : Prop := core (nd s') = core (nd s) /\ loud (outs s') = loud (outs s).
Definition sameB (s s' : S) : Prop := others (nd s') = others (nd s) /\ (rinv (nd s) -> rinv (nd s')).

Inductive kind := K0 | KB.
Definition rel (k : kind) (s s' : S) : Prop := match k with K0 => same0 s s' | KB => sameB s s' end.

Lemma loud_app a b : loud (a ++ b) = loud a ++ loud b.
Proof. unfold loud. apply filter_app. Qed.

Lemma rel_refl k s : rel k s s.
Proof. destruct k; simpl; split; auto. Qed.

Lemma rel_trans k s a b : rel k s a -> rel k a b -> rel k s b.
Proof.
  destruct k; simpl.
  - intros [H1 H2] [H3 H4]. split; congruence.
  - intros [E1 R1] [E2 R2]. split; [congruence | auto].
Qed.

Lemma rel_eq k s s0 s1 : nd s1 = nd s0 -> outs s1 = outs s0 -> rel k s s0 -> rel k s s1.
Proof.
  intros En Eo. destruct k; simpl; unfold same0, sameB.
  - intros [H1 H2]. rewrite En, Eo. split; auto.
  - intros [E R]. rewrite En. split; auto.
Qed.

Lemma rel_upd k f s s0 : (forall n, big (f n) = big n) -> rel k s s0 -> rel k s (upd f s0).
Proof.
  intros Hf H. eapply rel_trans; [exact H|]. clear H.
  specialize (Hf (nd s0)).
  pose proof (f_equal fst Hf) as Hc. pose proof (f_equal snd Hf) as Ha. simpl in Hc, Ha. clear Hf.
  destruct k; simpl; unfold same0, sameB.
  - split; [exact Hc | reflexivity].
  - pose proof (f_equal (fun p => fst (fst p)) Ha) as Ho.
    pose proof (f_equal (fun p => snd (fst p)) Ha) as Hap.
    pose proof (f_equal snd Ha) as Hr. simpl in Ho, Hap, Hr. split; [exact Ho|]. intros R.
    unfold rinv in *. change (nd (upd f s0)) with (f (nd s0)). rewrite Hap, Hr. exact R.
Qed.

Lemma rel_emit k o s s0 : quiet o = true -> rel k s s0 -> rel k s (emit o s0).
Proof.
  intros Hq H. eapply rel_trans; [exact H|]. clear H.
  destruct k; simpl; unfold same0, sameB.
  - split; [reflexivity|]. change (outs (emit o s0)) with (outs s0 ++ [o]).
    rewrite loud_app. simpl. rewrite Hq. simpl. apply app_nil_r.
  - split; [reflexivity | intros R; exact R].
Qed.

Lemma rel_send k d m s s0 : quiet (Send d m) = true -> rel k s s0 -> rel k s (send d m s0).
Proof. intros Hq H. unfold send. destruct (smem d (tconn (nd s0))); auto. apply rel_emit; auto. Qed.

Lemma rel_raise k c s s0 : rel k s s0 -> rel k s (raise c s0).
Proof. apply rel_eq; reflexivity. Qed.

(* pair-returning helpers are used through fst *)
Ltac fr_pair :=
  match goal with
  | H : ?t = (?v, _) |- rel _ _ ?v =>
      is_var v; let H' := fresh in
      assert (H' : v = fst t) by (rewrite H; reflexivity); rewrite H'; clear H'
  end.

Ltac fr_helpers := fail.

Ltac fr1 :=
  first
  [ assumption
  | apply rel_refl
  | match goal with
    | |- rel _ _ (if ?b then _ else _) => destruct b eqn:?
    | |- rel _ _ (match ?x with _ => _ end) => destruct x eqn:?
    | |- rel _ _ (fst (if ?b then _ else _)) => destruct b eqn:?
    | |- rel _ _ (fst (match ?x with _ => _ end)) => destruct x eqn:?
    | |- rel _ _ (fst (_, _)) => cbn [fst]
    end
  | fr_pair
  | fr_helpers
  | apply rel_upd; [intro; reflexivity|]
  | apply rel_emit; [reflexivity|]
  | apply rel_send; [reflexivity|]
  | apply rel_raise ].
Ltac fr := repeat fr1.

(* ---------- pure quiet helpers (both relations at once) ---------- *)
Lemma fire_rel k cb r e s s0 : rel k s s0 -> rel k s (fire cb r e s0).
Proof. intros H. unfold fire. fr. Qed.
Ltac fr_h1 := match goal with |- rel _ _ (fire _ _ _ _) => apply fire_rel end.
Ltac fr_helpers ::= fr_h1.

Lemma call_err_rel k err cb s s0 : rel k s s0 -> rel k s (call_err err cb s0).
Proof. intros H. unfold call_err. fr. Qed.

Lemma fold_rel {A} k (f : S -> A -> S) l s s0 :
  (forall s1 a, rel k s s1 -> rel k s (f s1 a)) -> rel k s s0 -> rel k s (fold_left f l s0).
Proof. intros Hf. revert s0. induction l as [|a l IH]; simpl; intros s0 H; auto. Qed.

Lemma on_leader_changed_rel k s s0 : rel k s s0 -> rel k s (on_leader_changed s0).
Proof.
  intros H. unfold on_leader_changed. fr. apply fold_rel; auto.
  intros s1 a H1. fr.
Qed.

Lemma send_next_idx_rel k d nx r su s s0 : rel k s s0 -> rel k s (send_next_idx d nx r su s0).
Proof. intros H. unfold send_next_idx. fr. Qed.
Ltac fr_h2 := first [fr_h1 | match goal with
  | |- rel _ _ (call_err _ _ _) => apply call_err_rel
  | |- rel _ _ (on_leader_changed _) => apply on_leader_changed_rel
  | |- rel _ _ (send_next_idx _ _ _ _ _) => apply send_next_idx_rel end].
Ltac fr_helpers ::= fr_h2.

Lemma get_transmission_rel k e x s s0 : rel k s s0 -> rel k s (fst (get_transmission e x s0)).
Proof. intros H. unfold get_transmission. cbv zeta. fr. Qed.

Lemma cancel_transmission_rel k x s s0 : rel k s s0 -> rel k s (cancel_transmission x s0).
Proof. intros H. unfold cancel_transmission. fr. Qed.

Lemma set_transmission_rel k p s s0 : rel k s s0 -> rel k s (fst (set_transmission p s0)).
Proof. intros H. unfold set_transmission. cbv zeta. fr. Qed.

Lemma delta_read_rel k e s s0 : rel k s s0 -> rel k s (delta_read e s0).
Proof.
  intros H. unfold delta_read. cbv zeta.
  destruct (_ && _); eapply rel_eq; try eassumption; reflexivity.
Qed.
Ltac fr_h3 := first [fr_h2 | match goal with
  | |- rel _ _ (fst (get_transmission _ _ _)) => apply get_transmission_rel
  | |- rel _ _ (cancel_transmission _ _) => apply cancel_transmission_rel
  | |- rel _ _ (fst (set_transmission _ _)) => apply set_transmission_rel
  | |- rel _ _ (delta_read _ _) => apply delta_read_rel end].
Ltac fr_helpers ::= fr_h3.

Lemma send_pieces_rel k fuel x en prev b pos s s0 :
  rel k s s0 -> rel k s (send_pieces fuel x en prev b pos s0).
Proof.
  revert pos s0. induction fuel as [|f IH]; simpl; intros pos s0 H; auto.
  destruct (psize en <=? pos); auto. apply IH. fr.
Qed.
Ltac fr_h4 := first [fr_h3 | match goal with |- rel _ _ (send_pieces _ _ _ _ _ _ _) => apply send_pieces_rel end].
Ltac fr_helpers ::= fr_h4.

Lemma ae_body_rel k e x next s s0 : rel k s s0 -> rel k s (fst (ae_body e x next s0)).
Proof. intros H. unfold ae_body. cbv zeta. fr. Qed.
Ltac fr_h5 := first [fr_h4 | match goal with |- rel _ _ (fst (ae_body _ _ _ _)) => apply ae_body_rel end].
Ltac fr_helpers ::= fr_h5.

Lemma ae_loop_rel k fuel e start x single ser_ s s0 :
  rel k s s0 -> rel k s (ae_loop fuel e start x single ser_ s0).
Proof.
  revert single ser_ s0. induction fuel as [|f IH]; simpl; intros single ser_ s0 H.
  - fr.
  - fr. apply IH. fr.
Qed.
Ltac fr_h6 := first [fr_h5 | match goal with |- rel _ _ (ae_loop _ _ _ _ _ _ _) => apply ae_loop_rel end].
Ltac fr_helpers ::= fr_h6.

Lemma send_ae_rel k e s s0 : rel k s s0 -> rel k s (send_ae e s0).
Proof.
  intros H. unfold send_ae. cbv zeta. apply fold_rel.
  - intros s1 a H1. fr.
  - apply rel_upd; [intro; reflexivity|]. eapply rel_eq; [| | exact H]; reflexivity.
Qed.

Lemma submit_rel k e c cbk s s0 : rel k s s0 -> rel k s (submit e c cbk s0).
Proof. intros H. unfold submit. fr. Qed.

Lemma try_compact_rel k e s s0 : rel k s s0 -> rel k s (try_compact e s0).
Proof. intros H. unfold try_compact. cbv zeta. fr. Qed.

Lemma tick_timer_rel k e s s0 : rel k s s0 -> rel k s (tick_timer e s0).
Proof. intros H. unfold tick_timer. cbv zeta. fr. Qed.

Lemma tick_ready_rel k s s0 : rel k s s0 -> rel k s (tick_ready s0).
Proof. intros H. unfold tick_ready. cbv zeta. fr. Qed.

Lemma ae_commit_rel k c v s s0 : rel k s s0 -> rel k s (ae_commit c v s0).
Proof. intros H. unfold ae_commit. cbv zeta. fr. Qed.
Ltac fr_h7 := first [fr_h6 | match goal with
  | |- rel _ _ (send_ae _ _) => apply send_ae_rel
  | |- rel _ _ (submit _ _ _ _) => apply submit_rel
  | |- rel _ _ (try_compact _ _) => apply try_compact_rel
  | |- rel _ _ (tick_timer _ _) => apply tick_timer_rel
  | |- rel _ _ (tick_ready _) => apply tick_ready_rel
  | |- rel _ _ (ae_commit _ _ _) => apply ae_commit_rel end].
Ltac fr_helpers ::= fr_h7.

Lemma commit_loop_rel k fuel ci next s s0 : rel k s s0 -> rel k s (fst (commit_loop fuel ci next s0)).
Proof.
  revert ci next s0. induction fuel as [|f IH]; simpl; intros ci next s0 H; auto.
  fr; apply IH; auto.
Qed.

Lemma tick_send_rel k e need s s0 : rel k s s0 -> rel k s (tick_send e need s0).
Proof. intros H. unfold tick_send. fr. Qed.
Ltac fr_h8 := first [fr_h7 | match goal with
  | |- rel _ _ (fst (commit_loop _ _ _ _)) => apply commit_loop_rel
  | |- rel _ _ (tick_send _ _ _) => apply tick_send_rel end].
Ltac fr_helpers ::= fr_h8.
