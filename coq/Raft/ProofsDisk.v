(* C06: what a journaled node finds after a restart and what the first tick rebuilds. *)
From Coq Require Import ZArith NArith List Bool Lia ZifyBool ZifyN.
From RecordUpdate Require Import RecordSet.
From PSO Require Import Raft.Types Raft.Node Raft.Net Raft.Obs Raft.ProofsSnapshotBase Raft.ProofsSnapshot.
Import ListNotations.
Import RecordSetNotations.
Open Scope N_scope.

(* ================= the disk of a killed node ================= *)
Lemma disk_has_log : forall c n d, disk_of c n = Some d ->
  d_log d = log n /\ d_meta d = meta_commit n /\
  d_dump d = (if file_dump c then stored (sr n) else None) /\ file_journal c = true.
Proof.
  intros c n d H. unfold disk_of in H. destruct (file_journal c); [|discriminate].
  inversion H; subst. cbn. auto.
Qed.

Lemma aget_aset_same_gen : forall V (l : list (N * V)) x v, aget x (aset x v l) = Some v.
Proof. exact aget_aset_same. Qed.

(* EKill keeps exactly the node's log, flushed commit index and dump *)
Lemma kill_saves_disk : forall c g n x g' r,
  file_journal c = true -> aget n (nodes g) = Some x ->
  gstep c g (EKill n) = Some (g', r) ->
  aget n (disks g') = Some (mkDisk (log x) (meta_commit x) (if file_dump c then stored (sr x) else None)).
Proof.
  intros c g n x g' r Hj Hx H. cbn in H. rewrite Hx in H. unfold disk_of in H.
  rewrite Hj in H. inversion H; subst. cbn. apply aget_aset_same.
Qed.

Lemma restart_reads_disk : forall c g n oth now rn sv d g' r,
  n < RO_BASE -> aget n (disks g) = Some d ->
  gstep c g (ERestart n oth now rn sv) = Some (g', r) ->
  aget n (nodes g') = Some (init_from_disk (mk_env c now rn DEFAULT_BUDGET [] 0) (Some n) oth sv d).
Proof.
  intros c g n oth now rn sv d g' r Hn Hd H. cbn in H. rewrite Hd in H.
  destruct (RO_BASE <=? n) eqn:E; [lia|]. inversion H; subst. cbn. apply aget_aset_same.
Qed.

(* ================= C06_restart_state ================= *)
Lemma restart_state : forall e me oth sv d, d_log d <> [] ->
  let n := init_from_disk e me oth sv d in
  log n = d_log d /\ commit n = d_meta d /\ meta_commit n = d_meta d /\ applied n = 1 /\
  term n = 0 /\ voted n = None /\ role n = FOLLOWER /\ leader n = None /\
  stored (sr n) = d_dump d /\ pid (sr n) = 0 /\ trans (sr n) = [] /\ incoming (sr n) = None /\
  need_load n = true /\ replay_idx n = last_idx (d_log d) /\ hist n = [] /\ enabled_ver n = 0 /\
  self_ver n = sv /\ self n = me /\ others n = oth /\ queue n = [] /\
  deadline n = (t0 e + gen_timeout e)%Z.
Proof.
  intros e me oth sv d Hne. cbv zeta. unfold init_from_disk.
  destruct (d_log d) as [|x l] eqn:E; [congruence|]. cbn. repeat split; reflexivity.
Qed.

Lemma restart_state_empty_journal : forall e me oth sv d, d_log d = [] ->
  let n := init_from_disk e me oth sv d in
  log n = [mkEntry (noop_cmd (noop_pk (cf e))) 1 0] /\ commit n = 1 /\ applied n = 1 /\
  term n = 0 /\ voted n = None /\ stored (sr n) = d_dump d /\ need_load n = true.
Proof.
  intros e me oth sv d He. cbv zeta. unfold init_from_disk. rewrite He. cbn. repeat split; reflexivity.
Qed.

(* ================= replay ================= *)
(* the part of the node that replay is about *)
Definition core (n : node) := (hist n, applied n, self_ver n, log n, commit n, replay_idx n, meta_commit n, sr n).

Lemma do_change_cluster_core : forall a x rev s,
  core (nd (fst (do_change_cluster a x rev s))) = core (nd s) /\
  exc (fst (do_change_cluster a x rev s)) = exc s.
Proof.
  intros a x rev s. unfold do_change_cluster.
  destruct (xorb a rev).
  - destruct (self_is x (nd s) || smem x (others (nd s))); cbn; [auto|].
    destruct (role (nd s) =? LEADER); cbn; auto.
  - destruct (self_is x (nd s)); cbn; [auto|].
    destruct (negb (smem x (others (nd s)))); cbn; auto.
Qed.

Lemma fold_fire_nd : forall (f : S -> (N * cbref) -> S) subs s,
  (forall a b, nd (f a b) = nd a /\ exc (f a b) = exc a) ->
  nd (fold_left f subs s) = nd s /\ exc (fold_left f subs s) = exc s.
Proof.
  intros f subs. induction subs as [|x subs IH]; intros s H; cbn; auto.
  destruct (IH (f s x) H) as [I1 I2]. destruct (H s x) as [H1 H2]. split; congruence.
Qed.

Definition hist_add (c : cmd) : list N := if (ck c =? 0) && negb (cb c =? 1) then [ca c] else [].
Definition wrong_ver (sv : N) (c : cmd) : bool := (ck c =? 3) && (sv <? ca c).

Lemma do_apply_spec : forall c s,
  let r := do_apply c s in
  exc (fst r) = exc s /\
  if wrong_ver (self_ver (nd s)) c
  then snd r = WrongVer /\ fst r = s
  else snd r <> WrongVer /\
       core (nd (fst r)) = (hist (nd s) ++ hist_add c, applied (nd s), self_ver (nd s), log (nd s),
                            commit (nd s), replay_idx (nd s), meta_commit (nd s), sr (nd s)).
Proof.
  intros c s. cbv zeta. unfold do_apply, wrong_ver, hist_add.
  destruct (ck c =? 3) eqn:E3.
  - assert (E0 : (ck c =? 0) = false) by lia. rewrite E0.
    destruct (self_ver (nd s) <? ca c); cbn; [auto|].
    rewrite app_nil_r. repeat split; auto. discriminate.
  - cbn [andb]. destruct (membership_of c) as [[a x]|] eqn:Em.
    + assert (E0 : (ck c =? 0) = false).
      { unfold membership_of in Em. destruct (ck c =? 2) eqn:E2; [lia|discriminate]. }
      rewrite E0. cbn [andb]. rewrite app_nil_r.
      destruct (applied (nd s) <? replay_idx (nd s)); cbn [fst snd].
      * destruct (do_change_cluster_core a x false s) as [D1 D2]. rewrite D1, D2.
        repeat split; auto. discriminate.
      * repeat split; auto. discriminate.
    + destruct (ck c =? 0); cbn [andb].
      * destruct (cb c =? 1); cbn; rewrite ?app_nil_r; repeat split; auto; discriminate.
      * cbn. rewrite app_nil_r. repeat split; auto. discriminate.
Qed.

Lemma apply_one_spec : forall en s,
  let r := apply_one en s in
  exc (fst r) = exc s /\
  if wrong_ver (self_ver (nd s)) (ecmd en)
  then snd r = false /\ core (nd (fst r)) = core (nd s)
  else snd r = true /\
       core (nd (fst r)) = (hist (nd s) ++ hist_add (ecmd en), applied (nd s) + 1, self_ver (nd s),
                            log (nd s), commit (nd s), replay_idx (nd s), meta_commit (nd s), sr (nd s)).
Proof.
  intros en s. cbv zeta. unfold apply_one.
  set (s0 := upd _ s).
  assert (H0 : core (nd s0) = core (nd s) /\ exc s0 = exc s) by (subst s0; unfold upd; cbn; auto).
  assert (Hsv : self_ver (nd s0) = self_ver (nd s)) by (subst s0; reflexivity).
  pose proof (do_apply_spec (ecmd en) s0) as Hd. cbv zeta in Hd. rewrite Hsv in Hd.
  destruct (do_apply (ecmd en) s0) as [s1 ar]. cbn [fst snd] in Hd.
  destruct Hd as [Hx Hd].
  destruct (wrong_ver (self_ver (nd s)) (ecmd en)).
  - destruct Hd as [Har Hs1]. subst ar s1. cbn [fst snd]. destruct H0; split; [congruence|auto].
  - destruct Hd as [Har Hc].
    match goal with |- context [fold_left ?f ?l s1] => set (F := f); set (L := l) end.
    assert (Hf : nd (fold_left F L s1) = nd s1 /\ exc (fold_left F L s1) = exc s1).
    { apply fold_fire_nd. intros a0 b. subst F. cbn.
      destruct (fst b =? eterm en);
        match goal with |- context [fire ?c ?r ?er a0] => destruct (fire_nd c r er a0) as (P & Q & _) end;
        auto. }
    destruct Hf as [Hf1 Hf2].
    assert (Hgoal : exc (upd (fun n => n <| applied := applied n + 1 |>) (fold_left F L s1)) = exc s /\
      core (nd (upd (fun n => n <| applied := applied n + 1 |>) (fold_left F L s1))) =
      (hist (nd s) ++ hist_add (ecmd en), applied (nd s) + 1, self_ver (nd s),
       log (nd s), commit (nd s), replay_idx (nd s), meta_commit (nd s), sr (nd s))).
    { unfold upd. cbn. rewrite Hf2, Hx. destruct H0 as [H0 H0']. split; auto.
      unfold core in *. cbn. rewrite Hf1. inversion Hc. inversion H0. subst s0. cbn in *. congruence. }
    destruct ar; try congruence; cbn [fst snd]; destruct Hgoal; auto.
Qed.

(* the application history that a list of entries adds for a node of code version sv, and the
   number of entries consumed: an entry that needs a newer code version stops the replay *)
Fixpoint replay (sv : N) (es : list entry) : list N * nat :=
  match es with
  | [] => ([], O)
  | en :: r =>
    if wrong_ver sv (ecmd en) then ([], O)
    else let (h, k) := replay sv r in (hist_add (ecmd en) ++ h, Datatypes.S k)
  end.

Lemma apply_list_spec : forall es s,
  exc (apply_list es s) = exc s /\
  core (nd (apply_list es s)) =
    (hist (nd s) ++ fst (replay (self_ver (nd s)) es),
     applied (nd s) + N.of_nat (snd (replay (self_ver (nd s)) es)),
     self_ver (nd s), log (nd s), commit (nd s), replay_idx (nd s), meta_commit (nd s), sr (nd s)).
Proof.
  induction es as [|en es IH]; intros s.
  - cbn. rewrite app_nil_r, N.add_0_r. auto.
  - cbn [apply_list replay].
    pose proof (apply_one_spec en s) as H1. cbv zeta in H1.
    destruct (apply_one en s) as [s1 go]. cbn [fst snd] in H1. destruct H1 as [Hx H1].
    destruct (wrong_ver (self_ver (nd s)) (ecmd en)).
    + destruct H1 as [Hgo Hc]. subst go. cbn [fst snd]. rewrite app_nil_r, N.add_0_r. split; auto.
    + destruct H1 as [Hgo Hc]. subst go.
      destruct (IH s1) as [I1 I2]. split; [congruence|].
      rewrite I2. unfold core in Hc. inversion Hc as [[C1 C2 C3 C4 C5 C6 C7 C8]].
      rewrite C1, C2, C3, C4, C5, C6, C7, C8.
      destruct (replay (self_ver (nd s)) es) as [h k]. cbn [fst snd].
      rewrite <- app_assoc.
      replace (applied (nd s) + 1 + N.of_nat k) with (applied (nd s) + N.of_nat (Datatypes.S k)) by lia.
      reflexivity.
Qed.

Lemma apply_entries_spec : forall e s,
  let es := if applied (nd s) <? commit (nd s)
            then get_entries (log (nd s)) (Some (applied (nd s) + 1)) (Some (commit (nd s) - applied (nd s))) None
            else [] in
  exc (fst (apply_entries e s)) = exc s /\
  core (nd (fst (apply_entries e s))) =
    (hist (nd s) ++ fst (replay (self_ver (nd s)) es),
     applied (nd s) + N.of_nat (snd (replay (self_ver (nd s)) es)),
     self_ver (nd s), log (nd s), commit (nd s), replay_idx (nd s), meta_commit (nd s), sr (nd s)).
Proof.
  intros e s. cbv zeta. unfold apply_entries.
  destruct (applied (nd s) <? commit (nd s)); cbn [fst].
  - apply apply_list_spec.
  - cbn. rewrite app_nil_r, N.add_0_r. auto.
Qed.

(* D18 in one line: once applied + 1 lies below the first journal index nothing is applied *)
Lemma apply_entries_stuck : forall e s,
  applied (nd s) + 1 < first_idx (log (nd s)) -> fst (apply_entries e s) = s.
Proof.
  intros e s H. unfold apply_entries. destruct (applied (nd s) <? commit (nd s)); auto.
  unfold get_entries. destruct (applied (nd s) + 1 <? first_idx (log (nd s))) eqn:E; [|lia].
  reflexivity.
Qed.

(* and no compaction can start either (there is no entry applied - 1) *)
Lemma try_compact_stuck : forall e s,
  pid (sr (nd s)) = 0 -> applied (nd s) + 1 < first_idx (log (nd s)) ->
  log (nd (try_compact e s)) = log (nd s) /\ sr (nd (try_compact e s)) = sr (nd s) /\
  applied (nd (try_compact e s)) = applied (nd s) /\ hist (nd (try_compact e s)) = hist (nd s).
Proof.
  intros e s Hp H. unfold try_compact. rewrite Hp. cbn [N.eqb negb].
  destruct (_ && _ && _); auto.
  unfold get_entries. destruct (applied (nd s) - 1 <? first_idx (log (nd s))) eqn:E; [|lia].
  unfold upd; cbn. auto.
Qed.

(* ================= the first tick of a restarted node ================= *)
Lemma load_dump_trims : forall e s sn pre post,
  stored (sr (nd s)) = Some (Good sn) -> s_ver sn <= self_ver (nd s) ->
  log (nd s) = pre ++ s_e0 sn :: s_e1 sn :: post -> log_wf (log (nd s)) ->
  let s' := load_dump e false s in
  log (nd s') = s_e0 sn :: s_e1 sn :: post /\ hist (nd s') = s_hist sn /\
  enabled_ver (nd s') = s_ver sn /\ applied (nd s') = eidx (s_e1 sn) /\
  commit (nd s') = commit (nd s) /\ replay_idx (nd s') = replay_idx (nd s) /\
  self_ver (nd s') = self_ver (nd s) /\ exc s' = exc s /\ sr (nd s') = sr (nd s) /\
  meta_commit (nd s') = meta_commit (nd s) /\ tnow s' = tnow s.
Proof.
  intros e s sn pre post Hst Hv Hl Hwf. cbv zeta. unfold load_dump. rewrite Hst.
  destruct (self_ver (nd s) <? s_ver sn) eqn:Ev; [lia|]. cbn [orb].
  set (s1 := upd (fun n => n <| hist := s_hist sn |> <| enabled_ver := s_ver sn |>) s).
  assert (Hl1 : log (nd s1) = pre ++ s_e0 sn :: s_e1 sn :: post) by (subst s1; exact Hl).
  assert (F1 : hist (nd s1) = s_hist sn /\ enabled_ver (nd s1) = s_ver sn /\
               commit (nd s1) = commit (nd s) /\ replay_idx (nd s1) = replay_idx (nd s) /\
               self_ver (nd s1) = self_ver (nd s) /\ exc s1 = exc s /\ sr (nd s1) = sr (nd s) /\
               meta_commit (nd s1) = meta_commit (nd s) /\ tnow s1 = tnow s).
  { subst s1. unfold upd. cbn. repeat split; auto. }
  clearbody s1.
  rewrite Hl1. rewrite Hl in Hwf.
  assert (Hge : get_entries (pre ++ s_e0 sn :: s_e1 sn :: post) (Some (eidx (s_e0 sn))) (Some 2) None =
                [s_e0 sn; s_e1 sn]).
  { change (eidx (s_e0 sn)) with (first_idx (s_e0 sn :: s_e1 sn :: post)).
    rewrite get_entries_split by (auto; discriminate). reflexivity. }
  rewrite !Hge. rewrite !entry_eqb_refl. cbn [andb].
  set (s2 := upd (fun n => n <| log := delete_to (log n) (eidx (s_e0 sn)) |>) s1).
  assert (Hl2 : log (nd s2) = s_e0 sn :: s_e1 sn :: post).
  { subst s2. unfold upd. cbn. rewrite Hl1.
    change (eidx (s_e0 sn)) with (first_idx (s_e0 sn :: s_e1 sn :: post)).
    apply delete_to_split; auto. discriminate. }
  assert (F2 : hist (nd s2) = s_hist sn /\ enabled_ver (nd s2) = s_ver sn /\
               commit (nd s2) = commit (nd s) /\ replay_idx (nd s2) = replay_idx (nd s) /\
               self_ver (nd s2) = self_ver (nd s) /\ exc s2 = exc s /\ sr (nd s2) = sr (nd s) /\
               meta_commit (nd s2) = meta_commit (nd s) /\ tnow s2 = tnow s).
  { subst s2. unfold upd. cbn. exact F1. }
  clearbody s2.
  rewrite Hl2. rewrite !entry_eqb_refl. cbn [andb negb].
  match goal with |- context [if dyn (cf e) then update_cluster ?new ?s0 else _] => set (S0 := s0) end.
  assert (HS0 : log (nd S0) = s_e0 sn :: s_e1 sn :: post /\ hist (nd S0) = s_hist sn /\
                enabled_ver (nd S0) = s_ver sn /\ applied (nd S0) = eidx (s_e1 sn) /\
                commit (nd S0) = commit (nd s) /\ replay_idx (nd S0) = replay_idx (nd s) /\
                self_ver (nd S0) = self_ver (nd s) /\ exc S0 = exc s /\ sr (nd S0) = sr (nd s) /\
                meta_commit (nd S0) = meta_commit (nd s) /\ tnow S0 = tnow s).
  { subst S0. unfold upd. cbn. destruct F2 as (G1 & G2 & G3 & G4 & G5 & G6 & G7 & G8 & G9).
    repeat split; auto. }
  destruct (dyn (cf e)); [|exact HS0].
  match goal with |- context [update_cluster ?new S0] => set (NEW := new) end.
  destruct (update_cluster_frame NEW S0) as (Hf & _ & Hx & Htn).
  unfold same_app in Hf. destruct Hf as (B1 & B2 & B3 & B4 & B5 & B6 & B7 & B8 & B9 & B10).
  destruct HS0 as (A1 & A2 & A3 & A4 & A5 & A6 & A7 & A8 & A9 & A10 & A11).
  repeat split; congruence.
Qed.

(* C06_first_tick_rebuilds: a node restarted from a journal that contains the dump's two
   entries (anywhere: killed before or after the journal was trimmed) keeps everything from the
   dump position on (the D10 repair), takes the dump's state, then replays applied+1 .. commit *)
Lemma first_tick_rebuilds : forall e0 e me oth sv d sn pre post,
  file_dump (cf e) = true ->
  d_dump d = Some (Good sn) -> s_ver sn <= sv ->
  d_log d = pre ++ s_e0 sn :: s_e1 sn :: post -> log_wf (d_log d) ->
  let n0 := init_from_disk e0 me oth sv d in
  let s1 := tick_load e (start_S e n0) in
  let s2 := fst (apply_entries e s1) in
  let es := if eidx (s_e1 sn) <? d_meta d
            then firstn (N.to_nat (d_meta d - eidx (s_e1 sn))) post else [] in
  log (nd s1) = s_e0 sn :: s_e1 sn :: post /\ hist (nd s1) = s_hist sn /\
  applied (nd s1) = eidx (s_e1 sn) /\ commit (nd s1) = d_meta d /\ need_load (nd s1) = false /\
  log (nd s2) = s_e0 sn :: s_e1 sn :: post /\
  hist (nd s2) = s_hist sn ++ fst (replay sv es) /\
  applied (nd s2) = eidx (s_e1 sn) + N.of_nat (snd (replay sv es)) /\
  exc s2 = 0.
Proof.
  intros e0 e me oth sv d sn pre post Hfd Hdump Hv Hl Hwf n0 s1 s2 es.
  assert (Hne : d_log d <> []) by (rewrite Hl; destruct pre; discriminate).
  destruct (restart_state e0 me oth sv d Hne) as
    (R1 & R2 & R3 & R4 & R5 & R6 & R7 & R8 & R9 & R10 & R11 & R12 & R13 & R14 & R15 & R16 & R17 & _).
  fold n0 in R1, R2, R3, R4, R9, R13, R14, R17.
  set (s0 := start_S e n0).
  assert (H0 : nd s0 = n0 /\ exc s0 = 0) by (subst s0; auto). destruct H0 as [H0 H0x].
  assert (Hst : stored (sr (nd s0)) = Some (Good sn)) by (rewrite H0, R9; auto).
  assert (Hv0 : s_ver sn <= self_ver (nd s0)) by (rewrite H0, R17; auto).
  assert (Hl0 : log (nd s0) = pre ++ s_e0 sn :: s_e1 sn :: post) by (rewrite H0, R1; auto).
  assert (Hwf0 : log_wf (log (nd s0))) by (rewrite H0, R1; auto).
  pose proof (load_dump_trims e s0 sn pre post Hst Hv0 Hl0 Hwf0) as Hld. cbv zeta in Hld.
  destruct Hld as (L1 & L2 & L3 & L4 & L5 & L6 & L7 & L8 & L9 & L10 & L11).
  assert (Hs1 : s1 = upd (fun n => n <| need_load := false |>) (load_dump e false s0)).
  { subst s1. unfold tick_load. fold s0. rewrite H0, R13, Hfd. reflexivity. }
  assert (A1 : log (nd s1) = s_e0 sn :: s_e1 sn :: post) by (rewrite Hs1; exact L1).
  assert (A2 : hist (nd s1) = s_hist sn) by (rewrite Hs1; exact L2).
  assert (A3 : applied (nd s1) = eidx (s_e1 sn)) by (rewrite Hs1; exact L4).
  assert (A4 : commit (nd s1) = d_meta d) by (rewrite Hs1; unfold upd; cbn; rewrite L5, H0; exact R2).
  assert (A5 : self_ver (nd s1) = sv) by (rewrite Hs1; unfold upd; cbn; rewrite L7, H0; exact R17).
  assert (A6 : exc s1 = 0) by (rewrite Hs1; unfold upd; cbn; rewrite L8; exact H0x).
  assert (A7 : need_load (nd s1) = false) by (rewrite Hs1; reflexivity).
  assert (Hes : (if applied (nd s1) <? commit (nd s1)
        then get_entries (log (nd s1)) (Some (applied (nd s1) + 1)) (Some (commit (nd s1) - applied (nd s1))) None
        else []) = es).
  { subst es. rewrite A1, A3, A4.
    destruct (eidx (s_e1 sn) <? d_meta d) eqn:Ec; auto.
    assert (Hwf1 : log_wf ([s_e0 sn; s_e1 sn] ++ post)).
    { rewrite Hl in Hwf. apply wf_app_r in Hwf. exact Hwf. }
    destruct post as [|p post'].
    - unfold get_entries. cbn [first_idx].
      unfold log_wf in Hwf1. cbn in Hwf1.
      destruct (eidx (s_e1 sn) + 1 <? eidx (s_e0 sn)) eqn:E1; [lia|].
      replace (N.to_nat (eidx (s_e1 sn) + 1 - eidx (s_e0 sn))) with 2%nat by lia.
      cbn. destruct (N.to_nat _); reflexivity.
    - assert (Hp : eidx (s_e1 sn) + 1 = first_idx (p :: post')).
      { unfold log_wf in Hwf1. cbn in Hwf1. cbn. lia. }
      rewrite Hp. change (s_e0 sn :: s_e1 sn :: p :: post') with ([s_e0 sn; s_e1 sn] ++ p :: post').
      rewrite get_entries_split by (auto; discriminate). reflexivity. }
  pose proof (apply_entries_spec e s1) as Ha. cbv zeta in Ha.
  rewrite Hes, A1, A2, A3, A4, A5, A6 in Ha. destruct Ha as [Hx Hc].
  unfold core in Hc. inversion Hc as [[C1 C2 C3 C4 C5 C6 C7 C8]]. clear Hc.
  subst s2. repeat split; auto; congruence.
Qed.

(* without a dump (no dump file configured, or none written yet): the journal is replayed from
   index 2 *)
Lemma first_tick_no_dump : forall e0 e me oth sv d,
  d_log d <> [] -> (file_dump (cf e) = false \/ d_dump d = None) ->
  let n0 := init_from_disk e0 me oth sv d in
  let s1 := tick_load e (start_S e n0) in
  let s2 := fst (apply_entries e s1) in
  let es := if 1 <? d_meta d then get_entries (d_log d) (Some 2) (Some (d_meta d - 1)) None else [] in
  log (nd s1) = d_log d /\ hist (nd s1) = [] /\ applied (nd s1) = 1 /\ commit (nd s1) = d_meta d /\
  hist (nd s2) = fst (replay sv es) /\ applied (nd s2) = 1 + N.of_nat (snd (replay sv es)) /\
  log (nd s2) = d_log d.
Proof.
  intros e0 e me oth sv d Hne Hnd n0 s1 s2 es.
  destruct (restart_state e0 me oth sv d Hne) as
    (R1 & R2 & R3 & R4 & R5 & R6 & R7 & R8 & R9 & R10 & R11 & R12 & R13 & R14 & R15 & R16 & R17 & _).
  fold n0 in R1, R2, R3, R4, R9, R13, R14, R15, R17.
  assert (Hs1 : s1 = upd (fun n => n <| need_load := false |>) (start_S e n0)).
  { subst s1. unfold tick_load. cbn [nd start_S]. rewrite R13. cbn [andb].
    destruct Hnd as [Hf|Hd].
    - rewrite Hf. reflexivity.
    - destruct (file_dump (cf e)); auto. unfold load_dump. cbn [nd start_S]. rewrite R9, Hd. reflexivity. }
  assert (A1 : log (nd s1) = d_log d) by (rewrite Hs1; exact R1).
  assert (A2 : hist (nd s1) = []) by (rewrite Hs1; exact R15).
  assert (A3 : applied (nd s1) = 1) by (rewrite Hs1; exact R4).
  assert (A4 : commit (nd s1) = d_meta d) by (rewrite Hs1; exact R2).
  assert (A5 : self_ver (nd s1) = sv) by (rewrite Hs1; exact R17).
  pose proof (apply_entries_spec e s1) as Ha. cbv zeta in Ha.
  rewrite A1, A2, A3, A4, A5 in Ha. destruct Ha as [Hx Hc].
  unfold core in Hc. injection Hc as C1 C2 C3 C4 C5 C6 C7 C8.
  subst s2 es. change (1 + 1) with 2 in *. cbn [app] in *. repeat split; auto; congruence.
Qed.

(* ================= D18: journal only + compaction in memory ================= *)
Definition c18 : conf := mkConf 10 40 20 100 1000 100 true false true 2 1000 10 5 false true.
Definition cmd18 (k : N) : cmd := mkCmd 0 k 0 1 10.
(* one voter, no dump file: elected, two commands committed and applied, the log compacted
   (in memory) down to [3; 4] *)
Definition pre18 : list event :=
  [ERestart 1 [] 0 0 0; ETick 1 50 0 30 [] 9;
   ESubmit 1 (cmd18 7) 1; ETick 1 60 0 30 [] 9; ETick 1 70 0 30 [] 9;
   ESubmit 1 (cmd18 8) 2; ETick 1 80 0 30 [] 9; ETick 1 90 0 30 [] 9; ETick 1 100 0 30 [] 9;
   ETick 1 110 0 30 [] 9].
(* killed, restarted, ticks, re-elected, a further command committed *)
Definition post18 : list event :=
  [EKill 1; ERestart 1 [] 200 0 0; ETick 1 210 0 30 [] 9; ETick 1 260 0 30 [] 9; ETick 1 270 0 30 [] 9;
   ESubmit 1 (cmd18 9) 3; ETick 1 280 0 30 [] 9; ETick 1 290 0 30 [] 9].

(* the statement that fails: a restarted journaled node rebuilds the state it had applied *)
Definition C06_restart_rebuilds_full : Prop :=
  forall c pre post g1 g2 n1 n2 x,
    file_journal c = true ->
    run_trace c ginit pre = Some g1 -> aget x (nodes g1) = Some n1 ->
    run_trace c g1 post = Some g2 -> aget x (nodes g2) = Some n2 ->
    commit n1 <= commit n2 -> applied n1 <= applied n2.

Lemma journal_only_compaction_refuted :
  exists g1 g2 n1 n2,
    file_journal c18 = true /\ file_dump c18 = false /\
    run_trace c18 ginit pre18 = Some g1 /\ aget 1 (nodes g1) = Some n1 /\
    hist n1 = [7; 8] /\ applied n1 = 4 /\ commit n1 = 4 /\ map eidx (log n1) = [3; 4] /\
    run_trace c18 g1 post18 = Some g2 /\ aget 1 (nodes g2) = Some n2 /\
    hist n2 = [] /\ applied n2 = 1 /\ commit n2 = 6 /\ map eidx (log n2) = [3; 4; 5; 6] /\
    role n2 = LEADER /\ applied n2 + 1 < first_idx (log n2).
Proof.
  eexists. eexists. eexists. eexists.
  split; [reflexivity|]. split; [reflexivity|].
  split; [vm_compute; reflexivity|]. split; [vm_compute; reflexivity|].
  split; [reflexivity|]. split; [reflexivity|]. split; [reflexivity|]. split; [reflexivity|].
  split; [vm_compute; reflexivity|]. split; [vm_compute; reflexivity|].
  vm_compute. repeat split; reflexivity.
Qed.

Lemma restart_rebuilds_full_refuted : ~ C06_restart_rebuilds_full.
Proof.
  intros H.
  destruct journal_only_compaction_refuted as
    (g1 & g2 & n1 & n2 & H1 & _ & H3 & H4 & _ & H6 & H7 & _ & H9 & H10 & _ & H12 & H13 & _).
  specialize (H c18 pre18 post18 g1 g2 n1 n2 1 H1 H3 H4 H9 H10). lia.
Qed.
