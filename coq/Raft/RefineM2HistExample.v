(* Tier CM2, non-vacuity of Props/TierCM2c.v on the run of RefineM2Example.v: voter 2 gets its user state from
   the installed snapshot (it never executed command 7 itself), leader 1 and voters 3, 4 from their logs. *)
From Coq Require Import ZArith NArith List Bool Lia.
From RecordUpdate Require Import RecordSet.
From PSO Require Import Raft.Types Raft.Node Raft.Net Raft.Obs Raft.ProofsApplyBase.
From PSO Require Import Raft.ProofsElectionGhost Raft.RefineMAbs Raft.RefineMMain Raft.RefineM2Abs Raft.RefineM2Main
  Raft.RefineM2Final Raft.RefineM2Example Raft.RefineM2HistFinal.
Import ListNotations.
Import RecordSetNotations.
Open Scope N_scope.

(* the user states at the end of the run *)
Example xh_states :
  exists g n1 n2 n3 sn,
    run_trace x_conf ginit x_trace = Some g /\
    aget 1 (nodes g) = Some n1 /\ aget 2 (nodes g) = Some n2 /\ aget 3 (nodes g) = Some n3 /\
    hist n1 = [7] /\ applied n1 = 4 /\
    hist n2 = [7] /\ applied n2 = 4 /\ stored (sr n2) = Some (Good sn) /\ s_hist sn = [7] /\ eidx (s_e1 sn) = 4 /\
    hist n3 = [] /\ applied n3 = 1.
Proof.
  do 5 eexists. split; [vm_compute; reflexivity|]. split; [vm_compute; reflexivity|].
  split; [vm_compute; reflexivity|]. split; [vm_compute; reflexivity|]. vm_compute. repeat split; reflexivity.
Qed.

(* one common sequence explains all of them, at every moment of the run *)
Example xh_one_common_sequence :
  exists sigma : list entry,
    forall evs1 evs2 g x n, x_trace = evs1 ++ evs2 -> run_trace x_conf ginit evs1 = Some g ->
      aget x (nodes g) = Some n -> x < RO_BASE ->
      (exists k, hist n = replay (firstn k sigma) /\ N.of_nat k + 1 = applied n) /\
      (forall sn, stored (sr n) = Some (Good sn) ->
         exists k, s_hist sn = replay (firstn k sigma) /\ N.of_nat k + 1 = eidx (s_e1 sn)).
Proof.
  destruct x_in_fragment as (A & B & C & D & E).
  exact (TierCM2_one_common_sequence_snapshots x_conf x_mf x_V x_trace A B C D E).
Qed.

(* the state voter 3 has at the end (nothing applied yet) is a prefix of the state voter 2 got from the snapshot *)
Example xh_comparable_instance :
  forall g n3 n2, run_trace x_conf ginit x_trace = Some g ->
    aget 3 (nodes g) = Some n3 -> aget 2 (nodes g) = Some n2 -> applied n3 <= applied n2 ->
    exists r, hist n2 = hist n3 ++ r.
Proof.
  intros g n3 n2 Hr H3 H2 Hle. destruct x_in_fragment as (A & B & C & D & E).
  apply (TierCM2_states_comparable x_conf x_mf x_V x_trace x_trace [] x_trace [] g g 3 2 n3 n2 A B C D E);
    auto; try reflexivity; symmetry; apply app_nil_r.
Qed.
