(* C20: nothing submitted to a cut-off leader after the cut is acknowledged with SUCCESS
   (C20_no_success_when_cut_full), on runs of the Tier C3 fragment. *)
From Coq Require Import ZArith NArith List Bool Lia ZifyBool ZifyN.
From RecordUpdate Require Import RecordSet.
From PSO Require Import Raft.Types Raft.Node Raft.Net Raft.Obs.
From PSO Require Raft.ProofsElectionGhost Raft.Refine3Main Raft.ProofsFallbackMatch Raft.ProofsCommitGlobal.
From PSO Require Import Raft.ProofsReadonlyFrames Raft.ProofsReadonlyA Raft.ProofsReadonlyB.
From PSO Require Import Raft.ProofsReadonlyD Raft.ProofsReadonlyE Raft.ProofsReadonlyFinal.
From PSO Require Import Raft.ProofsFallbackA Raft.ProofsFallbackB Raft.ProofsFallbackC Raft.ProofsFallbackFinal.
From PSO Require Import Raft.ProofsFallbackSlotsGlobal Raft.ProofsFallbackSuccess Raft.ProofsFallbackSuccessGlobal.
Import ListNotations.
Import RecordSetNotations.
Open Scope N_scope.

(* beyond the leader's own last index its matchIndex has no majority *)
Lemma no_majority_beyond_last : forall n K,
  others n <> [] ->
  (forall x m, In x (others n) -> aget x (match_idx n) = Some m -> m <= K) ->
  forall j, K < j -> majority (match_count j n) n = false.
Proof.
  intros n K Hne Hm j Hj. unfold match_count.
  assert (filter (fun x => match aget x (match_idx n) with Some m => j <=? m | None => false end) (others n) = []) as ->.
  { assert (forall l, (forall x, In x l -> In x (others n)) ->
              filter (fun x => match aget x (match_idx n) with Some m => j <=? m | None => false end) l = []) as HF.
    { induction l as [|a l IH]; intros Hl; cbn; [reflexivity|].
      destruct (aget a (match_idx n)) as [m|] eqn:E.
      - specialize (Hm a m (Hl a (or_introl eq_refl)) E).
        destruct (j <=? m) eqn:E2; [apply N.leb_le in E2; lia|]. apply IH. intros x Hx; apply Hl; right; exact Hx.
      - apply IH. intros x Hx; apply Hl; right; exact Hx. }
    apply HF; auto. }
  cbn. apply majority_one; exact Hne.
Qed.

(* the fragment of Tier C3: static membership, no dump file, batch > 1, voters started once with the
   others of V, no complete snapshot refused for its version *)
Definition tierC3_run (c : conf) (V : list nid) (evs : list event) : Prop :=
  dyn c = false /\ file_dump c = false /\ 1 < batch c /\
  ProofsElectionGhost.valid V evs = true /\ Refine3Main.run_ok3 c ginit evs = true.

Theorem C20_leader_bounds_thm : forall c V evs g L xL,
  tierC3_run c V evs -> run_trace c ginit evs = Some g -> aget L (nodes g) = Some xL -> role xL = LEADER ->
  commit xL <= last_idx (log xL) /\
  forall x m, In x (others xL) -> aget x (match_idx xL) = Some m -> m <= last_idx (log xL).
Proof.
  intros c V evs g L xL (F1 & F2 & F3 & F4 & F5) HR Hx Hl.
  exact (ProofsFallbackMatch.leader_bounds_reachable c V evs g L xL F1 F2 F3 F4 F5 HR Hx Hl).
Qed.

Theorem C20_no_success_when_cut_full_thm : forall c V evs0 g0 L n0 evs,
  (0 <= period c)%Z -> tierC3_run c V evs0 ->
  Forall slot_valid evs0 -> run_trace c ginit evs0 = Some g0 ->
  aget L (nodes g0) = Some n0 -> role n0 = LEADER -> others n0 <> [] ->
  Forall ProofsCommitGlobal.ev_ok evs ->
  steps_sat (cut_quiet L) c g0 evs ->
  steps_sat (success_below L (last_idx (log n0))) c g0 evs.
Proof.
  intros c V evs0 g0 L n0 evs Hp (F1 & F2 & F3 & F4 & F5) HV HR Hx Hl Hne HE HS.
  destruct (ProofsFallbackMatch.leader_bounds_reachable c V evs0 g0 L n0 F1 F2 F3 F4 F5 HR Hx Hl) as (Ha & Hb).
  eapply (C20_no_success_when_cut_thm c evs0 g0 L n0 (last_idx (log n0)) evs Hp HV HR Hx Hl Hne Ha); [|exact HE | exact HS].
  apply no_majority_beyond_last; assumption.
Qed.

(* with it the Definition of ProofsFallbackSuccessGlobal holds on the fragment *)
Corollary C20_no_success_when_cut_full_on_fragment : forall c V evs0 g0 L n0 evs,
  (0 <= period c)%Z -> tierC3_run c V evs0 ->
  Forall slot_valid evs0 -> run_trace c ginit evs0 = Some g0 ->
  aget L (nodes g0) = Some n0 -> role n0 = LEADER -> others n0 <> [] ->
  Forall ProofsCommitGlobal.ev_ok evs -> steps_sat (cut_quiet L) c g0 evs ->
  commit n0 <= last_idx (log n0) /\
  (forall x m, In x (others n0) -> aget x (match_idx n0) = Some m -> m <= last_idx (log n0)) /\
  steps_sat (success_below L (last_idx (log n0))) c g0 evs.
Proof.
  intros c V evs0 g0 L n0 evs Hp F HV HR Hx Hl Hne HE HS.
  pose proof F as (F1 & F2 & F3 & F4 & F5).
  destruct (ProofsFallbackMatch.leader_bounds_reachable c V evs0 g0 L n0 F1 F2 F3 F4 F5 HR Hx Hl) as (Ha & Hb).
  split; [exact Ha|]. split; [exact Hb|]. eapply C20_no_success_when_cut_full_thm; eauto.
Qed.

(* the example run of ProofsFallbackFinal lies in the fragment; its cut-off leader (last index 2 at the cut)
   acknowledges nothing registered beyond index 2: the command submitted during the cut sits under index 3 *)
Example C20_no_success_full_example :
  let evs := ex_cut1 ++ ETick 0 2030 0 30 [] 0 :: ex_cut2 in
  tierC3_run xc [0; 1; 2] ex_boot /\ last_idx (log ex_n0) = 2 /\
  steps_sat (success_below 0 2) xc ex_g0 evs.
Proof.
  cbv zeta.
  assert (tierC3_run xc [0; 1; 2] ex_boot) as HF by (repeat split; vm_compute; reflexivity).
  split; [exact HF|]. split; [vm_compute; reflexivity|].
  destruct C20_no_success_example as (HV & HR & Hx & Hl & Hne & _ & _ & HE & HS & _).
  assert ((0 <= period xc)%Z) as Hp by (cbn; lia).
  pose proof (C20_no_success_when_cut_full_thm xc [0; 1; 2] ex_boot ex_g0 0 ex_n0 _ Hp HF HV HR Hx Hl Hne HE HS) as H.
  assert (last_idx (log ex_n0) = 2) as E by (vm_compute; reflexivity).
  rewrite E in H. exact H.
Qed.
