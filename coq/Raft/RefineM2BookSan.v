(* Tier CM2, bookkeeping facts, part 2: the check [san_ok] of RefineM2Main.run_okM2 is a THEOREM of the model
   on states related by the refinement: it needs file_dump c = false (a tick does not load a dump) and, for the
   tick of a voter, the hygiene of the relation (log starts at or before the applied index, a finished
   serializer job lies below it). *)
From Coq Require Import ZArith NArith List Bool Lia ZifyBool Arith PeanoNat.
From RecordUpdate Require Import RecordSet.
From PSO Require Import Raft.Types Raft.Node Raft.Net Raft.Obs Raft.ProofsCommitBase.
From PSO Require Import Raft.ProofsApplyBase Raft.ProofsApplyReplay.
From PSO Require Import Raft.ProofsElectionBase Raft.ProofsElectionGhost Raft.ProofsMembership.
From PSO Require Import Raft.RefineMAbs Raft.RefineMMain.
From PSO Require Import Raft.RefineM2Abs Raft.RefineM2SpecA Raft.RefineM2Sim Raft.RefineM2Ghost Raft.RefineM2Main
  Raft.RefineM2BookTick.
From PSO Require Raft.ProofsCommit.
Import ListNotations.
Import RecordSetNotations.
Open Scope N_scope.

Section San.
Variable c : conf.
Variable mf : N -> N -> N * N.
Variable V : list nid.
Hypothesis NDV : NoDup V.
Hypothesis SV : ssorted V.
Hypothesis VNE : V <> [].
Hypothesis VRO : forall v, In v V -> v < RO_BASE.
Hypothesis Hb1 : 1 < batch c.
Hypothesis Hfd : file_dump c = false.
Set Default Proof Using "All".

Notation GI := (GI c mf V).

Lemma uview_applied (S1 S2 : Node.S) : uview_of S1 = uview_of S2 -> applied (nd S1) = applied (nd S2).
Proof. intros H. destruct (uview_inv _ _ H) as (_ & E & _). exact E. Qed.

Theorem san_ok_holds g st gm s ev g' r :
  GI g st gm s -> gstep c g ev = Some (g', r) -> san_ok g ev r = true.
Proof.
  intros [G _] Hstep. pose proof (GI_R _ _ _ _ _ _ G) as RR. pose proof (GI_reach _ _ _ _ _ _ G) as HR.
  destruct ev as [n now rnd bud ord sl | a b now rnd ord | a b | a b k | a b | n cm cb | n cm cb | n cm cb
                 | n | n | n oth now rnd sv]; unfold gstep in Hstep.
  - (* ETick *)
    destruct (aget n (nodes g)) as [x|] eqn:Hx; [|discriminate]. injection Hstep as <- <-.
    cbn [san_ok]. rewrite Hx. destruct (RO_BASE <=? n) eqn:Ero; [reflexivity|]. cbn [orb].
    apply N.leb_gt in Ero.
    pose proof (R_node _ _ _ _ _ _ RR n x Hx Ero) as RN. destruct (R_hyg _ _ _ _ _ _ RR n x Hx Ero) as [HH _].
    destruct (Rn_full c mf V NDV SV VNE VRO Hb1 n x s HR RN) as (full & EL & W & Sx & _).
    set (e := mk_env c now rnd bud ord sl).
    apply andb_true_iff. split; apply N.leb_le.
    + destruct (suffix_base _ _ W Sx) as (b & El & Hb & Efi).
      pose proof (Rn_commit_le c mf V NDV SV VNE VRO Hb1 n x s full HR RN EL) as Hcl.
      pose proof (H_ac _ _ _ HH) as Hac. pose proof (H_fi _ _ _ HH) as Hfi. pose proof (H_cur _ _ _ HH) as Hcur.
      assert (Hlen : length (log x) = (length full - b)%nat) by (rewrite El; apply skipn_length).
      pose proof (tick_first_idx e x Hfd (suffix_consec c mf V NDV SV VNE VRO Hb1 e eq_refl _ _ W Sx) (suffix_ne _ _ Sx)) as T.
      assert (Hc1 : pid (sr x) = 1 -> cur_id (sr x) < first_idx (log x) + N.of_nat (length (log x))).
      { intros Hp. specialize (Hcur Hp). lia. }
      specialize (T Hc1). destruct (pid (sr x) =? 1) eqn:E1.
      * apply N.eqb_eq in E1. specialize (Hcur E1). lia.
      * lia.
    + apply ProofsCommit.applied_mono_tick. intros Hn. cbn in Hn. rewrite Hfd, andb_false_r in Hn. discriminate.
  - (* EDeliver *)
    destruct (aget b (nodes g)) as [x|] eqn:Hx; [|discriminate].
    destruct (chan_get a b g) as [|m rest] eqn:Hch; [discriminate|]. injection Hstep as <- <-.
    cbn [san_ok]. rewrite Hx. destruct (RO_BASE <=? b); [reflexivity|]. cbn [orb].
    set (e := mk_env c now rnd DEFAULT_BUDGET ord 0).
    destruct (message_state e a m x) as [U|(t & cm & p & sn & _ & _ & _ & Ea & _ & _ & _ & Est)].
    + apply uview_applied in U. cbn in U. rewrite U, N.eqb_refl. reflexivity.
    + rewrite Est, Ea, N.eqb_refl. apply orb_true_r.
  - (* EDrop *)
    destruct (aget a (nodes g)) as [x|] eqn:Hx; [|discriminate]. injection Hstep as <- <-.
    cbn [san_ok]. rewrite Hx. destruct (RO_BASE <=? a); [reflexivity|]. cbn [orb].
    destruct (other_events_state api_submit (mk_env c 0 0 0 [] 0) (noop_cmd 0) CbNone x b (or_introl eq_refl))
      as (_ & _ & U & _). apply uview_applied in U. cbn in U. cbn. rewrite U. apply N.eqb_refl.
  - (* ELose *) injection Hstep as <- <-. reflexivity.
  - (* EConnect *)
    destruct (aget a (nodes g)) as [x|] eqn:Hx; [|discriminate]. injection Hstep as <- <-.
    cbn [san_ok]. rewrite Hx. destruct (RO_BASE <=? a); [reflexivity|]. cbn [orb].
    destruct (other_events_state api_submit (mk_env c 0 0 0 [] 0) (noop_cmd 0) CbNone x b (or_introl eq_refl))
      as (_ & U & _). apply uview_applied in U. cbn in U. cbn. rewrite U. apply N.eqb_refl.
  - (* ESubmit *)
    destruct (aget n (nodes g)) as [x|] eqn:Hx; [|discriminate]. injection Hstep as <- <-.
    cbn [san_ok]. rewrite Hx. destruct (RO_BASE <=? n); [reflexivity|]. cbn [orb].
    destruct (other_events_state api_submit (mk_env c 0 0 DEFAULT_BUDGET [] 0) cm (cb_of cb) x 0 (or_introl eq_refl)) as (U & _).
    apply uview_applied in U. cbn in U. rewrite U. apply N.eqb_refl.
  - (* EAdmin *)
    destruct (aget n (nodes g)) as [x|] eqn:Hx; [|discriminate]. injection Hstep as <- <-.
    cbn [san_ok]. rewrite Hx. destruct (RO_BASE <=? n); [reflexivity|]. cbn [orb].
    destruct (other_events_state api_admin (mk_env c 0 0 DEFAULT_BUDGET [] 0) cm (cb_of cb) x 0 (or_intror (or_introl eq_refl))) as (U & _).
    apply uview_applied in U. cbn in U. rewrite U. apply N.eqb_refl.
  - (* ESetVer *)
    destruct (aget n (nodes g)) as [x|] eqn:Hx; [|discriminate]. injection Hstep as <- <-.
    cbn [san_ok]. rewrite Hx. destruct (RO_BASE <=? n); [reflexivity|]. cbn [orb].
    destruct (other_events_state api_setver (mk_env c 0 0 DEFAULT_BUDGET [] 0) cm (cb_of cb) x 0 (or_intror (or_intror eq_refl))) as (U & _).
    apply uview_applied in U. cbn in U. rewrite U. apply N.eqb_refl.
  - (* ECompact *)
    destruct (aget n (nodes g)) as [x|] eqn:Hx; [|discriminate]. injection Hstep as <- <-.
    cbn [san_ok]. rewrite Hx. destruct (RO_BASE <=? n); [reflexivity|]. cbn. apply N.eqb_refl.
  - (* EKill *) injection Hstep as <- <-. reflexivity.
  - (* ERestart *)
    injection Hstep as <- <-. cbn [san_ok]. destruct (aget n (nodes g)); [|reflexivity].
    destruct (RO_BASE <=? n); reflexivity.
Qed.

End San.
