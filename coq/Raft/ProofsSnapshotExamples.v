(* Concrete instances of the hypotheses of the C09 theorems, taken from traces of the model. *)
From Coq Require Import ZArith NArith List Bool Lia ZifyBool ZifyN.
From RecordUpdate Require Import RecordSet.
From PSO Require Import Raft.Types Raft.Node Raft.Net Raft.Obs Raft.ProofsSnapshotBase Raft.ProofsSnapshot
  Raft.ProofsSnapshotChunks Raft.ProofsDisk.
Import ListNotations.
Import RecordSetNotations.
Open Scope N_scope.

Definition node_after (c : conf) (evs : list event) (x : nid) : option node :=
  match run_trace c ginit evs with Some g => aget x (nodes g) | None => None end.

(* one voter, snapshots in memory, chunk size 4: elected, two commands applied *)
Definition cx : conf := mkConf 10 40 20 100 1000 4 true false true 2 1000 10 5 false true.
Definition ex : env := mk_env cx 100 0 30 [] 9.
(* after 8 events: log [2;3;4], applied 4, history [7;8], serializer idle *)
Definition tr8 : list event := firstn 8 pre18.
(* after 10 events: the second snapshot (entries 3, 4; 9 bytes) is stored, log [3;4] *)
Definition tr10 : list event := pre18.

Example ex_capture_point :
  exists n, node_after cx tr8 1 = Some n /\
    pid (sr (nd (try_compact ex (start_S ex n)))) = 1 /\ log_wf (log n) /\ 1 <= applied n /\
    map eidx (log n) = [2; 3; 4] /\ applied n = 4 /\ hist n = [7; 8].
Proof.
  eexists. split; [vm_compute; reflexivity|].
  split; [vm_compute; reflexivity|]. split; [vm_compute; repeat split; reflexivity|].
  split; [vm_compute; discriminate|]. vm_compute. repeat split; reflexivity.
Qed.

Example ex_capture_entries_exist :
  exists n, node_after cx tr8 1 = Some n /\ log_wf (log n) /\ log n <> [] /\ 1 <= applied n /\
    first_idx (log n) <= applied n - 1 /\ applied n <= last_idx (log n).
Proof.
  eexists. split; [vm_compute; reflexivity|].
  split; [vm_compute; repeat split; reflexivity|]. split; [vm_compute; discriminate|].
  vm_compute. repeat split; discriminate.
Qed.

(* the capture, one more entry appended, the next try_compact *)
Example ex_compaction_keeps :
  exists n, node_after cx tr8 1 = Some n /\
    let s := start_S ex n in
    let added := [mkEntry (cmd18 9) 5 1] in
    let s2 := upd (fun m => m <| log := log m ++ added |>) (try_compact ex s) in
    pid (sr (nd (try_compact ex s))) = 1 /\ sr (nd s2) = sr (nd (try_compact ex s)) /\
    log (nd s2) = log (nd s) ++ added /\ log_wf (log (nd s2)) /\
    map eidx (log (nd (try_compact ex s2))) = [3; 4; 5].
Proof.
  eexists. split; [vm_compute; reflexivity|]. cbv zeta.
  split; [vm_compute; reflexivity|]. split; [reflexivity|]. split; [vm_compute; reflexivity|].
  split; [vm_compute; repeat split; reflexivity|]. vm_compute. reflexivity.
Qed.

Example ex_compaction_trims :
  exists n, node_after cx (firstn 9 pre18) 1 = Some n /\ pid (sr n) = 1 /\ cur_id (sr n) = 3 /\
    map eidx (log n) = [2; 3; 4] /\ log_wf (log n).
Proof.
  eexists. split; [vm_compute; reflexivity|]. vm_compute. repeat split; reflexivity.
Qed.

Example ex_load_restores :
  exists n sn, node_after cx tr10 1 = Some n /\ stored (sr n) = Some (Good sn) /\
    s_ver sn <= self_ver n /\ s_hist sn = [7; 8] /\ eidx (s_e0 sn) = 3 /\ eidx (s_e1 sn) = 4 /\ s_len sn = 9.
Proof.
  eexists. eexists. split; [vm_compute; reflexivity|]. split; [vm_compute; reflexivity|].
  vm_compute. repeat split; try reflexivity. discriminate.
Qed.

(* a follower that receives a one-piece snapshot of a newer code version does not install it *)
Definition sn_v1 : snapshot :=
  mkSnap [7; 8] 1 (mkEntry (cmd18 8) 4 1) (mkEntry (cmd18 7) 3 1) [1; 2] 0.
Definition sn_v0 : snapshot :=
  mkSnap [7; 8] 0 (mkEntry (cmd18 8) 4 1) (mkEntry (cmd18 7) 3 1) [1; 2] 0.
Definition sn_9 : snapshot :=
  mkSnap [7; 8] 0 (mkEntry (cmd18 8) 4 1) (mkEntry (cmd18 7) 3 1) [1; 2] 9.
Definition fresh2 : node := (init_node ex (Some 2) [1] 0) <| tconn := [1] |> <| connected := [1] |>.

Example ex_aesnap_no_install :
  let s' := on_append_entries ex 1 (AESnap 1 4 (SData (Good sn_v1) 0 0 true true)) 1 4 (start_S ex fresh2) in
  load_dump_ok s' = false /\ stored (sr (nd s')) = Some (Good sn_v1) /\ commit (nd s') = 1 /\ outs s' = [].
Proof. vm_compute. repeat split; reflexivity. Qed.

Example ex_aesnap_install :
  let s := start_S ex fresh2 in
  let p := SData (Good sn_v0) 0 0 true true in
  let s' := on_append_entries ex 1 (AESnap 1 4 p) 1 4 s in
  term (nd s) <= 1 /\ snd (set_transmission p s) = true /\ stored (sr (nd s')) = Some (Good sn_v0) /\
  s_ver sn_v0 <= self_ver (nd s) /\ smem 1 (tconn (nd s)) = true /\ dyn (cf ex) = false /\
  hist (nd s') = [7; 8] /\ commit (nd s') = 4 /\ outs s' = [Send 1 (NextIdx 1 5 false true)].
Proof. vm_compute. repeat split; try reflexivity; discriminate. Qed.

(* the stored snapshot of 9 bytes in pieces of 4: offsets 0, 4, 8, then the empty last piece *)
Example ex_sender_transfer :
  exists n b, node_after cx tr10 1 = Some n /\
    let s := start_S ex n in
    1 <= chunk (cf ex) /\ pid (sr (nd s)) = 0 /\ asorted (trans (sr (nd s))) /\
    stored (sr (nd s)) = Some b /\ aget 2 (trans (sr (nd s))) = None /\ blob_len b = 9 /\
    nchunks (blob_len b) (chunk (cf ex)) = 3 /\
    snd (sender_run 4 ex 2 s) =
      [SData b 0 4 true false; SData b 4 4 false false; SData b 8 1 false false; SData b 9 0 false true] /\
    snd (recv_run (snd (sender_run 4 ex 2 s)) (start_S ex fresh2)) = [false; false; false; true] /\
    stored (sr (nd (fst (recv_run (snd (sender_run 4 ex 2 s)) (start_S ex fresh2))))) = Some b.
Proof.
  eexists. eexists. split; [vm_compute; reflexivity|]. cbv zeta.
  split; [vm_compute; discriminate|]. split; [vm_compute; reflexivity|]. split; [exact I|].
  split; [vm_compute; reflexivity|]. vm_compute. repeat split; reflexivity.
Qed.

(* a transfer interrupted after two pieces, restarted, completed *)
Example ex_restarts :
  let b := Good sn_9 in
  let r := recv_run (restarts b 4 [2%nat; 0%nat; 3%nat] ++ transfer b 4) (start_S ex fresh2) in
  stored (sr (nd (fst r))) = Some b /\
  snd r = [false; false; false; false; false; false; false; false; true].
Proof. vm_compute. repeat split; reflexivity. Qed.

(* splicing piece 3 after piece 1 (the D19 shape) is assembled to Corrupt, never to a wrong Good *)
Example ex_splice_is_corrupt :
  let b := Good sn_9 in
  assemble_snap [(b, 0, 4); (b, 8, 1); (b, 9, 0)] = Corrupt 5.
Proof. vm_compute. reflexivity. Qed.

Example ex_cancel_on_disconnect :
  exists n b, node_after cx tr10 1 = Some n /\ asorted (trans (sr n)) /\ pid (sr n) = 0 /\
    stored (sr n) = Some b /\
    snd (get_transmission ex 2 (start_S ex (on_disconnected 2 n))) = SData b 0 4 true false.
Proof.
  eexists. eexists. split; [vm_compute; reflexivity|]. split; [exact I|].
  split; [vm_compute; reflexivity|]. split; [vm_compute; reflexivity|]. vm_compute. reflexivity.
Qed.

Example ex_catch_up_index :
  exists n a b, node_after cx tr10 1 = Some n /\ 2 <= first_idx (log n) /\ log n = [a; b] /\
    log_wf (log n) /\ eidx b = 4.
Proof.
  eexists. eexists. eexists. split; [vm_compute; reflexivity|].
  split; [vm_compute; discriminate|]. split; [vm_compute; reflexivity|].
  split; [vm_compute; repeat split; reflexivity|]. reflexivity.
Qed.

(* ================= regression witness FX-C09-2: a stale cursor used to survive a change of leader =================
   Before the repair (become_leader now cancels the transmission of every peer) the
   per-follower cursor of the serializer survived the loss of leadership.  Trace (three voters,
   snapshots in memory, chunk 4, automatic compaction off, compaction forced by ECompact; ticks
   with budget 2 are send loops cut by the clock after two pieces):
   node 1 leads (term 1), commits 7 and 8, compacts to [3;4] and sends pieces 0,1 of its
   snapshot (position 3) to the lagging node 3: cursor for 3 at offset 8.
   Node 2 is elected (term 2), compacts to [4;5], sends pieces 0,1 of ITS snapshot (position 4)
   to node 3 (node 3 starts over: incoming = pieces of node 2's snapshot).
   Node 1 is elected again (term 3): its cursor for 3 is gone, the transfer starts at offset 0
   with first = true, node 3 drops what it had and installs node 1's snapshot. *)
Definition cz : conf := mkConf 10 40 20 100 1000 4 true false true 100 100000 10 5 false false.
Definition stale_cursor_trace : list event :=
  [ERestart 1 [2; 3] 0 0 0; ERestart 2 [1; 3] 0 10 0; ERestart 3 [1; 2] 0 15 0;
   EConnect 1 2; EConnect 2 1; EConnect 1 3; EConnect 3 1; EConnect 2 3;
   EConnect 3 2; ETick 1 45 0 30 [] 9; EDeliver 1 2 46 0 []; EDeliver 2 1 47 0 [];
   ELose 1 3 10; EDeliver 1 2 48 0 []; EDeliver 2 1 49 0 []; ETick 1 60 0 30 [] 9;
   ELose 1 3 10; ESubmit 1 (cmd18 7) 1;
   ETick 1 70 0 30 [] 9; ELose 1 3 10; EDeliver 1 2 71 0 []; EDeliver 2 1 71 0 [];
   ETick 1 80 0 30 [] 9; ELose 1 3 10; EDeliver 1 2 81 0 []; EDeliver 2 1 81 0 [];
   ETick 2 85 0 30 [] 9; ESubmit 1 (cmd18 8) 2;
   ETick 1 90 0 30 [] 9; ELose 1 3 10; ETick 1 100 0 30 [] 9; ELose 1 3 10;
   EDeliver 1 2 101 0 []; EDeliver 2 1 101 0 []; ETick 2 105 0 30 [] 9;
   ECompact 1; ETick 1 110 0 30 [] 9; ELose 1 3 10; ETick 2 115 0 30 [] 9;
   ETick 1 120 0 30 [] 9; EDeliver 1 2 121 0 []; EDeliver 2 1 121 0 [];
   EDeliver 1 3 121 0 []; EDeliver 3 1 121 0 []; ETick 2 125 0 30 [] 9;
   ETick 1 130 0 2 [] 9; ETick 1 140 0 2 [] 9; EDeliver 1 2 141 0 [];
   EDeliver 2 1 141 0 []; EDeliver 1 3 141 0 []; EDeliver 1 3 141 0 [];
   ETick 2 190 0 30 [] 9; EDeliver 2 3 191 0 []; EDeliver 3 2 192 0 [];
   ELose 2 3 10; EDeliver 2 1 193 0 []; EDeliver 2 1 193 0 []; EDeliver 1 2 193 0 [];
   EDeliver 1 2 193 0 []; ETick 2 200 0 30 [] 9; ELose 2 3 10; ECompact 2;
   ETick 2 210 0 30 [] 9; ELose 2 3 10; EDeliver 2 1 211 0 []; EDeliver 1 2 211 0 [];
   ETick 2 220 0 30 [] 9; ELose 2 3 10; ETick 2 230 0 30 [] 9; EDeliver 2 3 231 0 [];
   EDeliver 3 2 231 0 []; EDeliver 2 1 231 0 []; EDeliver 1 2 231 0 [];
   ETick 2 240 0 2 [] 9; ETick 2 250 0 2 [] 9; EDeliver 2 3 251 0 [];
   EDeliver 2 3 251 0 []; EDeliver 2 1 251 0 []; EDeliver 1 2 251 0 [];
   ETick 1 300 0 30 [] 9; EDeliver 1 3 301 0 []; EDeliver 3 1 301 0 [];
   EDeliver 1 3 301 0 []; EDeliver 3 1 301 0 []; EDeliver 1 2 301 0 [];
   EDeliver 1 2 301 0 []; EDeliver 2 1 301 0 []; EDeliver 2 1 301 0 [];
   ETick 1 310 0 30 [] 9; ETick 1 320 0 30 [] 9; EDeliver 1 3 321 0 [];
   EDeliver 1 3 321 0 []; EDeliver 1 3 321 0 []; EDeliver 1 3 321 0 []; EDeliver 3 1 321 0 []].

Example stale_cursor_regression :
  exists g1 n1 n3 g n3',
    (* node 1 re-elected: no cursor left; node 3 holds two pieces of node 2's snapshot *)
    run_trace cz ginit (firstn 88 stale_cursor_trace) = Some g1 /\
    aget 1 (nodes g1) = Some n1 /\ aget 3 (nodes g1) = Some n3 /\
    role n1 = LEADER /\ term n1 = 3 /\ trans (sr n1) = [] /\
    option_map (map (fun p => (match fst (fst p) with Good s => eidx (s_e0 s) | Corrupt _ => 0 end,
                                snd (fst p), snd p))) (incoming (sr n3)) = Some [(4, 0, 4); (4, 4, 4)] /\
    (* at the end node 3 has installed node 1's snapshot *)
    run_trace cz ginit stale_cursor_trace = Some g /\ aget 3 (nodes g) = Some n3' /\
    (exists sn, stored (sr n3') = Some (Good sn) /\ eidx (s_e0 sn) = 3 /\ s_hist sn = [7; 8]) /\
    applied n3' = 4 /\ map eidx (log n3') = [3; 4] /\ hist n3' = [7; 8] /\ incoming (sr n3') = None.
Proof.
  eexists. eexists. eexists. eexists. eexists.
  split; [vm_compute; reflexivity|]. split; [vm_compute; reflexivity|]. split; [vm_compute; reflexivity|].
  split; [vm_compute; reflexivity|]. split; [vm_compute; reflexivity|]. split; [vm_compute; reflexivity|].
  split; [vm_compute; reflexivity|]. split; [vm_compute; reflexivity|]. split; [vm_compute; reflexivity|].
  split; [eexists; split; [vm_compute; reflexivity|]; vm_compute; split; reflexivity|].
  vm_compute. repeat split; reflexivity.
Qed.

(* ================= loss in flight that the sender does not notice =================
   "Whatever a node holds as its snapshot is a complete snapshot" used to be false of the model for
   one reason: ELose removes a piece that is in flight (the tail of the
   channel) and the sender sends the following pieces WITHOUT an EDrop at the sender in between
   (the D19 repair cancels the cursor at the disconnect notification; without the notification
   the cursor goes on).  Below: node 1 (re-elected, fresh cursor) sends pieces 0,1 (loop cut by
   the clock), piece 1 is lost, the next tick sends pieces 2 and last: node 3 assembles offsets
   0, 8, 9 -> Corrupt.  With a real TCP connection data lost in flight implies a disconnect at
   the sender before anything is sent on a new connection, so this is a question about the
   environment (C14: one live connection per peer, disconnect notified before reconnect), not
   about the serializer.
   Since setTransmissionData keeps a complete file only when it is a snapshot ahead of the node's
   position, the spliced file is now dropped: node 3 keeps the store it had (None) and its state;
   the former witness against [C09_stored_snapshot_never_corrupt_full] is gone and the statement is
   now a theorem ([stored_snapshot_never_corrupt] of ProofsDumpBacked.v). *)
Definition inflight_loss_trace : list event :=
  firstn 88 stale_cursor_trace ++
  [ETick 1 330 0 2 [] 9; ELose 1 3 1; ETick 1 345 0 30 [] 9;
   EDeliver 1 3 346 0 []; EDeliver 1 3 346 0 []; EDeliver 1 3 346 0 []].

Definition C09_stored_snapshot_never_corrupt_full : Prop :=
  forall c evs g x n, run_trace c ginit evs = Some g -> aget x (nodes g) = Some n ->
  forall l, stored (sr n) <> Some (Corrupt l).

Lemma inflight_loss_splices :
  exists g n3, run_trace cz ginit inflight_loss_trace = Some g /\ aget 3 (nodes g) = Some n3 /\
    stored (sr n3) = None /\ incoming (sr n3) = None /\ applied n3 = 1 /\ map eidx (log n3) = [1].
Proof.
  eexists. eexists. split; [vm_compute; reflexivity|]. split; [vm_compute; reflexivity|].
  vm_compute. repeat split; reflexivity.
Qed.
