(* C20, part A: the fallback decision of tick_leader, hasQuorum. *)
From Coq Require Import ZArith NArith List Bool Lia ZifyBool ZifyN.
From RecordUpdate Require Import RecordSet.
From PSO Require Import Raft.Types Raft.Node Raft.Net.
Import ListNotations.
Import RecordSetNotations.
Open Scope N_scope.

(* ---------- generic facts about the S monad ---------- *)
Lemma ok_true : forall s, ok s = true <-> exc s = 0.
Proof. intros; unfold ok; apply N.eqb_eq. Qed.

Lemma andthen_ok : forall f g s, ok (f s) = true -> (f ;; g) s = g (f s).
Proof. intros; unfold andthen; rewrite H; reflexivity. Qed.

Lemma andthen_bad : forall f g s, ok (f s) = false -> (f ;; g) s = f s.
Proof. intros; unfold andthen; rewrite H; reflexivity. Qed.

(* ---------- the fallback count ---------- *)
Definition resp_missing (n : node) : bool :=
  existsb (fun x => match aget x (last_resp n) with None => true | Some _ => false end) (others n).

Definition fresh_count (dl : Z) (n : node) : N :=
  1 + N.of_nat (length (filter (fun x => match aget x (last_resp n) with
                                         | Some t => (dl <? t)%Z | None => false end) (others n))).

(* the second half of tick_leader, after the commit loop *)
Definition fallback_phase (e : env) (s : S) : S :=
  let s := upd (fun n => n <| leader_commit := Some (commit n) |>) s in
  let n := nd s in
  let dl := (tnow s - fallback (cf e))%Z in
  if resp_missing n then raise EXC_KEY s
  else if negb (majority (fresh_count dl n) n)
       then upd (fun n => n <| leader := None |>) (set_role FOLLOWER s)
       else s.

Definition commit_phase (s : S) : S * N :=
  commit_loop (Datatypes.S (N.to_nat (last_idx (log (nd s)) - commit (nd s)))) (commit (nd s)) (commit (nd s)) s.

Definition store_commit (nc : N) (s : S) : S :=
  if commit (nd s) =? nc then s else upd (fun n => set_commit_meta (n <| commit := nc |>)) s.

Lemma tick_leader_eq : forall e s,
  tick_leader e s =
  if role (nd s) =? LEADER then
    let (s1, nc) := commit_phase s in
    if ok s1 then fallback_phase e (store_commit nc s1) else s1
  else s.
Proof.
  intros. unfold tick_leader, commit_phase, fallback_phase, store_commit, resp_missing, fresh_count.
  destruct (role (nd s) =? LEADER); [|reflexivity].
  destruct (commit_loop _ _ _ s) as [s1 nc].
  destruct (ok s1); reflexivity.
Qed.

(* ---------- counting over `others` only ---------- *)
Lemma existsb_ext_in : forall {A} (f g : A -> bool) l, (forall x, In x l -> f x = g x) -> existsb f l = existsb g l.
Proof.
  intros A f g l; induction l as [|a l IH]; intros H; cbn; [reflexivity|].
  rewrite (H a (or_introl eq_refl)), IH; [reflexivity|]. intros x Hx; apply H; right; exact Hx.
Qed.

Lemma filter_len_ext_in : forall {A} (f g : A -> bool) l,
  (forall x, In x l -> f x = g x) -> length (filter f l) = length (filter g l).
Proof. intros A f g l H. rewrite (filter_ext_in f g l H); reflexivity. Qed.

Definition match_missing (n : node) : bool :=
  existsb (fun x => match aget x (match_idx n) with None => true | Some _ => false end) (others n).

Definition match_count (ci : N) (n : node) : N :=
  1 + N.of_nat (length (filter (fun x => match aget x (match_idx n) with
                                         | Some m => ci <=? m | None => false end) (others n))).

(* nodes that the three majority computations cannot tell apart *)
Definition same_votersview (a b : node) : Prop :=
  others a = others b /\ log a = log b /\ term a = term b /\
  (forall x, In x (others a) -> aget x (match_idx a) = aget x (match_idx b)) /\
  (forall x, In x (others a) -> aget x (last_resp a) = aget x (last_resp b)).

Lemma majority_others : forall cnt a b, others a = others b -> majority cnt a = majority cnt b.
Proof. intros cnt a b H; unfold majority; rewrite H; reflexivity. Qed.

Lemma match_missing_ext : forall a b, same_votersview a b -> match_missing a = match_missing b.
Proof.
  intros a b (Ho & _ & _ & Hm & _). unfold match_missing. rewrite <- Ho.
  apply existsb_ext_in. intros x Hx. rewrite (Hm x Hx); reflexivity.
Qed.

Lemma match_count_ext : forall ci a b, same_votersview a b -> match_count ci a = match_count ci b.
Proof.
  intros ci a b (Ho & _ & _ & Hm & _). unfold match_count. rewrite <- Ho.
  f_equal. f_equal. apply filter_len_ext_in. intros x Hx. rewrite (Hm x Hx); reflexivity.
Qed.

Lemma resp_missing_ext : forall a b, same_votersview a b -> resp_missing a = resp_missing b.
Proof.
  intros a b (Ho & _ & _ & _ & Hl). unfold resp_missing. rewrite <- Ho.
  apply existsb_ext_in. intros x Hx. rewrite (Hl x Hx); reflexivity.
Qed.

Lemma fresh_count_ext : forall dl a b, same_votersview a b -> fresh_count dl a = fresh_count dl b.
Proof.
  intros dl a b (Ho & _ & _ & _ & Hl). unfold fresh_count. rewrite <- Ho.
  f_equal. f_equal. apply filter_len_ext_in. intros x Hx. rewrite (Hl x Hx); reflexivity.
Qed.

(* commit_loop as a function of the node only *)
Lemma commit_loop_unfold : forall f ci next s,
  commit_loop (Datatypes.S f) ci next s =
  if ci <? last_idx (log (nd s)) then
    if match_missing (nd s) then (raise EXC_KEY s, next)
    else if negb (majority (match_count (ci + 1) (nd s)) (nd s)) then (s, next)
    else match get_entries (log (nd s)) (Some (ci + 1)) (Some 1) None with
         | [] => commit_loop f (ci + 1) next s
         | en :: _ => if eterm en =? term (nd s) then commit_loop f (ci + 1) (ci + 1) s
                      else commit_loop f (ci + 1) next s
         end
  else (s, next).
Proof. reflexivity. Qed.

#[global] Opaque commit_loop.

(* result: the index, and whether the loop raised KeyError *)
Lemma commit_loop_ext : forall f ci next s s',
  same_votersview (nd s) (nd s') ->
  snd (commit_loop f ci next s) = snd (commit_loop f ci next s') /\
  ((fst (commit_loop f ci next s) = s /\ fst (commit_loop f ci next s') = s') \/
   (fst (commit_loop f ci next s) = raise EXC_KEY s /\ fst (commit_loop f ci next s') = raise EXC_KEY s')).
Proof.
  induction f as [|f IH]; intros ci next s s' Hv.
  - Transparent commit_loop. cbn. Opaque commit_loop. auto.
  - rewrite !commit_loop_unfold.
    pose proof Hv as (Ho & Hl & Ht & _).
    rewrite <- (match_missing_ext _ _ Hv), <- (match_count_ext _ _ _ Hv), <- (majority_others _ _ _ Ho), <- Hl, <- Ht.
    destruct (ci <? last_idx (log (nd s))); [|cbn; auto].
    destruct (match_missing (nd s)); [cbn; auto|].
    destruct (negb _); [cbn; auto|].
    destruct (get_entries _ _ _ _) as [|en r]; [apply IH; exact Hv|].
    destruct (eterm en =? term (nd s)); apply IH; exact Hv.
Qed.

(* the value commit_loop returns: the start value, or an index a majority has matched *)
Lemma commit_loop_result : forall f ci next s,
  snd (commit_loop f ci next s) = next \/
  (ci < snd (commit_loop f ci next s) <= last_idx (log (nd s)) /\
   majority (match_count (snd (commit_loop f ci next s)) (nd s)) (nd s) = true).
Proof.
  induction f as [|f IH]; intros ci next s.
  - Transparent commit_loop. cbn. Opaque commit_loop. auto.
  - rewrite commit_loop_unfold.
    destruct (ci <? last_idx (log (nd s))) eqn:E1; [|cbn; auto].
    destruct (match_missing (nd s)); [cbn; auto|].
    destruct (negb (majority (match_count (ci + 1) (nd s)) (nd s))) eqn:E2; [cbn; auto|].
    apply negb_false_iff in E2. apply N.ltb_lt in E1.
    assert (forall nx, (nx = next \/ nx = ci + 1) ->
              snd (commit_loop f (ci + 1) nx s) = next \/
              ci < snd (commit_loop f (ci + 1) nx s) <= last_idx (log (nd s)) /\
              majority (match_count (snd (commit_loop f (ci + 1) nx s)) (nd s)) (nd s) = true) as HH.
    { intros nx Hnx. destruct (IH (ci + 1) nx s) as [H | (H1 & H2)].
      - rewrite H. destruct Hnx as [-> | ->]; [left; reflexivity|]. right. split; [lia | exact E2].
      - right. split; [lia | exact H2]. }
    destruct (get_entries _ _ _ _) as [|en r]; [apply HH; auto|].
    destruct (eterm en =? term (nd s)); apply HH; auto.
Qed.

(* ---------- C20_fallback_step ---------- *)
Lemma commit_phase_cases : forall s,
  (fst (commit_phase s) = s) \/ (fst (commit_phase s) = raise EXC_KEY s).
Proof.
  intros s. unfold commit_phase.
  destruct (commit_loop_ext (Datatypes.S (N.to_nat (last_idx (log (nd s)) - commit (nd s)))) (commit (nd s)) (commit (nd s)) s s) as (_ & [[H _] | [H _]]).
  - repeat split; auto.
  - left; exact H.
  - right; exact H.
Qed.

Lemma store_commit_frame : forall nc s,
  role (nd (store_commit nc s)) = role (nd s) /\ leader (nd (store_commit nc s)) = leader (nd s) /\
  others (nd (store_commit nc s)) = others (nd s) /\ last_resp (nd (store_commit nc s)) = last_resp (nd s) /\
  tnow (store_commit nc s) = tnow s /\ exc (store_commit nc s) = exc s /\ outs (store_commit nc s) = outs s /\
  commit (nd (store_commit nc s)) = nc.
Proof.
  intros; unfold store_commit. destruct (commit (nd s) =? nc) eqn:E; cbn; repeat split; auto.
  apply N.eqb_eq in E; exact E.
Qed.

Lemma fallback_phase_spec : forall e s,
  (resp_missing (nd s) = true /\ fallback_phase e s = raise EXC_KEY (upd (fun n => n <| leader_commit := Some (commit n) |>) s)) \/
  (resp_missing (nd s) = false /\ majority (fresh_count (tnow s - fallback (cf e))%Z (nd s)) (nd s) = true /\
   fallback_phase e s = upd (fun n => n <| leader_commit := Some (commit n) |>) s) \/
  (resp_missing (nd s) = false /\ majority (fresh_count (tnow s - fallback (cf e))%Z (nd s)) (nd s) = false /\
   fallback_phase e s = upd (fun n => n <| leader := None |>)
                          (set_role FOLLOWER (upd (fun n => n <| leader_commit := Some (commit n) |>) s))).
Proof.
  intros e s. unfold fallback_phase; cbv zeta.
  change (resp_missing (nd (upd (fun n => n <| leader_commit := Some (commit n) |>) s))) with (resp_missing (nd s)).
  change (tnow (upd (fun n => n <| leader_commit := Some (commit n) |>) s)) with (tnow s).
  change (fresh_count (tnow s - fallback (cf e)) (nd (upd (fun n => n <| leader_commit := Some (commit n) |>) s)))
    with (fresh_count (tnow s - fallback (cf e)) (nd s)).
  change (majority (fresh_count (tnow s - fallback (cf e)) (nd s)) (nd (upd (fun n => n <| leader_commit := Some (commit n) |>) s)))
    with (majority (fresh_count (tnow s - fallback (cf e)) (nd s)) (nd s)).
  destruct (resp_missing (nd s)); [left; auto|].
  destruct (majority _ _); cbn [negb]; [right; left; auto | right; right; auto].
Qed.

Lemma raise_neq : forall s, exc s = 0 -> s <> raise EXC_KEY s.
Proof.
  intros s H C. assert (exc s = exc (raise EXC_KEY s)) as C' by (rewrite <- C; reflexivity).
  rewrite H in C'. discriminate C'.
Qed.

Lemma store_commit_counts : forall nc s,
  resp_missing (nd (store_commit nc s)) = resp_missing (nd s) /\
  (forall dl, fresh_count dl (nd (store_commit nc s)) = fresh_count dl (nd s)) /\
  (forall k, majority k (nd (store_commit nc s)) = majority k (nd s)).
Proof.
  intros. destruct (store_commit_frame nc s) as (F1 & F2 & F3 & F4 & _).
  split; [unfold resp_missing; rewrite F3, F4; reflexivity|].
  split; [intros; unfold fresh_count; rewrite F3, F4; reflexivity|].
  intros; apply majority_others; exact F3.
Qed.

Opaque fresh_count resp_missing match_missing majority.
(* The local statement: a leader that runs the leader phase of a tick (no exception so far)
   - raises KeyError iff an entry of others is missing from matchIndex (while indices remain to be
     examined) or from lastResponseTime,
   - otherwise ends as follower without leader iff the fresh responders (self included) are no majority *)
Theorem C20_fallback_step_thm : forall e s,
  role (nd s) = LEADER -> exc s = 0 ->
  let s' := tick_leader e s in
  let dl := (tnow s - fallback (cf e))%Z in
  (exc s' = EXC_KEY /\ role (nd s') = LEADER /\
     (resp_missing (nd s) = true \/ match_missing (nd s) = true)) \/
  (exc s' = 0 /\ resp_missing (nd s) = false /\
   (majority (fresh_count dl (nd s)) (nd s) = false ->
      role (nd s') = FOLLOWER /\ leader (nd s') = None /\ In (Role LEADER FOLLOWER) (outs s')) /\
   (majority (fresh_count dl (nd s)) (nd s) = true ->
      role (nd s') = LEADER /\ leader (nd s') = leader (nd s) /\ outs s' = outs s)).
Proof.
  intros e s Hr Hx; cbv zeta. rewrite tick_leader_eq. rewrite Hr; cbn [N.eqb LEADER Pos.eqb].
  destruct (commit_phase s) as [s1 nc] eqn:E.
  pose proof (commit_phase_cases s) as H; rewrite E in H; cbn [fst] in H.
  assert (fst (commit_phase s) = s1) as E1 by (rewrite E; reflexivity).
  destruct H as [-> | ->].
  - unfold ok; rewrite Hx; cbn [N.eqb].
    destruct (store_commit_frame nc s) as (F1 & F2 & F3 & F4 & F5 & F6 & F7 & _).
    destruct (store_commit_counts nc s) as (R1 & R2 & R3).
    destruct (fallback_phase_spec e (store_commit nc s)) as [(A & ->) | [(A & B & ->) | (A & B & ->)]];
      rewrite R1 in A; try rewrite R2, R3, F5 in B.
    + left. cbn. rewrite F1. auto.
    + right. cbn. rewrite F6, F1, F2, F7. split; [exact Hx|]. split; [exact A|].
      split; [intros C; congruence | auto].
    + right. unfold set_role; cbn. rewrite F1, Hr; cbn. rewrite F6, F7.
      split; [exact Hx|]. split; [exact A|].
      split; [intros _; repeat split; apply in_or_app; right; left; reflexivity | intros C; congruence].
  - left. cbn. split; [reflexivity|]. split; [exact Hr|]. right.
    (* the loop raised: so matchIndex misses a voter *)
    unfold commit_phase in E1. rewrite commit_loop_unfold in E1.
    destruct (commit (nd s) <? last_idx (log (nd s))).
    + destruct (match_missing (nd s)) eqn:EM0; [reflexivity|]. exfalso.
      assert (forall f ci nx, fst (commit_loop f ci nx s) <> raise EXC_KEY s) as HN.
      { clear E E1. induction f as [|f IH]; intros ci nx.
        - Transparent commit_loop. cbn [commit_loop fst]. Opaque commit_loop. apply raise_neq; exact Hx.
        - rewrite commit_loop_unfold. destruct (ci <? _).
          + rewrite EM0.
            destruct (negb (majority (match_count (ci + 1) (nd s)) (nd s))); [cbn [fst]; apply raise_neq; exact Hx|].
            destruct (get_entries _ _ _ _); [apply IH|]. destruct (_ =? _); apply IH.
          + cbn [fst]; apply raise_neq; exact Hx. }
      destruct (negb (majority (match_count (commit (nd s) + 1) (nd s)) (nd s))); [cbn [fst] in E1; exact (raise_neq s Hx E1)|].
      destruct (get_entries _ _ _ _); [eapply HN; exact E1|]. destruct (_ =? _); eapply HN; exact E1.
    + cbn [fst] in E1. exfalso; exact (raise_neq s Hx E1).
Qed.
Transparent fresh_count resp_missing match_missing majority.

(* ---------- hasQuorum (syncobj.py:751-768) ---------- *)
Definition own_count (n : node) : N := match self n with Some _ => 1 | None => 0 end.

Definition connected_voters (n : node) : N :=
  N.of_nat (length (filter (fun x => smem x (connected n)) (others n))).

(* nodes = otherNodes; node_count = len(nodes); connected_count = len(nodes & connectedNodes);
   both + 1 when selfNode is not None; connected_count > node_count / 2 (true division) *)
Definition has_quorum (n : node) : bool :=
  let node_count := N.of_nat (length (others n)) in
  let connected_count := connected_voters n in
  let (connected_count, node_count) :=
    match self n with
    | Some _ => (connected_count + 1, node_count + 1)
    | None => (connected_count, node_count)
    end in
  node_count <? 2 * connected_count.

Theorem C20_hasQuorum_iff_thm : forall n,
  (has_quorum n = true <->
   2 * (connected_voters n + own_count n) > N.of_nat (length (others n)) + own_count n) /\
  (forall i, self n = Some i -> (has_quorum n = true <-> majority (1 + connected_voters n) n = true)) /\
  (self n = None -> (has_quorum n = true <-> 2 * connected_voters n > N.of_nat (length (others n)))).
Proof.
  intros n. unfold has_quorum, own_count, majority; cbv zeta.
  destruct (self n) as [i|].
  - split; [rewrite N.ltb_lt; lia|]. split; [|discriminate].
    intros j _. rewrite !N.ltb_lt. lia.
  - split; [rewrite N.ltb_lt; lia|]. split; [discriminate|].
    intros _. rewrite N.ltb_lt. lia.
Qed.
