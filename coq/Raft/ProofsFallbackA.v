(* C20, part A: the fallback decision of tick_leader, hasQuorum. *)
From Coq Require Import ZArith NArith List Bool Lia ZifyBool ZifyN.
From RecordUpdate Require Import RecordSet.
From PSO Require Import Raft.Types Raft.Node Raft.Net.
Import ListNotations.
Import RecordSetNotations.
Open Scope N_scope.

(* ---------- generic facts about the S monad ---------- *)
Lemma ok_true : forall s, ok s = true <-> exc s = 0.
Proof. intros; unfold ok; apply N.eqb_eq. Qed.

Lemma andthen_ok : forall f g s, ok (f s) = true -> (f ;; g) s = g (f s).
Proof. intros; unfold andthen; rewrite H; reflexivity. Qed.

Lemma andthen_bad : forall f g s, ok (f s) = false -> (f ;; g) s = f s.
Proof. intros; unfold andthen; rewrite H; reflexivity. Qed.

(* ---------- the fallback count ---------- *)
Definition resp_missing (n : node) : bool :=
  existsb (fun x => match aget x (last_resp n) with None => true | Some _ => false end) (others n).

Definition fresh_count (dl : Z) (n : node) : N :=
  1 + N.of_nat (length (filter (fun x => match aget x (last_resp n) with
                                         | Some t => (dl <? t)%Z | None => false end) (others n))).

(* the second half of tick_leader, after the commit loop *)
Definition fallback_phase (e : env) (s : S) : S :=
  let s := upd (fun n => n <| leader_commit := Some (commit n) |>) s in
  let n := nd s in
  let dl := (tnow s - fallback (cf e))%Z in
  if resp_missing n then raise EXC_KEY s
  else if negb (majority (fresh_count dl n) n)
       then upd (fun n => n <| leader := None |>) (set_role FOLLOWER s)
       else s.

Definition commit_phase (s : S) : S * N :=
  commit_loop (Datatypes.S (N.to_nat (last_idx (log (nd s)) - commit (nd s)))) (commit (nd s)) (commit (nd s)) s.

Definition store_commit (nc : N) (s : S) : S :=
  if commit (nd s) =? nc then s else upd (fun n => set_commit_meta (n <| commit := nc |>)) s.

Lemma tick_leader_eq : forall e s,
  tick_leader e s =
  if role (nd s) =? LEADER then
    let (s1, nc) := commit_phase s in
    if ok s1 then fallback_phase e (store_commit nc s1) else s1
  else s.
Proof.
  intros. unfold tick_leader, commit_phase, fallback_phase, store_commit, resp_missing, fresh_count.
  destruct (role (nd s) =? LEADER); [|reflexivity].
  destruct (commit_loop _ _ _ s) as [s1 nc].
  destruct (ok s1); reflexivity.
Qed.
