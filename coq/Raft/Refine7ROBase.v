(* Tier C7, part 1: read-only nodes as LEARNERS of the abstract Raft.
   A read-only node (id >= RO_BASE) is outside the abstract cluster: all its steps are L0 stutters
   (Refine5RO).  Here: a relation between the L1 state of such a node and the (unchanged) L0 state:
   - a ghost full log [full] of which the node's log is a suffix and that is [canon_ok] with respect
     to the ghost leader logs [llog] (wherever an entry of term T sits, the prefix up to it is the prefix
     of T's leader log);
   - the prefixes of length [applied] and [commit] of the ghost log are committed ([S7.committed_upto]);
   - every blob the node holds is a valid snapshot whose user state is the replay of the committed
     prefix ([QS]); the buffered pieces of a big entry are legit;
   - the user state is the replay of the committed prefix of length [applied] ([HI] of Refine6Base).
   This file: the list-level facts (what accepting an AppendEntries does to a ghost log), the relation,
   its monotonicity along L0 steps, the generic forms of [HI_apply] and [valid_at]. *)
From Coq Require Import ZArith NArith List Bool Lia ZifyBool Arith PeanoNat.
From RecordUpdate Require Import RecordSet.
From PSO Require Import Raft.Types Raft.Node Raft.Net Raft.ProofsCommitBase.
From PSO Require Import Raft.ProofsApplyBase Raft.ProofsApplyLog.
From PSO Require Import Raft.ProofsElectionBase Raft.RefineAbs Raft.RefineSpecA Raft.RefineTickA Raft.RefineMsgB.
From PSO Require Import Raft.Refine5Abs Raft.Refine5SpecA Raft.Refine5Sim.
From PSO Require Import Raft.Refine6Base Raft.Refine6Snaps.
From PSO Require Abstract.Model Abstract.Lib Abstract.Kstep Abstract.Safety1_WF Abstract.Safety2_Election
  Abstract.Safety3_LeaderLog Abstract.Safety4_LogMatching Abstract.Safety6_LeaderCompleteness
  Abstract.Safety7_StateMachine Abstract.Safety8_First.
Import ListNotations.
Import RecordSetNotations.
Open Scope N_scope.
#[local] Arguments firstn : simpl nomatch.
#[local] Arguments skipn : simpl nomatch.

Lemma committed_tb7 s Tb Tb' l k : (Tb <= Tb')%nat -> S7.committed_upto s Tb l k -> S7.committed_upto s Tb' l k.
Proof.
  intros Hle (A & T0 & p0 & B & C & D & E). split; auto. exists T0, p0. repeat split; auto. lia.
Qed.

Section Base7.
Variable c : conf.
Variable V : list nid.
Hypothesis NDV : NoDup V.
Hypothesis VRO : forall v, In v V -> v < RO_BASE.
Hypothesis VNE : V <> [].
Hypothesis Hb1 : 1 < batch c.
Set Default Proof Using "All".

Notation V' := (absV V).
Notation kstar := (kstar V).
Notation pk := (pk c).
Notation V'_nodup := (V'_nodup c V NDV VRO VNE Hb1).
Notation V'_ne := (V'_ne c V NDV VRO VNE Hb1).
Notation snap_valid := (snap_valid c).
Notation blob_valid := (blob_valid c).
Notation legit := (legit c).
Notation e00 := (e00 c).
Notation HI := (HI c).
Notation SH := (SH c).

(* ------------------------------------------------------------------------------------------ *)
(* L0 facts that do not mention a node                                                        *)

Lemma llog_kstar s s' T : KS.kreachable V' s -> kstar s s' -> exists r, M.llog s' T = M.llog s T ++ r.
Proof.
  intros HR K. induction K as [|s1 s2 K IH Ks].
  - exists []. rewrite app_nil_r. reflexivity.
  - destruct IH as [r1 E1].
    assert (HR1 : KS.kreachable V' s1) by (eapply kstar_kreachable; eauto).
    destruct (S3.kstep_llog V' s1 s2 T (S1.inv1_kreachable V' s1 HR1) (S2.inv2_kreachable V' s1 HR1)
                (S3.inv3_kreachable V' s1 HR1) Ks) as (r2 & E2 & _).
    exists (r1 ++ r2). rewrite E2, E1, app_assoc. reflexivity.
Qed.

(* the common first entry is committed from the start *)
Lemma direct00 s : KS.kreachable V' s -> In (0%nat, 0%nat) (M.direct s) /\ M.llog s 0 <> [].
Proof.
  intros HR. induction HR as [|s s' HR IH K].
  - cbn. split; [left; reflexivity|discriminate].
  - destruct IH as [A B]. split; [eapply KS.kstep_direct; eauto|].
    destruct (S3.kstep_llog V' s s' 0%nat (S1.inv1_kreachable V' s HR) (S2.inv2_kreachable V' s HR)
                (S3.inv3_kreachable V' s HR) K) as (r & E & _).
    rewrite E. destruct (M.llog s 0); [contradiction|discriminate].
Qed.

Lemma committed_first s Tb : KS.kreachable V' s -> S7.committed_upto s Tb [M.e0] 1.
Proof.
  intros HR. destruct (direct00 s HR) as [D N]. split; [cbn; lia|].
  exists 0%nat, 0%nat. split; [exact D|]. split; [lia|]. split; [lia|].
  pose proof (S8.I8_llog _ (S8.inv8_kreachable V' s HR) 0%nat N) as H0.
  destruct (M.llog s 0) as [|a r]; [contradiction|]. cbn in H0. injection H0 as ->. reflexivity.
Qed.

(* the facts about an AppendEntries message and a ghost log that is canonical *)
Lemma ghost_ae_facts (s : M.state) l t a p pt es lc pe :
  KS.kreachable V' s -> S4.canon_ok (M.llog s) l ->
  In (M.AppendEntries t a (Sn p) pt es lc) (M.net s) ->
  nth_error l p = Some pe -> M.eterm pe = pt ->
  S4.lmatch l (M.llog s t) /\ firstn (Sn p) l = firstn (Sn p) (M.llog s t) /\
  (Sn p <= length l)%nat /\ S3.window (M.llog s t) (Sn p) es.
Proof.
  intros HR C Hm Hp Hpt.
  pose proof (S3.inv3_kreachable V' s HR) as I3. pose proof (S4.inv4_kreachable V' s HR) as I4.
  destruct (S3.I3_ae _ I3 _ _ _ _ _ _ Hm) as (W & Wd & p0 & pe0 & E1 & E2 & E3).
  injection E1 as <-.
  assert (M : S4.lmatch l (M.llog s t)).
  { eapply S4.canon_lmatch; [exact C|apply (S4.I4_lcanon _ I4)]. }
  repeat split; auto.
  - eapply M; eauto. congruence.
  - apply nth_error_Some. congruence.
Qed.

(* what accepting the message does to the ghost log *)
Lemma ghost_accept (s : M.state) l t a p pt es lc pe Tb :
  KS.kreachable V' s -> S4.canon_ok (M.llog s) l ->
  In (M.AppendEntries t a (Sn p) pt es lc) (M.net s) ->
  nth_error l p = Some pe -> M.eterm pe = pt -> (Tb <= t)%nat ->
  let l' := firstn (Sn p) l ++ M.merge (skipn (Sn p) l) es in
  let k := (Sn p + length es)%nat in
  S4.canon_ok (M.llog s) l' /\ (k <= length l')%nat /\ firstn k l' = firstn k (M.llog s t) /\
  (forall j, S7.committed_upto s Tb l j -> S7.committed_upto s t l' j) /\
  (forall j l0, (j <= k)%nat -> S7.committed_upto s t l0 j -> S7.committed_upto s t l' j) /\
  S7.committed_upto s t l' (Nat.min lc k).
Proof.
  intros HR C Hm Hp Hpt HTb. cbv zeta.
  destruct (ghost_ae_facts s l t a p pt es lc pe HR C Hm Hp Hpt) as (M1 & Fp & Hl1 & Wd).
  pose proof (S2.inv2_kreachable V' s HR) as I2. pose proof (S3.inv3_kreachable V' s HR) as I3.
  pose proof (S4.inv4_kreachable V' s HR) as I4.
  pose proof (S6.inv6_kreachable V' V'_nodup V'_ne s HR) as I6.
  pose proof (S7.inv7_kreachable V' V'_nodup V'_ne s HR) as I7.
  destruct (S3.I3_ae _ I3 _ _ _ _ _ _ Hm) as ([Q HQ] & _).
  set (Lt := M.llog s t) in *.
  set (l' := firstn (Sn p) l ++ M.merge (skipn (Sn p) l) es).
  set (k := (Sn p + length es)%nat).
  destruct (S4.ae_result_prefix l Lt p es M1 Fp Hl1 Wd) as [K3 K4]. fold l' in K3, K4. fold k in K3, K4.
  assert (C' : S4.canon_ok (M.llog s) l').
  { destruct (S4.ae_result l Lt p es M1 Fp Hl1 Wd) as [_ [(E & _)|(E & _)]]; fold l' in E; rewrite E; auto.
    apply S4.canon_firstn. apply (S4.I4_lcanon _ I4). }
  assert (G5 : forall j l0, (j <= k)%nat -> S7.committed_upto s t l0 j -> S7.committed_upto s t l' j).
  { intros j l0 Hj C0.
    pose proof (S7.committed_in_leader V' s _ _ _ _ _ Q I2 I4 I6 C0 HQ (Nat.le_refl _)) as F0. fold Lt in F0.
    destruct C0 as (A0 & T0 & p1 & D1 & D2 & D3 & D4).
    split; [lia|]. exists T0, p1. repeat split; auto.
    rewrite <- D4, F0. eapply ML.firstn_le_eq; [|exact K4]. exact Hj. }
  split; [exact C'|]. split; [exact K3|]. split; [exact K4|]. split; [|split; [exact G5|]].
  - intros j C0.
    pose proof (S7.committed_in_leader V' s _ _ _ _ _ Q I2 I4 I6 C0 HQ HTb) as F0. fold Lt in F0.
    destruct C0 as (A0 & T0 & p1 & D1 & D2 & D3 & D4).
    destruct (S4.ae_result_keeps l Lt p es j M1 Fp Hl1 Wd A0 F0) as [R1 R2]. fold l' in R1, R2.
    split; [exact R1|]. exists T0, p1. split; auto. split; [lia|]. split; auto. congruence.
  - apply (G5 _ Lt); [lia|].
    eapply (committed_le c V NDV VRO VNE Hb1); [|apply (S7.I7_msg _ I7 _ _ _ _ _ _ Hm)]. lia.
Qed.

(* the two shapes of the result (for the install of a snapshot) *)
Lemma ghost_accept_cases (s : M.state) l t a p pt es lc pe :
  KS.kreachable V' s -> S4.canon_ok (M.llog s) l ->
  In (M.AppendEntries t a (Sn p) pt es lc) (M.net s) ->
  nth_error l p = Some pe -> M.eterm pe = pt ->
  let l' := firstn (Sn p) l ++ M.merge (skipn (Sn p) l) es in
  let k := (Sn p + length es)%nat in
  S4.lmatch l (M.llog s t) /\ (k <= length (M.llog s t))%nat /\
  firstn k (M.llog s t) = firstn (Sn p) l ++ es /\
  ((l' = l /\ (k <= length l)%nat /\ firstn k l = firstn k (M.llog s t)) \/
   (l' = firstn k (M.llog s t) /\ ~ ((k <= length l)%nat /\ firstn k l = firstn k (M.llog s t)))).
Proof.
  intros HR C Hm Hp Hpt. cbv zeta.
  destruct (ghost_ae_facts s l t a p pt es lc pe HR C Hm Hp Hpt) as (M1 & Fp & Hl1 & Wd).
  destruct (S4.ae_result l (M.llog s t) p es M1 Fp Hl1 Wd) as [Hk Hc]. cbv zeta in Hk, Hc.
  split; [exact M1|]. split; [exact Hk|]. split; [|exact Hc].
  rewrite ML.firstn_add, (S4.window_eq _ _ _ Wd), Fp. reflexivity.
Qed.

(* ------------------------------------------------------------------------------------------ *)
(* ghost full logs                                                                            *)

Definition glog (s : M.state) (full : list entry) : Prop :=
  full <> [] /\ S4.canon_ok (M.llog s) (absL pk full).

Lemma glog_nth s full p e :
  glog s full -> nth_error full p = Some e -> nth_error (M.llog s (n2 (eterm e))) p = Some (absE pk e).
Proof.
  intros [_ C] Hp.
  assert (Ha : nth_error (absL pk full) p = Some (absE pk e)) by (rewrite absL_nth, Hp; reflexivity).
  pose proof (C p _ Ha) as F. cbn [M.eterm absE] in F.
  rewrite <- (ML.firstn_eq_nth _ _ (Sn p) p F) by lia. exact Ha.
Qed.

Lemma glog_wf1 s full : KS.kreachable V' s -> glog s full -> wf1 full.
Proof.
  intros HR G. split; [apply G|]. intros p e Hp.
  pose proof (glog_nth s full p e G Hp) as H.
  destruct (S3.I3_llog_ok _ (S3.inv3_kreachable V' s HR) _ _ _ H) as [H1 _]. cbn in H1. lia.
Qed.

Lemma glog_e0 s full : KS.kreachable V' s -> glog s full -> nth_error full 0 = Some e00.
Proof.
  intros HR G. destruct full as [|f0 fr]; [destruct G as [G _]; contradiction|].
  pose proof (glog_nth s (f0 :: fr) 0%nat f0 G eq_refl) as H.
  assert (N : M.llog s (n2 (eterm f0)) <> []) by (intros E; rewrite E in H; discriminate).
  pose proof (S8.I8_llog _ (S8.inv8_kreachable V' s HR) _ N) as H0. rewrite H in H0.
  assert (X : absE pk f0 = absE pk e00) by (rewrite (absE_e00 c); congruence).
  apply absE_inj in X. subst. reflexivity.
Qed.

Lemma glog_kstar s s' full : KS.kreachable V' s -> kstar s s' -> glog s full -> glog s' full.
Proof.
  intros HR K [A B]. split; auto. eapply S4.canon_mono; [|exact B]. intros T. eapply llog_kstar; eauto.
Qed.

Lemma glog_init s : KS.kreachable V' s -> glog s [e00].
Proof.
  intros HR. split; [discriminate|]. change (absL pk [e00]) with [absE pk e00]. rewrite (absE_e00 c).
  intros p e Hp. destruct p as [|p]; [|destruct p; discriminate].
  cbn in Hp. injection Hp as <-. cbn [M.eterm M.e0].
  destruct (direct00 s HR) as [_ N].
  pose proof (S8.I8_llog _ (S8.inv8_kreachable V' s HR) 0%nat N) as H0.
  destruct (M.llog s 0) as [|a r]; [contradiction|]. cbn in H0. injection H0 as ->. reflexivity.
Qed.

(* accepting an AppendEntries, on the L1 side *)
Lemma absL_merge full pidx es :
  absL pk (firstn pidx full ++ l1merge (skipn pidx full) es) =
  firstn pidx (absL pk full) ++ M.merge (skipn pidx (absL pk full)) (absL pk es).
Proof. rewrite absL_app, absL_firstn. f_equal. rewrite <- absL_skipn. symmetry. apply merge_abs. Qed.

Lemma learn_accept s full t a pidx pterm es cm p0 Tb :
  KS.kreachable V' s -> glog s full ->
  In (M.AppendEntries (n2 t) (n2 a) (n2 pidx) (n2 pterm) (absL pk es) (n2 cm)) (M.net s) ->
  1 <= pidx -> nth_error full (n2 pidx - 1) = Some p0 -> eterm p0 = pterm -> (Tb <= n2 t)%nat ->
  let full' := firstn (n2 pidx) full ++ l1merge (skipn (n2 pidx) full) es in
  let k := (n2 pidx + length es)%nat in
  glog s full' /\ (k <= length full')%nat /\
  firstn k (absL pk full') = firstn k (M.llog s (n2 t)) /\
  (forall j, S7.committed_upto s Tb (absL pk full) j -> S7.committed_upto s (n2 t) (absL pk full') j) /\
  (forall j l0, (j <= k)%nat -> S7.committed_upto s (n2 t) l0 j -> S7.committed_upto s (n2 t) (absL pk full') j) /\
  S7.committed_upto s (n2 t) (absL pk full') (Nat.min (n2 cm) k).
Proof.
  intros HR [Gne GC] Hin Hp1 Hp0 Hpt HTb. cbv zeta.
  assert (Hpi : n2 pidx = Sn (n2 pidx - 1)) by lia.
  assert (Hpe : nth_error (absL pk full) (n2 pidx - 1) = Some (absE pk p0)) by (rewrite absL_nth, Hp0; reflexivity).
  assert (Hpte : M.eterm (absE pk p0) = n2 pterm) by (cbn; rewrite Hpt; reflexivity).
  rewrite Hpi in Hin.
  destruct (ghost_accept s (absL pk full) (n2 t) (n2 a) (n2 pidx - 1) (n2 pterm) (absL pk es) (n2 cm) (absE pk p0) Tb
              HR GC Hin Hpe Hpte HTb) as (A1 & A2 & A3 & A4 & A5 & A6).
  cbv zeta in A1, A2, A3, A4, A5, A6. rewrite <- Hpi in A1, A2, A3, A4, A5, A6.
  rewrite absL_length in A2, A3, A5, A6. rewrite <- absL_merge in A1, A2, A3, A4, A5, A6.
  rewrite absL_length in A2.
  split; [|auto 10].
  split; [|exact A1].
  intros E. apply (f_equal (@length entry)) in E. rewrite app_length, firstn_length in E. cbn in E.
  assert (n2 pidx - 1 < length full)%nat by (apply nth_error_Some; congruence). lia.
Qed.

(* ------------------------------------------------------------------------------------------ *)
(* the learner relation                                                                       *)

(* a snapshot a node may hold: valid with a bound on the term of its commitment, and its user state is
   the replay of the committed prefix that ends at its last entry *)
Definition QS (s : M.state) (Tb : nat) (sn : snapshot) : Prop := snap_valid s Tb sn /\ SH s sn.

Lemma QS_le s Tb Tb' sn : (Tb <= Tb')%nat -> QS s Tb sn -> QS s Tb' sn.
Proof. intros H [A B]. split; auto. eapply snap_valid_le; eauto. Qed.

Lemma QS_kstar s s' Tb sn : KS.kreachable V' s -> kstar s s' -> QS s Tb sn -> QS s' Tb sn.
Proof.
  intros HR K [A B]. split; [eapply snap_valid_kstar; eauto|].
  eapply (SH_kstar c V NDV VRO VNE Hb1); eauto.
Qed.

(* the log part *)
Definition Lg (x : node) (s : M.state) : Prop :=
  exists full, glog s full /\ suffix_of (log x) full /\
    S7.committed_upto s (n2 (term x)) (absL pk full) (n2 (applied x)) /\
    S7.committed_upto s (n2 (term x)) (absL pk full) (n2 (commit x)).

Definition recv_ok (s : M.state) (x : node) : Prop :=
  forall en o l, In (en, o, l) (recv_t x) -> legit s en.

Record Lh (x : node) : Prop := {
  Lh_rinv : replay_idx x <= applied x;
  Lh_fi : first_idx (log x) <= applied x;
  Lh_cur : pid (sr x) = 1 -> cur_id (sr x) < applied x
}.

Record Lr (x : node) (s : M.state) : Prop := {
  Lr_g : Lg x s;
  Lr_recv : recv_ok s x;
  Lr_h : Lh x;
  Lr_sr : nsn (QS s (n2 (term x))) x;
  Lr_hist : HI s x
}.

(* the fields the relation reads *)
Definition lq (x : node) :=
  (log x, term x, applied x, commit x, recv_t x, replay_idx x, sr x, hist x).

Lemma lq_eq x y : lq x = lq y ->
  log x = log y /\ term x = term y /\ applied x = applied y /\ commit x = commit y /\
  recv_t x = recv_t y /\ replay_idx x = replay_idx y /\ sr x = sr y /\ hist x = hist y.
Proof. unfold lq. intros H. repeat split; congruence. Qed.

Lemma Lg_eq x y s :
  log y = log x -> term y = term x -> applied y = applied x -> commit y = commit x -> Lg x s -> Lg y s.
Proof. intros E1 E2 E3 E4 (full & A & B & C & D). exists full. rewrite E1, E2, E3, E4. auto. Qed.

Lemma Lh_eq x y :
  log y = log x -> applied y = applied x -> replay_idx y = replay_idx x ->
  pid (sr y) = pid (sr x) -> cur_id (sr y) = cur_id (sr x) -> Lh x -> Lh y.
Proof. intros E1 E2 E3 E4 E5 [A B C]. constructor; rewrite ?E1, ?E2, ?E3, ?E4, ?E5; auto. Qed.

Lemma HI_eq s x y : hist y = hist x -> applied y = applied x -> HI s x -> HI s y.
Proof. intros E1 E2 (l & A & B). exists l. rewrite E1, E2. auto. Qed.

Lemma Lr_lq x y s : lq y = lq x -> Lr x s -> Lr y s.
Proof.
  intros H [A B C D E]. destruct (lq_eq _ _ H) as (E1 & E2 & E3 & E4 & E5 & E6 & E7 & E8).
  constructor.
  - eapply Lg_eq; eauto.
  - intros en o l Hin. rewrite E5 in Hin. eauto.
  - eapply Lh_eq; eauto; rewrite E7; reflexivity.
  - unfold nsn in *. rewrite E7, E2. exact D.
  - eapply HI_eq; eauto.
Qed.

Lemma Lg_kstar x s s' : KS.kreachable V' s -> kstar s s' -> Lg x s -> Lg x s'.
Proof.
  intros HR K (full & A & B & C & D). exists full. split; [eapply glog_kstar; eauto|]. split; auto.
  split; eapply committed_star; eauto.
Qed.

Lemma Lr_kstar x s s' : KS.kreachable V' s -> kstar s s' -> Lr x s -> Lr x s'.
Proof.
  intros HR K [A B C D E]. constructor; auto.
  - eapply Lg_kstar; eauto.
  - intros en o l Hin. eapply legit_kstar; eauto.
  - eapply srq_impl; [|exact D]. intros sn. apply QS_kstar; auto.
  - eapply (HI_kstar c V NDV VRO VNE Hb1); eauto.
Qed.

Lemma Lg_full x s : KS.kreachable V' s -> Lg x s ->
  exists full, glog s full /\ wf1 full /\ suffix_of (log x) full /\
    S7.committed_upto s (n2 (term x)) (absL pk full) (n2 (applied x)) /\
    S7.committed_upto s (n2 (term x)) (absL pk full) (n2 (commit x)).
Proof.
  intros HR (full & A & B & C & D). exists full. split; auto. split; [eapply glog_wf1; eauto|auto].
Qed.

Lemma Lg_term x y s :
  log y = log x -> term x <= term y -> applied y = applied x -> commit y = commit x -> Lg x s -> Lg y s.
Proof.
  intros E1 E2 E3 E4 (full & A & B & C & D). exists full. rewrite E1, E3, E4. split; auto. split; auto.
  split; [eapply committed_tb7; [|exact C]|eapply committed_tb7; [|exact D]]; lia.
Qed.

(* a freshly started read-only node *)
Lemma Lr_init s x :
  KS.kreachable V' s -> log x = [e00] -> term x = 0 -> applied x = 1 -> commit x = 1 -> recv_t x = [] ->
  replay_idx x = 1 -> sr x = init_ser -> hist x = [] -> Lr x s.
Proof.
  intros HR E1 E2 E3 E4 E5 E6 E7 E8.
  assert (C1 : S7.committed_upto s (n2 (term x)) (absL pk [e00]) 1).
  { cbn [absL map]. rewrite (absE_e00 c). apply committed_first. exact HR. }
  constructor.
  - exists [e00]. split; [apply glog_init; exact HR|]. split.
    + rewrite E1. exists 0%nat. split; [reflexivity|cbn; lia].
    + rewrite E3, E4. split; exact C1.
  - intros en o l Hin. rewrite E5 in Hin. destruct Hin.
  - constructor; rewrite ?E1, ?E3, ?E6, ?E7; cbn; try lia; try (intros H; discriminate).
  - unfold nsn, srq. rewrite E7. cbn. repeat split; intros; try discriminate. contradiction.
  - eapply (HI_init c V NDV VRO VNE Hb1); eauto.
Qed.

(* ------------------------------------------------------------------------------------------ *)
(* generic forms of two lemmas about voters                                                   *)

(* the apply loop (Refine6Base.HI_apply with a ghost log) *)
Lemma HI_apply_g s Tb x0 x1 es full :
  KS.kreachable V' s -> wf1 full -> suffix_of (log x1) full ->
  S7.committed_upto s Tb (absL pk full) (n2 (applied x1)) -> HI s x0 ->
  (forall e, In e es -> In e (log x1)) -> consec (applied x0 + 1) es ->
  hist x1 = hist x0 ++ replay es -> applied x1 = applied x0 + N.of_nat (length es) ->
  HI s x1.
Proof.
  intros HR W Sx CA (l0 & C0 & H0) Hin Hc Eh Ea.
  pose proof CA as [Hlen _]. apply (cpre_of_committed c V NDV VRO VNE Hb1) in CA.
  set (k0 := n2 (applied x0)) in *. set (k1 := n2 (applied x1)) in *.
  assert (Ek : k1 = (k0 + length es)%nat) by (unfold k0, k1; lia).
  rewrite absL_length in Hlen.
  assert (E0 : l0 = firstn k0 (absL pk full)).
  { eapply (cpre_fun c V NDV VRO VNE Hb1); [exact HR|exact C0|].
    pose proof (cpre_le c V NDV VRO VNE Hb1 s k1 k0 _ ltac:(lia) CA) as X. rewrite firstn_firstn in X.
    replace (Nat.min k0 k1) with k0 in X by lia. exact X. }
  exists (firstn k1 (absL pk full)). split; [exact CA|].
  rewrite Ek, ML.firstn_add, <- E0, decL_app, replay_app, Eh, H0. f_equal.
  rewrite <- absL_skipn, <- absL_firstn, decL_abs.
  rewrite (consec_window (log x1) full es k0 W Sx Hin); auto.
  - replace (N.of_nat k0) with (applied x0) by (unfold k0; lia). exact Hc.
  - lia.
Qed.

(* serializing at [applied] (Refine5Sim.valid_at with a ghost log) *)
Lemma valid_at_g s Tb (k : nat) l e0' e1' :
  S7.committed_upto s Tb l k -> (2 <= k)%nat ->
  nth_error l (k - 1) = Some (absE pk e1') -> nth_error l (k - 2) = Some (absE pk e0') ->
  n2 (eidx e1') = k ->
  forall h v cl ln, snap_valid s Tb (mkSnap h v e1' e0' cl ln).
Proof.
  intros (Hk & T1 & p1 & D' & Ht & Lp' & F1) K2 E1 E0 Ek h v cl ln.
  unfold Refine5Abs.snap_valid. cbn [s_e0 s_e1]. rewrite Ek.
  split; [exact I|]. split; [exact I|]. split; auto. exists T1, p1. split; auto. split; auto. split; [lia|].
  split.
  - rewrite <- E1. symmetry. apply (ML.firstn_eq_nth _ _ _ _ F1). lia.
  - rewrite <- E0. symmetry. apply (ML.firstn_eq_nth _ _ _ _ F1). lia.
Qed.

End Base7.
