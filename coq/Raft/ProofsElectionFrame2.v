(* Election safety (C03/C07), part 3: frame lemmas for the helpers that can touch
   `others` / `applied` / `replay_idx` (membership, dump load, apply, append_entries).
   K0 versions are unconditional; KB versions need static membership (dyn = false,
   file_dump = false) and the node invariant replay_idx <= applied. *)
From Coq Require Import ZArith NArith List Bool Lia.
From RecordUpdate Require Import RecordSet.
From PSO Require Import Raft.Types Raft.Node Raft.ProofsElectionBase Raft.ProofsElectionFrame.
Import ListNotations.
Import RecordSetNotations.
Open Scope N_scope.

Lemma rel0_upd f s s0 : (forall n, core (f n) = core n) -> rel K0 s s0 -> rel K0 s (upd f s0).
Proof.
  intros Hf H. eapply rel_trans; [exact H|]. simpl. unfold same0. split; [apply Hf | reflexivity].
Qed.

Lemma rel0_setnd n' s s0 : core n' = core (nd s0) -> rel K0 s s0 -> rel K0 s (s0 <| nd := n' |>).
Proof.
  intros Hc H. eapply rel_trans; [exact H|]. simpl. unfold same0. split; [exact Hc | reflexivity].
Qed.

Lemma relB_upd f s s0 :
  (forall n, others (f n) = others n /\ (rinv n -> rinv (f n))) -> rel KB s s0 -> rel KB s (upd f s0).
Proof.
  intros Hf H. eapply rel_trans; [exact H|]. simpl. unfold sameB.
  destruct (Hf (nd s0)) as [Ho Hr]. split; [exact Ho | exact Hr].
Qed.

Ltac fr0 := repeat first [ fr1 | apply rel0_upd; [intro; reflexivity|] ].
Ltac frB := repeat first [ fr1 | apply relB_upd; [intro; split; [reflexivity | unfold rinv; cbn; intros; lia]|] ].

(* ---------- membership: K0 only ---------- *)
Lemma do_change_cluster_rel0 a x r s s0 :
  rel K0 s s0 -> rel K0 s (fst (do_change_cluster a x r s0)).
Proof.
  intros H. unfold do_change_cluster. cbv zeta.
  fr0; apply rel0_setnd; auto; try reflexivity.
  destruct (role (nd s0) =? LEADER); reflexivity.
Qed.

Lemma apply_membership_rel0 r es s s0 : rel K0 s s0 -> rel K0 s (apply_membership r es s0).
Proof.
  intros H. unfold apply_membership. apply fold_rel; auto.
  intros s1 en H1. destruct (membership_of (ecmd en)) as [[a x]|]; auto.
  apply do_change_cluster_rel0; auto.
Qed.

Lemma update_cluster_rel0 new s s0 : rel K0 s s0 -> rel K0 s (update_cluster new s0).
Proof.
  intros H. unfold update_cluster. cbv zeta. apply fold_rel.
  - intros s1 a H1. fr0.
  - fr0. apply fold_rel; auto. intros s1 a H1. fr0.
Qed.

Lemma change_cluster_rel0 a x s s0 : rel K0 s s0 -> rel K0 s (fst (change_cluster a x s0)).
Proof.
  intros H. unfold change_cluster. cbv zeta. fr0; apply do_change_cluster_rel0; fr0.
Qed.

Ltac fr0_h1 := first [apply do_change_cluster_rel0 | apply apply_membership_rel0
                     | apply update_cluster_rel0 | apply change_cluster_rel0].

(* ---------- load_dump ---------- *)
Lemma load_dump_rel0 e clear s s0 : rel K0 s s0 -> rel K0 s (load_dump e clear s0).
Proof.
  intros H. unfold load_dump. cbv zeta.
  repeat first [fr0_h1 | fr1 | apply rel0_upd; [intro; reflexivity|]].
Qed.

Lemma load_dump_relB e s s0 : dyn (cf e) = false -> rel KB s s0 -> rel KB s (load_dump e true s0).
Proof.
  intros Hd H. unfold load_dump. rewrite Hd. cbv zeta.
  destruct (stored (sr (nd s0))) as [[sn|]|]; auto.
  cbn [andb]. destruct (eidx (s_e1 sn) <=? applied (nd s0)) eqn:Eb.
  { eapply rel_trans; [exact H|]. simpl. unfold sameB, rinv. cbn. split; [reflexivity|]. auto. }
  apply N.leb_gt in Eb.
  destruct (self_ver (nd s0) <? s_ver sn); auto.
  eapply rel_trans; [exact H|]. cbv beta iota zeta.
  match goal with |- context [if ?b then upd (fun n => n <| log := delete_to _ _ |>) _ else _] => destruct b end;
    match goal with |- context [negb ?b] => destruct b end;
    cbn; (split; [reflexivity|]); unfold rinv; cbn; lia.
Qed.

(* ---------- apply ---------- *)
Lemma do_apply_rel0 c s s0 : rel K0 s s0 -> rel K0 s (fst (do_apply c s0)).
Proof.
  intros H. unfold do_apply.
  repeat first [fr0_h1 | fr1 | apply rel0_upd; [intro; reflexivity|]].
Qed.

Lemma do_apply_relB c s s0 : rinv (nd s) -> rel KB s s0 -> rel KB s (fst (do_apply c s0)).
Proof.
  intros R H. unfold do_apply.
  destruct (ck c =? 3); [frB|].
  destruct (membership_of c) as [[a x]|]; [|frB].
  destruct (applied (nd s0) <? replay_idx (nd s0)) eqn:E; [|frB].
  (* a membership entry takes effect only during journal replay *)
  simpl in H. unfold sameB in H. destruct H as [_ H]. specialize (H R).
  unfold rinv in H. apply N.ltb_lt in E. lia.
Qed.

Lemma apply_one_rel0 en s s0 : rel K0 s s0 -> rel K0 s (fst (apply_one en s0)).
Proof.
  intros H. unfold apply_one. cbv zeta.
  destruct (do_apply (ecmd en) _) as [s1 ar] eqn:E.
  assert (H1 : rel K0 s s1).
  { replace s1 with (fst (do_apply (ecmd en)
       (upd (fun n => n <| wait_commit := adel (eidx en) (wait_commit n) |>) s0))) by (rewrite E; reflexivity).
    apply do_apply_rel0. fr0. }
  destruct ar; cbn [fst]; auto; fr0; apply fold_rel; auto; intros s2 tc H2; fr0.
Qed.

Lemma apply_one_relB en s s0 : rinv (nd s) -> rel KB s s0 -> rel KB s (fst (apply_one en s0)).
Proof.
  intros R H. unfold apply_one. cbv zeta.
  destruct (do_apply (ecmd en) _) as [s1 ar] eqn:E.
  assert (H1 : rel KB s s1).
  { replace s1 with (fst (do_apply (ecmd en)
       (upd (fun n => n <| wait_commit := adel (eidx en) (wait_commit n) |>) s0))) by (rewrite E; reflexivity).
    apply do_apply_relB; [exact R | frB]. }
  destruct ar; cbn [fst]; auto; frB; apply fold_rel; auto; intros s2 tc H2; frB.
Qed.

Lemma apply_list_rel k es s s0 :
  (forall en s1, rel k s s1 -> rel k s (fst (apply_one en s1))) ->
  rel k s s0 -> rel k s (apply_list es s0).
Proof.
  intros Hone. revert s0. induction es as [|en r IH]; simpl; intros s0 H; auto.
  destruct (apply_one en s0) as [s1 go] eqn:E.
  assert (H1 : rel k s s1).
  { replace s1 with (fst (apply_one en s0)) by (rewrite E; reflexivity). apply Hone; auto. }
  destruct go; auto.
Qed.

Lemma apply_entries_rel0 e s s0 : rel K0 s s0 -> rel K0 s (fst (apply_entries e s0)).
Proof.
  intros H. unfold apply_entries. cbv zeta. fr0.
  apply apply_list_rel; auto. intros; apply apply_one_rel0; auto.
Qed.

Lemma apply_entries_relB e s s0 : rinv (nd s) -> rel KB s s0 -> rel KB s (fst (apply_entries e s0)).
Proof.
  intros R H. unfold apply_entries. cbv zeta. frB.
  apply apply_list_rel; auto. intros; apply apply_one_relB; auto.
Qed.

(* ---------- check_commands ---------- *)
Lemma check_one_rel0 e c cbk s s0 : rel K0 s s0 -> rel K0 s (check_one e c cbk s0).
Proof.
  intros H. unfold check_one. cbv zeta.
  destruct (role (nd s0) =? LEADER); [|fr0].
  destruct (if dyn (cf e) then membership_of c else None) as [[a x]|] eqn:Rq.
  - destruct (change_cluster a x s0) as [s1 acc] eqn:E.
    assert (H1 : rel K0 s s1).
    { replace s1 with (fst (change_cluster a x s0)) by (rewrite E; reflexivity).
      apply change_cluster_rel0; auto. }
    destruct acc; fr0.
  - fr0.
Qed.

Lemma check_one_relB e c cbk s s0 : dyn (cf e) = false -> rel KB s s0 -> rel KB s (check_one e c cbk s0).
Proof.
  intros Hd H. unfold check_one. rewrite Hd. cbv zeta. frB.
Qed.

Lemma check_loop_rel k fuel e start s s0 :
  (forall c cbk s1, rel k s s1 -> rel k s (check_one e c cbk s1)) ->
  rel k s s0 -> rel k s (check_loop fuel e start s0).
Proof.
  intros Hone. revert s0. induction fuel as [|f IH]; simpl; intros s0 H; auto.
  destruct (_ <? _)%Z; auto.
  destruct (leader (nd s0)), (wait_leader (cf e)); auto;
  destruct (queue (nd s0)) as [|[c cbk] rest]; auto;
  match goal with |- rel _ _ (if ok ?x then _ else _) =>
    assert (H1 : rel k s x) by (apply Hone; fr); destruct (ok x); auto end.
Qed.

Lemma check_commands_rel0 e s s0 : rel K0 s s0 -> rel K0 s (check_commands e s0).
Proof. intros H. unfold check_commands. apply check_loop_rel; auto. intros; apply check_one_rel0; auto. Qed.

Lemma check_commands_relB e s s0 : dyn (cf e) = false -> rel KB s s0 -> rel KB s (check_commands e s0).
Proof. intros St H. unfold check_commands. apply check_loop_rel; auto. intros; apply check_one_relB; auto. Qed.

(* ---------- tick_load ---------- *)
Lemma tick_load_rel0 e s s0 : rel K0 s s0 -> rel K0 s (tick_load e s0).
Proof. intros H. unfold tick_load. cbv zeta. fr0; apply load_dump_rel0; auto. Qed.

(* the first tick loads the dump file, if the configuration names one: nothing to load unless a dump was
   stored before the first tick (in the code the load precedes the first poll of the network) *)
Definition tickp (e : env) (x : node) : Prop :=
  need_load x && file_dump (cf e) = true -> stored (sr x) = None.

Lemma tickp_static e x : file_dump (cf e) = false -> tickp e x.
Proof. intros Hf H. rewrite Hf, andb_false_r in H. discriminate. Qed.

Lemma tick_load_relB e s s0 : tickp e (nd s0) -> rel KB s s0 -> rel KB s (tick_load e s0).
Proof.
  intros Hp H. unfold tick_load.
  destruct (need_load (nd s0) && file_dump (cf e)) eqn:E.
  - unfold load_dump. rewrite (Hp E). cbv zeta. frB.
  - cbv zeta. frB.
Qed.

(* ---------- append_entries ---------- *)
Lemma ae_regular_rel0 e from c prev new s s0 : rel K0 s s0 -> rel K0 s (ae_regular e from c prev new s0).
Proof.
  intros H. unfold ae_regular. cbv zeta.
  repeat first [fr0_h1 | fr1 | apply rel0_upd; [intro; reflexivity|]].
Qed.

Lemma ae_regular_relB e from c prev new s s0 :
  dyn (cf e) = false -> rel KB s s0 -> rel KB s (ae_regular e from c prev new s0).
Proof.
  intros Hd H. unfold ae_regular. rewrite Hd. cbv zeta. frB.
Qed.
