(* Tier C6, part 2 (L1 only): provenance of snapshot blobs.  For ANY predicate Q on snapshots: if every
   blob a node holds (stored, transmission table, incoming pieces) and the delivered message satisfy Q,
   then so does every blob the node holds after the handler and every snapshot piece it sends, the
   only new blob being the one [try_compact] serializes from the node's own state ([fresh]). *)
From Coq Require Import ZArith NArith List Bool Lia.
From RecordUpdate Require Import RecordSet.
From PSO Require Import Raft.Types Raft.Node Raft.Net Raft.ProofsCommitBase Raft.ProofsElectionBase.
From PSO Require Import Raft.ProofsCallbacks2.
Import ListNotations.
Import RecordSetNotations.
Open Scope N_scope.

Section Snaps.
Variable Q : snapshot -> Prop.

Definition bq (b : blob) : Prop := match b with Good sn => Q sn | Corrupt _ => True end.

Definition srq (z : ser) : Prop :=
  (forall b, stored z = Some b -> bq b) /\
  (forall d b off, In (d, (b, off)) (trans z) -> bq b) /\
  (forall ps b o l, incoming z = Some ps -> In (b, o, l) ps -> bq b).

Definition nsn (x : node) : Prop := srq (sr x).

Definition msn (m : msg) : Prop :=
  match m with AESnap _ _ (SData b _ _ _ _) => bq b | _ => True end.

Definition osn (os : list out) : Prop := forall d m, In (Send d m) os -> msn m.

Definition SS (s : S) : Prop := nsn (nd s) /\ osn (outs s).

(* the snapshot try_compact takes of node n *)
Definition fresh (n : node) (sn : snapshot) : Prop :=
  s_hist sn = hist n /\
  exists e0 r, get_entries (log n) (Some (applied n - 1)) (Some 2) None = e0 :: s_e1 sn :: r.

(* ---- primitives ---- *)
Lemma osn_nil : osn [].
Proof. intros d m []. Qed.

Lemma osn_app a b : osn a -> osn b -> osn (a ++ b).
Proof. intros A B d m H. apply in_app_or in H as [H|H]; eauto. Qed.

Lemma SS_eq s s' : nd s' = nd s -> outs s' = outs s -> SS s -> SS s'.
Proof. unfold SS. intros -> ->. auto. Qed.

Lemma SS_upd f s : sr (f (nd s)) = sr (nd s) -> SS s -> SS (upd f s).
Proof. unfold SS, nsn, upd. cbn. intros ->. auto. Qed.

Lemma SS_upd_srq f s : (srq (sr (nd s)) -> srq (sr (f (nd s)))) -> SS s -> SS (upd f s).
Proof. unfold SS, nsn, upd. cbn. intros H [A B]. auto. Qed.

Lemma SS_emit o s : (forall d m, o = Send d m -> msn m) -> SS s -> SS (emit o s).
Proof.
  unfold SS, emit. cbn. intros H [A B]. split; auto. apply osn_app; auto.
  intros d m [E|[]]. eauto.
Qed.

Lemma SS_send d m s : msn m -> SS s -> SS (send d m s).
Proof.
  intros H A. unfold send. destruct (smem d (tconn (nd s))); auto.
  apply SS_emit; auto. intros d' m' E. injection E as _ <-. exact H.
Qed.

Lemma SS_raise cd s : SS s -> SS (raise cd s).
Proof. auto. Qed.

Lemma SS_fire cb r er s : SS s -> SS (fire cb r er s).
Proof. intros A. destruct cb; cbn [fire]; auto. apply SS_emit; auto. intros d m [=]. Qed.

Lemma SS_call_err er cb s : SS s -> SS (call_err er cb s).
Proof.
  intros A. destruct cb; cbn [call_err]; auto.
  - apply SS_emit; auto. intros d m [=].
  - apply SS_send; auto. exact I.
Qed.

Lemma SS_set_role r s : SS s -> SS (set_role r s).
Proof.
  intros A. unfold set_role. destruct (role (nd s) =? r).
  - apply SS_upd; auto.
  - apply SS_emit; [intros d m [=]|]. apply SS_upd; auto.
Qed.

Lemma SS_send_next_idx d nx r su s : SS s -> SS (send_next_idx d nx r su s).
Proof. intros A. unfold send_next_idx. apply SS_send; auto. exact I. Qed.

Lemma SS_fold {A} (f : S -> A -> S) l s :
  (forall s x, SS s -> SS (f s x)) -> SS s -> SS (fold_left f l s).
Proof. intros H. revert s. induction l as [|x l IH]; intros s Hs; cbn; auto. Qed.

Lemma SS_andthen (f g : S -> S) s :
  (forall s, SS s -> SS (f s)) -> (forall s, SS s -> SS (g s)) -> SS s -> SS ((f ;; g) s).
Proof. intros Hf Hg Hs. rewrite andthen_eq. destruct (ok (f s)); auto. Qed.

Lemma SS_on_leader_changed s : SS s -> SS (on_leader_changed s).
Proof.
  intros A. unfold on_leader_changed. apply SS_upd; [reflexivity|].
  apply SS_fold; auto. intros s0 kv. apply SS_fire.
Qed.

Ltac ss1 :=
  match goal with
  | |- SS (upd _ _) => apply SS_upd; [reflexivity|]
  | |- SS (send _ _ _) => apply SS_send; [exact I|]
  | |- SS (emit _ _) => apply SS_emit; [intros ? ? [=]|]
  | |- SS (raise _ _) => apply SS_raise
  | |- SS (fire _ _ _ _) => apply SS_fire
  | |- SS (set_role _ _) => apply SS_set_role
  | |- SS (call_err _ _ _) => apply SS_call_err
  | |- SS (send_next_idx _ _ _ _ _) => apply SS_send_next_idx
  | |- SS (on_leader_changed _) => apply SS_on_leader_changed
  | |- SS (if ?b then _ else _) => destruct b
  | |- SS (match ?x with _ => _ end) => destruct x
  end.
Ltac ss := repeat ss1; auto.

(* ---- membership ---- *)
Lemma SS_do_change_cluster a x r s : SS s -> SS (fst (do_change_cluster a x r s)).
Proof.
  intros A. unfold do_change_cluster.
  destruct (xorb a r).
  - destruct (_ || _); cbn [fst]; auto.
    apply SS_emit; [intros ? ? [=]|].
    destruct A as [A1 A2]. split; auto. unfold nsn in *. cbn. destruct (role (nd s) =? LEADER); exact A1.
  - destruct (self_is x (nd s)); cbn [fst]; auto.
    destruct (negb _); cbn [fst]; auto.
    apply SS_emit; [intros ? ? [=]|]. destruct A as [A1 A2]. split; auto.
Qed.

Lemma SS_apply_membership r es s : SS s -> SS (apply_membership r es s).
Proof.
  intros A. unfold apply_membership. apply SS_fold; auto.
  intros s0 e H. destruct (membership_of (ecmd e)) as [[a x]|]; auto. apply SS_do_change_cluster; auto.
Qed.

Lemma SS_update_cluster new s : SS s -> SS (update_cluster new s).
Proof.
  intros A. unfold update_cluster.
  apply SS_fold.
  - intros s0 a H. ss.
  - ss. apply SS_fold; auto. intros s0 x H. ss.
Qed.

(* ---- serializer ---- *)
Lemma SS_get_transmission e x s :
  SS s -> SS (fst (get_transmission e x s)) /\
          match snd (get_transmission e x s) with SData b _ _ _ _ => bq b | SNone => True end.
Proof.
  intros A. unfold get_transmission.
  destruct (negb (pid (sr (nd s)) =? 0)); [cbn; auto|].
  set (cur := match aget x (trans (sr (nd s))) with Some t => Some t | None => _ end).
  assert (Hc : forall bl off, cur = Some (bl, off) -> bq bl).
  { intros bl off. unfold cur. destruct A as [(A1 & A2 & A3) _].
    destruct (aget x (trans (sr (nd s)))) as [[b o]|] eqn:Ea.
    - intros H. injection H as <- <-. apply aget_In in Ea. eauto.
    - destruct (stored (sr (nd s))) as [b|] eqn:Es; [|discriminate]. intros H. injection H as <- <-. eauto. }
  destruct cur as [[bl off]|]; [|cbn; auto].
  specialize (Hc bl off eq_refl). cbn [fst snd]. split; [|exact Hc].
  apply SS_upd_srq; auto. intros (A1 & A2 & A3). cbn. repeat split; auto.
  intros d b o Hin.
  destruct (N.min (chunk (cf e)) (blob_len bl - off) =? 0).
  - apply In_adel in Hin. eauto.
  - apply In_aset in Hin as [[_ E]|Hin]; [injection E as -> _; exact Hc|eauto].
Qed.

Lemma SS_cancel_transmission x s : SS s -> SS (cancel_transmission x s).
Proof.
  intros A. unfold cancel_transmission. apply SS_upd_srq; auto.
  intros (A1 & A2 & A3). cbn. repeat split; auto. intros d b o Hin. apply In_adel in Hin. eauto.
Qed.

Lemma bq_assemble ps : (forall b o l, In (b, o, l) ps -> bq b) -> bq (assemble_snap ps).
Proof.
  intros H. unfold assemble_snap. destruct ps as [|[[b o] l] r]; [exact I|].
  destruct b as [sn|k]; [|exact I]. destruct (pieces_contig sn 0 _); [|exact I].
  apply (H (Good sn) o l). left. reflexivity.
Qed.

Lemma SS_set_transmission p s :
  match p with SData b _ _ _ _ => bq b | SNone => True end -> SS s -> SS (fst (set_transmission p s)).
Proof.
  intros Hp A. unfold set_transmission. destruct p as [|b off len first last]; [cbn; auto|].
  set (inc := if first then Some [] else incoming (sr (nd s))).
  assert (Hi : forall ps b' o l, inc = Some ps -> In (b', o, l) (ps ++ [(b, off, len)]) -> bq b').
  { intros ps b' o l E Hin. apply in_app_or in Hin as [Hin|[Hin|[]]].
    - unfold inc in E. destruct first; [injection E as <-; destruct Hin|].
      destruct A as [(_ & _ & A3) _]. eauto.
    - injection Hin as <- _ _. exact Hp. }
  destruct inc as [ps|]; [|cbn; auto].
  destruct last; [destruct (snap_ahead _ _)|]; cbn [fst]; apply SS_upd_srq; auto;
    intros (A1 & A2 & A3); cbn; repeat split; auto.
  - intros b0 E. injection E as <-. apply bq_assemble. intros b' o l. apply (Hi ps b' o l eq_refl).
  - intros ps0 b0 o l E. discriminate.
  - intros ps0 b0 o l E. discriminate.
  - intros ps0 b0 o l E. injection E as <-. apply (Hi ps b0 o l eq_refl).
Qed.

Lemma SS_load_dump e cl s : SS s -> SS (load_dump e cl s).
Proof.
  intros A. unfold load_dump.
  destruct (stored (sr (nd s))) as [[sn|]|]; auto.
  destruct (cl && _); [ss|].
  destruct (self_ver (nd s) <? s_ver sn); auto.
  cbv zeta.
  match goal with |- context [update_cluster ?l ?s4] => set (s5 := s4) end.
  assert (A5 : SS s5).
  { subst s5. ss. }
  clearbody s5.
  destruct (dyn (cf e)); auto.
  destruct (cl && _); [apply SS_apply_membership|]; apply SS_update_cluster; auto.
Qed.

(* ---- __sendAppendEntries ---- *)
Lemma SS_delta_read e s : SS s -> SS (delta_read e s).
Proof. intros A. unfold delta_read. destruct (_ && _); exact A. Qed.

Lemma SS_send_pieces fuel x en prev b pos s : SS s -> SS (send_pieces fuel x en prev b pos s).
Proof.
  revert pos s. induction fuel as [|f IH]; intros pos s A; cbn [send_pieces]; auto.
  destruct (psize en <=? pos); auto. apply IH. ss.
Qed.

Lemma SS_ae_body e x next s : SS s -> SS (fst (ae_body e x next s)).
Proof.
  intros A. unfold ae_body.
  destruct (first_idx (log (nd s)) <? next).
  - destruct (next <=? last_idx (log (nd s))).
    + match goal with |- context [get_entries ?l ?a ?b ?c] => generalize (get_entries l a b c) end.
      intros es. destruct es as [|e1 [|e2 r]]; cbn [fst].
      * ss.
      * destruct (batch (cf e) <=? csz (ecmd e1)); cbn [fst].
        -- apply SS_send_pieces. ss.
        -- ss.
      * ss.
    + cbn [fst]. ss.
  - destruct (SS_get_transmission e x s A) as [A1 Hb].
    destruct (get_transmission e x s) as [s1 td]. cbn [fst snd] in *.
    assert (A2 : SS (send x (AESnap (term (nd s)) (commit (nd s)) td) s1)).
    { apply SS_send; auto. }
    destruct td as [|bl off len first last]; [exact A2|].
    destruct last; [|exact A2].
    match goal with |- context [log (nd ?X)] => destruct (log (nd X)) as [|a0 [|a1 r]] end; cbn [fst]; ss.
Qed.

Lemma SS_ae_loop fuel e start x single ser_ s : SS s -> SS (ae_loop fuel e start x single ser_ s).
Proof.
  revert s single ser_. induction fuel as [|f IH]; intros s single ser_ A; cbn [ae_loop]; [ss|].
  destruct (aget x (next_idx (nd s))) as [next|]; [|ss].
  destruct (_ || _); auto.
  pose proof (SS_ae_body e x next s A) as B.
  destruct (ae_body e x next s) as [s1 ser']. cbn [fst] in B.
  destruct (ok s1); auto.
  pose proof (SS_delta_read e s1 B) as B2.
  destruct (_ <? _)%Z; auto.
Qed.

Lemma SS_send_ae e s : SS s -> SS (send_ae e s).
Proof.
  intros A. unfold send_ae. apply SS_fold.
  - intros s0 x H. destruct (ok s0); auto. destruct (negb _).
    + apply SS_cancel_transmission; auto.
    + apply SS_ae_loop; auto.
  - apply SS_upd; [reflexivity|]. exact A.
Qed.

Lemma srq_bl_fold now l n :
  srq (sr n) ->
  srq (sr (fold_left (fun n x => n <| next_idx := aset x (last_idx (log n) + 1) (next_idx n) |>
                                 <| match_idx := aset x 0 (match_idx n) |>
                                 <| last_resp := aset x now (last_resp n) |>
                                 <| sr := (sr n) <| trans := adel x (trans (sr n)) |> |>) l n)).
Proof.
  revert n. induction l as [|x l IH]; intros n H; cbn [fold_left]; auto.
  apply IH. destruct H as (A1 & A2 & A3). cbn. repeat split; auto.
  intros d b o Hin. apply In_adel in Hin. eauto.
Qed.

Lemma SS_become_leader e s : SS s -> SS (become_leader e s).
Proof.
  intros A. unfold become_leader.
  apply SS_andthen.
  - intros s0 H. destruct (use_batch (cf e)); auto. apply SS_send_ae; auto.
  - intros s0 H. apply SS_send_ae; auto.
  - apply SS_upd; [reflexivity|].
    apply SS_upd_srq; [intros H; apply srq_bl_fold; exact H|].
    ss.
Qed.

(* ---- the apply loop ---- *)
Lemma SS_do_apply cm s : SS s -> SS (fst (do_apply cm s)).
Proof.
  intros A. unfold do_apply. destruct (ck cm =? 3).
  - destruct (_ <? _); cbn [fst]; ss.
  - destruct (membership_of cm) as [[a x]|].
    + destruct (_ <? _); cbn [fst]; auto. apply SS_do_change_cluster; auto.
    + destruct (ck cm =? 0); cbn [fst]; auto. destruct (cb cm =? 1); cbn [fst]; ss.
Qed.

Lemma SS_apply_one en s : SS s -> SS (fst (apply_one en s)).
Proof.
  intros A. unfold apply_one.
  set (s0 := upd _ s). assert (A0 : SS s0) by (subst s0; ss).
  pose proof (SS_do_apply (ecmd en) s0 A0) as B.
  destruct (do_apply (ecmd en) s0) as [s1 ar]. cbn [fst] in B.
  destruct ar; cbn [fst]; auto; apply SS_upd; try reflexivity; apply SS_fold; auto;
    intros s2 tc H; destruct (_ =? _); apply SS_fire; auto.
Qed.

Lemma SS_apply_list es s : SS s -> SS (apply_list es s).
Proof.
  revert s. induction es as [|en es IH]; intros s A; cbn [apply_list]; auto.
  pose proof (SS_apply_one en s A) as B. destruct (apply_one en s) as [s1 go]. cbn [fst] in B.
  destruct go; auto.
Qed.

Lemma SS_apply_entries e s : SS s -> SS (fst (apply_entries e s)).
Proof.
  intros A. unfold apply_entries. destruct (_ <? _); cbn [fst]; auto. apply SS_apply_list; auto.
Qed.

(* ---- the command queue ---- *)
Lemma SS_submit e cm cbk s : SS s -> SS (submit e cm cbk s).
Proof. intros A. unfold submit. ss. Qed.

Lemma SS_change_cluster a x s : SS s -> SS (fst (change_cluster a x s)).
Proof.
  intros A. unfold change_cluster. destruct (negb _); cbn [fst]; auto.
  set (s1 := match change_idx (nd s) with Some ci => _ | None => s end).
  assert (A1 : SS s1) by (subst s1; ss).
  clearbody s1. destruct (change_idx (nd s1)); cbn [fst]; auto. apply SS_do_change_cluster; auto.
Qed.

Lemma SS_check_one e cm cbk s : SS s -> SS (check_one e cm cbk s).
Proof.
  intros A. unfold check_one.
  destruct (role (nd s) =? LEADER).
  - set (req := if dyn (cf e) then membership_of cm else None).
    assert (B : SS (fst (match req with None => (s, true) | Some (a, x) => change_cluster a x s end))).
    { destruct req as [[a x]|]; cbn [fst]; auto. apply SS_change_cluster; auto. }
    destruct (match req with None => (s, true) | Some (a, x) => change_cluster a x s end) as [s1 acc].
    cbn [fst] in B. destruct acc.
    + match goal with |- SS (if use_batch (cf e) then ?X else _) => assert (C : SS X) end.
      { destruct cbk; destruct req; ss. }
      destruct (use_batch (cf e)); auto. apply SS_send_ae; auto.
    + destruct cbk; ss.
  - destruct (leader (nd s)).
    + destruct cbk; ss.
    + ss.
Qed.

Lemma SS_check_loop fuel e start s : SS s -> SS (check_loop fuel e start s).
Proof.
  revert s. induction fuel as [|f IH]; intros s A; cbn [check_loop]; auto.
  destruct (_ <? _)%Z; auto.
  assert (G : SS (match queue (nd s) with
                  | [] => s
                  | (cm, cbk) :: rest =>
                    let s0 := upd (fun n => n <| queue := rest |>) s in
                    let s1 := check_one e cm cbk s0 in if ok s1 then check_loop f e start s1 else s1 end)).
  { destruct (queue (nd s)) as [|[cm cbk] rest]; auto. cbv zeta.
    assert (B : SS (check_one e cm cbk (upd (fun n => n <| queue := rest |>) s))).
    { apply SS_check_one. ss. }
    destruct (ok _); auto. }
  destruct (leader (nd s)); auto. destruct (wait_leader (cf e)); auto.
Qed.

Lemma SS_check_commands e s : SS s -> SS (check_commands e s).
Proof. intros A. unfold check_commands. apply SS_check_loop; auto. Qed.

(* ---- log compaction ---- *)
Lemma SS_try_compact e s :
  SS s -> (forall sn, fresh (nd (try_compact e s)) sn -> Q sn) -> SS (try_compact e s).
Proof.
  intros A. unfold try_compact. cbv zeta.
  destruct (pid (sr (nd s)) =? 0) eqn:Ep.
  - cbn [negb]. replace (pid (sr (nd s)) =? 1) with false
      by (apply N.eqb_eq in Ep; rewrite Ep; reflexivity).
    destruct (_ && _); [auto|].
    destruct (get_entries (log (nd s)) (Some (applied (nd s) - 1)) (Some 2) None) as [|e0 [|e1 r]] eqn:Ege.
    + intros _. ss.
    + intros _. ss.
    + destruct (opt_eqb _ _); [intros _; ss|].
      intros Hf. apply SS_upd_srq.
      * intros (A1 & A2 & A3). cbn. repeat split; auto.
        intros b E. injection E as <-. cbn [bq]. apply Hf. split; [reflexivity|].
        cbn. exists e0, r. exact Ege.
      * ss.
  - cbn [negb]. intros _.
    set (s1 := upd (fun n => n <| sr := (sr n) <| pid := 0 |> <| trans := [] |> |>) s).
    assert (A1 : SS s1).
    { subst s1. apply SS_upd_srq; auto. intros (B1 & B2 & B3). cbn. repeat split; auto. intros d b o []. }
    destruct (pid (sr (nd s)) =? 1); ss.
Qed.

(* ---- the tick ---- *)
Lemma SS_tick_load e s : SS s -> SS (tick_load e s).
Proof.
  intros A. unfold tick_load. apply SS_upd; [reflexivity|].
  destruct (_ && _); auto. apply SS_load_dump; auto.
Qed.

Lemma SS_tick_timer e s : SS s -> SS (tick_timer e s).
Proof. intros A. unfold tick_timer. ss. Qed.

Lemma SS_tick_election e s : SS s -> SS (tick_election e s).
Proof.
  intros A. unfold tick_election.
  destruct (self (nd s)) as [me|]; auto.
  destruct (_ && _); auto.
  match goal with |- context [on_leader_changed ?X] => assert (B : SS (on_leader_changed X)) end.
  { apply SS_on_leader_changed. apply SS_fold.
    - intros s0 x H. ss.
    - ss. }
  destruct (majority _ _); auto. apply SS_become_leader; auto.
Qed.

Lemma SS_commit_loop fuel ci next s : SS s -> SS (fst (commit_loop fuel ci next s)).
Proof.
  revert ci next s. induction fuel as [|f IH]; intros ci next s A; cbn [commit_loop fst]; auto.
  destruct (ci <? last_idx (log (nd s))); cbn [fst]; auto.
  destruct (existsb _ _); cbn [fst]; [ss|].
  destruct (negb _); cbn [fst]; auto.
  destruct (get_entries _ _ _ _) as [|en r]; auto.
  destruct (eterm en =? term (nd s)); auto.
Qed.

Lemma SS_tick_leader e s : SS s -> SS (tick_leader e s).
Proof.
  intros A. unfold tick_leader.
  destruct (role (nd s) =? LEADER); auto.
  pose proof (SS_commit_loop (Datatypes.S (N.to_nat (last_idx (log (nd s)) - commit (nd s))))
                (commit (nd s)) (commit (nd s)) s A) as B.
  destruct (commit_loop _ (commit (nd s)) (commit (nd s)) s) as [s1 nc]. cbn [fst] in B.
  destruct (ok s1); auto.
  set (s2 := if commit (nd s1) =? nc then s1 else upd (fun n => set_commit_meta (n <| commit := nc |>)) s1).
  assert (B2 : SS s2) by (subst s2; ss).
  clearbody s2.
  set (s3 := upd (fun n => n <| leader_commit := Some (commit n) |>) s2).
  assert (B3 : SS s3) by (subst s3; ss).
  clearbody s3.
  destruct (existsb _ _); [ss|].
  destruct (negb _); auto. ss.
Qed.

Lemma SS_tick_send e need s : SS s -> SS (tick_send e need s).
Proof.
  intros A. unfold tick_send. destruct (role (nd s) =? LEADER); auto.
  destruct (_ || need); auto. apply SS_send_ae; auto.
Qed.

Lemma SS_tick_ready s : SS s -> SS (tick_ready s).
Proof. intros A. unfold tick_ready. ss. Qed.

Lemma SS_tick_pre e s : SS s -> SS (tick_pre e s).
Proof.
  intros A. unfold tick_pre.
  apply SS_andthen; auto using SS_tick_load. intros s1 A1.
  apply SS_andthen; auto using SS_tick_timer. intros s2 A2.
  apply SS_andthen; auto using SS_tick_election, SS_tick_leader.
Qed.

Theorem SS_on_tick e n :
  nsn n -> (forall sn, fresh (nd (on_tick e n)) sn -> Q sn) -> SS (on_tick e n).
Proof.
  intros A. rewrite on_tick_split. cbv zeta.
  assert (A0 : SS (tick_pre e (start_S e n))).
  { apply SS_tick_pre. split; [exact A|apply osn_nil]. }
  destruct (ok (tick_pre e (start_S e n))); [|auto].
  pose proof (SS_apply_entries e _ A0) as A1.
  destruct (ok (fst (apply_entries e (tick_pre e (start_S e n))))); [|auto].
  generalize dependent (fst (apply_entries e (tick_pre e (start_S e n)))).
  generalize (snd (apply_entries e (tick_pre e (start_S e n)))).
  intros need s1 A1. unfold tick_post. rewrite !andthen_eq.
  pose proof (SS_tick_send e need s1 A1) as B1.
  destruct (ok (tick_send e need s1)); [|auto].
  pose proof (SS_tick_ready _ B1) as B2.
  destruct (ok (tick_ready (tick_send e need s1))); [|auto].
  pose proof (SS_check_commands e _ B2) as B3.
  destruct (ok (check_commands e (tick_ready (tick_send e need s1)))); [|auto].
  apply SS_try_compact. exact B3.
Qed.

(* ---- messages ---- *)
Lemma SS_ae_commit cm v s : SS s -> SS (ae_commit cm v s).
Proof. intros A. unfold ae_commit. apply SS_upd; [reflexivity|]. destruct v; ss. Qed.

Lemma SS_ae_regular e from cm prev new s : SS s -> SS (ae_regular e from cm prev new s).
Proof.
  intros A. unfold ae_regular.
  destruct (get_entries _ _ _ _) as [|p0 ptail]; [ss|].
  destruct prev as [[pidx pterm]|]; [|ss].
  destruct (negb _); [ss|].
  apply SS_ae_commit. apply SS_send_next_idx.
  match goal with |- SS (if dyn (cf e) then apply_membership false ?a ?s0 else ?s0) =>
    assert (B : SS s0); [|destruct (dyn (cf e)); auto; apply SS_apply_membership; auto] end.
  apply SS_upd; [reflexivity|].
  destruct (skipn _ ptail); auto. destruct (skipn _ new); auto.
  apply SS_upd; [reflexivity|]. destruct (dyn (cf e)); auto. apply SS_apply_membership; auto.
Qed.

Lemma SS_ae_pre e from t cm s : SS s -> SS (ae_pre e from t cm s).
Proof. intros A. unfold ae_pre. cbv zeta. ss. Qed.

Lemma SS_on_append_entries e from m t cm s :
  msn m -> SS s -> SS (on_append_entries e from m t cm s).
Proof.
  intros Hm A. rewrite on_append_entries_eq. destruct (_ <? _); auto.
  pose proof (SS_ae_pre e from t cm s A) as B. generalize dependent (ae_pre e from t cm s). intros s1 B.
  unfold ae_body_of.
  destruct m as [| |tt cc prev es|tt cc prev lab off len en|tt cc p| | |]; auto.
  - apply SS_ae_regular; auto.
  - destruct (lab =? 1); [ss|].
    destruct (recv_t (nd s1)); [ss|].
    match goal with |- context [upd ?f s1] => set (s2 := upd f s1) end.
    assert (B2 : SS s2) by (subst s2; ss). clearbody s2.
    destruct (lab =? 2); [ss|].
    destruct (assemble_entry _); [|ss]. apply SS_ae_regular. ss.
  - assert (Hp : match p with SData b _ _ _ _ => bq b | SNone => True end) by (destruct p; exact Hm).
    pose proof (SS_set_transmission p s1 Hp B) as C.
    destruct (set_transmission p s1) as [s2 done]. cbn [fst] in C.
    destruct (done && load_dump_ok s2); [|destruct done].
    + apply SS_ae_commit. apply SS_send_next_idx. apply SS_load_dump; auto.
    + apply SS_ae_commit. apply SS_load_dump; auto.
    + apply SS_ae_commit; auto.
Qed.

Theorem SS_on_message e from m n : nsn n -> msn m -> SS (on_message e from m n).
Proof.
  intros A Hm.
  assert (A0 : SS (start_S e n)) by (split; [exact A|apply osn_nil]).
  unfold on_message.
  destruct m as [t lli llt|t|t cm prev es|t cm prev lab off len en|t cm p|cm req|req okr a b|t next reset success].
  - destruct (self (nd (start_S e n))); auto.
    match goal with |- context [if term (nd (start_S e n)) <? t then ?X else ?Y] =>
      set (s1 := if term (nd (start_S e n)) <? t then X else Y) end.
    assert (A1 : SS s1) by (subst s1; ss). clearbody s1.
    destruct (_ || _); auto. destruct (_ <=? _); auto. destruct (_ <? _); auto.
    destruct (_ && _); auto. destruct (voted (nd s1)); auto. ss.
  - destruct (_ && _); auto.
    match goal with |- context [majority _ (nd ?X)] => assert (B : SS X) by ss end.
    destruct (majority _ _); auto. apply SS_become_leader; auto.
  - apply SS_on_append_entries; auto.
  - apply SS_on_append_entries; auto.
  - apply SS_on_append_entries; auto.
  - apply SS_submit; auto.
  - destruct (aget req (wait_reply (nd (start_S e n)))); auto.
    destruct (negb okr); [ss|]. destruct (_ <=? _); ss.
  - destruct (_ && _); auto.
    match goal with |- context [ok ?X] => assert (B : SS X) end.
    { destruct reset, success; ss. }
    destruct (ok _); ss.
Qed.

(* ---- the other events ---- *)
Lemma nsn_on_connected x n : nsn n -> nsn (on_connected x n).
Proof. unfold on_connected. destruct (RO_BASE <=? x); auto. Qed.

Lemma nsn_on_disconnected x n : nsn n -> nsn (on_disconnected x n).
Proof.
  unfold on_disconnected, nsn. intros (A1 & A2 & A3).
  destruct (RO_BASE <=? x); cbn; repeat split; auto; intros d b o Hin; apply In_adel in Hin; eauto.
Qed.

Lemma SS_idle n : nsn n -> SS (idle_S n).
Proof. intros A. split; [exact A|apply osn_nil]. Qed.

Lemma SS_api_submit e cm cbk n : nsn n -> SS (api_submit e cm cbk n).
Proof. intros A. unfold api_submit. apply SS_submit. split; [exact A|apply osn_nil]. Qed.

Lemma SS_api_admin e cm cbk n : nsn n -> SS (api_admin e cm cbk n).
Proof.
  intros A. unfold api_admin. assert (A0 : SS (start_S e n)) by (split; [exact A|apply osn_nil]).
  destruct (dyn (cf e)); [apply SS_submit|]; auto.
Qed.

Lemma SS_api_setver e cm cbk n : nsn n -> SS (api_setver e cm cbk n).
Proof.
  intros A. unfold api_setver. assert (A0 : SS (start_S e n)) by (split; [exact A|apply osn_nil]).
  destruct (_ || _); [|apply SS_submit]; auto.
Qed.

Lemma nsn_api_compact n : nsn n -> nsn (api_compact n).
Proof. auto. Qed.

End Snaps.

(* monotonicity in the predicate *)
Lemma srq_impl (P Q : snapshot -> Prop) z : (forall sn, P sn -> Q sn) -> srq P z -> srq Q z.
Proof.
  intros H (A1 & A2 & A3).
  assert (Hb : forall b, bq P b -> bq Q b) by (intros [sn|k]; cbn; auto).
  repeat split; eauto.
Qed.

Lemma msn_impl (P Q : snapshot -> Prop) m : (forall sn, P sn -> Q sn) -> msn P m -> msn Q m.
Proof.
  intros H. destruct m as [| | | |t cm [|[sn|k] off len f l]| | |]; cbn; auto.
Qed.
