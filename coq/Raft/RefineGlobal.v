(* Tier C, part 9: from the local simulations to the global relation: channels, routing of the
   outputs of a step, the ghost link with the election worker's history. *)
From Coq Require Import ZArith NArith List Bool Lia ZifyBool Arith PeanoNat.
From RecordUpdate Require Import RecordSet.
From PSO Require Import Raft.Types Raft.Node Raft.Net Raft.Obs Raft.ProofsCommitBase.
From PSO Require Import Raft.ProofsElectionBase Raft.ProofsElectionFrame Raft.ProofsElectionStep
  Raft.ProofsElectionGhost Raft.ProofsElectionInv Raft.ProofsElectionMain.
From PSO Require Import Raft.RefineAbs Raft.RefineK Raft.RefineSpecA Raft.RefineSim.
From PSO Require Abstract.Model Abstract.Lib Abstract.Kstep Abstract.Safety1_WF Abstract.Safety2_Election.
Import ListNotations.
Import RecordSetNotations.
Open Scope N_scope.

(* ------------------------------------------------------------------------------------------ *)
(* channels                                                                                   *)

Lemma find_filter_same {A} (p f : A -> bool) l :
  (forall x, p x = true -> f x = true) -> find p (filter f l) = find p l.
Proof.
  intros H. induction l as [|a l IH]; cbn; auto.
  destruct (f a) eqn:Ef; cbn.
  - destruct (p a); auto.
  - destruct (p a) eqn:Ep; auto. rewrite (H a Ep) in Ef. discriminate.
Qed.

Lemma find_filter_none {A} (p f : A -> bool) l :
  (forall x, p x = true -> f x = false) -> find p (filter f l) = None.
Proof.
  intros H. induction l as [|a l IH]; cbn; auto.
  destruct (f a) eqn:Ef; cbn; auto.
  destruct (p a) eqn:Ep; auto. rewrite (H a Ep) in Ef. discriminate.
Qed.

Lemma chan_get_set a b a' b' q g :
  chan_get a b (chan_set a' b' q g) = if (a =? a') && (b =? b') then q else chan_get a b g.
Proof.
  unfold chan_get, chan_set. cbn [chan set]. cbn [find fst snd].
  destruct ((a' =? a) && (b' =? b)) eqn:E.
  - apply andb_true_iff in E as [E1 E2]. apply N.eqb_eq in E1, E2. subst. rewrite !N.eqb_refl. reflexivity.
  - assert (E' : (a =? a') && (b =? b') = false).
    { rewrite (N.eqb_sym a a'), (N.eqb_sym b b'). exact E. }
    rewrite E'. rewrite find_filter_same; auto.
    intros [[x y] z] Hp. cbn in *. apply andb_true_iff in Hp as [H1 H2]. apply N.eqb_eq in H1, H2. subst.
    rewrite E'. reflexivity.
Qed.

Lemma chan_get_filter_key (f : nid * nid * list msg -> bool) a b g m :
  (forall x y, fst (fst x) = fst (fst y) -> snd (fst x) = snd (fst y) -> f x = f y) ->
  In m (chan_get a b (g <| chan := filter f (chan g) |>)) -> In m (chan_get a b g).
Proof.
  intros Hk. unfold chan_get. cbn [chan set].
  set (p := fun c0 : nid * nid * list msg => (fst (fst c0) =? a) && (snd (fst c0) =? b)).
  destruct (f (a, b, [])) eqn:Ef.
  - rewrite find_filter_same; auto.
    intros x Hp. unfold p in Hp. apply andb_true_iff in Hp as [H1 H2]. apply N.eqb_eq in H1, H2.
    rewrite (Hk x (a, b, [])); auto.
  - rewrite find_filter_none; [intros []|].
    intros x Hp. unfold p in Hp. apply andb_true_iff in Hp as [H1 H2]. apply N.eqb_eq in H1, H2.
    rewrite (Hk x (a, b, [])); auto.
Qed.

Lemma chan_get_kill n a b g m :
  In m (chan_get a b (g <| chan := filter (fun c0 => negb ((fst (fst c0) =? n) || (snd (fst c0) =? n))) (chan g) |>)) ->
  In m (chan_get a b g).
Proof.
  intros H.
  eapply (chan_get_filter_key (fun c0 => negb ((fst (fst c0) =? n) || (snd (fst c0) =? n)))); [|exact H].
  intros x y H1 H2. cbv beta. rewrite H1, H2. reflexivity.
Qed.

Lemma route_chan n os : forall g a b m,
  In m (chan_get a b (route n os g)) -> In m (chan_get a b g) \/ (a = n /\ In (Send b m) os).
Proof.
  unfold route. induction os as [|o os IH]; intros g a b m H; cbn [fold_left] in H; auto.
  destruct o as [d m'| | | |x].
  - apply IH in H as [H|[H1 H2]]; [|right; split; auto; right; auto].
    rewrite chan_get_set in H. destruct ((a =? n) && (b =? d)) eqn:E; auto.
    apply andb_true_iff in E as [E1 E2]. apply N.eqb_eq in E1, E2. subst.
    apply in_app_or in H as [H|[H|[]]]; auto. subst. right. split; auto. left. reflexivity.
  - apply IH in H as [H|[H1 H2]]; auto. right; split; auto; right; auto.
  - apply IH in H as [H|[H1 H2]]; auto. right; split; auto; right; auto.
  - apply IH in H as [H|[H1 H2]]; auto. right; split; auto; right; auto.
  - apply IH in H as [H|[H1 H2]]; [|right; split; auto; right; auto].
    rewrite chan_get_set in H. destruct ((a =? x) && (b =? n)); auto. destruct H.
Qed.

Lemma chan_get_put_node n x g a b : chan_get a b (put_node n x g) = chan_get a b g.
Proof. reflexivity. Qed.

Lemma finish_chan n S g a b m :
  In m (chan_get a b (finish n S g)) -> In m (chan_get a b g) \/ (a = n /\ In (Send b m) (outs S)).
Proof. unfold finish. intros H. apply route_chan in H. exact H. Qed.

Lemma in_chan_inflight g a b t :
  In (ResponseVote t) (chan_get a b g) -> (1 <= inflight g t b)%nat.
Proof.
  unfold chan_get, inflight.
  match goal with |- context [find ?p (chan g)] => destruct (find p (chan g)) as [ch|] eqn:F end; [|intros []].
  intros Hin. apply find_some in F as [F1 F2].
  apply andb_true_iff in F2 as [_ F2]. apply N.eqb_eq in F2.
  assert (Hc : (1 <= contrib t b ch)%nat).
  { unfold contrib.
    match goal with |- context [if ?cc then _ else _] =>
      assert (Ec : cc = true) by (apply N.eqb_eq; exact F2); rewrite Ec end.
    unfold cnt.
    assert (Hf : In (ResponseVote t) (filter (is_rv t) (snd ch))).
    { apply filter_In. split; auto. cbn. apply N.eqb_refl. }
    assert (Hl : forall l : list msg, In (ResponseVote t) l -> (1 <= length l)%nat).
    { intros [|? ?] H; [destruct H|cbn; lia]. }
    exact (Hl _ Hf). }
  clear Hin. induction (chan g) as [|h l IH]; [destruct F1|].
  rewrite map_cons, list_sum_cons. destruct F1 as [->|F1]; [lia|]. specialize (IH F1). lia.
Qed.

(* pigeonhole *)
Lemma pigeon (A : list nid) (B : list nat) :
  NoDup A -> (length B < length A)%nat -> exists a, In a A /\ ~ In (n2 a) B.
Proof.
  revert B. induction A as [|a A IH]; intros B ND Hl; [cbn in Hl; lia|].
  inversion ND as [|? ? Hna ND']; subst.
  destruct (in_dec Nat.eq_dec (n2 a) B) as [Hin|Hnin]; [|exists a; split; [left|]; auto].
  apply in_split in Hin as (B1 & B2 & ->).
  destruct (IH (B1 ++ B2) ND') as (x & Hx & Hnx).
  { rewrite app_length in *. cbn in Hl. lia. }
  exists x. split; [right; auto|]. intros H. apply in_app_or in H as [H|[H|H]].
  - apply Hnx. apply in_or_app. auto.
  - assert (x = a) by lia. subst. contradiction.
  - apply Hnx. apply in_or_app. auto.
Qed.

Section Global.
Variable c : conf.
Variable V : list nid.
Hypothesis NDV : NoDup V.
Hypothesis VRO : forall v, In v V -> v < RO_BASE.

Notation V' := (absV V).
Notation Rn := (Rn c V).
Notation Rmsg := (Rmsg c).
Notation Ro := (Ro c).
Notation Hn := (Hn c).
Notation R := (R c V).
Notation ksn := (ksn V).
Notation LS := (LS c V).

(* every running node is a voter (first version of the fragment: no read-only nodes) *)
Definition all_voters (g : gstate) : Prop := forall v x, aget v (nodes g) = Some x -> v < RO_BASE.

(* LS for a running voter at the start of a handler *)
Lemma LS_start g gh st s e n x :
  Inv V g gh st -> KS.kreachable V' s -> R g gh st s -> aget n (nodes g) = Some x -> n < RO_BASE ->
  LS n s (start_S e x) /\ In n st.
Proof.
  intros I HR RR Hx Hlt.
  destruct (I_node _ _ _ _ I n x Hx) as (_ & Hv & _). destruct (Hv Hlt) as (A & B & C & D).
  split; auto. constructor; auto.
  - apply (R_node _ _ _ _ _ _ RR n x Hx Hlt).
  - apply Ro_nil.
  - apply (R_hyg _ _ _ _ _ _ RR n x Hx).
Qed.

(* the candidate can count one more vote: a granter it has not counted yet *)
Lemma uncounted_granter g gh st s a b x t :
  Inv V g gh st -> KS.kreachable V' s -> R g gh st s -> aget b (nodes g) = Some x -> b < RO_BASE ->
  In (ResponseVote t) (chan_get a b g) -> role x = CANDIDATE -> t = term x ->
  exists v, ~ In v (M.votesFrom (M.nodes s (n2 b))) /\ In (M.Vote (n2 t) v (n2 b)) (M.net s).
Proof.
  intros I HR RR Hx Hlt Hin Hr Ht.
  pose proof (I_cnt _ _ _ _ I t b) as Hc.
  pose proof (in_chan_inflight g a b t Hin) as Hi.
  unfold counted in Hc. rewrite Hx in Hc. rewrite <- Ht, N.eqb_refl, Hr in Hc. cbn in Hc.
  rewrite <- voters_length in Hc.
  pose proof (R_node _ _ _ _ _ _ RR b x Hx Hlt) as RN.
  destruct (Rn_votes _ _ _ _ _ RN Hr) as [Hlen Hself].
  destruct (pigeon (voters gh t b) (M.votesFrom (M.nodes s (n2 b)))) as (v & Hv & Hnv).
  - apply voters_NoDup. apply (I_key _ _ _ _ I).
  - lia.
  - exists (n2 v). split; auto. apply voters_In in Hv.
    destruct (R_gh _ _ _ _ _ _ RR t v b Hv) as [_ Hvote]. apply Hvote.
    intros ->. contradiction.
Qed.

(* the global relation after a step of voter n whose handler was simulated *)
Lemma R_finish g g0 gh gh' st s s' n x (S : Node.S) :
  Inv V g gh st -> R g gh st s -> KS.kreachable V' s' ->
  aget n (nodes g) = Some x -> n < RO_BASE -> In n st ->
  nodes g0 = nodes g -> (forall a b m, In m (chan_get a b g0) -> In m (chan_get a b g)) ->
  ksn (n2 n) s s' -> LS n s' S ->
  (forall t v cd, In (t, v, cd) (grants gh') ->
     In (t, v, cd) (grants gh) \/ (v = n /\ In (Send cd (ResponseVote t)) (outs S)) \/
     (v = n /\ cd = n /\ t = term (nd S) /\ voted (nd S) = Some n)) ->
  R (finish n S g0) gh' st s'.
Proof.
  intros I RR HR' Hx Hlt Hst En Hch K L Hgh.
  pose proof (ksn_ext _ _ _ _ K) as E.
  destruct (finish_nodes n S g0) as [Nf _]. rewrite En in Nf.
  constructor.
  - intros v y Hy Hv. rewrite Nf, ProofsElectionBase.aget_aset in Hy.
    destruct (v =? n) eqn:Ev.
    + apply N.eqb_eq in Ev. subst v. injection Hy as <-. apply (LS_n _ _ _ _ _ L).
    + apply N.eqb_neq in Ev. eapply Rn_ext; [exact E|lia|]. apply (R_node _ _ _ _ _ _ RR v y Hy Hv).
  - intros v Hv Hnst. rewrite (ext_nodes _ _ _ E).
    + apply (R_init _ _ _ _ _ _ RR v Hv Hnst).
    + intros Heq. assert (v = n) by lia. subst. contradiction.
  - intros a b m Hm. apply finish_chan in Hm as [Hm|[-> Hm]].
    + eapply Rmsg_ext; [exact E|]. apply (R_msg _ _ _ _ _ _ RR a b m). auto.
    + apply (LS_o _ _ _ _ _ L b m Hm).
  - intros t v cd Hin. apply Hgh in Hin as [Hin|[[-> Hin]|(-> & -> & -> & Hvd)]].
    + destruct (R_gh _ _ _ _ _ _ RR t v cd Hin) as [A B]. split.
      * apply (ext_grants _ _ _ E). exact A.
      * intros Hne. apply (ext_net _ _ _ E). auto.
    + destruct (LS_o _ _ _ _ _ L cd (ResponseVote t) Hin) as [_ Hvote].
      split; [|intros _; exact Hvote].
      apply (S2.I2_vote _ _ (S2.inv2_kreachable V' s' HR')). exact Hvote.
    + split; [|intros Hne; contradiction].
      apply (Rn_self _ _ _ _ _ (LS_n _ _ _ _ _ L) Hvd).
  - intros v y Hy. rewrite Nf, ProofsElectionBase.aget_aset in Hy.
    destruct (v =? n) eqn:Ev.
    + injection Hy as <-. apply (LS_h _ _ _ _ _ L).
    + apply (R_hyg _ _ _ _ _ _ RR v y Hy).
Qed.

(* the global relation when only L1 bookkeeping changed: same abstract state *)
Lemma R_shrink g g' gh st st' s :
  R g gh st s ->
  (forall v y, aget v (nodes g') = Some y -> v < RO_BASE -> Rn v y s) ->
  (forall v y, aget v (nodes g') = Some y -> Hn y) ->
  (forall a b m, In m (chan_get a b g') -> In m (chan_get a b g)) ->
  incl st st' -> R g' gh st' s.
Proof.
  intros RR Hn1 Hh Hch Hst. constructor; auto.
  - intros v Hv Hnst. apply (R_init _ _ _ _ _ _ RR v Hv). intros H. apply Hnst. apply Hst. exact H.
  - intros a b m Hm. apply (R_msg _ _ _ _ _ _ RR a b m). auto.
  - apply (R_gh _ _ _ _ _ _ RR).
Qed.

End Global.
