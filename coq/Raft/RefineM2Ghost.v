(* Tier CM2, part 10a: the ghost flag "voter n is a member of the configuration defined by its own full
   log up to its applied index".  The run-level checks [tg_ok2] (AbstractM's tguard) and [snap_ok] (a voter
   starts a snapshot of position p only if it is a member at p: the negation of the trigger of KF-C10-3,
   see RefineM2Finding.v) are stated with this flag; here: how the flag follows the log. *)
From Coq Require Import ZArith NArith List Bool Lia ZifyBool Arith PeanoNat.
From RecordUpdate Require Import RecordSet.
From PSO Require Import Raft.Types Raft.Node Raft.Net Raft.ProofsCommitBase.
From PSO Require Import Raft.ProofsElectionBase Raft.ProofsMembership Raft.ProofsMembershipInv.
From PSO Require Import Raft.RefineMAbs Raft.RefineMEff Raft.RefineMCfg Raft.RefineMK Raft.RefineMSpecA.
From PSO Require Import Raft.RefineM2Abs Raft.RefineM2SpecA Raft.RefineM2Sim.
From PSO Require AbstractM.Model AbstractM.Lib AbstractM.Kstep AbstractM.Cfg.
Import ListNotations.
Import RecordSetNotations.
Open Scope N_scope.
#[local] Arguments firstn : simpl nomatch.
#[local] Arguments skipn : simpl nomatch.

(* membership of n after the entries es, starting from membership m: the last entry naming n decides *)
Definition foldm (n : nid) (es : list entry) (m : bool) : bool :=
  fold_left (fun b e => match membership_of (ecmd e) with
                        | Some (a, y) => if y =? n then a else b
                        | None => b end) es m.

Lemma mem_gapp pk v o cm :
  M.mem (n2 v) (M.gapp o (enc pk cm)) =
  match membership_of cm with Some (a, y) => if y =? v then a else M.mem (n2 v) o | None => M.mem (n2 v) o end.
Proof.
  unfold enc. destruct (membership_of cm) as [[[|] y]|]; cbn [M.gapp]; [| |reflexivity].
  - destruct (N.eqb_spec y v) as [->|Ne].
    + destruct (M.mem (n2 v) o) eqn:E; [exact E|]. cbn. rewrite Nat.eqb_refl. reflexivity.
    + destruct (M.mem (n2 y) o); [reflexivity|]. cbn.
      destruct (Nat.eqb_spec (n2 v) (n2 y)) as [E|E]; [lia|reflexivity].
  - destruct (N.eqb_spec y v) as [->|Ne].
    + apply MC.mem_not_In. intros H. apply MC.del_In in H. destruct H as [_ H]. apply H. reflexivity.
    + destruct (M.mem (n2 v) o) eqn:E.
      * apply MC.mem_In. apply MC.del_In. split; [apply MC.mem_In; exact E|lia].
      * apply MC.mem_not_In. intros H. apply MC.del_In in H. destruct H as [H _].
        apply MC.mem_In in H. congruence.
Qed.

Lemma mem_fold_gapp pk v es : forall o,
  M.mem (n2 v) (fold_left (fun o e => M.gapp o (M.ecmd e)) (absL pk es) o) = foldm v es (M.mem (n2 v) o).
Proof.
  unfold foldm. induction es as [|e es IH]; intros o; [reflexivity|].
  cbn [absL map fold_left]. fold (absL pk es). rewrite IH. cbn [absE M.ecmd]. rewrite mem_gapp.
  destruct (membership_of (ecmd e)) as [[a y]|]; reflexivity.
Qed.

Lemma mem_gcfg_app pk V' v l es :
  M.mem (n2 v) (M.gcfg V' (l ++ absL pk es)) = foldm v es (M.mem (n2 v) (M.gcfg V' l)).
Proof. rewrite MC.gcfg_app. apply mem_fold_gapp. Qed.

Section Ghost.
Variable c : conf.
Variable mf : N -> N -> N * N.
Variable V : list nid.
Hypothesis NDV : NoDup V.
Hypothesis SV : ssorted V.
Hypothesis VNE : V <> [].
Hypothesis VRO : forall v, In v V -> v < RO_BASE.
Hypothesis Hb1 : 1 < batch c.
Set Default Proof Using "All".

Notation V' := (absV V).
Notation Rn := (Rn c mf V).
Notation kstar := (kstar V).
Notation pk := (pk c).
Notation kall := (kall V NDV VNE).

(* what a voter has committed never changes *)
Lemma stable_star s1 s2 j :
  KS.kreachable V' F0 s1 -> kstar s1 s2 -> S7.stable s1 s2 j.
Proof.
  intros HR K. induction K as [|sa sb K IH Ks]; [apply S7.stable_refl|].
  eapply S7.stable_trans; [exact IH|].
  apply (TH.k_commit_stable V' F0 F0_disc (V'_nodup V NDV) (V'_ne V NDV VNE)).
  - eapply kstar_kreachable; eauto.
  - exact Ks.
Qed.

Lemma prefix_stable s1 s2 j k :
  KS.kreachable V' F0 s1 -> kstar s1 s2 -> (k <= M.commit (M.nodes s1 j))%nat ->
  firstn k (M.log (M.nodes s2 j)) = firstn k (M.log (M.nodes s1 j)).
Proof.
  intros HR K Hk. destruct (stable_star s1 s2 j HR K) as [_ F].
  eapply ML.firstn_le_eq; [|exact F]. exact Hk.
Qed.

(* the membership flag of voter n *)
Definition mflag (n : nid) (x : node) (s : M.state) : bool :=
  M.mem (n2 n) (M.gcfg V' (firstn (n2 (applied x)) (M.log (M.nodes s (n2 n))))).

(* from the flag at (x, s) to the flag at (x', s'): the entries applied in between, read from the
   held log of x' *)
Lemma mflag_step n x x' s s' :
  KS.kreachable V' F0 s -> kstar s s' -> Rn n x s -> Rn n x' s' ->
  applied x <= commit x -> applied x <= applied x' -> applied x' <= commit x' ->
  first_idx (log x') <= applied x + 1 ->
  mflag n x' s' =
  foldm n (get_entries (log x') (Some (applied x + 1)) (Some (applied x' - applied x)) None) (mflag n x s).
Proof.
  intros HR K RN RN' Hac Hle Hac' Hfi.
  assert (HR' : KS.kreachable V' F0 s') by (eapply kstar_kreachable; eauto).
  destruct (Rn_full c mf V NDV SV VNE VRO Hb1 n x' s' HR' RN') as (full & EL & W & Sx & _ & _).
  unfold mflag.
  assert (Hst : firstn (n2 (applied x)) (M.log (M.nodes s' (n2 n))) =
                firstn (n2 (applied x)) (M.log (M.nodes s (n2 n)))).
  { apply prefix_stable; auto. rewrite (Rn_commit _ _ _ _ _ _ RN). lia. }
  rewrite <- Hst. rewrite EL.
  assert (Hlen : (n2 (applied x') <= length full)%nat).
  { pose proof (Rn_commit_le c mf V NDV SV VNE VRO Hb1 n x' s' full HR' RN' EL). lia. }
  rewrite (suffix_ge _ _ W Sx) by lia. rewrite ge_count by (auto; lia).
  replace (n2 (applied x + 1) - 1)%nat with (n2 (applied x)) by lia.
  set (a := n2 (applied x)). set (d := n2 (applied x' - applied x)).
  assert (Ha' : n2 (applied x') = (a + d)%nat) by (unfold a, d; lia). rewrite Ha'.
  assert (Hsplit : firstn (a + d) (absL pk full) = firstn a (absL pk full) ++ absL pk (firstn d (skipn a full))).
  { rewrite <- absL_firstn. rewrite <- (firstn_skipn a full) at 1.
    rewrite firstn_app. rewrite firstn_length. rewrite Nat.min_l by lia.
    replace (a + d - a)%nat with d by lia. rewrite firstn_firstn. rewrite Nat.min_r by lia.
    rewrite absL_app, absL_firstn, absL_firstn. reflexivity. }
  rewrite Hsplit. apply mem_gcfg_app.
Qed.

(* membership by the whole own log, from the flag and the entries behind [applied] *)
Lemma self_member_flag n x s :
  KS.kreachable V' F0 s -> Rn n x s -> first_idx (log x) <= applied x -> applied x <= commit x ->
  M.self_member V' (n2 n) (M.nodes s (n2 n)) =
  foldm n (get_entries (log x) (Some (applied x + 1)) None None) (mflag n x s).
Proof.
  intros HR RN Hfi Hac.
  destruct (Rn_full c mf V NDV SV VNE VRO Hb1 n x s HR RN) as (full & EL & W & Sx & _ & _).
  unfold M.self_member, mflag. rewrite EL.
  assert (Hlen : (n2 (applied x) <= length full)%nat).
  { pose proof (Rn_commit_le c mf V NDV SV VNE VRO Hb1 n x s full HR RN EL). lia. }
  rewrite (suffix_ge _ _ W Sx) by lia. rewrite ge_from by (auto; lia).
  replace (n2 (applied x + 1) - 1)%nat with (n2 (applied x)) by lia.
  rewrite <- (firstn_skipn (n2 (applied x)) full) at 1.
  rewrite absL_app, absL_firstn. apply mem_gcfg_app.
Qed.

End Ghost.
