(* Tier C4, part 13: non-vacuity (runs A, B, C as in Tier C3; run D: a configuration with a dump file).  Two concrete runs of the fragment with log compaction and the
   install of a snapshot at a voter (three voters; the leader compacts its log at index 3 and
   brings the lagging voter 2 up to date with a snapshot).  In run A voter 2 already holds the
   entries of the snapshot (its log is trimmed and keeps entry 4); in run B it holds nothing
   (its log is replaced by the two entries of the snapshot).  Both satisfy every hypothesis of
   the Tier C4 theorems; a theorem is instantiated on each. *)
From Coq Require Import ZArith NArith List Bool Lia.
From RecordUpdate Require Import RecordSet.
From PSO Require Import Raft.Types Raft.Node Raft.Net Raft.Obs.
From PSO Require Import Raft.ProofsElectionGhost Raft.RefineAbs Raft.Refine3Abs Raft.Refine4Main Raft.Refine4Final.
Import ListNotations.
Import RecordSetNotations.
Open Scope N_scope.

(* period tmin tspan fallback batch chunk use_batch dyn wait_leader min_entries min_time qsize noop_pk
   file_dump file_journal: memory-only nodes, compaction only on request (ECompact) *)
Definition t4_conf : conf := mkConf 10 40 20 1000 1000 100 true false true 1000 100000 10 5 false false.
Definition t4_V : list nid := [1; 2; 3].
Definition t4_cmd (k : N) : cmd := mkCmd 0 k 0 1 10.

Definition t4T (z : Z) (n : N) : event := ETick n z 0 30 [] 9.
Definition t4D (z : Z) (a b : N) : event := EDeliver a b z 0 [].

(* election of node 1 (the messages to 2 are lost), entry 3, two rejections by node 2 *)
Definition t4_boot : list event :=
  [ERestart 1 [2;3] 0 0 1; ERestart 2 [1;3] 0 0 1; ERestart 3 [1;2] 0 0 1;
   EConnect 1 2; EConnect 2 1; EConnect 1 3; EConnect 3 1; EConnect 2 3; EConnect 3 2;
   t4T 50 1; t4D 51 1 3; t4D 52 3 1;
   ELose 1 2 2;
   t4D 53 1 3; t4D 54 3 1;
   ESubmit 1 (t4_cmd 7) 11; t4T 60 1; t4T 71 1;
   t4D 72 1 2;
   t4D 73 1 3; t4D 74 3 1;
   t4T 82 1;
   t4D 83 1 2;
   t4D 84 2 1].

(* run A: entries 2,3 and 4 reach node 2 before the snapshot does *)
Definition t4_traceA : list event := t4_boot ++
  [t4T 93 1;
   ESubmit 1 (t4_cmd 8) 12; t4T 104 1;
   ECompact 1; t4T 115 1;            (* the snapshot at applied = 3 is taken *)
   t4T 126 1;                        (* the log is cut: first index 2 *)
   t4D 127 2 1;                      (* the second rejection: next[2] := 2 <= first index *)
   t4T 137 1;                        (* the snapshot is sent to 2 *)
   t4D 138 1 2; t4D 138 1 2; t4D 138 1 2; t4D 138 1 2;
   t4D 139 1 2; t4D 139 1 2;         (* install: the log of 2 is trimmed to [2;3;4] *)
   t4D 140 2 1; t4D 140 2 1; t4D 140 2 1; t4D 140 2 1; t4D 140 2 1;
   t4T 148 1; t4D 149 1 2; t4D 149 1 3; t4T 150 2; t4T 150 3].

(* run B: every append_entries to node 2 is lost; only the snapshot (and then entry 4) arrives *)
Definition t4_traceB : list event := t4_boot ++
  [t4T 93 1; ELose 1 2 1;
   ESubmit 1 (t4_cmd 8) 12; t4T 104 1; ELose 1 2 1;
   ECompact 1; t4T 115 1; ELose 1 2 1;
   t4T 126 1; ELose 1 2 1;
   t4D 127 2 1;
   t4T 137 1;
   t4D 139 1 2; t4D 139 1 2;         (* install: the log of 2 becomes [2;3] *)
   t4D 139 1 2;                      (* entry 4 *)
   t4D 140 2 1; t4D 140 2 1; t4T 148 1].

Example t4A_in_fragment : core_frag4 t4_conf t4_V t4_traceA.
Proof. repeat split; vm_compute; reflexivity. Qed.

Example t4B_in_fragment : core_frag4 t4_conf t4_V t4_traceB.
Proof. repeat split; vm_compute; reflexivity. Qed.

Definition t4_view (x : node) := map (fun e => (ca (ecmd e), eidx e, eterm e)) (log x).

Example t4A_runs :
  exists g n1 n2 n3,
    run_trace t4_conf ginit t4_traceA = Some g /\
    aget 1 (nodes g) = Some n1 /\ aget 2 (nodes g) = Some n2 /\ aget 3 (nodes g) = Some n3 /\
    role n1 = LEADER /\ commit n1 = 4 /\ commit n2 = 3 /\ applied n2 = 3 /\
    t4_view n1 = [(0, 2, 1); (7, 3, 1); (8, 4, 1)] /\
    t4_view n2 = [(0, 2, 1); (7, 3, 1); (8, 4, 1)] /\
    t4_view n3 = [(0, 1, 0); (0, 2, 1); (7, 3, 1)] /\
    (exists sn, stored (sr n2) = Some (Good sn) /\ eidx (s_e1 sn) = 3).
Proof.
  do 4 eexists.
  split; [vm_compute; reflexivity|]. split; [vm_compute; reflexivity|]. split; [vm_compute; reflexivity|].
  split; [vm_compute; reflexivity|].
  vm_compute. repeat split; try reflexivity. eexists. split; reflexivity.
Qed.

Example t4B_runs :
  exists g n1 n2,
    run_trace t4_conf ginit t4_traceB = Some g /\
    aget 1 (nodes g) = Some n1 /\ aget 2 (nodes g) = Some n2 /\
    role n1 = LEADER /\ commit n2 = 3 /\ applied n2 = 3 /\
    t4_view n1 = [(0, 2, 1); (7, 3, 1); (8, 4, 1)] /\
    t4_view n2 = [(0, 2, 1); (7, 3, 1); (8, 4, 1)] /\
    (exists sn, stored (sr n2) = Some (Good sn) /\ eidx (s_e1 sn) = 3).
Proof.
  do 3 eexists.
  split; [vm_compute; reflexivity|]. split; [vm_compute; reflexivity|]. split; [vm_compute; reflexivity|].
  vm_compute. repeat split; try reflexivity. eexists. split; reflexivity.
Qed.

(* the theorems apply: e.g. voters 2 (snapshot installed) and 3 (full log) agree on every committed
   index both hold *)
Example t4A_sms_instance :
  forall g n2 n3 ea eb, run_trace t4_conf ginit t4_traceA = Some g ->
    aget 2 (nodes g) = Some n2 -> aget 3 (nodes g) = Some n3 ->
    In ea (log n2) -> In eb (log n3) -> eidx ea = eidx eb -> eidx ea <= commit n2 -> eidx ea <= commit n3 ->
    ea = eb.
Proof.
  intros g n2 n3 ea eb Hr H2 H3.
  destruct t4A_in_fragment as (A & C & D & E).
  apply (TierC4_state_machine_safety t4_conf t4_V t4_traceA g 2 3 n2 n3 ea eb A C D E Hr H2 H3); reflexivity.
Qed.

Example t4B_snapshot_instance :
  forall g n2 n1 sn eb, run_trace t4_conf ginit t4_traceB = Some g ->
    aget 2 (nodes g) = Some n2 -> aget 1 (nodes g) = Some n1 ->
    stored (sr n2) = Some (Good sn) ->
    In eb (log n1) -> eidx eb = eidx (s_e1 sn) -> eidx eb <= commit n1 -> eb = s_e1 sn.
Proof.
  intros g n2 n1 sn eb Hr H2 H1.
  destruct t4B_in_fragment as (A & C & D & E).
  apply (TierC4_snapshot_agrees t4_conf t4_V t4_traceB g 2 1 n2 n1 sn eb A C D E Hr H2 H1); reflexivity.
Qed.

(* run C: batch = 5; a command of size 6 (pickled size 12) travels in three pieces (start, process,
   finish).  Voter 2 receives all three and appends the entry; for voter 3 the finish piece is lost:
   it keeps two pieces buffered, refuses the next heartbeat, and the leader sends the three pieces
   again (the new start piece resets the buffer). *)
Definition t4_confC : conf := mkConf 10 40 20 1000 5 100 true false true 1000 100000 10 5 false false.
Definition t4_big (k : N) : cmd := mkCmd 0 k 0 6 12.

Definition t4_traceC : list event :=
  [ERestart 1 [2;3] 0 0 1; ERestart 2 [1;3] 0 0 1; ERestart 3 [1;2] 0 0 1;
   EConnect 1 2; EConnect 2 1; EConnect 1 3; EConnect 3 1; EConnect 2 3; EConnect 3 2;
   t4T 50 1; t4D 51 1 3; t4D 52 3 1; t4D 51 1 2; t4D 52 2 1;
   t4D 53 1 3; t4D 54 3 1; t4D 53 1 2; t4D 54 2 1;
   ESubmit 1 (t4_big 7) 11; t4T 60 1; t4T 71 1;          (* three pieces to each follower *)
   t4D 72 1 2; t4D 72 1 2; t4D 72 1 2; t4D 73 2 1; t4D 73 2 1; t4D 73 2 1;
   ELose 1 3 1; t4D 74 1 3; t4D 74 1 3; t4D 75 3 1; t4D 75 3 1;   (* voter 3: start and process only *)
   t4T 82 1; t4D 83 1 2; t4D 83 1 3; t4D 84 3 1; t4D 84 2 1;
   t4T 93 1; t4D 94 1 3; t4D 94 1 3; t4D 94 1 3; t4D 95 3 1; t4D 95 3 1; t4D 95 3 1; t4T 104 1].

Example t4C_in_fragment : core_frag4 t4_confC t4_V t4_traceC.
Proof. repeat split; vm_compute; reflexivity. Qed.

Example t4C_runs :
  exists g n1 n2 n3,
    run_trace t4_confC ginit t4_traceC = Some g /\
    aget 1 (nodes g) = Some n1 /\ aget 2 (nodes g) = Some n2 /\ aget 3 (nodes g) = Some n3 /\
    role n1 = LEADER /\ commit n1 = 3 /\ commit n2 = 3 /\ commit n3 = 3 /\
    t4_view n1 = [(0, 1, 0); (0, 2, 1); (7, 3, 1)] /\ log n2 = log n1 /\ log n3 = log n1 /\
    (exists e3, nth_error (log n1) 2 = Some e3 /\ batch t4_confC <= csz (ecmd e3)) /\
    recv_t n3 = [].
Proof.
  do 4 eexists.
  split; [vm_compute; reflexivity|]. split; [vm_compute; reflexivity|]. split; [vm_compute; reflexivity|].
  split; [vm_compute; reflexivity|].
  vm_compute. repeat split; try reflexivity. eexists. split; [reflexivity|]. intros H; discriminate H.
Qed.

Example t4C_sms_instance :
  forall g n2 n3 ea eb, run_trace t4_confC ginit t4_traceC = Some g ->
    aget 2 (nodes g) = Some n2 -> aget 3 (nodes g) = Some n3 ->
    In ea (log n2) -> In eb (log n3) -> eidx ea = eidx eb -> eidx ea <= commit n2 -> eidx ea <= commit n3 ->
    ea = eb.
Proof.
  intros g n2 n3 ea eb Hr H2 H3.
  destruct t4C_in_fragment as (A & C & D & E).
  apply (TierC4_state_machine_safety t4_confC t4_V t4_traceC g 2 3 n2 n3 ea eb A C D E Hr H2 H3); reflexivity.
Qed.

(* run D: run A with a dump file configured (file_dump = true).  Every node ticks once right after its
   start (the tick that would load the dump file finds nothing stored); later ticks do not load. *)
Definition t4_confD : conf := mkConf 10 40 20 1000 1000 100 true false true 1000 100000 10 5 true false.

Definition t4_traceD : list event :=
  firstn 9 t4_boot ++ [t4T 1 1; t4T 1 2; t4T 1 3] ++ skipn 9 t4_traceA.

Example t4D_in_fragment : core_frag4 t4_confD t4_V t4_traceD.
Proof. repeat split; vm_compute; reflexivity. Qed.

Example t4D_runs :
  exists g n1 n2,
    run_trace t4_confD ginit t4_traceD = Some g /\
    aget 1 (nodes g) = Some n1 /\ aget 2 (nodes g) = Some n2 /\
    file_dump t4_confD = true /\ role n1 = LEADER /\ commit n1 = 4 /\
    t4_view n2 = [(0, 2, 1); (7, 3, 1); (8, 4, 1)] /\
    (exists sn, stored (sr n2) = Some (Good sn) /\ eidx (s_e1 sn) = 3).
Proof.
  do 3 eexists.
  split; [vm_compute; reflexivity|]. split; [vm_compute; reflexivity|]. split; [vm_compute; reflexivity|].
  vm_compute. repeat split; try reflexivity. eexists. split; reflexivity.
Qed.

(* the condition is needed in the model: in run A voter 2 ticks for the first time after it has installed
   a snapshot; with a dump file configured that tick would re-load the stored dump *)
Example t4A_with_dump_file_not_in_fragment : run_ok4 t4_confD ginit t4_traceA = false.
Proof. vm_compute. reflexivity. Qed.
