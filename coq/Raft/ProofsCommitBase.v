(* Shared infrastructure for the C04 / C10 proofs on the L1 Raft model:
   - node-identity lemmas for the helpers that only emit / raise,
   - a generic frame section: for any projection [π] of the node that ignores the fields a helper
     writes, the helper leaves [π] unchanged (the section mechanism abstracts each lemma over exactly
     the fields its helper writes),
   - composition lemmas for [;;], folds,
   - sorted-set / association-list facts. *)
From Coq Require Import ZArith NArith List Bool Lia.
From RecordUpdate Require Import RecordSet.
From PSO Require Import Raft.Types Raft.Node Raft.Net.
Import ListNotations.
Import RecordSetNotations.
Open Scope N_scope.

(* ------------------------------------------------------------------------------------------ *)
(* helpers that leave the node untouched                                                      *)

Lemma nd_upd f s : nd (upd f s) = f (nd s).
Proof. reflexivity. Qed.
Lemma nd_emit o s : nd (emit o s) = nd s.
Proof. reflexivity. Qed.
Lemma nd_raise c s : nd (raise c s) = nd s.
Proof. reflexivity. Qed.
Lemma nd_send d m s : nd (send d m s) = nd s.
Proof. unfold send. destruct (smem d (tconn (nd s))); reflexivity. Qed.
Lemma nd_fire c r er s : nd (fire c r er s) = nd s.
Proof. destruct c; reflexivity. Qed.
Lemma nd_call_err er c s : nd (call_err er c s) = nd s.
Proof. destruct c; cbn; auto using nd_send. Qed.
Lemma nd_send_next_idx d nx r su s : nd (send_next_idx d nx r su s) = nd s.
Proof. unfold send_next_idx. apply nd_send. Qed.
Lemma nd_delta_read e s : nd (delta_read e s) = nd s.
Proof. unfold delta_read. destruct (_ && _); reflexivity. Qed.
Lemma nd_send_pieces f x en prev b pos s : nd (send_pieces f x en prev b pos s) = nd s.
Proof.
  revert pos s. induction f as [|f IH]; intros pos s; cbn; [reflexivity|].
  destruct (psize en <=? pos); [reflexivity|]. rewrite IH. apply nd_send.
Qed.

Lemma exc_upd f s : exc (upd f s) = exc s.
Proof. reflexivity. Qed.
Lemma exc_emit o s : exc (emit o s) = exc s.
Proof. reflexivity. Qed.
Lemma exc_send d m s : exc (send d m s) = exc s.
Proof. unfold send. destruct (smem d (tconn (nd s))); reflexivity. Qed.
Lemma exc_fire c r er s : exc (fire c r er s) = exc s.
Proof. destruct c; reflexivity. Qed.
Lemma exc_call_err er c s : exc (call_err er c s) = exc s.
Proof. destruct c; cbn; auto using exc_send. Qed.
Lemma exc_send_next_idx d nx r su s : exc (send_next_idx d nx r su s) = exc s.
Proof. unfold send_next_idx. apply exc_send. Qed.
Lemma exc_set_role r s : exc (set_role r s) = exc s.
Proof. unfold set_role. destruct (_ =? _); reflexivity. Qed.

Lemma tnow_send d m s : tnow (send d m s) = tnow s.
Proof. unfold send. destruct (smem d (tconn (nd s))); reflexivity. Qed.

Lemma andthen_eq f g s : (f ;; g) s = if ok (f s) then g (f s) else f s.
Proof. reflexivity. Qed.

(* a reflexive-transitive relation on nodes established phase by phase *)
Lemma andthen_rel (R : node -> node -> Prop) (f g : S -> S) s :
  (forall a b c, R a b -> R b c -> R a c) ->
  R (nd s) (nd (f s)) -> (forall s', R (nd s') (nd (g s'))) -> R (nd s) (nd ((f ;; g) s)).
Proof.
  intros Tr Hf Hg. rewrite andthen_eq. destruct (ok (f s)); [|exact Hf].
  eapply Tr; [exact Hf|apply Hg].
Qed.

(* an invariant established phase by phase *)
Lemma andthen_inv (P : S -> Prop) (f g : S -> S) s :
  (P s -> P (f s)) -> (forall s', P s' -> P (g s')) -> P s -> P ((f ;; g) s).
Proof.
  intros Hf Hg Hs. rewrite andthen_eq. destruct (ok (f s)); auto.
Qed.

Lemma fold_left_inv {A B} (P : A -> Prop) (f : A -> B -> A) l a :
  (forall a x, P a -> P (f a x)) -> P a -> P (fold_left f l a).
Proof. intros H. revert a. induction l as [|x l IH]; cbn; intros a Ha; auto. Qed.

Lemma fold_left_rel {A B} (R : A -> A -> Prop) (f : A -> B -> A) l a :
  (forall a, R a a) -> (forall a b c, R a b -> R b c -> R a c) ->
  (forall a x, R a (f a x)) -> R a (fold_left f l a).
Proof.
  intros Rf Tr H. revert a. induction l as [|x l IH]; cbn; intros a; auto.
  eapply Tr; [apply H|apply IH].
Qed.

(* ------------------------------------------------------------------------------------------ *)
(* generic frames                                                                             *)

(* the common prelude of the append_entries branch, named                                     *)

Definition ae_pre (e : env) (from : nid) (t c : N) (s : S) : S :=
  let s := upd (fun n => n <| deadline := (tnow s + gen_timeout e)%Z |>) s in
  let s := if opt_eqb (leader (nd s)) (Some from) then s else on_leader_changed s in
  let s := upd (fun n => n <| leader := Some from |>) s in
  let s := if term (nd s) <? t then upd (fun n => n <| term := t |> <| voted := None |>) s else s in
  let s := set_role FOLLOWER s in
  upd (fun n => n <| leader_commit := Some c |>) s.

Definition ae_body_of (e : env) (from : nid) (m : msg) (c : N) (s : S) : S :=
  match m with
  | AE _ _ prev es => ae_regular e from c prev es s
  | AEPiece _ _ prev lab off len en =>
    if lab =? 1 then
      send_next_idx from None false false (upd (fun n => n <| recv_t := [(en, off, len)] |>) s)
    else
      match recv_t (nd s) with
      | [] => raise EXC_TYPE s
      | _ =>
        let s := upd (fun n => n <| recv_t := recv_t n ++ [(en, off, len)] |>) s in
        if lab =? 2 then send_next_idx from None false false s
        else
          match assemble_entry (recv_t (nd s)) with
          | None => raise EXC_DECODE s
          | Some en' => ae_regular e from c prev [en'] (upd (fun n => n <| recv_t := [] |>) s)
          end
      end
  | AESnap _ _ p =>
    let (s, done) := set_transmission p s in
    if done && load_dump_ok s then
      let s := load_dump e true s in
      let v := applied (nd s) in
      let s := send_next_idx from (Some (v + 1)) false true s in
      ae_commit c (Some v) s
    else if done then ae_commit c None (load_dump e true s)
    else ae_commit c None s
  | _ => s
  end.

Lemma on_append_entries_eq e from m t c s :
  on_append_entries e from m t c s =
  if t <? term (nd s) then s else ae_body_of e from m c (ae_pre e from t c s).
Proof. reflexivity. Qed.


Ltac dmatch :=
  match goal with
  | |- context [match ?x with _ => _ end] => destruct x eqn:?
  end.

Section Frame.
Context {T : Type} (π : node -> T).
Hypothesis H_others : forall n v, π (n <| others := v |>) = π n.
Hypothesis H_tconn : forall n v, π (n <| tconn := v |>) = π n.
Hypothesis H_role : forall n v, π (n <| role := v |>) = π n.
Hypothesis H_term : forall n v, π (n <| term := v |>) = π n.
Hypothesis H_voted : forall n v, π (n <| voted := v |>) = π n.
Hypothesis H_votes : forall n v, π (n <| votes := v |>) = π n.
Hypothesis H_leader : forall n v, π (n <| leader := v |>) = π n.
Hypothesis H_deadline : forall n v, π (n <| deadline := v |>) = π n.
Hypothesis H_log : forall n v, π (n <| log := v |>) = π n.
Hypothesis H_commit : forall n v, π (n <| commit := v |>) = π n.
Hypothesis H_applied : forall n v, π (n <| applied := v |>) = π n.
Hypothesis H_next_idx : forall n v, π (n <| next_idx := v |>) = π n.
Hypothesis H_match_idx : forall n v, π (n <| match_idx := v |>) = π n.
Hypothesis H_last_resp : forall n v, π (n <| last_resp := v |>) = π n.
Hypothesis H_last_ser_time : forall n v, π (n <| last_ser_time := v |>) = π n.
Hypothesis H_last_ser_entry : forall n v, π (n <| last_ser_entry := v |>) = π n.
Hypothesis H_force_compact : forall n v, π (n <| force_compact := v |>) = π n.
Hypothesis H_leader_commit : forall n v, π (n <| leader_commit := v |>) = π n.
Hypothesis H_ready_called : forall n v, π (n <| ready_called := v |>) = π n.
Hypothesis H_change_idx : forall n v, π (n <| change_idx := v |>) = π n.
Hypothesis H_noop_idx : forall n v, π (n <| noop_idx := v |>) = π n.
Hypothesis H_recv_t : forall n v, π (n <| recv_t := v |>) = π n.
Hypothesis H_sec_dumps : forall n v, π (n <| sec_dumps := v |>) = π n.
Hypothesis H_need_load : forall n v, π (n <| need_load := v |>) = π n.
Hypothesis H_new_ae_time : forall n v, π (n <| new_ae_time := v |>) = π n.
Hypothesis H_wait_commit : forall n v, π (n <| wait_commit := v |>) = π n.
Hypothesis H_local_ctr : forall n v, π (n <| local_ctr := v |>) = π n.
Hypothesis H_wait_reply : forall n v, π (n <| wait_reply := v |>) = π n.
Hypothesis H_queue : forall n v, π (n <| queue := v |>) = π n.
Hypothesis H_sr : forall n v, π (n <| sr := v |>) = π n.
Hypothesis H_hist : forall n v, π (n <| hist := v |>) = π n.
Hypothesis H_enabled_ver : forall n v, π (n <| enabled_ver := v |>) = π n.
Hypothesis H_meta_commit : forall n v, π (n <| meta_commit := v |>) = π n.
Hypothesis H_meta_dirty : forall n v, π (n <| meta_dirty := v |>) = π n.
Hypothesis H_replay_idx : forall n v, π (n <| replay_idx := v |>) = π n.
Hypothesis H_connected : forall n v, π (n <| connected := v |>) = π n.
Hypothesis H_readonly : forall n v, π (n <| readonly := v |>) = π n.

Ltac frw :=
  repeat first
    [ rewrite nd_send | rewrite nd_fire | rewrite nd_call_err | rewrite nd_send_next_idx
    | rewrite nd_delta_read | rewrite nd_send_pieces
    | rewrite H_others | rewrite H_tconn | rewrite H_role | rewrite H_term | rewrite H_voted
    | rewrite H_votes | rewrite H_leader | rewrite H_deadline | rewrite H_log | rewrite H_commit
    | rewrite H_applied | rewrite H_next_idx | rewrite H_match_idx | rewrite H_last_resp
    | rewrite H_last_ser_time | rewrite H_last_ser_entry | rewrite H_force_compact
    | rewrite H_leader_commit | rewrite H_ready_called | rewrite H_change_idx | rewrite H_noop_idx
    | rewrite H_recv_t | rewrite H_sec_dumps | rewrite H_need_load | rewrite H_new_ae_time
    | rewrite H_wait_commit | rewrite H_local_ctr | rewrite H_wait_reply | rewrite H_queue
    | rewrite H_sr | rewrite H_hist | rewrite H_enabled_ver | rewrite H_meta_commit
    | rewrite H_meta_dirty | rewrite H_replay_idx | rewrite H_connected | rewrite H_readonly
    | progress cbn ].
Ltac fr := repeat (frw; try reflexivity; try dmatch).

Lemma fr_fold {A} (f : S -> A -> S) l s :
  (forall s x, π (nd (f s x)) = π (nd s)) -> π (nd (fold_left f l s)) = π (nd s).
Proof.
  intros H. revert s. induction l as [|x l IH]; intros s; cbn; [reflexivity|].
  rewrite IH. apply H.
Qed.

Lemma fr_fold_node {A} (f : node -> A -> node) l n :
  (forall n x, π (f n x) = π n) -> π (fold_left f l n) = π n.
Proof.
  intros H. revert n. induction l as [|x l IH]; intros n; cbn; [reflexivity|].
  rewrite IH. apply H.
Qed.

Lemma fr_set_role r s : π (nd (set_role r s)) = π (nd s).
Proof. unfold set_role. fr. Qed.

Lemma fr_on_leader_changed s : π (nd (on_leader_changed s)) = π (nd s).
Proof.
  unfold on_leader_changed. frw. apply fr_fold. intros. now rewrite nd_fire.
Qed.

Lemma fr_do_change_cluster a x r s : π (nd (fst (do_change_cluster a x r s))) = π (nd s).
Proof. unfold do_change_cluster. fr. Qed.

Lemma fr_apply_membership r es s : π (nd (apply_membership r es s)) = π (nd s).
Proof.
  unfold apply_membership. apply fr_fold. intros s0 en.
  destruct (membership_of (ecmd en)) as [[a x]|]; [apply fr_do_change_cluster|reflexivity].
Qed.

Lemma fr_update_cluster new s : π (nd (update_cluster new s)) = π (nd s).
Proof.
  unfold update_cluster. rewrite fr_fold by (intros; fr). frw.
  rewrite fr_fold by (intros; fr). reflexivity.
Qed.

Lemma fr_get_transmission e x s : π (nd (fst (get_transmission e x s))) = π (nd s).
Proof. unfold get_transmission. fr. Qed.

Lemma fr_cancel_transmission x s : π (nd (cancel_transmission x s)) = π (nd s).
Proof. unfold cancel_transmission. fr. Qed.

Lemma fr_set_transmission p s : π (nd (fst (set_transmission p s))) = π (nd s).
Proof. unfold set_transmission. fr. Qed.

Lemma fr_load_dump e cl s : π (nd (load_dump e cl s)) = π (nd s).
Proof.
  unfold load_dump.
  destruct (stored (sr (nd s))) as [[sn|]|]; try reflexivity.
  destruct (cl && _); [fr|].
  destruct (self_ver (nd s) <? s_ver sn); [reflexivity|].
  cbv zeta.
  match goal with |- context [update_cluster ?l ?s4] => set (s5 := s4) end.
  assert (E : π (nd s5) = π (nd s)).
  { subst s5. fr. }
  clearbody s5.
  destruct (dyn (cf e)); [|exact E].
  destruct (cl && _); rewrite ?fr_apply_membership, fr_update_cluster; exact E.
Qed.

Lemma fr_ae_body e x nx s : π (nd (fst (ae_body e x nx s))) = π (nd s).
Proof.
  unfold ae_body.
  destruct (first_idx (log (nd s)) <? nx).
  - destruct (nx <=? last_idx (log (nd s))); fr.
  - pose proof (fr_get_transmission e x s) as G.
    destruct (get_transmission e x s) as [s1 td]. cbn [fst] in G. fr; exact G.
Qed.

Lemma fr_ae_loop f e st x sg sr_ s : π (nd (ae_loop f e st x sg sr_ s)) = π (nd s).
Proof.
  revert sg sr_ s. induction f as [|f IH]; intros sg sr_ s; cbn; [reflexivity|].
  destruct (aget x (next_idx (nd s))) as [nx|]; [|reflexivity].
  destruct ((nx <=? last_idx (log (nd s))) || sg || sr_); [|reflexivity].
  pose proof (fr_ae_body e x nx s) as G.
  destruct (ae_body e x nx s) as [s1 b]. cbn [fst] in G.
  destruct (ok s1); [|exact G].
  destruct (_ <? _)%Z; [now rewrite nd_delta_read|].
  rewrite IH. now rewrite nd_delta_read.
Qed.

Lemma fr_send_ae e s : π (nd (send_ae e s)) = π (nd s).
Proof.
  unfold send_ae. rewrite fr_fold.
  - fr.
  - intros s0 x. destruct (ok s0); [|reflexivity].
    destruct (negb _); [apply fr_cancel_transmission|apply fr_ae_loop].
Qed.

Lemma fr_become_leader e s : π (nd (become_leader e s)) = π (nd s).
Proof.
  unfold become_leader. rewrite andthen_eq.
  match goal with |- π (nd (if ok (?f ?s1) then _ else _)) = _ =>
    assert (E : π (nd s1) = π (nd s)) end.
  { frw. unfold log_add. frw. rewrite fr_fold_node by (intros; fr). frw.
    rewrite fr_set_role. fr. }
  destruct (use_batch (cf e)).
  - cbv beta. destruct (ok _); rewrite ?fr_send_ae; exact E.
  - destruct (ok _); rewrite ?fr_send_ae; exact E.
Qed.

Lemma fr_do_apply c s : π (nd (fst (do_apply c s))) = π (nd s).
Proof.
  unfold do_apply. destruct (ck c =? 3); [fr|].
  destruct (membership_of c) as [[a x]|]; [|fr].
  destruct (_ <? _); [|reflexivity]. cbn [fst]. apply fr_do_change_cluster.
Qed.

(* everything apply_one does besides advancing [applied] *)
Lemma fr_apply_one en s : π (nd (fst (apply_one en s))) = π (nd s).
Proof.
  unfold apply_one.
  match goal with |- context [do_apply ?c ?s1] =>
    pose proof (fr_do_apply c s1) as G; destruct (do_apply c s1) as [s2 ar] end.
  cbn [fst] in G. rewrite nd_upd, H_wait_commit in G.
  destruct ar; cbn [fst]; try exact G; frw;
    (rewrite fr_fold; [exact G|intros; destruct (_ =? _); now rewrite nd_fire]).
Qed.

Lemma fr_apply_list es s : π (nd (apply_list es s)) = π (nd s).
Proof.
  revert s. induction es as [|en es IH]; intros s; cbn; [reflexivity|].
  pose proof (fr_apply_one en s) as G. destruct (apply_one en s) as [s1 go]. cbn [fst] in G.
  destruct go; [rewrite IH|]; exact G.
Qed.

Lemma fr_apply_entries e s : π (nd (fst (apply_entries e s))) = π (nd s).
Proof.
  unfold apply_entries. destruct (_ <? _); cbn [fst]; [apply fr_apply_list|reflexivity].
Qed.

Lemma fr_submit e c cbk s : π (nd (submit e c cbk s)) = π (nd s).
Proof. unfold submit. fr. Qed.

Lemma fr_change_cluster a x s : π (nd (fst (change_cluster a x s))) = π (nd s).
Proof.
  unfold change_cluster. destruct (negb _); [reflexivity|].
  match goal with |- context [match change_idx (nd ?s1) with _ => _ end] =>
    assert (E : π (nd s1) = π (nd s)) by fr; destruct (change_idx (nd s1)) end.
  - exact E.
  - rewrite fr_do_change_cluster. exact E.
Qed.

Lemma fr_check_one e c cbk s : π (nd (check_one e c cbk s)) = π (nd s).
Proof.
  unfold check_one. destruct (role (nd s) =? LEADER).
  - match goal with |- context [let '(s, accepted) := ?X in _] =>
      assert (E : π (nd (fst X)) = π (nd s)); [|destruct X as [s1 acc]] end.
    { destruct (if dyn (cf e) then membership_of c else None) as [[a x]|];
        [apply fr_change_cluster|reflexivity]. }
    cbn [fst] in E. destruct acc.
    + destruct (use_batch (cf e)); rewrite ?fr_send_ae;
        unfold log_add; destruct cbk; destruct (if dyn (cf e) then membership_of c else None); fr; exact E.
    + destruct cbk; fr; exact E.
  - fr.
Qed.

Lemma fr_check_loop f e st s : π (nd (check_loop f e st s)) = π (nd s).
Proof.
  revert s. induction f as [|f IH]; intros s; cbn [check_loop]; [reflexivity|].
  destruct (_ <? _)%Z; [|reflexivity].
  assert (K : π (nd (match queue (nd s) with
            | [] => s
            | (c, cbk) :: rest =>
              let s := upd (fun n => n <| queue := rest |>) s in
              let s := check_one e c cbk s in
              if ok s then check_loop f e st s else s end)) = π (nd s)).
  { destruct (queue (nd s)) as [|[c cbk] rest]; [reflexivity|].
    cbv zeta. destruct (ok _); rewrite ?IH, fr_check_one; fr. }
  destruct (leader (nd s)); [exact K|]. destruct (wait_leader (cf e)); [reflexivity|exact K].
Qed.

Lemma fr_check_commands e s : π (nd (check_commands e s)) = π (nd s).
Proof. unfold check_commands. apply fr_check_loop. Qed.

Lemma fr_try_compact e s : π (nd (try_compact e s)) = π (nd s).
Proof. unfold try_compact. fr. Qed.

Lemma fr_tick_load e s : π (nd (tick_load e s)) = π (nd s).
Proof.
  unfold tick_load. frw. destruct (_ && _); [apply fr_load_dump|reflexivity].
Qed.

Lemma fr_tick_timer e s : π (nd (tick_timer e s)) = π (nd s).
Proof. unfold tick_timer. fr. Qed.

Lemma fr_tick_election e s : π (nd (tick_election e s)) = π (nd s).
Proof.
  unfold tick_election. destruct (self (nd s)) as [me|]; [|reflexivity].
  destruct (_ && _); [|reflexivity].
  match goal with |- π (nd (if majority _ (nd ?s1) then _ else _)) = _ =>
    assert (E : π (nd s1) = π (nd s)) end.
  { rewrite fr_on_leader_changed. rewrite fr_fold by (intros; now rewrite nd_send).
    frw. rewrite fr_set_role. fr. }
  destruct (majority _ _); [rewrite fr_become_leader|]; exact E.
Qed.

Lemma nd_commit_loop f ci nx s : nd (fst (commit_loop f ci nx s)) = nd s.
Proof.
  revert ci nx s. induction f as [|f IH]; intros ci nx s; cbn [commit_loop]; [reflexivity|].
  destruct (ci <? last_idx (log (nd s))); [|reflexivity].
  destruct (existsb _ _); [reflexivity|].
  destruct (negb _); [reflexivity|].
  destruct (get_entries _ _ _ _) as [|en r]; [apply IH|].
  destruct (eterm en =? term (nd s)); apply IH.
Qed.

Lemma fr_tick_leader e s : π (nd (tick_leader e s)) = π (nd s).
Proof.
  unfold tick_leader. destruct (role (nd s) =? LEADER); [|reflexivity].
  match goal with |- context [commit_loop ?f ?a ?b s] =>
    pose proof (nd_commit_loop f a b s) as G; destruct (commit_loop f a b s) as [s1 nc] end.
  cbn [fst] in G.
  destruct (ok s1); [|now rewrite G].
  unfold set_commit_meta.
  destruct (commit (nd s1) =? nc); fr; try rewrite fr_set_role; fr; now rewrite G.
Qed.

Lemma fr_tick_send e need s : π (nd (tick_send e need s)) = π (nd s).
Proof. unfold tick_send. fr; apply fr_send_ae. Qed.

Lemma fr_tick_ready s : π (nd (tick_ready s)) = π (nd s).
Proof. unfold tick_ready. fr. Qed.

Lemma fr_ae_commit c v s : π (nd (ae_commit c v s)) = π (nd s).
Proof. unfold ae_commit, set_commit_meta. fr. Qed.

Lemma fr_ae_regular e from c prev new s : π (nd (ae_regular e from c prev new s)) = π (nd s).
Proof.
  unfold ae_regular.
  destruct (get_entries _ _ _ _) as [|p0 ptail]; [now rewrite nd_send_next_idx|].
  destruct prev as [[pidx pterm]|]; [|now rewrite nd_send_next_idx].
  destruct (negb _); [now rewrite nd_send_next_idx|].
  rewrite fr_ae_commit, nd_send_next_idx.
  match goal with |- context [upd (fun n => n <| log := log n ++ _ |>) ?s1] =>
    assert (E : π (nd s1) = π (nd s)) end.
  { destruct (skipn _ ptail); [reflexivity|]. destruct (skipn _ new); [reflexivity|].
    frw. destruct (dyn (cf e)); [apply fr_apply_membership|reflexivity]. }
  destruct (dyn (cf e)); rewrite ?fr_apply_membership; frw; exact E.
Qed.

Lemma fr_ae_body_of e from m c s : π (nd (ae_body_of e from m c s)) = π (nd s).
Proof.
  unfold ae_body_of. destruct m; try reflexivity.
  - apply fr_ae_regular.
  - destruct (lab =? 1); [frw; reflexivity|].
    destruct (recv_t _); [reflexivity|].
    destruct (lab =? 2); [frw; reflexivity|].
    destruct (assemble_entry _); [|frw; reflexivity].
    rewrite fr_ae_regular. frw. reflexivity.
  - pose proof (fr_set_transmission p s) as G; destruct (set_transmission p s) as [s2 dn].
    cbn [fst] in G. destruct (dn && _); [|destruct dn]; rewrite fr_ae_commit; frw; rewrite ?fr_load_dump, G; reflexivity.
Qed.

Lemma fr_ae_pre0 e from t c s : π (nd (ae_pre e from t c s)) = π (nd s).
Proof.
  unfold ae_pre. cbv zeta. rewrite nd_upd, H_leader_commit, fr_set_role.
  match goal with |- context [if ?b then _ else _] => destruct b end;
    rewrite ?nd_upd; cbv beta; rewrite ?H_voted, ?H_term, ?H_leader;
    (match goal with |- context [if ?b then _ else _] => destruct b end);
    rewrite ?fr_on_leader_changed, ?nd_upd, ?H_deadline; reflexivity.
Qed.

Lemma fr_on_append_entries e from m t c s : π (nd (on_append_entries e from m t c s)) = π (nd s).
Proof.
  rewrite on_append_entries_eq. destruct (t <? term (nd s)); [reflexivity|].
  rewrite fr_ae_body_of. apply fr_ae_pre0.
Qed.

Lemma fr_msg_request_vote e from t lli llt n :
  π (nd (on_message e from (RequestVote t lli llt) n)) = π n.
Proof.
  unfold on_message. cbn [nd start_S]. destruct (self n); [|reflexivity].
  match goal with |- context [role (nd ?s0)] => set (s1 := s0) end.
  assert (E : π (nd s1) = π n).
  { subst s1. destruct (_ <? _); frw; rewrite ?fr_set_role; fr. }
  clearbody s1. fr; exact E.
Qed.

Lemma fr_msg_response_vote e from t n : π (nd (on_message e from (ResponseVote t) n)) = π n.
Proof. unfold on_message. fr; rewrite fr_become_leader; fr. Qed.

Lemma fr_msg_apply_cmd e from c req n : π (nd (on_message e from (ApplyCmd c req) n)) = π n.
Proof. unfold on_message. apply fr_submit. Qed.

Lemma fr_msg_apply_resp e from req okr a b n :
  π (nd (on_message e from (ApplyResp req okr a b) n)) = π n.
Proof. unfold on_message. fr. Qed.

Lemma fr_msg_next_idx e from t nx r su n :
  π (nd (on_message e from (NextIdx t nx r su) n)) = π n.
Proof. unfold on_message. fr. Qed.

Lemma fr_on_message e from m n : π (nd (on_message e from m n)) = π n.
Proof.
  destruct m.
  - apply fr_msg_request_vote.
  - apply fr_msg_response_vote.
  - apply fr_on_append_entries.
  - apply fr_on_append_entries.
  - apply fr_on_append_entries.
  - apply fr_msg_apply_cmd.
  - apply fr_msg_apply_resp.
  - apply fr_msg_next_idx.
Qed.

Lemma fr_on_connected x n : π (on_connected x n) = π n.
Proof. unfold on_connected. fr. Qed.

Lemma fr_on_disconnected x n : π (on_disconnected x n) = π n.
Proof. unfold on_disconnected. fr. Qed.

Lemma fr_on_tick_tail e s :
  π (nd ((fun s => let (s, need) := apply_entries e s in
             if ok s then (tick_send e need ;; tick_ready ;; check_commands e ;; try_compact e) s else s) s))
  = π (nd s).
Proof.
  cbv beta. pose proof (fr_apply_entries e s) as G.
  destruct (apply_entries e s) as [s1 need]. cbn [fst] in G.
  destruct (ok s1); [|exact G].
  rewrite <- G.
  apply (andthen_rel (fun a b => π b = π a)); [congruence|apply fr_tick_send|intros].
  apply (andthen_rel (fun a b => π b = π a)); [congruence|apply fr_tick_ready|intros].
  apply (andthen_rel (fun a b => π b = π a)); [congruence|apply fr_check_commands|intros].
  apply fr_try_compact.
Qed.

Lemma fr_on_tick e n : π (nd (on_tick e n)) = π n.
Proof.
  unfold on_tick.
  change n with (nd (start_S e n)) at 2.
  apply (andthen_rel (fun a b => π b = π a)); [congruence|apply fr_tick_load|intros].
  apply (andthen_rel (fun a b => π b = π a)); [congruence|apply fr_tick_timer|intros].
  apply (andthen_rel (fun a b => π b = π a)); [congruence|apply fr_tick_election|intros].
  apply (andthen_rel (fun a b => π b = π a)); [congruence|apply fr_tick_leader|intros].
  apply fr_on_tick_tail.
Qed.

End Frame.

(* ------------------------------------------------------------------------------------------ *)
(* composing a per-phase relation over a whole handler / a global step / a trace              *)

Lemma on_tick_rel (R : node -> node -> Prop) e :
  (forall a, R a a) -> (forall a b c, R a b -> R b c -> R a c) ->
  (forall s, R (nd s) (nd (tick_load e s))) ->
  (forall s, R (nd s) (nd (tick_timer e s))) ->
  (forall s, R (nd s) (nd (tick_election e s))) ->
  (forall s, R (nd s) (nd (tick_leader e s))) ->
  (forall s, R (nd s) (nd (fst (apply_entries e s)))) ->
  (forall need s, R (nd s) (nd (tick_send e need s))) ->
  (forall s, R (nd s) (nd (tick_ready s))) ->
  (forall s, R (nd s) (nd (check_commands e s))) ->
  (forall s, R (nd s) (nd (try_compact e s))) ->
  forall n, R n (nd (on_tick e n)).
Proof.
  intros Rf Tr H1 H2 H3 H4 H5 H6 H7 H8 H9 n. unfold on_tick.
  change n with (nd (start_S e n)) at 1.
  apply andthen_rel; [exact Tr|apply H1|intros].
  apply andthen_rel; [exact Tr|apply H2|intros].
  apply andthen_rel; [exact Tr|apply H3|intros].
  apply andthen_rel; [exact Tr|apply H4|intros].
  pose proof (H5 s'2) as G. destruct (apply_entries e s'2) as [s1 need]. cbn [fst] in G.
  destruct (ok s1); [|exact G]. eapply Tr; [exact G|].
  apply andthen_rel; [exact Tr|apply H6|intros].
  apply andthen_rel; [exact Tr|apply H7|intros].
  apply andthen_rel; [exact Tr|apply H8|intros].
  apply H9.
Qed.

(* one handler invocation on a node of a cluster configured with [c]; [MP] restricts the
   messages the environment may deliver *)
Inductive nstep (c : conf) (MP : msg -> Prop) (n : node) : node -> Prop :=
| ns_tick e : cf e = c -> nstep c MP n (nd (on_tick e n))
| ns_msg e from m : cf e = c -> MP m -> nstep c MP n (nd (on_message e from m n))
| ns_conn b : nstep c MP n (on_connected b n)
| ns_disc b : nstep c MP n (on_disconnected b n)
| ns_submit e cm cbk : cf e = c -> nstep c MP n (nd (api_submit e cm cbk n))
| ns_admin e cm cbk : cf e = c -> nstep c MP n (nd (api_admin e cm cbk n))
| ns_setver e cm cbk : cf e = c -> nstep c MP n (nd (api_setver e cm cbk n))
| ns_compact : nstep c MP n (api_compact n).

Lemma aget_aset {V} k (v : V) x l : aget x (aset k v l) = if x =? k then Some v else aget x l.
Proof.
  induction l as [|[k' v'] r IH]; cbn.
  - destruct (x =? k); reflexivity.
  - destruct (k <? k') eqn:E1; cbn.
    + destruct (x =? k); reflexivity.
    + destruct (k =? k') eqn:E2; cbn.
      * apply N.eqb_eq in E2. subst k'. destruct (x =? k); reflexivity.
      * rewrite IH. destruct (x =? k') eqn:E3; [|reflexivity].
        apply N.eqb_eq in E3. subst k'. destruct (x =? k) eqn:E4; [|reflexivity].
        apply N.eqb_eq in E4. subst. rewrite N.eqb_refl in E2. discriminate.
Qed.

Lemma aget_adel_ne {V} k x (l : list (N * V)) : x <> k -> aget x (adel k l) = aget x l.
Proof.
  intros Hne. induction l as [|[k' v'] r IH]; cbn; [reflexivity|].
  destruct (k =? k') eqn:E1; cbn.
  - apply N.eqb_eq in E1. subst k'. destruct (x =? k) eqn:E; [apply N.eqb_eq in E; contradiction|reflexivity].
  - rewrite IH. reflexivity.
Qed.

Lemma nodes_chan_set a b q g : nodes (chan_set a b q g) = nodes g.
Proof. reflexivity. Qed.

Lemma nodes_route a os g : nodes (route a os g) = nodes g.
Proof.
  unfold route. revert g. induction os as [|o os IH]; intros g; cbn; [reflexivity|].
  rewrite IH. destruct o; reflexivity.
Qed.

Lemma nodes_finish x s g : nodes (finish x s g) = aset x (nd s) (nodes g).
Proof. unfold finish. rewrite nodes_route. reflexivity. Qed.

Definition chan_all (MP : msg -> Prop) (g : gstate) : Prop :=
  forall a b m, In m (chan_get a b g) -> MP m.

Definition is_restart (x : nid) (ev : event) : bool :=
  match ev with ERestart n _ _ _ _ => n =? x | _ => false end.
Definition is_kill (x : nid) (ev : event) : bool :=
  match ev with EKill n => n =? x | _ => false end.

(* how one node moves in a global step that neither kills nor restarts it *)
Lemma gstep_nstep c MP g ev g' r x n :
  gstep c g ev = Some (g', r) -> chan_all MP g ->
  is_restart x ev = false -> is_kill x ev = false ->
  aget x (nodes g) = Some n ->
  exists n', aget x (nodes g') = Some n' /\ (n' = n \/ nstep c MP n n').
Proof.
  intros Hs Hc Hr Hk Hn. destruct ev; unfold gstep in Hs; cbn in Hr, Hk; cbv zeta in Hs.
  - destruct (aget n0 (nodes g)) as [y|] eqn:E; [|discriminate]. inversion Hs; subst; clear Hs.
    rewrite nodes_finish, aget_aset. destruct (x =? n0) eqn:Ex.
    + apply N.eqb_eq in Ex. subst x. rewrite E in Hn. inversion Hn; subst y.
      eexists; split; [reflexivity|right]. now apply ns_tick.
    + eauto.
  - destruct (aget b (nodes g)) as [y|] eqn:E; [|discriminate].
    destruct (chan_get a b g) as [|m rest] eqn:Ec; [discriminate|]. inversion Hs; subst; clear Hs.
    rewrite nodes_finish, nodes_chan_set, aget_aset. destruct (x =? b) eqn:Ex.
    + apply N.eqb_eq in Ex. subst x. rewrite E in Hn. inversion Hn; subst y.
      eexists; split; [reflexivity|right]. apply ns_msg; [reflexivity|].
      apply (Hc a b). rewrite Ec. now left.
    + eauto.
  - destruct (aget a (nodes g)) as [y|] eqn:E; [|discriminate]. inversion Hs; subst; clear Hs.
    rewrite nodes_chan_set, nodes_finish, aget_aset. destruct (x =? a) eqn:Ex.
    + apply N.eqb_eq in Ex. subst x. rewrite E in Hn. inversion Hn; subst y.
      eexists; split; [reflexivity|right]. apply ns_disc.
    + eauto.
  - inversion Hs; subst; clear Hs. rewrite nodes_chan_set. eauto.
  - destruct (aget a (nodes g)) as [y|] eqn:E; [|discriminate]. inversion Hs; subst; clear Hs.
    rewrite nodes_finish.
    assert (Hg : forall fr : bool, nodes (if fr then chan_set a b [] (chan_set b a [] g) else g) = nodes g)
      by (intros []; reflexivity).
    rewrite Hg, aget_aset. destruct (x =? a) eqn:Ex.
    + apply N.eqb_eq in Ex. subst x. rewrite E in Hn. inversion Hn; subst y.
      eexists; split; [reflexivity|right]. apply ns_conn.
    + eauto.
  - destruct (aget n0 (nodes g)) as [y|] eqn:E; [|discriminate]. inversion Hs; subst; clear Hs.
    rewrite nodes_finish, aget_aset. destruct (x =? n0) eqn:Ex.
    + apply N.eqb_eq in Ex. subst x. rewrite E in Hn. inversion Hn; subst y.
      eexists; split; [reflexivity|right]. now apply ns_submit.
    + eauto.
  - destruct (aget n0 (nodes g)) as [y|] eqn:E; [|discriminate]. inversion Hs; subst; clear Hs.
    rewrite nodes_finish, aget_aset. destruct (x =? n0) eqn:Ex.
    + apply N.eqb_eq in Ex. subst x. rewrite E in Hn. inversion Hn; subst y.
      eexists; split; [reflexivity|right]. now apply ns_admin.
    + eauto.
  - destruct (aget n0 (nodes g)) as [y|] eqn:E; [|discriminate]. inversion Hs; subst; clear Hs.
    rewrite nodes_finish, aget_aset. destruct (x =? n0) eqn:Ex.
    + apply N.eqb_eq in Ex. subst x. rewrite E in Hn. inversion Hn; subst y.
      eexists; split; [reflexivity|right]. now apply ns_setver.
    + eauto.
  - destruct (aget n0 (nodes g)) as [y|] eqn:E; [|discriminate]. inversion Hs; subst; clear Hs.
    rewrite nodes_finish, aget_aset. destruct (x =? n0) eqn:Ex.
    + apply N.eqb_eq in Ex. subst x. rewrite E in Hn. inversion Hn; subst y.
      eexists; split; [reflexivity|right]. apply ns_compact.
    + eauto.
  - inversion Hs; subst; clear Hs. cbn.
    assert (Hne : x <> n0) by (intros ->; rewrite N.eqb_refl in Hk; discriminate).
    rewrite aget_adel_ne by exact Hne.
    destruct (aget n0 (nodes g)) as [y|]; [destruct (disk_of c y)|]; cbn; eauto.
  - inversion Hs; subst; clear Hs. unfold put_node. cbn.
    rewrite aget_aset, N.eqb_sym, Hr. eauto.
Qed.

(* ------------------------------------------------------------------------------------------ *)
Notation fr_ae_pre := fr_ae_pre0.

Lemma role_ae_pre e from t c s : role (nd (ae_pre e from t c s)) = FOLLOWER.
Proof.
  unfold ae_pre. cbv zeta. rewrite nd_upd. cbn [role set].
  unfold set_role. destruct (_ =? _); reflexivity.
Qed.

Lemma term_ae_pre e from t c s :
  term (nd s) <= t -> term (nd (ae_pre e from t c s)) = t.
Proof.
  intros Hle. unfold ae_pre. cbv zeta. rewrite nd_upd.
  change (term (?n <| leader_commit := Some c |>)) with (term n).
  rewrite (fr_set_role term) by reflexivity.
  match goal with |- context [if ?b then _ else _] => destruct b eqn:E end.
  - reflexivity.
  - rewrite nd_upd in *. cbn in E. cbn.
    destruct (opt_eqb _ _); rewrite ?(fr_on_leader_changed term) in * by reflexivity;
      cbn in *; apply N.ltb_ge in E; lia.
Qed.
