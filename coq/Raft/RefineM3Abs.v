(* Tier CM3, part 1: the refinement of the dynamic-membership fragment WITHOUT the schedule restriction
   [tg_ok] ("a node times out only if it is a member by its own log").  The abstraction, the node /
   message / global relations are those of RefineMAbs.v; what changes is the TARGET: sequences of
   [kstep3] (AbstractM/Safety10_NoTguardA.v) instead of [kstep .. F0]:
     - flags F3: guards (a)/(b) on, joiners start with the initial list, no re-use, NO [tguard],
     - every vote for another node is granted over a link (the transport's member filter),
     - a node that times out is a member by its own log or a pure joiner.
   The files RefineM3K .. RefineM3Final are copies of RefineMK .. RefineMFinal with this target; the
   proofs that change are: the rules in functional form (RefineM3K: t_timeout_ok, t_grant_ok), the
   election timeout (RefineM3TickA.sim_tick_election), the vote request (RefineM3MsgA: sim_grant,
   linked_keep, sim_msg_rv), one step (RefineM3Main: tg3_ok, mf_ok, step_tick, step_deliver). *)
From Coq Require Import ZArith NArith List Bool Lia ZifyBool Arith PeanoNat.
From RecordUpdate Require Import RecordSet.
From PSO Require Import Raft.Types Raft.Node Raft.Net.
From PSO Require Import Raft.ProofsElectionBase Raft.ProofsCommitBase Raft.ProofsMembership Raft.ProofsMembershipInv.
From PSO Require Import Raft.RefineMAbs.
From PSO Require AbstractM.Model AbstractM.Lib AbstractM.Kstep AbstractM.Cfg AbstractM.Safety10_NoTguardA.
Import ListNotations.
Import RecordSetNotations.
Open Scope N_scope.

Module K3 := PSO.AbstractM.Safety10_NoTguardA.

(* the switches: [tguard] off; [links] off - the link condition is asked of vote grants only ([gcond]) *)
Definition F3 : M.flags := M.mkF true true false false false.

Section Rel3.
Variable V : list nid.

Inductive ksn (j : nat) (s : M.state) : M.state -> Prop :=
| ksn_refl : ksn j s s
| ksn_step s1 s2 : ksn j s s1 -> K3.kstep3 (absV V) F3 s1 s2 -> ext j s1 s2 -> ksn j s s2.

Lemma ksn_trans j s1 s2 s3 : ksn j s1 s2 -> ksn j s2 s3 -> ksn j s1 s3.
Proof. intros A B. induction B; auto. eapply ksn_step; eauto. Qed.

Lemma ksn_one j s s' : K3.kstep3 (absV V) F3 s s' -> ext j s s' -> ksn j s s'.
Proof. intros. eapply ksn_step; eauto. constructor. Qed.

Lemma ksn_ext j s s' : ksn j s s' -> ext j s s'.
Proof. induction 1; [apply ext_refl|]. eapply ext_trans; eauto. Qed.

Lemma ksn_kreachable j s s' :
  ksn j s s' -> K3.kreachable3 (absV V) F3 s -> K3.kreachable3 (absV V) F3 s'.
Proof.
  induction 1 as [|s1 s2 A IH K E]; auto. intros HR0. apply (K3.kreach3_step _ _ s1 s2); auto.
Qed.

(* any number of L0 steps (of any node) *)
Inductive kstar (s : M.state) : M.state -> Prop :=
| kstar_refl : kstar s s
| kstar_step s1 s2 : kstar s s1 -> K3.kstep3 (absV V) F3 s1 s2 -> kstar s s2.

Lemma ksn_kstar j s s' : ksn j s s' -> kstar s s'.
Proof. induction 1; [constructor|]. eapply kstar_step; eauto. Qed.

Lemma kstar_trans s1 s2 s3 : kstar s1 s2 -> kstar s2 s3 -> kstar s1 s3.
Proof. intros A B. induction B; auto. eapply kstar_step; eauto. Qed.

Lemma kstar_kreachable s s' :
  kstar s s' -> K3.kreachable3 (absV V) F3 s -> K3.kreachable3 (absV V) F3 s'.
Proof.
  induction 1 as [|s1 s2 A IH K]; auto. intros HR0. apply (K3.kreach3_step _ _ s1 s2); auto.
Qed.

End Rel3.

(* the L1 form of "pure joiner": not an initial voter, no add-command naming it in its log *)
Definition adds (n : nid) (e : entry) : bool :=
  match membership_of (ecmd e) with Some (true, x) => x =? n | _ => false end.

Definition purej1 (V : list nid) (n : nid) (x : node) : bool :=
  negb (smem n V) && forallb (fun e => negb (adds n e)) (log x).
