(* C20: which callbacks a tick can fire with SUCCESS.  Node level. *)
From Coq Require Import ZArith NArith List Bool Lia ZifyBool ZifyN.
From RecordUpdate Require Import RecordSet.
From PSO Require Import Raft.Types Raft.Node Raft.Net.
From PSO Require Raft.ProofsCommitLog.
From PSO Require Import Raft.ProofsReadonlyFrames Raft.ProofsReadonlyA Raft.ProofsReadonlyB.
From PSO Require Import Raft.ProofsFallbackA Raft.ProofsFallbackB.
Import ListNotations.
Import RecordSetNotations.
Open Scope N_scope.

Definition nosucc (o : out) : Prop := match o with Fired _ _ e => e <> SUCCESS | _ => True end.

(* phases that fire no SUCCESS *)
Definition ns (s s' : S) : Prop := exists ex, outs s' = outs s ++ ex /\ Forall nosucc ex.

Lemma ns_refl : forall s, ns s s.
Proof. intros; exists []; rewrite app_nil_r; auto. Qed.
Lemma ns_trans : forall a b c, ns a b -> ns b c -> ns a c.
Proof.
  intros a b c (e1 & O1 & F1) (e2 & O2 & F2). exists (e1 ++ e2).
  split; [rewrite O2, O1, app_assoc; reflexivity | apply Forall_app; auto].
Qed.
Lemma ns_same : forall s s', outs s' = outs s -> ns s s'.
Proof. intros s s' H; exists []; rewrite app_nil_r; auto. Qed.
Lemma ns_upd : forall f s, ns s (upd f s). Proof. intros; apply ns_same; reflexivity. Qed.
Lemma ns_raise : forall c s, ns s (raise c s). Proof. intros; apply ns_same; reflexivity. Qed.
Lemma ns_emit : forall o s, nosucc o -> ns s (emit o s).
Proof. intros o s H; exists [o]; split; [reflexivity | auto]. Qed.
Lemma ns_send : forall d m s, ns s (send d m s).
Proof. intros; unfold send. destruct (smem d _); [apply ns_emit; exact I | apply ns_refl]. Qed.
Lemma ns_set_role : forall r s, ns s (set_role r s).
Proof.
  intros; unfold set_role; cbv zeta. destruct (_ =? r); [apply ns_upd|].
  eapply ns_trans; [apply ns_upd | apply ns_emit; exact I].
Qed.
Lemma ns_fire : forall c r e s, e <> SUCCESS -> ns s (fire c r e s).
Proof. intros c r e s H; unfold fire; destruct c; try apply ns_refl. apply ns_emit; exact H. Qed.
Lemma ns_call_err : forall e c s, e <> SUCCESS -> ns s (call_err e c s).
Proof.
  intros e c s H; unfold call_err; destruct c; [apply ns_refl | apply ns_emit; exact H | apply ns_send].
Qed.
Lemma ns_fold : forall {A} (f : S -> A -> S) (l : list A) s, (forall s x, ns s (f s x)) -> ns s (fold_left f l s).
Proof.
  intros A f l; induction l as [|a l IH]; intros s H; cbn; [apply ns_refl|].
  eapply ns_trans; [apply H | apply IH; exact H].
Qed.
Lemma ns_if : forall (b : bool) s x y, ns s x -> ns s y -> ns s (if b then x else y).
Proof. intros [] s x y; auto. Qed.

Lemma ns_on_leader_changed : forall s, ns s (on_leader_changed s).
Proof.
  intros; unfold on_leader_changed. eapply ns_trans; [|apply ns_upd].
  apply ns_fold; intros; apply ns_fire; discriminate.
Qed.

Lemma ns_do_change_cluster : forall a x r s, ns s (fst (do_change_cluster a x r s)).
Proof.
  intros; unfold do_change_cluster; cbv zeta. destruct (xorb a r).
  - destruct (_ || _); cbn; [apply ns_refl|]. exists [TAdd x]; split; [reflexivity | repeat constructor].
  - destruct (self_is x (nd s)); cbn; [apply ns_refl|]. destruct (negb _); cbn; [apply ns_refl|].
    exists [TDrop x]; split; [reflexivity | repeat constructor].
Qed.

Ltac ns0 :=
  lazymatch goal with
  | |- ns _ (set_role _ _) => apply ns_set_role
  | |- ns _ (upd _ _) => apply ns_upd
  | |- ns _ (raise _ _) => apply ns_raise
  | |- ns _ (emit _ _) => apply ns_emit; first [exact I | discriminate]
  | |- ns _ (send _ _ _) => apply ns_send
  | |- ns _ (on_leader_changed _) => apply ns_on_leader_changed
  | |- ns _ (fst (do_change_cluster _ _ _ _)) => apply ns_do_change_cluster
  end.
Ltac ns1 := first [ apply ns_refl | ns0 ].
Ltac nschain := repeat (first [ ns1 | eapply ns_trans; [| ns0] | apply ns_if ]).

Lemma ns_get_transmission : forall e x s, ns s (fst (get_transmission e x s)).
Proof.
  intros; unfold get_transmission; cbv zeta. destruct (negb _); cbn; [apply ns_refl|].
  destruct (match aget x _ with Some t => Some t | None => _ end) as [[b off]|]; cbn; [apply ns_upd | apply ns_refl].
Qed.

Lemma ns_send_pieces : forall fuel x en prev b pos s, ns s (send_pieces fuel x en prev b pos s).
Proof.
  intros fuel; induction fuel as [|f IH]; intros; cbn; [apply ns_refl|].
  destruct (_ <=? pos); [apply ns_refl|]. eapply ns_trans; [apply ns_send | apply IH].
Qed.
#[local] Arguments send_pieces : simpl never.

Lemma ns_ae_body : forall e x next s, ns s (fst (ae_body e x next s)).
Proof.
  intros; unfold ae_body; cbv zeta.
  destruct (first_idx (log (nd s)) <? next).
  - destruct (next <=? last_idx (log (nd s))).
    + destruct (get_entries _ _ _ _) as [|e1 [|e2 r]]; cbn [fst]; nschain.
      destruct (batch (cf e) <=? csz (ecmd e1)); unfold fst; [|nschain].
      eapply ns_trans; [| apply ns_send_pieces]. apply ns_upd.
    + cbn [fst]; nschain.
  - destruct (get_transmission e x s) as [s1 td] eqn:E.
    assert (ns s s1) as H1 by (change s1 with (fst (s1, td)); rewrite <- E; apply ns_get_transmission).
    assert (ns s (send x (AESnap (term (nd s)) (commit (nd s)) td) s1)) as H2 by (eapply ns_trans; [exact H1 | apply ns_send]).
    destruct td as [|b off len fi la]; cbn [fst]; [exact H2|].
    destruct la; cbn [fst]; [|exact H2].
    destruct (log (nd (send x _ s1))) as [|? [|e1 ?]]; cbn [fst];
      first [exact H2 | eapply ns_trans; [exact H2 | first [apply ns_upd | apply ns_raise]]].
Qed.

Lemma ns_delta_read : forall e s, ns s (delta_read e s).
Proof. intros; unfold delta_read; cbv zeta. destruct (_ && _); apply ns_same; reflexivity. Qed.

Lemma ns_ae_loop : forall fuel e start x single ser_ s, ns s (ae_loop fuel e start x single ser_ s).
Proof.
  intros fuel; induction fuel as [|f IH]; intros; cbn [ae_loop]; [apply ns_raise|].
  destruct (aget x (next_idx (nd s))) as [next|]; [|apply ns_raise].
  destruct (_ || ser_); [|apply ns_refl].
  destruct (ae_body e x next s) as [s1 ser'] eqn:E.
  assert (ns s s1) as H1 by (change s1 with (fst (s1, ser')); rewrite <- E; apply ns_ae_body).
  destruct (ok s1); [|exact H1].
  assert (ns s (delta_read e s1)) as H2 by (eapply ns_trans; [exact H1 | apply ns_delta_read]).
  destruct (_ <? _)%Z; [exact H2|]. eapply ns_trans; [exact H2 | apply IH].
Qed.

Lemma ns_send_ae : forall e s, ns s (send_ae e s).
Proof.
  intros; unfold send_ae; cbv zeta.
  eapply ns_trans; [| apply ns_fold; intros s0 x].
  - eapply ns_trans; [|apply ns_upd]. apply ns_same; reflexivity.
  - destruct (ok s0); [|apply ns_refl]. destruct (negb _); [apply ns_upd | apply ns_ae_loop].
Qed.

Lemma ns_change_cluster : forall a x s, ns s (fst (change_cluster a x s)).
Proof.
  intros; unfold change_cluster; cbv zeta. destruct (negb _); cbn [fst]; [apply ns_refl|].
  match goal with |- context [change_idx (nd ?X)] => assert (ns s X) as H0 end.
  { destruct (change_idx (nd s)) as [ci|]; [|apply ns_refl]. destruct (ci <=? _); nschain. }
  match goal with |- context [change_idx (nd ?X)] => destruct (change_idx (nd X)) end; cbn [fst]; [exact H0|].
  eapply ns_trans; [exact H0 | apply ns_do_change_cluster].
Qed.

Lemma ns_check_one : forall e c cbk s, ns s (check_one e c cbk s).
Proof.
  intros; unfold check_one; cbv zeta.
  destruct (role (nd s) =? LEADER).
  - match goal with |- context [match ?R with None => (s, true) | Some p => _ end] => destruct R as [[a x]|] end.
    + destruct (change_cluster a x s) as [s1 acc] eqn:E.
      assert (ns s s1) as H1 by (change s1 with (fst (s1, acc)); rewrite <- E; apply ns_change_cluster).
      destruct acc.
      * eapply ns_trans; [exact H1|].
        destruct (use_batch (cf e)); [|eapply ns_trans; [|apply ns_send_ae]]; destruct cbk; nschain.
      * eapply ns_trans; [exact H1|]. destruct cbk; nschain.
    + destruct (use_batch (cf e)); [|eapply ns_trans; [|apply ns_send_ae]]; destruct cbk; nschain.
  - destruct (leader (nd s)); [|apply ns_call_err; discriminate]. destruct cbk; nschain.
Qed.

Lemma ns_check_loop : forall fuel e start s, ns s (check_loop fuel e start s).
Proof.
  intros fuel; induction fuel as [|f IH]; intros; cbn [check_loop]; [apply ns_refl|].
  destruct (_ <? _)%Z; [|apply ns_refl].
  assert (ns s match queue (nd s) with
               | [] => s
               | (c, cbk) :: rest =>
                 if ok (check_one e c cbk (upd (fun n => n <| queue := rest |>) s))
                 then check_loop f e start (check_one e c cbk (upd (fun n => n <| queue := rest |>) s))
                 else check_one e c cbk (upd (fun n => n <| queue := rest |>) s)
               end) as H.
  { destruct (queue (nd s)) as [|[c cbk] rest]; [apply ns_refl|].
    assert (ns s (check_one e c cbk (upd (fun n => n <| queue := rest |>) s))) as H1
      by (eapply ns_trans; [apply ns_upd | apply ns_check_one]).
    destruct (ok _); [|exact H1]. eapply ns_trans; [exact H1 | apply IH]. }
  destruct (leader (nd s)); [exact H|]. destruct (wait_leader (cf e)); [apply ns_refl | exact H].
Qed.

Lemma ns_try_compact : forall e s, ns s (try_compact e s).
Proof.
  intros; apply ns_same.
  unfold try_compact; cbv zeta.
  assert (forall (b : bool) f (X : S), outs (if b then upd f X else X) = outs X) as HU by (intros [] f X; reflexivity).
  destruct (negb _); [rewrite HU; destruct (_ =? 0); reflexivity|].
  match goal with |- context [if ?c then _ else _] => destruct c end; [rewrite HU; destruct (_ =? 0); reflexivity|].
  match goal with |- outs match ?G with _ => _ end = _ => destruct G as [|e0 [|e1 r]] end;
    try (cbn [outs upd set]; rewrite HU; destruct (_ =? 0); reflexivity).
  destruct (opt_eqb _ _); cbn [outs upd set]; rewrite HU; destruct (_ =? 0); reflexivity.
Qed.

Lemma ns_andthen : forall f g s, ns s (f s) -> (forall s', ns s' (g s')) -> ns s ((f ;; g) s).
Proof.
  intros f g s Hf Hg; unfold andthen. destruct (ok (f s)); [|exact Hf]. eapply ns_trans; [exact Hf | apply Hg].
Qed.

(* the phases of a tick after apply_entries *)
Lemma ns_after_apply : forall e need s,
  ns s ((tick_send e need ;; tick_ready ;; check_commands e ;; try_compact e) s).
Proof.
  intros e need s.
  apply ns_andthen.
  { unfold tick_send. destruct (_ =? LEADER); [|apply ns_refl]. destruct (_ || need); [apply ns_send_ae | apply ns_refl]. }
  intros s1. apply ns_andthen.
  { unfold tick_ready; cbv zeta. destruct (_ && _); [apply ns_upd | apply ns_refl]. }
  intros s2. apply ns_andthen; [unfold check_commands; apply ns_check_loop|].
  intros s3. apply ns_try_compact.
Qed.

(* ---- applying entries: SUCCESS goes to the callbacks registered under the entry's index ---- *)
Definition registered (n : node) (k : N) (tm : N) (cb : N) : Prop :=
  exists l, aget k (wait_commit n) = Some l /\ In (tm, CbLocal cb) l.

Lemma fire_fold_spec : forall tm r subs s,
  let s' := fold_left (fun s tc => if fst tc =? tm then fire (snd tc) r SUCCESS s else fire (snd tc) 0 DISCARDED s) subs s in
  nd s' = nd s /\ exists ex, outs s' = outs s ++ ex /\
    forall cb res e0, In (Fired cb res e0) ex -> e0 = SUCCESS -> In (tm, CbLocal cb) subs.
Proof.
  intros tm r subs; induction subs as [|[t0 c0] subs IH]; intros s; cbn [fold_left].
  - split; [reflexivity|]. exists []; rewrite app_nil_r; split; [reflexivity | intros ? ? ? []].
  - cbn [fst snd].
    match goal with |- context [fold_left ?g subs ?X] => destruct (IH X) as (N1 & ex & O1 & F1) end.
    destruct (t0 =? tm) eqn:E.
    + apply N.eqb_eq in E; subst t0. destruct c0 as [|id|? ?]; cbn [fire] in *.
      * split; [exact N1|]. exists ex; split; [exact O1|]. intros cb res e0 Hi He. right; eapply F1; eauto.
      * split; [exact N1|]. exists (Fired id r SUCCESS :: ex). split; [rewrite O1; cbn; rewrite <- app_assoc; reflexivity|].
        intros cb res e0 [Hi|Hi] He; [inversion Hi; subst; left; reflexivity | right; eapply F1; eauto].
      * split; [exact N1|]. exists ex; split; [exact O1|]. intros cb res e0 Hi He. right; eapply F1; eauto.
    + destruct c0 as [|id|? ?]; cbn [fire] in *.
      * split; [exact N1|]. exists ex; split; [exact O1|]. intros cb res e0 Hi He. right; eapply F1; eauto.
      * split; [exact N1|]. exists (Fired id 0 DISCARDED :: ex). split; [rewrite O1; cbn; rewrite <- app_assoc; reflexivity|].
        intros cb res e0 [Hi|Hi] He; [exfalso; subst e0; inversion Hi | right; eapply F1; eauto].
      * split; [exact N1|]. exists ex; split; [exact O1|]. intros cb res e0 Hi He. right; eapply F1; eauto.
Qed.

Lemma wc_do_change_cluster : forall a x r s, wait_commit (nd (fst (do_change_cluster a x r s))) = wait_commit (nd s).
Proof.
  intros; unfold do_change_cluster; cbv zeta. destruct (xorb a r).
  - destruct (_ || _); cbn; [reflexivity|]. destruct (_ =? LEADER); reflexivity.
  - destruct (self_is x (nd s)); cbn; [reflexivity|]. destruct (negb _); reflexivity.
Qed.

Lemma do_apply_spec : forall c s,
  wait_commit (nd (fst (do_apply c s))) = wait_commit (nd s) /\ ns s (fst (do_apply c s)).
Proof.
  intros; unfold do_apply.
  destruct (ck c =? 3).
  - destruct (_ <? ca c); cbn; split; try reflexivity; nschain.
  - destruct (membership_of c) as [[a x]|].
    + destruct (_ <? _); cbn [fst]; [split; [apply wc_do_change_cluster | apply ns_do_change_cluster] | split; [reflexivity | apply ns_refl]].
    + destruct (ck c =? 0); cbn [fst]; [|split; [reflexivity | apply ns_refl]].
      destruct (cb c =? 1); cbn [fst]; split; try reflexivity; nschain.
Qed.

Lemma consec_head_lt : forall e r e', ProofsCommitLog.consec (e :: r) -> In e' r -> eidx e < eidx e'.
Proof.
  intros e r; revert e; induction r as [|a r IH]; intros e e' H Hin; [destruct Hin|].
  destruct H as (H1 & H2). destruct Hin as [<-|Hin]; [lia|]. specialize (IH a e' H2 Hin). lia.
Qed.

Lemma apply_list_fired : forall es s, ProofsCommitLog.consec es ->
  exists ex, outs (apply_list es s) = outs s ++ ex /\
    forall cb res, In (Fired cb res SUCCESS) ex ->
      exists en, In en es /\ registered (nd s) (eidx en) (eterm en) cb.
Proof.
  intros es; induction es as [|en r IH]; intros s Hc; cbn [apply_list].
  - exists []; rewrite app_nil_r; split; [reflexivity | intros ? ? []].
  - unfold apply_one; cbv zeta.
    set (subs := match aget (eidx en) (wait_commit (nd s)) with Some l => l | None => [] end).
    set (s0 := upd (fun n => n <| wait_commit := adel (eidx en) (wait_commit n) |>) s).
    destruct (do_apply_spec (ecmd en) s0) as (W1 & (exd & Od & Fd)).
    destruct (do_apply (ecmd en) s0) as [s1 ar]; cbn [fst] in W1, Od.
    assert (forall cb res, In (Fired cb res SUCCESS) exd -> False) as Hd.
    { intros cb res Hi. rewrite Forall_forall in Fd. apply (Fd _ Hi). reflexivity. }
    assert (outs s1 = outs s ++ exd) as Od' by exact Od.
    assert (forall rr, exists ex,
              outs (apply_list r (upd (fun n => n <| applied := applied n + 1 |>)
                      (fold_left (fun s tc => if fst tc =? eterm en then fire (snd tc) rr SUCCESS s else fire (snd tc) 0 DISCARDED s) subs s1)))
              = outs s ++ ex /\
              forall cb res, In (Fired cb res SUCCESS) ex -> exists en0, In en0 (en :: r) /\ registered (nd s) (eidx en0) (eterm en0) cb) as HA.
    { intros rr.
      destruct (fire_fold_spec (eterm en) rr subs s1) as (N2 & exf & Of & Ff).
      set (s2 := fold_left _ subs s1) in *.
      destruct (IH (upd (fun n => n <| applied := applied n + 1 |>) s2) (ProofsCommitLog.consec_tail _ _ Hc)) as (exr & Or & Fr).
      exists (exd ++ exf ++ exr). split; [rewrite Or; cbn [outs upd set]; rewrite Of, Od', <- !app_assoc; reflexivity|].
      intros cb res Hi. apply in_app_or in Hi as [Hi|Hi]; [destruct (Hd _ _ Hi)|].
      apply in_app_or in Hi as [Hi|Hi].
      - exists en. split; [left; reflexivity|]. specialize (Ff cb res SUCCESS Hi eq_refl).
        subst subs. destruct (aget (eidx en) (wait_commit (nd s))) as [l|] eqn:El; [|destruct Ff]. exists l; auto.
      - destruct (Fr cb res Hi) as (en0 & Hin & (l & Hl & Hil)). exists en0. split; [right; exact Hin|].
        exists l. split; [|exact Hil].
        cbn [nd upd set wait_commit] in Hl. rewrite N2, W1 in Hl. subst s0. cbn [nd upd set wait_commit] in Hl.
        rewrite aget_adel_other in Hl; [exact Hl|]. pose proof (consec_head_lt _ _ _ Hc Hin). lia. }
    destruct ar as [rr| |].
    + apply HA.
    + exists exd. split; [exact Od'|]. intros cb res Hi. destruct (Hd _ _ Hi).
    + apply HA.
Qed.

(* ---- the phases before apply_entries keep log / applied / wait_commit and fire no SUCCESS ---- *)
Definition q (n : node) := (log n, applied n, wait_commit n).
Definition nsq (s s' : S) : Prop := ns s s' /\ q (nd s') = q (nd s).

Lemma nsq_refl : forall s, nsq s s. Proof. intros; split; [apply ns_refl | reflexivity]. Qed.
Lemma nsq_trans : forall a b c, nsq a b -> nsq b c -> nsq a c.
Proof. intros a b c (A1 & A2) (B1 & B2). split; [eapply ns_trans; eauto | congruence]. Qed.
Lemma nsq_upd : forall f s, (forall n, q (f n) = q n) -> nsq s (upd f s).
Proof. intros f s H. split; [apply ns_upd | apply H]. Qed.
Lemma nsq_set_role : forall r s, nsq s (set_role r s).
Proof. intros; split; [apply ns_set_role|]. unfold set_role; cbv zeta. destruct (_ =? r); reflexivity. Qed.
Lemma nsq_send : forall d m s, nsq s (send d m s).
Proof. intros; split; [apply ns_send | rewrite nd_send; reflexivity]. Qed.
Lemma nsq_raise : forall c s, nsq s (raise c s). Proof. intros; split; [apply ns_raise | reflexivity]. Qed.
Lemma nsq_fold : forall {A} (f : S -> A -> S) (l : list A) s, (forall s x, nsq s (f s x)) -> nsq s (fold_left f l s).
Proof.
  intros A f l; induction l as [|a l IH]; intros s H; cbn; [apply nsq_refl|].
  eapply nsq_trans; [apply H | apply IH; exact H].
Qed.
Lemma nsq_on_leader_changed : forall s, nsq s (on_leader_changed s).
Proof.
  intros; unfold on_leader_changed. eapply nsq_trans; [|apply nsq_upd; reflexivity].
  apply nsq_fold. intros s0 x. split; [apply ns_fire; discriminate|]. unfold fire; destruct (snd x); reflexivity.
Qed.

Lemma nsq_tick_election_alone : forall e s,
  role (nd s) <> LEADER -> majority 1 (nd s) = false -> nsq s (tick_election e s).
Proof.
  intros e s Hr Hm.
  destruct (tick_election_alone e s Hr Hm) as (_ & HMQ).
  unfold tick_election in *; cbv zeta in *.
  destruct (self (nd s)) as [me|]; [|apply nsq_refl].
  destruct (_ && _); [|apply nsq_refl].
  match goal with |- context [if majority (votes (nd ?X)) (nd ?X) then _ else _] => set (Y := X) in * end.
  assert (nsq s Y) as HY.
  { subst Y. eapply nsq_trans; [|apply nsq_on_leader_changed].
    eapply nsq_trans; [|apply nsq_fold; intros; apply nsq_send].
    eapply nsq_trans; [|apply nsq_upd; reflexivity].
    eapply nsq_trans; [|apply nsq_set_role]. apply nsq_upd; reflexivity. }
  assert (majority (votes (nd Y)) (nd Y) = false) as HM.
  { assert (votes (nd Y) = 1) as ->.
    { subst Y. match goal with |- context [on_leader_changed ?Z] =>
        destruct (core_fields _ _ (fr_core _ _ _ (fr_on_leader_changed true Z))) as (_ & _ & _ & _ & -> & _) end.
      match goal with |- context [nd (fold_left (fun s x => send x (@?f x) s) ?l ?Z)] => rewrite (nd_fold_send f l Z) end.
      reflexivity. }
    assert (others (nd Y) = others (nd s)) as HO.
    { assert (mq s Y) as (M & _).
      { subst Y. eapply mq_trans; [|apply mq_on_leader_changed].
        eapply mq_trans; [|apply mq_fold; intros; apply mq_send].
        eapply mq_trans; [|apply mq_upd; reflexivity].
        eapply mq_trans; [|apply mq_set_role]. apply mq_upd; reflexivity. }
      unfold mem_part in M. injection M as M1 _ _ _. exact M1. }
    unfold majority in *. rewrite HO. exact Hm. }
  rewrite HM. exact HY.
Qed.

Lemma nsq_tick_leader : forall e s, nsq s (tick_leader e s).
Proof.
  intros e s. rewrite tick_leader_eq.
  destruct (role (nd s) =? LEADER); [|apply nsq_refl].
  destruct (commit_phase s) as [s1 nc] eqn:E.
  pose proof (commit_phase_cases s) as H; rewrite E in H; cbn [fst] in H.
  assert (nsq s s1) as H1 by (destruct H as [-> | ->]; [apply nsq_refl | apply nsq_raise]).
  destruct (ok s1); [|exact H1].
  eapply nsq_trans; [exact H1|].
  assert (nsq s1 (store_commit nc s1)) as H2.
  { unfold store_commit. destruct (_ =? nc); [apply nsq_refl | apply nsq_upd; reflexivity]. }
  eapply nsq_trans; [exact H2|].
  destruct (fallback_phase_spec e (store_commit nc s1)) as [(_ & ->) | [(_ & _ & ->) | (_ & _ & ->)]].
  - eapply nsq_trans; [|apply nsq_raise]. apply nsq_upd; reflexivity.
  - apply nsq_upd; reflexivity.
  - eapply nsq_trans; [|apply nsq_upd; reflexivity]. eapply nsq_trans; [|apply nsq_set_role]. apply nsq_upd; reflexivity.
Qed.

Lemma get_entries_bound : forall l f c en,
  ProofsCommitLog.consec l -> In en (get_entries l (Some f) (Some c) None) -> eidx en < f + c.
Proof.
  intros l f c en Hc Hin.
  destruct (f <? first_idx l) eqn:E.
  - unfold get_entries in Hin. rewrite E in Hin. destruct Hin.
  - apply N.ltb_ge in E. rewrite (ProofsCommitLog.get_entries_spec l f (Some c) Hc E) in Hin.
    apply filter_In in Hin as (_ & Hr). unfold ProofsCommitLog.in_range in Hr.
    apply andb_true_iff in Hr as (_ & Hr). apply N.ltb_lt in Hr. exact Hr.
Qed.

(* one tick of a node that does not load a dump and cannot win an election alone: every SUCCESS goes to
   a callback that was registered, before the tick, under an index <= the commit index after it *)
Theorem tick_success_registered : forall e n,
  period_ok e -> need_load n = false -> majority 1 n = false -> ProofsCommitLog.consec (log n) ->
  Forall nomem (outs (on_tick e n)) ->
  forall cb res, In (Fired cb res SUCCESS) (outs (on_tick e n)) ->
    exists k tm, registered n k tm cb /\ k <= commit (nd (on_tick e n)).
Proof.
  intros e n Hp Hn Hm Hc Hnm cb res Hin.
  rewrite (on_tick_noload_eq e n Hn) in *. unfold andthen in *.
  destruct (pre_leader_facts e n) as (_ & _ & O & C & M & L & _ & _ & A & W).
  set (P := pre_leader e n) in *.
  assert (q (nd P) = q n) as QP by (unfold q; rewrite L, A, W; reflexivity).
  assert (nsq P (tick_election e P)) as HE.
  { destruct (core_fields _ _ C) as (_ & R & _).
    destruct (N.eq_dec (role n) LEADER) as [Hl | Hl].
    - rewrite tick_election_leader by congruence. apply nsq_refl.
    - apply nsq_tick_election_alone; [congruence|].
      unfold mem_part in M. injection M as M1 _ _ _. unfold majority in *. rewrite M1. exact Hm. }
  set (E := tick_election e P) in *.
  assert (forall X : S, nsq P X -> In (Fired cb res SUCCESS) (outs X) -> False) as Hno.
  { intros X ((ex & OX & FX) & _) Hi. rewrite OX, O in Hi. cbn in Hi. rewrite Forall_forall in FX. apply (FX _ Hi). reflexivity. }
  destruct (ok E); [|destruct (Hno E HE Hin)].
  pose proof (nsq_trans _ _ _ HE (nsq_tick_leader e E)) as HT.
  set (T := tick_leader e E) in *.
  destruct (ok T); [|destruct (Hno T HT Hin)].
  destruct HT as ((exT & OT & FT) & QT). rewrite O in OT; cbn in OT.
  assert (q (nd T) = q n) as QT' by congruence. unfold q in QT'. injection QT' as QL QA QW.
  (* the commit index does not move after the leader phase *)
  pose proof (fr_tick_tail true e T Hp) as (exF & OF & _ & _ & MF & _).
  assert (commit (nd (tick_tail e T)) = commit (nd T)) as HCm.
  { rewrite OF in Hnm. apply Forall_app in Hnm as (_ & Hx). specialize (MF eq_refl Hx).
    unfold mem_part in MF. injection MF as _ _ _ MC. exact MC. }
  rewrite HCm. clear OF MF HCm Hnm exF.
  unfold tick_tail in Hin. unfold apply_entries in Hin; cbv zeta in Hin.
  destruct (applied (nd T) <? commit (nd T)) eqn:EA.
  - apply N.ltb_lt in EA.
    set (es := get_entries (log (nd T)) (Some (applied (nd T) + 1)) (Some (commit (nd T) - applied (nd T))) None) in *.
    assert (ProofsCommitLog.consec es) as Hes by (apply ProofsCommitLog.get_entries_consec; rewrite QL; exact Hc).
    destruct (apply_list_fired es T Hes) as (exA & OA & FA).
    assert (In (Fired cb res SUCCESS) exA) as HiA.
    { destruct (ok (apply_list es T)).
      - destruct (ns_after_apply e (negb (use_batch (cf e))) (apply_list es T)) as (exR & OR & FR).
        rewrite OR, OA, OT in Hin. apply in_app_or in Hin as [Hi|Hi].
        + apply in_app_or in Hi as [Hi|Hi]; [|exact Hi]. rewrite Forall_forall in FT. destruct (FT _ Hi eq_refl).
        + rewrite Forall_forall in FR. destruct (FR _ Hi eq_refl).
      - rewrite OA, OT in Hin. apply in_app_or in Hin as [Hi|Hi]; [|exact Hi].
        rewrite Forall_forall in FT. destruct (FT _ Hi eq_refl). }
    destruct (FA cb res HiA) as (en & Hen & (l & Hl & Hil)).
    exists (eidx en), (eterm en). split; [exists l; rewrite <- QW; auto|].
    assert (ProofsCommitLog.consec (log (nd T))) as HcT by (rewrite QL; exact Hc).
    pose proof (get_entries_bound _ _ _ _ HcT Hen). lia.
  - exfalso. destruct (ok T).
    + destruct (ns_after_apply e false T) as (exR & OR & FR). rewrite OR, OT in Hin.
      apply in_app_or in Hin as [Hi|Hi]; rewrite Forall_forall in *; [destruct (FT _ Hi eq_refl) | destruct (FR _ Hi eq_refl)].
    + rewrite OT in Hin. rewrite Forall_forall in FT. destruct (FT _ Hin eq_refl).
Qed.
