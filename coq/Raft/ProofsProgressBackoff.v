(* C05_backoff_converges: the next-index exchange between a leader and one follower.
   The round function is built from the model's own ae_body (leader sends), on_message
   (follower handles append_entries and answers; leader handles next_node_idx). *)
From Coq Require Import ZArith NArith List Bool Lia ZifyBool ZifyN.
From RecordUpdate Require Import RecordSet.
From PSO Require Import Raft.Types Raft.Node Raft.Net Raft.Obs Raft.ProofsSnapshotBase Raft.ProofsSnapshot
  Raft.ProofsSnapshotChunks Raft.ProofsDisk Raft.ProofsDiskAck.
Import ListNotations.
Import RecordSetNotations.
Open Scope N_scope.

(* ================= the round ================= *)
Definition sends_to (x : nid) (os : list out) : list msg :=
  flat_map (fun o => match o with Send d m => if d =? x then [m] else [] | _ => [] end) os.

(* deliver messages one after the other; collect everything the receiver emits *)
Definition deliver (e : env) (from : nid) (ms : list msg) (n : node) : node * list out :=
  fold_left (fun acc m => let s := on_message e from m (fst acc) in (nd s, snd acc ++ outs s)) ms (n, []).

(* one round: the leader lid sends append_entries to fid from next_idx[fid]; fid handles what
   arrives and answers; the leader handles the answers *)
Definition round (e : env) (lid fid : nid) (st : node * node) : node * node :=
  let (nl, nf) := st in
  match aget fid (next_idx nl) with
  | None => (nl, nf)
  | Some next =>
    let s1 := fst (ae_body e fid next (start_S e nl)) in
    let (nf', os) := deliver e lid (sends_to fid (outs s1)) nf in
    let (nl', _) := deliver e fid (sends_to lid os) (nd s1) in
    (nl', nf')
  end.

Fixpoint rounds (k : nat) (e : env) (lid fid : nid) (st : node * node) : node * node :=
  match k with O => st | Datatypes.S k' => rounds k' e lid fid (round e lid fid st) end.

Lemma sends_to_app : forall x a b, sends_to x (a ++ b) = sends_to x a ++ sends_to x b.
Proof. intros. unfold sends_to. apply flat_map_app. Qed.

Lemma sends_to_none : forall x os, (forall d m, ~ In (Send d m) os) -> sends_to x os = [].
Proof.
  intros x os H. unfold sends_to. induction os as [|o os IH]; cbn [flat_map]; auto.
  rewrite IH by (intros d m Hi; apply (H d m); right; exact Hi).
  destruct o; auto. exfalso. apply (H dst m). left. reflexivity.
Qed.

Lemma deliver_one : forall e from m n,
  deliver e from [m] n = (nd (on_message e from m n), outs (on_message e from m n)).
Proof. reflexivity. Qed.

(* ================= list facts ================= *)
Lemma take_size_firstn : forall r m tot, exists k, take_size m tot r = firstn k r /\ (r <> [] -> (1 <= k)%nat) /\ (k <= length r)%nat.
Proof.
  induction r as [|x r IH]; intros m tot.
  - exists 0%nat. cbn. repeat split; auto. congruence.
  - cbn [take_size]. destruct (m <=? tot + csz (ecmd x)).
    + exists 1%nat. cbn. repeat split; auto. lia.
    + destruct (IH m (tot + csz (ecmd x))) as (k & H1 & H2 & H3).
      exists (Datatypes.S k). cbn. rewrite H1. repeat split; auto; lia.
Qed.

Lemma get_entries_In : forall l f c m x, In x (get_entries l f c m) -> In x l.
Proof.
  intros l f c m x H. unfold get_entries in H. destruct f as [f|]; [|contradiction].
  destruct (f <? first_idx l); [contradiction|].
  set (r0 := skipn (N.to_nat (f - first_idx l)) l) in *.
  assert (Hr0 : forall y, In y r0 -> In y l) by (intros y Hy; eapply In_skipn_aux; eauto).
  set (r1 := match c with None => r0 | Some c0 => firstn (N.to_nat c0) r0 end) in *.
  assert (Hr1 : forall y, In y r1 -> In y l).
  { subst r1. destruct c; auto. intros y Hy. apply Hr0. eapply In_firstn_aux; eauto. }
  destruct m as [m|]; auto.
  destruct (take_size_firstn r1 m 0) as (k & Hk & _). rewrite Hk in H.
  apply Hr1. eapply In_firstn_aux; eauto.
Qed.

Lemma get_entries_beyond : forall l f, log_wf l -> last_idx l < f ->
  get_entries l (Some f) None None = [].
Proof.
  intros l f Hwf Hf. unfold get_entries. destruct (f <? first_idx l); auto.
  destruct l as [|x l]; [destruct (N.to_nat _); reflexivity|].
  pose proof (consec_last_idx _ _ Hwf ltac:(discriminate)) as Hq.
  apply skipn_all2. lia.
Qed.

(* ================= the leader sends ================= *)
Definition no_big (e : env) (l : list entry) : Prop := forall en, In en l -> csz (ecmd en) < batch (cf e).

Definition batch_from (e : env) (l : list entry) (next : N) : list entry :=
  if next <=? last_idx l then get_entries l (Some next) None (Some (batch (cf e))) else [].

Lemma leader_send : forall e fid nl next,
  first_idx (log nl) < next -> no_big e (log nl) -> smem fid (tconn nl) = true ->
  let es := batch_from e (log nl) next in
  let s1 := fst (ae_body e fid next (start_S e nl)) in
  outs s1 = [Send fid (AE (term nl) (commit nl) (get_prev (log nl) next) es)] /\
  nd s1 = (if next <=? last_idx (log nl)
           then nl <| next_idx := aset fid (last_idx es + 1) (next_idx nl) |> else nl).
Proof.
  intros e fid nl next Hf Hnb Hc. cbv zeta. unfold ae_body, batch_from. cbn [nd start_S].
  destruct (first_idx (log nl) <? next) eqn:E; [|lia].
  destruct (next <=? last_idx (log nl)) eqn:En.
  - set (es := get_entries (log nl) (Some next) None (Some (batch (cf e)))).
    assert (Hes : forall x, In x es -> csz (ecmd x) < batch (cf e)).
    { intros x Hx. apply Hnb. eapply get_entries_In; eauto. }
    destruct es as [|e1 [|e2 r]] eqn:Ees.
    + cbn [fst]. unfold send, upd, emit; cbn. rewrite Hc. cbn. auto.
    + assert (Hb : (batch (cf e) <=? csz (ecmd e1)) = false).
      { specialize (Hes e1 (or_introl eq_refl)). lia. }
      rewrite Hb. cbn [fst]. unfold send, upd, emit; cbn. rewrite Hc. cbn. auto.
    + cbn [fst]. unfold send, upd, emit; cbn. rewrite Hc. cbn. auto.
  - cbn [fst]. unfold send, emit; cbn. rewrite Hc. cbn. auto.
Qed.

(* ================= the follower answers ================= *)
Lemma header_facts : forall e from t c n,
  term n <= t ->
  let s0 := ae_header e from t c (start_S e n) in
  log (nd s0) = log n /\ term (nd s0) = t /\ tconn (nd s0) = tconn n /\ sends_to from (outs s0) = [] /\
  commit (nd s0) = commit n /\ exc s0 = 0.
Proof.
  intros e from t c n Ht. cbv zeta.
  destruct (ae_header_frame e from t c (start_S e n)) as (A & B & C & D & E & F & G).
  unfold same_app in A. destruct A as (_ & _ & _ & A4 & A5 & _).
  repeat split; auto.
  - rewrite E. cbn. lia.
  - apply sends_to_none. intros d m Hi. apply C in Hi. exact Hi.
Qed.

(* reject: the entry before the new ones is not in the follower's log *)
Lemma follower_missing : forall e lid t c p pt es nf,
  term nf <= t -> smem lid (tconn nf) = true ->
  get_entries (log nf) (Some p) None None = [] ->
  let s' := on_message e lid (AE t c (Some (p, pt)) es) nf in
  log (nd s') = log nf /\ term (nd s') = t /\ tconn (nd s') = tconn nf /\
  sends_to lid (outs s') = [NextIdx t (last_idx (log nf) + 1) true false].
Proof.
  intros e lid t c p pt es nf Ht Hc Hg. cbv zeta.
  change (on_message e lid (AE t c (Some (p, pt)) es) nf)
    with (on_append_entries e lid (AE t c (Some (p, pt)) es) t c (start_S e nf)).
  rewrite on_append_entries_ae_unfold. cbn [nd start_S].
  destruct (t <? term nf) eqn:E; [lia|].
  destruct (header_facts e lid t c nf Ht) as (H1 & H2 & H3 & H4 & _).
  set (s0 := ae_header e lid t c (start_S e nf)) in *.
  unfold ae_regular. cbn [option_map fst]. rewrite H1, Hg.
  unfold send_next_idx.
  match goal with |- context [send lid ?m s0] => destruct (send_frame lid m s0) as (S1 & _); pose proof (send_outs lid m s0) as So end.
  rewrite S1, So, H3, Hc, sends_to_app, H4, H1, H2. cbn. rewrite N.eqb_refl. auto.
Qed.

(* reject: the term at the previous index differs *)
Lemma follower_mismatch : forall e lid t c p pt es nf p0 ptail,
  term nf <= t -> smem lid (tconn nf) = true ->
  get_entries (log nf) (Some p) None None = p0 :: ptail -> eterm p0 <> pt ->
  let s' := on_message e lid (AE t c (Some (p, pt)) es) nf in
  log (nd s') = log nf /\ term (nd s') = t /\ tconn (nd s') = tconn nf /\
  sends_to lid (outs s') = [NextIdx t p true false].
Proof.
  intros e lid t c p pt es nf p0 ptail Ht Hc Hg Hne. cbv zeta.
  change (on_message e lid (AE t c (Some (p, pt)) es) nf)
    with (on_append_entries e lid (AE t c (Some (p, pt)) es) t c (start_S e nf)).
  rewrite on_append_entries_ae_unfold. cbn [nd start_S].
  destruct (t <? term nf) eqn:E; [lia|].
  destruct (header_facts e lid t c nf Ht) as (H1 & H2 & H3 & H4 & _).
  set (s0 := ae_header e lid t c (start_S e nf)) in *.
  unfold ae_regular. cbn [option_map fst]. rewrite H1, Hg.
  destruct (eterm p0 =? pt) eqn:Et; [lia|]. cbn [negb].
  unfold send_next_idx.
  match goal with |- context [send lid ?m s0] => destruct (send_frame lid m s0) as (S1 & _); pose proof (send_outs lid m s0) as So end.
  rewrite S1, So, H3, Hc, sends_to_app, H4, H1, H2. cbn. rewrite N.eqb_refl. auto.
Qed.

(* accept, in the situation of the back-off: nothing of what follows the previous entry in the
   follower's log matches the new entries *)
Lemma follower_accept : forall e lid t c p pt es nf p0 ptail,
  dyn (cf e) = false ->
  term nf <= t -> smem lid (tconn nf) = true ->
  get_entries (log nf) (Some p) None None = p0 :: ptail -> eterm p0 = pt ->
  matched_prefix ptail es = 0%nat ->
  let s' := on_message e lid (AE t c (Some (p, pt)) es) nf in
  log (nd s') = (match ptail, es with _ :: _, _ :: _ => delete_from (log nf) (p + 1) | _, _ => log nf end) ++ es /\
  term (nd s') = t /\ tconn (nd s') = tconn nf /\
  sends_to lid (outs s') =
    [NextIdx t (match last_entry es with Some le => eidx le + 1 | None => p + 1 end) false true].
Proof.
  intros e lid t c p pt es nf p0 ptail Hdyn Ht Hc Hg Het Hm. cbv zeta.
  change (on_message e lid (AE t c (Some (p, pt)) es) nf)
    with (on_append_entries e lid (AE t c (Some (p, pt)) es) t c (start_S e nf)).
  rewrite on_append_entries_ae_unfold. cbn [nd start_S].
  destruct (t <? term nf) eqn:E; [lia|].
  destruct (header_facts e lid t c nf Ht) as (H1 & H2 & H3 & H4 & _).
  set (s0 := ae_header e lid t c (start_S e nf)) in *.
  unfold ae_regular. cbn [option_map fst]. rewrite H1, Hg.
  clearbody s0.
  destruct (eterm p0 =? pt) eqn:Et; [|lia]. cbn [negb].
  rewrite Hm, Hdyn. cbn [skipn].
  set (s1 := match ptail with [] => s0 | _ :: _ => match es with [] => s0 | _ :: _ => _ end end).
  assert (Hs1 : log (nd s1) = match ptail, es with _ :: _, _ :: _ => delete_from (log nf) (p + 1) | _, _ => log nf end
                /\ term (nd s1) = t /\ tconn (nd s1) = tconn nf /\ outs s1 = outs s0).
  { subst s1. destruct ptail as [|x xs]; [auto|]. destruct es as [|y ys]; [auto|].
    unfold upd. cbn. rewrite H1. replace (p + 1 + 0) with (p + 1) by lia. auto. }
  clearbody s1. destruct Hs1 as (L1 & L2 & L3 & L4).
  set (s2 := upd (fun n => n <| log := log n ++ es |>) s1).
  assert (Hs2 : log (nd s2) = log (nd s1) ++ es /\ term (nd s2) = t /\ tconn (nd s2) = tconn nf /\ outs s2 = outs s0).
  { subst s2. unfold upd. cbn. auto. }
  clearbody s2. destruct Hs2 as (M1 & M2 & M3 & M4).
  unfold send_next_idx.
  match goal with |- context [send lid ?m s2] => destruct (send_frame lid m s2) as (S1 & _); pose proof (send_outs lid m s2) as So end.
  match goal with |- context [ae_commit c ?v ?sx] => destruct (ae_commit_frame c v sx) as [Q1 Q2];
    assert (Q3 : term (nd (ae_commit c v sx)) = term (nd sx) /\ tconn (nd (ae_commit c v sx)) = tconn (nd sx))
  end.
  { unfold ae_commit, upd. match goal with |- context [if ?b then _ else _] => destruct b end; cbn; auto. }
  destruct Q3 as [Q3 Q4].
  rewrite Q1, Q2, Q3, Q4, S1, So, M1, M2, M3, M4, L1, Hc, sends_to_app, H4. cbn. rewrite N.eqb_refl. auto.
Qed.

(* ================= the leader handles the answer ================= *)
Lemma leader_next_idx : forall e fid t nx reset success nl m0 cur,
  role nl = LEADER -> term nl = t -> aget fid (match_idx nl) = Some m0 ->
  aget fid (next_idx nl) = Some cur ->
  let n' := nd (on_message e fid (NextIdx t nx reset success) nl) in
  role n' = LEADER /\ term n' = t /\ log n' = log nl /\ tconn n' = tconn nl /\ commit n' = commit nl /\
  aget fid (match_idx n') = Some (if success && (m0 <? nx - 1) then nx - 1 else m0) /\
  aget fid (next_idx n') =
    (if success && (m0 <? nx - 1) then Some nx else if reset then Some (N.min nx cur) else Some cur).
Proof.
  intros e fid t nx reset success nl m0 cur Hr Ht Hm Hcur. cbv zeta. cbn [on_message nd start_S].
  rewrite Hr, Ht, !N.eqb_refl. cbn [andb].
  set (s1 := if reset then upd (fun n => n <| next_idx := aset fid (match aget fid (next_idx n) with
                                 | Some cur0 => N.min nx cur0 | None => nx end) (next_idx n) |>) (start_S e nl)
             else start_S e nl).
  assert (H1 : role (nd s1) = LEADER /\ term (nd s1) = t /\ log (nd s1) = log nl /\ tconn (nd s1) = tconn nl /\
               commit (nd s1) = commit nl /\ match_idx (nd s1) = match_idx nl /\ exc s1 = 0 /\
               aget fid (next_idx (nd s1)) = if reset then Some (N.min nx cur) else Some cur).
  { subst s1. destruct reset; unfold upd; cbn; repeat split; auto. rewrite Hcur. apply aget_aset_same. }
  clearbody s1. destruct H1 as (A1 & A2 & A3 & A4 & A5 & A6 & A7 & A8).
  destruct success; cbn [andb].
  - rewrite A6, Hm. destruct (m0 <? nx - 1) eqn:Em.
    + unfold ok, upd. cbn. rewrite A7. cbn. repeat split; auto; apply aget_aset_same.
    + unfold ok. rewrite A7. cbn [N.eqb]. unfold upd. cbn. repeat split; auto.
      rewrite A6; exact Hm.
  - unfold ok. rewrite A7. cbn [N.eqb]. unfold upd. cbn. repeat split; auto.
    rewrite A6; exact Hm.
Qed.

(* ================= a common segment C inside a consecutive log X ++ C ++ Y ================= *)
Lemma last_idx_snoc : forall l x, last_idx (l ++ [x]) = eidx x.
Proof. intros. unfold last_idx. rewrite last_entry_app1. reflexivity. Qed.

Lemma seg_idx : forall X C Y, log_wf (X ++ C ++ Y) -> C <> [] ->
  last_idx C + 1 = first_idx (X ++ C ++ Y) + N.of_nat (length X) + N.of_nat (length C) /\
  consec (last_idx C + 1) Y /\
  last_idx (X ++ C ++ Y) = last_idx C + N.of_nat (length Y) /\
  first_idx (X ++ C ++ Y) <= last_idx C.
Proof.
  intros X C Y Hwf Hc. unfold log_wf in Hwf.
  apply consec_app in Hwf. destruct Hwf as [HX Hwf]. apply consec_app in Hwf. destruct Hwf as [HC HY].
  pose proof (consec_last_idx _ _ HC Hc) as Hl.
  assert (H1 : last_idx C + 1 = first_idx (X ++ C ++ Y) + N.of_nat (length X) + N.of_nat (length C)) by lia.
  split; [exact H1|]. split; [rewrite H1; exact HY|]. split.
  - destruct Y as [|y Y'].
    + rewrite app_nil_r. rewrite last_idx_app by exact Hc. cbn. lia.
    + rewrite app_assoc. rewrite last_idx_app by discriminate.
      pose proof (consec_last_idx _ _ HY ltac:(discriminate)) as Hq. lia.
  - destruct C; [congruence|]. cbn [length] in *. lia.
Qed.

Lemma get_entries_seg_tail : forall X C Y j cnt, log_wf (X ++ C ++ Y) -> C <> [] -> (j < length Y)%nat ->
  get_entries (X ++ C ++ Y) (Some (last_idx C + 1 + N.of_nat j)) cnt None =
  match cnt with None => skipn j Y | Some c => firstn (N.to_nat c) (skipn j Y) end.
Proof.
  intros X C Y j cnt Hwf Hc Hj.
  destruct (seg_idx X C Y Hwf Hc) as (H1 & _).
  assert (Hne : skipn j Y <> []).
  { intros H. assert (Hl : length (skipn j Y) = (length Y - j)%nat) by apply skipn_length.
    rewrite H in Hl. cbn in Hl. lia. }
  assert (Hsplit : X ++ C ++ Y = (X ++ C ++ firstn j Y) ++ skipn j Y).
  { rewrite <- !app_assoc. rewrite firstn_skipn. reflexivity. }
  rewrite Hsplit in Hwf |- *.
  pose proof (wf_app_first _ _ Hwf Hne) as Hf.
  replace (last_idx C + 1 + N.of_nat j) with (first_idx (skipn j Y)).
  - apply get_entries_split; auto.
  - rewrite Hf. rewrite <- Hsplit. rewrite !app_length, firstn_length_le by lia. lia.
Qed.

Lemma get_entries_seg_last : forall X C0 cl Y cnt, log_wf (X ++ (C0 ++ [cl]) ++ Y) ->
  get_entries (X ++ (C0 ++ [cl]) ++ Y) (Some (eidx cl)) cnt None =
  match cnt with None => cl :: Y | Some c => firstn (N.to_nat c) (cl :: Y) end.
Proof.
  intros X C0 cl Y cnt Hwf.
  assert (Hsplit : X ++ (C0 ++ [cl]) ++ Y = (X ++ C0) ++ cl :: Y).
  { rewrite <- !app_assoc. reflexivity. }
  rewrite Hsplit in Hwf |- *.
  change (eidx cl) with (first_idx (cl :: Y)). apply get_entries_split; auto. discriminate.
Qed.

Lemma snoc_cases : forall (C : list entry), C <> [] -> exists C0 cl, C = C0 ++ [cl].
Proof.
  intros C H. destruct (exists_last H) as (C0 & cl & Heq). eauto.
Qed.

Lemma conflict_matched : forall (restL restF : list entry) k,
  (forall i a b, nth_error restL i = Some a -> nth_error restF i = Some b -> eterm a <> eterm b) ->
  matched_prefix restF (firstn k restL) = 0%nat.
Proof.
  intros restL restF k H. destruct restF as [|b rf]; [reflexivity|].
  destruct k as [|k]; [reflexivity|]. destruct restL as [|a rl]; [reflexivity|].
  cbn. specialize (H 0%nat a b eq_refl eq_refl). destruct (eterm b =? eterm a) eqn:E; [lia|reflexivity].
Qed.

Lemma get_entries_maxsz : forall l f c m,
  get_entries l f c (Some m) = take_size m 0 (get_entries l f c None).
Proof.
  intros l f c m. unfold get_entries. destruct f as [f|]; [|reflexivity].
  destruct (f <? first_idx l); reflexivity.
Qed.

Lemma nth_error_skipn_cons : forall (l : list entry) j a,
  nth_error l j = Some a -> exists r, skipn j l = a :: r.
Proof.
  induction l as [|x l IH]; intros [|j] a H; cbn in *; try discriminate.
  - inversion H; subst. eauto.
  - apply IH. exact H.
Qed.

(* a batch cut from inside the log is not empty, starts at next and stays inside the log *)
Lemma batch_from_bounds : forall e l next, log_wf l -> first_idx l < next -> next <= last_idx l ->
  batch_from e l next <> [] /\ consec next (batch_from e l next) /\
  next <= last_idx (batch_from e l next) /\ last_idx (batch_from e l next) <= last_idx l.
Proof.
  intros e l next Hwf Hf Hl. unfold batch_from.
  destruct (next <=? last_idx l) eqn:En; [|lia]. rewrite get_entries_maxsz.
  pose proof (get_entries_consec l next None Hwf) as Hc.
  assert (Hne : l <> []) by (intros ->; cbn in *; lia).
  pose proof (consec_last_idx _ _ Hwf Hne) as Hq.
  assert (Hr : get_entries l (Some next) None None = skipn (N.to_nat (next - first_idx l)) l).
  { unfold get_entries. destruct (next <? first_idx l) eqn:E; [lia|reflexivity]. }
  set (r := get_entries l (Some next) None None) in *.
  assert (Hlen : length r = (length l - N.to_nat (next - first_idx l))%nat) by (rewrite Hr; apply skipn_length).
  assert (Hrne : r <> []) by (intros H0; rewrite H0 in Hlen; cbn in Hlen; lia).
  destruct (take_size_firstn r (batch (cf e)) 0) as (k & K1 & K2 & K3). specialize (K2 Hrne).
  rewrite K1.
  assert (Hk : length (firstn k r) = k) by (apply firstn_length_le; exact K3).
  assert (Hene : firstn k r <> []) by (intros H0; rewrite H0 in Hk; cbn in Hk; lia).
  pose proof (consec_firstn k r next Hc) as Hce.
  pose proof (consec_last_idx _ _ Hce Hene) as Hqe.
  repeat split; auto; lia.
Qed.

Lemma round_unfold : forall e lid fid nl nf next M R,
  aget fid (next_idx nl) = Some next ->
  outs (fst (ae_body e fid next (start_S e nl))) = [Send fid M] ->
  sends_to lid (outs (on_message e lid M nf)) = [R] ->
  round e lid fid (nl, nf) =
  (nd (on_message e fid R (nd (fst (ae_body e fid next (start_S e nl))))), nd (on_message e lid M nf)).
Proof.
  intros e lid fid nl nf next M R Hn Ho Hr. unfold round. rewrite Hn, Ho.
  assert (Hs : sends_to fid [Send fid M] = [M]).
  { unfold sends_to. cbn [flat_map]. rewrite N.eqb_refl. reflexivity. }
  rewrite Hs, deliver_one, Hr, deliver_one. reflexivity.
Qed.

Section Backoff.
Variable e : env.
Variables lid fid : nid.
Variable T : N.
Variable L : list entry.
Hypothesis Hdyn : dyn (cf e) = false.
Hypothesis Hbatch : 1 <= batch (cf e).
Hypothesis Hnb : no_big e L.
Hypothesis HLwf : log_wf L.

(* The leader's log is preL ++ C ++ restL, the follower's preF ++ C ++ restF: they share the
   segment C (it ends at the index m up to which the logs agree), and what follows conflicts
   position by position (different terms) or ends. *)
Record binv (next : N) (preL C restL preF restF : list entry) (nl nf : node) : Prop := {
  bi_role : role nl = LEADER;
  bi_term : term nl = T;
  bi_log : log nl = L;
  bi_L : L = preL ++ C ++ restL;
  bi_conn_l : smem fid (tconn nl) = true;
  bi_next : aget fid (next_idx nl) = Some next;
  bi_match : exists m0, aget fid (match_idx nl) = Some m0;
  bi_fterm : term nf <= T;
  bi_conn_f : smem lid (tconn nf) = true;
  bi_F : log nf = preF ++ C ++ restF;
  bi_Fwf : log_wf (log nf);
  bi_C : C <> [];
  bi_conflict : forall i a b, nth_error restL i = Some a -> nth_error restF i = Some b -> eterm a <> eterm b;
  bi_lo : last_idx C < next;
  bi_hi : next <= last_idx L + 1
}.

Definition mu (next : N) (C restL : list entry) : N := N.of_nat (length restL) + (next - last_idx C - 1).

(* what the leader's node looks like after sending *)
Lemma leader_after_send : forall nl next,
  role nl = LEADER -> term nl = T -> log nl = L -> smem fid (tconn nl) = true ->
  aget fid (next_idx nl) = Some next -> first_idx L < next ->
  let es := batch_from e L next in
  let s1 := fst (ae_body e fid next (start_S e nl)) in
  outs s1 = [Send fid (AE T (commit nl) (get_prev L next) es)] /\
  role (nd s1) = LEADER /\ term (nd s1) = T /\ log (nd s1) = L /\ tconn (nd s1) = tconn nl /\
  match_idx (nd s1) = match_idx nl /\
  aget fid (next_idx (nd s1)) = Some (if next <=? last_idx L then last_idx es + 1 else next).
Proof.
  intros nl next Hr Ht Hl Hc Hn Hf. cbv zeta.
  assert (Hf' : first_idx (log nl) < next) by (rewrite Hl; exact Hf).
  assert (Hnb' : no_big e (log nl)) by (rewrite Hl; exact Hnb).
  destruct (leader_send e fid nl next Hf' Hnb' Hc) as [H1 H2].
  rewrite Hl, Ht in H1. rewrite Hl in H2. split; [exact H1|]. rewrite H2.
  destruct (next <=? last_idx L); cbn; repeat split; auto. apply aget_aset_same.
Qed.

(* case A: the follower does not have the previous index at all *)
Lemma round_missing : forall next preL C restL preF restF nl nf,
  binv next preL C restL preF restF nl nf ->
  last_idx (log nf) < next - 1 ->
  let st := round e lid fid (nl, nf) in
  binv (last_idx (log nf) + 1) preL C restL preF restF (fst st) (snd st) /\ log (snd st) = log nf.
Proof.
  intros next preL C restL preF restF nl nf B Hlt. cbv zeta. destruct B.
  assert (HwfL : log_wf (preL ++ C ++ restL)) by (rewrite <- bi_L0; exact HLwf).
  assert (HwfF : log_wf (preF ++ C ++ restF)) by (rewrite <- bi_F0; exact bi_Fwf0).
  destruct (seg_idx preL C restL HwfL bi_C0) as (SL1 & SL2 & SL3 & SL4).
  rewrite <- bi_L0 in SL3, SL4.
  destruct (seg_idx preF C restF HwfF bi_C0) as (SF1 & SF2 & SF3 & SF4).
  rewrite <- bi_F0 in SF3, SF4.
  assert (Hf : first_idx L < next) by lia.
  destruct (leader_after_send nl next bi_role0 bi_term0 bi_log0 bi_conn_l0 bi_next0 Hf)
    as (S1 & S2 & S3 & S4 & S5 & S6 & S7).
  (* the previous entry exists in the leader's log *)
  assert (Hp : exists a, get_entries L (Some (next - 1)) (Some 1) None = [a]).
  { assert (Hj : (N.to_nat (next - 1 - last_idx C - 1) < length restL)%nat) by lia.
    pose proof (get_entries_seg_tail preL C restL _ (Some 1) HwfL bi_C0 Hj) as Hg.
    rewrite <- bi_L0 in Hg.
    replace (last_idx C + 1 + N.of_nat (N.to_nat (next - 1 - last_idx C - 1))) with (next - 1) in Hg by lia.
    rewrite Hg. change (N.to_nat 1) with 1%nat.
    destruct (skipn (N.to_nat (next - 1 - last_idx C - 1)) restL) as [|a r] eqn:Es.
    - assert (Hl : length (skipn (N.to_nat (next - 1 - last_idx C - 1)) restL) =
                   (length restL - N.to_nat (next - 1 - last_idx C - 1))%nat) by apply skipn_length.
      rewrite Es in Hl. cbn in Hl. lia.
    - exists a. reflexivity. }
  destruct Hp as [a Ha].
  assert (Hprev : get_prev L next = Some (next - 1, eterm a)) by (unfold get_prev; rewrite Ha; reflexivity).
  rewrite Hprev in S1.
  assert (Hg : get_entries (log nf) (Some (next - 1)) None None = []) by (apply get_entries_beyond; auto).
  destruct (follower_missing e lid T (commit nl) (next - 1) (eterm a) (batch_from e L next) nf bi_fterm0 bi_conn_f0 Hg)
    as (F1 & F2 & F3 & F4).
  rewrite (round_unfold e lid fid nl nf next _ _ bi_next0 S1 F4). cbn [fst snd].
  destruct bi_match0 as [m0 Hm0]. rewrite <- S6 in Hm0.
  destruct (leader_next_idx e fid T (last_idx (log nf) + 1) true false _ m0 _ S2 S3 Hm0 S7)
    as (N1 & N2 & N3 & N4 & N5 & N6 & N7).
  cbn [andb] in N6, N7.
  assert (Hcur : next <= (if next <=? last_idx L then last_idx (batch_from e L next) + 1 else next)).
  { destruct (next <=? last_idx L) eqn:En; [|lia].
    destruct (batch_from_bounds e L next HLwf Hf ltac:(lia)) as (_ & _ & Hb & _). lia. }
  rewrite N.min_l in N7 by lia.
  split; [|exact F1].
  constructor; eauto; try congruence; try lia.
Qed.

(* case B: the follower has the previous index, beyond the common segment: the terms differ *)
Lemma round_mismatch : forall next preL C restL preF restF nl nf,
  binv next preL C restL preF restF nl nf ->
  last_idx C < next - 1 -> next - 1 <= last_idx (log nf) ->
  let st := round e lid fid (nl, nf) in
  binv (next - 1) preL C restL preF restF (fst st) (snd st) /\ log (snd st) = log nf.
Proof.
  intros next preL C restL preF restF nl nf B Hgt Hle. cbv zeta. destruct B.
  assert (HwfL : log_wf (preL ++ C ++ restL)) by (rewrite <- bi_L0; exact HLwf).
  assert (HwfF : log_wf (preF ++ C ++ restF)) by (rewrite <- bi_F0; exact bi_Fwf0).
  destruct (seg_idx preL C restL HwfL bi_C0) as (SL1 & SL2 & SL3 & SL4).
  rewrite <- bi_L0 in SL3, SL4.
  destruct (seg_idx preF C restF HwfF bi_C0) as (SF1 & SF2 & SF3 & SF4).
  rewrite <- bi_F0 in SF3, SF4.
  assert (Hf : first_idx L < next) by lia.
  destruct (leader_after_send nl next bi_role0 bi_term0 bi_log0 bi_conn_l0 bi_next0 Hf)
    as (S1 & S2 & S3 & S4 & S5 & S6 & S7).
  set (j := N.to_nat (next - 1 - last_idx C - 1)).
  assert (HjL : (j < length restL)%nat) by (subst j; lia).
  assert (HjF : (j < length restF)%nat) by (subst j; lia).
  assert (Hidx : last_idx C + 1 + N.of_nat j = next - 1) by (subst j; lia).
  (* the leader's entry at next - 1 *)
  pose proof (get_entries_seg_tail preL C restL j (Some 1) HwfL bi_C0 HjL) as HgL.
  rewrite <- bi_L0, Hidx in HgL. change (N.to_nat 1) with 1%nat in HgL.
  destruct (nth_error restL j) as [a|] eqn:Ea; [|apply nth_error_None in Ea; lia].
  assert (HsL : exists r, skipn j restL = a :: r) by (apply nth_error_skipn_cons; exact Ea).
  destruct HsL as [rL HsL]. rewrite HsL in HgL. cbn [firstn] in HgL.
  assert (Hprev : get_prev L next = Some (next - 1, eterm a)) by (unfold get_prev; rewrite HgL; reflexivity).
  rewrite Hprev in S1.
  (* the follower's entry at next - 1 *)
  pose proof (get_entries_seg_tail preF C restF j None HwfF bi_C0 HjF) as HgF.
  rewrite <- bi_F0, Hidx in HgF.
  destruct (nth_error restF j) as [b|] eqn:Eb; [|apply nth_error_None in Eb; lia].
  assert (HsF : exists r, skipn j restF = b :: r) by (apply nth_error_skipn_cons; exact Eb).
  destruct HsF as [rF HsF]. rewrite HsF in HgF.
  assert (Hne : eterm b <> eterm a) by (intros Heq; apply (bi_conflict0 j a b Ea Eb); auto).
  destruct (follower_mismatch e lid T (commit nl) (next - 1) (eterm a) (batch_from e L next) nf b rF
              bi_fterm0 bi_conn_f0 HgF Hne) as (F1 & F2 & F3 & F4).
  rewrite (round_unfold e lid fid nl nf next _ _ bi_next0 S1 F4). cbn [fst snd].
  destruct bi_match0 as [m0 Hm0]. rewrite <- S6 in Hm0.
  destruct (leader_next_idx e fid T (next - 1) true false _ m0 _ S2 S3 Hm0 S7)
    as (N1 & N2 & N3 & N4 & N5 & N6 & N7).
  cbn [andb] in N6, N7.
  assert (Hcur : next <= (if next <=? last_idx L then last_idx (batch_from e L next) + 1 else next)).
  { destruct (next <=? last_idx L) eqn:En; [|lia].
    destruct (batch_from_bounds e L next HLwf Hf ltac:(lia)) as (_ & _ & Hb & _). lia. }
  rewrite N.min_l in N7 by lia.
  split; [|exact F1].
  constructor; eauto; try congruence; try lia.
Qed.

(* case C: the previous index is the end of the common segment: accepted; the follower's log
   becomes preF ++ C ++ (the batch), or stays as it is when the leader has nothing more *)
Lemma round_accept : forall preL C restL preF restF nl nf,
  binv (last_idx C + 1) preL C restL preF restF nl nf ->
  let st := round e lid fid (nl, nf) in
  exists k, (k <= length restL)%nat /\ (restL <> [] -> (1 <= k)%nat) /\
    binv (last_idx (C ++ firstn k restL) + 1) preL (C ++ firstn k restL) (skipn k restL) preF
         (match k with O => restF | _ => [] end) (fst st) (snd st) /\
    exists m1, aget fid (match_idx (fst st)) = Some m1 /\ last_idx (C ++ firstn k restL) <= m1.
Proof.
  intros preL C restL preF restF nl nf B. cbv zeta. destruct B.
  assert (HwfL : log_wf (preL ++ C ++ restL)) by (rewrite <- bi_L0; exact HLwf).
  assert (HwfF : log_wf (preF ++ C ++ restF)) by (rewrite <- bi_F0; exact bi_Fwf0).
  destruct (seg_idx preL C restL HwfL bi_C0) as (SL1 & SL2 & SL3 & SL4).
  rewrite <- bi_L0 in SL3, SL4.
  destruct (seg_idx preF C restF HwfF bi_C0) as (SF1 & SF2 & SF3 & SF4).
  rewrite <- bi_F0 in SF3, SF4.
  set (next := last_idx C + 1) in *.
  assert (Hf : first_idx L < next) by (subst next; lia).
  destruct (leader_after_send nl next bi_role0 bi_term0 bi_log0 bi_conn_l0 bi_next0 Hf)
    as (S1 & S2 & S3 & S4 & S5 & S6 & S7).
  destruct (snoc_cases C bi_C0) as (C0 & cl & HC).
  assert (Hcl : last_idx C = eidx cl) by (rewrite HC; apply last_idx_snoc).
  (* previous entry: the last entry of C, in both logs *)
  assert (HgL : get_entries L (Some (next - 1)) (Some 1) None = [cl]).
  { replace (next - 1) with (eidx cl) by (subst next; lia).
    rewrite bi_L0, HC. rewrite get_entries_seg_last by (rewrite <- HC; exact HwfL). reflexivity. }
  assert (Hprev : get_prev L next = Some (next - 1, eterm cl)) by (unfold get_prev; rewrite HgL; reflexivity).
  rewrite Hprev in S1.
  assert (HgF : get_entries (log nf) (Some (next - 1)) None None = cl :: restF).
  { replace (next - 1) with (eidx cl) by (subst next; lia).
    rewrite bi_F0, HC. rewrite get_entries_seg_last by (rewrite <- HC; exact HwfF). reflexivity. }
  (* the batch is a prefix of restL *)
  assert (Hes : exists k, batch_from e L next = firstn k restL /\ (k <= length restL)%nat /\
                          (restL <> [] -> (1 <= k)%nat)).
  { unfold batch_from. destruct (next <=? last_idx L) eqn:En.
    - rewrite get_entries_maxsz.
      assert (H0 : (0 < length restL)%nat) by lia.
      pose proof (get_entries_seg_tail preL C restL 0 None HwfL bi_C0 H0) as Hg.
      rewrite <- bi_L0 in Hg. replace (last_idx C + 1 + N.of_nat 0) with next in Hg by (subst next; lia).
      rewrite Hg. cbn [skipn].
      destruct (take_size_firstn restL (batch (cf e)) 0) as (k & K1 & K2 & K3). exists k. auto.
    - exists 0%nat. cbn. repeat split; try lia. intros Hne. destruct restL; [congruence|]. cbn [length] in *. lia. }
  destruct Hes as (k & Hes & Hk1 & Hk2). rewrite Hes in *.
  pose proof (conflict_matched restL restF k bi_conflict0) as Hmp.
  destruct (follower_accept e lid T (commit nl) (next - 1) (eterm cl) (firstn k restL) nf cl restF
              Hdyn bi_fterm0 bi_conn_f0 HgF eq_refl Hmp) as (F1 & F2 & F3 & F4).
  rewrite (round_unfold e lid fid nl nf next _ _ bi_next0 S1 F4). cbn [fst snd].
  destruct bi_match0 as [m0 Hm0]. rewrite <- S6 in Hm0.
  set (nx := match last_entry (firstn k restL) with Some le => eidx le + 1 | None => next - 1 + 1 end) in *.
  destruct (leader_next_idx e fid T nx false true _ m0 _ S2 S3 Hm0 S7)
    as (N1 & N2 & N3 & N4 & N5 & N6 & N7).
  cbn [andb] in N6, N7.
  (* the new common segment *)
  assert (Hnx : nx = last_idx (C ++ firstn k restL) + 1).
  { subst nx. destruct (firstn k restL) as [|y ys] eqn:Ef.
    - rewrite app_nil_r. cbn. subst next. lia.
    - rewrite last_idx_app by discriminate. unfold last_idx.
      destruct (last_entry (y :: ys)) as [le|] eqn:El; [reflexivity|].
      exfalso. clear - El. revert y El. induction ys as [|z ys IH]; intros y El; cbn in El; [discriminate|].
      eapply IH; eauto. }
  assert (Hopt : (if next <=? last_idx L then last_idx (firstn k restL) + 1 else next) = nx).
  { rewrite Hnx. destruct (next <=? last_idx L) eqn:En.
    - assert (Hne : firstn k restL <> []).
      { destruct restL as [|y ys]; [cbn [length] in *; lia|]. specialize (Hk2 ltac:(discriminate)).
        destruct k; [lia|]. discriminate. }
      rewrite last_idx_app by exact Hne. reflexivity.
    - assert (Hr : restL = []) by (destruct restL; [reflexivity|cbn [length] in *; lia]).
      subst restL. destruct k; cbn; rewrite app_nil_r; subst next; reflexivity. }
  assert (Hnext' : aget fid (next_idx (nd (on_message e fid (NextIdx T nx false true)
                      (nd (fst (ae_body e fid next (start_S e nl))))))) = Some nx).
  { rewrite N7. destruct (m0 <? nx - 1); [reflexivity|]. rewrite Hopt. reflexivity. }
  exists k. split; [exact Hk1|]. split; [exact Hk2|].
  (* the follower's new log *)
  assert (HF' : log (nd (on_message e lid (AE T (commit nl) (Some (next - 1, eterm cl)) (firstn k restL)) nf)) =
                preF ++ (C ++ firstn k restL) ++ match k with O => restF | _ => [] end).
  { rewrite F1. destruct k as [|k'].
    - cbn [firstn]. rewrite app_nil_r.
      destruct restF; rewrite app_nil_r; exact bi_F0.
    - destruct restL as [|y ys]; [cbn [length] in *; lia|]. cbn [firstn].
      destruct restF as [|z zs].
      + rewrite bi_F0. rewrite !app_nil_r. rewrite <- app_assoc. reflexivity.
      + assert (Hd : delete_from (log nf) (next - 1 + 1) = preF ++ C).
        { rewrite bi_F0. rewrite app_assoc.
          replace (next - 1 + 1) with (first_idx (z :: zs)).
          - apply delete_from_split; [rewrite <- app_assoc; exact HwfF | discriminate | destruct preF; destruct C; try discriminate; congruence].
          - cbn [consec] in SF2. destruct SF2 as [SF2 _]. cbn [first_idx]. subst next. lia. }
        rewrite Hd. rewrite app_nil_r, <- !app_assoc. reflexivity. }
  (* consecutive indices of the new log *)
  assert (HwfL' : log_wf (preL ++ (C ++ firstn k restL) ++ skipn k restL)).
  { rewrite <- app_assoc. rewrite firstn_skipn. exact HwfL. }
  assert (HwfF' : log_wf (preF ++ (C ++ firstn k restL) ++ match k with O => restF | _ => [] end)).
  { destruct k as [|k'].
    - cbn [firstn]. rewrite app_nil_r. exact HwfF.
    - rewrite app_nil_r. rewrite app_assoc.
      unfold log_wf in HwfF |- *. rewrite app_assoc in HwfF.
      assert (Hfi : first_idx ((preF ++ C) ++ firstn (Datatypes.S k') restL) = first_idx ((preF ++ C) ++ restF)).
      { destruct (preF ++ C) eqn:Ep; [destruct preF; destruct C; try discriminate; congruence|]. reflexivity. }
      rewrite Hfi. apply consec_app in HwfF. destruct HwfF as [Hpc _].
      apply consec_app. split; [exact Hpc|].
      apply consec_firstn.
      replace (first_idx ((preF ++ C) ++ restF) + N.of_nat (length (preF ++ C))) with (last_idx C + 1).
      * exact SL2.
      * rewrite app_length. rewrite <- app_assoc. lia. }
  split.
  - assert (HC' : C ++ firstn k restL <> []) by (destruct C; [congruence|discriminate]).
    destruct (seg_idx preL (C ++ firstn k restL) (skipn k restL) HwfL' HC') as (TL1 & TL2 & TL3 & TL4).
    assert (HL' : L = preL ++ (C ++ firstn k restL) ++ skipn k restL).
    { rewrite <- app_assoc. rewrite firstn_skipn. exact bi_L0. }
    rewrite <- HL' in TL3.
    constructor; eauto; try congruence; try lia.
    intros i a b Ha Hb. destruct k as [|k'].
    + (* nothing sent: restL is empty *)
      destruct restL as [|y ys]; [destruct i; discriminate|]. specialize (Hk2 ltac:(discriminate)). lia.
    + destruct i; discriminate.
  - eexists. split; [exact N6|]. destruct (m0 <? nx - 1) eqn:Em; lia.
Qed.

Lemma rounds_S : forall k st, rounds (Datatypes.S k) e lid fid st = rounds k e lid fid (round e lid fid st).
Proof. reflexivity. Qed.

Lemma pair_eta : forall (st : node * node), st = (fst st, snd st).
Proof. intros [a b]; reflexivity. Qed.

Lemma mu_bound : forall next preL C restL preF restF nl nf,
  binv next preL C restL preF restF nl nf -> mu next C restL <= 2 * (last_idx L - last_idx C).
Proof.
  intros next preL C restL preF restF nl nf B. destruct B.
  assert (HwfL : log_wf (preL ++ C ++ restL)) by (rewrite <- bi_L0; exact HLwf).
  destruct (seg_idx preL C restL HwfL bi_C0) as (_ & _ & SL3 & _). rewrite <- bi_L0 in SL3.
  unfold mu. lia.
Qed.

(* the measure decreases until the follower holds the leader's log *)
Lemma backoff_reaches : forall n next preL C restL preF restF nl nf,
  binv next preL C restL preF restF nl nf ->
  (N.to_nat (mu next C restL) <= n)%nat ->
  exists k restF', (k <= n)%nat /\
    binv (last_idx L + 1) preL (C ++ restL) [] preF restF'
         (fst (rounds k e lid fid (nl, nf))) (snd (rounds k e lid fid (nl, nf))).
Proof.
  induction n as [|n IH]; intros next preL C restL preF restF nl nf B Hmu.
  - (* measure 0: nothing left to send, next is right *)
    pose proof B as B0. destruct B.
    assert (HwfL : log_wf (preL ++ C ++ restL)) by (rewrite <- bi_L0; exact HLwf).
    destruct (seg_idx preL C restL HwfL bi_C0) as (_ & _ & SL3 & _). rewrite <- bi_L0 in SL3.
    unfold mu in Hmu.
    assert (Hr : restL = []) by (destruct restL; [reflexivity|cbn [length] in *; lia]).
    subst restL. exists 0%nat, restF. split; [lia|]. cbn [rounds fst snd].
    rewrite app_nil_r. replace (last_idx L + 1) with next by (cbn [length] in *; lia). exact B0.
  - pose proof B as B0. destruct B.
    assert (HwfL : log_wf (preL ++ C ++ restL)) by (rewrite <- bi_L0; exact HLwf).
    assert (HwfF : log_wf (preF ++ C ++ restF)) by (rewrite <- bi_F0; exact bi_Fwf0).
    destruct (seg_idx preL C restL HwfL bi_C0) as (_ & _ & SL3 & _). rewrite <- bi_L0 in SL3.
    destruct (seg_idx preF C restF HwfF bi_C0) as (_ & _ & SF3 & _). rewrite <- bi_F0 in SF3.
    destruct (N.eq_dec (next - 1) (last_idx C)) as [Heq|Hne].
    + (* accepted *)
      assert (Hnext : next = last_idx C + 1) by lia. subst next.
      destruct restL as [|y ys].
      * exists 0%nat, restF. split; [lia|]. cbn [rounds fst snd]. rewrite app_nil_r.
        replace (last_idx L + 1) with (last_idx C + 1) by (cbn [length] in *; lia). exact B0.
      * destruct (round_accept preL C (y :: ys) preF restF nl nf B0) as (k & Hk1 & Hk2 & B1 & _).
        specialize (Hk2 ltac:(discriminate)).
        rewrite (pair_eta (round e lid fid (nl, nf))) in B1. cbn [fst snd] in B1.
        destruct (IH _ _ _ _ _ _ _ _ B1) as (k2 & restF' & Hk2' & B2).
        { unfold mu in *. rewrite skipn_length. cbn [length] in *. lia. }
        exists (Datatypes.S k2), restF'. split; [lia|]. rewrite rounds_S.
        rewrite <- app_assoc, firstn_skipn in B2.
        rewrite (pair_eta (round e lid fid (nl, nf))). exact B2.
    + destruct (N.lt_ge_cases (last_idx (log nf)) (next - 1)) as [Hlt|Hge].
      * destruct (round_missing next preL C restL preF restF nl nf B0 Hlt) as [B1 _].
        rewrite (pair_eta (round e lid fid (nl, nf))) in B1. cbn [fst snd] in B1.
        destruct (IH _ _ _ _ _ _ _ _ B1) as (k2 & restF' & Hk2' & B2).
        { unfold mu in *. lia. }
        exists (Datatypes.S k2), restF'. split; [lia|]. rewrite rounds_S.
        rewrite (pair_eta (round e lid fid (nl, nf))). exact B2.
      * assert (Hgt : last_idx C < next - 1) by lia.
        destruct (round_mismatch next preL C restL preF restF nl nf B0 Hgt Hge) as [B1 _].
        rewrite (pair_eta (round e lid fid (nl, nf))) in B1. cbn [fst snd] in B1.
        destruct (IH _ _ _ _ _ _ _ _ B1) as (k2 & restF' & Hk2' & B2).
        { unfold mu in *. lia. }
        exists (Datatypes.S k2), restF'. split; [lia|]. rewrite rounds_S.
        rewrite (pair_eta (round e lid fid (nl, nf))). exact B2.
Qed.

(* once there, every further round is an accepted heartbeat: nothing changes, the answer is a
   success with next = last index + 1 *)
Lemma converged_stable : forall preL C preF restF nl nf,
  binv (last_idx L + 1) preL C [] preF restF nl nf ->
  let st := round e lid fid (nl, nf) in
  binv (last_idx L + 1) preL C [] preF restF (fst st) (snd st) /\
  exists m1, aget fid (match_idx (fst st)) = Some m1 /\ last_idx L <= m1.
Proof.
  intros preL C preF restF nl nf B. cbv zeta.
  pose proof B as B0. destruct B.
  assert (HwfL : log_wf (preL ++ C ++ [])) by (rewrite <- bi_L0; exact HLwf).
  destruct (seg_idx preL C [] HwfL bi_C0) as (_ & _ & SL3 & _). rewrite <- bi_L0 in SL3.
  cbn [length] in SL3.
  assert (Hll : last_idx L = last_idx C) by lia.
  rewrite Hll in B0 |- *.
  destruct (round_accept preL C [] preF restF nl nf B0) as (k & Hk1 & _ & B1 & Hm).
  assert (k = 0)%nat by (cbn [length] in Hk1; lia). subst k.
  cbn [firstn skipn] in B1, Hm. rewrite app_nil_r in B1, Hm. split; [exact B1|exact Hm].
Qed.

Lemma converged_stable_rounds : forall j preL C preF restF nl nf,
  binv (last_idx L + 1) preL C [] preF restF nl nf ->
  binv (last_idx L + 1) preL C [] preF restF
       (fst (rounds j e lid fid (nl, nf))) (snd (rounds j e lid fid (nl, nf))).
Proof.
  induction j as [|j IH]; intros preL C preF restF nl nf B; [exact B|].
  rewrite rounds_S. destruct (converged_stable preL C preF restF nl nf B) as [B1 _].
  rewrite (pair_eta (round e lid fid (nl, nf))). apply IH. exact B1.
Qed.

Lemma rounds_add : forall a b st, rounds (a + b) e lid fid st = rounds b e lid fid (rounds a e lid fid st).
Proof. induction a as [|a IH]; intros b st; [reflexivity|]. cbn [Nat.add]. rewrite !rounds_S. apply IH. Qed.

(* C05_backoff_converges *)
Theorem backoff_converges : forall next preL C restL preF restF nl nf,
  binv next preL C restL preF restF nl nf ->
  exists k restF', (k <= N.to_nat (mu next C restL))%nat /\
    forall j, (k <= j)%nat ->
      let st := rounds j e lid fid (nl, nf) in
      log (fst st) = L /\ log (snd st) = preF ++ (C ++ restL) ++ restF' /\
      aget fid (next_idx (fst st)) = Some (last_idx L + 1) /\
      (* one more round: the answer was a success for the whole log *)
      exists m1, aget fid (match_idx (fst (round e lid fid st))) = Some m1 /\ last_idx L <= m1.
Proof.
  intros next preL C restL preF restF nl nf B.
  destruct (backoff_reaches (N.to_nat (mu next C restL)) next preL C restL preF restF nl nf B (le_n _))
    as (k & restF' & Hk & Bk).
  exists k, restF'. split; [exact Hk|]. intros j Hj. cbv zeta.
  replace j with (k + (j - k))%nat by lia. rewrite rounds_add.
  rewrite (pair_eta (rounds k e lid fid (nl, nf))).
  pose proof (converged_stable_rounds (j - k) _ _ _ _ _ _ Bk) as Bj.
  set (st := rounds (j - k) e lid fid (fst (rounds k e lid fid (nl, nf)), snd (rounds k e lid fid (nl, nf)))) in *.
  pose proof Bj as Bj0. destruct Bj.
  repeat split; auto.
  destruct (converged_stable _ _ _ _ _ _ Bj0) as [_ Hm].
  rewrite <- (pair_eta st) in Hm. exact Hm.
Qed.

End Backoff.
