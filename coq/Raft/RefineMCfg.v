(* Tier CM, part 1b: member tables.  The L1 table [others] (a sorted list over N, changed by
   step_member, undone on truncation) against AbstractM's [others_of] (recomputed from the log). *)
From Coq Require Import ZArith NArith List Bool Lia ZifyBool Arith PeanoNat.
From PSO Require Import Raft.Types Raft.Node Raft.Net.
From PSO Require Import Raft.ProofsElectionBase Raft.ProofsMembership Raft.RefineMAbs Raft.RefineMEff.
From PSO Require AbstractM.Model AbstractM.Lib AbstractM.Kstep AbstractM.Cfg.
Import ListNotations.
Open Scope N_scope.

(* same elements, through n2 *)
Definition ms (l : list nid) (o : list nat) : Prop := forall y, In y l <-> In (n2 y) o.

Lemma ms_nat l o k : ms l o -> (In k o <-> In (N.of_nat k) l).
Proof. intros H. rewrite (H (N.of_nat k)). rewrite Nat2N.id. tauto. Qed.

Lemma ssorted_NoDup l : ssorted l -> NoDup l.
Proof.
  induction l as [|x r IH]; intros H; [constructor|].
  assert (Hr : ssorted r) by (destruct H; auto).
  constructor; auto. intros Hin.
  pose proof (ssorted_lb x r H x (In_smem _ _ Hin)). lia.
Qed.

Lemma smem_iff x l : smem x l = true <-> In x l.
Proof.
  induction l as [|y r IH]; cbn; [split; [discriminate|tauto]|].
  rewrite orb_true_iff, IH, N.eqb_eq. split; intros [H|H]; auto.
Qed.

Lemma In_sdel x y l : ssorted l -> (In y (sdel x l) <-> In y l /\ y <> x).
Proof.
  intros Hs. rewrite <- !smem_iff, smem_sdel by exact Hs.
  rewrite andb_true_iff, negb_true_iff, N.eqb_neq. tauto.
Qed.

Lemma In_sadd' x y l : In y (sadd x l) <-> y = x \/ In y l.
Proof. rewrite <- !smem_iff, smem_sadd, orb_true_iff, N.eqb_eq. tauto. Qed.

Lemma ms_length l o : NoDup l -> NoDup o -> ms l o -> length l = length o.
Proof.
  intros Nl No H.
  assert (Nm : NoDup (map n2 l)).
  { clear -Nl. induction Nl as [|a l Hn ND IH]; cbn; constructor; auto.
    intros Hi. apply in_map_iff in Hi as (x & E & Hi). assert (x = a) by lia. subst. auto. }
  transitivity (length (map n2 l)); [symmetry; apply map_length|]. apply Nat.le_antisymm; apply NoDup_incl_length; auto.
  - intros k Hk. apply in_map_iff in Hk as (x & <- & Hx). apply H. exact Hx.
  - intros k Hk. apply (ms_nat l o k H) in Hk. apply in_map_iff. exists (N.of_nat k). split; [lia|auto].
Qed.

Lemma ms_mem l o y : ms l o -> M.mem (n2 y) o = smem y l.
Proof.
  intros H. destruct (smem y l) eqn:E.
  - apply MC.mem_In. apply H. apply smem_iff. exact E.
  - apply MC.mem_not_In. intros Hi. apply H in Hi. apply smem_iff in Hi. congruence.
Qed.

(* one membership command *)
Lemma ms_step pk n l o cm a x :
  ssorted l -> ms l o -> membership_of cm = Some (a, x) ->
  ms (step_member (Some n) l (a, x)) (M.app1 (n2 n) o (enc pk cm)).
Proof.
  intros Hs H Hm. unfold enc. rewrite Hm. unfold step_member, is_me. cbn [fst snd].
  destruct a; cbn [M.app1].
  - rewrite (ms_mem l o x H).
    replace (n2 x =? n2 n)%nat with (n =? x).
    2:{ destruct (N.eqb_spec n x), (Nat.eqb_spec (n2 x) (n2 n)); auto; lia. }
    destruct ((n =? x) || smem x l); [exact H|].
    intros y. rewrite In_sadd'. cbn [In]. rewrite (H y). split; intros [E|E]; auto; [left; lia|left; lia].
  - replace (n2 x =? n2 n)%nat with (n =? x).
    2:{ destruct (N.eqb_spec n x), (Nat.eqb_spec (n2 x) (n2 n)); auto; lia. }
    destruct (n =? x) eqn:E1; cbn [orb]; [exact H|].
    destruct (smem x l) eqn:E2; cbn [negb].
    + intros y. rewrite In_sdel by exact Hs. rewrite MC.del_In, (H y). split; intros [A B]; split; auto; lia.
    + intros y. rewrite MC.del_In, (H y). split; [|tauto]. intros A. split; auto.
      intros E. assert (y = x) by lia. subst. apply H in A. apply smem_iff in A. congruence.
Qed.

Lemma ms_fold pk n l : forall b o,
  ssorted b -> ms b o -> ms (fold_members b l (Some n)) (M.others_of (n2 n) o (absL pk l)).
Proof.
  unfold fold_members, M.others_of.
  induction l as [|e l IH]; intros b o Hs H; cbn [absL map mem_ops flat_map fold_left]; [exact H|].
  fold (mem_ops l). destruct (membership_of (ecmd e)) as [[a x]|] eqn:Em; cbn [app fold_left].
  - apply IH; [apply ssorted_step; exact Hs|]. cbn [absE M.ecmd]. eapply ms_step; eauto.
  - apply IH; auto. cbn [absE M.ecmd]. unfold enc. rewrite Em. cbn. exact H.
Qed.

Lemma ms_base n V : ms (vminus n V) (M.del (n2 n) (absV V)).
Proof.
  intros y. unfold vminus. rewrite filter_In, MC.del_In, absV_In, negb_true_iff, N.eqb_neq.
  split; intros [A B]; split; auto; lia.
Qed.

Lemma ssorted_fold_members b l me : ssorted b -> ssorted (fold_members b l me).
Proof. intros H. unfold fold_members. apply ssorted_fold. exact H. Qed.

(* the L1 table of voter n against the L0 table *)
Lemma others_abs pk n V l :
  ssorted (vminus n V) ->
  ms (fold_members (vminus n V) l (Some n)) (M.others_of (n2 n) (M.del (n2 n) (absV V)) (absL pk l)).
Proof. intros Hs. apply ms_fold; [exact Hs|apply ms_base]. Qed.

Lemma ssorted_filter f l : ssorted l -> ssorted (filter f l).
Proof.
  induction l as [|x r IH]; intros H; [exact I|].
  assert (Hr : ssorted r) by (destruct H; auto).
  cbn [filter]. destruct (f x); [|auto].
  specialize (IH Hr). destruct (filter f r) as [|y r'] eqn:E; [split; exact I|]. split; [|exact IH].
  apply (ssorted_lb x r H y). apply smem_iff.
  assert (Hy : In y (filter f r)) by (rewrite E; left; reflexivity). apply filter_In in Hy. tauto.
Qed.

Lemma ssorted_vminus n V : ssorted V -> ssorted (vminus n V).
Proof. apply ssorted_filter. Qed.

Lemma fold_members_snoc b pre e me :
  fold_members b (pre ++ [e]) me =
  match membership_of (ecmd e) with
  | Some p => step_member me (fold_members b pre me) p
  | None => fold_members b pre me end.
Proof.
  rewrite fold_members_app. unfold fold_members at 1. cbn [mem_ops flat_map].
  destruct (membership_of (ecmd e)); reflexivity.
Qed.

(* global effectiveness of the entries of [rest] makes their undo exact *)
Lemma leff_undo pk n V rest : forall pre,
  ssorted (vminus n V) ->
  leff (absV V) (absL pk (pre ++ rest)) ->
  all_undo_ok (Some n) (fold_members (vminus n V) pre (Some n)) (mem_ops rest) = true.
Proof.
  induction rest as [|e r IH]; intros pre Hs H; [reflexivity|].
  assert (IH' := IH (pre ++ [e]) Hs). rewrite <- app_assoc in IH'. specialize (IH' H).
  rewrite fold_members_snoc in IH'.
  cbn [mem_ops flat_map]. fold (mem_ops r).
  destruct (membership_of (ecmd e)) as [[a x]|] eqn:Em; cbn [app]; [|exact IH'].
  cbn [all_undo_ok]. rewrite IH', andb_true_r.
  specialize (H (length pre) (absE pk e)).
  rewrite absL_app in H. rewrite nth_error_app2 in H by (rewrite absL_length; lia).
  rewrite absL_length, Nat.sub_diag in H. specialize (H eq_refl).
  rewrite ML.firstn_app_le in H by (rewrite absL_length; lia).
  rewrite <- (absL_length pk pre), firstn_all in H.
  cbn [absE M.ecmd] in H. unfold enc in H. rewrite Em in H.
  pose proof (others_abs pk n V pre Hs) as Hms. rewrite MC.others_gcfg in Hms.
  set (l := fold_members (vminus n V) pre (Some n)) in *.
  unfold undo_ok, effective, is_me. cbn [fst snd].
  destruct (N.eqb_spec n x) as [->|Ne]; [reflexivity|]. cbn [orb negb andb].
  destruct a; cbn [geff] in H.
  - apply negb_true_iff in H. apply MC.mem_not_In in H. apply negb_true_iff.
    destruct (smem x l) eqn:E; [|reflexivity]. exfalso. apply H.
    apply smem_iff in E. apply Hms in E. apply MC.del_In in E. tauto.
  - apply MC.mem_In in H. apply smem_iff. apply Hms. apply MC.del_In. split; auto. lia.
Qed.

(* counting over the two tables *)
Lemma count_ms (h : nid -> bool) (g : nat -> bool) l o :
  NoDup l -> ms l o -> (forall f, In f l -> h f = true -> g (n2 f) = true) ->
  (length (filter h l) <= length (filter g o))%nat.
Proof.
  intros Nl H Hhg.
  transitivity (length (map n2 (filter h l))); [rewrite map_length; apply Nat.le_refl|].
  apply NoDup_incl_length.
  - assert (Nf : NoDup (filter h l)) by (apply NoDup_filter; exact Nl).
    clear -Nf. induction Nf as [|a l0 Hn ND IH]; cbn; constructor; auto.
    intros Hi. apply in_map_iff in Hi as (x & E & Hi). assert (x = a) by lia. subst. auto.
  - intros k Hk. apply in_map_iff in Hk as (x & <- & Hx). apply filter_In in Hx as [Hx1 Hx2].
    apply filter_In. split; [apply H; exact Hx1|auto].
Qed.

(* ids in the table stay below RO_BASE *)
Lemma fold_members_lt c b l me :
  (forall y, In y b -> y < RO_BASE) -> Forall (small c) l ->
  forall y, In y (fold_members b l me) -> y < RO_BASE.
Proof.
  unfold fold_members. revert b. induction l as [|e l IH]; intros b Hb Hs y; cbn [mem_ops flat_map fold_left]; auto.
  inversion Hs as [|? ? He Hs']; subst. fold (mem_ops l).
  destruct (membership_of (ecmd e)) as [[a x]|] eqn:Em; cbn [app fold_left]; [|apply IH; auto].
  apply IH; auto. intros z Hz.
  assert (Hx : x < RO_BASE).
  { unfold membership_of in Em. destruct (ck (ecmd e) =? 2) eqn:E2; [|discriminate]. injection Em as _ <-.
    apply (proj2 He). lia. }
  unfold step_member in Hz. cbn [fst snd] in Hz. destruct a.
  - destruct (_ || _); auto. apply In_sadd' in Hz as [->|Hz]; auto.
  - destruct (_ || _); auto. clear -Hz Hb. revert Hz. induction b as [|w b IHb]; cbn; [tauto|].
    destruct (x =? w); intros Hz; [apply Hb; right; auto|].
    destruct Hz as [->|Hz]; [apply Hb; left; auto|]. apply IHb; auto. intros q Hq. apply Hb. right. auto.
Qed.
