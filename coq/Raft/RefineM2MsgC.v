(* Tier CM2, part 8 (port of Refine2MsgC.v to AbstractM + dynamic membership): snapshot pieces at a voter.
   A piece that does not complete a file is an abstract refusal (the node only stores it); the piece that
   completes a file makes the node load the dump: a dump that is not ahead of the node is dropped; otherwise
   the install is AbstractM's acceptance of the AppendEntries with prev = (1, term 0) carrying entries 2..k of
   the sender's log: either the follower already holds entries k-1, k (its full log is unchanged and the L1
   log is trimmed to k-1), or its full log becomes exactly the k entries (L1 log [e0; e1]).
   New with dyn = true: [load_dump] replaces the member table by the snapshot's member set (minus the node
   itself) and, when the log was kept, applies the membership entries behind the snapshot again; the result
   is the fold over the new ghost full log because the snapshot's member set is [gcfg] of its prefix. *)
From Coq Require Import ZArith NArith List Bool Lia ZifyBool Arith PeanoNat.
From RecordUpdate Require Import RecordSet.
From PSO Require Import Raft.Types Raft.Node Raft.Net Raft.ProofsCommitBase Raft.ProofsCommit Raft.ProofsSnapshotBase.
From PSO Require Import Raft.ProofsElectionBase Raft.ProofsMembership Raft.ProofsMembershipInv.
From PSO Require Import Raft.RefineMAbs Raft.RefineMEff Raft.RefineMCfg Raft.RefineMK Raft.RefineMSpecA
  Raft.RefineMTickA Raft.RefineMMsgB.
From PSO Require Import Raft.RefineM2Abs Raft.RefineM2SpecA Raft.RefineM2Sim Raft.RefineM2TickA Raft.RefineM2MsgB.
From PSO Require AbstractM.Model AbstractM.Lib AbstractM.Kstep AbstractM.Cfg AbstractM.Safety1_WF AbstractM.SafetyAll.
Import ListNotations.
Import RecordSetNotations.
Open Scope N_scope.
#[local] Arguments firstn : simpl nomatch.
#[local] Arguments skipn : simpl nomatch.

(* ------------------------------------------------------------------------------------------ *)
(* L1: __updateClusterConfiguration                                                           *)

Definition uc_rem (s : S) (r : nid) : S :=
  emit (TDrop r) (upd (fun n => n <| next_idx := adel r (next_idx n) |>
                                   <| match_idx := adel r (match_idx n) |>
                                   <| tconn := sdel r (tconn n) |>) s).

Definition uc_add (s : S) (a : nid) : S :=
  upd (fun n => n <| next_idx := aset a (last_idx (log n) + 1) (next_idx n) |>
                  <| match_idx := aset a 0 (match_idx n) |>) (emit (TAdd a) s).

Lemma update_cluster_eq new s :
  update_cluster new s =
  fold_left uc_add (filter (fun x => negb (smem x (others (nd s)))) new)
    (upd (fun n => n <| others := new |>)
       (fold_left uc_rem (filter (fun x => negb (smem x new)) (others (nd s))) s)).
Proof. reflexivity. Qed.

Lemma uc_rem_match l : forall s f, ~ In f l ->
  aget f (match_idx (nd (fold_left uc_rem l s))) = aget f (match_idx (nd s)).
Proof.
  induction l as [|r l IH]; intros s f Hf; cbn [fold_left]; [reflexivity|].
  rewrite IH by (intros H; apply Hf; right; exact H).
  unfold uc_rem. cbn. apply ProofsCommitBase.aget_adel_ne. intros ->. apply Hf. left. reflexivity.
Qed.

Lemma uc_add_match l : forall s f,
  aget f (match_idx (nd (fold_left uc_add l s))) = if smem f l then Some 0 else aget f (match_idx (nd s)).
Proof.
  induction l as [|a l IH]; intros s f; cbn [fold_left smem]; [reflexivity|].
  rewrite IH. unfold uc_add. cbn. rewrite ProofsCommitBase.aget_aset.
  destruct (f =? a); cbn [orb]; destruct (smem f l); reflexivity.
Qed.

Lemma uc_add_others l s : others (nd (fold_left uc_add l s)) = others (nd s).
Proof. apply (fr_fold others). intros s0 x. reflexivity. Qed.

Lemma update_cluster_others new s : others (nd (update_cluster new s)) = new.
Proof. rewrite update_cluster_eq, uc_add_others. reflexivity. Qed.

Lemma update_cluster_Pm B new s : Pm B (nd s) -> Pm B (nd (update_cluster new s)).
Proof.
  intros P f m Hf Hg. rewrite update_cluster_others in Hf. rewrite update_cluster_eq, uc_add_match in Hg.
  destruct (smem f (filter (fun x => negb (smem x (others (nd s)))) new)) eqn:E.
  - injection Hg as <-. lia.
  - rewrite nd_upd in Hg. cbn in Hg. rewrite uc_rem_match in Hg.
    + apply (P f m); [|exact Hg]. apply smem_iff.
      destruct (smem f (others (nd s))) eqn:E2; [reflexivity|]. exfalso.
      assert (X : smem f (filter (fun x => negb (smem x (others (nd s)))) new) = true).
      { apply smem_iff. apply filter_In. split; [exact Hf|]. rewrite E2. reflexivity. }
      congruence.
    + intros Hi. apply filter_In in Hi as [_ Hi]. apply negb_true_iff in Hi.
      apply smem_iff in Hf. congruence.
Qed.

Lemma grow_update_cluster new s : grow nosend s (update_cluster new s).
Proof.
  rewrite update_cluster_eq.
  eapply grow_trans; [|apply grow_fold; intros s0 a; unfold uc_add;
                       eapply grow_trans; [apply (grow_emit nosend (TAdd a)); exact I|apply grow_upd]].
  eapply grow_trans; [|apply grow_upd].
  apply grow_fold. intros s0 r. unfold uc_rem.
  eapply grow_trans; [apply grow_upd|apply (grow_emit nosend (TDrop r)); exact I].
Qed.

Lemma fvo_update_cluster new s : fvo (nd (update_cluster new s)) = fvo (nd s).
Proof. apply (fr_update_cluster fvo); frs. Qed.

Lemma fvo_apply_membership r es s : fvo (nd (apply_membership r es s)) = fvo (nd s).
Proof. apply (fr_apply_membership fvo); frs. Qed.

(* ------------------------------------------------------------------------------------------ *)
(* L1: __loadDumpFile                                                                         *)

Definition kept_of (l : list entry) (e0 e1 : entry) : bool :=
  match get_entries l (Some (eidx e0)) (Some 2) None with
  | [a; b] => entry_eqb a e0 && entry_eqb b e1
  | _ => false
  end.

Definition keep_of (l : list entry) (e0 e1 : entry) : bool :=
  match l with a :: b :: _ => entry_eqb a e0 && entry_eqb b e1 | _ => false end.

(* the member set a snapshot installs at node n *)
Definition cl_of (n : node) (sn : snapshot) : list nid := filter (fun x => negb (self_is x n)) (s_cluster sn).

Lemma load_dump_eq e s sn :
  stored (sr (nd s)) = Some (Good sn) -> load_dump_ok s = true -> dyn (cf e) = true ->
  load_dump e true s =
    let s1 := upd (fun n => n <| hist := s_hist sn |> <| enabled_ver := s_ver sn |>) s in
    let kept := kept_of (log (nd s)) (s_e0 sn) (s_e1 sn) in
    let s2 := if kept then upd (fun n => n <| log := delete_to (log n) (eidx (s_e0 sn)) |>) s1 else s1 in
    let s3 := if negb (keep_of (log (nd s2)) (s_e0 sn) (s_e1 sn))
              then upd (fun n => n <| log := [s_e0 sn; s_e1 sn] |>
                                    <| replay_idx := N.min (replay_idx n) (eidx (s_e1 sn)) |>) s2 else s2 in
    let s4 := upd (fun n => n <| applied := eidx (s_e1 sn) |>) s3 in
    let s5 := update_cluster (cl_of (nd s4) sn) s4 in
    if kept then apply_membership false (get_entries (log (nd s5)) (Some (eidx (s_e1 sn) + 1)) None None) s5 else s5.
Proof.
  intros Hst Hok Hd. unfold load_dump_ok in Hok. rewrite Hst in Hok. apply andb_prop in Hok as [H1 H2].
  apply negb_true_iff in H1.
  assert (H3 : (self_ver (nd s) <? s_ver sn) = false) by lia.
  unfold load_dump. rewrite Hst, H1. cbn [andb]. rewrite H3, Hd. reflexivity.
Qed.

Lemma load_dump_keep e s sn r :
  stored (sr (nd s)) = Some (Good sn) -> load_dump_ok s = true -> dyn (cf e) = true ->
  kept_of (log (nd s)) (s_e0 sn) (s_e1 sn) = true ->
  delete_to (log (nd s)) (eidx (s_e0 sn)) = s_e0 sn :: s_e1 sn :: r ->
  eidx (s_e1 sn) = eidx (s_e0 sn) + 1 ->
  fvo (nd (load_dump e true s)) =
    fvo ((nd s) <| log := s_e0 sn :: s_e1 sn :: r |> <| applied := eidx (s_e1 sn) |>) /\
  others (nd (load_dump e true s)) = fold_members (cl_of (nd s) sn) r (self (nd s)) /\
  (forall B, ssorted (s_cluster sn) -> Pm B (nd s) -> Pm B (nd (load_dump e true s))) /\
  grow nosend s (load_dump e true s).
Proof.
  intros Hst Hok Hd Hk Hdel Hidx. rewrite (load_dump_eq e s sn Hst Hok Hd). cbv zeta. rewrite Hk.
  set (s1 := upd (fun n => n <| hist := s_hist sn |> <| enabled_ver := s_ver sn |>) s).
  assert (E2 : log (nd (upd (fun n => n <| log := delete_to (log n) (eidx (s_e0 sn)) |>) s1)) =
               s_e0 sn :: s_e1 sn :: r) by exact Hdel.
  rewrite E2. unfold keep_of. rewrite !entry_eqb_refl. cbn [andb negb].
  set (s4 := upd (fun n => n <| applied := eidx (s_e1 sn) |>)
               (upd (fun n => n <| log := delete_to (log n) (eidx (s_e0 sn)) |>) s1)).
  assert (Ecl : cl_of (nd s4) sn = cl_of (nd s) sn) by reflexivity.
  rewrite Ecl. set (cl := cl_of (nd s) sn).
  set (s5 := update_cluster cl s4).
  assert (El5 : log (nd s5) = s_e0 sn :: s_e1 sn :: r).
  { unfold s5. rewrite (fr_update_cluster log) by frs. exact Hdel. }
  assert (Eg : get_entries (log (nd s5)) (Some (eidx (s_e1 sn) + 1)) None None = r).
  { rewrite El5. unfold get_entries. cbn [first_idx]. rewrite Hidx.
    destruct (eidx (s_e0 sn) + 1 + 1 <? eidx (s_e0 sn)) eqn:E; [lia|].
    replace (N.to_nat (eidx (s_e0 sn) + 1 + 1 - eidx (s_e0 sn))) with 2%nat by lia. reflexivity. }
  rewrite Eg.
  assert (Es5 : self (nd s5) = self (nd s)).
  { unfold s5. rewrite (fr_update_cluster self) by frs. reflexivity. }
  split; [|split; [|split]].
  - rewrite fvo_apply_membership. unfold s5. rewrite fvo_update_cluster. unfold fvo. cbn. rewrite Hdel. reflexivity.
  - destruct (apply_membership_others false r s5) as [-> _]. rewrite map_xorb_false, Es5.
    unfold s5. rewrite update_cluster_others. reflexivity.
  - intros B Hs P.
    assert (P5 : Pm B (nd s5)).
    { unfold s5. apply update_cluster_Pm. intros f m Hf Hg. apply (P f m Hf Hg). }
    apply am_Pm; [|exact P5]. unfold s5. rewrite update_cluster_others. apply ssorted_filter. exact Hs.
  - eapply grow_trans; [|apply grow_am]. eapply grow_trans; [|apply grow_update_cluster].
    unfold s4, s1. eapply grow_trans; [apply grow_upd|]. eapply grow_trans; apply grow_upd.
Qed.

Lemma load_dump_replace e s sn :
  stored (sr (nd s)) = Some (Good sn) -> load_dump_ok s = true -> dyn (cf e) = true ->
  kept_of (log (nd s)) (s_e0 sn) (s_e1 sn) = false ->
  keep_of (log (nd s)) (s_e0 sn) (s_e1 sn) = false ->
  fvo (nd (load_dump e true s)) =
    fvo ((nd s) <| log := [s_e0 sn; s_e1 sn] |>
                <| replay_idx := N.min (replay_idx (nd s)) (eidx (s_e1 sn)) |>
                <| applied := eidx (s_e1 sn) |>) /\
  others (nd (load_dump e true s)) = cl_of (nd s) sn /\
  (forall B, Pm B (nd s) -> Pm B (nd (load_dump e true s))) /\
  grow nosend s (load_dump e true s).
Proof.
  intros Hst Hok Hd Hk Hk2. rewrite (load_dump_eq e s sn Hst Hok Hd). cbv zeta. rewrite Hk.
  set (s1 := upd (fun n => n <| hist := s_hist sn |> <| enabled_ver := s_ver sn |>) s).
  change (log (nd s1)) with (log (nd s)). rewrite Hk2. cbn [negb].
  set (s4 := upd (fun n => n <| applied := eidx (s_e1 sn) |>) _).
  assert (Ecl : cl_of (nd s4) sn = cl_of (nd s) sn) by reflexivity.
  rewrite Ecl.
  split; [|split; [|split]].
  - rewrite fvo_update_cluster. reflexivity.
  - apply update_cluster_others.
  - intros B P. apply update_cluster_Pm. intros f m Hf Hg. apply (P f m Hf Hg).
  - eapply grow_trans; [|apply grow_update_cluster].
    unfold s4, s1. eapply grow_trans; [apply grow_upd|]. eapply grow_trans; apply grow_upd.
Qed.

Lemma load_dump_behind e s sn :
  stored (sr (nd s)) = Some (Good sn) -> (eidx (s_e1 sn) <=? applied (nd s)) = true ->
  load_dump e true s = upd (fun n => n <| force_compact := true |> <| last_ser_entry := None |>) s.
Proof. intros Hst H. unfold load_dump. rewrite Hst, H. reflexivity. Qed.

Lemma load_dump_corrupt e s k :
  stored (sr (nd s)) = Some (Corrupt k) -> load_dump e true s = s.
Proof. intros Hst. unfold load_dump. rewrite Hst. reflexivity. Qed.

Lemma ae_tail2 from cm v sA :
  let s' := ae_commit cm (Some v) (send_next_idx from (Some (v + 1)) false true sA) in
  fvo (nd s') = fvo ((nd sA) <| commit := if commit (nd sA) <? cm
                                        then N.max (commit (nd sA)) (N.min cm v) else commit (nd sA) |>) /\
  others (nd s') = others (nd sA) /\ match_idx (nd s') = match_idx (nd sA) /\
  grow (fun o => o = Send from (NextIdx (term (nd sA)) (v + 1) false true)) sA s'.
Proof.
  cbv zeta. unfold ae_commit, send_next_idx.
  set (sC := send from (NextIdx (term (nd sA)) (v + 1) false true) sA).
  assert (NC : nd sC = nd sA) by (unfold sC; apply nd_send).
  assert (GC : grow (fun o => o = Send from (NextIdx (term (nd sA)) (v + 1) false true)) sA sC).
  { unfold sC. apply grow_send. reflexivity. }
  rewrite NC.
  destruct (commit (nd sA) <? cm).
  - rewrite !nd_upd, NC. repeat split; try reflexivity.
    eapply grow_trans; [exact GC|]. eapply grow_trans; apply grow_upd.
  - rewrite nd_upd, NC. repeat split; try reflexivity.
    eapply grow_trans; [exact GC|]. apply grow_upd.
Qed.

(* ---- pieces ---- *)
Lemma assemble_good ps sn0 :
  assemble_snap ps = Good sn0 -> (exists o l r, ps = (Good sn0, o, l) :: r) /\ pieces_contig sn0 0 ps = true.
Proof.
  unfold assemble_snap. destruct ps as [|[[b o] l] r]; [discriminate|].
  destruct b as [s0|]; [|discriminate].
  intros H. match type of H with (if ?b then _ else _) = _ => destruct b eqn:E end; [|discriminate H].
  injection H as <-. split; eauto.
Qed.

Lemma contig_last sn ps b o l : forall off,
  pieces_contig sn off (ps ++ [(b, o, l)]) = true -> exists s', b = Good s' /\ snap_eqb sn s' = true.
Proof.
  induction ps as [|[[b' o'] l'] ps IH]; intros off H; cbn in H.
  - destruct b as [s'|]; [|discriminate]. apply andb_prop in H as [H _]. apply andb_prop in H as [H _]. eauto.
  - destruct b'; [|discriminate]. apply andb_prop in H as [_ H]. eapply IH; eauto.
Qed.

(* ---- the two outcomes of an install, on lists ---- *)
Lemma install_keep l full e0 e1 (k : nat) :
  wf1 full -> suffix_of l full -> (2 <= k)%nat -> first_idx l <= N.of_nat k - 1 ->
  nth_error full (k - 1) = Some e1 -> nth_error full (k - 2) = Some e0 ->
  kept_of l e0 e1 = true /\
  delete_to l (eidx e0) = e0 :: e1 :: skipn k full /\ suffix_of (e0 :: e1 :: skipn k full) full.
Proof.
  intros W Sx Hk Hfi N1 N0.
  assert (Ei0 : eidx e0 = N.of_nat k - 1) by (destruct W as [_ H]; rewrite (H _ _ N0); lia).
  destruct (suffix_base l full W Sx) as (b & E & Hb & Efi).
  assert (Hsk : skipn (k - 2) full = e0 :: e1 :: skipn k full).
  { rewrite (skipn_nth_cons _ _ _ N0). replace (Sn (k - 2)) with (k - 1)%nat by lia.
    rewrite (skipn_nth_cons _ _ _ N1). replace (Sn (k - 1)) with k by lia. reflexivity. }
  split; [|split].
  - unfold kept_of. rewrite (suffix_ge l full W Sx) by lia. rewrite (ge_count full _ 2 W) by lia.
    rewrite Ei0. replace (n2 (N.of_nat k - 1) - 1)%nat with (k - 2)%nat by lia. rewrite Hsk.
    change (n2 2) with 2%nat. cbn [firstn]. rewrite !entry_eqb_refl. reflexivity.
  - unfold delete_to. rewrite Efi, Ei0. destruct (N.of_nat k - 1 <? N.of_nat b + 1) eqn:E1; [lia|].
    rewrite E, skipn_skipn'.
    replace (b + n2 (N.of_nat k - 1 - (N.of_nat b + 1)))%nat with (k - 2)%nat by lia. exact Hsk.
  - exists (k - 2)%nat. split; [symmetry; exact Hsk|]. apply nth_error_Some. congruence.
Qed.

Lemma install_replace l full e0 e1 (k : nat) :
  wf1 full -> suffix_of l full -> (2 <= k)%nat -> first_idx l <= N.of_nat k - 1 ->
  eidx e0 = N.of_nat k - 1 ->
  (forall b, nth_error full (k - 1) = Some b -> eterm b = eterm e1 -> False) ->
  kept_of l e0 e1 = false /\ keep_of l e0 e1 = false.
Proof.
  intros W Sx Hk Hfi Ei0 Hno.
  destruct (suffix_base l full W Sx) as (b & E & Hb & Efi).
  split.
  - unfold kept_of. rewrite (suffix_ge l full W Sx) by lia. rewrite (ge_count full _ 2 W) by lia.
    rewrite Ei0. replace (n2 (N.of_nat k - 1) - 1)%nat with (k - 2)%nat by lia.
    change (n2 2) with 2%nat.
    destruct (firstn 2 (skipn (k - 2) full)) as [|a0 [|b0 [|c0 r0]]] eqn:Ef; try reflexivity.
    destruct (entry_eqb b0 e1) eqn:Eb; [|apply andb_false_r]. exfalso.
    apply entry_eqb_true in Eb. destruct Eb as (_ & _ & Et).
    apply (Hno b0); auto.
    assert (X : nth_error (firstn 2 (skipn (k - 2) full)) 1 = Some b0) by (rewrite Ef; reflexivity).
    rewrite ML.nth_error_firstn_lt in X by lia. rewrite nth_error_skipn in X.
    replace (k - 2 + 1)%nat with (k - 1)%nat in X by lia. exact X.
  - unfold keep_of. destruct l as [|a0 [|b0 r0]]; try reflexivity.
    destruct (entry_eqb a0 e0) eqn:Ea; [|reflexivity]. destruct (entry_eqb b0 e1) eqn:Eb; [|reflexivity]. exfalso.
    apply entry_eqb_true in Ea, Eb. destruct Ea as (_ & Ea & _). destruct Eb as (_ & _ & Et).
    cbn [first_idx] in Efi.
    apply (Hno b0); auto.
    assert (X : nth_error (a0 :: b0 :: r0) 1 = Some b0) by reflexivity.
    rewrite E in X. rewrite nth_error_skipn in X.
    replace (b + 1)%nat with (k - 1)%nat in X by lia. exact X.
Qed.

Lemma skipn_last_two (l : list entry) (k : nat) e0 e1 :
  length l = k -> (2 <= k)%nat -> nth_error l (k - 1) = Some e1 -> nth_error l (k - 2) = Some e0 ->
  skipn (k - 2) l = [e0; e1].
Proof.
  intros Hl Hk N1 N0.
  rewrite (skipn_nth_cons _ _ _ N0). replace (Sn (k - 2)) with (k - 1)%nat by lia.
  rewrite (skipn_nth_cons _ _ _ N1). replace (Sn (k - 1)) with k by lia.
  rewrite skipn_all2 by lia. reflexivity.
Qed.

(* the fragment: a complete dump that is ahead of the node is never refused for its version *)
Definition ver_ok (e : env) (a : nid) (m : msg) (x : node) : Prop :=
  match m with
  | AESnap t cm p =>
      forall s1, fst (set_transmission p (ae_pre e a t cm (start_S e x))) = s1 ->
        snd (set_transmission p (ae_pre e a t cm (start_S e x))) = true ->
        forall sn, stored (sr (nd s1)) = Some (Good sn) -> s_ver sn <= self_ver (nd s1)
  | _ => True
  end.

Section Msg.
Variable c : conf.
Variable mf : N -> N -> N * N.
Variable V : list nid.
Hypothesis NDV : NoDup V.
Hypothesis SV : ssorted V.
Hypothesis VNE : V <> [].
Hypothesis VRO : forall v, In v V -> v < RO_BASE.
Hypothesis Hb1 : 1 < batch c.
Hypothesis Hdyn : dyn c = true.
Hypothesis Hfd : file_dump c = false.
Variable e : env.
Hypothesis Hc : cf e = c.
Set Default Proof Using "All".

Notation V' := (absV V).
Notation Rn := (Rn c mf V).
Notation Rmsg := (Rmsg c mf V).
Notation Ro := (Ro c mf V).
Notation Hn := (Hn c mf).
Notation ksn := (ksn V).
Notation kstar := (kstar V).
Notation LS := (LS c mf V).
Notation pk := (pk c).
Notation small := (small c mf).
Notation held := (held c mf V).
Notation blob_valid := (blob_valid c mf V).
Notation snap_valid := (snap_valid c mf V).
Notation bsmall := (bsmall c mf).
Notation blobs_ok := (blobs_ok c mf V).
Notation e00 := (e00 c).
Notation kall := (kall V NDV VNE).
Notation LS_full := (LS_full c mf V NDV SV VNE VRO Hb1).
Notation LS_sorted := (LS_sorted c mf V NDV SV VNE VRO Hb1).
Notation LS_not_self := (LS_not_self c mf V NDV SV VNE VRO Hb1).
Notation valid_two := (valid_two c mf V NDV SV VNE VRO Hb1).
Notation valid_own := (valid_own c mf V NDV SV VNE VRO Hb1).
Notation first_is_e0 := (first_is_e0 c mf V NDV SV VNE VRO Hb1).
Notation sim_ae_fail := (sim_ae_fail c mf V NDV SV VNE VRO Hb1 Hdyn Hfd e Hc).
Notation sim_ae_ok := (sim_ae_ok c mf V NDV SV VNE VRO Hb1 Hdyn Hfd e Hc).
Notation blobs_ok_same := (blobs_ok_same c mf V NDV SV VNE VRO Hb1 Hdyn Hfd e Hc).

Lemma Hn_sr x y :
  log y = log x -> queue y = queue x -> replay_idx y = replay_idx x -> applied y = applied x ->
  readonly y = readonly x -> commit y = commit x -> pid (sr y) = pid (sr x) -> cur_id (sr y) = cur_id (sr x) ->
  (forall bl, stored (sr y) = Some bl -> bsmall bl) ->
  (forall ps bl o l, incoming (sr y) = Some ps -> In (bl, o, l) ps -> bsmall bl) ->
  pend y ->
  Hn x -> Hn y.
Proof.
  intros E1 E2 E3 E4 E5 E6 E7 E8 Hs Hi Hp [A1 A2 A3 A4 A5 A6 A7 A8 A9 A10].
  constructor; rewrite ?E1, ?E2, ?E3, ?E4, ?E5, ?E6, ?E7, ?E8; auto.
Qed.

Lemma img_wf1 s t a d pt Wl cm :
  KS.kreachable V' F0 s -> In (M.AppendEntries t a d 1 pt (absL pk Wl) cm) (M.net s) -> wf1 (e00 :: Wl).
Proof.
  intros HR Hin. pose proof (S1.I1_msg _ (SA.A1 _ _ _ (kall s HR)) _ _ _ _ _ _ _ Hin) as Hes.
  split; [discriminate|]. intros p en Hp. destruct p as [|p].
  - injection Hp as <-. reflexivity.
  - cbn in Hp. specialize (Hes p (absE pk en)). rewrite absL_nth, Hp in Hes.
    destruct (Hes eq_refl) as [H1 _]. cbn in H1. lia.
Qed.

(* the outcome of an install, in the terms of the node before the handler; [rr] is what the new full
   log holds behind the snapshot's position *)
Lemma install_outcome n s (x0 : node) (S1b : Node.S) sn0 Wl full t a cm :
  KS.kreachable V' F0 s -> M.log (M.nodes s (n2 n)) = absL pk full -> wf1 full -> Forall small full ->
  suffix_of (log x0) full -> Hn x0 ->
  log (nd S1b) = log x0 -> replay_idx (nd S1b) = replay_idx x0 -> applied (nd S1b) = applied x0 ->
  stored (sr (nd S1b)) = Some (Good sn0) -> load_dump_ok S1b = true -> snap_valid s sn0 ->
  In (M.AppendEntries (n2 t) (n2 a) (n2 n) 1 0 (absL pk Wl) (n2 cm)) (M.net s) ->
  (length Wl + 1 = n2 (eidx (s_e1 sn0)))%nat -> Forall small Wl ->
  nth_error (e00 :: Wl) (n2 (eidx (s_e1 sn0)) - 1) = Some (s_e1 sn0) ->
  nth_error (e00 :: Wl) (n2 (eidx (s_e1 sn0)) - 2) = Some (s_e0 sn0) ->
  nth_error full 0 = Some e00 /\
  exists lg rp rr, suffix_of lg (firstn 1 full ++ l1merge (skipn 1 full) Wl) /\ Forall small lg /\
            first_idx lg <= eidx (s_e1 sn0) /\
            rp <= replay_idx x0 /\ (rp <= eidx (s_e1 sn0)) /\
            firstn 1 full ++ l1merge (skipn 1 full) Wl =
              firstn (n2 (eidx (s_e1 sn0))) (firstn 1 full ++ l1merge (skipn 1 full) Wl) ++ rr /\
            fvo (nd (load_dump e true S1b)) =
              fvo ((nd S1b) <| log := lg |> <| replay_idx := rp |> <| applied := eidx (s_e1 sn0) |>) /\
            others (nd (load_dump e true S1b)) = fold_members (cl_of (nd S1b) sn0) rr (self (nd S1b)) /\
            (forall B, Pm B (nd S1b) -> Pm B (nd (load_dump e true S1b))) /\
            grow nosend S1b (load_dump e true S1b).
Proof.
  intros HR EL W Smf Sx HN0 El Er Ea Est Eok Hv0 Hin HlenW SmW N1 N0.
  assert (Hd : dyn (cf e) = true) by (rewrite Hc; exact Hdyn).
  set (K := eidx (s_e1 sn0)) in *. set (k := n2 K) in *.
  destruct Hv0 as (Sm0 & Sm1 & (Hcs & _) & Hk2 & _). fold K in Hk2. fold k in Hk2.
  pose proof (img_wf1 s _ _ _ _ Wl _ HR Hin) as WW.
  assert (Ei0 : eidx (s_e0 sn0) = N.of_nat k - 1) by (destruct WW as [_ H]; rewrite (H _ _ N0); lia).
  assert (Sm00 : small e00) by (apply small_noop; exact Hb1).
  assert (SmW0 : Forall small (e00 :: Wl)) by (constructor; auto).
  (* the L0 facts about this AppendEntries *)
  destruct (first_is_e0 s (n2 n) HR) as (r0 & Er0).
  assert (Hf0 : nth_error full 0 = Some e00).
  { destruct full as [|f0 fr]; [destruct W as [W _]; contradiction|].
    rewrite EL in Er0. cbn in Er0. assert (X : absE pk f0 = M.e0) by congruence.
    rewrite <- (absE_e00 c) in X. apply (absE_inj_small c mf) in X; [rewrite X; reflexivity| |exact Sm00].
    inversion Smf; auto. }
  pose proof (SA.A3 _ _ _ (kall s HR)) as I3. pose proof (SA.A4 _ _ _ (kall s HR)) as I4.
  assert (Hp0 : nth_error (M.log (M.nodes s (n2 n))) 0 = Some M.e0) by (rewrite Er0; reflexivity).
  destruct (S4.ae_ok_facts s (n2 n) (n2 t) (n2 a) (n2 n) 0 0 (absL pk Wl) (n2 cm) M.e0 I3 I4 Hin Hp0 eq_refl)
    as (M1 & Fp & Hl1 & Wd).
  destruct (S4.ae_result _ _ 0 _ M1 Fp Hl1 Wd) as (HkL & Hcases). cbv zeta in HkL, Hcases.
  rewrite absL_length in HkL, Hcases.
  replace (1 + length Wl)%nat with k in HkL, Hcases by lia.
  set (Lt := M.llog s (n2 t)) in *.
  assert (HLk : firstn k Lt = absL pk (e00 :: Wl)).
  { replace k with (1 + length (absL pk Wl))%nat by (rewrite absL_length; lia).
    rewrite ML.firstn_add, (S4.window_eq _ _ _ Wd), <- Fp, Er0. cbn [firstn absL map].
    rewrite absE_e00. reflexivity. }
  set (full' := firstn 1 full ++ l1merge (skipn 1 full) Wl).
  assert (Smf' : Forall small full').
  { unfold full'. apply Forall_app. split; [apply Forall_firstn; exact Smf|].
    apply l1merge_small; [apply Forall_skipn; exact Smf|exact SmW]. }
  assert (Hl' : firstn 1 (M.log (M.nodes s (n2 n))) ++ M.merge (skipn 1 (M.log (M.nodes s (n2 n)))) (absL pk Wl) =
                absL pk full').
  { unfold full'. rewrite EL, absL_app, absL_firstn. f_equal. rewrite <- absL_skipn. apply merge_abs. }
  rewrite Hl' in Hcases.
  assert (Hfi : first_idx (log x0) <= N.of_nat k - 1).
  { unfold load_dump_ok in Eok. rewrite Est in Eok. apply andb_prop in Eok as [Eok _].
    rewrite Ea in Eok.
    pose proof (H_fi _ _ _ HN0) as Hx. fold K in Eok. lia. }
  assert (Hidx : eidx (s_e1 sn0) = eidx (s_e0 sn0) + 1) by (rewrite Ei0; fold K; lia).
  split; [exact Hf0|].
  destruct Hcases as [(A1 & A2 & A3)|(A1 & A2)].
  - (* the follower holds entries k-1 and k: only the L1 log is trimmed *)
    rewrite EL in A1. apply (absL_inj_small c mf) in A1; [|exact Smf'|exact Smf].
    rewrite EL, HLk, <- absL_firstn in A3.
    apply (absL_inj_small c mf) in A3; [|apply Forall_firstn; exact Smf|exact SmW0].
    assert (N1f : nth_error full (k - 1) = Some (s_e1 sn0)).
    { rewrite <- (ML.nth_error_firstn_lt full k) by lia. rewrite A3. exact N1. }
    assert (N0f : nth_error full (k - 2) = Some (s_e0 sn0)).
    { rewrite <- (ML.nth_error_firstn_lt full k) by lia. rewrite A3. exact N0. }
    destruct (install_keep (log x0) full (s_e0 sn0) (s_e1 sn0) k W Sx Hk2 Hfi N1f N0f)
      as (Hkept & Hdel & Sx2).
    assert (Hkept' : kept_of (log (nd S1b)) (s_e0 sn0) (s_e1 sn0) = true).
    { rewrite El. exact Hkept. }
    assert (Hdel' : delete_to (log (nd S1b)) (eidx (s_e0 sn0)) = s_e0 sn0 :: s_e1 sn0 :: skipn k full).
    { rewrite El. exact Hdel. }
    destruct (load_dump_keep e S1b sn0 _ Est Eok Hd Hkept' Hdel' Hidx) as (Ffv & Fo & FP & Fg).
    exists (s_e0 sn0 :: s_e1 sn0 :: skipn k full), (replay_idx (nd S1b)), (skipn k full).
    rewrite A1. split; [exact Sx2|]. split; [|split; [|split; [|split; [|split; [|split; [|split; [|split]]]]]]].
    + rewrite <- Hdel. unfold delete_to. pose proof (H_small _ _ _ HN0) as C1.
      destruct (eidx (s_e0 sn0) <? first_idx (log x0)); [exact C1|apply Forall_skipn; exact C1].
    + cbn [first_idx]. rewrite Ei0. lia.
    + rewrite Er. lia.
    + rewrite Er.
      pose proof (H_rinv _ _ _ HN0) as Hx. pose proof (H_fi _ _ _ HN0) as Hy.
      unfold load_dump_ok in Eok. rewrite Est in Eok. apply andb_prop in Eok as [Eok _].
      rewrite Ea in Eok. fold K in Eok. lia.
    + symmetry. apply firstn_skipn.
    + rewrite Ffv. unfold fvo. cbn. reflexivity.
    + exact Fo.
    + intros B. apply FP. exact Hcs.
    + exact Fg.
  - (* otherwise the follower's log becomes the k entries of the message *)
    rewrite HLk in A1. apply (absL_inj_small c mf) in A1; [|exact Smf'|exact SmW0].
    assert (Hno : forall b, nth_error full (k - 1) = Some b -> eterm b = eterm (s_e1 sn0) -> False).
    { intros b Hb Ht. apply A2.
      assert (Hbl : nth_error (M.log (M.nodes s (n2 n))) (k - 1) = Some (absE pk b)).
      { rewrite EL, absL_nth, Hb. reflexivity. }
      assert (HbL : nth_error Lt (k - 1) = Some (absE pk (s_e1 sn0))).
      { rewrite <- (ML.nth_error_firstn_lt Lt k) by lia. rewrite HLk, absL_nth, N1. reflexivity. }
      assert (Hte : M.eterm (absE pk b) = M.eterm (absE pk (s_e1 sn0))) by (cbn; rewrite Ht; reflexivity).
      pose proof (M1 _ _ _ Hbl HbL Hte) as F. replace (Sn (k - 1)) with k in F by lia.
      split; [|exact F].
      assert (k - 1 < length (M.log (M.nodes s (n2 n))))%nat by (apply nth_error_Some; congruence). lia. }
    destruct (install_replace (log x0) full (s_e0 sn0) (s_e1 sn0) k W Sx Hk2 Hfi Ei0 Hno) as [Hk1 Hk3].
    assert (Hk1' : kept_of (log (nd S1b)) (s_e0 sn0) (s_e1 sn0) = false).
    { rewrite El. exact Hk1. }
    assert (Hk3' : keep_of (log (nd S1b)) (s_e0 sn0) (s_e1 sn0) = false).
    { rewrite El. exact Hk3. }
    destruct (load_dump_replace e S1b sn0 Est Eok Hd Hk1' Hk3') as (Ffv & Fo & FP & Fg).
    exists [s_e0 sn0; s_e1 sn0], (N.min (replay_idx (nd S1b)) K), [].
    assert (Hlen' : length full' = k) by (rewrite A1; cbn [length]; lia).
    split; [|split; [|split; [|split; [|split; [|split; [|split; [|split; [|split]]]]]]]].
    + rewrite A1. exists (k - 2)%nat. split.
      * symmetry. apply skipn_last_two; auto. cbn [length]. lia.
      * cbn [length]. lia.
    + constructor; [exact Sm0|constructor; [exact Sm1|constructor]].
    + cbn [first_idx]. rewrite Ei0. lia.
    + rewrite Er. lia.
    + lia.
    + rewrite app_nil_r, firstn_all2 by lia. reflexivity.
    + exact Ffv.
    + exact Fo.
    + exact FP.
    + exact Fg.
Qed.

(* a refusing outcome of the snapshot branch *)
Lemma sim_refuse n a (S0 S1 S' : Node.S) s t :
  LS n s S0 -> a <> n -> some_ae t a n s -> term (nd S0) <= t ->
  fv (nd S1) = fv ((nd S0) <| term := if term (nd S0) <? t then t else term (nd S0) |>
                           <| voted := if term (nd S0) <? t then None else voted (nd S0) |>
                           <| role := FOLLOWER |>) ->
  grow nosend S0 S1 ->
  fx (nd S') = fx (nd S1) -> blobs_ok (nd S0) (nd S') s -> Hn (nd S') -> outs S' = outs S1 ->
  exists s', ksn (n2 n) s s' /\ LS n s' S'.
Proof.
  intros L Hne Hs Et F1 G1 Efx B HN G. apply (sim_ae_fail n a S0 S' s t); auto.
  - rewrite Efx. apply fv_fx. exact F1.
  - eapply grow_mono; [|eapply grow_trans; [exact G1|exists []; rewrite app_nil_r; split; [exact G|constructor]]].
    intros o Ho. left. exact Ho.
Qed.

(* the member set a valid snapshot installs is the fold of the first k entries of any log that is
   committed up to k *)
Lemma cl_of_fold n s2 (x1 : node) sn0 full' :
  KS.kreachable V' F0 s2 -> snap_valid s2 sn0 -> self x1 = Some n ->
  M.log (M.nodes s2 (n2 n)) = absL pk full' ->
  (n2 (eidx (s_e1 sn0)) <= M.commit (M.nodes s2 (n2 n)))%nat ->
  cl_of x1 sn0 = fold_members (vminus n V) (firstn (n2 (eidx (s_e1 sn0))) full') (Some n).
Proof.
  intros HR2 Hv Hself EL2 Hk.
  assert (Hsb : ssorted (vminus n V)) by (apply ssorted_vminus; exact SV).
  destruct (valid_own s2 (n2 n) sn0 HR2 Hv Hk) as (_ & _ & _ & Hms).
  rewrite EL2, <- absL_firstn in Hms.
  pose proof (others_abs pk n V (firstn (n2 (eidx (s_e1 sn0))) full') Hsb) as Hab.
  rewrite MC.others_gcfg in Hab.
  destruct Hv as (_ & _ & (Hcs & _) & _).
  apply ssorted_ext.
  - unfold cl_of. apply ssorted_filter. exact Hcs.
  - apply ssorted_fold_members. exact Hsb.
  - intros y. rewrite (Hab y), MC.del_In, <- (Hms y). unfold cl_of. rewrite filter_In.
    unfold self_is. rewrite Hself. rewrite negb_true_iff, N.eqb_neq. split; intros [A B]; split; auto; lia.
Qed.

(* the file is complete: [S1b] is the node with the assembled blob [B] in its store *)
Lemma sim_complete n a (S0 S1 S1b : Node.S) s t cm B :
  LS n s S0 -> a < RO_BASE -> a <> n -> some_ae t a n s -> term (nd S0) <= t ->
  fv (nd S1) = fv ((nd S0) <| term := if term (nd S0) <? t then t else term (nd S0) |>
                           <| voted := if term (nd S0) <? t then None else voted (nd S0) |>
                           <| role := FOLLOWER |>) ->
  grow nosend S0 S1 ->
  fx (nd S1b) = fx (nd S1) -> queue (nd S1b) = queue (nd S1) -> readonly (nd S1b) = readonly (nd S1) ->
  applied (nd S1b) = applied (nd S1) -> replay_idx (nd S1b) = replay_idx (nd S1) ->
  trans (sr (nd S1b)) = trans (sr (nd S1)) -> pid (sr (nd S1b)) = pid (sr (nd S1)) ->
  cur_id (sr (nd S1b)) = cur_id (sr (nd S1)) -> incoming (sr (nd S1b)) = None -> outs S1b = outs S1 ->
  stored (sr (nd S1b)) = Some B ->
  (forall sn0, B = Good sn0 -> snap_valid s sn0) ->
  (forall sn0, B = Good sn0 -> install_img c mf t a n cm sn0 s) ->
  (forall sn, stored (sr (nd S1b)) = Some (Good sn) -> s_ver sn <= self_ver (nd S1b)) ->
  exists s', ksn (n2 n) s s' /\
    LS n s' (if load_dump_ok S1b
             then let s2 := load_dump e true S1b in
                  let v := applied (nd s2) in
                  ae_commit cm (Some v) (send_next_idx a (Some (v + 1)) false true s2)
             else ae_commit cm None (load_dump e true S1b)).
Proof.
  intros L Ha Hne Hs Et F1 G1 Bfx Bqueue Bro Bapplied Breplay Btrans Bpid Bcur Binc Bouts Est HvB Himg Hver.
  destruct (LS_full _ _ _ L) as (full & EL & W & Sx & Smf & Hof).
  pose proof (LS_h _ _ _ _ _ _ L) as HN0. pose proof (LS_reach _ _ _ _ _ _ L) as HR.
  pose proof (LS_n _ _ _ _ _ _ L) as RN.
  fvinj_n F1 P.
  destruct (fx_eq _ _ Bfx) as (Bself & Both & Brole & Bterm & Bvoted & Blog & Bcommit & Bmatch).
  assert (Psr' : sr (nd S1) = sr (nd S0)) by exact Psr.
  assert (HnB : forall y, log y = log (nd S0) -> queue y = queue (nd S0) -> replay_idx y = replay_idx (nd S0) ->
                 applied y = applied (nd S0) -> readonly y = readonly (nd S0) -> commit y = commit (nd S0) ->
                 sr y = sr (nd S1b) -> role y = FOLLOWER -> Hn y).
  { intros y E1 E2 E3 E4 E5 E6 E7 E8. apply (Hn_sr (nd S0)); try assumption.
    - rewrite E7, Bpid, Psr'. reflexivity.
    - rewrite E7, Bcur, Psr'. reflexivity.
    - intros b Hb. rewrite E7, Est in Hb. injection Hb as <-. destruct B as [sn0|k0] eqn:EB; [|exact I].
      apply (blob_valid_small c mf V s (Good sn0)). apply HvB. reflexivity.
    - intros ps0 b o l Hi. rewrite E7, Binc in Hi. discriminate Hi.
    - apply pend_not_leader. rewrite E8. discriminate. }
  assert (Hrole1 : role (nd S1b) = FOLLOWER) by (rewrite Brole; exact Prole).
  destruct (load_dump_ok S1b) eqn:Eok.
  2:{ (* not installed *)
    assert (Hbl : forall y, sr y = sr (nd S1b) -> commit y = commit (nd S0) ->
                    (forall sn0, B = Good sn0 -> eidx (s_e1 sn0) <= applied (nd S0)) -> blobs_ok (nd S0) y s).
    { intros y E7 E6 Hbe. split; [|split].
      - intros b Hb. right. rewrite E7, Est in Hb. injection Hb as <-. intros sn0 EB.
        split; [apply HvB; exact EB|]. rewrite E6. pose proof (H_ac _ _ _ HN0). specialize (Hbe sn0 EB). lia.
      - apply tr_ok_same. rewrite E7, Btrans, Psr'. reflexivity.
      - intros ps0 b o l Hi. rewrite E7, Binc in Hi. discriminate Hi. }
    destruct B as [sn0|k0] eqn:EB.
    - unfold load_dump_ok in Eok. rewrite Est in Eok.
      specialize (Hver sn0 Est).
      assert (Hbe : (eidx (s_e1 sn0) <=? applied (nd S1b)) = true).
      { destruct (eidx (s_e1 sn0) <=? applied (nd S1b)); [reflexivity|]. cbn [negb andb] in Eok. lia. }
      rewrite (load_dump_behind e S1b sn0 Est Hbe).
      assert (Hbe' : eidx (s_e1 sn0) <= applied (nd S0)).
      { apply N.leb_le in Hbe. rewrite Bapplied, Papplied in Hbe. exact Hbe. }
      apply (sim_refuse n a S0 S1 _ s t L Hne Hs Et F1 G1).
      + rewrite <- Bfx. reflexivity.
      + apply Hbl; [reflexivity|exact (eq_trans Bcommit Pcommit)|]. intros sn1 E1. injection E1 as <-. exact Hbe'.
      + apply HnB; try reflexivity.
        * exact (eq_trans Blog Plog). * exact (eq_trans Bqueue Pqueue). * exact (eq_trans Breplay Preplay).
        * exact (eq_trans Bapplied Papplied). * exact (eq_trans Bro Pro). * exact (eq_trans Bcommit Pcommit).
        * exact Hrole1.
      + exact Bouts.
    - rewrite (load_dump_corrupt e S1b k0 Est).
      apply (sim_refuse n a S0 S1 _ s t L Hne Hs Et F1 G1).
      + rewrite <- Bfx. reflexivity.
      + apply Hbl; [reflexivity|exact (eq_trans Bcommit Pcommit)|]. intros sn1 E1. discriminate E1.
      + apply HnB; try reflexivity.
        * exact (eq_trans Blog Plog). * exact (eq_trans Bqueue Pqueue). * exact (eq_trans Breplay Preplay).
        * exact (eq_trans Bapplied Papplied). * exact (eq_trans Bro Pro). * exact (eq_trans Bcommit Pcommit).
        * exact Hrole1.
      + exact Bouts. }
  (* the install *)
  destruct B as [sn0|k0] eqn:EB; [|unfold load_dump_ok in Eok; rewrite Est in Eok; discriminate Eok].
  pose proof (HvB sn0 eq_refl) as Hv0.
  destruct (Himg sn0 eq_refl) as (Hkcm & Wl & Hin & HlenW & SmW & N1 & N0).
  clear Hver HnB.
  destruct (install_outcome n s (nd S0) S1b sn0 Wl full t a cm HR EL W Smf Sx HN0 (eq_trans Blog Plog)
              (eq_trans Breplay Preplay) (eq_trans Bapplied Papplied) Est Eok Hv0
              Hin HlenW SmW N1 N0) as (Hf0 & lg & rp & rr & Sx' & Hsm' & Hfi' & Hrp1 & Hrp2 & Hrr & Ffv & Foth & FP & Fg).
  set (K := eidx (s_e1 sn0)) in *.
  set (full' := firstn 1 full ++ l1merge (skipn 1 full) Wl) in *.
  assert (Sm01 : small (s_e0 sn0) /\ small (s_e1 sn0) /\ csmall (s_cluster sn0)).
  { destruct Hv0 as (Sm0 & Sm1 & Sc & _); auto. }
  cbv zeta.
  set (S2 := load_dump e true S1b) in *. clearbody S2.
  destruct (fvo_eq _ _ Ffv) as (Qself & Qrole & Qterm & Qvoted & Qvotes & Qlog & Qcommit & Qsr & Qqueue & Qapplied &
                                Qreplay & Qro & Qnoop & Qchg).
  cbn in Qself, Qrole, Qterm, Qvoted, Qvotes, Qlog, Qcommit, Qsr, Qqueue, Qapplied, Qreplay, Qro, Qnoop, Qchg.
  rewrite Qapplied.
  destruct (ae_tail2 a cm K S2) as (F3 & Toth & Tmatch & G3). cbv zeta in F3, Toth, Tmatch, G3.
  set (S3 := ae_commit cm (Some K) (send_next_idx a (Some (K + 1)) false true S2)) in *. clearbody S3.
  destruct (fvo_eq _ _ F3) as (Tself & Trole & Tterm & Tvoted & Tvotes & Tlog & Tcommit & Tsr & Tqueue & Tapplied &
                               Treplay & Tro & Tnoop & Tchg).
  cbn in Tself, Trole, Tterm, Tvoted, Tvotes, Tlog, Tcommit, Tsr, Tqueue, Tapplied, Treplay, Tro, Tnoop, Tchg.
  set (cmt := if commit (nd S0) <? cm then N.max (commit (nd S0)) (N.min cm (K + 1 - 1)) else commit (nd S0)).
  assert (Hcmt : commit (nd S3) = cmt).
  { rewrite Tcommit, Qcommit, Bcommit, Pcommit.
    unfold cmt. replace (K + 1 - 1) with K by lia. reflexivity. }
  assert (HKc : K <= cmt).
  { unfold cmt. replace (K + 1 - 1) with K by lia. clear - Hkcm. fold K in Hkcm.
    destruct (commit (nd S0) <? cm) eqn:E; lia. }
  assert (HapK : applied (nd S0) < K).
  { unfold load_dump_ok in Eok. rewrite Est in Eok. apply andb_prop in Eok as [Eok _].
    rewrite Bapplied, Papplied in Eok. fold K in Eok. clear - Eok. lia. }
  assert (Hself1 : self (nd S1b) = Some n).
  { rewrite Bself, Pself. apply (LS_self _ _ _ _ _ _ L). }
  apply (sim_ae_ok n a S0 S3 s t cm 1 0 Wl e00 full full' cmt (K + 1)); auto.
  - lia.
  - rewrite Tlog, Qlog. exact Sx'.
  - (* the member table *)
    intros s2 HR2 KS2 EL2 EC2.
    rewrite Toth, Foth, Hself1.
    rewrite (cl_of_fold n s2 (nd S1b) sn0 full' HR2 (snap_valid_kstar c mf V NDV VNE s s2 sn0 HR KS2 Hv0) Hself1 EL2)
      by (fold K; lia).
    rewrite <- fold_members_app. fold K. rewrite <- Hrr. reflexivity.
  - clear - HlenW. fold K in HlenW. lia.
  - unfold fy. rewrite Tself, Trole, Tterm, Tvoted, Hcmt.
    rewrite Qself, Qrole, Qterm, Qvoted.
    rewrite Bself, Brole, Bterm, Bvoted.
    rewrite Pself, Prole, Pterm, Pvoted. reflexivity.
  - intros f m Hf Hg. rewrite Toth in Hf. rewrite Tmatch in Hg. revert f m Hf Hg. apply FP.
    intros f m Hf Hg. rewrite Both, Poth in Hf. rewrite Bmatch, Pmatch in Hg.
    apply (Rn_match _ _ _ _ _ _ RN f m Hf); [|exact Hg].
    intros ->. apply (LS_not_self _ _ _ L). exact Hf.
  - split; [|split].
    + intros b Hb. right. rewrite Tsr, Qsr, Est in Hb. injection Hb as <-. intros sn1 E1. injection E1 as <-.
      split; [apply HvB; reflexivity|]. rewrite Hcmt. exact HKc.
    + apply tr_ok_same. rewrite Tsr, Qsr, Btrans, Psr'. reflexivity.
    + intros ps0 b o l Hi. rewrite Tsr, Qsr, Binc in Hi. discriminate Hi.
  - destruct HN0 as [C1 C2 C3 C4 C5 C6 C7 C8 C9 C10].
    constructor.
    + rewrite Tlog, Qlog. exact Hsm'.
    + rewrite Tqueue, Qqueue, Bqueue, Pqueue. exact C2.
    + rewrite Treplay, Qreplay, Tapplied, Qapplied. exact Hrp2.
    + rewrite Tro, Qro, Bro, Pro. exact C4.
    + rewrite Tapplied, Qapplied, Hcmt. exact HKc.
    + rewrite Tlog, Qlog, Tapplied, Qapplied. exact Hfi'.
    + rewrite Tsr, Qsr, Tapplied, Qapplied, Bpid, Bcur, Psr'. intros Hp. specialize (C7 Hp). clear - C7 HapK. lia.
    + intros b Hb. rewrite Tsr, Qsr, Est in Hb. injection Hb as <-. exact Sm01.
    + intros ps0 b o l Hi. rewrite Tsr, Qsr, Binc in Hi. discriminate Hi.
    + apply pend_not_leader. rewrite Trole, Qrole, Hrole1. discriminate.
  - eapply grow_trans; [eapply grow_mono; [|exact G1]; intros o Ho; left; exact Ho|].
    eapply grow_trans; [exists []; rewrite app_nil_r; split; [exact Bouts|constructor]|].
    eapply grow_trans; [eapply grow_mono; [|exact Fg]; intros o Ho; left; exact Ho|].
    eapply grow_mono; [|exact G3]. intros o ->. right. rewrite Qterm, Bterm, Pterm.
    destruct (term (nd S0) <? t) eqn:E; [reflexivity|]. apply N.ltb_ge in E. f_equal. f_equal. clear - E Et. lia.
Qed.

Lemma sim_msg_aesnap n a x s t cm p :
  LS n s (start_S e x) -> Rmsg a n (AESnap t cm p) s -> ver_ok e a (AESnap t cm p) x ->
  exists s', ksn (n2 n) s s' /\ LS n s' (on_message e a (AESnap t cm p) x).
Proof.
  intros L Hm Hver. unfold on_message. unfold ver_ok in Hver. set (S0 := start_S e x) in *.
  rewrite on_append_entries_eq.
  destruct (t <? term (nd S0)) eqn:Et; [exists s; split; [constructor|exact L]|].
  apply N.ltb_ge in Et.
  destruct (ae_pre_spec e a t cm S0) as [F1 G1].
  set (S1 := ae_pre e a t cm S0) in *. clearbody S1. clearbody S0.
  pose proof (LS_h _ _ _ _ _ _ L) as HN0. pose proof (LS_n _ _ _ _ _ _ L) as RN.
  pose proof (LS_reach _ _ _ _ _ _ L) as HR. pose proof (LS_lt _ _ _ _ _ _ L) as Hnlt.
  fvinj_n F1 P.
  assert (Hsa : a < RO_BASE /\ a <> n /\ some_ae t a n s).
  { destruct p as [|bl off len first last]; cbn in Hm.
    - destruct Hm as (A & B & C). auto.
    - destruct Hm as (A & B & _ & C). destruct (C Hnlt). auto. }
  destruct Hsa as (Ha & Hne & Hs).
  assert (HnS : forall y, log y = log (nd S1) -> queue y = queue (nd S1) -> replay_idx y = replay_idx (nd S1) ->
                 applied y = applied (nd S1) -> readonly y = readonly (nd S1) -> commit y = commit (nd S1) ->
                 pid (sr y) = pid (sr (nd S1)) -> cur_id (sr y) = cur_id (sr (nd S1)) ->
                 (forall bl, stored (sr y) = Some bl -> bsmall bl) ->
                 (forall ps bl o l, incoming (sr y) = Some ps -> In (bl, o, l) ps -> bsmall bl) ->
                 role y = role (nd S1) -> Hn y).
  { intros y E1 E2 E3 E4 E5 E6 E7 E8 E9 E10 E11. apply (Hn_sr (nd S0)); try assumption; try congruence.
    apply pend_not_leader. rewrite E11, Prole. discriminate. }
  assert (Hsame : exists s', ksn (n2 n) s s' /\ LS n s' (ae_commit cm None S1)).
  { apply (sim_refuse n a S0 S1 _ s t L Hne Hs Et F1 G1); try reflexivity.
    - apply blobs_ok_same. exact Psr.
    - apply HnS; try reflexivity.
      + intros bl Hb. apply (H_stored _ _ _ HN0 bl). rewrite <- Psr. exact Hb.
      + intros ps bl o l Hi Hb. apply (H_incoming _ _ _ HN0 ps bl o l); auto. rewrite <- Psr. exact Hi. }
  cbn [ae_body_of].
  destruct p as [|bl off len first last]; [exact Hsame|].
  destruct Hm as (_ & _ & Hbv & Himg). destruct (Himg Hnlt) as [_ Himg']. clear Himg.
  unfold set_transmission in Hver |- *.
  set (inc := if first then Some [] else incoming (sr (nd S1))) in *.
  assert (Hinc : forall ps, inc = Some ps -> forall bl0 o l, In (bl0, o, l) ps -> blob_valid s bl0).
  { intros ps Ei bl0 o l Hin. unfold inc in Ei. destruct first.
    - injection Ei as <-. destruct Hin.
    - rewrite Psr in Ei. eapply (Rn_incoming _ _ _ _ _ _ RN); eauto. }
  clearbody inc.
  destruct inc as [ps|]; [|exact Hsame].
  specialize (Hinc ps eq_refl).
  set (ps' := ps ++ [(bl, off, len)]) in *.
  assert (Hps' : forall bl0 o l, In (bl0, o, l) ps' -> blob_valid s bl0).
  { intros bl0 o l Hin. unfold ps' in Hin. apply in_app_or in Hin as [Hin|[Hin|[]]].
    - eapply Hinc; eauto.
    - injection Hin as <- _ _. exact Hbv. }
  destruct last.
  2:{ (* a piece in the middle: stored in the incoming file *)
    cbn [andb]. apply (sim_refuse n a S0 S1 _ s t L Hne Hs Et F1 G1); try reflexivity.
    - split; [|split].
      + intros b Hb. left. rewrite <- Psr. exact Hb.
      + apply tr_ok_same. rewrite <- Psr. reflexivity.
      + intros ps0 b o l Hi Hb. right. injection Hi as <-. eapply Hps'; eauto.
    - apply HnS; try reflexivity.
      + intros b Hb. apply (H_stored _ _ _ HN0 b). rewrite <- Psr. exact Hb.
      + intros ps0 b o l Hi Hb. injection Hi as <-. eapply (blob_valid_small c mf V). eapply Hps'; eauto. }
  (* the last piece: the file is complete *)
  cbn [andb].
  set (B := assemble_snap ps') in *.
  destruct (snap_ahead B (applied (nd S1))) eqn:Eah.
  2:{ (* a file that is corrupt or not ahead of the node is dropped: the store keeps what it held *)
    cbn [andb]. apply (sim_refuse n a S0 S1 _ s t L Hne Hs Et F1 G1); try reflexivity.
    - split; [|split].
      + intros b Hb. left. rewrite <- Psr. exact Hb.
      + apply tr_ok_same. rewrite <- Psr. reflexivity.
      + intros ps0 b o l Hi Hb. discriminate Hi.
    - apply HnS; try reflexivity.
      + intros b Hb. apply (H_stored _ _ _ HN0 b). rewrite <- Psr. exact Hb.
      + intros ps0 b o l Hi Hb. discriminate Hi. }
  set (S1b := upd (fun n0 => n0 <| sr := (sr n0) <| stored := Some B |> <| incoming := None |> |>) S1) in *.
  specialize (Hver S1b eq_refl eq_refl).
  apply (sim_complete n a S0 S1 S1b s t cm B L Ha Hne Hs Et F1 G1); try reflexivity.
  - intros sn0 EB. destruct (assemble_good _ _ EB) as ((o0 & l0 & r0 & Eps) & _).
    apply (Hps' (Good sn0) o0 l0). rewrite Eps. left. reflexivity.
  - intros sn0 EB.
    assert (Hv0 : snap_valid s sn0).
    { destruct (assemble_good _ _ EB) as ((o0 & l0 & r0 & Eps) & _).
      apply (Hps' (Good sn0) o0 l0). rewrite Eps. left. reflexivity. }
    destruct (assemble_good _ _ EB) as (_ & Hcontig).
    destruct (contig_last sn0 ps bl off len 0 Hcontig) as (sn' & Ebl & Heq).
    specialize (Himg' eq_refl sn' Ebl). rewrite Ebl in Hbv.
    apply snap_eqb_true in Heq. destruct Heq as (Q1 & Q0 & _).
    apply entry_eqb_true in Q1. destruct Q1 as (_ & Q1 & _).
    destruct (valid_two s sn0 sn' HR Hv0 Hbv Q1) as (X1 & X0 & _).
    unfold install_img in *. rewrite X1, X0. exact Himg'.
  - exact Hver.
Qed.

End Msg.
