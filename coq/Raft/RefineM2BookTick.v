(* Tier CM2, bookkeeping facts, part 1 (L1 only): where the log of a node starts after a tick.  A tick only
   appends to the log, except for the cut of the compaction step, which cuts at the serializer's [cur_id]:
   this is the tick clause of RefineM2Main.san_ok ("a tick never applies an entry it has already cut"). *)
From Coq Require Import ZArith NArith List Bool Lia ZifyBool Arith PeanoNat.
From RecordUpdate Require Import RecordSet.
From PSO Require Import Raft.Types Raft.Node Raft.Net Raft.Obs Raft.ProofsCommitBase.
From PSO Require Import Raft.ProofsCallbacks2.
From PSO Require Raft.ProofsCommitLog Raft.ProofsMembershipInv Raft.ProofsCallbacksCore.
Import ListNotations.
Import RecordSetNotations.
Open Scope N_scope.

Module CL := PSO.Raft.ProofsCommitLog.
Module CC := PSO.Raft.ProofsCallbacksCore.

Ltac frs := intros; reflexivity.

(* a phase before the compaction step: the log only grows, the serializer's job is untouched *)
Definition grows2 (a b : node) : Prop := CC.grows a b /\ cur_id (sr b) = cur_id (sr a).

Lemma grows2_refl a : grows2 a a.
Proof. split; [apply CC.grows_refl|reflexivity]. Qed.
Lemma grows2_trans a b d : grows2 a b -> grows2 b d -> grows2 a d.
Proof. intros [A1 A2] [B1 B2]. split; [eapply CC.grows_trans; eauto|congruence]. Qed.

Lemma cur_of_nkeeps a b : CL.nkeeps a b -> cur_id (sr b) = cur_id (sr a).
Proof. intros (_ & _ & H & _). exact H. Qed.

Lemma grows2_same a b : sr b = sr a -> log b = log a -> grows2 a b.
Proof. intros H1 H2. split; [apply CC.grows_same; auto|rewrite H1; reflexivity]. Qed.

(* the state in which the compaction step of a tick starts (or in which the tick ends early) *)
Lemma tick_before_compact e x0 :
  file_dump (cf e) = false ->
  exists s3, grows2 x0 (nd s3) /\ (on_tick e x0 = s3 \/ on_tick e x0 = try_compact e s3).
Proof.
  intros Hf.
  assert (G0 : grows2 x0 (nd (tick_pre e (start_S e x0)))).
  { split; [apply CC.grows_tick_pre; exact Hf|].
    unfold tick_pre. change x0 with (nd (start_S e x0)) at 2.
    apply (andthen_rel (fun a b => cur_id (sr b) = cur_id (sr a))); [congruence| |intros].
    { unfold tick_load. rewrite Hf, andb_false_r. reflexivity. }
    apply (andthen_rel (fun a b => cur_id (sr b) = cur_id (sr a))); [congruence| |intros].
    { apply (fr_tick_timer (fun n => cur_id (sr n))); frs. }
    apply (andthen_rel (fun a b => cur_id (sr b) = cur_id (sr a))); [congruence| |intros].
    { apply cur_of_nkeeps, CL.nkeeps_tick_election. }
    apply (fr_tick_leader (fun n => cur_id (sr n))); frs. }
  rewrite on_tick_split. cbv zeta.
  set (s0 := tick_pre e (start_S e x0)) in *.
  destruct (ok s0); [|exists s0; split; auto].
  assert (G1 : grows2 (nd s0) (nd (fst (apply_entries e s0)))).
  { split; [split|].
    - apply CC.pid_of_nkeeps, CL.nkeeps_apply_entries.
    - exists []. rewrite app_nil_r. apply (fr_apply_entries log); frs.
    - apply cur_of_nkeeps, CL.nkeeps_apply_entries. }
  set (s1 := fst (apply_entries e s0)) in *.
  destruct (ok s1); [|exists s1; split; [eapply grows2_trans; eauto|auto]].
  unfold tick_post. set (need := snd (apply_entries e s0)).
  assert (G3 : grows2 (nd s1) (nd ((tick_send e need ;; tick_ready ;; check_commands e) s1))).
  { apply (andthen_rel grows2); [apply grows2_trans| |intros].
    { split; [split|].
      - apply CC.pid_of_nkeeps, CL.nkeeps_tick_send.
      - exists []. rewrite app_nil_r. apply (fr_tick_send log); frs.
      - apply cur_of_nkeeps, CL.nkeeps_tick_send. }
    apply (andthen_rel grows2); [apply grows2_trans| |intros].
    { apply grows2_same; [apply (fr_tick_ready sr)|apply (fr_tick_ready log)]; frs. }
    split; [unfold check_commands; apply CC.grows_check_loop|apply cur_of_nkeeps, CL.nkeeps_check_commands]. }
  assert (Hshape : (tick_send e need ;; tick_ready ;; check_commands e ;; try_compact e) s1 =
                   ((tick_send e need ;; tick_ready ;; check_commands e) ;; try_compact e) s1).
  { rewrite !andthen_eq.
    destruct (ok (tick_send e need s1)) eqn:E1; [|now rewrite ?E1].
    destruct (ok (tick_ready _)) eqn:E2; [|now rewrite ?E2].
    destruct (ok (check_commands e _)) eqn:E3; now rewrite ?E3. }
  rewrite Hshape. rewrite andthen_eq.
  set (s3 := (tick_send e need ;; tick_ready ;; check_commands e) s1) in *.
  exists s3. split; [eapply grows2_trans; [exact G0|]; eapply grows2_trans; eauto|].
  destruct (ok s3); auto.
Qed.

Lemma first_idx_app_ne (a b : list entry) : a <> [] -> first_idx (a ++ b) = first_idx a.
Proof. destruct a; [contradiction|reflexivity]. Qed.

(* where the log starts after the compaction step *)
Lemma try_compact_first_idx e s :
  first_idx (log (nd (try_compact e s))) =
  if pid (sr (nd s)) =? 1 then first_idx (delete_to (log (nd s)) (cur_id (sr (nd s)))) else first_idx (log (nd s)).
Proof.
  unfold try_compact. cbv zeta.
  destruct (pid (sr (nd s)) =? 0) eqn:E0; destruct (pid (sr (nd s)) =? 1) eqn:E1; cbn [negb];
    try (apply N.eqb_eq in E0; apply N.eqb_eq in E1; congruence); try reflexivity.
  match goal with |- context [if ?b then _ else _] => destruct b end; [reflexivity|].
  match goal with |- context [match ?l with [] => _ | _ :: _ => _ end] => destruct l as [|e0 [|e1 r]] end;
    try reflexivity.
  match goal with |- context [if ?b then _ else _] => destruct b end; reflexivity.
Qed.

Theorem tick_first_idx e x :
  file_dump (cf e) = false -> CL.consec (log x) -> log x <> [] ->
  (pid (sr x) = 1 -> cur_id (sr x) < first_idx (log x) + N.of_nat (length (log x))) ->
  first_idx (log (nd (on_tick e x))) <= N.max (first_idx (log x)) (if pid (sr x) =? 1 then cur_id (sr x) else 0).
Proof.
  intros Hf Hc Hne Hcur.
  destruct (tick_before_compact e x Hf) as (s3 & [[Hp [added Hl]] Hci] & [E|E]); rewrite E.
  - rewrite Hl, first_idx_app_ne by exact Hne. lia.
  - rewrite try_compact_first_idx. rewrite Hp, Hci, Hl.
    destruct (pid (sr x) =? 1) eqn:E1; [|rewrite first_idx_app_ne by exact Hne; lia].
    apply N.eqb_eq in E1. specialize (Hcur E1).
    unfold delete_to. rewrite first_idx_app_ne by exact Hne.
    destruct (cur_id (sr x) <? first_idx (log x)) eqn:El; [rewrite first_idx_app_ne by exact Hne; lia|].
    apply N.ltb_ge in El.
    set (p := N.to_nat (cur_id (sr x) - first_idx (log x))).
    assert (Hp' : (p < length (log x))%nat) by (unfold p; lia).
    rewrite skipn_app. replace (p - length (log x))%nat with 0%nat by lia.
    destruct (skipn p (log x)) as [|a r] eqn:Es.
    { assert (length (skipn p (log x)) = 0%nat) by (rewrite Es; reflexivity). rewrite skipn_length in H. lia. }
    cbn [app first_idx].
    assert (Ha : nth p (log x) a = a).
    { rewrite <- (firstn_skipn p (log x)) at 1. rewrite app_nth2; rewrite firstn_length; [|lia].
      replace (p - Nat.min p (length (log x)))%nat with 0%nat by lia. rewrite Es. reflexivity. }
    pose proof (CL.consec_nth (log x) p a Hc Hp') as Hn. rewrite Ha in Hn. rewrite Hn. unfold p. lia.
Qed.
