(* Tier CM2, part 5 (merge of Refine2TickB.v and RefineMTickB.v): the phases of _onTick for a voter with
   dynamic membership and compacted logs, second half: applying entries, heartbeats, the command queue
   (K_client with AbstractM's gate), the two phases of log compaction (stutters; the stored snapshot
   carries the member set of its position), and the whole tick. *)
From Coq Require Import ZArith NArith List Bool Lia ZifyBool Arith PeanoNat.
From RecordUpdate Require Import RecordSet.
From PSO Require Import Raft.Types Raft.Node Raft.Net Raft.ProofsCommitBase Raft.ProofsCommit.
From PSO Require Import Raft.ProofsElectionBase Raft.ProofsMembership Raft.ProofsMembershipInv.
From PSO Require Import Raft.RefineMAbs Raft.RefineMEff Raft.RefineMCfg Raft.RefineMK Raft.RefineMSpecA
  Raft.RefineMTickA Raft.RefineMTickB.
From PSO Require Import Raft.RefineM2Abs Raft.RefineM2SpecA Raft.RefineM2Sim Raft.RefineM2TickA Raft.RefineM2Snap.
From PSO Require AbstractM.Model AbstractM.Lib AbstractM.Kstep AbstractM.Cfg AbstractM.SafetyAll.
Import ListNotations.
Import RecordSetNotations.
Open Scope N_scope.
#[local] Arguments firstn : simpl nomatch.
#[local] Arguments skipn : simpl nomatch.

Lemma fvA_eq2 x y : fvA x = fvA y ->
  self x = self y /\ others x = others y /\ role x = role y /\ term x = term y /\ voted x = voted y /\
  votes x = votes y /\ log x = log y /\ commit x = commit y /\ match_idx x = match_idx y /\
  sr x = sr y /\ queue x = queue y /\ replay_idx x = replay_idx y /\ readonly x = readonly y /\
  noop_idx x = noop_idx y /\ change_idx x = change_idx y.
Proof. unfold fvA. intros H. injection H; intros. repeat split; congruence. Qed.

(* copied from Refine2TickB.v (L1 only) *)
Lemma first_idx_delete_to l k :
  first_idx (delete_to l k) = first_idx l \/ (first_idx l <= k /\ first_idx (delete_to l k) = 0) \/
  (first_idx l <= k /\ exists e, nth_error l (n2 (k - first_idx l)) = Some e /\ first_idx (delete_to l k) = eidx e).
Proof.
  unfold delete_to. destruct (k <? first_idx l) eqn:E; [left; reflexivity|]. apply N.ltb_ge in E.
  right. destruct (nth_error l (n2 (k - first_idx l))) as [e|] eqn:En.
  - right. split; auto. exists e. split; auto. rewrite (skipn_nth_cons _ _ _ En). reflexivity.
  - left. split; auto. apply nth_error_None in En. rewrite skipn_all2 by exact En. reflexivity.
Qed.

Section Tick.
Variable c : conf.
Variable mf : N -> N -> N * N.
Variable V : list nid.
Hypothesis NDV : NoDup V.
Hypothesis SV : ssorted V.
Hypothesis VNE : V <> [].
Hypothesis VRO : forall v, In v V -> v < RO_BASE.
Hypothesis Hb1 : 1 < batch c.
Hypothesis Hdyn : dyn c = true.
Hypothesis Hfd : file_dump c = false.
Variable e : env.
Hypothesis Hc : cf e = c.
Set Default Proof Using "All".

Notation V' := (absV V).
Notation Rn := (Rn c mf V).
Notation Rmsg := (Rmsg c mf V).
Notation Ro := (Ro c mf V).
Notation Hn := (Hn c mf).
Notation ksn := (ksn V).
Notation LS := (LS c mf V).
Notation simf := (simf c mf V).
Notation pk := (pk c).
Notation small := (small c mf).
Notation small_cmd := (small_cmd c mf).
Notation held := (held c mf V).
Notation snap_valid := (snap_valid c mf V).
Notation okout := (okout c mf V).
Notation LS_full := (LS_full c mf V NDV SV VNE VRO Hb1).
Notation LS_up := (LS_up c mf V NDV SV VNE VRO Hb1).
Notation LS_ms := (LS_ms c mf V NDV SV VNE VRO Hb1).
Notation LS_sorted := (LS_sorted c mf V NDV SV VNE VRO Hb1).
Notation LS_not_self := (LS_not_self c mf V NDV SV VNE VRO Hb1).
Notation LS_stutter := (LS_stutter c mf V NDV SV VNE VRO Hb1).
Notation LS_same := (LS_same c mf V NDV SV VNE VRO Hb1).
Notation LS_ksn := (LS_ksn c mf V NDV SV VNE VRO Hb1).
Notation simf_andthen := (simf_andthen c mf V NDV SV VNE VRO Hb1).
Notation Rn_intro := (Rn_intro c mf V NDV SV VNE VRO Hb1).
Notation Rn_rv := (Rn_rv c mf V NDV SV VNE VRO Hb1).
Notation Hn_hv := (Hn_hv c mf V NDV SV VNE VRO Hb1).
Notation Rn_commit_le := (Rn_commit_le c mf V NDV SV VNE VRO Hb1).
Notation valid_at := (valid_at c mf V NDV SV VNE VRO Hb1).
Notation held_rv := (held_rv c mf V NDV SV VNE VRO Hb1).
Notation grow_Ro := (grow_Ro c mf V NDV SV VNE VRO Hb1 Hdyn Hfd e Hc).
Notation nosend_okout := (nosend_okout c mf V NDV SV VNE VRO Hb1 Hdyn Hfd e Hc).
Notation LS_quiet := (LS_quiet c mf V NDV SV VNE VRO Hb1 Hdyn Hfd e Hc).
Notation sim_send_ae := (sim_send_ae c mf V NDV SV VNE VRO Hb1 Hdyn Hfd e Hc).
Notation dcc_facts := (dcc_facts c V NDV SV VNE VRO Hb1 Hdyn Hfd e Hc).
Notation pend_snoc_reg := (pend_snoc_reg c V NDV SV VNE VRO Hb1 Hdyn Hfd e Hc).
Notation pend_snoc_chg := (pend_snoc_chg c V NDV SV VNE VRO Hb1 Hdyn Hfd e Hc).

(* a step of L1 bookkeeping that L0 does not see: same abstract fields, new log / serializer *)
Lemma LS_local n s (S S' : Node.S) :
  LS n s S ->
  role (nd S') = role (nd S) -> term (nd S') = term (nd S) -> voted (nd S') = voted (nd S) ->
  votes (nd S') = votes (nd S) -> commit (nd S') = commit (nd S) -> match_idx (nd S') = match_idx (nd S) ->
  self (nd S') = self (nd S) -> others (nd S') = others (nd S) -> noop_idx (nd S') = noop_idx (nd S) ->
  (forall full, wf1 full -> suffix_of (log (nd S)) full -> suffix_of (log (nd S')) full) ->
  (forall bl, stored (sr (nd S')) = Some bl -> stored (sr (nd S)) = Some bl \/ held (nd S') s bl) ->
  tr_ok (nd S) (nd S') ->
  incoming (sr (nd S')) = incoming (sr (nd S)) ->
  Hn (nd S') -> grow (okout n s) S S' -> LS n s S'.
Proof.
  intros L E1 E2 E3 E4 E5 E6 E7 E8 E9 Hlog Hst Htr Hin HH G.
  destruct (LS_full _ _ _ L) as (full & EL & W & Sx & Smf & Hof).
  pose proof (LS_n _ _ _ _ _ _ L) as [A0 A1 A2 A3 A4 A5 A6 A7 A8 A9 A10 A11 A12].
  apply (LS_ksn n s s S S').
  - constructor.
  - exact L.
  - constructor; rewrite ?E1, ?E2, ?E3, ?E4, ?E5, ?E6, ?E8, ?E9; auto.
    + exists full. split; auto.
    + intros bl Hb. destruct (Hst bl Hb) as [H|H]; auto.
      eapply held_rv; [exact E5|]. auto.
    + intros d bl off Hb. eapply held_rv; [exact E5|].
      destruct (Htr d bl off Hb) as [H|(d' & o' & H)]; eauto.
    + intros ps bl o l Hi Hb. rewrite Hin in Hi. eauto.
  - exact HH.
  - rewrite E7. apply (LS_self _ _ _ _ _ _ L).
  - apply (grow_Ro (okout n s)); auto.
Qed.

(* a step that keeps the abstract view, re-establishing hygiene by hand *)
Lemma LS_keep n s (S S' : Node.S) :
  LS n s S -> rv (nd S') = rv (nd S) -> trans (sr (nd S')) = trans (sr (nd S)) -> Hn (nd S') ->
  self (nd S') = self (nd S) -> grow (okout n s) S S' -> LS n s S'.
Proof.
  intros L Hrv Ht HH Hs G.
  apply (LS_ksn n s s S S').
  - constructor.
  - exact L.
  - eapply Rn_rv; [exact Hrv|apply tr_ok_same; exact Ht|apply (LS_n _ _ _ _ _ _ L)].
  - exact HH.
  - rewrite Hs. apply (LS_self _ _ _ _ _ _ L).
  - apply (grow_Ro (okout n s)); auto.
Qed.

Lemma LS_app n s (S S' : Node.S) :
  LS n s S -> app_rel S S' -> applied (nd S') <= commit (nd S) -> LS n s S'.
Proof.
  intros L (A & B & G) Hac.
  destruct (fvA_eq2 _ _ A) as (E1 & E2 & E3 & E4 & E5 & E6 & E7 & E8 & E9 & E10 & E11 & E12 & E13 & E14 & E15).
  apply (LS_keep n s S S'); auto.
  - unfold rv. rewrite E10. congruence.
  - rewrite E10. reflexivity.
  - destruct (LS_h _ _ _ _ _ _ L) as [B1 B2 B3 B4 B5 B6 B7 B8 B9 B10].
    constructor; rewrite ?E10, ?E7, ?E8, ?E11, ?E12, ?E13; auto; try lia.
    eapply pend_weaken; [| | | |exact E15|exact B10]; try congruence; try lia.
  - eapply grow_mono; [|exact G]. intros o. apply nosend_okout.
Qed.

(* ---- tick_send ---- *)
Lemma sim_tick_send n need : simf n (tick_send e need).
Proof.
  intros S s L. unfold tick_send.
  destruct (role (nd S) =? LEADER) eqn:Er; [|exists s; split; [constructor|exact L]].
  apply N.eqb_eq in Er.
  destruct (_ || need); [|exists s; split; [constructor|exact L]].
  apply (sim_send_ae n S s L Er).
Qed.

(* ---- the leader-side gate of __changeCluster is AbstractM's gate ---- *)
Lemma In_skipn_nth2 {A} k (l : list A) x : In x (skipn k l) -> exists p, (k <= p)%nat /\ nth_error l p = Some x.
Proof.
  intros H. apply In_nth_error in H as [q Hq]. rewrite ML.nth_error_skipn in Hq. exists (k + q)%nat. split; [lia|auto].
Qed.

Lemma gate_abs n s S :
  LS n s S -> role (nd S) = LEADER -> gate_open (nd S) -> M.gate F0 (M.nodes s (n2 n)) = true.
Proof.
  intros L Hr [(i & Hi & Hia) Hch].
  pose proof (LS_n _ _ _ _ _ _ L) as RN. pose proof (LS_h _ _ _ _ _ _ L) as HH.
  destruct (LS_full _ _ _ L) as (full & EL & W & Sx & Smf & Hof).
  pose proof (Rn_noop _ _ _ _ _ _ RN Hr) as Hno. rewrite Hi in Hno. injection Hno as Hno.
  pose proof (H_ac _ _ _ HH) as Hac. pose proof (H_fi _ _ _ HH) as Hfi.
  unfold M.gate. cbn [M.gateA F0]. apply andb_true_iff. split.
  - apply Nat.ltb_lt. rewrite (Rn_commit _ _ _ _ _ _ RN). lia.
  - unfold M.no_cfg_from. apply forallb_forall. intros e0 Hin.
    rewrite EL, (Rn_commit _ _ _ _ _ _ RN), <- absL_skipn in Hin.
    apply in_map_iff in Hin as (e1 & <- & Hin). cbn [absE M.ecmd]. rewrite enc_cfg.
    apply In_skipn_nth2 in Hin as (p & Hp & Hnth).
    pose proof (proj2 W p e1 Hnth) as Hidx.
    destruct (membership_of (ecmd e1)) as [q|] eqn:Em; [|reflexivity]. exfalso.
    destruct (H_pend _ _ _ HH Hr) as (i' & Hi' & Hpe). rewrite Hi in Hi'. injection Hi' as <-.
    assert (Hm : is_mem e1 = true) by (unfold is_mem; rewrite Em; reflexivity).
    assert (Hin1 : In e1 (log (nd S))).
    { assert (Hq : first_idx (log (nd S)) <= N.of_nat p + 1) by lia.
      pose proof (suffix_nth _ _ W Sx p Hq) as Hn1. rewrite Hnth in Hn1. eapply nth_error_In; eauto. }
    assert (Hc1 : change_idx (nd S) = Some (eidx e1)).
    { apply Hpe; auto; lia. }
    destruct Hch as [Hch|(j & Hj & Hle)]; [congruence|]. rewrite Hc1 in Hj. injection Hj as <-. lia.
Qed.

Lemma eff_abs n s S cm a x :
  LS n s S -> membership_of cm = Some (a, x) -> effective (Some n) (others (nd S)) (a, x) = true ->
  M.effective (n2 n) (M.nodes s (n2 n)) (enc pk cm) = true.
Proof.
  intros L Hm He. pose proof (LS_ms _ _ _ L) as Hms.
  unfold effective, is_me in He. cbn [fst snd] in He. apply andb_true_iff in He as [He1 He2].
  apply negb_true_iff in He1. apply N.eqb_neq in He1.
  unfold enc. rewrite Hm.
  set (o := M.others (n2 n) (M.nodes s (n2 n))) in *.
  assert (Hcfg : M.cfg (n2 n) (M.nodes s (n2 n)) = n2 n :: o) by reflexivity.
  assert (Hmem : M.mem (n2 x) (n2 n :: o) = (n2 x =? n2 n)%nat || M.mem (n2 x) o) by reflexivity.
  assert (Hne : (n2 x =? n2 n)%nat = false) by (apply Nat.eqb_neq; lia).
  destruct a; cbn [M.effective]; rewrite Hcfg, Hmem, Hne, (ms_mem _ _ x Hms); cbn [orb negb andb]; exact He2.
Qed.

(* ---- appending a client command: K_client ---- *)
Lemma sim_client n s S S1 cm :
  LS n s S -> role (nd S) = LEADER ->
  M.client_ok F0 (n2 n) (M.nodes s (n2 n)) (enc pk cm) = true -> small_cmd cm ->
  role (nd S1) = LEADER -> term (nd S1) = term (nd S) -> voted (nd S1) = voted (nd S) ->
  commit (nd S1) = commit (nd S) -> noop_idx (nd S1) = noop_idx (nd S) ->
  log (nd S1) = log (nd S) ++ [mkEntry cm (last_idx (log (nd S)) + 1) (term (nd S))] ->
  others (nd S1) = match membership_of cm with
                   | Some p => step_member (Some n) (others (nd S)) p
                   | None => others (nd S) end ->
  sr (nd S1) = sr (nd S) ->
  (forall f m, In f (others (nd S1)) -> f <> n -> aget f (match_idx (nd S1)) = Some m ->
       (n2 m <= M.match_after (M.nodes s (n2 n)) (enc pk cm) (n2 f))%nat) ->
  Hn (nd S1) -> self (nd S1) = Some n -> grow nosend S S1 ->
  exists s', ksn (n2 n) s s' /\ LS n s' S1.
Proof.
  intros L Er Hok Hsm Hr1 Ht1 Hv1 Hc1 Hn1 Hl1 Ho1 Hsr1 Hm1 HH1 Hs1 G.
  pose proof (LS_n _ _ _ _ _ _ L) as RN. destruct (LS_full _ _ _ L) as (full & EL & W & Sx & Smf & Hof).
  pose proof (LS_up _ _ _ L) as Hj.
  assert (Hl : M.rl (M.nodes s (n2 n)) = M.Leader) by (rewrite (Rn_role _ _ _ _ _ _ RN), Er; reflexivity).
  destruct (t_client_ok V' (n2 n) (enc pk cm) s Hj Hl Hok) as [K E].
  set (s' := M.do_client (n2 n) (enc pk cm) s) in *.
  assert (K1 : ksn (n2 n) s s') by (apply ksn_one; auto).
  set (en := mkEntry cm (last_idx (log (nd S)) + 1) (term (nd S))) in *.
  exists s'. split; [exact K1|].
  apply (LS_ksn n s s' S S1); auto.
  - apply (Rn_intro n (nd S) (nd S1) s s'); auto;
      try (unfold s', M.do_client; cbn [M.nodes M.grants]; rewrite ?upd_eq;
           cbn [M.term M.voted M.rl M.log M.commit M.votesFrom M.matchIdx M.lf M.noopi]).
    + apply (LS_reach _ _ _ _ _ _ L).
    + eapply ksn_kstar; eauto.
    + rewrite Hsr1. reflexivity.
    + apply tr_ok_same. rewrite Hsr1. reflexivity.
    + rewrite Hsr1. reflexivity.
    + lia.
    + exact Hj.
    + rewrite Ht1. apply (Rn_term _ _ _ _ _ _ RN).
    + rewrite Hv1. apply (Rn_voted _ _ _ _ _ _ RN).
    + rewrite Hr1, (Rn_role _ _ _ _ _ _ RN), Er. reflexivity.
    + exists (full ++ [en]). split; [|split; [rewrite Hl1; apply suffix_app; exact Sx|split]].
      * rewrite absL_app, EL. f_equal. unfold absL, absE, en. cbn.
        rewrite (Rn_term _ _ _ _ _ _ RN), map_length, (suffix_last_idx _ _ Sx), (wf1_last_idx _ W).
        f_equal. f_equal. lia.
      * apply Forall_app. split; [exact Smf|]. constructor; [exact Hsm|constructor].
      * rewrite Ho1, Hof, fold_members_snoc. reflexivity.
    + rewrite Hc1. apply (Rn_commit _ _ _ _ _ _ RN).
    + intros Hx. rewrite Hr1 in Hx. discriminate.
    + exact Hm1.
    + intros Hv. rewrite Ht1. apply (ext_grants _ _ _ E). apply (Rn_self _ _ _ _ _ _ RN). congruence.
    + intros _. rewrite Hn1. apply (Rn_noop _ _ _ _ _ _ RN). exact Er.
  - apply (grow_Ro nosend); [intros o; apply nosend_okout|exact G].
Qed.

(* the state a change request is answered from *)
Lemma LS_gate_state n s S s0 : LS n s S -> gate_state S s0 -> LS n s s0.
Proof.
  intros L ([E|[E (j & Hj & Hle)]] & O & _).
  - eapply (LS_keep n s S s0); eauto; rewrite ?E; auto.
    + apply (LS_h _ _ _ _ _ _ L).
    + apply grow_eq. exact O.
  - eapply (LS_keep n s S s0); eauto; rewrite ?E; auto.
    + destruct (LS_h _ _ _ _ _ _ L) as [B1 B2 B3 B4 B5 B6 B7 B8 B9 B10]. constructor; auto.
      eapply pend_clear; eauto.
    + apply grow_eq. exact O.
Qed.

Lemma LS_denied n s S cbk : LS n s S -> LS n s (denied_out cbk S).
Proof.
  intros L. destruct cbk as [|id|rn rid]; cbn [denied_out]; [exact L| |].
  - apply (LS_quiet n s S); [exact L|reflexivity|apply grow_emit; exact I].
  - apply (LS_stutter n s S); [exact L|rewrite nd_send; reflexivity|].
    apply (grow_Ro (okout n s)); [auto|]. apply grow_send. exact I.
Qed.

(* after the entry is in the log: the callback registration and the immediate send *)
Lemma sim_check_tail n s' S2 idx tm cbk :
  LS n s' S2 -> role (nd S2) = LEADER ->
  exists s'', ksn (n2 n) s' s'' /\
    LS n s'' (let s := match cbk with
                        | CbRemote rn rid => send rn (ApplyResp rid true idx tm) S2
                        | CbLocal _ =>
                            upd (fun n0 => n0 <| wait_commit :=
                               aset idx ((match aget idx (wait_commit n0) with Some l => l | None => [] end)
                                    ++ [(tm, cbk)]) (wait_commit n0) |>) S2
                        | CbNone => S2
                        end in
              if use_batch (cf e) then s else send_ae e s).
Proof.
  intros L1 Hr1. cbv zeta.
  match goal with |- context [if _ then ?X else _] => set (S3 := X) end.
  assert (L2 : LS n s' S3 /\ role (nd S3) = LEADER).
  { subst S3. split.
    - destruct cbk as [|id|rn rid].
      + exact L1.
      + apply (LS_quiet n s' S2); [exact L1|reflexivity|apply grow_upd].
      + apply (LS_stutter n s' S2); [exact L1|rewrite nd_send; reflexivity|].
        apply (grow_Ro (okout n s')); [auto|]. apply grow_send. exact I.
    - destruct cbk; rewrite ?nd_send; auto. }
  destruct L2 as [L2 Hr2]. clearbody S3.
  destruct (use_batch (cf e)).
  - exists s'. split; [constructor|exact L2].
  - apply (sim_send_ae n S3 s' L2 Hr2).
Qed.

Lemma first_idx_snoc (l : list entry) en : l <> [] -> first_idx (l ++ [en]) = first_idx l.
Proof. destruct l; [contradiction|reflexivity]. Qed.

(* ---- a membership change accepted by the gate ---- *)
Lemma sim_change n s s0 cm a x :
  LS n s s0 -> role (nd s0) = LEADER -> small_cmd cm -> membership_of cm = Some (a, x) ->
  gate_open (nd s0) -> change_idx (nd s0) = None ->
  snd (do_change_cluster a x false s0) = true ->
  let en := mkEntry cm (last_idx (log (nd s0)) + 1) (term (nd s0)) in
  let S2 := upd (fun n0 => n0 <| change_idx := Some (eidx en) |>)
                (upd (log_add en) (fst (do_change_cluster a x false s0))) in
  exists s', ksn (n2 n) s s' /\ LS n s' S2 /\ role (nd S2) = LEADER.
Proof.
  intros L0 Er Hsm Em Hg0 Hc0 Hacc. cbv zeta.
  set (en := mkEntry cm (last_idx (log (nd s0)) + 1) (term (nd s0))).
  pose proof (do_change_cluster_ok a x false s0) as Hok. rewrite Hacc, xorb_false_r, (LS_self _ _ _ _ _ _ L0) in Hok.
  pose proof (do_change_cluster_others a x false s0) as [Hot Hse]. rewrite xorb_false_r, (LS_self _ _ _ _ _ _ L0) in Hot.
  destruct (dcc_facts a x false s0 Hacc) as [Hmi Hgr]. rewrite xorb_false_r in Hmi.
  assert (Fr : forall {T} (π : node -> T),
             (forall n0 v, π (n0 <| others := v |>) = π n0) -> (forall n0 v, π (n0 <| tconn := v |>) = π n0) ->
             (forall n0 v, π (n0 <| next_idx := v |>) = π n0) -> (forall n0 v, π (n0 <| match_idx := v |>) = π n0) ->
             (forall n0 v, π (n0 <| last_resp := v |>) = π n0) ->
             π (nd (fst (do_change_cluster a x false s0))) = π (nd s0)).
  { intros T π H1 H2 H3 H4 H5. apply (fr_do_change_cluster π); auto. }
  set (s1 := fst (do_change_cluster a x false s0)) in *. clearbody s1.
  set (S2 := upd _ (upd (log_add en) s1)).
  assert (N2 : nd S2 = (nd s1) <| log := log (nd s1) ++ [en] |> <| change_idx := Some (eidx en) |>) by reflexivity.
  pose proof (LS_h _ _ _ _ _ _ L0) as HH. pose proof (LS_n _ _ _ _ _ _ L0) as RN.
  pose proof (LS_sorted _ _ _ L0) as Hso.
  destruct (LS_full _ _ _ L0) as (full & EL & W & Sx & Smf & Hof).
  assert (Hok' : M.client_ok F0 (n2 n) (M.nodes s (n2 n)) (enc pk cm) = true).
  { unfold M.client_ok. rewrite enc_cfg, Em. apply andb_true_iff. split.
    - apply (gate_abs n s s0 L0 Er Hg0).
    - apply (eff_abs n s s0 cm a x L0 Em). symmetry. exact Hok. }
  assert (Heff : is_me (Some n) x = false /\ smem x (others (nd s0)) = negb a).
  { symmetry in Hok. unfold effective in Hok. cbn [fst snd] in Hok. apply andb_true_iff in Hok as [H1 H2].
    apply negb_true_iff in H1. split; [exact H1|]. destruct a; [apply negb_true_iff in H2|]; rewrite H2; reflexivity. }
  destruct Heff as [Hme Hsx].
  assert (Hoth2 : others (nd s1) = if a then sadd x (others (nd s0)) else sdel x (others (nd s0))).
  { rewrite Hot. unfold step_member. cbn [fst snd]. rewrite Hme, Hsx. destruct a; reflexivity. }
  destruct (sim_client n s s0 S2 cm L0 Er Hok' Hsm) as (s' & K & L2).
  - rewrite N2. cbn. rewrite (Fr _ role) by frs. exact Er.
  - rewrite N2. cbn. apply (Fr _ term); frs.
  - rewrite N2. cbn. apply (Fr _ voted); frs.
  - rewrite N2. cbn. apply (Fr _ commit); frs.
  - rewrite N2. cbn. apply (Fr _ noop_idx); frs.
  - rewrite N2. cbn. rewrite (Fr _ log) by frs. reflexivity.
  - rewrite N2. cbn. rewrite Em. exact Hot.
  - rewrite N2. cbn. apply (Fr _ sr); frs.
  - intros f m Hf Hne Hg. rewrite N2 in Hf, Hg. cbn in Hf, Hg. rewrite Hoth2 in Hf. rewrite Hmi in Hg.
    unfold enc. rewrite Em. destruct a; cbn [M.match_after].
    + apply In_sadd' in Hf. rewrite aget_aset in Hg. unfold M.upd.
      destruct (N.eqb_spec f x) as [->|Hfx].
      * injection Hg as <-. lia.
      * destruct Hf as [Hf|Hf]; [contradiction|].
        destruct (Nat.eqb_spec (n2 f) (n2 x)) as [E|_]; [lia|]. apply (Rn_match _ _ _ _ _ _ RN f m Hf Hne Hg).
    + apply In_sdel in Hf; [|exact Hso]. destruct Hf as [Hf Hfx].
      rewrite aget_adel_ne in Hg by exact Hfx. apply (Rn_match _ _ _ _ _ _ RN f m Hf Hne Hg).
  - destruct HH as [B1 B2 B3 B4 B5 B6 B7 B8 B9 B10].
    rewrite N2.
    constructor; cbn; rewrite ?(Fr _ sr), ?(Fr _ log), ?(Fr _ queue), ?(Fr _ replay_idx), ?(Fr _ applied),
      ?(Fr _ readonly), ?(Fr _ commit) by frs; auto.
    + apply Forall_app. split; [exact B1|]. constructor; [exact Hsm|constructor].
    + rewrite first_idx_snoc; [exact B6|]. apply (suffix_ne _ _ Sx).
    + eapply (pend_snoc_chg (nd s0) _ en); [exact B10|exact Hg0| | | | |]; cbn;
        rewrite ?(Fr _ role), ?(Fr _ noop_idx), ?(Fr _ applied), ?(Fr _ log) by frs; reflexivity.
  - rewrite N2. cbn. rewrite Hse. apply (LS_self _ _ _ _ _ _ L0).
  - eapply grow_trans; [exact Hgr|]. eapply grow_trans; apply grow_upd.
  - exists s'. split; [exact K|]. split; [exact L2|]. rewrite N2. cbn. rewrite (Fr _ role) by frs. exact Er.
Qed.

(* ---- one queued command ---- *)
Lemma sim_check_one n cm cbk S s :
  LS n s S -> small_cmd cm -> exists s', ksn (n2 n) s s' /\ LS n s' (check_one e cm cbk S).
Proof.
  intros L Hsm. unfold check_one.
  destruct (role (nd S) =? LEADER) eqn:Er.
  - (* leader *)
    apply N.eqb_eq in Er. replace (dyn (cf e)) with true by (rewrite Hc, Hdyn; reflexivity).
    destruct (membership_of cm) as [[a x]|] eqn:Em.
    + (* a membership change: the gate *)
      destruct (change_cluster_spec a x S) as [(Hg & s0 & Hgs & Hc0 & Ecc)|(Hg & s0 & Hgs & Ecc)]; cbv zeta in *.
      2:{ rewrite Ecc. exists s. split; [constructor|].
          pose proof (LS_denied n s s0 cbk (LS_gate_state n s S s0 L Hgs)) as LD.
          destruct cbk; exact LD. }
      rewrite Ecc.
      pose proof (LS_gate_state n s S s0 L Hgs) as L0.
      assert (Hsame : noop_idx (nd s0) = noop_idx (nd S) /\ applied (nd s0) = applied (nd S) /\
                      log (nd s0) = log (nd S) /\ term (nd s0) = term (nd S) /\ role (nd s0) = role (nd S)).
      { destruct Hgs as [[->|[-> _]] _]; cbn; auto. }
      destruct Hsame as (Q1 & Q2 & Q3 & Q4 & Q5).
      assert (Hg0 : gate_open (nd s0)).
      { destruct Hg as [(i & Hi & Hia) _]. split; [exists i; rewrite Q1, Q2; auto|left; exact Hc0]. }
      assert (Er0 : role (nd s0) = LEADER) by congruence.
      pose proof (do_change_cluster_refused a x false s0) as Href.
      pose proof (sim_change n s s0 cm a x L0 Er0 Hsm Em Hg0 Hc0) as Hch. cbv zeta in Hch.
      rewrite Q3, Q4 in Hch.
      destruct (do_change_cluster a x false s0) as [s1 acc]. cbn [fst snd] in *.
      destruct acc.
      * destruct (Hch eq_refl) as (s' & K & L2 & Hr2).
        destruct (sim_check_tail n s' _ (last_idx (log (nd S)) + 1) (term (nd S)) cbk L2 Hr2) as (s'' & K2 & L3).
        exists s''. split; [eapply ksn_trans; eauto|]. exact L3.
      * rewrite (Href eq_refl). exists s. split; [constructor|].
        pose proof (LS_denied n s s0 cbk L0) as LD. destruct cbk; exact LD.
    + (* a regular command *)
      set (en := mkEntry cm (last_idx (log (nd S)) + 1) (term (nd S))).
      set (S2 := upd (log_add en) S).
      assert (Hok' : M.client_ok F0 (n2 n) (M.nodes s (n2 n)) (enc pk cm) = true).
      { unfold M.client_ok. rewrite enc_cfg, Em. reflexivity. }
      pose proof (LS_h _ _ _ _ _ _ L) as HH. pose proof (LS_n _ _ _ _ _ _ L) as RN.
      destruct (LS_full _ _ _ L) as (full & EL & W & Sx & Smf & Hof).
      destruct (sim_client n s S S2 cm L Er Hok' Hsm) as (s' & K & L2); try reflexivity.
      * exact Er.
      * unfold S2. rewrite nd_upd. cbn. rewrite Em. reflexivity.
      * intros f m Hf Hne Hg. unfold enc. rewrite Em. cbn [M.match_after].
        apply (Rn_match _ _ _ _ _ _ RN f m Hf Hne Hg).
      * destruct HH as [B1 B2 B3 B4 B5 B6 B7 B8 B9 B10].
        constructor; auto.
        -- change (log (nd S2)) with (log (nd S) ++ [en]). apply Forall_app. split; [exact B1|].
           constructor; [exact Hsm|constructor].
        -- change (log (nd S2)) with (log (nd S) ++ [en]). change (applied (nd S2)) with (applied (nd S)).
           rewrite first_idx_snoc; [exact B6|]. apply (suffix_ne _ _ Sx).
        -- eapply (pend_snoc_reg (nd S) (nd S2) en); try reflexivity; auto. unfold is_mem. cbn. rewrite Em. reflexivity.
      * apply (LS_self _ _ _ _ _ _ L).
      * apply grow_upd.
      * destruct (sim_check_tail n s' S2 (last_idx (log (nd S)) + 1) (term (nd S)) cbk L2 Er) as (s'' & K2 & L3).
        exists s''. split; [eapply ksn_trans; eauto|]. exact L3.
  - (* not the leader: forward or fail *)
    exists s. split; [constructor|].
    destruct (leader (nd S)) as [l|].
    + destruct cbk as [|id|rn rid].
      * apply (LS_stutter n s S); [exact L|rewrite nd_send; reflexivity|].
        apply (grow_Ro (okout n s)); [auto|]. apply grow_send. exact Hsm.
      * apply (LS_stutter n s S); [exact L|rewrite nd_send; reflexivity|].
        apply (grow_Ro (okout n s)); [auto|]. eapply grow_trans; [apply grow_upd|]. apply grow_send. exact Hsm.
      * apply (LS_stutter n s S); [exact L|rewrite nd_send; reflexivity|].
        apply (grow_Ro (okout n s)); [auto|]. apply grow_send. exact I.
    + apply (LS_stutter n s S); [exact L|rewrite nd_call_err; reflexivity|].
      apply (grow_Ro (okout n s)); [auto|].
      destruct cbk as [|id|rn rid]; cbn [call_err].
      * apply grow_refl.
      * apply grow_emit. exact I.
      * apply grow_send. exact I.
Qed.

Lemma sim_check_loop n fuel start : simf n (check_loop fuel e start).
Proof.
  induction fuel as [|f IH]; intros S s L; cbn [check_loop]; [exists s; split; [constructor|exact L]|].
  destruct (_ <? _)%Z; [|exists s; split; [constructor|exact L]].
  assert (Hgo : exists s', ksn (n2 n) s s' /\
            LS n s' (match queue (nd S) with
                     | [] => S
                     | (cm, cbk) :: rest =>
                         let s0 := upd (fun n0 => n0 <| queue := rest |>) S in
                         let s0 := check_one e cm cbk s0 in
                         if ok s0 then check_loop f e start s0 else s0
                     end)).
  { destruct (queue (nd S)) as [|[cm cbk] rest] eqn:Eq; [exists s; split; [constructor|exact L]|].
    cbv zeta.
    pose proof (LS_h _ _ _ _ _ _ L) as HH.
    assert (Hq : Forall (fun q => small_cmd (fst q)) ((cm, cbk) :: rest)) by (rewrite <- Eq; apply (H_queue _ _ _ HH)).
    pose proof (Forall_inv Hq) as Hcm. pose proof (Forall_inv_tail Hq) as Hrest. cbn [fst] in Hcm.
    set (s0 := upd (fun n0 => n0 <| queue := rest |>) S).
    assert (L0 : LS n s s0).
    { apply (LS_keep n s S s0); auto; try reflexivity.
      - destruct HH as [B1 B2 B3 B4 B5 B6 B7 B8 B9 B10]. constructor; unfold s0; rewrite ?nd_upd; cbn; auto.
      - apply grow_upd. }
    destruct (sim_check_one n cm cbk s0 s L0 Hcm) as (s1 & K1 & L1).
    destruct (ok (check_one e cm cbk s0)); [|exists s1; auto].
    destruct (IH _ _ L1) as (s2 & K2 & L2). exists s2. split; auto. eapply ksn_trans; eauto. }
  destruct (leader (nd S)); [exact Hgo|].
  destruct (wait_leader (cf e)); [exists s; split; [constructor|exact L]|exact Hgo].
Qed.

Lemma sim_check_commands n : simf n (check_commands e).
Proof. intros S s L. unfold check_commands. apply sim_check_loop. exact L. Qed.


(* ---- log compaction: serialize at [applied], one tick later cut the log ---- *)
Lemma In_delete_to l k en : In en (delete_to l k) -> In en l.
Proof. unfold delete_to. destruct (_ <? _); auto. apply In_skipn_in'. Qed.

Lemma sim_try_compact n S s :
  LS n s S ->
  (pid (sr (nd S)) = 0 -> pid (sr (nd (try_compact e S))) = 1 ->
   M.mem (n2 n) (M.gcfg V' (firstn (n2 (applied (nd S))) (M.log (M.nodes s (n2 n))))) = true) ->
  exists s', ksn (n2 n) s s' /\ LS n s' (try_compact e S).
Proof.
  intros L Hsn. exists s. split; [constructor|].
  destruct (LS_full _ _ _ L) as (full & EL & W & Sx & Smf & Hof).
  pose proof (LS_h _ _ _ _ _ _ L) as HH. pose proof (LS_n _ _ _ _ _ _ L) as RN.
  pose proof (LS_reach _ _ _ _ _ _ L) as HR.
  pose proof (Rn_commit_le _ _ _ _ HR RN EL) as Hcl.
  destruct (suffix_base _ _ W Sx) as (b & Eb & Hb & Efi).
  revert Hsn. unfold try_compact. cbv zeta.
  destruct (pid (sr (nd S)) =? 0) eqn:Ep.
  - (* idle: maybe take a snapshot *)
    apply N.eqb_eq in Ep. rewrite Ep. cbn [N.eqb negb].
    destruct (_ && _); [intros _; exact L|].
    set (S1 := upd (fun n0 => n0 <| force_compact := false |>) S).
    assert (L1 : LS n s S1) by (apply (LS_quiet n s S); [exact L|reflexivity|apply grow_upd]).
    destruct (get_entries (log (nd S)) (Some (applied (nd S) - 1)) (Some 2) None) as [|e0 [|e1 r]] eqn:Ege.
    + intros _. apply (LS_quiet n s S1); [exact L1|reflexivity|apply grow_upd].
    + intros _. apply (LS_quiet n s S1); [exact L1|reflexivity|apply grow_upd].
    + destruct (opt_eqb _ _); [intros _; apply (LS_quiet n s S1); [exact L1|reflexivity|apply grow_upd]|].
      intros Hsn. specialize (Hsn eq_refl eq_refl). rewrite EL in Hsn.
      rewrite (LS_self _ _ _ _ _ _ L).
      (* the member set *)
      assert (Hcl0 : first_idx (log (nd S)) <= applied (nd S) + 1) by (pose proof (H_fi _ _ _ HH); lia).
      assert (Hleff : leff V' (absL pk full)).
      { rewrite <- EL. apply (leff_kreachable V' F0 F0_disc (V'_nodup V NDV) (V'_ne V NDV VNE) s (n2 n) HR). }
      destruct (snap_cluster c V n (nd S) full (applied (nd S)) SV VRO (LS_lt _ _ _ _ _ _ L) W Sx
                  (Forall_small_old c mf _ Smf) (LS_self _ _ _ _ _ _ L) Hof Hcl0 Hleff Hsn) as [Hcs Hcms].
      cbv zeta in Hcs, Hcms.
      set (cl := cluster_before (nd S) (rev (get_entries (log (nd S)) (Some (applied (nd S) + 1)) None None))
                   (sadd n (others (nd S)))) in *.
      (* the snapshot: entries applied-1 and applied of the full log *)
      assert (Hge : first_idx (log (nd S)) <= applied (nd S) - 1).
      { destruct (N.le_gt_cases (first_idx (log (nd S))) (applied (nd S) - 1)); auto.
        rewrite (suffix_lt (log (nd S)) (applied (nd S) - 1)) in Ege by lia. discriminate. }
      pose proof (suffix_first_pos _ _ W Sx) as Hfp.
      rewrite (suffix_ge _ _ W Sx) in Ege by exact Hge. rewrite ge_count in Ege by (auto; lia).
      change (n2 2) with 2%nat in Ege.
      set (q := (n2 (applied (nd S) - 1) - 1)%nat) in *.
      assert (N0 : nth_error full q = Some e0 /\ nth_error full (Sn q) = Some e1).
      { assert (H0 : nth_error (firstn 2 (skipn q full)) 0 = Some e0) by (rewrite Ege; reflexivity).
        assert (H1 : nth_error (firstn 2 (skipn q full)) 1 = Some e1) by (rewrite Ege; reflexivity).
        rewrite ML.nth_error_firstn_lt, RefineM2Abs.nth_error_skipn in H0, H1 by lia.
        replace (q + 0)%nat with q in H0 by lia. replace (q + 1)%nat with (Sn q) in H1 by lia. auto. }
      destruct N0 as [N0 N1].
      assert (Ei1 : eidx e1 = applied (nd S)).
      { destruct W as [_ Hw]. rewrite (Hw _ _ N1). unfold q. lia. }
      assert (Ei0 : eidx e0 = applied (nd S) - 1).
      { destruct W as [_ Hw]. rewrite (Hw _ _ N0). unfold q. lia. }
      rewrite Forall_forall in Smf.
      assert (Hs0 : small e0) by (apply Smf; eapply nth_error_In; eauto).
      assert (Hs1 : small e1) by (apply Smf; eapply nth_error_In; eauto).
      assert (Hv : forall h v ln, snap_valid s (mkSnap h v e1 e0 cl ln)).
      { apply (valid_at s (n2 n) (n2 (applied (nd S))) e0 e1 cl); auto.
        - lia.
        - rewrite (Rn_commit _ _ _ _ _ _ RN). pose proof (H_ac _ _ _ HH). lia.
        - rewrite EL, absL_nth. replace (n2 (applied (nd S)) - 1)%nat with (Sn q) by (unfold q; lia).
          rewrite N1. reflexivity.
        - rewrite EL, absL_nth. replace (n2 (applied (nd S)) - 2)%nat with q by (unfold q; lia).
          rewrite N0. reflexivity.
        - rewrite Ei1. reflexivity.
        - rewrite EL. exact Hcms. }
      match goal with |- LS n s ?X => set (S2 := X) end.
      assert (P2 : pend (nd S2)) by (eapply pend_p5; [|apply (H_pend _ _ _ HH)]; reflexivity).
      apply (LS_local n s S1 S2); try reflexivity; auto.
      * intros bl Hb0. right. unfold S2 in Hb0. rewrite nd_upd in Hb0. cbn in Hb0. injection Hb0 as <-.
        intros sn Hsn0. injection Hsn0 as <-. split; [apply Hv|]. cbn. rewrite Ei1. apply (H_ac _ _ _ HH).
      * apply tr_ok_same. reflexivity.
      * destruct HH as [B1 B2 B3 B4 B5 B6 B7 B8 B9 B10].
        constructor; [| | | | | | | | |exact P2]; unfold S2; rewrite ?nd_upd; cbn; auto.
        -- intros _. lia.
        -- intros bl Hb0. injection Hb0 as <-. cbn. auto.
      * apply grow_upd.
  - (* a snapshot was taken in the previous tick: cut the log *)
    intros _. apply N.eqb_neq in Ep. cbn [negb].
    set (S1 := upd (fun n0 => n0 <| sr := (sr n0) <| pid := 0 |> <| trans := [] |> |>) S).
    assert (L1 : LS n s S1).
    { assert (P1 : pend (nd S1)) by (eapply pend_p5; [|apply (H_pend _ _ _ HH)]; reflexivity).
      apply (LS_local n s S S1); try reflexivity; auto.
      - intros d bl off Hin. destruct Hin.
      - destruct HH as [B1 B2 B3 B4 B5 B6 B7 B8 B9 B10].
        constructor; [| | | | | | | | |exact P1]; unfold S1; rewrite ?nd_upd; cbn; auto.
        intros Hx. discriminate.
      - apply grow_upd. }
    destruct (pid (sr (nd S)) =? 1) eqn:E1; [|exact L1].
    apply N.eqb_eq in E1.
    pose proof (H_cur _ _ _ HH E1) as Hcur. pose proof (H_ac _ _ _ HH) as Hac. pose proof (H_fi _ _ _ HH) as Hfi0.
    set (id := cur_id (sr (nd S))) in *.
    match goal with |- LS n s ?X => set (S2 := X) end.
    assert (Elog : log (nd S2) = delete_to (log (nd S)) id) by reflexivity.
    assert (P2 : pend (nd S2)).
    { eapply (pend_weaken (nd S)); [| | | | |apply (H_pend _ _ _ HH)]; try reflexivity; try (cbn; lia); auto.
      intros en Hen. rewrite Elog in Hen. eapply In_delete_to; eauto. }
    apply (LS_local n s S1 S2); try reflexivity; auto.
    + intros full0 W0 Sx0. rewrite Elog. unfold delete_to.
      change (log (nd S1)) with (log (nd S)) in Sx0.
      destruct (id <? first_idx (log (nd S))) eqn:E; [exact Sx0|]. apply N.ltb_ge in E.
      destruct (suffix_base _ _ W0 Sx0) as (b0 & Eb0 & Hb0 & Efi0).
      assert (Hl0 : (n2 (last_idx (log (nd S))) = length full0)%nat).
      { rewrite (suffix_last_idx _ _ Sx0), (wf1_last_idx _ W0). lia. }
      assert (Hl1 : (n2 (last_idx (log (nd S))) = length full)%nat).
      { rewrite (suffix_last_idx _ _ Sx), (wf1_last_idx _ W). lia. }
      exists (b0 + n2 (id - first_idx (log (nd S))))%nat. split.
      * rewrite <- skipn_skipn', <- Eb0. reflexivity.
      * lia.
    + apply tr_ok_same. reflexivity.
    + destruct HH as [B1 B2 B3 B4 B5 B6 B7 B8 B9 B10].
      constructor; [| | | | | | | | |exact P2]; unfold S2; rewrite ?nd_upd; cbn; auto.
      * unfold delete_to. destruct (_ <? _); auto. apply Forall_skipn. exact B1.
      * destruct (first_idx_delete_to (log (nd S)) id) as [H|[[_ H]|(H1 & en & H2 & H3)]].
        -- rewrite H. exact B6.
        -- rewrite H. lia.
        -- rewrite H3. rewrite Efi in H1, H2. rewrite Eb in H2. rewrite RefineM2Abs.nth_error_skipn in H2.
           destruct W as [_ Hw]. rewrite (Hw _ _ H2). lia.
    + apply grow_upd.
Qed.

(* ---- the whole tick ---- *)
Notation tick_tail := (fun s => let (s, need) := apply_entries e s in
                   if ok s then (tick_send e need ;; tick_ready ;; check_commands e ;; try_compact e) s else s).

(* the condition under which the node may start to serialize: a member at the position it serializes *)
Definition snap_cond (n : nid) (s : M.state) (x : node) : Prop :=
  forall s2 S2, ksn (n2 n) s s2 -> LS n s2 S2 -> x = nd (try_compact e S2) ->
    pid (sr (nd S2)) = 0 -> pid (sr (nd (try_compact e S2))) = 1 ->
    M.mem (n2 n) (M.gcfg V' (firstn (n2 (applied (nd S2))) (M.log (M.nodes s2 (n2 n))))) = true.

Lemma snap_cond_ksn n s s1 x : ksn (n2 n) s s1 -> snap_cond n s x -> snap_cond n s1 x.
Proof. intros K H s2 S2 K2. apply H. eapply ksn_trans; eauto. Qed.

Lemma sim_tick_tail n S s :
  LS n s S -> snap_cond n s (nd (tick_tail S)) ->
  exists s', ksn (n2 n) s s' /\ LS n s' (tick_tail S).
Proof.
  intros L. cbv beta.
  pose proof (apply_entries_spec e S (H_rinv _ _ _ (LS_h _ _ _ _ _ _ L))) as A.
  pose proof (apply_entries_bound e S (H_ac _ _ _ (LS_h _ _ _ _ _ _ L))) as Bd.
  destruct (apply_entries e S) as [S1 need]. cbn [fst] in A, Bd.
  assert (L1 : LS n s S1) by (eapply LS_app; eauto).
  destruct (ok S1); [|intros _; exists s; split; [constructor|exact L1]].
  rewrite andthen_eq.
  destruct (sim_tick_send n need S1 s L1) as (s2 & K2 & L2).
  destruct (ok (tick_send e need S1)); [|intros _; exists s2; auto].
  set (S2 := tick_send e need S1) in *. clearbody S2.
  rewrite andthen_eq.
  destruct (sim_tick_ready c mf V NDV SV VNE VRO Hb1 Hdyn Hfd e Hc n S2 s2 L2) as (s3 & K3 & L3).
  destruct (ok (tick_ready S2)); [|intros _; exists s3; split; auto; eapply ksn_trans; eauto].
  set (S3 := tick_ready S2) in *. clearbody S3.
  rewrite andthen_eq.
  destruct (sim_check_commands n S3 s3 L3) as (s4 & K4 & L4).
  assert (K04 : ksn (n2 n) s s4) by (eapply ksn_trans; [exact K2|]; eapply ksn_trans; eauto).
  destruct (ok (check_commands e S3)); [|intros _; exists s4; auto].
  set (S4 := check_commands e S3) in *. clearbody S4.
  intros Hsn.
  destruct (sim_try_compact n S4 s4 L4) as (s5 & K5 & L5).
  - intros P0 P1. apply (Hsn s4 S4 K04 L4 eq_refl P0 P1).
  - exists s5. split; auto. eapply ksn_trans; eauto.
Qed.

(* from the election phase on; the election timeout needs the node to be a member by its own full log *)
Lemma sim_from_election n S2 s :
  LS n s S2 ->
  (term (nd ((tick_election e ;; tick_leader e ;; tick_tail) S2)) <> term (nd S2) ->
   M.self_member V' (n2 n) (M.nodes s (n2 n)) = true) ->
  snap_cond n s (nd ((tick_election e ;; tick_leader e ;; tick_tail) S2)) ->
  exists s', ksn (n2 n) s s' /\ LS n s' ((tick_election e ;; tick_leader e ;; tick_tail) S2).
Proof.
  intros L. rewrite andthen_eq. intros Htg.
  assert (Ht : term (nd (if ok (tick_election e S2) then (tick_leader e ;; tick_tail) (tick_election e S2)
                         else tick_election e S2)) = term (nd (tick_election e S2))).
  { destruct (ok (tick_election e S2)); [|reflexivity].
    apply (andthen_rel (fun a b => term b = term a)); [congruence|apply (fr_tick_leader term); frs|intros].
    apply (fr_on_tick_tail term); frs. }
  rewrite Ht in Htg.
  destruct (sim_tick_election c mf V NDV SV VNE VRO Hb1 Hdyn Hfd e Hc n S2 s L Htg) as (s1 & K1 & L1).
  destruct (ok (tick_election e S2)); [|intros _; exists s1; auto].
  set (S3 := tick_election e S2) in *. clearbody S3.
  rewrite andthen_eq.
  destruct (sim_tick_leader c mf V NDV SV VNE VRO Hb1 Hdyn Hfd e Hc n S3 s1 L1) as (s2 & K2 & L2).
  destruct (ok (tick_leader e S3)); [|intros _; exists s2; split; auto; eapply ksn_trans; eauto].
  set (S4 := tick_leader e S3) in *. clearbody S4.
  intros Hsn.
  assert (K02 : ksn (n2 n) s s2) by (eapply ksn_trans; eauto).
  destruct (sim_tick_tail n S4 s2 L2 (snap_cond_ksn n s s2 _ K02 Hsn)) as (s3 & K3 & L3).
  exists s3. split; auto. eapply ksn_trans; eauto.
Qed.

Lemma sim_on_tick n x s :
  LS n s (start_S e x) ->
  (term (nd (on_tick e x)) <> term x -> M.self_member V' (n2 n) (M.nodes s (n2 n)) = true) ->
  (forall s2 S2, ksn (n2 n) s s2 -> LS n s2 S2 -> nd (on_tick e x) = nd (try_compact e S2) ->
                 pid (sr (nd S2)) = 0 -> pid (sr (nd (try_compact e S2))) = 1 ->
                 M.mem (n2 n) (M.gcfg V' (firstn (n2 (applied (nd S2))) (M.log (M.nodes s2 (n2 n))))) = true) ->
  exists s', ksn (n2 n) s s' /\ LS n s' (on_tick e x).
Proof.
  intros L. change (forall s2 S2, ksn (n2 n) s s2 -> LS n s2 S2 -> nd (on_tick e x) = nd (try_compact e S2) ->
                 pid (sr (nd S2)) = 0 -> pid (sr (nd (try_compact e S2))) = 1 ->
                 M.mem (n2 n) (M.gcfg V' (firstn (n2 (applied (nd S2))) (M.log (M.nodes s2 (n2 n))))) = true)
             with (snap_cond n s (nd (on_tick e x))).
  unfold on_tick. set (S0 := start_S e x) in *.
  rewrite andthen_eq.
  pose proof (LS_tick_load c mf V NDV SV VNE VRO Hb1 Hdyn Hfd e Hc n S0 s L) as L1.
  assert (E1 : term (nd (tick_load e S0)) = term x).
  { unfold tick_load. rewrite Hc, Hfd, andb_false_r. reflexivity. }
  destruct (ok (tick_load e S0)); [|intros _ _; exists s; split; [constructor|exact L1]].
  set (S1 := tick_load e S0) in *. clearbody S1.
  rewrite andthen_eq.
  pose proof (LS_tick_timer c mf V NDV SV VNE VRO Hb1 Hdyn Hfd e Hc n S1 s L1) as L2.
  assert (E2 : term (nd (tick_timer e S1)) = term x).
  { rewrite <- E1. apply (fr_tick_timer term); frs. }
  destruct (ok (tick_timer e S1)); [|intros _ _; exists s; split; [constructor|exact L2]].
  set (S2 := tick_timer e S1) in *. clearbody S2.
  intros Htg Hsn.
  apply (sim_from_election n S2 s L2); [|exact Hsn].
  rewrite E2. exact Htg.
Qed.

End Tick.
