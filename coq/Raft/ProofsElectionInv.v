(* Election safety (C03/C07), part 6: the invariant is preserved by every event. *)
From Coq Require Import ZArith NArith List Bool Lia.
From RecordUpdate Require Import RecordSet.
From PSO Require Import Raft.Types Raft.Node Raft.Net Raft.Obs Raft.ProofsElectionBase
  Raft.ProofsElectionFrame Raft.ProofsElectionFrame2 Raft.ProofsElectionStep Raft.ProofsElectionGhost.
Import ListNotations.
Import RecordSetNotations.
Open Scope N_scope.

(* ---------- finish ---------- *)
Lemma finish_nodes n s g :
  nodes (finish n s g) = aset n (nd s) (nodes g) /\ disks (finish n s g) = disks g.
Proof. unfold finish. destruct (route_nodes n (outs s) (put_node n (nd s) g)) as [A B]. rewrite A, B. auto. Qed.

Lemma finish_inflight n s g T c :
  (inflight (finish n s g) T c <= inflight g T c + cnt (rvsend T c) (outs s))%nat.
Proof. unfold finish. apply (route_inflight n (outs s) (put_node n (nd s) g) T c). Qed.

Lemma counted_finish_other n s g T c : c <> n -> counted (finish n s g) T c = counted g T c.
Proof.
  intros Hne. unfold counted. destruct (finish_nodes n s g) as [A _]. rewrite A, aget_aset.
  destruct (c =? n) eqn:E; [apply N.eqb_eq in E; congruence | reflexivity].
Qed.

Lemma counted_finish_self n s g T :
  counted (finish n s g) T n =
  if (term (nd s) =? T) && negb (role (nd s) =? FOLLOWER) then N.to_nat (votes (nd s)) else 0%nat.
Proof.
  unfold counted. destruct (finish_nodes n s g) as [A _]. rewrite A, aget_aset, N.eqb_refl. reflexivity.
Qed.

Lemma rvsend_loud T c os : cnt (rvsend T c) (loud os) = cnt (rvsend T c) os.
Proof. rewrite <- !(rvsend_grants T c 0). rewrite rv_grants_loud. reflexivity. Qed.

(* ---------- only the channels shrink ---------- *)
Lemma inv_chan_le V g g' gh st :
  Inv V g gh st -> nodes g' = nodes g -> disks g' = disks g ->
  (forall T c, (inflight g' T c <= inflight g T c)%nat) -> Inv V g' gh st.
Proof.
  intros I En Ed Hle. destruct I. constructor; auto.
  - rewrite En; auto.
  - intros v x. rewrite En. auto.
  - intros v d. rewrite Ed. auto.
  - intros t v c H. destruct (I_grant0 t v c H) as (A & B & C). rewrite En. auto.
  - intros T c. specialize (I_cnt0 T c). specialize (Hle T c).
    rewrite (counted_nodes g g' T c En). lia.
Qed.

Lemma inv_st_mono V g gh st st' : Inv V g gh st -> incl st st' -> Inv V g gh st'.
Proof.
  intros I Hs. destruct I. constructor; auto.
  - intros v x H. destruct (I_node0 v x H) as (A & B & C). split; auto. split; auto.
    intros Hv. destruct (B Hv) as (B1 & B2 & B3 & B4). auto.
  - intros v d H Hv. apply Hs. eauto.
  - intros t v c H. destruct (I_grant0 t v c H) as (A & B & C). auto.
Qed.

(* ---------- the generic node step ---------- *)
Lemma inv_node_step V g g1 gh st n x s sg :
  Inv V g gh st ->
  nodes g1 = nodes g -> disks g1 = disks g ->
  aget n (nodes g) = Some x ->
  node_ok V st n (nd s) ->
  term x <= term (nd s) ->
  (term (nd s) = term x -> voted (nd s) = voted x \/ voted x = None) ->
  (sg ++ rv_grants n (outs s) = [] \/
   exists d, sg ++ rv_grants n (outs s) = [(term (nd s), n, d)] /\ voted (nd s) = Some d /\
             (term x < term (nd s) \/ voted x = None) /\ n < RO_BASE) ->
  (forall T c, (counted (finish n s g1) T c + inflight g1 T c
                <= cnt (gmatch T c) sg + counted g T c + inflight g T c)%nat) ->
  (forall gh', grants gh' = sg ++ rv_grants n (outs s) ++ grants gh ->
     is_win (outs s) = true ->
     (forall T c, (counted (finish n s g1) T c + inflight (finish n s g1) T c <= nvotes gh' T c)%nat) ->
     (length V < 2 * nvotes gh' (term (nd s)) n)%nat) ->
  Inv V (finish n s g1)
      (mkGh ((if is_win (outs s) then [(term (nd s), n)] else []) ++ wins gh)
            (sg ++ rv_grants n (outs s) ++ grants gh)) st.
Proof.
  intros I En Ed Hx Hok Ht Hv Hnew Hlc Hwin.
  destruct (finish_nodes n s g1) as [Fn Fd]. rewrite En in Fn. rewrite Ed in Fd.
  set (y := nd s) in *.
  assert (Hcnt : forall T c, (counted (finish n s g1) T c + inflight (finish n s g1) T c
                              <= cnt (gmatch T c) (sg ++ rv_grants n (outs s) ++ grants gh))%nat).
  { intros T c. rewrite !cnt_app, rvsend_grants.
    pose proof (finish_inflight n s g1 T c). pose proof (I_cnt _ _ _ _ I T c). unfold nvotes in *.
    specialize (Hlc T c). lia. }
  constructor; cbn [wins grants].
  - rewrite Fn. apply ksorted_aset. apply (I_sorted _ _ _ _ I).
  - intros v z. rewrite Fn, aget_aset. destruct (v =? n) eqn:E.
    + apply N.eqb_eq in E; subst v. intros H; injection H as <-. exact Hok.
    + apply (I_node _ _ _ _ I).
  - intros v d. rewrite Fd. apply (I_disk _ _ _ _ I).
  - intros t v c Hin. rewrite app_assoc in Hin. apply in_app_or in Hin as [Hin|Hin].
    + destruct Hnew as [Hnew|(d & Hnew & Vd & Fresh & Hro)]; rewrite Hnew in Hin; [contradiction|].
      destruct Hin as [Hin|[]]. injection Hin as <- <- <-.
      destruct Hok as (_ & Hvot & _). destruct (Hvot Hro) as (B1 & B2 & _).
      split; auto. split; auto. intros z. rewrite Fn, aget_aset, N.eqb_refl. intros H; injection H as <-.
      split; [lia | auto].
    + destruct (I_grant _ _ _ _ I t v c Hin) as (A & B & C). split; auto. split; auto.
      intros z. rewrite Fn, aget_aset. destruct (v =? n) eqn:E; [|apply C].
      apply N.eqb_eq in E; subst v. intros H; injection H as <-.
      destruct (C x Hx) as [C1 C2]. split; [lia|].
      intros Et. assert (Ety : term y = term x) by lia.
      rewrite <- Ety in C2. specialize (C2 Et).
      destruct (Hv Ety) as [Hv'|Hv']; congruence.
  - rewrite app_assoc, map_app.
    destruct Hnew as [Hnew|(d & Hnew & Vd & Fresh & Hro)]; rewrite Hnew; simpl; [apply (I_key _ _ _ _ I)|].
    constructor; [|apply (I_key _ _ _ _ I)].
    intros Hin. apply in_map_iff in Hin as [[[t v] c] [Ek Hin]]. unfold key in Ek; simpl in Ek.
    injection Ek as -> ->.
    destruct (I_grant _ _ _ _ I _ _ _ Hin) as (_ & _ & C). destruct (C x Hx) as [C1 C2].
    assert (Ety : term y = term x) by lia. specialize (C2 Ety).
    destruct Fresh as [F|F]; [lia | congruence].
  - exact Hcnt.
  - intros t c Hin.
    assert (Hmono : (nvotes gh t c <= cnt (gmatch t c) (sg ++ rv_grants n (outs s) ++ grants gh))%nat).
    { unfold nvotes. rewrite !cnt_app. lia. }
    apply in_app_or in Hin as [Hin|Hin].
    + destruct (is_win (outs s)) eqn:W; [|contradiction]. destruct Hin as [Hin|[]]. injection Hin as <- <-.
      apply (Hwin (mkGh [] (sg ++ rv_grants n (outs s) ++ grants gh)) eq_refl eq_refl). exact Hcnt.
    + pose proof (I_win _ _ _ _ I t c Hin). unfold nvotes at 1. cbn [grants]. lia.
Qed.
