(* Election safety (C03/C07), part 6: the invariant is preserved by every event. *)
From Coq Require Import ZArith NArith List Bool Lia.
From RecordUpdate Require Import RecordSet.
From PSO Require Import Raft.Types Raft.Node Raft.Net Raft.Obs Raft.ProofsElectionBase
  Raft.ProofsElectionFrame Raft.ProofsElectionFrame2 Raft.ProofsElectionStep Raft.ProofsElectionGhost.
Import ListNotations.
Import RecordSetNotations.
Open Scope N_scope.

(* ---------- finish ---------- *)
Lemma finish_nodes n s g :
  nodes (finish n s g) = aset n (nd s) (nodes g) /\ disks (finish n s g) = disks g.
Proof. unfold finish. destruct (route_nodes n (outs s) (put_node n (nd s) g)) as [A B]. rewrite A, B. auto. Qed.

Lemma finish_inflight n s g T c :
  (inflight (finish n s g) T c <= inflight g T c + cnt (rvsend T c) (outs s))%nat.
Proof. unfold finish. apply (route_inflight n (outs s) (put_node n (nd s) g) T c). Qed.

Lemma counted_finish_other n s g T c : c <> n -> counted (finish n s g) T c = counted g T c.
Proof.
  intros Hne. unfold counted. destruct (finish_nodes n s g) as [A _]. rewrite A, aget_aset.
  destruct (c =? n) eqn:E; [apply N.eqb_eq in E; congruence | reflexivity].
Qed.

Lemma counted_finish_self n s g T :
  counted (finish n s g) T n =
  if (term (nd s) =? T) && negb (role (nd s) =? FOLLOWER) then N.to_nat (votes (nd s)) else 0%nat.
Proof.
  unfold counted. destruct (finish_nodes n s g) as [A _]. rewrite A, aget_aset, N.eqb_refl. reflexivity.
Qed.

Lemma rvsend_loud T c os : cnt (rvsend T c) (loud os) = cnt (rvsend T c) os.
Proof. rewrite <- !(rvsend_grants T c 0). rewrite rv_grants_loud. reflexivity. Qed.

(* ---------- only the channels shrink ---------- *)
Lemma inv_chan_le V g g' gh st :
  Inv V g gh st -> nodes g' = nodes g -> disks g' = disks g ->
  (forall T c, (inflight g' T c <= inflight g T c)%nat) -> Inv V g' gh st.
Proof.
  intros I En Ed Hle. constructor.
  - rewrite En. apply (I_sorted _ _ _ _ I).
  - intros v x. rewrite En. apply (I_node _ _ _ _ I).
  - intros v d. rewrite Ed. apply (I_disk _ _ _ _ I).
  - intros t v c H. destruct (I_grant _ _ _ _ I t v c H) as (A & B & C). rewrite En. auto.
  - apply (I_key _ _ _ _ I).
  - intros T c. pose proof (I_cnt _ _ _ _ I T c). specialize (Hle T c).
    rewrite (counted_nodes g g' T c En). lia.
  - apply (I_win _ _ _ _ I).
Qed.

Lemma inv_st_mono V g gh st st' : Inv V g gh st -> incl st st' -> Inv V g gh st'.
Proof.
  intros I Hs. constructor.
  - apply (I_sorted _ _ _ _ I).
  - intros v x H. destruct (I_node _ _ _ _ I v x H) as (A & B & C). split; auto. split; auto.
    intros Hv. destruct (B Hv) as (B1 & B2 & B3 & B4). auto.
  - intros v d H Hv. apply Hs. apply (I_disk _ _ _ _ I v d H Hv).
  - intros t v c H. destruct (I_grant _ _ _ _ I t v c H) as (A & B & C). auto.
  - apply (I_key _ _ _ _ I).
  - apply (I_cnt _ _ _ _ I).
  - apply (I_win _ _ _ _ I).
Qed.

(* ---------- the generic node step ---------- *)
Lemma inv_node_step V g g1 gh st n x s sg :
  Inv V g gh st ->
  nodes g1 = nodes g -> disks g1 = disks g ->
  aget n (nodes g) = Some x ->
  node_ok V st n (nd s) ->
  term x <= term (nd s) ->
  (term (nd s) = term x -> voted (nd s) = voted x \/ voted x = None) ->
  (sg ++ rv_grants n (outs s) = [] \/
   exists d, sg ++ rv_grants n (outs s) = [(term (nd s), n, d)] /\ voted (nd s) = Some d /\
             (term x < term (nd s) \/ voted x = None) /\ n < RO_BASE) ->
  (forall T c, (counted (finish n s g1) T c + inflight g1 T c
                <= cnt (gmatch T c) sg + counted g T c + inflight g T c)%nat) ->
  (forall gh', grants gh' = sg ++ rv_grants n (outs s) ++ grants gh ->
     is_win (outs s) = true ->
     (forall T c, (counted (finish n s g1) T c + inflight (finish n s g1) T c <= nvotes gh' T c)%nat) ->
     (length V < 2 * nvotes gh' (term (nd s)) n)%nat) ->
  Inv V (finish n s g1)
      (mkGh ((if is_win (outs s) then [(term (nd s), n)] else []) ++ wins gh)
            (sg ++ rv_grants n (outs s) ++ grants gh)) st.
Proof.
  intros I En Ed Hx Hok Ht Hv Hnew Hlc Hwin.
  destruct (finish_nodes n s g1) as [Fn Fd]. rewrite En in Fn. rewrite Ed in Fd.
  set (y := nd s) in *.
  assert (Hcnt : forall T c, (counted (finish n s g1) T c + inflight (finish n s g1) T c
                              <= cnt (gmatch T c) (sg ++ rv_grants n (outs s) ++ grants gh))%nat).
  { intros T c. rewrite !cnt_app, rvsend_grants.
    pose proof (finish_inflight n s g1 T c). pose proof (I_cnt _ _ _ _ I T c). unfold nvotes in *.
    specialize (Hlc T c). lia. }
  constructor; cbn [wins grants].
  - rewrite Fn. apply ksorted_aset. apply (I_sorted _ _ _ _ I).
  - intros v z. rewrite Fn, aget_aset. destruct (v =? n) eqn:E.
    + apply N.eqb_eq in E; subst v. intros H; injection H as <-. exact Hok.
    + apply (I_node _ _ _ _ I).
  - intros v d. rewrite Fd. apply (I_disk _ _ _ _ I).
  - intros t v c Hin. rewrite app_assoc in Hin. apply in_app_or in Hin as [Hin|Hin].
    + destruct Hnew as [Hnew|(d & Hnew & Vd & Fresh & Hro)]; rewrite Hnew in Hin; [contradiction|].
      destruct Hin as [Hin|[]]. injection Hin as <- <- <-.
      destruct Hok as (_ & Hvot & _). destruct (Hvot Hro) as (B1 & B2 & _).
      split; auto. split; auto. intros z. rewrite Fn, aget_aset, N.eqb_refl. intros H; injection H as <-.
      split; [lia | auto].
    + destruct (I_grant _ _ _ _ I t v c Hin) as (A & B & C). split; auto. split; auto.
      intros z. rewrite Fn, aget_aset. destruct (v =? n) eqn:E; [|apply C].
      apply N.eqb_eq in E; subst v. intros H; injection H as <-.
      destruct (C x Hx) as [C1 C2]. split; [lia|].
      intros Et. assert (Ety : term y = term x) by lia.
      rewrite <- Ety in C2. specialize (C2 Et).
      destruct (Hv Ety) as [Hv'|Hv']; congruence.
  - rewrite app_assoc, map_app.
    destruct Hnew as [Hnew|(d & Hnew & Vd & Fresh & Hro)]; rewrite Hnew; simpl; [apply (I_key _ _ _ _ I)|].
    constructor; [|apply (I_key _ _ _ _ I)].
    intros Hin. apply in_map_iff in Hin as [[[t v] c] [Ek Hin]]. unfold key in Ek; simpl in Ek.
    injection Ek as -> ->.
    destruct (I_grant _ _ _ _ I _ _ _ Hin) as (_ & _ & C). destruct (C x Hx) as [C1 C2].
    assert (Ety : term y = term x) by lia. specialize (C2 Ety).
    destruct Fresh as [F|F]; [lia | congruence].
  - exact Hcnt.
  - intros t c Hin.
    assert (Hmono : (nvotes gh t c <= cnt (gmatch t c) (sg ++ rv_grants n (outs s) ++ grants gh))%nat).
    { unfold nvotes. rewrite !cnt_app. lia. }
    apply in_app_or in Hin as [Hin|Hin].
    + destruct (is_win (outs s)) eqn:W; [|contradiction]. destruct Hin as [Hin|[]]. injection Hin as <- <-.
      apply (Hwin (mkGh [] (sg ++ rv_grants n (outs s) ++ grants gh)) eq_refl eq_refl). exact Hcnt.
    + pose proof (I_win _ _ _ _ I t c Hin). unfold nvotes at 1. cbn [grants]. lia.
Qed.

(* ---------- node_ok after a step ---------- *)
Lemma node_ok_step V st n x y :
  node_ok V st n x -> self y = self x -> rinv y -> others y = others x ->
  (self x = None -> role x = FOLLOWER -> role y = FOLLOWER) ->
  node_ok V st n y.
Proof.
  intros (R & Hv & Hr) Es Ry Eo Hrole. split; auto. split.
  - intros Hn. destruct (Hv Hn) as (A & B & C & D). rewrite Es, Eo. auto.
  - intros Hn. destruct (Hr Hn) as (A & B). rewrite Es. auto.
Qed.

Lemma node_ok_voter V st n x : node_ok V st n x -> self x <> None ->
  n < RO_BASE /\ In n V /\ In n st /\ self x = Some n /\ others x = vminus n V.
Proof.
  intros (R & Hv & Hr) Hs. destruct (N.lt_ge_cases n RO_BASE) as [Hn|Hn].
  - destruct (Hv Hn) as (A & B & C & D). auto.
  - destruct (Hr Hn) as (A & B). congruence.
Qed.

(* ---------- passive steps ---------- *)
Lemma inv_passive V g g1 gh st n x s :
  Inv V g gh st ->
  nodes g1 = nodes g -> disks g1 = disks g ->
  (forall T c, (inflight g1 T c <= inflight g T c)%nat) ->
  aget n (nodes g) = Some x ->
  passive x s -> rinv (nd s) -> others (nd s) = others x ->
  Inv V (finish n s g1)
      (mkGh ((if is_win (outs s) then [(term (nd s), n)] else []) ++ wins gh)
            ([] ++ rv_grants n (outs s) ++ grants gh)) st.
Proof.
  intros I En Ed Hle Hx (Ps & Pv & Pt & Peq & Plt & Pout) Ry Eo.
  pose proof (I_node _ _ _ _ I n x Hx) as Hok.
  apply (inv_node_step V g g1 gh st n x s [] I En Ed Hx).
  - apply (node_ok_step V st n x); auto. intros Hs Hr.
    destruct (N.eq_dec (term (nd s)) (term x)) as [E|E].
    + destruct (Peq E) as [_ [H|H]]; congruence.
    + apply Plt. lia.
  - exact Pt.
  - intros E. apply (Peq E).
  - cbn [app]. rewrite <- rv_grants_loud.
    destruct Pout as [L|(d & Hs & L & Vd & F)]; rewrite L; cbn; [left; auto|].
    right. exists d. destruct (node_ok_voter V st n x Hok Hs) as (Hn & _). auto.
  - intros T c. rewrite cnt_nil. specialize (Hle T c).
    destruct (N.eq_dec c n) as [->|Hne].
    + rewrite counted_finish_self. unfold counted at 1. rewrite Hx.
      destruct ((term (nd s) =? T) && negb (role (nd s) =? FOLLOWER)) eqn:Cy; [|lia].
      apply andb_true_iff in Cy as [C1 C2]. apply N.eqb_eq in C1. apply negb_true_iff in C2.
      apply N.eqb_neq in C2.
      assert (E : term (nd s) = term x).
      { destruct (N.eq_dec (term (nd s)) (term x)); auto. exfalso. apply C2. apply Plt. lia. }
      destruct (Peq E) as [_ [Hr|Hr]]; [|congruence].
      rewrite <- E, C1, N.eqb_refl, <- Hr. apply N.eqb_neq in C2. rewrite C2. cbn. rewrite Pv. lia.
    + rewrite counted_finish_other; auto. rewrite (counted_nodes g g1 T c En). lia.
  - intros gh' _ W. rewrite <- is_win_loud in W.
    destruct Pout as [L|(d & Hs & L & Vd & F)]; rewrite L in W; discriminate.
Qed.

(* ---------- a new candidacy (ticks) ---------- *)
Lemma inv_cand V g gh st n x s maj :
  Inv V g gh st ->
  aget n (nodes g) = Some x ->
  cand x s maj -> rinv (nd s) -> others (nd s) = others x ->
  (maj -> exists n1, majority 1 n1 = true /\ others n1 = others x) ->
  NoDup V ->
  Inv V (finish n s g)
      (mkGh ((if is_win (outs s) then [(term (nd s), n)] else []) ++ wins gh)
            ([(term (nd s), n, n)] ++ rv_grants n (outs s) ++ grants gh)) st.
Proof.
  intros I Hx (me & Sx & Ss & Tt & Vv & Vt & Pout) Ry Eo Hmaj ND.
  pose proof (I_node _ _ _ _ I n x Hx) as Hok.
  assert (Hs : self x <> None) by congruence.
  destruct (node_ok_voter V st n x Hok Hs) as (Hn & HV & Hst & Sn & On).
  assert (me = n) by congruence. subst me.
  assert (Rv : rv_grants n (outs s) = []).
  { rewrite <- rv_grants_loud. destruct Pout as [L|[L _]]; rewrite L; reflexivity. }
  apply (inv_node_step V g g gh st n x s [(term (nd s), n, n)] I eq_refl eq_refl Hx).
  - apply (node_ok_step V st n x); auto. intros; congruence.
  - lia.
  - intros E. lia.
  - right. exists n. rewrite Rv. cbn. repeat split; auto. left; lia.
  - intros T c. rewrite cnt_cons, cnt_nil.
    destruct (N.eq_dec c n) as [->|Hne].
    + rewrite counted_finish_self. unfold gmatch. cbn [fst snd]. rewrite N.eqb_refl, andb_true_r.
      destruct (term (nd s) =? T); cbn; [|lia].
      destruct (negb _); rewrite ?Vt; lia.
    + rewrite counted_finish_other; auto. lia.
  - intros gh' Eg W _. rewrite <- is_win_loud in W.
    destruct Pout as [L|[L M]]; rewrite L in W; [discriminate|].
    destruct (Hmaj M) as (n1 & M1 & O1).
    assert (M2 : majority 1 x = true) by (rewrite <- M1; apply majority_others; auto).
    apply (majority_static 1 x n V ND HV On) in M2.
    unfold nvotes. rewrite Eg, cnt_app, cnt_cons. unfold gmatch at 1. cbn [fst snd].
    rewrite !N.eqb_refl. cbn. cbn in M2. lia.
Qed.

(* ---------- a counted vote (delivery of a ResponseVote) ---------- *)
Lemma inv_count V g gh st a n x s rest :
  Inv V g gh st ->
  aget n (nodes g) = Some x ->
  chan_get a n g = ResponseVote (term x) :: rest ->
  count x (ResponseVote (term x)) s -> rinv (nd s) ->
  NoDup V ->
  Inv V (finish n s (chan_set a n rest g))
      (mkGh ((if is_win (outs s) then [(term (nd s), n)] else []) ++ wins gh)
            ([] ++ rv_grants n (outs s) ++ grants gh)) st.
Proof.
  intros I Hx Hch (_ & Rx & Ss & Tt & Vv & Vt & Eo & Pout) Ry ND.
  pose proof (I_node _ _ _ _ I n x Hx) as Hok.
  assert (Hs : self x <> None).
  { pose proof Hok as (_ & Hv & Hr). intros Hs.
    destruct (N.lt_ge_cases n RO_BASE) as [Hn|Hn].
    - destruct (Hv Hn) as (_ & _ & C & _). congruence.
    - destruct (Hr Hn) as [_ B]. rewrite Rx in B. discriminate. }
  destruct (node_ok_voter V st n x Hok Hs) as (Hn & HV & Hst & Sn & On).
  assert (Rv : rv_grants n (outs s) = []).
  { rewrite <- rv_grants_loud. destruct Pout as [[L _]|[L _]]; rewrite L; reflexivity. }
  assert (Hle : forall T c, (inflight (chan_set a n rest g) T c +
                  (if N.eqb n c && N.eqb (term x) T then 1 else 0) <= inflight g T c)%nat).
  { intros T c. pose proof (inflight_chan_set g a n rest T c) as H. rewrite Hch, cnt_cons in H.
    cbn [is_rv] in H. destruct (n =? c); cbn [andb]; cbv iota in H |- *; [|lia].
    destruct (term x =? T); cbv iota in H |- *; lia. }
  apply (inv_node_step V g (chan_set a n rest g) gh st n x s [] I eq_refl eq_refl Hx).
  - apply (node_ok_step V st n x); auto. intros; congruence.
  - lia.
  - intros _. left; auto.
  - left. rewrite Rv. reflexivity.
  - intros T c. rewrite cnt_nil. specialize (Hle T c).
    destruct (N.eq_dec c n) as [->|Hne].
    + rewrite N.eqb_refl in Hle. cbn [andb] in Hle.
      rewrite counted_finish_self. unfold counted at 1. rewrite Hx, Tt, Vt, Rx.
      change (CANDIDATE =? FOLLOWER) with false.
      destruct (term x =? T); cbn [andb negb] in Hle |- *; cbv iota in Hle |- *; [|lia].
      destruct (negb _); lia.
    + rewrite counted_finish_other; auto.
      rewrite (counted_nodes g (chan_set a n rest g) T c eq_refl).
      destruct (n =? c) eqn:E; [apply N.eqb_eq in E; congruence|].
      cbn [andb] in Hle. cbv iota in Hle. lia.
  - intros gh' Eg W Hc. rewrite <- is_win_loud in W.
    destruct Pout as [[L _]|(L & Rl & M)]; rewrite L in W; [discriminate|].
    assert (M2 : majority (votes (nd s)) x = true) by (rewrite <- M; apply majority_others; auto).
    apply (majority_static _ x n V ND HV On) in M2.
    specialize (Hc (term (nd s)) n). rewrite counted_finish_self in Hc.
    rewrite N.eqb_refl, Rl in Hc. cbn in Hc. lia.
Qed.

(* ---------- kill ---------- *)
Lemma inv_kill V g gh st n dk :
  Inv V g gh st ->
  (forall v d, In (v, d) dk -> v < RO_BASE -> In v st) ->
  Inv V (mkG (adel n (nodes g))
             (filter (fun c => negb ((fst (fst c) =? n) || (snd (fst c) =? n))) (chan g)) dk) gh st.
Proof.
  intros I Hd.
  pose proof (I_sorted _ _ _ _ I) as Hs.
  constructor; cbn [nodes chan disks].
  - apply ksorted_adel; auto.
  - intros v x H. destruct (N.eq_dec v n) as [->|Hne].
    + rewrite aget_adel_same in H; auto. discriminate.
    + rewrite aget_adel_neq in H; auto. apply (I_node _ _ _ _ I v x H).
  - exact Hd.
  - intros t v c H. destruct (I_grant _ _ _ _ I t v c H) as (A & B & C). split; auto. split; auto.
    intros x Hx. destruct (N.eq_dec v n) as [->|Hne].
    + rewrite aget_adel_same in Hx; auto. discriminate.
    + rewrite aget_adel_neq in Hx; auto.
  - apply (I_key _ _ _ _ I).
  - intros T c. pose proof (I_cnt _ _ _ _ I T c) as H.
    match goal with |- (counted ?G _ _ + inflight ?G _ _ <= _)%nat =>
      assert (H1 : (counted G T c <= counted g T c)%nat);
      [|assert (H2 : (inflight G T c <= inflight g T c)%nat)] end.
    { unfold counted. cbn [nodes]. destruct (N.eq_dec c n) as [->|Hne].
      - rewrite aget_adel_same; auto. lia.
      - rewrite aget_adel_neq; auto. }
    { unfold inflight. cbn [chan]. apply sum_filter_le. }
    lia.
  - apply (I_win _ _ _ _ I).
Qed.

(* ---------- (re)start ---------- *)
Lemma inv_restart V g gh st st' n y :
  Inv V g gh st -> incl st st' ->
  node_ok V st' n y -> role y = FOLLOWER ->
  (forall t c, ~ In (t, n, c) (grants gh)) \/ ~ In n V ->
  Inv V (put_node n y (g <| chan := filter (fun c => negb ((fst (fst c) =? n) || (snd (fst c) =? n))) (chan g) |>))
      gh st'.
Proof.
  intros I0 Hst Hok Hr Hfresh.
  pose proof (inv_st_mono V g gh st st' I0 Hst) as I.
  constructor; cbn [nodes chan disks put_node set].
  - apply ksorted_aset. apply (I_sorted _ _ _ _ I).
  - intros v x. cbn. rewrite aget_aset. destruct (v =? n) eqn:E.
    + apply N.eqb_eq in E; subst. intros H; injection H as <-. auto.
    + apply (I_node _ _ _ _ I).
  - apply (I_disk _ _ _ _ I).
  - intros t v c H. destruct (I_grant _ _ _ _ I t v c H) as (A & B & C). split; auto. split; auto.
    intros x. cbn. rewrite aget_aset. destruct (v =? n) eqn:E; [|apply C].
    apply N.eqb_eq in E; subst v. exfalso. destruct Hfresh as [F|F]; [apply (F t c H) | auto].
  - apply (I_key _ _ _ _ I).
  - intros T c. pose proof (I_cnt _ _ _ _ I T c) as H.
    match goal with |- (counted ?G _ _ + inflight ?G _ _ <= _)%nat =>
      assert (H1 : (counted G T c <= counted g T c)%nat);
      [|assert (H2 : (inflight G T c <= inflight g T c)%nat)] end.
    { unfold counted. cbn. rewrite aget_aset. destruct (c =? n); [|lia].
      rewrite Hr. rewrite andb_false_r. lia. }
    { unfold inflight. cbn. apply sum_filter_le. }
    lia.
  - apply (I_win _ _ _ _ I).
Qed.
