(* Tier CM3 (copy of RefineMMsgB.v, target [kstep3]); Tier CM, part 8 (copy-and-adapt of RefineMsgB.v; membership entries are undone / applied): the append_entries handler of a voter.  The follower's log surgery
   (matched_prefix / delete_from / append) is L0's [merge]: nothing is cut unless an entry
   conflicts; the reply carries the term and is sent after the entries are in the log; the
   commit index becomes max commit (min leaderCommit (prev + |entries|)). *)
From Coq Require Import ZArith NArith List Bool Lia ZifyBool Arith PeanoNat.
From RecordUpdate Require Import RecordSet.
From PSO Require Import Raft.Types Raft.Node Raft.Net Raft.ProofsCommitBase Raft.ProofsCommit.
From PSO Require Import Raft.ProofsElectionBase Raft.ProofsMembership Raft.ProofsMembershipInv.
From PSO Require Import Raft.RefineMAbs Raft.RefineM3Abs Raft.RefineMEff Raft.RefineM3Eff Raft.RefineMCfg Raft.RefineM3K Raft.RefineMSpecA Raft.RefineM3Sim
  Raft.RefineM3TickA Raft.RefineM3TickB Raft.RefineM3MsgA.
From PSO Require AbstractM.Model AbstractM.Lib AbstractM.Kstep AbstractM.Cfg AbstractM.Safety1_WF AbstractM.Safety10_NoTguardD.
Import ListNotations.
Import RecordSetNotations.
Open Scope N_scope.
#[local] Arguments firstn : simpl nomatch.
#[local] Arguments skipn : simpl nomatch.

(* ------------------------------------------------------------------------------------------ *)
(* the follower's merge, on L1 lists                                                          *)

Definition l1merge (old new : list entry) : list entry :=
  let m := matched_prefix old new in
  if truncating (skipn m old) (skipn m new) then firstn m old ++ skipn m new else old ++ skipn m new.

Lemma merge_abs pk old new : M.merge (absL pk old) (absL pk new) = absL pk (l1merge old new).
Proof.
  revert old. induction new as [|n new IH]; intros old.
  - unfold l1merge. destruct old as [|o old]; cbn; [reflexivity|].
    rewrite app_nil_r. reflexivity.
  - destruct old as [|o old]; [reflexivity|].
    cbn [absL map M.merge]. fold (absL pk old). fold (absL pk new).
    unfold l1merge. cbn [matched_prefix]. cbn [absE M.eterm].
    destruct (eterm o =? eterm n) eqn:E.
    + apply N.eqb_eq in E. rewrite E, Nat.eqb_refl. rewrite IH. unfold l1merge.
      cbn [skipn firstn].
      destruct (truncating (skipn (matched_prefix old new) old) (skipn (matched_prefix old new) new)); reflexivity.
    + apply N.eqb_neq in E. destruct (Nat.eqb_spec (n2 (eterm o)) (n2 (eterm n))) as [Ex|Ex]; [lia|].
      reflexivity.
Qed.

Lemma l1merge_small (P : entry -> Prop) old new : Forall P old -> Forall P new -> Forall P (l1merge old new).
Proof.
  intros Ho Hn. unfold l1merge. destruct (truncating _ _); apply Forall_app; split;
    auto using Forall_firstn, Forall_skipn.
Qed.

Lemma last_entry_nth (l : list entry) le : last_entry l = Some le -> nth_error l (length l - 1) = Some le.
Proof.
  intros H. destruct l as [|a l]; [discriminate|].
  assert (Hne : a :: l <> []) by discriminate.
  pose proof (last_entry_last (a :: l) a Hne) as E. rewrite H in E.
  assert (E' : le = last (a :: l) a) by congruence. rewrite E'.
  apply nth_error_last_some. exact Hne.
Qed.

(* ------------------------------------------------------------------------------------------ *)
(* L1: the prelude and the regular branch                                                     *)

Lemma ae_pre_spec e from t cm s :
  fv (nd (ae_pre e from t cm s)) =
    fv ((nd s) <| term := if term (nd s) <? t then t else term (nd s) |>
               <| voted := if term (nd s) <? t then None else voted (nd s) |>
               <| role := FOLLOWER |>) /\
  grow nosend s (ae_pre e from t cm s).
Proof.
  unfold ae_pre.
  set (s1 := upd (fun n => n <| deadline := (tnow s + gen_timeout e)%Z |>) s).
  set (s2 := if opt_eqb (leader (nd s1)) (Some from) then s1 else on_leader_changed s1).
  assert (F2 : fv (nd s2) = fv (nd s) /\ grow nosend s s2).
  { unfold s2. destruct (opt_eqb _ _).
    - split; [reflexivity|unfold s1; apply grow_upd].
    - split; [rewrite olc_nd; reflexivity|].
      apply (grow_trans nosend s s1); [unfold s1; apply grow_upd|]. apply olc_grow. auto. }
  destruct F2 as [F2 G2]. clearbody s2. clear s1.
  set (s3 := upd (fun n => n <| leader := Some from |>) s2).
  assert (T3 : term (nd s3) = term (nd s)).
  { fvinj_n F2 F. exact Fterm. }
  rewrite T3.
  assert (G3 : grow nosend s s3).
  { apply (grow_trans nosend s s2); [exact G2|]. unfold s3. apply grow_upd. }
  split.
  - fvinj_n F2 F.
    destruct (term (nd s) <? t); rewrite nd_upd, nd_set_role, ?nd_upd; unfold s3; rewrite nd_upd;
      unfold fv; cbn;
      rewrite ?Fself, ?Foth, ?Frole, ?Fterm, ?Fvoted, ?Fvotes, ?Flog, ?Fcommit, ?Fmatch, ?Fsr, ?Fqueue,
        ?Fapplied, ?Freplay, ?Fro; reflexivity.
  - apply (grow_trans nosend s s3); [exact G3|].
    eapply grow_trans; [|apply grow_upd].
    destruct (term (nd s) <? t).
    + eapply grow_trans; [apply grow_upd|]. apply grow_set_role. auto.
    + apply grow_set_role. auto.
Qed.

Definition is_fail_reply (from : nid) (o : out) : Prop :=
  nosend o \/ exists t nx r, o = Send from (NextIdx t nx r false).

Lemma grow_send_next_idx_fail from nx r s : grow (is_fail_reply from) s (send_next_idx from nx r false s).
Proof. unfold send_next_idx. apply grow_send. right. eauto. Qed.

(* everything the refinement reads except the member table and the leader's match table *)
Definition fvo (x : node) :=
  (self x, role x, term x, voted x, votes x, log x, commit x, sr x, queue x, applied x, replay_idx x, readonly x,
   noop_idx x, change_idx x).

Lemma fvo_eq x y : fvo x = fvo y ->
  self x = self y /\ role x = role y /\ term x = term y /\ voted x = voted y /\ votes x = votes y /\
  log x = log y /\ commit x = commit y /\ sr x = sr y /\ queue x = queue y /\ applied x = applied y /\
  replay_idx x = replay_idx y /\ readonly x = readonly y /\ noop_idx x = noop_idx y /\ change_idx x = change_idx y.
Proof. unfold fvo. intros H. injection H; intros. repeat split; assumption. Qed.

Lemma fvm_fvo x y : fvm x = fvm y -> fvo x = fvo y.
Proof.
  intros H0. pose proof (fvm_fv _ _ H0) as H. pose proof (fvm_noop _ _ H0). pose proof (fvm_change _ _ H0).
  fvinj H. unfold fvo. congruence.
Qed.

Lemma ae_pre_nc e from t cm s :
  noop_idx (nd (ae_pre e from t cm s)) = noop_idx (nd s) /\ change_idx (nd (ae_pre e from t cm s)) = change_idx (nd s).
Proof. split; [apply (fr_ae_pre0 noop_idx)|apply (fr_ae_pre0 change_idx)]; frs. Qed.

(* the bound on the leader's match table survives membership surgery: an added node starts at 0, a
   removed node loses its slot *)
Definition Pm (B : nat -> nat) (x : node) : Prop :=
  forall f m, In f (others x) -> aget f (match_idx x) = Some m -> (n2 m <= B (n2 f))%nat.

Lemma dcc_Pm B a x r s :
  ssorted (others (nd s)) -> Pm B (nd s) ->
  ssorted (others (nd (fst (do_change_cluster a x r s)))) /\ Pm B (nd (fst (do_change_cluster a x r s))).
Proof.
  intros Hs P. unfold do_change_cluster. destruct (xorb a r).
  - destruct (_ || _); [split; auto|]. cbn [fst].
    assert (G : forall n1, others n1 = sadd x (others (nd s)) -> match_idx n1 = aset x 0 (match_idx (nd s)) ->
                ssorted (others n1) /\ Pm B n1).
    { intros n1 E1 E2. split; [rewrite E1; apply ssorted_sadd; exact Hs|].
      intros f m Hf Hg. rewrite E1 in Hf. rewrite E2, aget_aset in Hg. apply In_sadd' in Hf.
      destruct (N.eqb_spec f x) as [->|Ne]; [injection Hg as <-; lia|].
      destruct Hf as [Hf|Hf]; [contradiction|]. apply (P f m Hf Hg). }
    cbn. destruct (role (nd s) =? LEADER); apply G; reflexivity.
  - destruct (self_is x (nd s)); [split; auto|]. destruct (negb _); [split; auto|]. cbn [fst]. cbn. split.
    + apply ssorted_sdel. exact Hs.
    + intros f m Hf Hg. cbn in Hf, Hg. apply In_sdel in Hf; [|exact Hs]. destruct Hf as [Hf Ne].
      rewrite aget_adel_ne in Hg by exact Ne. apply (P f m Hf Hg).
Qed.

Lemma am_Pm B r es : forall s,
  ssorted (others (nd s)) -> Pm B (nd s) ->
  ssorted (others (nd (apply_membership r es s))) /\ Pm B (nd (apply_membership r es s)).
Proof.
  unfold apply_membership. induction es as [|en es IH]; intros s Hs P; cbn [fold_left]; [split; auto|].
  destruct (membership_of (ecmd en)) as [[a x]|]; [|apply IH; auto].
  destruct (dcc_Pm B a x r s Hs P) as [Hs' P']. apply IH; auto.
Qed.

Lemma grow_dcc a x r s : grow nosend s (fst (do_change_cluster a x r s)).
Proof.
  unfold do_change_cluster. destruct (xorb a r).
  - destruct (_ || _); [apply grow_refl|]. cbn [fst]. exists [TAdd x]. split; [reflexivity|]. constructor; [exact I|constructor].
  - destruct (self_is x (nd s)); [apply grow_refl|]. destruct (negb _); [apply grow_refl|].
    cbn [fst]. exists [TDrop x]. split; [reflexivity|]. constructor; [exact I|constructor].
Qed.

Lemma grow_am r es s : grow nosend s (apply_membership r es s).
Proof.
  unfold apply_membership. apply grow_fold. intros s0 en.
  destruct (membership_of (ecmd en)) as [[a x]|]; [apply grow_dcc|apply grow_refl].
Qed.

Section Regular.
Variable e : env.
Hypothesis Hd : dyn (cf e) = true.

Lemma ae_regular_fail_none from cm new s :
  nd (ae_regular e from cm None new s) = nd s /\ grow (is_fail_reply from) s (ae_regular e from cm None new s).
Proof.
  unfold ae_regular. cbn [option_map]. unfold get_entries at 1.
  split; [apply nd_send_next_idx|apply grow_send_next_idx_fail].
Qed.

Lemma ae_regular_fail_empty from cm pidx pterm new s :
  get_entries (log (nd s)) (Some pidx) None None = [] ->
  nd (ae_regular e from cm (Some (pidx, pterm)) new s) = nd s /\
  grow (is_fail_reply from) s (ae_regular e from cm (Some (pidx, pterm)) new s).
Proof.
  intros H. unfold ae_regular. cbn [option_map fst]. rewrite H.
  split; [apply nd_send_next_idx|apply grow_send_next_idx_fail].
Qed.

Lemma ae_regular_fail_term from cm pidx pterm new s p0 ptail :
  get_entries (log (nd s)) (Some pidx) None None = p0 :: ptail -> eterm p0 <> pterm ->
  nd (ae_regular e from cm (Some (pidx, pterm)) new s) = nd s /\
  grow (is_fail_reply from) s (ae_regular e from cm (Some (pidx, pterm)) new s).
Proof.
  intros H Ht. unfold ae_regular. cbn [option_map fst]. rewrite H.
  apply N.eqb_neq in Ht. rewrite Ht. cbn [negb].
  split; [apply nd_send_next_idx|apply grow_send_next_idx_fail].
Qed.

(* the common tail: reply, then the commit index *)
Lemma ae_tail_spec from cm nx sB :
  let s' := ae_commit cm (Some (nx - 1)) (send_next_idx from (Some nx) false true sB) in
  fvo (nd s') = fvo ((nd sB) <| commit := if commit (nd sB) <? cm
                                        then N.max (commit (nd sB)) (N.min cm (nx - 1)) else commit (nd sB) |>) /\
  others (nd s') = others (nd sB) /\ match_idx (nd s') = match_idx (nd sB) /\
  grow (fun o => o = Send from (NextIdx (term (nd sB)) nx false true)) sB s'.
Proof.
  cbv zeta. unfold ae_commit, send_next_idx.
  set (sC := send from (NextIdx (term (nd sB)) nx false true) sB).
  assert (NC : nd sC = nd sB) by (unfold sC; apply nd_send).
  assert (GC : grow (fun o => o = Send from (NextIdx (term (nd sB)) nx false true)) sB sC).
  { unfold sC. apply grow_send. reflexivity. }
  rewrite NC.
  destruct (commit (nd sB) <? cm).
  - rewrite !nd_upd, NC. repeat split; try reflexivity.
    eapply grow_trans; [exact GC|]. eapply grow_trans; apply grow_upd.
  - rewrite nd_upd, NC. repeat split; try reflexivity.
    eapply grow_trans; [exact GC|]. apply grow_upd.
Qed.

Lemma ae_regular_succ from cm pidx pterm new s p0 ptail :
  get_entries (log (nd s)) (Some pidx) None None = p0 :: ptail -> eterm p0 = pterm ->
  let m := matched_prefix ptail new in
  let tr := truncating (skipn m ptail) (skipn m new) in
  let lg := (if tr then delete_from (log (nd s)) (pidx + 1 + N.of_nat m) else log (nd s)) ++ skipn m new in
  let nx := match last_entry new with Some le => eidx le + 1 | None => pidx + 1 end in
  let cmt := if commit (nd s) <? cm then N.max (commit (nd s)) (N.min cm (nx - 1)) else commit (nd s) in
  let rp := if tr then N.min (replay_idx (nd s)) (pidx + N.of_nat m) else replay_idx (nd s) in
  let s' := ae_regular e from cm (Some (pidx, pterm)) new s in
  fvo (nd s') = fvo ((nd s) <| log := lg |> <| commit := cmt |> <| replay_idx := rp |>) /\
  grow (fun o => nosend o \/ o = Send from (NextIdx (term (nd s)) nx false true)) s s'.
Proof.
  intros Hp Ht. cbv zeta.
  set (m := matched_prefix ptail new).
  set (nx := match last_entry new with Some le => eidx le + 1 | None => pidx + 1 end).
  set (sT := upd (fun n => n <| log := delete_from (log n) (pidx + 1 + N.of_nat m) |>
                             <| replay_idx := N.min (replay_idx n) (pidx + N.of_nat m) |>)
                 (apply_membership true (rev (skipn m ptail)) s)).
  set (sA := if truncating (skipn m ptail) (skipn m new) then sT else s).
  set (sB := apply_membership false (skipn m new) (upd (fun n => n <| log := log n ++ skipn m new |>) sA)).
  assert (E : ae_regular e from cm (Some (pidx, pterm)) new s =
              ae_commit cm (Some (nx - 1)) (send_next_idx from (Some nx) false true sB)).
  { unfold ae_regular. cbn [option_map fst]. rewrite Hp, Ht, N.eqb_refl. cbn [negb]. rewrite Hd.
    fold m. unfold sB, sA, sT. destruct (skipn m ptail), (skipn m new); reflexivity. }
  rewrite E. clear E.
  assert (FA : fvo (nd sA) = fvo ((nd s) <| log := if truncating (skipn m ptail) (skipn m new)
                                                   then delete_from (log (nd s)) (pidx + 1 + N.of_nat m) else log (nd s) |>
                                         <| replay_idx := if truncating (skipn m ptail) (skipn m new)
                                                          then N.min (replay_idx (nd s)) (pidx + N.of_nat m)
                                                          else replay_idx (nd s) |>) /\ grow nosend s sA).
  { unfold sA. destruct (truncating _ _); [|split; [reflexivity|apply grow_refl]].
    unfold sT. split.
    - rewrite nd_upd.
      pose proof (fr_apply_membership fvo ltac:(frs) ltac:(frs) ltac:(frs) ltac:(frs) ltac:(frs)
                    true (rev (skipn m ptail)) s) as Fr.
      destruct (fvo_eq _ _ Fr) as (E1 & E2 & E3 & E4 & E5 & E6 & E7 & E8 & E9 & E10 & E11 & E12 & E13 & E14).
      unfold fvo. cbn. congruence.
    - eapply grow_trans; [apply grow_am|apply grow_upd]. }
  destruct FA as [FA GA].
  assert (FB : fvo (nd sB) = fvo ((nd sA) <| log := log (nd sA) ++ skipn m new |>) /\ grow nosend sA sB).
  { unfold sB. split.
    - rewrite (fr_apply_membership fvo) by frs. reflexivity.
    - eapply grow_trans; [apply grow_upd|apply grow_am]. }
  destruct FB as [FB GB].
  destruct (ae_tail_spec from cm nx sB) as (F & _ & _ & G). cbv zeta in F, G.
  destruct (fvo_eq _ _ FA) as (E1 & E2 & E3 & E4 & E5 & E6 & E7 & E8 & E9 & E10 & E11 & E12 & E13 & E14).
  destruct (fvo_eq _ _ FB) as (D1 & D2 & D3 & D4 & D5 & D6 & D7 & D8 & D9 & D10 & D11 & D12 & D13 & D14).
  cbn in E1, E2, E3, E4, E5, E6, E7, E8, E9, E10, E11, E12, E13, E14.
  cbn in D1, D2, D3, D4, D5, D6, D7, D8, D9, D10, D11, D12, D13, D14.
  split.
  - rewrite F. unfold fvo. cbn. rewrite D1, D2, D3, D4, D5, D6, D7, D8, D9, D10, D11, D12, D13, D14.
    rewrite E1, E2, E3, E4, E5, E6, E7, E8, E9, E10, E11, E12, E13, E14. reflexivity.
  - eapply grow_trans; [eapply grow_mono; [|exact GA]; intros o Ho; left; exact Ho|].
    eapply grow_trans; [eapply grow_mono; [|exact GB]; intros o Ho; left; exact Ho|].
    eapply grow_mono; [|exact G]. intros o ->. right. rewrite D3, E3. reflexivity.
Qed.

Lemma ae_regular_Pm B from cm prev new s :
  ssorted (others (nd s)) -> Pm B (nd s) -> Pm B (nd (ae_regular e from cm prev new s)).
Proof.
  intros Hs P. unfold ae_regular.
  destruct (get_entries _ _ _ _) as [|p0 ptail]; [rewrite nd_send_next_idx; exact P|].
  destruct prev as [[pidx pterm]|]; [|rewrite nd_send_next_idx; exact P].
  destruct (negb _); [rewrite nd_send_next_idx; exact P|].
  rewrite Hd.
  match goal with |- Pm B (nd (ae_commit _ _ (send_next_idx _ _ _ _ ?sB))) => set (sX := sB) end.
  assert (PX : Pm B (nd sX)).
  { unfold sX.
    match goal with |- Pm B (nd (apply_membership false ?add (upd ?f ?sA))) => set (sY := sA) end.
    assert (PY : ssorted (others (nd sY)) /\ Pm B (nd sY)).
    { unfold sY. destruct (skipn _ ptail) as [|r0 rest]; [split; auto|].
      destruct (skipn _ new) as [|a0 add]; [split; auto|].
      destruct (am_Pm B true (rev (r0 :: rest)) s Hs P) as [Hs' P']. rewrite nd_upd. split; [exact Hs'|exact P']. }
    destruct PY as [HsY PY]. apply am_Pm; rewrite nd_upd; auto. }
  clearbody sX. intros f mm Hf Hg.
  rewrite (fr_ae_commit others) in Hf by frs. rewrite (fr_ae_commit match_idx) in Hg by frs.
  rewrite nd_send_next_idx in Hf, Hg. apply (PX f mm Hf Hg).
Qed.

End Regular.

(* ------------------------------------------------------------------------------------------ *)
(* the simulation                                                                             *)

Section Msg.
Variable c : conf.
Variable V : list nid.
Hypothesis NDV : NoDup V.
Hypothesis SV : ssorted V.
Hypothesis VNE : V <> [].
Hypothesis VRO : forall v, In v V -> v < RO_BASE.
Hypothesis Hb1 : 1 < batch c.
Hypothesis Hdyn : dyn c = true.
Hypothesis Hfd : file_dump c = false.
Variable e : env.
Hypothesis Hc : cf e = c.
Set Default Proof Using "All".

Notation V' := (absV V).
Notation Rn := (Rn c).
Notation Rmsg := (Rmsg c).
Notation Ro := (Ro c).
Notation Hn := (Hn c V).
Notation ksn := (ksn V).
Notation LS := (LS c V).
Notation pk := (pk c).
Notation LS_wf := (LS_wf c V NDV SV VNE VRO Hb1).
Notation LS_up := (LS_up c V NDV SV VNE VRO Hb1).
Notation LS_ksn := (LS_ksn c V NDV SV VNE VRO Hb1).
Notation Hn_sorted := (Hn_sorted c V NDV SV VNE VRO Hb1).
Notation kall := (kall c V NDV SV VNE VRO Hb1).
Notation grow_Ro := (grow_Ro c V NDV SV VNE VRO Hb1 Hdyn Hfd e Hc).
Notation nosend_okout := (nosend_okout c V NDV SV VNE VRO Hb1 Hdyn Hfd e Hc).
Notation Hn_hv0 := (Hn_hv0 c V NDV SV VNE VRO Hb1 Hdyn Hfd e Hc).

(* adopt the sender's term when it is higher; the role is settled by the following step *)
Lemma sim_ae_adopt n S s t :
  LS n s S -> term (nd S) <= t ->
  exists s1, ksn (n2 n) s s1 /\ K3.kreachable3 V' F3 s1 /\
    M.term (M.nodes s1 (n2 n)) = n2 t /\
    M.voted (M.nodes s1 (n2 n)) = option_map n2 (if term (nd S) <? t then None else voted (nd S)) /\
    M.log (M.nodes s1 (n2 n)) = M.log (M.nodes s (n2 n)) /\
    M.commit (M.nodes s1 (n2 n)) = M.commit (M.nodes s (n2 n)) /\
    M.matchIdx (M.nodes s1 (n2 n)) = M.matchIdx (M.nodes s (n2 n)) /\
    M.net s1 = M.net s /\ M.grants s1 = M.grants s /\ M.lf (M.nodes s1 (n2 n)) = M.Up.
Proof.
  intros L Ht.
  pose proof (LS_n _ _ _ _ _ L) as RN. pose proof (LS_up _ _ _ L) as Hj.
  destruct RN as [A0 A1 A2 A3 A4 A5 A6 A7 A8 A9].
  destruct (term (nd S) <? t) eqn:E.
  - apply N.ltb_lt in E.
    assert (Hlt : (M.term (M.nodes s (n2 n)) < n2 t)%nat) by (rewrite A1; lia).
    destruct (t_adopt_ok V' (n2 n) (n2 t) s Hj Hlt) as [K E1].
    exists (t_adopt (n2 n) (n2 t) s). split; [apply ksn_one; auto|].
    split; [eapply K3.kreach3_step; [apply (LS_reach _ _ _ _ _ L)|exact K]|].
    unfold t_adopt, M.set_node, M.bump. cbn [M.nodes M.net M.grants]. rewrite upd_eq. cbn. auto 12.
  - apply N.ltb_ge in E. exists s. split; [constructor|]. split; [apply (LS_reach _ _ _ _ _ L)|].
    rewrite A1, A2. repeat split; auto. f_equal. lia.
Qed.

Lemma sim_ae_fail n a (S S' : Node.S) s t :
  LS n s S -> some_ae t a n s -> a <> n -> term (nd S) <= t ->
  fvm (nd S') = fvm ((nd S) <| term := if term (nd S) <? t then t else term (nd S) |>
                           <| voted := if term (nd S) <? t then None else voted (nd S) |>
                           <| role := FOLLOWER |>) ->
  grow (is_fail_reply a) S S' ->
  exists s', ksn (n2 n) s s' /\ LS n s' S'.
Proof.
  intros L (pi & pt & es & lc & Hae) Hne Ht F3' G.
  destruct (sim_ae_adopt n S s t L Ht) as (s1 & K1 & R1 & B1 & B2 & B3 & B4 & B5 & B6 & B7 & B8).
  pose proof (LS_n _ _ _ _ _ L) as RN.
  destruct RN as [A0 A1 A2 A3 A4 A5 A6 A7 A8 A9].
  assert (Hin : In (M.AppendEntries (n2 t) (n2 a) (n2 n) pi pt es lc) (M.net s1)) by (rewrite B6; exact Hae).
  assert (Hnj : n2 n <> n2 a) by lia.
  destruct (t_ae_fail_ok V' (n2 n) (n2 t) (n2 a) pi pt es lc s1 B8 Hin Hnj B1) as [K2 E2].
  set (s2 := M.ae_fail (n2 n) (n2 t) s1) in *.
  assert (K : ksn (n2 n) s s2) by (eapply ksn_trans; [exact K1|apply ksn_one; auto]).
  exists s2. split; [exact K|].
  pose proof (fvm_fv _ _ F3') as F. pose proof (fvm_noop _ _ F3') as Fno. pose proof (fvm_change _ _ F3') as Fch.
  cbn in Fno, Fch.
  fvinj_n F F.
  apply (LS_ksn n s s2 S S' K L).
  - constructor; unfold s2, M.ae_fail; cbn [M.nodes M.grants]; rewrite ?upd_eq;
      cbn [M.term M.voted M.rl M.log M.commit M.votesFrom M.matchIdx M.lf M.noopi].
    + exact B8.
    + rewrite Fterm, B1. destruct (term (nd S) <? t) eqn:E; [reflexivity|]. apply N.ltb_ge in E. f_equal. lia.
    + rewrite Fvoted, B2. reflexivity.
    + rewrite Frole. reflexivity.
    + rewrite Flog, B3. exact A4.
    + rewrite Fcommit, B4. exact A5.
    + intros Hx. rewrite Frole in Hx. compute in Hx. discriminate.
    + intros f m Hf Hnf Hg. rewrite Fmatch in Hg. rewrite Foth in Hf. rewrite B5. eauto.
    + intros Hv. rewrite Fvoted in Hv. rewrite B7. rewrite Fterm.
      destruct (term (nd S) <? t); [discriminate|]. auto.
    + intros Hx. rewrite Frole in Hx. discriminate.
  - eapply Hn_hv0; [| |apply (LS_h _ _ _ _ _ L)]; [unfold hv0; congruence|].
    apply pend_not_leader. rewrite Frole. discriminate.
  - rewrite Fself. apply (LS_self _ _ _ _ _ L).
  - apply (grow_Ro (is_fail_reply a)); [|exact G].
    intros o [Ho|(t' & nx & r & ->)]; [apply nosend_okout; auto|]. cbn. intros Hx. discriminate.
Qed.

Lemma es_last_idx s t a d pidx pterm es cm :
  K3.kreachable3 V' F3 s ->
  In (M.AppendEntries (n2 t) (n2 a) d (n2 pidx) (n2 pterm) (absL pk es) (n2 cm)) (M.net s) ->
  match last_entry es with Some le => eidx le + 1 | None => pidx + 1 end - 1 = pidx + N.of_nat (length es).
Proof.
  intros HR Hin. pose proof (SA.A1 _ _ _ (kall s HR)) as I1.
  pose proof (S1.I1_msg _ I1 _ _ _ _ _ _ _ Hin) as Hes.
  destruct (last_entry es) as [le|] eqn:El.
  - apply last_entry_nth in El.
    specialize (Hes (length es - 1)%nat (absE pk le)). rewrite absL_nth, El in Hes.
    destruct (Hes eq_refl) as [H1 _]. cbn in H1.
    assert (length es <> 0)%nat by (destruct es; [discriminate|cbn; lia]). lia.
  - destruct es as [|x es]; [cbn; lia|]. rewrite (last_entry_last (x :: es) x) in El by discriminate. discriminate.
Qed.

Lemma sim_ae_ok n a (S S' : Node.S) s t cm pidx pterm es p0 lg cmt rp nx :
  LS n s S -> a <> n -> a < RO_BASE -> term (nd S) <= t ->
  In (M.AppendEntries (n2 t) (n2 a) (n2 n) (n2 pidx) (n2 pterm) (absL pk es) (n2 cm)) (M.net s) ->
  Forall (small c) es -> 1 <= pidx ->
  nth_error (log (nd S)) (n2 pidx - 1) = Some p0 -> eterm p0 = pterm ->
  lg = firstn (n2 pidx) (log (nd S)) ++ l1merge (skipn (n2 pidx) (log (nd S))) es ->
  cmt = (if commit (nd S) <? cm then N.max (commit (nd S)) (N.min cm (nx - 1)) else commit (nd S)) ->
  nx - 1 = pidx + N.of_nat (length es) ->
  rp <= replay_idx (nd S) ->
  fvo (nd S') = fvo ((nd S) <| term := if term (nd S) <? t then t else term (nd S) |>
                           <| voted := if term (nd S) <? t then None else voted (nd S) |>
                           <| role := FOLLOWER |> <| log := lg |> <| commit := cmt |> <| replay_idx := rp |>) ->
  others (nd S') = fold_members (vminus n V) lg (Some n) ->
  Pm (M.matchIdx (M.nodes s (n2 n))) (nd S') ->
  grow (fun o => nosend o \/ o = Send a (NextIdx t nx false true)) S S' ->
  exists s', ksn (n2 n) s s' /\ LS n s' S'.
Proof.
  intros L Hne Ha Ht Hae Hsm Hp1 Hp0 Hpt Elg Ecmt Enx Hrp F Hoth HPm G.
  destruct (sim_ae_adopt n S s t L Ht) as (s1 & K1 & R1 & B1 & B2 & B3 & B4 & B5 & B6 & B7 & B8).
  pose proof (LS_n _ _ _ _ _ L) as RN.
  destruct RN as [A0 A1 A2 A3 A4 A5 A6 A7 A8 A9].
  assert (Hpi : n2 pidx = Sn (n2 pidx - 1)) by lia.
  assert (Hin : In (M.AppendEntries (n2 t) (n2 a) (n2 n) (Sn (n2 pidx - 1)) (n2 pterm) (absL pk es) (n2 cm)) (M.net s1)).
  { rewrite B6, <- Hpi. exact Hae. }
  assert (Hnj : n2 n <> n2 a) by lia.
  assert (Hpe : nth_error (M.log (M.nodes s1 (n2 n))) (n2 pidx - 1) = Some (absE pk p0)).
  { rewrite B3, A4, absL_nth, Hp0. reflexivity. }
  assert (Hpte : M.eterm (absE pk p0) = n2 pterm) by (cbn; rewrite Hpt; reflexivity).
  destruct (t_ae_ok_ok V' (n2 n) (n2 t) (n2 a) (n2 pidx - 1) (n2 pterm) (absL pk es) (n2 cm) (absE pk p0) s1
              B8 Hin Hnj B1 Hpe Hpte) as [K2 E2].
  set (s2 := M.ae_ok (n2 n) (n2 t) (Sn (n2 pidx - 1)) (absL pk es) (n2 cm) s1) in *.
  assert (K : ksn (n2 n) s s2) by (eapply ksn_trans; [exact K1|apply ksn_one; auto]).
  exists s2. split; [exact K|].
  destruct (fvo_eq _ _ F) as (Fself & Frole & Fterm & Fvoted & Fvotes & Flog & Fcommit & Fsr & Fqueue & Fapplied &
                              Freplay & Fro & Fnoop & Fchg).
  cbn in Fself, Frole, Fterm, Fvoted, Fvotes, Flog, Fcommit, Fsr, Fqueue, Fapplied, Freplay, Fro, Fnoop, Fchg.
  apply (LS_ksn n s s2 S S' K L).
  - constructor; unfold s2, M.ae_ok; cbn [M.nodes M.grants]; rewrite ?upd_eq;
      cbn [M.term M.voted M.rl M.log M.commit M.votesFrom M.matchIdx M.lf M.noopi].
    + exact B8.
    + rewrite Fterm, B1. destruct (term (nd S) <? t) eqn:E; [reflexivity|]. apply N.ltb_ge in E. f_equal. lia.
    + rewrite Fvoted, B2. reflexivity.
    + rewrite Frole. reflexivity.
    + rewrite Flog, Elg, B3, A4, <- Hpi. rewrite absL_app, absL_firstn. f_equal.
      rewrite <- absL_skipn. apply merge_abs.
    + rewrite Fcommit, Ecmt, B4, A5. rewrite absL_length, <- Hpi.
      destruct (commit (nd S) <? cm) eqn:E; [apply N.ltb_lt in E|apply N.ltb_ge in E]; lia.
    + intros Hx. rewrite Frole in Hx. compute in Hx. discriminate.
    + intros f m Hf Hnf Hg. rewrite B5. apply (HPm f m Hf Hg).
    + intros Hv. rewrite Fvoted in Hv. rewrite B7. rewrite Fterm.
      destruct (term (nd S) <? t); [discriminate|]. auto.
    + intros Hx. rewrite Frole in Hx. discriminate.
  - destruct (LS_h _ _ _ _ _ L) as [C1 C2 C3 C4 C5 C6 C7 C8 C9 C10]. constructor; try congruence.
    + rewrite Flog, Elg. apply Forall_app. split; [apply Forall_firstn; auto|].
      apply l1merge_small; auto. apply Forall_skipn; auto.
    + rewrite Freplay, Fapplied. lia.
    + rewrite Fapplied, Fcommit, Ecmt. destruct (commit (nd S) <? cm); lia.
    + apply pend_not_leader. rewrite Frole. discriminate.
  - rewrite Fself. apply (LS_self _ _ _ _ _ L).
  - apply (grow_Ro (fun o => nosend o \/ o = Send a (NextIdx t nx false true))); [|exact G].
    intros o [Ho| ->]; [apply nosend_okout; auto|]. cbn. intros _ _.
    unfold s2, M.ae_ok. cbn [M.net]. left. rewrite absL_length. f_equal. lia.
Qed.

Lemma sim_msg_ae n a x s t cm prev es :
  LS n s (start_S e x) -> Rmsg a n (AE t cm prev es) s ->
  exists s', ksn (n2 n) s s' /\ LS n s' (on_message e a (AE t cm prev es) x).
Proof.
  intros L Hm. unfold on_message. set (S0 := start_S e x) in *.
  rewrite on_append_entries_eq.
  destruct (t <? term (nd S0)) eqn:Et; [exists s; split; [constructor|exact L]|].
  apply N.ltb_ge in Et.
  destruct (ae_pre_spec e a t cm S0) as [F1 G1].
  set (S1 := ae_pre e a t cm S0) in *.
  pose proof (LS_wf _ _ _ L) as W.
  assert (Hd : dyn (cf e) = true) by (rewrite Hc; exact Hdyn).
  destruct (ae_pre_nc e a t cm S0) as [N1 N2]. fold S1 in N1, N2.
  assert (FM1 : fvm (nd S1) = fvm ((nd S0) <| term := if term (nd S0) <? t then t else term (nd S0) |>
               <| voted := if term (nd S0) <? t then None else voted (nd S0) |> <| role := FOLLOWER |>)).
  { apply fvm_intro; [exact F1|rewrite N1; reflexivity|rewrite N2; reflexivity]. }
  assert (Hlog1 : log (nd S1) = log (nd S0)) by (fvinj_n F1 F; exact Flog).
  pose proof (LS_lt _ _ _ _ _ L) as Hnlt.
  cbn [ae_body_of].
  (* failing branches *)
  clearbody S1.
  assert (Hfail : forall S', nd S' = nd S1 -> grow (is_fail_reply a) S1 S' -> some_ae t a n s -> a <> n ->
                  exists s', ksn (n2 n) s s' /\ LS n s' S').
  { intros S' En G Hs Hne. apply (sim_ae_fail n a S0 S' s t); auto.
    - rewrite En. exact FM1.
    - eapply grow_trans; [|exact G]. eapply grow_mono; [|exact G1]. intros o Ho. left. exact Ho. }
  destruct prev as [[pidx pterm]|].
  2:{ destruct Hm as (Ha & Hne & Hs).
      destruct (ae_regular_fail_none e a cm es S1) as [En G]. apply Hfail; auto. }
  destruct Hm as (Ha & Hne & Hsm & Hin). specialize (Hin Hnlt).
  assert (Hs : some_ae t a n s) by (unfold some_ae; eauto).
  destruct (N.eq_dec pidx 0) as [->|Hp0].
  { destruct (ae_regular_fail_empty e a cm 0 pterm es S1) as [En G]; [rewrite Hlog1; apply ge_zero; auto|].
    apply Hfail; auto. }
  assert (Hp1 : 1 <= pidx) by lia.
  assert (Hge : get_entries (log (nd S1)) (Some pidx) None None = skipn (n2 pidx - 1) (log (nd S0))).
  { rewrite Hlog1. apply ge_from; auto. }
  destruct (nth_error (log (nd S0)) (n2 pidx - 1)) as [p0|] eqn:Ep.
  2:{ destruct (ae_regular_fail_empty e a cm pidx pterm es S1) as [En G].
      - rewrite Hge. apply skipn_all2. apply nth_error_None. exact Ep.
      - apply Hfail; auto. }
  rewrite (skipn_nth_cons _ _ _ Ep) in Hge. replace (Sn (n2 pidx - 1)) with (n2 pidx) in Hge by lia.
  destruct (N.eq_dec (eterm p0) pterm) as [Hpt|Hpt].
  2:{ destruct (ae_regular_fail_term e a cm pidx pterm es S1 p0 _ Hge Hpt) as [En G]. apply Hfail; auto. }
  (* the accepting branch *)
  destruct (ae_regular_succ e Hd a cm pidx pterm es S1 p0 _ Hge Hpt) as [F2 G2]. cbv zeta in F2, G2.
  pose proof (LS_h _ _ _ _ _ L) as HH. pose proof (LS_n _ _ _ _ _ L) as RN.
  pose proof (fvm_fv _ _ FM1) as F1'. fvinj_n F1' P.
  (* the member table follows the log *)
  assert (Hsb : ssorted (vminus n V)) by (apply ssorted_vminus; exact SV).
  assert (Hself1 : self (nd S1) = Some n) by (rewrite Pself; apply (LS_self _ _ _ _ _ L)).
  assert (Hoth1 : others (nd S1) = fold_members (vminus n V) (log (nd S1)) (self (nd S1))).
  { rewrite Hself1, Poth, Plog. apply (H_oth _ _ _ _ HH). }
  assert (Hleff : leff V' (absL pk (log (nd S1)))).
  { rewrite Plog. change (log x) with (log (nd S0)). rewrite <- (Rn_log _ _ _ _ RN).
    apply (leff_kreachable V' F3 F3_disc (V'_nodup c V NDV SV VNE VRO Hb1) (V'_ne c V NDV SV VNE VRO Hb1)).
    apply (LS_reach _ _ _ _ _ L). }
  destruct (members_follow_log_append e a cm pidx pterm es S1 p0 _ (vminus n V) Hd Hge Hpt Hsb Hoth1) as (Hsplit & Hlog2 & Hoth2).
  { intros _. rewrite Hself1. apply (leff_undo pk n V _ _ Hsb).
    rewrite <- (ae_split (log (nd S1)) pidx p0 _ _ Hge). exact Hleff. }
  cbv zeta in Hsplit, Hlog2, Hoth2. rewrite Hself1 in Hoth2.
  (* the match table *)
  assert (HPm : Pm (M.matchIdx (M.nodes s (n2 n))) (nd (ae_regular e a cm (Some (pidx, pterm)) es S1))).
  { apply (ae_regular_Pm e Hd).
    - rewrite Poth. apply (Hn_sorted _ _ HH).
    - intros f mm Hf Hg. rewrite Poth in Hf. rewrite Pmatch in Hg.
      apply (Rn_match _ _ _ _ RN f mm Hf); [|exact Hg].
      intros ->. apply (LS_not_self c V NDV SV VNE VRO Hb1 _ _ _ L). exact Hf. }
  set (S2 := ae_regular e a cm (Some (pidx, pterm)) es S1) in *. clearbody S2.
  set (ptail := skipn (n2 pidx) (log (nd S0))) in *.
  set (m := matched_prefix ptail es) in *.
  set (nx := match last_entry es with Some le => eidx le + 1 | None => pidx + 1 end) in *.
  set (tr := truncating (skipn m ptail) (skipn m es)) in *.
  set (lg := firstn (n2 pidx) (log (nd S0)) ++ l1merge ptail es).
  set (cmt := if commit (nd S0) <? cm then N.max (commit (nd S0)) (N.min cm (nx - 1)) else commit (nd S0)).
  set (rp := if tr then N.min (replay_idx (nd S0)) (pidx + N.of_nat m) else replay_idx (nd S0)).
  assert (Elog : (if tr then delete_from (log (nd S1)) (pidx + 1 + N.of_nat m) else log (nd S1)) ++ skipn m es = lg).
  { rewrite Plog. unfold lg, l1merge. fold m. fold tr. destruct tr.
    - unfold delete_from. change (log x) with (log (nd S0)). rewrite (wf1_first_idx _ W).
      destruct (pidx + 1 + N.of_nat m <? 1) eqn:E; [lia|].
      replace (n2 (pidx + 1 + N.of_nat m - 1)) with (n2 pidx + m)%nat by lia.
      rewrite ML.firstn_add. fold ptail. rewrite app_assoc. reflexivity.
    - unfold ptail. rewrite app_assoc, firstn_skipn. reflexivity. }
  assert (F3 : fvo (nd S2) =
               fvo ((nd S0) <| term := if term (nd S0) <? t then t else term (nd S0) |>
                           <| voted := if term (nd S0) <? t then None else voted (nd S0) |>
                           <| role := FOLLOWER |> <| log := lg |> <| commit := cmt |> <| replay_idx := rp |>)).
  { rewrite F2. pose proof (fvm_fvo _ _ FM1) as FO.
    destruct (fvo_eq _ _ FO) as (O1 & O2 & O3 & O4 & O5 & O6 & O7 & O8 & O9 & O10 & O11 & O12 & O13 & O14).
    cbn in O1, O2, O3, O4, O5, O6, O7, O8, O9, O10, O11, O12, O13, O14.
    unfold fvo. cbn. rewrite Elog, O1, O2, O3, O4, O5, O8, O9, O10, O12, O13, O14.
    unfold cmt, rp. rewrite O7, O11. reflexivity. }
  assert (Hoth3 : others (nd S2) = fold_members (vminus n V) lg (Some n)).
  { rewrite Hoth2. f_equal. destruct (fvo_eq _ _ F3) as (_ & _ & _ & _ & _ & El & _). exact El. }
  assert (Hnx : nx - 1 = pidx + N.of_nat (length es)).
  { apply (es_last_idx s t a (n2 n) pidx pterm es cm); auto. apply (LS_reach _ _ _ _ _ L). }
  assert (Hrp : rp <= replay_idx (nd S0)) by (unfold rp; destruct tr; lia).
  assert (G3 : grow (fun o => nosend o \/ o = Send a (NextIdx t nx false true)) S0 S2).
  { eapply grow_trans; [eapply grow_mono; [|exact G1]; intros o Ho; left; exact Ho|].
    eapply grow_mono; [|exact G2]. intros o [Ho| ->]; [left; exact Ho|]. right. rewrite Pterm.
    change (term (nd S0)) with (term x) in Et.
    destruct (term x <? t) eqn:E; [reflexivity|]. apply N.ltb_ge in E. f_equal. f_equal. lia. }
  exact (sim_ae_ok n a S0 S2 s t cm pidx pterm es p0 lg cmt rp nx L Hne Ha Et Hin Hsm Hp1 Ep Hpt
           eq_refl eq_refl Hnx Hrp F3 Hoth3 HPm G3).
Qed.

(* AESnap without data (the only kind in the fragment) *)
Lemma sim_msg_aesnap n a x s t cm p :
  LS n s (start_S e x) -> Rmsg a n (AESnap t cm p) s ->
  exists s', ksn (n2 n) s s' /\ LS n s' (on_message e a (AESnap t cm p) x).
Proof.
  intros L (-> & Ha & Hne & Hs). specialize (Hs (LS_lt _ _ _ _ _ L)). unfold on_message. set (S0 := start_S e x) in *.
  rewrite on_append_entries_eq.
  destruct (t <? term (nd S0)) eqn:Et; [exists s; split; [constructor|exact L]|].
  apply N.ltb_ge in Et.
  destruct (ae_pre_spec e a t cm S0) as [F1 G1].
  destruct (ae_pre_nc e a t cm S0) as [N1 N2].
  set (S1 := ae_pre e a t cm S0) in *. clearbody S1.
  cbn [ae_body_of set_transmission andb]. unfold ae_commit.
  apply (sim_ae_fail n a S0 _ s t); auto.
  { rewrite nd_upd. apply fvm_intro; [exact F1|exact N1|exact N2]. }
  eapply grow_trans; [|apply grow_upd]. eapply grow_mono; [|exact G1]. intros o Ho. left. exact Ho.
Qed.

End Msg.
