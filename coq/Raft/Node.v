(* Faithful executable model of one SyncObj node: every branch of _onTick,
   __onMessageReceived, _checkCommandsToApply, __applyLogEntries, __doApplyCommand,
   __sendAppendEntries, __onBecomeLeader, membership, compaction, dump load; the
   Serializer state machine (in-memory / file without fork).  Line references are to
   pysyncobj/syncobj.py. *)
From Coq Require Import ZArith NArith List Bool.
From RecordUpdate Require Import RecordSet.
From PSO Require Import Raft.Types.
Import ListNotations.
Import RecordSetNotations.
Open Scope N_scope.

(* per-event environment: configuration + oracle inputs *)
Record env := mkEnv {
  cf : conf;
  t0 : Z;              (* clock reading at the start of the event *)
  budget : N;          (* per call of __sendAppendEntries: loop turns before the clock moves on by period+1 *)
  rnd : Z;             (* (max-min)*random.random() for every timeout drawn in this event *)
  order : list nid;    (* iteration order of otherNodes | readonlyNodes *)
  snaplen : N          (* byte length of the snapshot, if this event serializes *)
}.

(* threaded handler state *)
Record S := mkS { nd : node; outs : list out; exc : N; tnow : Z; used : N; jmp : bool; njmp : N }.
#[export] Instance eta_S : Settable _ := settable! mkS <nd; outs; exc; tnow; used; jmp; njmp>.

Definition EXC_GENERIC := 9.
Definition EXC_FUEL := 77.

Definition start_S (e : env) (n : node) : S := mkS n [] 0 (t0 e) 0 false 0.

Definition upd (f : node -> node) (s : S) : S := s <| nd := f (nd s) |>.
Definition emit (o : out) (s : S) : S := s <| outs := outs s ++ [o] |>.
Definition raise (c : N) (s : S) : S := s <| exc := c |>.
Definition ok (s : S) : bool := exc s =? 0.

Definition andthen (f g : S -> S) (s : S) : S := let s' := f s in if ok s' then g s' else s'.
Notation "f ;; g" := (andthen f g) (at level 61, right associativity).

Definition send (dst : nid) (m : msg) (s : S) : S :=
  if smem dst (tconn (nd s)) then emit (Send dst m) s else s.

Definition gen_timeout (e : env) : Z := (tmin (cf e) + rnd e)%Z.

Definition majority (count : N) (n : node) : bool :=
  (* count > (len(others) + 1) / 2 with Python 3 true division *)
  N.of_nat (length (others n)) + 1 <? 2 * count.

(* ---- log access (syncobj.py:1049-1130) ---- *)
Fixpoint take_size (m tot : N) (r : list entry) : list entry :=
  match r with
  | [] => []
  | e :: r' => let tot' := tot + csz (ecmd e) in
               if m <=? tot' then [e] else e :: take_size m tot' r'
  end.

Definition get_entries (l : list entry) (from : option N) (count : option N) (maxsz : option N) : list entry :=
  match from with
  | None => []
  | Some f =>
    let fi := first_idx l in
    if f <? fi then []
    else
      let r := skipn (N.to_nat (f - fi)) l in
      let r := match count with None => r | Some c => firstn (N.to_nat c) r end in
      match maxsz with None => r | Some m => take_size m 0 r end
  end.

Definition get_prev (l : list entry) (next : N) : option (N * N) :=
  match get_entries l (Some (next - 1)) (Some 1) None with
  | e :: _ => Some (next - 1, eterm e)
  | [] => None
  end.

Definition delete_from (l : list entry) (from : N) : list entry :=
  let fi := first_idx l in
  if from <? fi then l else firstn (N.to_nat (from - fi)) l.

Definition delete_to (l : list entry) (to : N) : list entry :=
  let fi := first_idx l in
  if to <? fi then l else skipn (N.to_nat (to - fi)) l.

Definition log_add (e : entry) (n : node) : node := n <| log := log n ++ [e] |>.

Definition set_commit_meta (n : node) : node :=
  (* FileJournal.setRaftCommitIndex: remembered, flushed by the one second timer *)
  n <| meta_dirty := true |>.

(* ---- small helpers ---- *)
Definition set_role (r : N) (s : S) : S :=
  let o := role (nd s) in
  let s := upd (fun n => n <| role := r |>) s in
  if o =? r then s else emit (Role o r) s.

Definition fire (c : cbref) (res err : N) (s : S) : S :=
  match c with CbLocal id => emit (Fired id res err) s | _ => s end.

Definition call_err (err : N) (c : cbref) (s : S) : S :=
  match c with
  | CbNone => s
  | CbRemote n r => send n (ApplyResp r false err 0) s
  | CbLocal id => emit (Fired id 0 err) s
  end.

(* __onLeaderChanged: pending forwarded requests fail with LEADER_CHANGED, in id order *)
Definition on_leader_changed (s : S) : S :=
  let s := fold_left (fun s kv => fire (snd kv) 0 LEADER_CHANGED s) (wait_reply (nd s)) s in
  upd (fun n => n <| wait_reply := [] |>) s.

Definition send_next_idx (dst : nid) (next : option N) (reset success : bool) (s : S) : S :=
  let nx := match next with Some x => x | None => last_idx (log (nd s)) + 1 end in
  send dst (NextIdx (term (nd s)) nx reset success) s.

(* ---- membership (syncobj.py:1286-1325) ---- *)
Definition self_is (x : nid) (n : node) : bool :=
  match self n with Some i => i =? x | None => false end.

Definition do_change_cluster (add : bool) (x : nid) (reverse : bool) (s : S) : S * bool :=
  let n := nd s in
  let adding := xorb add reverse in
  if adding then
    if self_is x n || smem x (others n) then (s, false)
    else
      let n1 := n <| others := sadd x (others n) |>
                  <| next_idx := aset x (last_idx (log n) + 1) (next_idx n) |>
                  <| match_idx := aset x 0 (match_idx n) |> in
      let n2 := if role n =? LEADER then n1 <| last_resp := aset x (tnow s) (last_resp n1) |> else n1 in
      (emit (TAdd x) (s <| nd := n2 |>), true)
  else
    if self_is x n then (s, false)
    else if negb (smem x (others n)) then (s, false)
    else
      let n1 := n <| others := sdel x (others n) |>
                  <| next_idx := adel x (next_idx n) |>
                  <| match_idx := adel x (match_idx n) |>
                  <| tconn := sdel x (tconn n) |> in
      (emit (TDrop x) (s <| nd := n1 |>), true).

Definition membership_of (c : cmd) : option (bool * nid) :=
  if ck c =? 2 then Some (ca c =? 1, cb c) else None.

Definition apply_membership (reverse : bool) (es : list entry) (s : S) : S :=
  fold_left (fun s e => match membership_of (ecmd e) with
                        | Some (a, x) => fst (do_change_cluster a x reverse s)
                        | None => s end) es s.

(* __updateClusterConfiguration *)
Definition update_cluster (new : list nid) (s : S) : S :=
  let n := nd s in
  let to_remove := filter (fun x => negb (smem x new)) (others n) in
  let to_add := filter (fun x => negb (smem x (others n))) new in
  let s := fold_left (fun s r =>
             emit (TDrop r) (upd (fun n => n <| next_idx := adel r (next_idx n) |>
                                              <| match_idx := adel r (match_idx n) |>
                                              <| tconn := sdel r (tconn n) |>) s)) to_remove s in
  let s := upd (fun n => n <| others := new |>) s in
  fold_left (fun s a =>
     upd (fun n => n <| next_idx := aset a (last_idx (log n) + 1) (next_idx n) |>
                      <| match_idx := aset a 0 (match_idx n) |>) (emit (TAdd a) s)) to_add s.

(* ---- serializer (serializer.py) ---- *)
Definition blob_len (b : blob) : N := match b with Good s => s_len s | Corrupt n => n end.

Definition snap_eqb (a b : snapshot) : bool :=
  entry_eqb (s_e1 a) (s_e1 b) && entry_eqb (s_e0 a) (s_e0 b) && (s_len a =? s_len b)
  && (N.of_nat (length (s_hist a)) =? N.of_nat (length (s_hist b))).

(* getTransmissionData *)
Definition get_transmission (e : env) (x : nid) (s : S) : S * snap_part :=
  let z := sr (nd s) in
  if negb (pid z =? 0) then (s, SNone)
  else
    let cur := match aget x (trans z) with
               | Some t => Some t
               | None => match stored z with Some b => Some (b, 0) | None => None end
               end in
    match cur with
    | None => (s, SNone)
    | Some (b, off) =>
      let len := N.min (chunk (cf e)) (blob_len b - off) in
      let last := len =? 0 in
      let tr := if last then adel x (trans z) else aset x (b, off + len) (trans z) in
      (upd (fun n => n <| sr := (sr n) <| trans := tr |> |>) s,
       SData b off len (off =? 0) last)
    end.

Definition cancel_transmission (x : nid) (s : S) : S :=
  upd (fun n => n <| sr := (sr n) <| trans := adel x (trans (sr n)) |> |>) s.

Fixpoint pieces_total (ps : list piece) : N :=
  match ps with [] => 0 | (_, _, l) :: r => l + pieces_total r end.

Fixpoint pieces_contig (s : snapshot) (off : N) (ps : list piece) : bool :=
  match ps with
  | [] => off =? s_len s
  | (Good s', o, l) :: r => snap_eqb s s' && (o =? off) && pieces_contig s (off + l) r
  | (Corrupt _, _, _) :: _ => false
  end.

Definition assemble_snap (ps : list piece) : blob :=
  match ps with
  | (Good s, _, _) :: _ => if pieces_contig s 0 ps then Good s else Corrupt (pieces_total ps)
  | _ => Corrupt (pieces_total ps)
  end.

Definition snap_ahead (b : blob) (a : N) : bool :=
  match b with Good sn => negb (eidx (s_e1 sn) <=? a) | Corrupt _ => false end.

(* setTransmissionData: true when a complete file has been stored *)
Definition set_transmission (p : snap_part) (s : S) : S * bool :=
  match p with
  | SNone => (s, false)
  | SData b off len first last =>
    let z := sr (nd s) in
    let inc := if first then Some [] else incoming z in
    match inc with
    | None => (s, false)
    | Some ps =>
      let ps := ps ++ [(b, off, len)] in
      if last then
        (* the complete file replaces the stored one only when it is a snapshot ahead of this node's position *)
        if snap_ahead (assemble_snap ps) (applied (nd s)) then
          (upd (fun n => n <| sr := (sr n) <| stored := Some (assemble_snap ps) |> <| incoming := None |> |>) s, true)
        else
          (upd (fun n => n <| sr := (sr n) <| incoming := None |> |>) s, false)
      else
        (upd (fun n => n <| sr := (sr n) <| incoming := Some ps |> |>) s, false)
    end
  end.

(* __loadDumpFile; any failure is swallowed by the bare except *)
(* a received snapshot that is not ahead of the node's own position is not installed *)
Definition snap_behind (s : S) : bool :=
  match stored (sr (nd s)) with Some (Good sn) => eidx (s_e1 sn) <=? applied (nd s) | _ => false end.

(* outcome of __loadDumpFile(clearJournal=True) *)
Definition load_dump_ok (s : S) : bool :=
  match stored (sr (nd s)) with
  | Some (Good sn) => negb (eidx (s_e1 sn) <=? applied (nd s)) && (s_ver sn <=? self_ver (nd s))
  | _ => false end.

Definition load_dump (e : env) (clear : bool) (s : S) : S :=
  match stored (sr (nd s)) with
  | Some (Good sn) =>
    if clear && (eidx (s_e1 sn) <=? applied (nd s)) then
      (* what is stored now is the older snapshot: take a fresh one *)
      upd (fun n => n <| force_compact := true |> <| last_ser_entry := None |>) s
    else
    if self_ver (nd s) <? s_ver sn then s else
    let s := upd (fun n => n <| hist := s_hist sn |> <| enabled_ver := s_ver sn |>) s in
    (* a log that holds the dump's two entries is trimmed to the dump's position and keeps what follows them *)
    let kept := match get_entries (log (nd s)) (Some (eidx (s_e0 sn))) (Some 2) None with
                | [a; b] => entry_eqb a (s_e0 sn) && entry_eqb b (s_e1 sn)
                | _ => false
                end in
    let s := if kept then upd (fun n => n <| log := delete_to (log n) (eidx (s_e0 sn)) |>) s else s in
    let n := nd s in
    let keep := match log n with
                | a :: b :: _ => entry_eqb a (s_e0 sn) && entry_eqb b (s_e1 sn)
                | _ => false end in
    let s := if negb keep
             then upd (fun n => n <| log := [s_e0 sn; s_e1 sn] |>
                                   <| replay_idx := N.min (replay_idx n) (eidx (s_e1 sn)) |>) s else s in
    let s := upd (fun n => n <| applied := eidx (s_e1 sn) |>) s in
    if dyn (cf e) then
      let s := update_cluster (filter (fun x => negb (self_is x (nd s))) (s_cluster sn)) s in
      (* install: the membership entries kept behind the snapshot's position stay in force *)
      if clear && kept
      then apply_membership false (get_entries (log (nd s)) (Some (eidx (s_e1 sn) + 1)) None None) s
      else s
    else s
  | _ => s
  end.

(* ---- __sendAppendEntries (syncobj.py:1163-1249) ---- *)
Definition delta_read (e : env) (s : S) : S :=
  let u := used s + 1 in
  let s := s <| used := u |> in
  if (budget e <? u) && negb (jmp s)
  then s <| tnow := (tnow s + period (cf e) + 1)%Z |> <| jmp := true |> <| njmp := njmp s + 1 |>
  else s.

Definition int_size (v : N) : N := if v <? 256 then 2 else if v <? 65536 then 3 else 5.
Definition psize (e : entry) : N := cpk (ecmd e) + int_size (eidx e) + int_size (eterm e) - 4.

Fixpoint send_pieces (fuel : nat) (x : nid) (e : entry) (prev : option (N * N)) (b pos : N) (s : S) : S :=
  match fuel with
  | O => s
  | Datatypes.S f =>
    let ps := psize e in
    if ps <=? pos then s
    else
      let len := N.min b (ps - pos) in
      let lab := if pos =? 0 then 1 else if ps <=? pos + b then 3 else 2 in
      let s := send x (AEPiece (term (nd s)) (commit (nd s)) prev lab pos len e) s in
      send_pieces f x e prev b (pos + b) s
  end.

Definition ae_body (e : env) (x : nid) (next : N) (s : S) : S * bool (* sendingSerialized *) :=
  let n := nd s in
  if first_idx (log n) <? next then
    let prev := get_prev (log n) next in
    let '(s, entries) :=
      if next <=? last_idx (log n) then
        let es := get_entries (log n) (Some next) None (Some (batch (cf e))) in
        (upd (fun n => n <| next_idx := aset x (last_idx es + 1) (next_idx n) |>) s, es)
      else (s, []) in
    match entries with
    | [e1] =>
      if batch (cf e) <=? csz (ecmd e1) then
        (send_pieces (Datatypes.S (N.to_nat (psize e1 / batch (cf e)))) x e1 prev (batch (cf e)) 0 s, false)
      else (send x (AE (term n) (commit n) prev entries) s, false)
    | _ => (send x (AE (term n) (commit n) prev entries) s, false)
    end
  else
    let (s, td) := get_transmission e x s in
    let s := send x (AESnap (term n) (commit n) td) s in
    match td with
    | SNone => (s, false)
    | SData _ _ _ _ last =>
      if last then
        match log (nd s) with
        | _ :: e1 :: _ => (upd (fun n => n <| next_idx := aset x (eidx e1 + 1) (next_idx n) |>) s, false)
        | _ => (raise EXC_INDEX s, false)
        end
      else (s, true)
    end.

Fixpoint ae_loop (fuel : nat) (e : env) (start : Z) (x : nid) (single ser_ : bool) (s : S) : S :=
  match fuel with
  | O => raise EXC_FUEL s
  | Datatypes.S f =>
    match aget x (next_idx (nd s)) with
    | None => raise EXC_KEY s
    | Some next =>
      if (next <=? last_idx (log (nd s))) || single || ser_ then
        let (s, ser') := ae_body e x next s in
        if ok s then
          let s := delta_read e s in
          if (period (cf e) <? tnow s - start)%Z then s
          else ae_loop f e start x false ser' s
        else s
      else s
    end
  end.

Definition is_perm (a b : list nid) : bool :=
  (length a =? length b)%nat && forallb (fun x => smem x b) a && forallb (fun x => smem x a) b.

Definition targets (e : env) (n : node) : list nid :=
  let u := sunion (others n) (readonly n) in
  if is_perm (order e) u then order e else u.

Definition send_ae (e : env) (s : S) : S :=
  let s := s <| used := 0 |> <| jmp := false |> in
  let s := upd (fun n => n <| new_ae_time := (tnow s + period (cf e))%Z |>) s in
  let start := tnow s in
  let fuel := Datatypes.S (N.to_nat (budget e) + length (targets e (nd s)) + 1) in
  fold_left (fun s x =>
    if ok s then
      if negb (smem x (connected (nd s))) then cancel_transmission x s
      else ae_loop fuel e start x true false s
    else s) (targets e (nd s)) s.

(* ---- __onBecomeLeader ---- *)
Definition become_leader (e : env) (s : S) : S :=
  let s := upd (fun n => n <| leader := self n |>) s in
  let s := set_role LEADER s in
  let s := upd (fun n => n <| last_resp := [] |>) s in
  let now := tnow s in
  let s := upd (fun n =>
     fold_left (fun n x => n <| next_idx := aset x (last_idx (log n) + 1) (next_idx n) |>
                             <| match_idx := aset x 0 (match_idx n) |>
                             <| last_resp := aset x now (last_resp n) |>
                             <| sr := (sr n) <| trans := adel x (trans (sr n)) |> |>)
               (sunion (others n) (readonly n)) n) s in
  let s := upd (fun n => let idx := last_idx (log n) + 1 in
                         (log_add (mkEntry (noop_cmd (noop_pk (cf e))) idx (term n)) n) <| noop_idx := Some idx |>) s in
  ((if use_batch (cf e) then (fun s => s) else send_ae e) ;; send_ae e) s.

(* ---- __doApplyCommand / __applyLogEntries ---- *)
Inductive apply_res := Applied (res : N) | WrongVer | RaisedUser.

Definition do_apply (c : cmd) (s : S) : S * apply_res :=
  if ck c =? 3 then
    if self_ver (nd s) <? ca c then (s, WrongVer)
    else (upd (fun n => n <| enabled_ver := ca c |>) s, Applied 0)
  else match membership_of c with
  | Some (a, x) =>
    if applied (nd s) <? replay_idx (nd s)
    then (fst (do_change_cluster a x false s), Applied 0)
    else (s, Applied 0)
  | None =>
    if ck c =? 0 then
      if cb c =? 1 then (s, RaisedUser)
      else let s := upd (fun n => n <| hist := hist n ++ [ca c] |>) s in
           (s, Applied (N.of_nat (length (hist (nd s))) + 1))
    else (s, Applied 0)
  end.

(* returns (state, continue?) *)
Definition apply_one (en : entry) (s : S) : S * bool :=
  let subs := match aget (eidx en) (wait_commit (nd s)) with Some l => l | None => [] end in
  let s := upd (fun n => n <| wait_commit := adel (eidx en) (wait_commit n) |>) s in
  match do_apply (ecmd en) s with
  | (s, WrongVer) => (s, false)
  | (s, ar) =>
    let r := match ar with Applied r => r | _ => 1 (* the exception object *) end in
    let s := fold_left (fun s tc => if fst tc =? eterm en then fire (snd tc) r SUCCESS s
                                    else fire (snd tc) 0 DISCARDED s) subs s in
    (upd (fun n => n <| applied := applied n + 1 |>) s, true)
  end.

Fixpoint apply_list (es : list entry) (s : S) : S :=
  match es with
  | [] => s
  | en :: r => let (s, go) := apply_one en s in if go then apply_list r s else s
  end.

Definition apply_entries (e : env) (s : S) : S * bool (* needSendAppendEntries *) :=
  let n := nd s in
  if applied n <? commit n then
    let es := get_entries (log n) (Some (applied n + 1)) (Some (commit n - applied n)) None in
    (apply_list es s, negb (use_batch (cf e)))
  else (s, false).

(* ---- _applyCommand / _checkCommandsToApply ---- *)
Definition submit (e : env) (c : cmd) (cbk : cbref) (s : S) : S :=
  (* FastQueue.put_nowait: Full iff len(queue) > maxSize *)
  if qsize (cf e) <? N.of_nat (length (queue (nd s))) then call_err QUEUE_FULL cbk s
  else upd (fun n => n <| queue := queue n ++ [(c, cbk)] |>) s.

Definition change_cluster (add : bool) (x : nid) (s : S) : S * bool :=
  let n := nd s in
  let noop_ok := match noop_idx n with Some i => i <=? applied n | None => false end in
  if negb noop_ok then (s, false)
  else
    let s := match change_idx n with
             | Some ci => if ci <=? applied n then upd (fun n => n <| change_idx := None |>) s else s
             | None => s end in
    match change_idx (nd s) with
    | Some _ => (s, false)
    | None => do_change_cluster add x false s
    end.

Definition check_one (e : env) (c : cmd) (cbk : cbref) (s : S) : S :=
  let n := nd s in
  if role n =? LEADER then
    let idx := last_idx (log n) + 1 in
    let tm := term n in
    let req := if dyn (cf e) then membership_of c else None in
    let '(s, accepted) := match req with
                          | None => (s, true)
                          | Some (a, x) => change_cluster a x s end in
    if accepted then
      let s := upd (log_add (mkEntry c idx tm)) s in
      let s := match req with Some _ => upd (fun n => n <| change_idx := Some idx |>) s | None => s end in
      let s := match cbk with
               | CbRemote rn rid => send rn (ApplyResp rid true idx tm) s
               | CbLocal _ =>
                 upd (fun n => n <| wait_commit :=
                    aset idx ((match aget idx (wait_commit n) with Some l => l | None => [] end) ++ [(tm, cbk)])
                         (wait_commit n) |>) s
               | CbNone => s
               end in
      if use_batch (cf e) then s else send_ae e s
    else
      match cbk with
      | CbRemote rn rid => send rn (ApplyResp rid false REQUEST_DENIED 0) s
      | CbLocal id => emit (Fired id 0 REQUEST_DENIED) s
      | CbNone => s
      end
  else
    match leader n with
    | Some l =>
      match cbk with
      | CbRemote rn rid => send rn (ApplyResp rid false NOT_LEADER 0) s
      | CbLocal _ =>
        let ctr := local_ctr n + 1 in
        let s := upd (fun n => n <| local_ctr := ctr |> <| wait_reply := aset ctr cbk (wait_reply n) |>) s in
        send l (ApplyCmd c (Some ctr)) s
      | CbNone => send l (ApplyCmd c None) s
      end
    | None => call_err MISSING_LEADER cbk s
    end.

Fixpoint check_loop (fuel : nat) (e : env) (start : Z) (s : S) : S :=
  match fuel with
  | O => s
  | Datatypes.S f =>
    if (tnow s - start <? period (cf e))%Z then
      match leader (nd s), wait_leader (cf e) with
      | None, true => s
      | _, _ =>
        match queue (nd s) with
        | [] => s
        | (c, cbk) :: rest =>
          let s := upd (fun n => n <| queue := rest |>) s in
          let s := check_one e c cbk s in
          if ok s then check_loop f e start s else s
        end
      end
    else s
  end.

Definition check_commands (e : env) (s : S) : S :=
  check_loop (Datatypes.S (length (queue (nd s)))) e (tnow s) s.

(* ---- __tryLogCompaction ---- *)
(* __clusterBeforeChange, over the entries behind the snapshot's position, latest first *)
Definition cluster_before (n : node) (res : list entry) (cl : list nid) : list nid :=
  fold_left (fun cl e => match membership_of (ecmd e) with
                         | Some (a, x) => if self_is x n then cl else if a then sdel x cl else sadd x cl
                         | None => cl end) res cl.

Definition try_compact (e : env) (s : S) : S :=
  let cur := tnow s in
  let z := sr (nd s) in
  let st := pid z in                      (* 0 NOT_SERIALIZING | 1 SUCCESS | 2 FAILED *)
  let id := cur_id z in
  let s := if st =? 0 then s
           else upd (fun n => n <| sr := (sr n) <| pid := 0 |> <| trans := [] |> |>) s in
  let s := if st =? 1 then
             upd (fun n => n <| last_ser_time := cur |> <| log := delete_to (log n) id |>
                             <| last_ser_entry := Some id |>) s
           else s in
  if negb (st =? 0) then s
  else
    let n := nd s in
    if (N.of_nat (length (log n)) <=? min_entries (cf e))
       && (cur - last_ser_time n <=? min_time (cf e))%Z && negb (force_compact n) then s
    else
      let s := upd (fun n => n <| force_compact := false |>) s in
      match get_entries (log n) (Some (applied n - 1)) (Some 2) None with
      | e0 :: e1 :: _ =>
        if opt_eqb (Some (eidx e0)) (last_ser_entry n) then upd (fun n => n <| last_ser_time := cur |>) s
        else
          let cl := match self n with Some i => sadd i (others n) | None => others n end in
          let cl := cluster_before n (rev (get_entries (log n) (Some (applied n + 1)) None None)) cl in
          let sn := mkSnap (hist n) (enabled_ver n) e1 e0 cl (snaplen e) in
          upd (fun n => n <| sr := (sr n) <| cur_id := eidx e0 |> <| stored := Some (Good sn) |> <| pid := 1 |> |>) s
      | _ => upd (fun n => n <| last_ser_time := cur |>) s
      end.

(* ---- _onTick ---- *)
Definition tick_load (e : env) (s : S) : S :=
  let s := if need_load (nd s) && file_dump (cf e) then load_dump e false s else s in
  upd (fun n => n <| need_load := false |>) s.

Definition tick_timer (e : env) (s : S) : S :=
  let n := nd s in
  if (sec_dumps n <? tnow s - start_time n)%Z then
    upd (fun n => (n <| sec_dumps := (sec_dumps n + 1)%Z |>)
                    <| meta_commit := if meta_dirty n then commit n else meta_commit n |>
                    <| meta_dirty := false |>) s
  else s.

Definition connected_to_anyone (n : node) : bool :=
  negb (N.of_nat (length (connected n)) =? 0) || (N.of_nat (length (others n)) =? 0).

Definition tick_election (e : env) (s : S) : S :=
  let n := nd s in
  match self n with
  | None => s
  | Some me =>
    if ((role n =? FOLLOWER) || (role n =? CANDIDATE))
       && (deadline n <? tnow s)%Z && connected_to_anyone n then
      let s := upd (fun n => n <| deadline := (tnow s + gen_timeout e)%Z |> <| leader := None |>) s in
      let s := set_role CANDIDATE s in
      let s := upd (fun n => n <| term := term n + 1 |> <| voted := Some me |> <| votes := 1 |>) s in
      let n := nd s in
      let s := fold_left (fun s x => send x (RequestVote (term n) (last_idx (log n)) (last_term (log n))) s)
                         (others n) s in
      let s := on_leader_changed s in
      if majority (votes (nd s)) (nd s) then become_leader e s else s
    else s
  end.

(* the commit-advance loop of the leader *)
Fixpoint commit_loop (fuel : nat) (ci next : N) (s : S) : S * N :=
  match fuel with
  | O => (s, next)
  | Datatypes.S f =>
    let n := nd s in
    if ci <? last_idx (log n) then
      let ci := ci + 1 in
      (* count = 1 + |{x in others | matchIndex[x] >= ci}|; KeyError if an entry is missing *)
      let missing := existsb (fun x => match aget x (match_idx n) with None => true | Some _ => false end) (others n) in
      if missing then (raise EXC_KEY s, next)
      else
        let cnt := 1 + N.of_nat (length (filter (fun x => match aget x (match_idx n) with
                                                          | Some m => ci <=? m | None => false end) (others n))) in
        if negb (majority cnt n) then (s, next)
        else match get_entries (log n) (Some ci) (Some 1) None with
             | [] => commit_loop f ci next s
             | en :: _ => if eterm en =? term n then commit_loop f ci ci s else commit_loop f ci next s
             end
    else (s, next)
  end.

Definition tick_leader (e : env) (s : S) : S :=
  let n := nd s in
  if role n =? LEADER then
    let (s, nc) := commit_loop (Datatypes.S (N.to_nat (last_idx (log n) - commit n))) (commit n) (commit n) s in
    if ok s then
      let s := if commit (nd s) =? nc then s
               else upd (fun n => set_commit_meta (n <| commit := nc |>)) s in
      let s := upd (fun n => n <| leader_commit := Some (commit n) |>) s in
      let n := nd s in
      let dl := (tnow s - fallback (cf e))%Z in
      let missing := existsb (fun x => match aget x (last_resp n) with None => true | Some _ => false end) (others n) in
      if missing then raise EXC_KEY s
      else
        let cnt := 1 + N.of_nat (length (filter (fun x => match aget x (last_resp n) with
                                                          | Some t => (dl <? t)%Z | None => false end) (others n))) in
        if negb (majority cnt n) then
          upd (fun n => n <| leader := None |>) (set_role FOLLOWER s)
        else s
    else s
  else s.

Definition tick_send (e : env) (need : bool) (s : S) : S :=
  if role (nd s) =? LEADER then
    if (new_ae_time (nd s) <? tnow s)%Z || need then send_ae e s else s
  else s.

Definition tick_ready (s : S) : S :=
  let n := nd s in
  if negb (ready_called n) && opt_eqb (Some (applied n)) (leader_commit n)
  then upd (fun n => n <| ready_called := true |>) s else s.

Definition on_tick (e : env) (n : node) : S :=
  let s := start_S e n in
  (tick_load e ;; tick_timer e ;; tick_election e ;; tick_leader e ;;
   (fun s => let (s, need) := apply_entries e s in
             if ok s then (tick_send e need ;; tick_ready ;; check_commands e ;; try_compact e) s else s)) s.

(* ---- __onMessageReceived ---- *)
Fixpoint pieces_ok (en : entry) (off : N) (ps : list (entry * N * N)) : bool :=
  match ps with
  | [] => off =? psize en
  | (e', o, l) :: r => entry_eqb en e' && (o =? off) && pieces_ok en (off + l) r
  end.

Definition assemble_entry (ps : list (entry * N * N)) : option entry :=
  match ps with
  | (en, _, _) :: _ => if pieces_ok en 0 ps then Some en else None
  | [] => None
  end.

Fixpoint matched_prefix (existing new : list entry) : nat :=
  match existing, new with
  | x :: xs, y :: ys => if eterm x =? eterm y then Datatypes.S (matched_prefix xs ys) else O
  | _, _ => O
  end.

(* the common tail of the append_entries branch: commit index update *)
Definition ae_commit (c : N) (verified : option N) (s : S) : S :=
  let s := match verified with
           | Some v => if commit (nd s) <? c
                       then upd (fun n => n <| commit := N.max (commit n) (N.min c v) |>) s else s
           | None => s
           end in
  upd set_commit_meta s.

Definition ae_regular (e : env) (from : nid) (c : N) (prev : option (N * N)) (new : list entry) (s : S) : S :=
  let n := nd s in
  let pents := get_entries (log n) (option_map fst prev) None None in
  match pents, prev with
  | [], _ => send_next_idx from None true false s                       (* return: no commit update *)
  | _, None => send_next_idx from None true false s
  | p0 :: ptail, Some (pidx, pterm) =>
    if negb (eterm p0 =? pterm) then send_next_idx from (Some pidx) true false s
    else
      (* entries already held are kept; cut only from the first conflicting one *)
      let matched := matched_prefix ptail new in
      let existing_rest := skipn matched ptail in
      let to_add := skipn matched new in
      let s := match existing_rest, to_add with
               | _ :: _, _ :: _ =>
                 let s := if dyn (cf e) then apply_membership true (rev existing_rest) s else s in
                 upd (fun n => n <| log := delete_from (log n) (pidx + 1 + N.of_nat matched) |>
                                  <| replay_idx := N.min (replay_idx n) (pidx + N.of_nat matched) |>) s
               | _, _ => s
               end in
      let s := upd (fun n => n <| log := log n ++ to_add |>) s in
      let s := if dyn (cf e) then apply_membership false to_add s else s in
      let nx := match last_entry new with Some le => eidx le + 1 | None => pidx + 1 end in
      let s := send_next_idx from (Some nx) false true s in
      ae_commit c (Some (nx - 1)) s
  end.

Definition on_append_entries (e : env) (from : nid) (m : msg) (t c : N) (s : S) : S :=
  if t <? term (nd s) then s
  else
    let s := upd (fun n => n <| deadline := (tnow s + gen_timeout e)%Z |>) s in
    let s := if opt_eqb (leader (nd s)) (Some from) then s else on_leader_changed s in
    let s := upd (fun n => n <| leader := Some from |>) s in
    let s := if term (nd s) <? t then upd (fun n => n <| term := t |> <| voted := None |>) s else s in
    let s := set_role FOLLOWER s in
    let s := upd (fun n => n <| leader_commit := Some c |>) s in
    match m with
    | AE _ _ prev es => ae_regular e from c prev es s
    | AEPiece _ _ prev lab off len en =>
      if lab =? 1 then
        send_next_idx from None false false (upd (fun n => n <| recv_t := [(en, off, len)] |>) s)
      else
        match recv_t (nd s) with
        | [] => raise EXC_TYPE s           (* '' + bytes *)
        | _ =>
          let s := upd (fun n => n <| recv_t := recv_t n ++ [(en, off, len)] |>) s in
          if lab =? 2 then send_next_idx from None false false s
          else
            match assemble_entry (recv_t (nd s)) with
            | None => raise EXC_DECODE s
            | Some en' => ae_regular e from c prev [en'] (upd (fun n => n <| recv_t := [] |>) s)
            end
        end
    | AESnap _ _ p =>
      let (s, done) := set_transmission p s in
      if done && load_dump_ok s then
        let s := load_dump e true s in
        let v := applied (nd s) in          (* the snapshot's position: what is known to match the leader's log *)
        let s := send_next_idx from (Some (v + 1)) false true s in
        ae_commit c (Some v) s
      else if done then ae_commit c None (load_dump e true s)
      else ae_commit c None s
    | _ => s
    end.

Definition on_message (e : env) (from : nid) (m : msg) (n : node) : S :=
  let s := start_S e n in
  match m with
  | RequestVote t lli llt =>
    match self (nd s) with
    | None => s
    | Some _ =>
      let s := if term (nd s) <? t then
                 upd (fun n => n <| leader := None |>)
                     (set_role FOLLOWER (upd (fun n => n <| term := t |> <| voted := None |>) s))
               else s in
      let n := nd s in
      if (role n =? FOLLOWER) || (role n =? CANDIDATE) then
        if term n <=? t then
          if llt <? last_term (log n) then s
          else if (llt =? last_term (log n)) && (lli <? last_idx (log n)) then s
          else match voted n with
               | Some _ => s
               | None =>
                 let s := upd (fun n => n <| voted := Some from |> <| deadline := (tnow s + gen_timeout e)%Z |>) s in
                 send from (ResponseVote t) s
               end
        else s
      else s
    end
  | AE t c _ _ => on_append_entries e from m t c s
  | AEPiece t c _ _ _ _ _ => on_append_entries e from m t c s
  | AESnap t c _ => on_append_entries e from m t c s
  | ApplyCmd c req =>
    submit e c (match req with Some r => CbRemote from r | None => CbNone end) s
  | ApplyResp req okr a b =>
    match aget req (wait_reply (nd s)) with
    | None => s
    | Some cbk =>
      let s := upd (fun n => n <| wait_reply := adel req (wait_reply n) |>) s in
      if negb okr then fire cbk 0 a s
      else if a <=? applied (nd s) then fire cbk 0 LEADER_CHANGED s
      else upd (fun n => n <| wait_commit :=
                  aset a ((match aget a (wait_commit n) with Some l => l | None => [] end) ++ [(b, cbk)])
                       (wait_commit n) |>) s
    end
  | ResponseVote t =>
    if (role (nd s) =? CANDIDATE) && (t =? term (nd s)) then
      let s := upd (fun n => n <| votes := votes n + 1 |>) s in
      if majority (votes (nd s)) (nd s) then become_leader e s else s
    else s
  | NextIdx t next reset success =>
    if (role (nd s) =? LEADER) && (t =? term (nd s)) then
      let s := if reset then
                 upd (fun n => n <| next_idx := aset from (match aget from (next_idx n) with
                                                          | Some cur => N.min next cur | None => next end)
                                                         (next_idx n) |>) s
               else s in
      let s := if success then
                 match aget from (match_idx (nd s)) with
                 | None => raise EXC_KEY s
                 | Some m0 =>
                   if m0 <? next - 1 then
                     upd (fun n => n <| match_idx := aset from (next - 1) (match_idx n) |>
                                      <| next_idx := aset from next (next_idx n) |>) s
                   else s
                 end
               else s in
      if ok s then upd (fun n => n <| last_resp := aset from (tnow s) (last_resp n) |>) s else s
    else s
  end.

(* ---- connection notifications ---- *)
Definition RO_BASE := 100.

Definition on_connected (x : nid) (n : node) : node :=
  if RO_BASE <=? x then
    n <| readonly := sadd x (readonly n) |> <| connected := sadd x (connected n) |>
      <| tconn := sadd x (tconn n) |>
      <| next_idx := aset x (last_idx (log n) + 1) (next_idx n) |>
      <| match_idx := aset x 0 (match_idx n) |>
  else n <| connected := sadd x (connected n) |> <| tconn := sadd x (tconn n) |>.

Definition on_disconnected (x : nid) (n : node) : node :=
  if RO_BASE <=? x then
    n <| readonly := sdel x (readonly n) |> <| connected := sdel x (connected n) |>
      <| tconn := sdel x (tconn n) |>
      <| next_idx := adel x (next_idx n) |> <| match_idx := adel x (match_idx n) |>
      <| sr := (sr n) <| trans := adel x (trans (sr n)) |> |>
  else n <| connected := sdel x (connected n) |> <| tconn := sdel x (tconn n) |>
         <| sr := (sr n) <| trans := adel x (trans (sr n)) |> |>.

(* ---- API calls ---- *)
Definition api_submit (e : env) (c : cmd) (cbk : cbref) (n : node) : S := submit e c cbk (start_S e n).

Definition api_admin (e : env) (c : cmd) (cbk : cbref) (n : node) : S :=
  let s := start_S e n in
  if dyn (cf e) then submit e c cbk s else raise EXC_GENERIC s.

Definition api_setver (e : env) (c : cmd) (cbk : cbref) (n : node) : S :=
  let s := start_S e n in
  if (self_ver n <? ca c) || (ca c <? enabled_ver n) then raise EXC_GENERIC s else submit e c cbk s.

Definition api_compact (n : node) : node := n <| force_compact := true |>.

(* ---- construction (SyncObj.__init__) ---- *)
Definition init_node (e : env) (me : option nid) (oth : list nid) (sv : N) : node :=
  mkNode me oth [] [] [] FOLLOWER 0 None 0 None (t0 e + gen_timeout e)%Z
         [mkEntry (noop_cmd (noop_pk (cf e))) 1 0] 1 1
         [] [] [] (t0 e) None false None false None None [] (t0 e) 0%Z true 0%Z
         [] 0 [] [] init_ser [] 0 sv 1 false 1.

(* what survives a kill of a node with a journal file (and a dump file) *)
Record disk := mkDisk { d_log : list entry; d_meta : N; d_dump : option blob }.

Definition disk_of (c : conf) (n : node) : option disk :=
  if file_journal c
  then Some (mkDisk (log n) (meta_commit n) (if file_dump c then stored (sr n) else None))
  else None.

(* SyncObj.__init__ on existing files *)
Definition init_from_disk (e : env) (me : option nid) (oth : list nid) (sv : N) (d : disk) : node :=
  let n := init_node e me oth sv in
  match d_log d with
  | [] => n <| sr := (sr n) <| stored := d_dump d |> |>
  | l => n <| log := l |> <| commit := d_meta d |> <| meta_commit := d_meta d |>
           <| replay_idx := last_idx l |>
           <| sr := (sr n) <| stored := d_dump d |> |>
  end.
