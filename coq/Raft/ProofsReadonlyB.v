(* C18, global level: steps of the network, reachability, the silent-follower invariant. *)
From Coq Require Import ZArith NArith List Bool Lia ZifyBool ZifyN.
From RecordUpdate Require Import RecordSet.
From PSO Require Import Raft.Types Raft.Node Raft.Net Raft.Obs Raft.ProofsReadonlyFrames Raft.ProofsReadonlyA.
Import ListNotations.
Import RecordSetNotations.
Open Scope N_scope.

(* ---- which handler a global step runs ---- *)
Definition restart_node (c : conf) (g : gstate) (n : nid) (oth : list nid) (now rnd : Z) (sv : N) : node :=
  let e := mk_env c now rnd DEFAULT_BUDGET [] 0 in
  let me := if RO_BASE <=? n then None else Some n in
  match aget n (disks g), me with
  | Some d, Some _ => init_from_disk e me oth sv d
  | _, _ => init_node e me oth sv
  end.

(* nstep c g ev x pre s: event ev runs a handler of node x whose state before is pre (None for a
   fresh incarnation) and whose threaded result is s *)
Inductive nstep (c : conf) (g : gstate) : event -> nid -> option node -> S -> Prop :=
| NTick : forall n now rnd bud ord sl x, aget n (nodes g) = Some x ->
    nstep c g (ETick n now rnd bud ord sl) n (Some x) (on_tick (mk_env c now rnd bud ord sl) x)
| NDeliver : forall a b now rnd ord x m rest, aget b (nodes g) = Some x -> chan_get a b g = m :: rest ->
    nstep c g (EDeliver a b now rnd ord) b (Some x) (on_message (mk_env c now rnd DEFAULT_BUDGET ord 0) a m x)
| NDrop : forall a b x, aget a (nodes g) = Some x ->
    nstep c g (EDrop a b) a (Some x) (idle_S (on_disconnected b x))
| NConnect : forall a b x, aget a (nodes g) = Some x ->
    nstep c g (EConnect a b) a (Some x) (idle_S (on_connected b x))
| NSubmit : forall n cm cb x, aget n (nodes g) = Some x ->
    nstep c g (ESubmit n cm cb) n (Some x) (api_submit (mk_env c 0 0 DEFAULT_BUDGET [] 0) cm (cb_of cb) x)
| NAdmin : forall n cm cb x, aget n (nodes g) = Some x ->
    nstep c g (EAdmin n cm cb) n (Some x) (api_admin (mk_env c 0 0 DEFAULT_BUDGET [] 0) cm (cb_of cb) x)
| NSetVer : forall n cm cb x, aget n (nodes g) = Some x ->
    nstep c g (ESetVer n cm cb) n (Some x) (api_setver (mk_env c 0 0 DEFAULT_BUDGET [] 0) cm (cb_of cb) x)
| NCompact : forall n x, aget n (nodes g) = Some x ->
    nstep c g (ECompact n) n (Some x) (idle_S (api_compact x))
| NRestart : forall n oth now rnd sv,
    nstep c g (ERestart n oth now rnd sv) n None (idle_S (restart_node c g n oth now rnd sv)).

Lemma nodes_chan_set : forall a b q g, nodes (chan_set a b q g) = nodes g.
Proof. reflexivity. Qed.

Lemma nodes_route : forall a os g, nodes (route a os g) = nodes g.
Proof.
  intros a os; unfold route; induction os as [|o os IH]; intros g; cbn [fold_left]; [reflexivity|].
  rewrite IH. destruct o; reflexivity.
Qed.

Lemma nodes_finish : forall n s g, nodes (finish n s g) = aset n (nd s) (nodes g).
Proof. intros; unfold finish; rewrite nodes_route; reflexivity. Qed.

(* every enabled event is a kill, a loss, or runs exactly one handler *)
Lemma gstep_inv : forall c g ev g' r, gstep c g ev = Some (g', r) ->
  (r = None /\ (nodes g' = nodes g \/ exists n, ev = EKill n /\ nodes g' = adel n (nodes g))) \/
  (exists x pre s, r = Some (x, s) /\ nstep c g ev x pre s /\ nodes g' = aset x (nd s) (nodes g)).
Proof.
  intros c g ev g' r H. destruct ev; cbn in H.
  - destruct (aget n (nodes g)) eqn:E; inversion H; subst. right.
    eexists _, _, _. split; [reflexivity|]. split; [constructor; exact E | apply nodes_finish].
  - destruct (aget b (nodes g)) eqn:E; [|discriminate].
    destruct (chan_get a b g) eqn:E2; inversion H; subst. right.
    eexists _, _, _. split; [reflexivity|]. split; [econstructor; eauto | rewrite nodes_finish; reflexivity].
  - destruct (aget a (nodes g)) eqn:E; inversion H; subst. right.
    eexists _, _, _. split; [reflexivity|]. split; [apply NDrop; exact E | reflexivity].
  - inversion H; subst. left. split; [reflexivity | left; reflexivity].
  - destruct (aget a (nodes g)) eqn:E; inversion H; subst. right.
    eexists _, _, _. split; [reflexivity|]. split; [constructor; exact E|].
    rewrite nodes_finish. destruct (match aget b (nodes g) with Some y => _ | None => true end); reflexivity.
  - destruct (aget n (nodes g)) eqn:E; inversion H; subst. right.
    eexists _, _, _. split; [reflexivity|]. split; [constructor; exact E | apply nodes_finish].
  - destruct (aget n (nodes g)) eqn:E; inversion H; subst. right.
    eexists _, _, _. split; [reflexivity|]. split; [constructor; exact E | apply nodes_finish].
  - destruct (aget n (nodes g)) eqn:E; inversion H; subst. right.
    eexists _, _, _. split; [reflexivity|]. split; [constructor; exact E | apply nodes_finish].
  - destruct (aget n (nodes g)) eqn:E; inversion H; subst. right.
    eexists _, _, _. split; [reflexivity|]. split; [constructor; exact E | apply nodes_finish].
  - inversion H; subst. left. split; [reflexivity|]. right. exists n. split; [reflexivity|].
    cbn. destruct (aget n (nodes g)); [destruct (disk_of c n0)|]; reflexivity.
  - inversion H; subst. right.
    eexists _, _, _. split; [reflexivity|]. split; [apply NRestart | reflexivity].
Qed.

(* ---- invariants over all running nodes ---- *)
Definition all_nodes (I : nid -> node -> Prop) (g : gstate) : Prop :=
  forall x n, In (x, n) (nodes g) -> I x n.

Lemma aget_In : forall {V} k (v : V) l, aget k l = Some v -> In (k, v) l.
Proof.
  intros V k v l; induction l as [|[k' w] l IH]; cbn; [discriminate|].
  destruct (k =? k') eqn:E; intros H.
  - apply N.eqb_eq in E; subst. inversion H; subst. left; reflexivity.
  - right; auto.
Qed.

Lemma In_aset : forall {V} k (v : V) l p, In p (aset k v l) -> p = (k, v) \/ In p l.
Proof.
  intros V k v l p; induction l as [|[k' w] l IH]; cbn.
  - intros [H|[]]; auto.
  - destruct (k <? k'); [cbn; intros [H|H]; auto|].
    destruct (k =? k'); cbn; intros [H|H]; auto.
    destruct (IH H); auto.
Qed.

Lemma In_adel : forall {V} k (l : list (N * V)) p, In p (adel k l) -> In p l.
Proof.
  intros V k l p; induction l as [|[k' w] l IH]; cbn; [auto|].
  destruct (k =? k'); cbn; [auto|]. intros [H|H]; auto.
Qed.

Lemma all_nodes_step : forall (I : nid -> node -> Prop) c g ev g' r,
  all_nodes I g -> gstep c g ev = Some (g', r) ->
  (forall x pre s, nstep c g ev x pre s -> I x (nd s)) -> all_nodes I g'.
Proof.
  intros I c g ev g' r HI H Hs. destruct (gstep_inv _ _ _ _ _ H) as [[_ [E | (n & _ & E)]] | (x & pre & s & _ & Hn & E)];
    intros y m Hin; rewrite E in Hin.
  - auto.
  - apply In_adel in Hin; auto.
  - apply In_aset in Hin as [Hin | Hin]; [inversion Hin; subst; eauto | auto].
Qed.

Lemma all_nodes_pre : forall I c g ev x n s, all_nodes I g -> nstep c g ev x (Some n) s -> I x n.
Proof. intros I c g ev x n s HI H. inversion H; subst; apply HI; apply aget_In; assumption. Qed.

(* ---- reachability ---- *)
Definition reachable_by (V : event -> Prop) (c : conf) (g : gstate) : Prop :=
  exists evs, Forall V evs /\ run_trace c ginit evs = Some g.

Lemma run_trace_inv : forall (P : gstate -> Prop) (V : event -> Prop) c,
  (forall g ev g' r, P g -> V ev -> gstep c g ev = Some (g', r) -> P g') ->
  forall evs g0 g, P g0 -> Forall V evs -> run_trace c g0 evs = Some g -> P g.
Proof.
  intros P V c Hstep evs; induction evs as [|ev evs IH]; intros g0 g H0 HV H; cbn in H.
  - inversion H; subst; exact H0.
  - inversion HV; subst. destruct (gstep c g0 ev) as [[g1 r]|] eqn:E; [|discriminate].
    eapply IH; [eapply Hstep; eauto | assumption | exact H].
Qed.

Lemma reachable_inv : forall (P : gstate -> Prop) (V : event -> Prop) c,
  P ginit -> (forall g ev g' r, P g -> V ev -> gstep c g ev = Some (g', r) -> P g') ->
  forall g, reachable_by V c g -> P g.
Proof. intros P V c H0 Hs g (evs & HV & H). eapply run_trace_inv; eauto. Qed.

Definition any_event (ev : event) : Prop := True.
Definition reachable := reachable_by any_event.

Definition conf_period_ok (c : conf) : Prop := (0 <= period c)%Z.
