(* C18, global level: steps of the network, reachability, the silent-follower invariant. *)
From Coq Require Import ZArith NArith List Bool Lia ZifyBool ZifyN.
From RecordUpdate Require Import RecordSet.
From PSO Require Import Raft.Types Raft.Node Raft.Net Raft.ProofsReadonlyFrames Raft.ProofsReadonlyA.
Import ListNotations.
Import RecordSetNotations.
Open Scope N_scope.

(* ---- which handler a global step runs ---- *)
Definition restart_node (c : conf) (g : gstate) (n : nid) (oth : list nid) (now rnd : Z) (sv : N) : node :=
  let e := mk_env c now rnd DEFAULT_BUDGET [] 0 in
  let me := if RO_BASE <=? n then None else Some n in
  match aget n (disks g), me with
  | Some d, Some _ => init_from_disk e me oth sv d
  | _, _ => init_node e me oth sv
  end.

(* nstep c g ev x pre s: event ev runs a handler of node x whose state before is pre (None for a
   fresh incarnation) and whose threaded result is s *)
Inductive nstep (c : conf) (g : gstate) : event -> nid -> option node -> S -> Prop :=
| NTick : forall n now rnd bud ord sl x, aget n (nodes g) = Some x ->
    nstep c g (ETick n now rnd bud ord sl) n (Some x) (on_tick (mk_env c now rnd bud ord sl) x)
| NDeliver : forall a b now rnd ord x m rest, aget b (nodes g) = Some x -> chan_get a b g = m :: rest ->
    nstep c g (EDeliver a b now rnd ord) b (Some x) (on_message (mk_env c now rnd DEFAULT_BUDGET ord 0) a m x)
| NDrop : forall a b x, aget a (nodes g) = Some x ->
    nstep c g (EDrop a b) a (Some x) (idle_S (on_disconnected b x))
| NConnect : forall a b x, aget a (nodes g) = Some x ->
    nstep c g (EConnect a b) a (Some x) (idle_S (on_connected b x))
| NSubmit : forall n cm cb x, aget n (nodes g) = Some x ->
    nstep c g (ESubmit n cm cb) n (Some x) (api_submit (mk_env c 0 0 DEFAULT_BUDGET [] 0) cm (cb_of cb) x)
| NAdmin : forall n cm cb x, aget n (nodes g) = Some x ->
    nstep c g (EAdmin n cm cb) n (Some x) (api_admin (mk_env c 0 0 DEFAULT_BUDGET [] 0) cm (cb_of cb) x)
| NSetVer : forall n cm cb x, aget n (nodes g) = Some x ->
    nstep c g (ESetVer n cm cb) n (Some x) (api_setver (mk_env c 0 0 DEFAULT_BUDGET [] 0) cm (cb_of cb) x)
| NCompact : forall n x, aget n (nodes g) = Some x ->
    nstep c g (ECompact n) n (Some x) (idle_S (api_compact x))
| NRestart : forall n oth now rnd sv,
    nstep c g (ERestart n oth now rnd sv) n None (idle_S (restart_node c g n oth now rnd sv)).

Lemma nodes_chan_set : forall a b q g, nodes (chan_set a b q g) = nodes g.
Proof. reflexivity. Qed.

Lemma nodes_route : forall a os g, nodes (route a os g) = nodes g.
Proof.
  intros a os; unfold route; induction os as [|o os IH]; intros g; cbn [fold_left]; [reflexivity|].
  rewrite IH. destruct o; reflexivity.
Qed.

Lemma nodes_finish : forall n s g, nodes (finish n s g) = aset n (nd s) (nodes g).
Proof. intros; unfold finish; rewrite nodes_route; reflexivity. Qed.

(* every enabled event is a kill, a loss, or runs exactly one handler *)
Lemma gstep_inv : forall c g ev g' r, gstep c g ev = Some (g', r) ->
  (r = None /\ (nodes g' = nodes g \/ exists n, ev = EKill n /\ nodes g' = adel n (nodes g))) \/
  (exists x pre s, r = Some (x, s) /\ nstep c g ev x pre s /\ nodes g' = aset x (nd s) (nodes g)).
Proof.
  intros c g ev g' r H. destruct ev; cbn [gstep] in H.
  - destruct (aget n (nodes g)) eqn:E; inversion H; subst. right.
    eexists _, _, _. split; [reflexivity|]. split; [constructor; exact E | apply nodes_finish].
  - destruct (aget b (nodes g)) eqn:E; [|discriminate].
    destruct (chan_get a b g) eqn:E2; inversion H; subst. right.
    eexists _, _, _. split; [reflexivity|]. split; [econstructor; eauto | rewrite nodes_finish; reflexivity].
  - destruct (aget a (nodes g)) eqn:E; inversion H; subst. right.
    eexists _, _, _. split; [reflexivity|]. split; [apply NDrop; exact E | rewrite nodes_chan_set, nodes_finish; reflexivity].
  - inversion H; subst. left. split; [reflexivity | left; reflexivity].
  - destruct (aget a (nodes g)) eqn:E; inversion H; subst. right.
    eexists _, _, _. split; [reflexivity|]. split; [constructor; exact E|].
    rewrite nodes_finish. destruct (match aget b (nodes g) with Some y => _ | None => true end); reflexivity.
  - destruct (aget n (nodes g)) eqn:E; inversion H; subst. right.
    eexists _, _, _. split; [reflexivity|]. split; [constructor; exact E | apply nodes_finish].
  - destruct (aget n (nodes g)) eqn:E; inversion H; subst. right.
    eexists _, _, _. split; [reflexivity|]. split; [constructor; exact E | apply nodes_finish].
  - destruct (aget n (nodes g)) eqn:E; inversion H; subst. right.
    eexists _, _, _. split; [reflexivity|]. split; [constructor; exact E | apply nodes_finish].
  - destruct (aget n (nodes g)) eqn:E; inversion H; subst. right.
    eexists _, _, _. split; [reflexivity|]. split; [constructor; exact E | apply nodes_finish].
  - inversion H; subst. left. split; [reflexivity|]. right. exists n. split; [reflexivity|].
    cbn. destruct (aget n (nodes g)); [destruct (disk_of c n0)|]; reflexivity.
  - inversion H; subst. right.
    eexists _, _, _. split; [reflexivity|]. split; [apply NRestart | reflexivity].
Qed.

(* ---- invariants over all running nodes ---- *)
Definition all_nodes (I : nid -> node -> Prop) (g : gstate) : Prop :=
  forall x n, In (x, n) (nodes g) -> I x n.

Lemma aget_In : forall {V} k (v : V) l, aget k l = Some v -> In (k, v) l.
Proof.
  intros V k v l; induction l as [|[k' w] l IH]; cbn; [discriminate|].
  destruct (k =? k') eqn:E; intros H.
  - apply N.eqb_eq in E; subst. inversion H; subst. left; reflexivity.
  - right; auto.
Qed.

Lemma In_aset : forall {V} k (v : V) l p, In p (aset k v l) -> p = (k, v) \/ In p l.
Proof.
  intros V k v l p; induction l as [|[k' w] l IH]; cbn.
  - intros [H|[]]; auto.
  - destruct (k <? k'); [cbn; intros [H|H]; auto|].
    destruct (k =? k'); cbn; intros [H|H]; auto.
    destruct (IH H); auto.
Qed.

Lemma In_adel : forall {V} k (l : list (N * V)) p, In p (adel k l) -> In p l.
Proof.
  intros V k l p; induction l as [|[k' w] l IH]; cbn; [auto|].
  destruct (k =? k'); cbn; [auto|]. intros [H|H]; auto.
Qed.

Lemma all_nodes_step : forall (I : nid -> node -> Prop) c g ev g' r,
  all_nodes I g -> gstep c g ev = Some (g', r) ->
  (forall x pre s, nstep c g ev x pre s -> I x (nd s)) -> all_nodes I g'.
Proof.
  intros I c g ev g' r HI H Hs. destruct (gstep_inv _ _ _ _ _ H) as [[_ [E | (n & _ & E)]] | (x & pre & s & _ & Hn & E)];
    intros y m Hin; rewrite E in Hin.
  - auto.
  - apply In_adel in Hin; auto.
  - apply In_aset in Hin as [Hin | Hin]; [inversion Hin; subst; eauto | auto].
Qed.

Lemma all_nodes_pre : forall I c g ev x n s, all_nodes I g -> nstep c g ev x (Some n) s -> I x n.
Proof. intros I c g ev x n s HI H. inversion H; subst; apply HI; apply aget_In; assumption. Qed.

(* ---- reachability ---- *)
(* the same function as Obs.run_trace (see ProofsReadonlyFinal.run_trace_is_run); defined here so that
   the proofs do not depend on the observation/digest code of Obs.v *)
Fixpoint run (c : conf) (g : gstate) (evs : list event) : option gstate :=
  match evs with
  | [] => Some g
  | ev :: r => match gstep c g ev with Some (g', _) => run c g' r | None => None end
  end.

Definition reachable_by (V : event -> Prop) (c : conf) (g : gstate) : Prop :=
  exists evs, Forall V evs /\ run c ginit evs = Some g.

Lemma run_inv : forall (P : gstate -> Prop) (V : event -> Prop) c,
  (forall g ev g' r, P g -> V ev -> gstep c g ev = Some (g', r) -> P g') ->
  forall evs g0 g, P g0 -> Forall V evs -> run c g0 evs = Some g -> P g.
Proof.
  intros P V c Hstep evs; induction evs as [|ev evs IH]; intros g0 g H0 HV H; cbn in H.
  - inversion H; subst; exact H0.
  - inversion HV; subst. destruct (gstep c g0 ev) as [[g1 r]|] eqn:E; [|discriminate].
    eapply IH; [eapply Hstep; eauto | assumption | exact H].
Qed.

Lemma reachable_inv : forall (P : gstate -> Prop) (V : event -> Prop) c,
  P ginit -> (forall g ev g' r, P g -> V ev -> gstep c g ev = Some (g', r) -> P g') ->
  forall g, reachable_by V c g -> P g.
Proof. intros P V c H0 Hs g (evs & HV & H). eapply run_inv; eauto. Qed.

Definition any_event (ev : event) : Prop := True.
Definition reachable := reachable_by any_event.

Definition conf_period_ok (c : conf) : Prop := (0 <= period c)%Z.

(* ================= self is stable ================= *)
Lemma env_period_ok : forall c now rnd bud ord sl, conf_period_ok c -> period_ok (mk_env c now rnd bud ord sl).
Proof. intros; exact H. Qed.

Lemma nstep_pre : forall c g ev x n s, nstep c g ev x (Some n) s -> aget x (nodes g) = Some n.
Proof. intros c g ev x n s H; inversion H; subst; assumption. Qed.

Lemma nstep_fresh : forall c g ev x s, nstep c g ev x None s ->
  exists oth now rnd sv, ev = ERestart x oth now rnd sv /\ s = idle_S (restart_node c g x oth now rnd sv).
Proof. intros c g ev x s H; inversion H; subst. eauto 6. Qed.

Lemma core_on_connected : forall x n, core (on_connected x n) = core n.
Proof. intros; unfold on_connected; destruct (RO_BASE <=? x); reflexivity. Qed.

Lemma core_on_disconnected : forall x n, core (on_disconnected x n) = core n.
Proof. intros; unfold on_disconnected; destruct (RO_BASE <=? x); reflexivity. Qed.

Lemma fr_api_submit : forall e cm cbk n, fr true (start_S e n) (api_submit e cm cbk n).
Proof. intros; unfold api_submit; apply fr_submit. Qed.

Lemma fr_api_admin : forall e cm cbk n, fr true (start_S e n) (api_admin e cm cbk n).
Proof. intros; unfold api_admin; cbv zeta. destruct (dyn (cf e)); [apply fr_submit | apply fr_raise]. Qed.

Lemma fr_api_setver : forall e cm cbk n, fr true (start_S e n) (api_setver e cm cbk n).
Proof. intros; unfold api_setver; cbv zeta. destruct (_ || _); [apply fr_raise | apply fr_submit]. Qed.

Theorem self_stable_step : forall c g ev x n s,
  conf_period_ok c -> nstep c g ev x (Some n) s -> self (nd s) = self n.
Proof.
  intros c g ev x n s Hp H. inversion H; subst.
  - apply (frs_on_tick (mk_env c now rnd bud ord sl) n Hp).
  - apply (frs_on_message (mk_env c now rnd DEFAULT_BUDGET ord 0) a m n Hp).
  - cbn. destruct (core_fields _ _ (core_on_disconnected b n)) as (A & _); exact A.
  - cbn. destruct (core_fields _ _ (core_on_connected b n)) as (A & _); exact A.
  - destruct (core_fields _ _ (fr_core _ _ _ (fr_api_submit (mk_env c 0 0 DEFAULT_BUDGET [] 0) cm (cb_of cb) n))) as (A & _); exact A.
  - destruct (core_fields _ _ (fr_core _ _ _ (fr_api_admin (mk_env c 0 0 DEFAULT_BUDGET [] 0) cm (cb_of cb) n))) as (A & _); exact A.
  - destruct (core_fields _ _ (fr_core _ _ _ (fr_api_setver (mk_env c 0 0 DEFAULT_BUDGET [] 0) cm (cb_of cb) n))) as (A & _); exact A.
  - reflexivity.
Qed.

Theorem C18_self_stable_thm : forall c g ev g' x s n,
  (0 <= period c)%Z ->
  gstep c g ev = Some (g', Some (x, s)) -> aget x (nodes g) = Some n ->
  (forall oth now rnd sv, ev <> ERestart x oth now rnd sv) ->
  self (nd s) = self n /\ aget x (nodes g') = Some (nd s).
Proof.
  intros c g ev g' x s n Hp H Hx Hev.
  destruct (gstep_inv _ _ _ _ _ H) as [[E _] | (x' & pre & s' & E & Hn & En)]; [discriminate|].
  inversion E; subst x' s'. split.
  - destruct pre as [n'|].
    + pose proof (nstep_pre _ _ _ _ _ _ Hn) as Hx'. rewrite Hx in Hx'. inversion Hx'; subst n'.
      eapply self_stable_step; eauto.
    + destruct (nstep_fresh _ _ _ _ _ Hn) as (oth & now & rnd & sv & Eev & _). exfalso; eapply Hev; eauto.
  - rewrite En. apply aget_aset_same.
Qed.

(* ================= the silent follower ================= *)
Lemma ro_step : forall c g ev x n s,
  conf_period_ok c -> nstep c g ev x (Some n) s -> ro_inv n ->
  ro_inv (nd s) /\ Forall benign (outs s) /\
  (term (nd s) = term n \/
   exists a now rnd ord m rest t, ev = EDeliver a x now rnd ord /\ chan_get a x g = m :: rest /\
                                  ae_term m = Some t /\ term n < t /\ term (nd s) = t).
Proof.
  intros c g ev x n s Hp H Hro. inversion H; subst.
  - destruct (ro_on_tick (mk_env c now rnd bud ord sl) n Hp Hro) as (A & B & C). auto.
  - destruct (ro_on_message (mk_env c now rnd DEFAULT_BUDGET ord 0) a m n Hp Hro) as (A & B & C).
    split; [exact A|]. split; [exact B|]. destruct C as [C | (t & C1 & C2 & C3)]; [left; exact C|].
    right. exists a, now, rnd, ord, m, rest, t. auto.
  - cbn. split; [eapply ro_inv_core; [apply core_on_disconnected | exact Hro]|]. split; [constructor|].
    left. destruct (core_fields _ _ (core_on_disconnected b n)) as (_ & _ & A & _); exact A.
  - cbn. split; [eapply ro_inv_core; [apply core_on_connected | exact Hro]|]. split; [constructor|].
    left. destruct (core_fields _ _ (core_on_connected b n)) as (_ & _ & A & _); exact A.
  - pose proof (fr_api_submit (mk_env c 0 0 DEFAULT_BUDGET [] 0) cm (cb_of cb) n) as F.
    split; [eapply fr_ro; eauto|]. split; [eapply fr_start_benign; eauto | left; apply (fr_term _ _ _ F)].
  - pose proof (fr_api_admin (mk_env c 0 0 DEFAULT_BUDGET [] 0) cm (cb_of cb) n) as F.
    split; [eapply fr_ro; eauto|]. split; [eapply fr_start_benign; eauto | left; apply (fr_term _ _ _ F)].
  - pose proof (fr_api_setver (mk_env c 0 0 DEFAULT_BUDGET [] 0) cm (cb_of cb) n) as F.
    split; [eapply fr_ro; eauto|]. split; [eapply fr_start_benign; eauto | left; apply (fr_term _ _ _ F)].
  - cbn. split; [exact Hro|]. split; [constructor | left; reflexivity].
Qed.

Lemma ro_restart : forall c g x oth now rnd sv,
  self (restart_node c g x oth now rnd sv) = None -> ro_inv (restart_node c g x oth now rnd sv).
Proof.
  intros c g x oth now rnd sv. unfold restart_node; cbv zeta.
  destruct (RO_BASE <=? x).
  - destruct (aget x (disks g)); intros _; repeat split.
  - destruct (aget x (disks g)) as [d|]; [|cbn; discriminate].
    unfold init_from_disk; cbv zeta. destruct (d_log d); cbn; discriminate.
Qed.

Definition ro_state_inv : gstate -> Prop := all_nodes (fun _ n => self n = None -> ro_inv n).

Lemma ro_state_inv_step : forall c g ev g' r,
  conf_period_ok c -> ro_state_inv g -> gstep c g ev = Some (g', r) -> ro_state_inv g'.
Proof.
  intros c g ev g' r Hp HI H. eapply all_nodes_step; [exact HI | exact H|].
  intros x pre s Hn Hself. destruct pre as [n|].
  - pose proof (self_stable_step _ _ _ _ _ _ Hp Hn) as E.
    assert (ro_inv n) as Hro by (eapply (all_nodes_pre _ _ _ _ _ _ _ HI Hn); congruence).
    apply (ro_step _ _ _ _ _ _ Hp Hn Hro).
  - destruct (nstep_fresh _ _ _ _ _ Hn) as (oth & now & rnd & sv & _ & ->). cbn in *.
    apply ro_restart; exact Hself.
Qed.

Lemma ro_state_inv_reachable : forall c g, conf_period_ok c -> reachable c g -> ro_state_inv g.
Proof.
  intros c g Hp Hr. eapply reachable_inv with (P := ro_state_inv); [| |exact Hr].
  - intros x n [].
  - intros g0 ev g' r HI _ H. eapply ro_state_inv_step; eauto.
Qed.

(* what a step of a node that ends without own address looks like *)
Lemma ro_step_full : forall c g ev g' x s,
  conf_period_ok c -> reachable c g -> gstep c g ev = Some (g', Some (x, s)) -> self (nd s) = None ->
  ro_inv (nd s) /\ Forall benign (outs s) /\
  (forall n, aget x (nodes g) = Some n -> (forall oth now rnd sv, ev <> ERestart x oth now rnd sv) ->
     self n = None /\
     (term (nd s) = term n \/
      exists a now rnd ord m rest t, ev = EDeliver a x now rnd ord /\ chan_get a x g = m :: rest /\
                                     ae_term m = Some t /\ term n < t /\ term (nd s) = t)).
Proof.
  intros c g ev g' x s Hp Hr H Hself.
  pose proof (ro_state_inv_reachable _ _ Hp Hr) as HI.
  destruct (gstep_inv _ _ _ _ _ H) as [[E _] | (x' & pre & s' & E & Hn & En)]; [discriminate|].
  inversion E; subst x' s'. destruct pre as [n|].
  - pose proof (self_stable_step _ _ _ _ _ _ Hp Hn) as Es.
    assert (ro_inv n) as Hro by (eapply (all_nodes_pre _ _ _ _ _ _ _ HI Hn); congruence).
    destruct (ro_step _ _ _ _ _ _ Hp Hn Hro) as (A & B & C).
    split; [exact A|]. split; [exact B|]. intros n' Hx _.
    pose proof (nstep_pre _ _ _ _ _ _ Hn) as Hx'. rewrite Hx in Hx'. inversion Hx'; subst n'.
    split; [congruence | exact C].
  - destruct (nstep_fresh _ _ _ _ _ Hn) as (oth & now & rnd & sv & Eev & ->). cbn in *.
    split; [apply ro_restart; exact Hself|]. split; [constructor|].
    intros n _ Hev. exfalso; eapply Hev; eauto.
Qed.

Theorem C18_never_candidate_or_leader_thm : forall c g,
  (0 <= period c)%Z -> reachable c g ->
  (forall x n, aget x (nodes g) = Some n -> self n = None -> role n = FOLLOWER) /\
  (forall ev g' x s, gstep c g ev = Some (g', Some (x, s)) -> self (nd s) = None ->
     role (nd s) = FOLLOWER /\ forall a b, ~ In (Role a b) (outs s)).
Proof.
  intros c g Hp Hr. split.
  - intros x n Hx Hs. apply (ro_state_inv_reachable _ _ Hp Hr x n (aget_In _ _ _ Hx) Hs).
  - intros ev g' x s H Hs. destruct (ro_step_full _ _ _ _ _ _ Hp Hr H Hs) as ((_ & R & _) & B & _).
    split; [exact R|]. intros a b Hin. rewrite Forall_forall in B. apply (B _ Hin).
Qed.

Theorem C18_never_votes_thm : forall c g ev g' x s,
  (0 <= period c)%Z -> reachable c g -> gstep c g ev = Some (g', Some (x, s)) -> self (nd s) = None ->
  (forall d t lli llt, ~ In (Send d (RequestVote t lli llt)) (outs s)) /\
  (forall d t, ~ In (Send d (ResponseVote t)) (outs s)) /\
  voted (nd s) = None /\ votes (nd s) = 0 /\
  (forall n, aget x (nodes g) = Some n -> (forall oth now rnd sv, ev <> ERestart x oth now rnd sv) ->
     voted n = None /\ votes n = 0 /\
     (term (nd s) = term n \/
      exists a now rnd ord m rest t, ev = EDeliver a x now rnd ord /\ chan_get a x g = m :: rest /\
                                     ae_term m = Some t /\ term n < t /\ term (nd s) = t)).
Proof.
  intros c g ev g' x s Hp Hr H Hs.
  destruct (ro_step_full _ _ _ _ _ _ Hp Hr H Hs) as ((_ & _ & V1 & V2) & B & C).
  rewrite Forall_forall in B.
  split; [intros d t lli llt Hin; apply (B _ Hin)|].
  split; [intros d t Hin; apply (B _ Hin)|].
  split; [exact V1|]. split; [exact V2|].
  intros n Hx Hev. destruct (C n Hx Hev) as (Sn & T).
  pose proof (ro_state_inv_reachable _ _ Hp Hr x n (aget_In _ _ _ Hx) Sn) as (_ & _ & W1 & W2).
  auto.
Qed.
