(* C02 x Tier C2: the same link as ProofsCallbacksCore, for runs WITH log compaction and snapshot
   install.  Logs are the suffixes the nodes still hold, so entries are named by their index.  A tick
   no longer only appends (try_compact cuts the head of the log), but it does not touch the entries
   above the position applied when it starts. *)
From Coq Require Import ZArith NArith List Bool Lia ZifyBool Arith PeanoNat.
From RecordUpdate Require Import RecordSet.
From PSO Require Import Raft.Types Raft.Node Raft.Net Raft.Obs Raft.ProofsCommitBase.
From PSO Require Import Raft.ProofsApplyBase Raft.ProofsApply Raft.ProofsApplyLog Raft.ProofsCallbacks Raft.ProofsCallbacks2
  Raft.ProofsApplyWf.
From PSO Require Import Raft.ProofsElectionGhost.
From PSO Require Import Raft.RefineAbs Raft.Refine2Abs Raft.Refine2Main Raft.Refine2Final.
From PSO Require Raft.ProofsCommitLog Raft.ProofsCallbacksCore Raft.Refine2Sim.
Import ListNotations.
Import RecordSetNotations.
Open Scope N_scope.

Ltac frs := intros; reflexivity.

(* ------------------------------------------------------------------------------------------ *)
(* held suffixes are well-formed logs                                                         *)

Lemma suffix_log_wf l full : wf1 full -> suffix_of l full -> ProofsApplyLog.log_wf l.
Proof.
  intros W Sx. destruct (suffix_base l full W Sx) as (b & E & Hb & Hf).
  split; [apply (suffix_ne l full Sx)|]. rewrite Hf.
  apply ProofsCallbacksCore.consec_of_nth. intros p e Hp.
  rewrite E, nth_error_skipn in Hp. destruct W as [_ H]. specialize (H _ _ Hp). lia.
Qed.

Lemma In_skipn_consec i l k en :
  ProofsApplyLog.consec i l -> In en l -> i + N.of_nat k <= eidx en -> In en (skipn k l).
Proof.
  revert i k. induction l as [|e r IH]; intros i k Hc Hin Hle; [contradiction|].
  destruct k as [|k]; [exact Hin|]. cbn [skipn]. destruct Hc as [He Hr].
  destruct Hin as [->|Hin]; [lia|]. apply (IH (i + 1) k Hr Hin). lia.
Qed.

Lemma In_delete_to_kept l f en :
  ProofsApplyLog.log_wf l -> In en l -> f <= eidx en -> In en (delete_to l f).
Proof.
  intros [_ Hc] Hin Hle. unfold delete_to. destruct (f <? first_idx l) eqn:E; [exact Hin|].
  apply (In_skipn_consec (first_idx l) l _ en Hc Hin). lia.
Qed.

Lemma try_compact_log e s :
  log (nd (try_compact e s)) =
  if pid (sr (nd s)) =? 1 then delete_to (log (nd s)) (cur_id (sr (nd s))) else log (nd s).
Proof.
  unfold try_compact.
  destruct (pid (sr (nd s)) =? 1) eqn:E1.
  - apply N.eqb_eq in E1. rewrite E1. reflexivity.
  - destruct (pid (sr (nd s)) =? 0) eqn:E0; cbn [negb]; [|reflexivity].
    repeat (match goal with |- context [match ?x with _ => _ end] => destruct x end; cbn [nd upd log set]);
      reflexivity.
Qed.

(* ------------------------------------------------------------------------------------------ *)
(* a tick, up to the compaction step                                                          *)

Definition grows2 (a b : node) : Prop :=
  pid (sr b) = pid (sr a) /\ cur_id (sr b) = cur_id (sr a) /\ exists added, log b = log a ++ added.

Lemma grows2_refl a : grows2 a a.
Proof. split; [reflexivity|]. split; [reflexivity|exists []; now rewrite app_nil_r]. Qed.
Lemma grows2_trans a b d : grows2 a b -> grows2 b d -> grows2 a d.
Proof.
  intros (P1 & C1 & [x1 L1]) (P2 & C2 & [x2 L2]). split; [congruence|]. split; [congruence|].
  exists (x1 ++ x2). now rewrite L2, L1, app_assoc.
Qed.
Lemma grows2_same a b : sr b = sr a -> log b = log a -> grows2 a b.
Proof. intros H1 H2. split; [now rewrite H1|]. split; [now rewrite H1|exists []; now rewrite H2, app_nil_r]. Qed.
Lemma grows2_of a b : ProofsCommitLog.nkeeps a b -> (exists added, log b = log a ++ added) -> grows2 a b.
Proof. intros (_ & H1 & H2 & _) H3. split; [exact H1|]. split; [exact H2|exact H3]. Qed.

Lemma grows2_tick_pre e x0 : file_dump (cf e) = false -> grows2 x0 (nd (tick_pre e (start_S e x0))).
Proof.
  intros Hf. unfold tick_pre. change x0 with (nd (start_S e x0)) at 1.
  apply (andthen_rel grows2); [apply grows2_trans| |intros].
  { unfold tick_load. rewrite Hf, andb_false_r. apply grows2_same; reflexivity. }
  apply (andthen_rel grows2); [apply grows2_trans| |intros].
  { apply grows2_same; [apply (fr_tick_timer sr)|apply (fr_tick_timer log)]; frs. }
  apply (andthen_rel grows2); [apply grows2_trans| |intros].
  { apply grows2_of; [apply ProofsCommitLog.nkeeps_tick_election|apply ProofsCallbacksCore.grows_tick_election]. }
  apply grows2_same; [apply (fr_tick_leader sr)|apply (fr_tick_leader log)]; frs.
Qed.

Lemma applied_tick_pre e x0 : file_dump (cf e) = false -> applied (nd (tick_pre e (start_S e x0))) = applied x0.
Proof.
  intros Hf. unfold tick_pre. change x0 with (nd (start_S e x0)) at 2.
  apply (andthen_rel (fun a b => applied b = applied a)); [congruence| |intros].
  { unfold tick_load. rewrite Hf, andb_false_r. reflexivity. }
  apply (andthen_rel (fun a b => applied b = applied a)); [congruence|apply (fr_tick_timer applied); frs|intros].
  apply (andthen_rel (fun a b => applied b = applied a)); [congruence|apply (fr_tick_election applied); frs|intros].
  apply (fr_tick_leader applied); frs.
Qed.

Lemma log_wf_tick_pre e x0 :
  file_dump (cf e) = false -> ProofsApplyLog.log_wf (log x0) ->
  ProofsApplyLog.log_wf (log (nd (tick_pre e (start_S e x0)))).
Proof.
  intros Hf W. unfold tick_pre.
  assert (K : wfk (tick_load e ;; tick_timer e ;; tick_election e ;; tick_leader e)).
  { apply wfk_andthen; [|apply wfk_andthen; [|apply wfk_andthen]].
    - intros s Ws. unfold tick_load. rewrite Hf, andb_false_r. exact Ws.
    - apply wfk_view. intros s. apply view_tick_timer.
    - apply wfk_tick_election.
    - apply wfk_view. intros s. apply view_tick_leader. }
  apply K. exact W.
Qed.

(* from the start of the apply phase to the compaction step *)
Lemma tick_body_after_pre e x0 :
  let s0 := tick_pre e (start_S e x0) in
  let sb := tick_body e (start_S e x0) in
  ProofsApplyLog.log_wf (log (nd s0)) ->
  grows2 (nd s0) (nd sb) /\ commit (nd sb) = commit (nd s0) /\ ProofsApplyLog.log_wf (log (nd sb)).
Proof.
  cbv zeta. intros W0. unfold tick_body. rewrite andthen_apply.
  set (s0 := tick_pre e (start_S e x0)) in *.
  destruct (ok s0); [|split; [apply grows2_refl|split; [reflexivity|exact W0]]].
  assert (G1 : grows2 (nd s0) (nd (fst (apply_entries e s0))) /\
               commit (nd (fst (apply_entries e s0))) = commit (nd s0)).
  { split; [apply grows2_of; [apply ProofsCommitLog.nkeeps_apply_entries|]|apply (fr_apply_entries commit); frs].
    exists []. rewrite app_nil_r. apply (fr_apply_entries log); frs. }
  destruct G1 as [G1 C1].
  assert (W1 : ProofsApplyLog.log_wf (log (nd (fst (apply_entries e s0))))).
  { destruct G1 as (_ & _ & [ad L]). rewrite (fr_apply_entries log) by frs. exact W0. }
  destruct (apply_entries e s0) as [s1 need]. cbn [fst] in *.
  destruct (ok s1); [|split; [exact G1|split; [exact C1|exact W1]]].
  unfold tick_mid.
  assert (G3 : grows2 (nd s1) (nd ((tick_send e need ;; tick_ready ;; check_commands e) s1))).
  { apply (andthen_rel grows2); [apply grows2_trans| |intros].
    { apply grows2_of; [apply ProofsCommitLog.nkeeps_tick_send|]. exists []. rewrite app_nil_r. apply (fr_tick_send log); frs. }
    apply (andthen_rel grows2); [apply grows2_trans| |intros].
    { apply grows2_same; [apply (fr_tick_ready sr)|apply (fr_tick_ready log)]; frs. }
    unfold check_commands. apply grows2_of; [apply ProofsCommitLog.nkeeps_check_loop|apply ProofsCallbacksCore.grows_check_loop]. }
  assert (C3 : commit (nd ((tick_send e need ;; tick_ready ;; check_commands e) s1)) = commit (nd s1)).
  { apply (andthen_rel (fun a b => commit b = commit a)); [congruence|apply (fr_tick_send commit); frs|intros].
    apply (andthen_rel (fun a b => commit b = commit a)); [congruence|apply (fr_tick_ready commit); frs|intros].
    apply (fr_check_commands commit); frs. }
  assert (W3 : ProofsApplyLog.log_wf (log (nd ((tick_send e need ;; tick_ready ;; check_commands e) s1)))).
  { assert (K : wfk (tick_send e need ;; tick_ready ;; check_commands e)).
    { apply wfk_andthen; [apply wfk_view; intros s; apply view_tick_send|].
      apply wfk_andthen; [apply wfk_view; intros s; apply view_tick_ready|].
      intros s. unfold check_commands. apply wfk_check_loop. }
    apply K. exact W1. }
  split; [eapply grows2_trans; eauto|]. split; [congruence|exact W3].
Qed.

(* ------------------------------------------------------------------------------------------ *)
(* a committed entry is the one every voter holds at that index, from then on                 *)

Section Core2.
Variables (c : conf) (V : list nid).

Lemma committed_everywhere2 evsA evsB gA gB x xA en :
  core_frag2 c V (evsA ++ evsB) -> run_trace c ginit evsA = Some gA -> run_trace c gA evsB = Some gB ->
  aget x (nodes gA) = Some xA -> x < RO_BASE -> In en (log xA) -> eidx en <= commit xA ->
  forall b xb eb, aget b (nodes gB) = Some xb -> b < RO_BASE -> In eb (log xb) -> eidx eb = eidx en ->
                  eidx en <= commit xb -> eb = en.
Proof.
  intros F RA RB Hx Hlt Hen Hic b xb eb Hb Hbl Heb Hi Hcb.
  destruct (core_frag_facts c V _ F) as (ND & HV & HNE & Hb1 & Hd & Hf & _).
  destruct (run_GI2 c V evsA evsB gA gB F RA RB) as (ghA & stA & sA & ghB & stB & sB & GA & GB & K).
  pose proof (GI_node c V gA ghA stA sA GA x xA Hx Hlt) as RxA.
  pose proof (GI_node c V gB ghB stB sB GB b xb Hb Hbl) as Rb.
  destruct (GI_full c V ND HV HNE Hb1 gA ghA stA sA GA x xA Hx Hlt) as (fA & EA & WA & XA).
  destruct (GI_full c V ND HV HNE Hb1 gB ghB stB sB GB b xb Hb Hbl) as (fb & Eb & Wb & Xb).
  pose proof (GI_reach c V gA ghA stA sA GA) as HRA. pose proof (GI_reach c V gB ghB stB sB GB) as HRB.
  destruct (stable_star c V ND HV HNE Hb1 sA sB (n2 x) HRA K) as [C Fx].
  rewrite (Rn_commit _ _ _ _ _ RxA) in C, Fx. rewrite EA in Fx.
  destruct (In_full_nth _ _ _ WA XA Hen) as [NA PA]. destruct (In_full_nth _ _ _ Wb Xb Heb) as [Nb Pb].
  assert (Hnd : NoDup (absV V)) by (apply (Refine2Sim.V'_nodup c V ND HV HNE Hb1)).
  assert (Hne' : absV V <> nil) by (apply (Refine2Sim.V'_ne c V ND HV HNE Hb1)).
  destruct (S7.k_state_machine_safety (absV V) Hnd Hne' sB (n2 x) (n2 b) (N.to_nat (eidx en) - 1)%nat HRB) as [E _].
  { assert (N.to_nat (eidx en) <= N.to_nat (commit xA))%nat by lia. assert (1 <= N.to_nat (eidx en))%nat by lia. lia. }
  { rewrite (Rn_commit _ _ _ _ _ Rb).
    assert (N.to_nat (eidx en) <= N.to_nat (commit xb))%nat by lia. assert (1 <= N.to_nat (eidx en))%nat by lia. lia. }
  rewrite Eb in E.
  assert (E2 : nth_error (M.log (M.nodes sB (n2 x))) (N.to_nat (eidx en) - 1) =
               nth_error (absL (pk c) fA) (N.to_nat (eidx en) - 1)).
  { apply (ML.firstn_eq_nth _ _ _ _ Fx).
    assert (N.to_nat (eidx en) <= N.to_nat (commit xA))%nat by lia. assert (1 <= N.to_nat (eidx en))%nat by lia. lia. }
  rewrite E2 in E. apply nth_abs_inj in E. rewrite NA in E. rewrite Hi in Nb. rewrite Nb in E. congruence.
Qed.

Lemma core2_node evs1 evs2 g1 g2 a xa :
  core_frag2 c V (evs1 ++ evs2) -> run_trace c ginit evs1 = Some g1 -> run_trace c g1 evs2 = Some g2 ->
  aget a (nodes g1) = Some xa -> a < RO_BASE -> ProofsApplyLog.log_wf (log xa) /\ Hn c xa.
Proof.
  intros F R1 R2 Ha Hlt.
  destruct (core_frag_facts c V _ F) as (ND & HV & HNE & Hb1 & Hd & Hf & _).
  destruct (run_GI2 c V evs1 evs2 g1 g2 F R1 R2) as (gh1 & st1 & s1 & _ & _ & _ & G1 & _ & _).
  destruct (GI_full c V ND HV HNE Hb1 g1 gh1 st1 s1 G1 a xa Ha Hlt) as (fa & Ea & Wa & Xa).
  split; [apply (suffix_log_wf _ fa Wa Xa)|].
  apply (R_hyg c V g1 gh1 st1 s1 (GI_R c V g1 gh1 st1 s1 G1) a xa Ha Hlt).
Qed.

End Core2.

(* ------------------------------------------------------------------------------------------ *)
(* C02_success_is_committed_core2                                                             *)

Theorem success_is_committed_core2_partial :
  forall (c : conf) (V : list nid) (evs1 : list event) (ev : event) (evs2 : list event)
         (g1 g2 g3 : gstate) (x : nid) (s : S) (id r : N),
  dyn c = false -> file_dump c = false -> 1 < batch c ->
  valid V (evs1 ++ ev :: evs2) = true -> run_ok2 c ginit (evs1 ++ ev :: evs2) = true ->
  run_trace c ginit evs1 = Some g1 -> gstep c g1 ev = Some (g2, Some (x, s)) -> x < RO_BASE ->
  In (id, r, SUCCESS) (fired (outs s)) ->
  run_trace c g2 evs2 = Some g3 ->
  exists en x0 now rnd bud ord sl,
    ev = ETick x now rnd bud ord sl /\ aget x (nodes g1) = Some x0 /\
    aget x (nodes g2) = Some (nd s) /\
    In en (log (nd s)) /\ applied x0 < eidx en /\ eidx en <= commit (nd s) /\
    In (eterm en, id)
       (local_subs (subs_of (eidx en)
          (wait_commit (nd (tick_pre (mk_env c now rnd bud ord sl) (start_S (mk_env c now rnd bud ord sl) x0)))))) /\
    forall b xb eb, aget b (nodes g3) = Some xb -> b < RO_BASE -> In eb (log xb) -> eidx eb = eidx en ->
                    eidx en <= commit xb -> eb = en.
Proof.
  intros c V evs1 ev evs2 g1 g2 g3 x s id r Hd Hf Hb Hv Hok R1 ST Hx Hin R3.
  assert (F : core_frag2 c V (evs1 ++ ev :: evs2)) by (apply core_frag_intro; assumption).
  pose proof (success_local c evs1 g1 ev g2 (Some (x, s)) R1 ST) as SO.
  assert (Rrest : run_trace c g1 (ev :: evs2) = Some g3) by (cbn; now rewrite ST).
  destruct ev as [n now rnd bud ord sl|a b now rnd ord|a b|a b k|a b|n cm cb|n cm cb|n cm cb|n|n|n oth now rnd sv];
    cbn [step_outcomes_ok] in SO;
    try (exfalso; rewrite Forall_forall in SO; exact (ProofsCallbacksCore.not_final_success id r (SO _ Hin))).
  destruct SO as (x0 & Hx0 & SO). cbv zeta in SO.
  unfold gstep in ST. rewrite Hx0 in ST. injection ST as Hg2 Hn Hs. subst n.
  set (e := mk_env c now rnd bud ord sl) in *.
  assert (Hs' : s = on_tick e x0) by (symmetry; exact Hs). clear Hs.
  destruct SO as (F0 & F2 & Hfired & NF0 & NF2).
  set (s0 := tick_pre e (start_S e x0)) in *.
  assert (Hmid : ok s0 = true /\ In (id, r, SUCCESS) (fired_list (hist (nd s0)) (wait_commit (nd s0)) (applied_in_tick s0))).
  { rewrite Hfired in Hin. apply in_app_or in Hin. destruct Hin as [Hin|Hin].
    - exfalso. rewrite Forall_forall in NF0. exact (ProofsCallbacksCore.not_final_success id r (NF0 _ Hin)).
    - apply in_app_or in Hin. destruct Hin as [Hin|Hin].
      + destruct (ok s0); [auto|contradiction].
      + exfalso. rewrite Forall_forall in NF2. exact (ProofsCallbacksCore.not_final_success id r (NF2 _ Hin)). }
  destruct Hmid as [Hok0 Hmid].
  (* the node before the step *)
  destruct (core2_node c V evs1 _ g1 g3 x x0 F R1 Rrest Hx0 Hx) as [W0 H0].
  pose proof (grows2_tick_pre e x0 Hf) as (P0 & Cu0 & [a0 L0]). fold s0 in P0, Cu0, L0.
  pose proof (applied_tick_pre e x0 Hf) as A0. fold s0 in A0.
  pose proof (log_wf_tick_pre e x0 Hf W0) as W1. fold s0 in W1.
  destruct (tick_body_after_pre e x0 W1) as ((Pb & Cub & [ab Lb]) & Cb & Wb). fold s0 in Pb, Cub, Lb, Cb.
  set (sb := tick_body e (start_S e x0)) in *.
  (* the executed entries *)
  destruct (apply_consecutive e s0 W1) as (AC1 & (pa & pb & AC2) & AC3 & AC4 & _ & AC6 & _).
  change (applied_now s0) with (applied_in_tick s0) in *.
  destruct (apply_outcome_origin s0 id r SUCCESS AC3 Hmid) as (pre & en & post & t & Hsplit & Hsub & Hcase).
  destruct Hcase as [(_ & Ht & _)|(Hbad & _)]; [|discriminate]. subst t.
  assert (Hin_es : In en (applied_in_tick s0)) by (rewrite Hsplit; apply in_or_app; right; now left).
  assert (Hin_log : In en (log (nd s0))).
  { rewrite AC2. apply in_or_app. right. apply in_or_app. now left. }
  pose proof (consec_in _ _ _ AC1 Hin_es) as Hr.
  assert (Hlen : (0 < length (applied_in_tick s0))%nat) by (rewrite Hsplit, app_length; cbn; lia).
  assert (Hlo : applied x0 < eidx en) by lia.
  assert (Hic0 : eidx en <= commit (nd s0)) by lia.
  assert (Hin_b : In en (log (nd sb))) by (rewrite Lb; apply in_or_app; now left).
  (* the compaction step keeps it *)
  assert (Hfin : In en (log (nd s)) /\ commit (nd s) = commit (nd s0)).
  { rewrite Hs', on_tick_body, andthen_apply. fold sb.
    destruct (ok sb); [|split; [exact Hin_b|exact Cb]].
    split; [|rewrite (fr_try_compact commit) by frs; exact Cb].
    rewrite try_compact_log. destruct (pid (sr (nd sb)) =? 1) eqn:Ep; [|exact Hin_b].
    apply N.eqb_eq in Ep. apply (In_delete_to_kept _ _ _ Wb Hin_b).
    assert (Hp0 : pid (sr x0) = 1) by congruence.
    pose proof (H_cur _ _ H0 Hp0) as Hc. rewrite Cub, Cu0. lia. }
  destruct Hfin as [Hin_s Cs].
  assert (Hx2 : aget x (nodes g2) = Some (nd s)).
  { rewrite <- Hg2, nodes_finish, aget_aset, N.eqb_refl. now rewrite Hs'. }
  assert (RA : run_trace c ginit (evs1 ++ [ETick x now rnd bud ord sl]) = Some g2).
  { apply (ProofsCallbacksCore.run_trace_snoc c ginit evs1 g1 _ g2 (Some (x, on_tick e x0)) R1).
    unfold gstep. rewrite Hx0. rewrite <- Hg2. reflexivity. }
  assert (F' : core_frag2 c V ((evs1 ++ [ETick x now rnd bud ord sl]) ++ evs2)) by (rewrite <- app_assoc; exact F).
  exists en, x0, now, rnd, bud, ord, sl.
  split; [reflexivity|]. split; [exact Hx0|]. split; [exact Hx2|]. split; [exact Hin_s|].
  split; [exact Hlo|]. split; [rewrite Cs; exact Hic0|]. split; [exact Hsub|].
  assert (Hic : eidx en <= commit (nd s)) by (rewrite Cs; exact Hic0).
  apply (committed_everywhere2 c V _ evs2 g2 g3 x (nd s) en F' RA R3 Hx2 Hx Hin_s Hic).
Qed.

Definition C02_success_is_committed_core2_full : Prop :=
  forall (c : conf) (V : list nid) (evs1 : list event) (ev : event) (evs2 : list event)
         (g1 g2 g3 : gstate) (x : nid) (s : S) (id r : N),
  dyn c = false -> file_dump c = false -> 1 < batch c ->
  valid V (evs1 ++ ev :: evs2) = true -> run_ok2 c ginit (evs1 ++ ev :: evs2) = true ->
  NoDup (flat_map ev_ids (evs1 ++ ev :: evs2)) ->
  run_trace c ginit evs1 = Some g1 -> gstep c g1 ev = Some (g2, Some (x, s)) -> x < RO_BASE ->
  In (id, r, SUCCESS) (fired (outs s)) ->
  run_trace c g2 evs2 = Some g3 ->
  exists en cm,
    (In (ESubmit x cm id) evs1 \/ In (EAdmin x cm id) evs1 \/ In (ESetVer x cm id) evs1) /\
    cmd_eqb (ecmd en) cm = true /\ In en (log (nd s)) /\ eidx en <= commit (nd s) /\
    forall b xb eb, aget b (nodes g3) = Some xb -> b < RO_BASE -> In eb (log xb) -> eidx eb = eidx en ->
                    eidx en <= commit xb -> eb = en.

(* ------------------------------------------------------------------------------------------ *)
(* the hypotheses are met on the Tier C2 example run A (log compaction and snapshot install):
   callback 12 fires SUCCESS at node 1 in step 43, after the log of node 1 was cut at index 2 *)
From PSO Require Import Raft.Refine2Example.

Definition ex2_state (k : nat) : gstate :=
  match run_trace t2_conf ginit (firstn k t2_traceA) with Some g => g | None => ginit end.
Definition ex2_event (k : nat) : event := nth k t2_traceA (EKill 0).

Example success_is_committed2_example :
  t2_traceA = firstn 43 t2_traceA ++ ex2_event 43 :: skipn 44 t2_traceA /\
  dyn t2_conf = false /\ file_dump t2_conf = false /\ 1 < batch t2_conf /\
  valid t2_V t2_traceA = true /\ run_ok2 t2_conf ginit t2_traceA = true /\
  run_trace t2_conf ginit (firstn 43 t2_traceA) = Some (ex2_state 43) /\
  exists g2 s, gstep t2_conf (ex2_state 43) (ex2_event 43) = Some (g2, Some (1, s)) /\
               In (12, 3, SUCCESS) (fired (outs s)) /\
               map eidx (log (nd s)) = [2; 3; 4] /\ commit (nd s) = 4 /\
               exists g3, run_trace t2_conf g2 (skipn 44 t2_traceA) = Some g3.
Proof.
  split; [vm_compute; reflexivity|]. split; [reflexivity|]. split; [reflexivity|]. split; [vm_compute; reflexivity|].
  destruct t2A_in_fragment as (_ & _ & _ & Hv & Hok). split; [exact Hv|]. split; [exact Hok|].
  split; [vm_compute; reflexivity|].
  do 2 eexists. split; [vm_compute; reflexivity|]. split; [vm_compute; auto|].
  split; [vm_compute; reflexivity|]. split; [vm_compute; reflexivity|]. eexists. vm_compute. reflexivity.
Qed.
