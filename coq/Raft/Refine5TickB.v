(* Tier C5, part 5: the phases of _onTick with compacted logs, second half: applying entries,
   heartbeats, the command queue, the two phases of log compaction, the whole tick. *)
From Coq Require Import ZArith NArith List Bool Lia ZifyBool Arith PeanoNat.
From RecordUpdate Require Import RecordSet.
From PSO Require Import Raft.Types Raft.Node Raft.Net Raft.ProofsCommitBase.
From PSO Require Import Raft.ProofsElectionBase Raft.RefineAbs Raft.RefineK Raft.RefineSpecA Raft.RefineTickA
  Raft.RefineTickB.
From PSO Require Import Raft.Refine5Abs Raft.Refine5SpecA Raft.Refine5Sim Raft.Refine5TickA.
From PSO Require Raft.ProofsElectionFrame2.
From PSO Require Abstract.Model Abstract.Lib Abstract.Kstep.
Import ListNotations.
Import RecordSetNotations.
Open Scope N_scope.
#[local] Arguments firstn : simpl nomatch.
#[local] Arguments skipn : simpl nomatch.

Lemma fvA_sr x y : fvA x = fvA y -> sr x = sr y.
Proof. unfold fvA. intros H. congruence. Qed.

Lemma first_idx_delete_to l k :
  first_idx (delete_to l k) = first_idx l \/ (first_idx l <= k /\ first_idx (delete_to l k) = 0) \/
  (first_idx l <= k /\ exists e, nth_error l (n2 (k - first_idx l)) = Some e /\ first_idx (delete_to l k) = eidx e).
Proof.
  unfold delete_to. destruct (k <? first_idx l) eqn:E; [left; reflexivity|]. apply N.ltb_ge in E.
  right. destruct (nth_error l (n2 (k - first_idx l))) as [e|] eqn:En.
  - right. split; auto. exists e. split; auto. rewrite (skipn_nth_cons _ _ _ En). reflexivity.
  - left. split; auto. apply nth_error_None in En. rewrite skipn_all2 by exact En. reflexivity.
Qed.

Section Tick.
Variable c : conf.
Variable V : list nid.
Hypothesis NDV : NoDup V.
Hypothesis VRO : forall v, In v V -> v < RO_BASE.
Hypothesis VNE : V <> [].
Hypothesis Hb1 : 1 < batch c.
Hypothesis Hdyn : dyn c = false.
Variable e : env.
Hypothesis Hc : cf e = c.
Set Default Proof Using "All".

Notation V' := (absV V).
Notation Rn := (Rn c V).
Notation Rmsg := (Rmsg c).
Notation Ro := (Ro c).
Notation Hn := (Hn c).
Notation ksn := (ksn V).
Notation LS := (LS c V).
Notation simf := (simf c V).
Notation pk := (pk c).
Notation okout := (okout c).
Notation LS_ksn := (LS_ksn c V NDV VRO VNE Hb1).
Notation LS_full := (LS_full c V NDV VRO VNE Hb1).
Notation LS_j := (LS_j c V NDV VRO VNE Hb1).
Notation LS_stutter := (LS_stutter c V NDV VRO VNE Hb1).
Notation LS_same := (LS_same c V NDV VRO VNE Hb1).
Notation Rn_intro := (Rn_intro c V NDV VRO VNE Hb1).
Notation Rn_rv := (Rn_rv c V NDV VRO VNE Hb1).
Notation Hn_hv := (Hn_hv c V NDV VRO VNE Hb1).
Notation Rn_commit_le := (Rn_commit_le c V NDV VRO VNE Hb1).
Notation valid_at := (valid_at c V NDV VRO VNE Hb1).
Notation held_rv := (held_rv c V NDV VRO VNE Hb1).
Notation grow_Ro := (grow_Ro c V NDV VRO VNE Hb1 Hdyn e Hc).
Notation nosend_okout := (nosend_okout c V NDV VRO VNE Hb1 Hdyn e Hc).
Notation LS_quiet := (LS_quiet c V NDV VRO VNE Hb1 Hdyn e Hc).
Notation sim_send_ae := (sim_send_ae c V NDV VRO VNE Hb1 Hdyn e Hc).

(* a step of L1 bookkeeping that L0 does not see: same abstract fields, new log / serializer *)
Lemma LS_local n s (S S' : Node.S) :
  LS n s S ->
  role (nd S') = role (nd S) -> term (nd S') = term (nd S) -> voted (nd S') = voted (nd S) ->
  votes (nd S') = votes (nd S) -> commit (nd S') = commit (nd S) -> match_idx (nd S') = match_idx (nd S) ->
  self (nd S') = self (nd S) -> others (nd S') = others (nd S) -> applied (nd S') = applied (nd S) ->
  (forall full, wf1 full -> M.log (M.nodes s (n2 n)) = absL pk full ->
                suffix_of (log (nd S)) full -> suffix_of (log (nd S')) full) ->
  (forall bl, stored (sr (nd S')) = Some bl -> stored (sr (nd S)) = Some bl \/ held c (nd S') s bl) ->
  tr_ok (nd S) (nd S') ->
  incoming (sr (nd S')) = incoming (sr (nd S)) ->
  Hn (nd S') -> grow (okout n s) S S' -> LS n s S'.
Proof.
  intros L E1 E2 E3 E4 E5 E6 E7 E8 Ea Hlog Hst Htr Hin HH G.
  destruct (LS_full _ _ _ L) as (full & EL & W & Sx).
  pose proof (LS_n _ _ _ _ _ L) as [A1 A2 A3 A4 A5 A6 A7 A8 A9 A10 A11 A12].
  apply (LS_ksn n s s S S').
  - constructor.
  - exact L.
  - constructor; rewrite ?E1, ?E2, ?E3, ?E4, ?E5, ?E6, ?Ea; auto.
    + exists full. split; auto.
    + intros bl Hb. destruct (Hst bl Hb) as [H|H]; auto.
      eapply held_rv; [exact E2|]. auto.
    + intros d bl off Hb. eapply held_rv; [exact E2|].
      destruct (Htr d bl off Hb) as [H|(d' & o' & H)]; eauto.
    + intros ps bl o l Hi Hb. rewrite Hin in Hi. eauto.
  - exact HH.
  - rewrite E7. apply (LS_self _ _ _ _ _ L).
  - rewrite E8. apply (LS_others _ _ _ _ _ L).
  - apply (grow_Ro (okout n s)); auto.
Qed.

(* a step that keeps the abstract view, re-establishing hygiene by hand *)
Lemma LS_keep n s (S S' : Node.S) :
  LS n s S -> rv (nd S') = rv (nd S) -> applied (nd S') = applied (nd S) ->
  trans (sr (nd S')) = trans (sr (nd S)) -> Hn (nd S') ->
  self (nd S') = self (nd S) -> others (nd S') = others (nd S) -> grow (okout n s) S S' -> LS n s S'.
Proof.
  intros L Hrv Hap Ht HH Hs Ho G.
  apply (LS_ksn n s s S S').
  - constructor.
  - exact L.
  - eapply Rn_rv; [exact Hrv|exact Hap|apply tr_ok_same; exact Ht|apply (LS_n _ _ _ _ _ L)].
  - exact HH.
  - rewrite Hs. apply (LS_self _ _ _ _ _ L).
  - rewrite Ho. apply (LS_others _ _ _ _ _ L).
  - apply (grow_Ro (okout n s)); auto.
Qed.

Lemma LS_app n s (S S' : Node.S) :
  LS n s S -> app_rel S S' -> applied (nd S') <= commit (nd S) -> LS n s S'.
Proof.
  intros L (A & B & G) Hac. pose proof (fvA_sr _ _ A) as Esr.
  destruct (fvA_eq _ _ A) as (E1 & E2 & E3 & E4 & E5 & E6 & E7 & E8).
  destruct (RefineSim.rv_eq _ _ E3) as (Er & Et & Ev & Evs & _ & Ec & Em).
  apply (LS_ksn n s s S S').
  - constructor.
  - exact L.
  - eapply (Rn_app c V NDV VRO VNE Hb1); [apply (LS_reach _ _ _ _ _ L)| |exact Hac| |apply (LS_n _ _ _ _ _ L)].
    + unfold rv. rewrite Esr. congruence.
    + apply tr_ok_same. rewrite Esr. reflexivity.
  - destruct (LS_h _ _ _ _ _ L) as [B1 B2 B3 B4 B6 B7 B8 B9].
    constructor; rewrite ?Esr, ?E5, ?E6, ?E7, ?E8, ?Ec; auto; lia.
  - rewrite E1. apply (LS_self _ _ _ _ _ L).
  - rewrite E2. apply (LS_others _ _ _ _ _ L).
  - apply (grow_Ro (okout n s)); auto. eapply grow_mono; [|exact G]. intros o. apply nosend_okout.
Qed.

(* ---- tick_send ---- *)
Lemma sim_tick_send n need : simf n (tick_send e need).
Proof.
  intros S s L. unfold tick_send.
  destruct (role (nd S) =? LEADER) eqn:Er; [|exists s; split; [constructor|exact L]].
  apply N.eqb_eq in Er.
  destruct (_ || need); [|exists s; split; [constructor|exact L]].
  apply (sim_send_ae n S s L Er).
Qed.

(* ---- one queued command ---- *)
Lemma sim_check_one n cm cbk S s :
  LS n s S -> small_cmd c cm -> exists s', ksn (n2 n) s s' /\ LS n s' (check_one e cm cbk S).
Proof.
  intros L Hsm. unfold check_one.
  destruct (role (nd S) =? LEADER) eqn:Er.
  - (* leader: append *)
    apply N.eqb_eq in Er. rewrite Hc, Hdyn.
    set (en := mkEntry cm (last_idx (log (nd S)) + 1) (term (nd S))).
    set (s1 := upd (log_add en) S).
    pose proof (LS_n _ _ _ _ _ L) as RN. destruct (LS_full _ _ _ L) as (full & EL & W & Sx).
    pose proof (LS_j _ _ _ L) as Hj. pose proof (LS_h _ _ _ _ _ L) as HH.
    assert (Hl : M.rl (M.nodes s (n2 n)) = M.Leader) by (rewrite (Rn_role _ _ _ _ _ RN), Er; reflexivity).
    destruct (t_client_ok V' (n2 n) (enc pk cm) s Hj Hl) as [K E].
    set (s' := M.do_client (n2 n) (enc pk cm) s) in *.
    assert (K1 : ksn (n2 n) s s') by (apply ksn_one; auto).
    assert (L1 : LS n s' s1).
    { apply (LS_ksn n s s' S s1); auto.
      - assert (HA : S7.committed_upto s' (n2 (term (nd S))) (M.log (M.nodes s' (n2 n))) (n2 (applied (nd S)))).
        { eapply (applied_app c V NDV VRO VNE Hb1 n (nd S) (nd S) s s');
            [apply (LS_reach _ _ _ _ _ L)|eapply ksn_kstar; eauto|exact RN|apply N.le_refl|reflexivity|].
          unfold s', M.do_client; cbn [M.nodes]; rewrite upd_eq; cbn [M.log]; reflexivity. }
        unfold s1. rewrite nd_upd.
        apply (Rn_intro n (nd S) _ s s'); auto;
          try (unfold s', M.do_client; cbn [M.nodes M.grants]; rewrite ?upd_eq;
               cbn [M.term M.voted M.rl M.log M.commit M.votesFrom M.matchIdx]).
        + apply (LS_reach _ _ _ _ _ L).
        + eapply ksn_kstar; eauto.
        + apply tr_ok_same. reflexivity.
        + cbn. lia.
        + apply (Rn_term _ _ _ _ _ RN).
        + apply (Rn_voted _ _ _ _ _ RN).
        + apply (Rn_role _ _ _ _ _ RN).
        + exists (full ++ [en]). split; [|cbn; apply suffix_app; exact Sx].
          rewrite absL_app, EL. f_equal. unfold absL, absE, en. cbn.
          rewrite (Rn_term _ _ _ _ _ RN), map_length, (suffix_last_idx _ _ Sx), (wf1_last_idx _ W).
          f_equal. f_equal. lia.
        + apply (Rn_commit _ _ _ _ _ RN).
        + apply (Rn_votes _ _ _ _ _ RN).
        + apply (Rn_match _ _ _ _ _ RN).
        + apply (Rn_self _ _ _ _ _ RN).
      - destruct HH as [B1 B2 B3 B4 B6 B7 B8 B9]. constructor; unfold s1; rewrite ?nd_upd; cbn; auto.
        + apply Forall_app. split; auto.
        + pose proof (suffix_ne _ _ Sx) as Hne0. destruct (log (nd S)); [contradiction|exact B6].
      - apply (LS_self _ _ _ _ _ L).
      - apply (LS_others _ _ _ _ _ L).
      - exists []. rewrite app_nil_r. split; auto. apply Ro_nil. }
    assert (Hr1 : role (nd s1) = LEADER) by exact Er.
    clearbody s1 s'.
    assert (L2 : exists s2, LS n s' s2 /\ role (nd s2) = LEADER /\
              (match cbk with
               | CbRemote rn rid => send rn (ApplyResp rid true (last_idx (log (nd S)) + 1) (term (nd S))) s1
               | CbLocal _ =>
                   upd (fun n0 => n0 <| wait_commit :=
                      aset (last_idx (log (nd S)) + 1)
                        ((match aget (last_idx (log (nd S)) + 1) (wait_commit n0) with Some l => l | None => [] end)
                           ++ [(term (nd S), cbk)]) (wait_commit n0) |>) s1
               | CbNone => s1
               end) = s2).
    { eexists. split; [|split; [|reflexivity]].
      - destruct cbk as [|id|rn rid].
        + exact L1.
        + apply (LS_quiet n s' s1); [exact L1|reflexivity|apply grow_upd].
        + apply (LS_stutter n s' s1); [exact L1|rewrite nd_send; reflexivity|].
          apply (grow_Ro (okout n s')); [auto|]. apply grow_send. exact I.
      - destruct cbk; rewrite ?nd_send; auto. }
    destruct L2 as (s2 & L2 & Hr2 & <-).
    destruct (use_batch c).
    + exists s'. auto.
    + match goal with |- context [send_ae e ?X] => destruct (sim_send_ae n X s' L2 Hr2) as (s3 & K3 & L3) end.
      exists s3. split; auto. eapply ksn_trans; eauto.
  - (* not the leader: forward or fail *)
    exists s. split; [constructor|].
    destruct (leader (nd S)) as [l|].
    + destruct cbk as [|id|rn rid].
      * apply (LS_stutter n s S); [exact L|rewrite nd_send; reflexivity|].
        apply (grow_Ro (okout n s)); [auto|]. apply grow_send. exact Hsm.
      * apply (LS_stutter n s S); [exact L|rewrite nd_send; reflexivity|].
        apply (grow_Ro (okout n s)); [auto|]. eapply grow_trans; [apply grow_upd|]. apply grow_send. exact Hsm.
      * apply (LS_stutter n s S); [exact L|rewrite nd_send; reflexivity|].
        apply (grow_Ro (okout n s)); [auto|]. apply grow_send. exact I.
    + apply (LS_stutter n s S); [exact L|rewrite nd_call_err; reflexivity|].
      apply (grow_Ro (okout n s)); [auto|].
      destruct cbk as [|id|rn rid]; cbn [call_err].
      * apply grow_refl.
      * apply grow_emit. exact I.
      * apply grow_send. exact I.
Qed.

Lemma sim_check_loop n fuel start : simf n (check_loop fuel e start).
Proof.
  induction fuel as [|f IH]; intros S s L; cbn [check_loop]; [exists s; split; [constructor|exact L]|].
  destruct (_ <? _)%Z; [|exists s; split; [constructor|exact L]].
  assert (Hgo : exists s', ksn (n2 n) s s' /\
            LS n s' (match queue (nd S) with
                     | [] => S
                     | (cm, cbk) :: rest =>
                         let s0 := upd (fun n0 => n0 <| queue := rest |>) S in
                         let s0 := check_one e cm cbk s0 in
                         if ok s0 then check_loop f e start s0 else s0
                     end)).
  { destruct (queue (nd S)) as [|[cm cbk] rest] eqn:Eq; [exists s; split; [constructor|exact L]|].
    cbv zeta.
    pose proof (LS_h _ _ _ _ _ L) as HH.
    assert (Hq : Forall (fun q => small_cmd c (fst q)) ((cm, cbk) :: rest)) by (rewrite <- Eq; apply (H_queue _ _ HH)).
    pose proof (Forall_inv Hq) as Hcm. pose proof (Forall_inv_tail Hq) as Hrest. cbn [fst] in Hcm.
    set (s0 := upd (fun n0 => n0 <| queue := rest |>) S).
    assert (L0 : LS n s s0).
    { apply (LS_keep n s S s0); auto; try reflexivity.
      - destruct HH as [B1 B2 B3 B4 B6 B7 B8 B9]. constructor; unfold s0; rewrite ?nd_upd; cbn; auto.
      - apply grow_upd. }
    destruct (sim_check_one n cm cbk s0 s L0 Hcm) as (s1 & K1 & L1).
    destruct (ok (check_one e cm cbk s0)); [|exists s1; auto].
    destruct (IH _ _ L1) as (s2 & K2 & L2). exists s2. split; auto. eapply ksn_trans; eauto. }
  destruct (leader (nd S)); [exact Hgo|].
  destruct (wait_leader (cf e)); [exists s; split; [constructor|exact L]|exact Hgo].
Qed.

Lemma sim_check_commands n : simf n (check_commands e).
Proof. intros S s L. unfold check_commands. apply sim_check_loop. exact L. Qed.

(* ---- log compaction: serialize at [applied], one tick later cut the log ---- *)
Lemma sim_try_compact n : simf n (try_compact e).
Proof.
  intros S s L. exists s. split; [constructor|].
  destruct (LS_full _ _ _ L) as (full & EL & W & Sx).
  pose proof (LS_h _ _ _ _ _ L) as HH. pose proof (LS_n _ _ _ _ _ L) as RN.
  pose proof (Rn_commit_le _ _ _ _ (LS_reach _ _ _ _ _ L) RN EL) as Hcl.
  destruct (suffix_base _ _ W Sx) as (b & Eb & Hb & Efi).
  unfold try_compact. cbv zeta.
  destruct (pid (sr (nd S)) =? 0) eqn:Ep.
  - (* idle: maybe take a snapshot *)
    apply N.eqb_eq in Ep. rewrite Ep. cbn [N.eqb negb].
    destruct (_ && _); [exact L|].
    set (S1 := upd (fun n0 => n0 <| force_compact := false |>) S).
    assert (L1 : LS n s S1) by (apply (LS_quiet n s S); [exact L|reflexivity|apply grow_upd]).
    destruct (get_entries (log (nd S)) (Some (applied (nd S) - 1)) (Some 2) None) as [|e0 [|e1 r]] eqn:Ege.
    + apply (LS_quiet n s S1); [exact L1|reflexivity|apply grow_upd].
    + apply (LS_quiet n s S1); [exact L1|reflexivity|apply grow_upd].
    + destruct (opt_eqb _ _); [apply (LS_quiet n s S1); [exact L1|reflexivity|apply grow_upd]|].
      (* the snapshot: entries applied-1 and applied of the full log *)
      assert (Hge : first_idx (log (nd S)) <= applied (nd S) - 1).
      { destruct (N.le_gt_cases (first_idx (log (nd S))) (applied (nd S) - 1)); auto.
        rewrite (suffix_lt (log (nd S)) (applied (nd S) - 1)) in Ege by lia. discriminate. }
      pose proof (suffix_first_pos _ _ W Sx) as Hfp.
      rewrite (suffix_ge _ _ W Sx) in Ege by exact Hge. rewrite ge_count in Ege by (auto; lia).
      change (n2 2) with 2%nat in Ege.
      set (q := (n2 (applied (nd S) - 1) - 1)%nat) in *.
      assert (N0 : nth_error full q = Some e0 /\ nth_error full (Sn q) = Some e1).
      { assert (H0 : nth_error (firstn 2 (skipn q full)) 0 = Some e0) by (rewrite Ege; reflexivity).
        assert (H1 : nth_error (firstn 2 (skipn q full)) 1 = Some e1) by (rewrite Ege; reflexivity).
        rewrite ML.nth_error_firstn_lt, Refine5Abs.nth_error_skipn in H0, H1 by lia.
        replace (q + 0)%nat with q in H0 by lia. replace (q + 1)%nat with (Sn q) in H1 by lia. auto. }
      destruct N0 as [N0 N1].
      assert (Ei1 : eidx e1 = applied (nd S)).
      { destruct W as [_ Hw]. rewrite (Hw _ _ N1). unfold q. lia. }
      assert (Ei0 : eidx e0 = applied (nd S) - 1).
      { destruct W as [_ Hw]. rewrite (Hw _ _ N0). unfold q. lia. }
      assert (Hin0 : In e0 (log (nd S)) /\ In e1 (log (nd S))).
      { assert (Hi : forall en, In en [e0; e1] -> In en (log (nd S))).
        { intros en Hen. assert (Hen' : In en (e0 :: e1 :: r)) by (destruct Hen as [<-|[<-|[]]]; cbn; auto).
          rewrite <- Ege in Hen'. apply In_firstn_in in Hen'.
          rewrite Eb. destruct (suffix_base _ _ W Sx) as (b' & Eb' & _ & Efi').
          assert (b' = b) by lia. subst b'.
          assert (Hqb : (b <= q)%nat) by (unfold q; lia).
          replace q with (b + (q - b))%nat in Hen' by lia. rewrite <- skipn_skipn' in Hen'.
          eapply In_skipn_in; eauto. }
        split; apply Hi; cbn; auto. }
      pose proof (H_small _ _ HH) as Hsm. rewrite Forall_forall in Hsm.
      assert (Hv : forall h v cl ln, snap_valid c s (n2 (term (nd S))) (mkSnap h v e1 e0 cl ln)).
      { apply (valid_at s (n2 n) (n2 (term (nd S))) (n2 (applied (nd S))) e0 e1).
        - apply (Rn_applied _ _ _ _ _ RN).
        - lia.
        - rewrite EL, absL_nth. replace (n2 (applied (nd S)) - 1)%nat with (Sn q) by (unfold q; lia).
          rewrite N1. reflexivity.
        - rewrite EL, absL_nth. replace (n2 (applied (nd S)) - 2)%nat with q by (unfold q; lia).
          rewrite N0. reflexivity.
        - rewrite Ei1. reflexivity.
        - apply Hsm. tauto.
        - apply Hsm. tauto. }
      match goal with |- LS n s ?X => set (S2 := X) end.
      apply (LS_local n s S1 S2); try reflexivity; auto.
      * intros bl Hb0. right. unfold S2 in Hb0. rewrite nd_upd in Hb0. cbn in Hb0. injection Hb0 as <-.
        apply Hv.
      * apply tr_ok_same. reflexivity.
      * destruct HH as [B1 B2 B3 B4 B6 B7 B8 B9]. constructor; unfold S2; rewrite ?nd_upd; cbn; auto.
        -- intros _. lia.
        -- intros bl Hb0. injection Hb0 as <-. cbn. split; apply Hsm; tauto.
      * apply grow_upd.
  - (* a snapshot was taken in the previous tick: cut the log *)
    apply N.eqb_neq in Ep. cbn [negb].
    set (S1 := upd (fun n0 => n0 <| sr := (sr n0) <| pid := 0 |> <| trans := [] |> |>) S).
    assert (L1 : LS n s S1).
    { apply (LS_local n s S S1); try reflexivity; auto.
      - intros d bl off Hin. destruct Hin.
      - destruct HH as [B1 B2 B3 B4 B6 B7 B8 B9]. constructor; unfold S1; rewrite ?nd_upd; cbn; auto.
        intros Hx. discriminate.
      - apply grow_upd. }
    destruct (pid (sr (nd S)) =? 1) eqn:E1; [|exact L1].
    apply N.eqb_eq in E1.
    pose proof (H_cur _ _ HH E1) as Hcur. pose proof (H_fi _ _ HH) as Hfi0.
    assert (Hal : (n2 (applied (nd S)) <= length full)%nat).
    { destruct (Rn_applied _ _ _ _ _ RN) as [Hal _]. rewrite EL, absL_length in Hal. exact Hal. }
    set (id := cur_id (sr (nd S))) in *.
    match goal with |- LS n s ?X => set (S2 := X) end.
    assert (Elog : log (nd S2) = delete_to (log (nd S)) id) by reflexivity.
    apply (LS_local n s S1 S2); try reflexivity; auto.
    + intros full0 W0 EL0 Sx0. rewrite Elog. unfold delete_to.
      destruct (id <? first_idx (log (nd S))) eqn:E; [exact Sx0|]. apply N.ltb_ge in E.
      assert (full0 = full). { rewrite EL in EL0. apply absL_inj in EL0. auto. }
      subst full0. exists (b + n2 (id - first_idx (log (nd S))))%nat. split.
      * rewrite <- skipn_skipn', <- Eb. reflexivity.
      * lia.
    + apply tr_ok_same. reflexivity.
    + destruct HH as [B1 B2 B3 B4 B6 B7 B8 B9]. constructor; unfold S2; rewrite ?nd_upd; cbn; auto.
      * unfold delete_to. destruct (_ <? _); auto. apply Forall_skipn. exact B1.
      * destruct (first_idx_delete_to (log (nd S)) id) as [H|[[_ H]|(H1 & en & H2 & H3)]].
        -- rewrite H. exact B6.
        -- rewrite H. lia.
        -- rewrite H3. rewrite Efi in H1, H2. rewrite Eb in H2. rewrite Refine5Abs.nth_error_skipn in H2.
           destruct W as [_ Hw]. rewrite (Hw _ _ H2). lia.
    + apply grow_upd.
Qed.

(* ---- the whole tick ---- *)
Lemma sim_tick_tail n :
  simf n (fun s => let (s, need) := apply_entries e s in
                   if ok s then (tick_send e need ;; tick_ready ;; check_commands e ;; try_compact e) s else s).
Proof.
  intros S s L.
  pose proof (apply_entries_spec e S (H_rinv _ _ (LS_h _ _ _ _ _ L))) as A.
  assert (Bd : applied (nd (fst (apply_entries e S))) <= commit (nd S) \/ fst (apply_entries e S) = S).
  { pose proof (apply_entries_bound e S) as B. unfold apply_entries in *.
    destruct (applied (nd S) <? commit (nd S)) eqn:E; [left|right; reflexivity]. apply B. lia. }
  destruct (apply_entries e S) as [S1 need]. cbn [fst] in A, Bd.
  assert (L1 : LS n s S1) by (destruct Bd as [Bd| ->]; [eapply LS_app; eauto|exact L]).
  destruct (ok S1); [|exists s; split; [constructor|exact L1]].
  assert (T : simf n (tick_send e need ;; tick_ready ;; check_commands e ;; try_compact e)).
  { apply simf_andthen; auto; [apply sim_tick_send|].
    apply simf_andthen; auto; [apply (sim_tick_ready c V NDV VRO VNE Hb1 Hdyn e Hc)|].
    apply simf_andthen; auto; [apply sim_check_commands|].
    apply sim_try_compact. }
  exact (T S1 s L1).
Qed.

Lemma sim_on_tick n x s :
  ProofsElectionFrame2.tickp e x ->
  LS n s (start_S e x) -> exists s', ksn (n2 n) s s' /\ LS n s' (on_tick e x).
Proof.
  intros Tp L0. unfold on_tick.
  pose proof (sim_tick_load c V NDV VRO VNE Hb1 Hdyn e Hc n (start_S e x) s Tp L0) as L.
  rewrite andthen_eq. destruct (ok (tick_load e (start_S e x))); [|exists s; split; [constructor|exact L]].
  assert (T : simf n (tick_timer e ;; tick_election e ;; tick_leader e ;;
     (fun s => let (s, need) := apply_entries e s in
               if ok s then (tick_send e need ;; tick_ready ;; check_commands e ;; try_compact e) s else s))).
  { apply simf_andthen; auto; [apply (sim_tick_timer c V NDV VRO VNE Hb1 Hdyn e Hc)|].
    apply simf_andthen; auto; [apply (sim_tick_election c V NDV VRO VNE Hb1 Hdyn e Hc)|].
    apply simf_andthen; auto; [apply (sim_tick_leader c V NDV VRO VNE Hb1 Hdyn e Hc)|].
    apply sim_tick_tail. }
  exact (T _ s L).
Qed.

End Tick.
