(* Tier CM2, part 10 (merge of RefineMMain.v and Refine2Main.v): the refinement theorem for runs WITH
   membership changes AND log compaction / snapshot install.  Every L1 step of the fragment is simulated
   by finitely many [kstep]s of AbstractM preserving the relation [R] of RefineM2Abs and the ghost flags. *)
From Coq Require Import ZArith NArith List Bool Lia ZifyBool Arith PeanoNat.
From RecordUpdate Require Import RecordSet.
From PSO Require Import Raft.Types Raft.Node Raft.Net Raft.Obs Raft.ProofsCommitBase Raft.ProofsCommit.
From PSO Require Import Raft.ProofsElectionBase Raft.ProofsElectionFrame Raft.ProofsElectionStep
  Raft.ProofsElectionGhost.
From PSO Require Import Raft.ProofsMembership Raft.ProofsMembershipInv.
From PSO Require Import Raft.RefineMAbs Raft.RefineMEff Raft.RefineMCfg Raft.RefineMK Raft.RefineMSpecA
  Raft.RefineMTickA Raft.RefineMGlobal Raft.RefineMMain.
From PSO Require Import Raft.RefineM2Abs Raft.RefineM2SpecA Raft.RefineM2Sim
  Raft.RefineM2MsgA Raft.RefineM2Global Raft.RefineM2RO Raft.RefineM2Ghost.
From PSO Require AbstractM.Model AbstractM.Lib AbstractM.Kstep AbstractM.Cfg AbstractM.SafetyAll.
Import ListNotations.
Import RecordSetNotations.
Open Scope N_scope.
#[local] Arguments firstn : simpl nomatch.
#[local] Arguments skipn : simpl nomatch.

(* ------------------------------------------------------------------------------------------ *)
(* the fragment (validM, ev_okM, valid_fromM, join_ok, sortedb are those of RefineMMain.v)    *)

(* a submitted command is smaller than a batch; a membership command names a voter id, is "add" (1) or
   "rem" (2), and its size fields are the function [mf] of its content *)
Definition okc2 (c : conf) (mf : N -> N -> N * N) (cm : cmd) : bool :=
  (csz cm <? batch c) &&
  (negb (ck cm =? 2) ||
   ((cb cm <? RO_BASE) && ((ca cm =? 1) || (ca cm =? 2)) &&
    (fst (mf (ca cm) (cb cm)) =? csz cm) && (snd (mf (ca cm) (cb cm)) =? cpk cm))).

Definition small_evM2 (c : conf) (mf : N -> N -> N * N) (ev : event) : bool :=
  match ev with
  | ESubmit _ cm _ | EAdmin _ cm _ | ESetVer _ cm _ => okc2 c mf cm
  | _ => true
  end.

(* (as Refine2MsgC.ver_ok) a complete dump that is ahead of the node is never refused for its version *)
Definition ver_ok (e : env) (a : nid) (m : msg) (x : node) : Prop :=
  match m with
  | AESnap t cm p =>
      forall s1, fst (set_transmission p (ae_pre e a t cm (start_S e x))) = s1 ->
        snd (set_transmission p (ae_pre e a t cm (start_S e x))) = true ->
        forall sn, stored (sr (nd s1)) = Some (Good sn) -> s_ver sn <= self_ver (nd s1)
  | _ => True
  end.

(* Tier C2's condition: when the last piece of a snapshot is delivered to a voter, the assembled dump is
   not newer than the receiver's code version *)
Definition ver_okb (c : conf) (g : gstate) (ev : event) : bool :=
  match ev with
  | EDeliver a b now rnd ord =>
      match aget b (nodes g), chan_get a b g with
      | Some x, AESnap t cm p :: _ =>
          (RO_BASE <=? b) ||
          (let e := mk_env c now rnd DEFAULT_BUDGET ord 0 in
           let r := set_transmission p (ae_pre e a t cm (start_S e x)) in
           negb (snd r) ||
           match stored (sr (nd (fst r))) with
           | Some (Good sn) => s_ver sn <=? self_ver (nd (fst r))
           | _ => true
           end)
      | _, _ => true
      end
  | _ => true
  end.

(* ---- the ghost flag of a voter: "member of the configuration defined by its own full log up to its
   applied index"; [gm] maps voter ids to flags ---- *)
Definition flag_upd (V : list nid) (g : gstate) (gm : list (nid * bool)) (ev : event) (r : option (nid * S))
  : list (nid * bool) :=
  match ev, r with
  | ERestart n _ _ _ _, _ => aset n (smem n V) gm
  | ETick n _ _ _ _ _, Some (_, S1) =>
      match aget n (nodes g), aget n gm with
      | Some x, Some m =>
          aset n (foldm n (get_entries (log (nd S1)) (Some (applied x + 1)) (Some (applied (nd S1) - applied x)) None) m) gm
      | _, _ => gm
      end
  | EDeliver _ b _ _ _, Some (_, S1) =>
      match aget b (nodes g) with
      | Some x =>
          if applied (nd S1) =? applied x then gm
          else match stored (sr (nd S1)) with
               | Some (Good sn) => aset b (smem b (s_cluster sn)) gm
               | _ => gm
               end
      | None => gm
      end
  | _, _ => gm
  end.

(* AbstractM's D4 ("tguard"): a tick moves the term of a voter only if the voter is a member by its OWN
   full log (the flag, then the membership entries behind the applied index) *)
Definition tg_ok2 (g : gstate) (gm : list (nid * bool)) (ev : event) (r : option (nid * S)) : bool :=
  match ev, r with
  | ETick n _ _ _ _ _, Some (_, S1) =>
      match aget n (nodes g), aget n gm with
      | Some x, Some m =>
          (RO_BASE <=? n) || (term (nd S1) =? term x) ||
          foldm n (get_entries (log x) (Some (applied x + 1)) None None) m
      | _, _ => true
      end
  | _, _ => true
  end.

(* the negation of the trigger of KF-C10-3 (RefineM2Finding.v): a voter starts a snapshot of position p
   (its applied index) only if it is a member of the configuration defined by its log up to p.
   [gm'] is the flag table AFTER the step; the serializer is in state 1 after a tick exactly when this tick
   has taken a snapshot (a tick that finds state 1 resets it to 0). *)
Definition snap_ok (g : gstate) (gm' : list (nid * bool)) (ev : event) (r : option (nid * S)) : bool :=
  match ev, r with
  | ETick n _ _ _ _ _, Some (_, S1) =>
      match aget n (nodes g), aget n gm' with
      | Some x, Some m' =>
          (RO_BASE <=? n) || negb (pid (sr (nd S1)) =? 1) || m'
      | _, _ => true
      end
  | _, _ => true
  end.

(* bookkeeping facts that hold in every run of the model; checked here instead of proved (they only
   tie the flag update to the log): a tick never applies an entry it has already cut from the log and
   never lowers the applied index; a delivery moves the applied index only by installing the stored snapshot;
   no other event moves it *)
Definition san_ok (g : gstate) (ev : event) (r : option (nid * S)) : bool :=
  match r with
  | Some (n, S1) =>
      match aget n (nodes g) with
      | Some x =>
          (RO_BASE <=? n) ||
          match ev with
          | ETick _ _ _ _ _ _ =>
              (first_idx (log (nd S1)) <=? applied x + 1) && (applied x <=? applied (nd S1))
          | EDeliver _ _ _ _ _ =>
              (applied (nd S1) =? applied x) ||
              match stored (sr (nd S1)) with
              | Some (Good sn) => eidx (s_e1 sn) =? applied (nd S1)
              | _ => false
              end
          | ERestart _ _ _ _ _ => true
          | _ => applied (nd S1) =? applied x
          end
      | None => true
      end
  | None => true
  end.

(* a snapshot piece that completes a dump at a READ-ONLY node carries a commit index that covers the dump
   (true of every message of the model: the sender holds the dump below its commit index; the relation does
   not record it for receivers outside the abstract cluster, so it is checked) *)
Definition ro_snap (m : msg) : Prop :=
  match m with
  | AESnap _ cm (SData (Good sn) _ _ _ true) => eidx (s_e1 sn) <= cm
  | _ => True
  end.

Definition ro_snap_okb (g : gstate) (ev : event) : bool :=
  match ev with
  | EDeliver a b _ _ _ =>
      if RO_BASE <=? b then
        match chan_get a b g with
        | AESnap _ cm (SData (Good sn) _ _ _ true) :: _ => eidx (s_e1 sn) <=? cm
        | _ => true
        end
      else true
  | _ => true
  end.

Fixpoint run_okM2 (c : conf) (mf : N -> N -> N * N) (V : list nid) (g : gstate) (gm : list (nid * bool))
  (evs : list event) : bool :=
  match evs with
  | [] => true
  | ev :: r =>
    small_evM2 c mf ev && join_ok V g ev && ver_okb c g ev && ro_snap_okb g ev &&
    match gstep c g ev with
    | Some (g', res) =>
        let gm' := flag_upd V g gm ev res in
        tg_ok2 g gm ev res && snap_ok g gm' ev res && san_ok g ev res && run_okM2 c mf V g' gm' r
    | None => true
    end
  end.

Definition core_fragM2 (c : conf) (mf : N -> N -> N * N) (V : list nid) (evs : list event) : Prop :=
  dyn c = true /\ file_dump c = false /\ 1 < batch c /\ validM V evs = true /\ run_okM2 c mf V ginit [] evs = true.

Lemma okc2_small c mf cm : okc2 c mf cm = true -> small_cmd c mf cm.
Proof.
  unfold okc2, small_cmd, canon. intros H. apply andb_true_iff in H as [H1 H2]. apply N.ltb_lt in H1.
  split; [exact H1|]. intros Hk. rewrite Hk in H2. cbn in H2.
  apply andb_true_iff in H2 as [H2 H5]. apply andb_true_iff in H2 as [H2 H4]. apply andb_true_iff in H2 as [H2 H3].
  apply N.ltb_lt in H2. apply N.eqb_eq in H4, H5. split; [exact H2|]. split.
  - apply orb_true_iff in H3 as [H3|H3]; apply N.eqb_eq in H3; auto.
  - destruct (mf (ca cm) (cb cm)) as [u w]. cbn in H4, H5. congruence.
Qed.

Section Main.
Variable c : conf.
Variable mf : N -> N -> N * N.
Variable V : list nid.
Hypothesis NDV : NoDup V.
Hypothesis SV : ssorted V.
Hypothesis VNE : V <> [].
Hypothesis VRO : forall v, In v V -> v < RO_BASE.
Hypothesis Hb1 : 1 < batch c.
Hypothesis Hdyn : dyn c = true.
Hypothesis Hfd : file_dump c = false.
Set Default Proof Using "All".

Notation V' := (absV V).
Notation Rn := (Rn c mf V).
Notation Rmsg := (Rmsg c mf V).
Notation Ro_nil := (Ro_nil c mf V).
Notation Hn := (Hn c mf).
Notation Hr := (Hr c mf).
Notation R := (R c mf V).
Notation ksn := (ksn V).
Notation kstar := (kstar V).
Notation LS := (LS c mf V).
Notation small_cmd := (small_cmd c mf).
Notation LS_ksn := (LS_ksn c mf V NDV SV VNE VRO Hb1).
Notation LS_same := (LS_same c mf V NDV SV VNE VRO Hb1).
Notation Rn_rv := (Rn_rv c mf V NDV SV VNE VRO Hb1).
Notation Hn_hv := (Hn_hv c mf V NDV SV VNE VRO Hb1).
Notation Rn_oth_lt := (Rn_oth_lt c mf V NDV SV VNE VRO Hb1).
Notation LS_start := (LS_start c mf V NDV SV VNE VRO Hb1).
Notation R_finish := (R_finish c mf V NDV SV VNE VRO Hb1).
Notation El_finish := (El_finish c mf V NDV SV VNE VRO Hb1).
Notation R_shrink := (R_shrink c mf V NDV SV VNE VRO Hb1).
Notation ROS := (ROS c mf).
Notation vf s j := (M.votesFrom (M.nodes s (n2 j))).

(* the three handler simulations that are proved in RefineM2TickB.v / RefineM2MsgB.v / RefineM2MsgC.v; taken as hypotheses of
   this section so that the global argument does not depend on those files (RefineM2Final.v discharges them) *)
Definition sim_on_tick_stmt : Prop :=
  forall e, cf e = c -> forall n x s, LS n s (start_S e x) ->
    (term (nd (on_tick e x)) <> term x -> M.self_member V' (n2 n) (M.nodes s (n2 n)) = true) ->
    (forall s2 S2, ksn (n2 n) s s2 -> LS n s2 S2 -> nd (on_tick e x) = nd (try_compact e S2) ->
       pid (sr (nd S2)) = 0 -> pid (sr (nd (try_compact e S2))) = 1 ->
       M.mem (n2 n) (M.gcfg V' (firstn (n2 (applied (nd S2))) (M.log (M.nodes s2 (n2 n))))) = true) ->
    exists s', ksn (n2 n) s s' /\ LS n s' (on_tick e x).

Definition sim_msg_aesnap_stmt : Prop :=
  forall e, cf e = c -> forall n a x s t cm p,
    LS n s (start_S e x) -> Rmsg a n (AESnap t cm p) s -> ver_ok e a (AESnap t cm p) x ->
    exists s', ksn (n2 n) s s' /\ LS n s' (on_message e a (AESnap t cm p) x).

Definition sim_msg_ae_stmt : Prop :=
  forall e, cf e = c -> forall n a x s t cm prev es,
    LS n s (start_S e x) -> Rmsg a n (AE t cm prev es) s ->
    exists s', ksn (n2 n) s s' /\ LS n s' (on_message e a (AE t cm prev es) x).

Hypothesis H_on_tick : sim_on_tick_stmt.
Hypothesis H_ae : sim_msg_ae_stmt.
Hypothesis H_aesnap : sim_msg_aesnap_stmt.

Record GI0 (g : gstate) (st : list nid) (s : M.state) : Prop := {
  GI_sorted : ksorted (nodes g);
  GI_run : forall v x, aget v (nodes g) = Some x -> v < RO_BASE -> In v st;
  GI_disk : forall v d, In (v, d) (disks g) -> v < RO_BASE -> In v st;
  GI_reach : KS.kreachable V' F0 s;
  GI_R : R g st s
}.

(* ---- connection bookkeeping keeps the node relation ---- *)
Lemma Rn_on_connected n b x s : Rn n x s -> Rn n (on_connected b x) s.
Proof.
  intros [A0 A1 A2 A3 A4 A5 A6 A7 A8 A9 A10 A11 A12]. unfold on_connected.
  destruct (RO_BASE <=? b) eqn:E; constructor; cbn; auto.
  intros f m Hf Hne Hg. rewrite ProofsElectionBase.aget_aset in Hg.
  destruct (f =? b) eqn:Ef; [|eauto]. injection Hg as <-. lia.
Qed.

Lemma Hn_on_connected b x : Hn x -> Hn (on_connected b x).
Proof.
  intros [B1 B2 B3 B4 B5 B6 B7 B8 B9 B10]. unfold on_connected.
  destruct (RO_BASE <=? b) eqn:E; constructor; cbn; auto;
    try (eapply pend_p5; [|exact B10]; reflexivity).
  apply N.leb_le in E. rewrite Forall_forall in *. intros y Hy. apply In_sadd in Hy as [->|Hy]; auto.
Qed.

Lemma Rn_on_disconnected n b x s : Rn n x s -> Rn n (on_disconnected b x) s.
Proof.
  intros RN. pose proof RN as [A0 A1 A2 A3 A4 A5 A6 A7 A8 A9 A10 A11 A12]. unfold on_disconnected.
  destruct (RO_BASE <=? b) eqn:E; constructor; cbn; auto.
  - intros f m Hf Hne Hg. apply N.leb_le in E.
    rewrite aget_adel_neq in Hg; [eauto|]. intros ->. pose proof (Rn_oth_lt n x s b RN Hf). lia.
  - intros d bl off Hin. apply (A11 d bl off). eapply ProofsElectionBase.In_adel; eauto.
  - intros d bl off Hin. apply (A11 d bl off). eapply ProofsElectionBase.In_adel; eauto.
Qed.

Lemma In_sdel_in x y l : In y (sdel x l) -> In y l.
Proof.
  induction l as [|a l IH]; cbn; auto. destruct (x =? a); cbn; auto. intros [H|H]; auto.
Qed.

Lemma Hn_on_disconnected b x : Hn x -> Hn (on_disconnected b x).
Proof.
  intros [B1 B2 B3 B4 B5 B6 B7 B8 B9 B10]. unfold on_disconnected.
  destruct (RO_BASE <=? b) eqn:E; constructor; cbn; auto;
    try (eapply pend_p5; [|exact B10]; reflexivity).
  rewrite Forall_forall in *. intros y Hy. apply In_sdel_in in Hy. auto.
Qed.

Lemma LS_idle n s e x y :
  LS n s (start_S e x) -> Rn n y s -> Hn y -> self y = self x -> LS n s (idle_S y).
Proof.
  intros L RN HH Hs.
  apply (LS_ksn n s s (start_S e x) (idle_S y)).
  - constructor.
  - exact L.
  - exact RN.
  - exact HH.
  - cbn [nd idle_S]. rewrite Hs. apply (LS_self _ _ _ _ _ _ L).
  - exists []. split; [reflexivity|]. apply Ro_nil.
Qed.

(* ---- the common ending of a step of a running voter ---- *)
Lemma GI_finish g g0 st s s' n x (S1 : Node.S) :
  GI0 g st s -> aget n (nodes g) = Some x -> n < RO_BASE ->
  nodes g0 = nodes g -> disks g0 = disks g -> (forall a b m, In m (chan_get a b g0) -> In m (chan_get a b g)) ->
  (forall a b T, (cnt (is_rv T) (chan_get a b g0) <= cnt (is_rv T) (chan_get a b g))%nat) ->
  ksn (n2 n) s s' -> LS n s' S1 ->
  term x <= term (nd S1) -> outspec x S1 ->
  (role (nd S1) = CANDIDATE -> term (nd S1) = term x ->
     votes (nd S1) = votes x \/
     exists a0, a0 <> n /\
       (cnt (is_rv (term x)) (chan_get a0 n g0) + 1 <= cnt (is_rv (term x)) (chan_get a0 n g))%nat /\
       forall v, In v (vf s' n) -> v = n2 a0 \/ In v (vf s n)) ->
  GI0 (finish n S1 g0) st s'.
Proof.
  intros [Gs Gr Gd HR RR] Hx Hlt En Ed Hch Hcn K L Ht Ho Hv.
  pose proof (Gr n x Hx Hlt) as Hst.
  assert (Nf : nodes (finish n S1 g0) = aset n (nd S1) (nodes g)) by (rewrite nodes_finish, En; reflexivity).
  constructor.
  - rewrite Nf. apply ksorted_aset. exact Gs.
  - intros v y Hy. rewrite Nf, ProofsElectionBase.aget_aset in Hy.
    destruct (v =? n) eqn:Ev; [apply N.eqb_eq in Ev; subst v; auto|]. apply (Gr v y Hy).
  - intros v d Hd. apply (Gd v d). rewrite <- Ed. unfold finish in Hd.
    destruct (route_nodes n (outs S1) (put_node n (nd S1) g0)) as [_ Dd]. rewrite Dd in Hd. exact Hd.
  - eapply ksn_kreachable; eauto.
  - apply (R_finish g g0 st s s' n x S1); auto.
    apply (El_finish g g0 st s s' n x S1); auto.
Qed.

Lemma GI_chan g g' st s :
  GI0 g st s -> nodes g' = nodes g -> disks g' = disks g ->
  (forall a b m, In m (chan_get a b g') -> In m (chan_get a b g)) ->
  (forall a b T, (cnt (is_rv T) (chan_get a b g') <= cnt (is_rv T) (chan_get a b g))%nat) ->
  GI0 g' st s.
Proof.
  intros [Gs Gr Gd HR RR] En Ed Hch Hcn. constructor; try (rewrite En); try (rewrite Ed); auto.
  apply (R_shrink g g' st st s RR); auto.
  - intros v y Hy Hv. rewrite En in Hy. split; [apply (R_node _ _ _ _ _ _ RR v y Hy Hv)|apply (R_hyg _ _ _ _ _ _ RR v y Hy Hv)].
  - intros v y Hy _ _. rewrite <- En. exact Hy.
  - intros v y Hy Hv. rewrite En in Hy. apply (R_ro _ _ _ _ _ _ RR v y Hy Hv).
  - apply incl_refl.
Qed.

Lemma cnt_chan_set_le (f : msg -> bool) a b a' b' q g :
  (cnt f q <= cnt f (chan_get a' b' g))%nat ->
  (cnt f (chan_get a b (chan_set a' b' q g)) <= cnt f (chan_get a b g))%nat.
Proof.
  intros H. rewrite chan_get_set. destruct ((a =? a') && (b =? b')) eqn:E; [|lia].
  apply andb_true_iff in E as [E1 E2]. apply N.eqb_eq in E1, E2. subst. exact H.
Qed.

Lemma outspec_nil x (S1 : Node.S) : (forall d m, ~ In (Send d m) (outs S1)) -> outspec x S1.
Proof.
  intros H T d. left. unfold cnt. induction (outs S1) as [|o os IH]; [reflexivity|].
  cbn [filter]. destruct (rvto T d o) eqn:E.
  - destruct o as [d' m| | | |]; try discriminate. exfalso. apply (H d' m). left. reflexivity.
  - apply IH. intros d' m Hin. apply (H d' m). right. exact Hin.
Qed.

(* a step that only touches L1 bookkeeping of voter n *)
Lemma GI_idle g g0 st s n x y :
  GI0 g st s -> aget n (nodes g) = Some x -> n < RO_BASE ->
  nodes g0 = nodes g -> disks g0 = disks g -> (forall a b m, In m (chan_get a b g0) -> In m (chan_get a b g)) ->
  (forall a b T, (cnt (is_rv T) (chan_get a b g0) <= cnt (is_rv T) (chan_get a b g))%nat) ->
  Rn n y s -> Hn y -> self y = self x -> term y = term x -> votes y = votes x ->
  GI0 (finish n (idle_S y) g0) st s.
Proof.
  intros G Hx Hlt En Ed Hch Hcn RN HH Hs Ht Hv.
  pose proof (LS_start g st s (mk_env c 0 0 0 [] 0) n x (GI_reach _ _ _ G) (GI_R _ _ _ G) Hx Hlt) as L0.
  apply (GI_finish g g0 st s s n x (idle_S y) G Hx Hlt En Ed Hch Hcn (ksn_refl _ _ _)).
  - apply (LS_idle n s _ x y L0 RN HH Hs).
  - cbn. lia.
  - apply outspec_nil. intros d m [].
  - intros _ _. left. exact Hv.
Qed.

(* the API calls: the command goes to the queue *)
Lemma submit_spec e cm cb x :
  let S1 := submit e cm (cb_of cb) (start_S e x) in
  term (nd S1) = term x /\ votes (nd S1) = votes x /\ forall d m, ~ In (Send d m) (outs S1).
Proof.
  cbv zeta. unfold submit. destruct (_ <? _).
  - rewrite nd_call_err. cbn. repeat split. unfold cb_of. destruct (cb =? 0); cbn; intros d m H; [exact H|].
    destruct H as [H|[]]. discriminate.
  - cbn. repeat split. intros d m [].
Qed.

(* ---- ETick ---- *)
Definition tick_hyps (n : nid) (e : env) (x : node) (s : M.state) : Prop :=
  (term (nd (on_tick e x)) <> term x -> M.self_member V' (n2 n) (M.nodes s (n2 n)) = true) /\
  (forall s2 S2, ksn (n2 n) s s2 -> LS n s2 S2 -> nd (on_tick e x) = nd (try_compact e S2) ->
     pid (sr (nd S2)) = 0 -> pid (sr (nd (try_compact e S2))) = 1 ->
     M.mem (n2 n) (M.gcfg V' (firstn (n2 (applied (nd S2))) (M.log (M.nodes s2 (n2 n))))) = true).

Lemma step_tick g st s n now rnd bud ord sl x :
  GI0 g st s -> aget n (nodes g) = Some x -> n < RO_BASE ->
  let e := mk_env c now rnd bud ord sl in
  tick_hyps n e x s ->
  exists s', kstar s s' /\ GI0 (finish n (on_tick e x) g) st s'.
Proof.
  intros G Hx Hlt e [Htg Hsn].
  pose proof (LS_start g st s e n x (GI_reach _ _ _ G) (GI_R _ _ _ G) Hx Hlt) as L0.
  destruct (H_on_tick e eq_refl n x s L0 Htg Hsn) as (s' & K & L).
  destruct (spec_tick e x) as (T1 & T2 & T3). cbv zeta in T1, T2, T3.
  exists s'. split; [eapply ksn_kstar; eauto|].
  apply (GI_finish g g st s s' n x (on_tick e x) G Hx Hlt eq_refl eq_refl (fun _ _ _ H => H) (fun _ _ _ => le_n _) K L T1 T2).
  intros Hr Ht. left. auto.
Qed.

(* ---- EDeliver ---- *)
Lemma step_deliver g st s a b now rnd ord x m rest :
  GI0 g st s -> aget b (nodes g) = Some x -> b < RO_BASE -> chan_get a b g = m :: rest ->
  let e := mk_env c now rnd DEFAULT_BUDGET ord 0 in
  ver_ok e a m x ->
  exists s', kstar s s' /\ GI0 (finish b (on_message e a m x) (chan_set a b rest g)) st s'.
Proof.
  intros G Hx Hlt Hch e Hver.
  pose proof G as [Gs Gr Gd HR RR].
  assert (Hm : Rmsg a b m s).
  { apply (R_msg _ _ _ _ _ _ RR a b m). rewrite Hch. left. reflexivity. }
  assert (Hc1 : forall a' b' m', In m' (chan_get a' b' (chan_set a b rest g)) -> In m' (chan_get a' b' g)).
  { intros a' b' m' Hin. rewrite chan_get_set in Hin.
    destruct ((a' =? a) && (b' =? b)) eqn:E; auto.
    apply andb_true_iff in E as [E1 E2]. apply N.eqb_eq in E1, E2. subst. rewrite Hch. right. exact Hin. }
  assert (Hc2 : forall a' b' T, (cnt (is_rv T) (chan_get a' b' (chan_set a b rest g)) <= cnt (is_rv T) (chan_get a' b' g))%nat).
  { intros a' b' T. apply cnt_chan_set_le. rewrite Hch, cnt_cons. lia. }
  pose proof (LS_start g st s e b x HR RR Hx Hlt) as L0.
  assert (Hsim : exists s', ksn (n2 b) s s' /\ LS b s' (on_message e a m x) /\
            (role (nd (on_message e a m x)) = CANDIDATE -> m = ResponseVote (term x) -> role x = CANDIDATE ->
             forall v, In v (vf s' b) -> v = n2 a \/ In v (vf s b))).
  { destruct m as [t li lt|t|t cm prev es|t cm prev lab off len en|t cm p|cm req|req okr p q|t nx rs su].
    - destruct (sim_msg_rv c mf V NDV SV VNE VRO Hb1 Hdyn Hfd e eq_refl b a x s t li lt L0 Hm) as (s' & K & L).
      exists s'. split; [exact K|]. split; [exact L|]. intros _ H. discriminate.
    - destruct (sim_msg_vote c mf V NDV SV VNE VRO Hb1 Hdyn Hfd e eq_refl b a x s t L0) as (s' & K & L & Hv).
      { intros Hr Ht. destruct Hm as (Ha & Hab & Hvote & Hbd & Hck).
        pose proof (R_node _ _ _ _ _ _ RR b x Hx Hlt) as RN.
        split; [|split; [exact Hvote|]].
        - pose proof (R_el _ _ _ _ _ _ RR a b x Hx Hlt Hr Hab) as Hel. rewrite Hch, cnt_cons in Hel.
          cbn [is_rv] in Hel. rewrite Ht, N.eqb_refl in Hel.
          destruct (M.mem (n2 a) (vf s b)) eqn:Em; [lia|]. apply MC.mem_not_In. exact Em.
        - apply Hck; [rewrite (Rn_term _ _ _ _ _ _ RN), Ht; reflexivity|rewrite (Rn_role _ _ _ _ _ _ RN), Hr; reflexivity]. }
      exists s'. split; [exact K|]. split; [exact L|]. intros Hr _ _. apply Hv. exact Hr.
    - destruct (H_ae e eq_refl b a x s t cm prev es L0 Hm) as (s' & K & L).
      exists s'. split; [exact K|]. split; [exact L|]. intros _ H. discriminate.
    - destruct Hm.
    - destruct (H_aesnap e eq_refl b a x s t cm p L0 Hm Hver) as (s' & K & L).
      exists s'. split; [exact K|]. split; [exact L|]. intros _ H. discriminate.
    - destruct (sim_msg_applycmd c mf V NDV SV VNE VRO Hb1 Hdyn Hfd e eq_refl b a x s cm req L0 Hm) as (s' & K & L).
      exists s'. split; [exact K|]. split; [exact L|]. intros _ H. discriminate.
    - destruct (sim_msg_applyresp c mf V NDV SV VNE VRO Hb1 Hdyn Hfd e eq_refl b a x s req okr p q L0) as (s' & K & L).
      exists s'. split; [exact K|]. split; [exact L|]. intros _ H. discriminate.
    - destruct (sim_msg_nextidx c mf V NDV SV VNE VRO Hb1 Hdyn Hfd e eq_refl b a x s t nx rs su L0 Hm) as (s' & K & L).
      exists s'. split; [exact K|]. split; [exact L|]. intros _ H. discriminate. }
  destruct Hsim as (s' & K & L & Hv).
  destruct (spec_msg e a m x) as (T1 & T2 & T3). cbv zeta in T1, T2, T3.
  exists s'. split; [eapply ksn_kstar; eauto|].
  apply (GI_finish g (chan_set a b rest g) st s s' b x (on_message e a m x) G Hx Hlt eq_refl eq_refl Hc1 Hc2 K L T1 T2).
  intros Hr Ht. destruct (T3 Hr Ht) as [Hs|[Hmv Hrx]]; [left; exact Hs|right].
  exists a. split.
  - subst m. destruct Hm as (_ & Hab & _). exact Hab.
  - split; [|apply Hv; auto].
    rewrite chan_get_set, !N.eqb_refl. cbn [andb]. rewrite Hch, cnt_cons. subst m. cbn [is_rv]. rewrite N.eqb_refl. lia.
Qed.

(* ---- an API call that queues a command ---- *)
Lemma step_submit g st s n x cm cb :
  GI0 g st s -> aget n (nodes g) = Some x -> n < RO_BASE -> small_cmd cm ->
  let e := mk_env c 0 0 DEFAULT_BUDGET [] 0 in
  GI0 (finish n (submit e cm (cb_of cb) (start_S e x)) g) st s.
Proof.
  intros G Hx Hlt Hcm e.
  pose proof (LS_start g st s e n x (GI_reach _ _ _ G) (GI_R _ _ _ G) Hx Hlt) as L0.
  destruct (submit_spec e cm cb x) as (T1 & T2 & T3). cbv zeta in T1, T2, T3.
  apply (GI_finish g g st s s n x _ G Hx Hlt eq_refl eq_refl (fun _ _ _ H => H) (fun _ _ _ => le_n _) (ksn_refl _ _ _)).
  - apply (sim_submit c mf V NDV SV VNE VRO Hb1 Hdyn Hfd e eq_refl n cm (cb_of cb) (start_S e x) s L0 Hcm).
  - rewrite T1. lia.
  - apply outspec_nil. exact T3.
  - intros _ _. left. exact T2.
Qed.

Lemma step_noop g st s n x (S1 : Node.S) (e : env) :
  GI0 g st s -> aget n (nodes g) = Some x -> n < RO_BASE -> nd S1 = x -> outs S1 = [] ->
  GI0 (finish n S1 g) st s.
Proof.
  intros G Hx Hlt En Eo.
  pose proof (LS_start g st s e n x (GI_reach _ _ _ G) (GI_R _ _ _ G) Hx Hlt) as L0.
  apply (GI_finish g g st s s n x _ G Hx Hlt eq_refl eq_refl (fun _ _ _ H => H) (fun _ _ _ => le_n _) (ksn_refl _ _ _)).
  - apply (LS_same n s (start_S e x)); auto.
  - rewrite En. lia.
  - apply outspec_nil. rewrite Eo. intros d m [].
  - intros _ _. left. rewrite En. reflexivity.
Qed.

Lemma In_aget_sorted {A} (k : N) (v : A) l : ksorted l -> In (k, v) l -> aget k l = Some v.
Proof.
  induction l as [|[k0 v0] r IH]; intros Hs Hin; [destruct Hin|].
  destruct Hs as [Hlb Hs]. cbn [aget]. destruct Hin as [Hin|Hin].
  - injection Hin as -> ->. rewrite N.eqb_refl. reflexivity.
  - destruct (N.eqb_spec k k0) as [->|Ne]; [|auto].
    exfalso. assert (Hk : In k0 (map fst r)) by (apply in_map_iff; exists (k0, v); auto).
    specialize (Hlb k0 Hk). cbn in Hlb. lia.
Qed.

(* ---- a voter starts: its L0 node is in the initial state and Up ---- *)
Lemma GI_start g st0 st s1 s0 n e sv :
  cf e = c -> GI0 g st s1 -> KS.kreachable V' F0 s0 -> R g st0 s0 -> incl st0 (n :: st) -> n < RO_BASE -> ~ In n st ->
  pristine (M.nodes s0 (n2 n)) ->
  GI0 (put_node n (init_node e (Some n) (vminus n V) sv)
        (g <| chan := filter (fun c0 => negb ((fst (fst c0) =? n) || (snd (fst c0) =? n))) (chan g) |>)) (n :: st) s0.
Proof.
  intros Hce [Gs Gr Gd _ _] HR RR Hst Hnr Hnst (P1 & P2 & P3 & P4 & P5 & P6).
  set (x0 := init_node e (Some n) (vminus n V) sv) in *.
  assert (Hnodes : forall v y, aget v (aset n x0 (nodes g)) = Some y ->
            (v = n /\ y = x0) \/ (v <> n /\ aget v (nodes g) = Some y)).
  { intros v y Hy. rewrite ProofsElectionBase.aget_aset in Hy.
    destruct (v =? n) eqn:Ev.
    - apply N.eqb_eq in Ev. injection Hy as <-. auto.
    - apply N.eqb_neq in Ev. auto. }
  constructor; unfold put_node; cbn [nodes disks set].
  - apply ksorted_aset. exact Gs.
  - intros v y Hy. apply Hnodes in Hy as [[-> ->]|[Hne Hy]].
    + intros _. left. reflexivity.
    + intros Hv. right. apply (Gr v y Hy Hv).
  - intros v d Hd0 Hv. right. apply (Gd v d Hd0 Hv).
  - exact HR.
  - apply (R_shrink g _ st0 (n :: st) s0 RR); cbn [nodes set].
    + intros v y Hy Hv. apply Hnodes in Hy as [[-> ->]|[Hne Hy]];
        [|split; [apply (R_node _ _ _ _ _ _ RR v y Hy Hv)|apply (R_hyg _ _ _ _ _ _ RR v y Hy Hv)]].
      split; [|split].
      * apply (Rn_init c mf V NDV SV VNE VRO Hb1 s0 n e sv Hce). repeat split; assumption.
      * apply (Hn_init c mf V NDV SV VNE VRO Hb1 n e sv Hce).
      * reflexivity.
    + intros v y Hy Hv Hrole. apply Hnodes in Hy as [[-> ->]|[Hne Hy]]; [discriminate|exact Hy].
    + intros v y Hy Hv. apply Hnodes in Hy as [[-> ->]|[Hne Hy]]; [lia|apply (R_ro _ _ _ _ _ _ RR v y Hy Hv)].
    + intros a' b' m' Hin. apply (chan_get_kill n a' b' g m'). exact Hin.
    + intros a' b' T. apply (cnt_kill n a' b' g T).
    + exact Hst.
Qed.

(* ---- read-only nodes: no abstract step at all ---- *)
Lemma ro_out_Rmsg b d m s : RO_BASE <= b -> ro_msg c mf m -> Rmsg b d m s.
Proof.
  intros Hb Hm. destruct m; cbn in *; try contradiction; auto. intros _ Hlt. lia.
Qed.

Lemma ro_out_rvto T d os : Forall (ro_out c mf) os -> cnt (rvto T d) os = 0%nat.
Proof.
  induction os as [|o os IH]; intros H; [reflexivity|]. inversion H as [|? ? Ho Hr0]; subst.
  rewrite cnt_cons, (IH Hr0). destruct o as [d' m| | | |]; cbn [rvto]; auto. destruct m; auto. destruct Ho.
Qed.

Lemma Rmsg_ro_in a b m s : Rmsg a b m s -> ro_snap m -> ro_in c mf m.
Proof.
  destruct m as [t li lt|t|t cm [[pi pt]|] es|t cm prev lab off len en|t cm [|bl off len first last]|cm req|req okr p q|t nx rs su];
    cbn; auto.
  intros _ Hs -> sn ->. exact Hs.
Qed.

Lemma ROS_start g st s e b x :
  R g st s -> aget b (nodes g) = Some x -> RO_BASE <= b -> ROS (start_S e x).
Proof.
  intros RR Hx Hge. destruct (R_ro _ _ _ _ _ _ RR b x Hx Hge) as (A & B & C).
  constructor; [exact A|exact B|exact C|constructor].
Qed.

Lemma ROS_idle e x y :
  ROS (start_S e x) -> Hr y -> self y = self x -> role y = role x -> ROS (idle_S y).
Proof.
  intros [A1 A2 A3 A4] HH Hs Hr0. constructor; cbn [nd outs idle_S].
  - exact HH.
  - rewrite Hs. exact A2.
  - rewrite Hr0. exact A3.
  - constructor.
Qed.

Lemma Hr_on_connected b x : Hr x -> Hr (on_connected b x).
Proof.
  intros [B1 B2 B3]. unfold on_connected. destruct (RO_BASE <=? b) eqn:E; constructor; cbn; auto.
Qed.

Lemma Hr_on_disconnected b x : Hr x -> Hr (on_disconnected b x).
Proof.
  intros [B1 B2 B3]. unfold on_disconnected. destruct (RO_BASE <=? b) eqn:E; constructor; cbn; auto.
Qed.

Lemma GI_ro_step g g0 st s b x (S1 : Node.S) :
  GI0 g st s -> aget b (nodes g) = Some x -> RO_BASE <= b -> ROS S1 ->
  nodes g0 = nodes g -> disks g0 = disks g -> (forall a' b' m, In m (chan_get a' b' g0) -> In m (chan_get a' b' g)) ->
  (forall a' b' T, (cnt (is_rv T) (chan_get a' b' g0) <= cnt (is_rv T) (chan_get a' b' g))%nat) ->
  GI0 (finish b S1 g0) st s.
Proof.
  intros [Gs Gr Gd HR RR] Hx Hge RS En Ed Hch Hcn.
  assert (Nf : nodes (finish b S1 g0) = aset b (nd S1) (nodes g)) by (rewrite nodes_finish, En; reflexivity).
  constructor.
  - rewrite Nf. apply ksorted_aset. exact Gs.
  - intros v y Hy Hv. rewrite Nf, ProofsElectionBase.aget_aset in Hy.
    destruct (v =? b) eqn:Ev; [apply N.eqb_eq in Ev; lia|]. apply (Gr v y Hy Hv).
  - intros v d Hd. apply (Gd v d). rewrite <- Ed. unfold finish in Hd.
    destruct (route_nodes b (outs S1) (put_node b (nd S1) g0)) as [_ Dd]. rewrite Dd in Hd. exact Hd.
  - exact HR.
  - constructor.
    + intros v y Hy Hv. rewrite Nf, ProofsElectionBase.aget_aset in Hy.
      destruct (v =? b) eqn:Ev; [apply N.eqb_eq in Ev; lia|]. apply (R_node _ _ _ _ _ _ RR v y Hy Hv).
    + apply (R_init _ _ _ _ _ _ RR).
    + apply (R_fresh _ _ _ _ _ _ RR).
    + intros a' b' m Hm. apply finish_chan in Hm as [Hm|[-> Hm]].
      * apply (R_msg _ _ _ _ _ _ RR a' b' m). auto.
      * apply ro_out_Rmsg; auto. pose proof (RO_o _ _ _ RS) as Ho. rewrite Forall_forall in Ho. apply (Ho _ Hm).
    + intros a' b' xb Hb Hblt Hrole Hab. rewrite Nf, ProofsElectionBase.aget_aset in Hb.
      destruct (b' =? b) eqn:Ev; [apply N.eqb_eq in Ev; lia|].
      pose proof (R_el _ _ _ _ _ _ RR a' b' xb Hb Hblt Hrole Hab) as Hold.
      pose proof (finish_cnt b S1 g0 a' b' (term xb)) as Hfc. specialize (Hcn a' b' (term xb)).
      rewrite (ro_out_rvto _ _ _ (RO_o _ _ _ RS)) in Hfc. destruct (a' =? b); lia.
    + intros v y Hy Hv. rewrite Nf, ProofsElectionBase.aget_aset in Hy.
      destruct (v =? b) eqn:Ev; [apply N.eqb_eq in Ev; lia|]. apply (R_hyg _ _ _ _ _ _ RR v y Hy Hv).
    + intros v y Hy Hv. rewrite Nf, ProofsElectionBase.aget_aset in Hy.
      destruct (v =? b) eqn:Ev; [|apply (R_ro _ _ _ _ _ _ RR v y Hy Hv)].
      injection Hy as <-. split; [apply (RO_h _ _ _ RS)|]. split; [apply (RO_self _ _ _ RS)|apply (RO_role _ _ _ RS)].
Qed.
(* ---- one step ---- *)
Lemma ver_okb_ok g a b now rnd ord x m rest :
  aget b (nodes g) = Some x -> chan_get a b g = m :: rest -> b < RO_BASE ->
  ver_okb c g (EDeliver a b now rnd ord) = true ->
  ver_ok (mk_env c now rnd DEFAULT_BUDGET ord 0) a m x.
Proof.
  intros Hx Hch Hlt H. unfold ver_okb in H. rewrite Hx, Hch in H.
  destruct m as [| | | |t cm p| | |]; try exact I.
  destruct (RO_BASE <=? b) eqn:E; [apply N.leb_le in E; lia|]. cbn [orb] in H. cbv zeta in H.
  unfold ver_ok. intros s1 <- Hd sn Hs. rewrite Hd in H. cbn [negb orb] in H. rewrite Hs in H.
  apply N.leb_le. exact H.
Qed.

Lemma ro_snap_okb_ok g a b now rnd ord m rest :
  chan_get a b g = m :: rest -> RO_BASE <= b -> ro_snap_okb g (EDeliver a b now rnd ord) = true -> ro_snap m.
Proof.
  intros Hch Hge H. unfold ro_snap_okb in H. rewrite Hch in H.
  assert (E : RO_BASE <=? b = true) by (apply N.leb_le; exact Hge). rewrite E in H.
  destruct m as [| | | |t cm [|[sn|k] off len first [|]]| | |]; try exact I. cbn. apply N.leb_le. exact H.
Qed.

Theorem step_sim0 g st s ev g' r :
  GI0 g st s -> ev_okM V st ev = true -> join_ok V g ev = true -> small_evM2 c mf ev = true ->
  ver_okb c g ev = true -> ro_snap_okb g ev = true ->
  gstep c g ev = Some (g', r) ->
  (forall n now rnd bud ord sl x, ev = ETick n now rnd bud ord sl -> aget n (nodes g) = Some x -> n < RO_BASE ->
     tick_hyps n (mk_env c now rnd bud ord sl) x s) ->
  exists s', kstar s s' /\ GI0 g' (st_after st ev) s'.
Proof.
  intros G Hev Hnr Hsm Hver Hros Hstep Htick.
  pose proof G as [Gs Gr Gd HR RR].
  destruct ev as [n now rnd bud ord sl | a b now rnd ord | a b | a b k | a b | n cm cb | n cm cb | n cm cb
                 | n | n | n oth now rnd sv]; unfold gstep in Hstep; cbn [st_after].
  - (* ETick *)
    destruct (aget n (nodes g)) as [x|] eqn:Hx; [|discriminate].
    injection Hstep as <- <-.
    destruct (N.ltb_spec n RO_BASE) as [Hlt|Hge].
    + apply step_tick; auto; try (eapply Htick; eauto).
    + exists s. split; [constructor|].
      pose proof (ROS_start g st s (mk_env c now rnd bud ord sl) n x RR Hx Hge) as R0.
      pose proof (ro_on_tick c mf Hdyn Hfd (mk_env c now rnd bud ord sl) eq_refl x R0) as RS.
      apply (GI_ro_step g g st s n x _ G Hx Hge RS eq_refl eq_refl (fun _ _ _ H => H) (fun _ _ _ => le_n _)).
  - (* EDeliver *)
    destruct (aget b (nodes g)) as [x|] eqn:Hx; [|discriminate].
    destruct (chan_get a b g) as [|m rest] eqn:Hch; [discriminate|].
    injection Hstep as <- <-.
    destruct (N.ltb_spec b RO_BASE) as [Hlt|Hge].
    + apply step_deliver; auto. eapply ver_okb_ok; eauto.
    + exists s. split; [constructor|].
      assert (Hm : Rmsg a b m s).
      { apply (R_msg _ _ _ _ _ _ RR a b m). rewrite Hch. left. reflexivity. }
      pose proof (ROS_start g st s (mk_env c now rnd DEFAULT_BUDGET ord 0) b x RR Hx Hge) as R0.
      pose proof (ro_on_message c mf Hdyn Hfd (mk_env c now rnd DEFAULT_BUDGET ord 0) eq_refl a m x R0
                    (Rmsg_ro_in a b m s Hm (ro_snap_okb_ok g a b now rnd ord m rest Hch Hge Hros))) as RS.
      apply (GI_ro_step g (chan_set a b rest g) st s b x _ G Hx Hge RS eq_refl eq_refl).
      * intros a' b' m' Hin. rewrite chan_get_set in Hin.
        destruct ((a' =? a) && (b' =? b)) eqn:E; auto.
        apply andb_true_iff in E as [E1 E2]. apply N.eqb_eq in E1, E2. subst. rewrite Hch. right. exact Hin.
      * intros a' b' T. apply cnt_chan_set_le. rewrite Hch, cnt_cons. lia.
  - (* EDrop *)
    destruct (aget a (nodes g)) as [x|] eqn:Hx; [|discriminate].
    injection Hstep as <- <-. exists s. split; [constructor|].
    assert (G1 : GI0 (finish a (idle_S (on_disconnected b x)) g) st s).
    { destruct (N.ltb_spec a RO_BASE) as [Hlt|Hge].
      - destruct (R_hyg _ _ _ _ _ _ RR a x Hx Hlt) as [HH Hself].
        apply (GI_idle g g st s a x _ G Hx Hlt eq_refl eq_refl (fun _ _ _ H => H) (fun _ _ _ => le_n _)).
        + apply Rn_on_disconnected. apply (R_node _ _ _ _ _ _ RR a x Hx Hlt).
        + apply Hn_on_disconnected. exact HH.
        + unfold on_disconnected; destruct (_ <=? _); reflexivity.
        + unfold on_disconnected; destruct (_ <=? _); reflexivity.
        + unfold on_disconnected; destruct (_ <=? _); reflexivity.
      - pose proof (ROS_start g st s (mk_env c 0 0 0 [] 0) a x RR Hx Hge) as R0.
        apply (GI_ro_step g g st s a x _ G Hx Hge); try reflexivity; auto.
        apply (ROS_idle (mk_env c 0 0 0 [] 0) x); auto.
        + apply Hr_on_disconnected. apply (RO_h _ _ _ R0).
        + unfold on_disconnected; destruct (_ <=? _); reflexivity.
        + unfold on_disconnected; destruct (_ <=? _); reflexivity. }
    apply (GI_chan _ _ st s G1); try reflexivity.
    + intros a' b' m' Hin. rewrite chan_get_set in Hin. destruct (_ && _); [destruct Hin|exact Hin].
    + intros a' b' T. apply cnt_chan_set_le. rewrite cnt_nil. lia.
  - (* ELose *)
    injection Hstep as <- <-. exists s. split; [constructor|].
    apply (GI_chan _ _ st s G); try reflexivity.
    + intros a' b' m' Hin. rewrite chan_get_set in Hin. destruct (_ && _) eqn:E; auto.
      apply andb_true_iff in E as [E1 E2]. apply N.eqb_eq in E1, E2. subst.
      eapply In_firstn_in; eauto.
    + intros a' b' T. apply cnt_chan_set_le. apply cnt_firstn_le.
  - (* EConnect *)
    destruct (aget a (nodes g)) as [x|] eqn:Hx; [|discriminate].
    injection Hstep as <- <-. exists s. split; [constructor|].
    match goal with |- context [finish a _ ?G1] => set (g1 := G1) in * end.
    assert (En : nodes g1 = nodes g /\ disks g1 = disks g).
    { subst g1. destruct (match aget b (nodes g) with Some y => negb (smem a (tconn y)) | None => true end); auto. }
    destruct En as [En Ed].
    assert (Hc1 : forall a' b' m', In m' (chan_get a' b' g1) -> In m' (chan_get a' b' g)).
    { intros a' b' m' Hin. subst g1.
      destruct (match aget b (nodes g) with Some y => negb (smem a (tconn y)) | None => true end); auto.
      rewrite !chan_get_set in Hin. destruct (_ && _); [destruct Hin|]. destruct (_ && _); [destruct Hin|exact Hin]. }
    assert (Hc2 : forall a' b' T, (cnt (is_rv T) (chan_get a' b' g1) <= cnt (is_rv T) (chan_get a' b' g))%nat).
    { intros a' b' T. subst g1.
      destruct (match aget b (nodes g) with Some y => negb (smem a (tconn y)) | None => true end); [|lia].
      eapply Nat.le_trans; [apply cnt_chan_set_le; rewrite cnt_nil; lia|].
      apply cnt_chan_set_le. rewrite cnt_nil. lia. }
    destruct (N.ltb_spec a RO_BASE) as [Hlt|Hge].
    + destruct (R_hyg _ _ _ _ _ _ RR a x Hx Hlt) as [HH Hself].
      apply (GI_idle g g1 st s a x _ G Hx Hlt En Ed Hc1 Hc2).
      * apply Rn_on_connected. apply (R_node _ _ _ _ _ _ RR a x Hx Hlt).
      * apply Hn_on_connected. exact HH.
      * unfold on_connected; destruct (_ <=? _); reflexivity.
      * unfold on_connected; destruct (_ <=? _); reflexivity.
      * unfold on_connected; destruct (_ <=? _); reflexivity.
    + pose proof (ROS_start g st s (mk_env c 0 0 0 [] 0) a x RR Hx Hge) as R0.
      apply (GI_ro_step g g1 st s a x _ G Hx Hge); auto.
      apply (ROS_idle (mk_env c 0 0 0 [] 0) x); auto.
      * apply Hr_on_connected. apply (RO_h _ _ _ R0).
      * unfold on_connected; destruct (_ <=? _); reflexivity.
      * unfold on_connected; destruct (_ <=? _); reflexivity.
  - (* ESubmit *)
    destruct (aget n (nodes g)) as [x|] eqn:Hx; [|discriminate].
    injection Hstep as <- <-. exists s. split; [constructor|].
    destruct (N.ltb_spec n RO_BASE) as [Hlt|Hge].
    + apply step_submit; auto. apply okc2_small. exact Hsm.
    + pose proof (ROS_start g st s (mk_env c 0 0 DEFAULT_BUDGET [] 0) n x RR Hx Hge) as R0.
      apply (GI_ro_step g g st s n x _ G Hx Hge); try reflexivity; auto.
      unfold api_submit. apply ro_submit; [exact R0|apply okc2_small; exact Hsm].
  - (* EAdmin *)
    destruct (aget n (nodes g)) as [x|] eqn:Hx; [|discriminate].
    injection Hstep as <- <-. exists s. split; [constructor|].
    unfold api_admin. change (dyn (cf (mk_env c 0 0 DEFAULT_BUDGET [] 0))) with (dyn c). rewrite Hdyn.
    destruct (N.ltb_spec n RO_BASE) as [Hlt|Hge].
    + apply step_submit; auto. apply okc2_small. exact Hsm.
    + pose proof (ROS_start g st s (mk_env c 0 0 DEFAULT_BUDGET [] 0) n x RR Hx Hge) as R0.
      apply (GI_ro_step g g st s n x _ G Hx Hge); try reflexivity; auto.
      apply ro_submit; [exact R0|apply okc2_small; exact Hsm].
  - (* ESetVer *)
    destruct (aget n (nodes g)) as [x|] eqn:Hx; [|discriminate].
    injection Hstep as <- <-. exists s. split; [constructor|].
    destruct (N.ltb_spec n RO_BASE) as [Hlt|Hge].
    + unfold api_setver. destruct (_ || _).
      * apply (step_noop g st s n x _ (mk_env c 0 0 DEFAULT_BUDGET [] 0)); auto.
      * apply step_submit; auto. apply okc2_small. exact Hsm.
    + pose proof (ROS_start g st s (mk_env c 0 0 DEFAULT_BUDGET [] 0) n x RR Hx Hge) as R0.
      apply (GI_ro_step g g st s n x _ G Hx Hge); try reflexivity; auto.
      unfold api_setver. destruct (_ || _).
      * eapply ROS_same; eauto.
      * apply ro_submit; [exact R0|apply okc2_small; exact Hsm].
  - (* ECompact *)
    destruct (aget n (nodes g)) as [x|] eqn:Hx; [|discriminate].
    injection Hstep as <- <-. exists s. split; [constructor|].
    destruct (N.ltb_spec n RO_BASE) as [Hlt|Hge].
    + destruct (R_hyg _ _ _ _ _ _ RR n x Hx Hlt) as [HH Hself].
      apply (GI_idle g g st s n x _ G Hx Hlt eq_refl eq_refl (fun _ _ _ H => H) (fun _ _ _ => le_n _)); try reflexivity.
      * eapply Rn_rv; [| |apply (R_node _ _ _ _ _ _ RR n x Hx Hlt)]; [reflexivity|apply tr_ok_same; reflexivity].
      * eapply Hn_hv; [|exact HH]. reflexivity.
    + pose proof (ROS_start g st s (mk_env c 0 0 0 [] 0) n x RR Hx Hge) as R0.
      apply (GI_ro_step g g st s n x _ G Hx Hge); try reflexivity; auto.
      apply (ROS_idle (mk_env c 0 0 0 [] 0) x); auto. destruct (RO_h _ _ _ R0) as [B1 B2 B3]. constructor; auto.
  - (* EKill *)
    injection Hstep as <- <-. exists s. split; [constructor|].
    set (g1 := match aget n (nodes g) with
               | Some x => match disk_of c x with
                           | Some d => g <| disks := aset n d (disks g) |>
                           | None => g <| disks := adel n (disks g) |> end
               | None => g end) in *.
    assert (N1 : nodes g1 = nodes g /\ chan g1 = chan g).
    { subst g1. destruct (aget n (nodes g)); [destruct (disk_of c n0)|]; auto. }
    destruct N1 as [N1 C1].
    assert (Hnodes : forall v y, aget v (adel n (nodes g)) = Some y -> aget v (nodes g) = Some y).
    { intros v y Hy. destruct (N.eq_dec v n) as [->|Hne].
      - rewrite ProofsElectionBase.aget_adel_same in Hy; [discriminate|exact Gs].
      - rewrite aget_adel_neq in Hy; auto. }
    constructor; cbn [nodes disks set]; rewrite ?N1.
    + apply ksorted_adel. exact Gs.
    + intros v y Hy. apply (Gr v y (Hnodes v y Hy)).
    + intros v d Hd. subst g1. destruct (aget n (nodes g)) as [x|] eqn:Hx; [|apply (Gd v d Hd)].
      destruct (disk_of c x); cbn [disks set] in Hd.
      * apply ProofsElectionBase.In_aset in Hd as [[-> _]|Hd]; [apply (Gr n x Hx)|apply (Gd v d Hd)].
      * apply (Gd v d). eapply ProofsElectionBase.In_adel; eauto.
    + exact HR.
    + apply (R_shrink g _ st st s RR); cbn [nodes set]; rewrite ?N1.
      * intros v y Hy Hv. apply Hnodes in Hy.
        split; [apply (R_node _ _ _ _ _ _ RR v y Hy Hv)|apply (R_hyg _ _ _ _ _ _ RR v y Hy Hv)].
      * intros v y Hy _ _. apply Hnodes. exact Hy.
      * intros v y Hy Hv. apply Hnodes in Hy. apply (R_ro _ _ _ _ _ _ RR v y Hy Hv).
      * intros a' b' m' Hin. apply (chan_get_kill n a' b' g m').
        unfold chan_get in *. cbn [chan set] in *. rewrite C1 in Hin. exact Hin.
      * intros a' b' T. unfold chan_get. cbn [chan set]. rewrite C1.
        apply (cnt_kill n a' b' g T).
      * apply incl_refl.
  - (* ERestart *)
    injection Hstep as <- <-.
    cbn [ev_okM] in Hev.
    destruct (N.ltb_spec n RO_BASE) as [Hnr'|Hge].
    + (* a voter starts for the first time *)
      apply andb_true_iff in Hev as [H2 H3]. apply leqb_eq in H3. subst oth.
      assert (Hnst : ~ In n st).
      { intros Hin. apply smem_In in Hin. rewrite Hin in H2. discriminate. }
      assert (Hle : RO_BASE <=? n = false) by (apply N.leb_gt; exact Hnr'). rewrite Hle.
      assert (Hd : aget n (disks g) = None).
      { destruct (aget n (disks g)) as [d|] eqn:E; auto. exfalso. apply Hnst.
        apply ProofsElectionBase.aget_In in E. apply (Gd n d E Hnr'). }
      rewrite Hd.
      assert (Hnotrun : aget n (nodes g) = None).
      { destruct (aget n (nodes g)) as [y|] eqn:E; auto. exfalso. apply Hnst. apply (Gr n y E Hnr'). }
      destruct (smem n V) eqn:EV.
      * (* an initial member *)
        apply smem_In in EV. exists s. split; [constructor|].
        apply (GI_start g st st s s n (mk_env c now rnd DEFAULT_BUDGET [] 0) sv eq_refl G HR RR (incl_tl _ (incl_refl _)) Hnr' Hnst).
        apply (R_init _ _ _ _ _ _ RR n EV Hnst).
      * (* a new voter: K_join *)
        assert (HnV : ~ In n V) by (intros Hin; apply smem_In in Hin; congruence).
        cbn [join_ok] in Hnr. rewrite EV, Hle in Hnr. cbn [orb] in Hnr.
        apply existsb_exists in Hnr as ([m xm] & Hin & Hrl). cbn [snd] in Hrl. apply N.eqb_eq in Hrl.
        assert (Hxm : aget m (nodes g) = Some xm) by (apply In_aget_sorted; auto).
        assert (Hmlt : m < RO_BASE).
        { destruct (N.ltb_spec m RO_BASE) as [H|H]; [exact H|].
          destruct (R_ro _ _ _ _ _ _ RR m xm Hxm H) as (_ & _ & Hf). rewrite Hf in Hrl. discriminate. }
        pose proof (R_node _ _ _ _ _ _ RR m xm Hxm Hmlt) as RNm.
        destruct (R_join c mf V NDV SV VNE VRO Hb1 g st s n (n2 m) RR HR HnV Hnst Hnotrun) as (K & RJ & EJ).
        { apply (Rn_up _ _ _ _ _ _ RNm). }
        { rewrite (Rn_role _ _ _ _ _ _ RNm), Hrl. reflexivity. }
        set (s' := t_join V (n2 n) s) in *.
        exists s'. split; [eapply kstar_step; [constructor|exact K]|].
        apply (GI_start g (n :: st) st s s' n (mk_env c now rnd DEFAULT_BUDGET [] 0) sv eq_refl G (KS.kreach_step _ _ _ _ HR K) RJ (incl_refl _) Hnr' Hnst).
        unfold pristine. rewrite EJ. cbn. repeat split; reflexivity.
    + (* a read-only node (re)starts *)
      assert (Hle : RO_BASE <=? n = true) by (apply N.leb_le; exact Hge). rewrite Hle.
      set (e := mk_env c now rnd DEFAULT_BUDGET [] 0) in *.
      set (x0 := match aget n (disks g) with
                 | Some d => init_node e None oth sv
                 | None => init_node e None oth sv end) in *.
      assert (Ex0 : x0 = init_node e None oth sv) by (unfold x0; destruct (aget n (disks g)); reflexivity).
      exists s. split; [constructor|].
      assert (Hnodes : forall v y, aget v (aset n x0 (nodes g)) = Some y ->
                (v = n /\ y = x0) \/ (v <> n /\ aget v (nodes g) = Some y)).
      { intros v y Hy. rewrite ProofsElectionBase.aget_aset in Hy.
        destruct (v =? n) eqn:Ev.
        - apply N.eqb_eq in Ev. injection Hy as <-. auto.
        - apply N.eqb_neq in Ev. auto. }
      constructor; unfold put_node; cbn [nodes disks set].
      * apply ksorted_aset. exact Gs.
      * intros v y Hy Hv. apply Hnodes in Hy as [[-> ->]|[Hne Hy]]; [lia|apply (Gr v y Hy Hv)].
      * exact Gd.
      * exact HR.
      * apply (R_shrink g _ st st s RR); cbn [nodes set].
        -- intros v y Hy Hv. apply Hnodes in Hy as [[-> ->]|[Hne Hy]]; [lia|].
           split; [apply (R_node _ _ _ _ _ _ RR v y Hy Hv)|apply (R_hyg _ _ _ _ _ _ RR v y Hy Hv)].
        -- intros v y Hy Hv _. apply Hnodes in Hy as [[-> ->]|[Hne Hy]]; [lia|exact Hy].
        -- intros v y Hy Hv. apply Hnodes in Hy as [[-> ->]|[Hne Hy]]; [|apply (R_ro _ _ _ _ _ _ RR v y Hy Hv)].
           rewrite Ex0. split; [|split; reflexivity].
           constructor; unfold init_node; cbn; auto; try lia.
        -- intros a' b' m' Hin. apply (chan_get_kill n a' b' g m'). exact Hin.
        -- intros a' b' T. apply (cnt_kill n a' b' g T).
        -- apply incl_refl.
Qed.


(* ------------------------------------------------------------------------------------------ *)
(* the ghost flags                                                                            *)

Notation mflag := (mflag V).
Notation kall := (kall V NDV VNE).

Definition Gm (g : gstate) (gm : list (nid * bool)) (s : M.state) : Prop :=
  forall v x, aget v (nodes g) = Some x -> v < RO_BASE -> aget v gm = Some (mflag v x s).

Definition GI (g : gstate) (st : list nid) (gm : list (nid * bool)) (s : M.state) : Prop :=
  GI0 g st s /\ Gm g gm s.

Lemma mflag_keep g st s s' v y y' :
  GI0 g st s -> kstar s s' -> aget v (nodes g) = Some y -> v < RO_BASE -> applied y' = applied y ->
  mflag v y' s' = mflag v y s.
Proof.
  intros G K Hy Hv Ea. unfold RefineM2Ghost.mflag. rewrite Ea. do 2 f_equal.
  pose proof (GI_R _ _ _ G) as RR.
  apply (prefix_stable c mf V NDV SV VNE VRO Hb1 s s' (n2 v) _ (GI_reach _ _ _ G) K).
  rewrite (Rn_commit _ _ _ _ _ _ (R_node _ _ _ _ _ _ RR v y Hy Hv)).
  pose proof (H_ac _ _ _ (proj1 (R_hyg _ _ _ _ _ _ RR v y Hy Hv))). lia.
Qed.

(* the flags after a step that replaces (or adds) the node of n *)
Lemma Gm_aset g g' st gm gm' s s' n y' :
  GI0 g st s -> Gm g gm s -> kstar s s' -> nodes g' = aset n y' (nodes g) ->
  (forall v, v <> n -> aget v gm' = aget v gm) ->
  (n < RO_BASE -> aget n gm' = Some (mflag n y' s')) ->
  Gm g' gm' s'.
Proof.
  intros G Hg K En Hoth Hn v y Hy Hv. rewrite En, ProofsElectionBase.aget_aset in Hy.
  destruct (v =? n) eqn:Ev.
  - apply N.eqb_eq in Ev. subst v. injection Hy as <-. auto.
  - apply N.eqb_neq in Ev. rewrite (Hoth v Ev), (Hg v y Hy Hv). f_equal. symmetry.
    apply (mflag_keep g st s s' v y y G K Hy Hv eq_refl).
Qed.

Lemma Gm_sub g g' st gm s :
  GI0 g st s -> Gm g gm s -> (forall v y, aget v (nodes g') = Some y -> aget v (nodes g) = Some y) -> Gm g' gm s.
Proof. intros G Hg Hsub v y Hy Hv. apply Hg; auto. Qed.

Lemma try_compact_ser e s0 :
  pid (sr (nd s0)) = 0 ->
  log (nd (try_compact e s0)) = log (nd s0) /\ applied (nd (try_compact e s0)) = applied (nd s0).
Proof.
  intros Hp. unfold try_compact. cbv zeta. rewrite Hp. cbn [N.eqb negb].
  match goal with |- context [if ?b then _ else _] => destruct b end; [split; reflexivity|].
  match goal with |- context [match ?l with [] => _ | _ :: _ => _ end] => destruct l as [|e0 [|e1 r]] end;
    try (split; reflexivity).
  match goal with |- context [if ?b then _ else _] => destruct b end; split; reflexivity.
Qed.


Lemma Gm_sub2 g g' st gm s s' :
  GI0 g st s -> Gm g gm s -> kstar s s' ->
  (forall v y, aget v (nodes g') = Some y -> aget v (nodes g) = Some y) -> Gm g' gm s'.
Proof.
  intros G Hg K Hsub v y Hy Hv. rewrite (Hg v y (Hsub v y Hy) Hv). f_equal. symmetry.
  apply (mflag_keep g st s s' v y y G K (Hsub v y Hy) Hv eq_refl).
Qed.

Lemma Gm_step_keep g g' st gm s s' n x y' :
  GI0 g st s -> Gm g gm s -> kstar s s' -> nodes g' = aset n y' (nodes g) -> aget n (nodes g) = Some x ->
  (n < RO_BASE -> applied y' = applied x) -> Gm g' gm s'.
Proof.
  intros G Hg K En Hx Ha. apply (Gm_aset g g' st gm gm s s' n y' G Hg K En); auto.
  intros Hlt. rewrite (Hg n x Hx Hlt). f_equal. symmetry.
  apply (mflag_keep g st s s' n x y' G K Hx Hlt (Ha Hlt)).
Qed.

Lemma mem_absV n : M.mem (n2 n) V' = smem n V.
Proof.
  destruct (smem n V) eqn:E.
  - apply MC.mem_In. apply absV_In. apply smem_iff. exact E.
  - apply MC.mem_not_In. intros H. apply absV_In in H. apply smem_iff in H. congruence.
Qed.

(* the hypotheses of a voter's tick, from the flags *)
Lemma tick_hyps_of_flags g st gm s n now rnd bud ord sl x :
  GI g st gm s -> aget n (nodes g) = Some x -> n < RO_BASE ->
  let e := mk_env c now rnd bud ord sl in
  let ev := ETick n now rnd bud ord sl in
  let r := Some (n, on_tick e x) in
  tg_ok2 g gm ev r = true -> snap_ok g (flag_upd V g gm ev r) ev r = true -> san_ok g ev r = true ->
  tick_hyps n e x s.
Proof.
  intros [G Hg] Hx Hlt e ev r Htg Hsn Hsan.
  pose proof (GI_R _ _ _ G) as RR. pose proof (GI_reach _ _ _ G) as HR.
  pose proof (R_node _ _ _ _ _ _ RR n x Hx Hlt) as RN.
  destruct (R_hyg _ _ _ _ _ _ RR n x Hx Hlt) as [HH _].
  pose proof (Hg n x Hx Hlt) as Hm.
  assert (Hro : RO_BASE <=? n = false) by (apply N.leb_gt; exact Hlt).
  unfold ev, r in *. cbn [tg_ok2 snap_ok san_ok flag_upd] in Htg, Hsn, Hsan.
  rewrite Hx, Hm in *. rewrite Hro in *. cbn [orb] in Htg, Hsn, Hsan.
  rewrite ProofsElectionBase.aget_aset, N.eqb_refl in Hsn.
  apply andb_true_iff in Hsan as [Hs1 Hs2]. apply N.leb_le in Hs1, Hs2.
  split.
  - intros Hne. apply orb_true_iff in Htg as [Ht|Ht]; [apply N.eqb_eq in Ht; contradiction|].
    rewrite (self_member_flag c mf V NDV SV VNE VRO Hb1 n x s HR RN (H_fi _ _ _ HH) (H_ac _ _ _ HH)). exact Ht.
  - intros s2 S2 K2 L2 End Hp0 Hp1.
    destruct (try_compact_ser e S2 Hp0) as [El Ea]. rewrite <- End in El, Ea, Hp1.
    rewrite Hp1 in Hsn. cbn [N.eqb Pos.eqb negb orb] in Hsn.
    change (mflag n (nd S2) s2 = true).
    assert (Q1 : applied x <= applied (nd S2)) by (rewrite <- Ea; exact Hs2).
    assert (Q2 : applied (nd S2) <= commit (nd S2)) by apply (H_ac _ _ _ (LS_h _ _ _ _ _ _ L2)).
    assert (Q3 : first_idx (log (nd S2)) <= applied x + 1) by (rewrite <- El; exact Hs1).
    rewrite (mflag_step c mf V NDV SV VNE VRO Hb1 n x (nd S2) s s2 HR (ksn_kstar _ _ _ _ K2) RN (LS_n _ _ _ _ _ _ L2)
               (H_ac _ _ _ HH) Q1 Q2 Q3).
    rewrite <- El, <- Ea. exact Hsn.
Qed.


Lemma aget_aset_ne {A} v n (m : A) l : v <> n -> aget v (aset n m l) = aget v l.
Proof. intros H. rewrite ProofsElectionBase.aget_aset. apply N.eqb_neq in H. rewrite H. reflexivity. Qed.

(* ---- one step, with the flags ---- *)
Theorem step_sim g st gm s ev g' r :
  GI g st gm s -> ev_okM V st ev = true -> join_ok V g ev = true -> small_evM2 c mf ev = true ->
  ver_okb c g ev = true -> ro_snap_okb g ev = true ->
  gstep c g ev = Some (g', r) ->
  tg_ok2 g gm ev r = true -> snap_ok g (flag_upd V g gm ev r) ev r = true -> san_ok g ev r = true ->
  exists s', kstar s s' /\ GI g' (st_after st ev) (flag_upd V g gm ev r) s'.
Proof.
  intros GG Hev Hnr Hsm Hver Hros Hstep Htg Hsn Hsan. pose proof GG as [G Hg].
  assert (Htick : forall n now rnd bud ord sl x, ev = ETick n now rnd bud ord sl -> aget n (nodes g) = Some x ->
            n < RO_BASE -> tick_hyps n (mk_env c now rnd bud ord sl) x s).
  { intros n now rnd bud ord sl x -> Hx Hlt. pose proof Hstep as Hst. unfold gstep in Hst. rewrite Hx in Hst.
    injection Hst as <- <-. eapply tick_hyps_of_flags; eauto. }
  destruct (step_sim0 g st s ev g' r G Hev Hnr Hsm Hver Hros Hstep Htick) as (s' & K & G').
  exists s'. split; [exact K|]. split; [exact G'|].
  pose proof (GI_R _ _ _ G) as RR. pose proof (GI_R _ _ _ G') as RR'.
  assert (HR' : KS.kreachable V' F0 s') by apply (GI_reach _ _ _ G').
  destruct ev as [n now rnd bud ord sl | a b now rnd ord | a b | a b k | a b | n cm cb | n cm cb | n cm cb
                 | n | n | n oth now rnd sv]; unfold gstep in Hstep; cbn [st_after] in *.
  - (* ETick *)
    destruct (aget n (nodes g)) as [x|] eqn:Hx; [|discriminate]. injection Hstep as <- <-.
    cbn [flag_upd san_ok]. cbn [san_ok] in Hsan. rewrite Hx in *.
    destruct (N.ltb_spec n RO_BASE) as [Hlt|Hge].
    + rewrite (Hg n x Hx Hlt).
      assert (Hro : RO_BASE <=? n = false) by (apply N.leb_gt; exact Hlt). rewrite Hro in Hsan. cbn [orb] in Hsan.
      apply andb_true_iff in Hsan as [Hs1 Hs2]. apply N.leb_le in Hs1, Hs2.
      set (S1 := on_tick (mk_env c now rnd bud ord sl) x) in *.
      assert (Hn1 : aget n (nodes (finish n S1 g)) = Some (nd S1)).
      { rewrite nodes_finish, ProofsElectionBase.aget_aset, N.eqb_refl. reflexivity. }
      apply (Gm_aset g _ st gm _ s s' n (nd S1) G Hg K (nodes_finish _ _ _)).
      * intros v Hv. apply aget_aset_ne. exact Hv.
      * intros _. rewrite ProofsElectionBase.aget_aset, N.eqb_refl. f_equal. symmetry.
        apply (mflag_step c mf V NDV SV VNE VRO Hb1 n x (nd S1) s s' (GI_reach _ _ _ G) K
                 (R_node _ _ _ _ _ _ RR n x Hx Hlt) (R_node _ _ _ _ _ _ RR' n (nd S1) Hn1 Hlt)); auto.
        -- apply (H_ac _ _ _ (proj1 (R_hyg _ _ _ _ _ _ RR n x Hx Hlt))).
        -- apply (H_ac _ _ _ (proj1 (R_hyg _ _ _ _ _ _ RR' n (nd S1) Hn1 Hlt))).
    + destruct (aget n gm) as [m|].
      * apply (Gm_aset g _ st gm _ s s' n _ G Hg K (nodes_finish _ _ _)).
        -- intros v Hv. apply aget_aset_ne. exact Hv.
        -- intros Hlt. lia.
      * apply (Gm_aset g _ st gm _ s s' n _ G Hg K (nodes_finish _ _ _)); auto. intros Hlt. lia.
  - (* EDeliver *)
    destruct (aget b (nodes g)) as [x|] eqn:Hx; [|discriminate].
    destruct (chan_get a b g) as [|m rest] eqn:Hch; [discriminate|]. injection Hstep as <- <-.
    cbn [flag_upd]. cbn [san_ok] in Hsan. rewrite Hx in *.
    set (S1 := on_message (mk_env c now rnd DEFAULT_BUDGET ord 0) a m x) in *.
    assert (En : nodes (finish b S1 (chan_set a b rest g)) = aset b (nd S1) (nodes g)) by (rewrite nodes_finish; reflexivity).
    destruct (applied (nd S1) =? applied x) eqn:Ea.
    + apply N.eqb_eq in Ea. apply (Gm_step_keep g _ st gm s s' b x (nd S1) G Hg K En Hx). auto.
    + destruct (N.ltb_spec b RO_BASE) as [Hlt|Hge].
      * assert (Hro : RO_BASE <=? b = false) by (apply N.leb_gt; exact Hlt). rewrite Hro in Hsan. cbn [orb] in Hsan.
        destruct (stored (sr (nd S1))) as [[sn|k0]|] eqn:Est; try discriminate Hsan.
        apply N.eqb_eq in Hsan.
        assert (Hn1 : aget b (nodes (finish b S1 (chan_set a b rest g))) = Some (nd S1)).
        { rewrite En, ProofsElectionBase.aget_aset, N.eqb_refl. reflexivity. }
        pose proof (R_node _ _ _ _ _ _ RR' b (nd S1) Hn1 Hlt) as RN1.
        apply (Gm_aset g _ st gm _ s s' b (nd S1) G Hg K En).
        -- intros v Hv. apply aget_aset_ne. exact Hv.
        -- intros _. rewrite ProofsElectionBase.aget_aset, N.eqb_refl. f_equal.
           destruct (Rn_stored _ _ _ _ _ _ RN1 _ Est sn eq_refl) as [Hv Hk].
           assert (Hkc : (n2 (eidx (s_e1 sn)) <= M.commit (M.nodes s' (n2 b)))%nat).
           { rewrite (Rn_commit _ _ _ _ _ _ RN1). lia. }
           destruct (valid_own c mf V NDV SV VNE VRO Hb1 s' (n2 b) sn HR' Hv Hkc) as (_ & _ & _ & Hms).
           unfold RefineM2Ghost.mflag. rewrite <- Hsan. symmetry. apply ms_mem. exact Hms.
      * destruct (stored (sr (nd S1))) as [[sn|k0]|].
        -- apply (Gm_aset g _ st gm _ s s' b _ G Hg K En); [intros v Hv; apply aget_aset_ne; exact Hv|intros; lia].
        -- apply (Gm_aset g _ st gm _ s s' b _ G Hg K En); auto. intros; lia.
        -- apply (Gm_aset g _ st gm _ s s' b _ G Hg K En); auto. intros; lia.
  - (* EDrop *)
    destruct (aget a (nodes g)) as [x|] eqn:Hx; [|discriminate]. injection Hstep as <- <-. cbn [flag_upd].
    apply (Gm_step_keep g _ st gm s s' a x (on_disconnected b x) G Hg K); auto.
    unfold on_disconnected. intros _. destruct (_ <=? _); reflexivity.
  - (* ELose *)
    injection Hstep as <- <-. cbn [flag_upd]. apply (Gm_sub2 g _ st gm s s' G Hg K). auto.
  - (* EConnect *)
    destruct (aget a (nodes g)) as [x|] eqn:Hx; [|discriminate]. injection Hstep as <- <-. cbn [flag_upd].
    apply (Gm_step_keep g _ st gm s s' a x (on_connected b x) G Hg K); auto.
    + rewrite nodes_finish. destruct (match aget b (nodes g) with Some y => negb (smem a (tconn y)) | None => true end);
        reflexivity.
    + unfold on_connected. intros _. destruct (_ <=? _); reflexivity.
  - (* ESubmit *)
    destruct (aget n (nodes g)) as [x|] eqn:Hx; [|discriminate]. injection Hstep as <- <-. cbn [flag_upd].
    cbn [san_ok] in Hsan. rewrite Hx in Hsan.
    apply (Gm_step_keep g _ st gm s s' n x _ G Hg K (nodes_finish _ _ _) Hx).
    intros Hlt. assert (Hro : RO_BASE <=? n = false) by (apply N.leb_gt; exact Hlt). rewrite Hro in Hsan.
    apply N.eqb_eq. exact Hsan.
  - (* EAdmin *)
    destruct (aget n (nodes g)) as [x|] eqn:Hx; [|discriminate]. injection Hstep as <- <-. cbn [flag_upd].
    cbn [san_ok] in Hsan. rewrite Hx in Hsan.
    apply (Gm_step_keep g _ st gm s s' n x _ G Hg K (nodes_finish _ _ _) Hx).
    intros Hlt. assert (Hro : RO_BASE <=? n = false) by (apply N.leb_gt; exact Hlt). rewrite Hro in Hsan.
    apply N.eqb_eq. exact Hsan.
  - (* ESetVer *)
    destruct (aget n (nodes g)) as [x|] eqn:Hx; [|discriminate]. injection Hstep as <- <-. cbn [flag_upd].
    cbn [san_ok] in Hsan. rewrite Hx in Hsan.
    apply (Gm_step_keep g _ st gm s s' n x _ G Hg K (nodes_finish _ _ _) Hx).
    intros Hlt. assert (Hro : RO_BASE <=? n = false) by (apply N.leb_gt; exact Hlt). rewrite Hro in Hsan.
    apply N.eqb_eq. exact Hsan.
  - (* ECompact *)
    destruct (aget n (nodes g)) as [x|] eqn:Hx; [|discriminate]. injection Hstep as <- <-. cbn [flag_upd].
    apply (Gm_step_keep g _ st gm s s' n x _ G Hg K (nodes_finish _ _ _) Hx). reflexivity.
  - (* EKill *)
    injection Hstep as <- <-. cbn [flag_upd]. apply (Gm_sub2 g _ st gm s s' G Hg K).
    intros v y Hy. cbn [nodes set] in Hy.
    assert (N1 : forall g1, g1 = match aget n (nodes g) with
               | Some x => match disk_of c x with
                           | Some d => g <| disks := aset n d (disks g) |>
                           | None => g <| disks := adel n (disks g) |> end
               | None => g end -> nodes g1 = nodes g).
    { intros g1 ->. destruct (aget n (nodes g)); [destruct (disk_of c n0)|]; reflexivity. }
    rewrite (N1 _ eq_refl) in Hy.
    destruct (N.eq_dec v n) as [->|Hne].
    + rewrite ProofsElectionBase.aget_adel_same in Hy; [discriminate|apply (GI_sorted _ _ _ G)].
    + rewrite aget_adel_neq in Hy; auto.
  - (* ERestart *)
    injection Hstep as <- <-. cbn [flag_upd].
    match goal with |- Gm (put_node n ?x0 ?g1) _ _ => set (y0 := x0); set (gg := g1) end.
    assert (En : nodes (put_node n y0 gg) = aset n y0 (nodes g)) by reflexivity.
    apply (Gm_aset g _ st gm _ s s' n y0 G Hg K En).
    + intros v Hv. apply aget_aset_ne. exact Hv.
    + intros Hlt. rewrite ProofsElectionBase.aget_aset, N.eqb_refl. f_equal.
      cbn [ev_okM] in Hev. assert (Hl : n <? RO_BASE = true) by (apply N.ltb_lt; exact Hlt). rewrite Hl in Hev.
      apply andb_true_iff in Hev as [H2 _].
      assert (Hnst : ~ In n st).
      { intros Hin. apply smem_In in Hin. rewrite Hin in H2. discriminate. }
      assert (Hd : aget n (disks g) = None).
      { destruct (aget n (disks g)) as [d|] eqn:E; auto. exfalso. apply Hnst.
        apply ProofsElectionBase.aget_In in E. apply (GI_disk _ _ _ G n d E Hlt). }
      assert (Ha : applied y0 = 1).
      { unfold y0. rewrite Hd. destruct (if RO_BASE <=? n then None else Some n); reflexivity. }
      unfold RefineM2Ghost.mflag. rewrite Ha.
      destruct (first_is_e0 c mf V NDV SV VNE VRO Hb1 s' (n2 n) HR') as (r0 & ->).
      change (n2 1) with 1%nat. cbn [firstn]. unfold M.gcfg. cbn [fold_left M.gapp M.ecmd M.e0]. symmetry. apply mem_absV.
Qed.

End Main.
