(* C01, local part: the apply loop walks consecutive indices of a well-formed log, the user
   state is the replay of what was applied, snapshots capture / restore exactly that. *)
From Coq Require Import ZArith NArith List Bool Lia ZifyBool ZifyN.
From RecordUpdate Require Import RecordSet.
From PSO Require Import Raft.Types Raft.Node Raft.Net Raft.ProofsApplyBase Raft.ProofsApply.
From PSO Require Raft.ProofsCommitBase Raft.ProofsCommit.
Import ListNotations.
Import RecordSetNotations.
Open Scope N_scope.

(* ------------------------------------------------------------------ *)
(* well-formed logs: non-empty, indices increase by exactly one         *)
(* ------------------------------------------------------------------ *)
Fixpoint consec (i : N) (l : list entry) : Prop :=
  match l with [] => True | e :: r => eidx e = i /\ consec (i + 1) r end.

Definition log_wf (l : list entry) : Prop := l <> [] /\ consec (first_idx l) l.

Lemma consec_app : forall a b i, consec i (a ++ b) <-> consec i a /\ consec (i + N.of_nat (length a)) b.
Proof.
  induction a as [|e a IH]; intros b i; cbn [app consec length].
  - rewrite N.add_0_r. tauto.
  - rewrite IH. replace (i + 1 + N.of_nat (length a)) with (i + N.of_nat (Datatypes.S (length a))) by lia. tauto.
Qed.

Lemma consec_firstn : forall k l i, consec i l -> consec i (firstn k l).
Proof.
  induction k as [|k IH]; intros l i H; cbn; auto.
  destruct l as [|e r]; cbn in *; auto. destruct H. split; auto.
Qed.

Lemma consec_skipn : forall k l i, consec i l -> consec (i + N.of_nat (Nat.min k (length l))) (skipn k l).
Proof.
  induction k as [|k IH]; intros l i H; cbn [skipn Nat.min].
  - cbn. now rewrite N.add_0_r.
  - destruct l as [|e r]; cbn [length Nat.min]. { cbn. auto. }
    destruct H as [_ H]. apply IH in H.
    replace (i + N.of_nat (Datatypes.S (Nat.min k (length r)))) with (i + 1 + N.of_nat (Nat.min k (length r))) by lia.
    exact H.
Qed.

Lemma consec_last : forall l i, consec i l -> l <> [] -> last_idx l = i + N.of_nat (length l) - 1.
Proof.
  unfold last_idx.
  induction l as [|e r IH]; intros i H NE; [congruence|].
  destruct H as [E H]. destruct r as [|e2 r2].
  - cbn. lia.
  - specialize (IH (i + 1) H ltac:(discriminate)).
    change (last_entry (e :: e2 :: r2)) with (last_entry (e2 :: r2)). rewrite IH. cbn [length]. lia.
Qed.

Lemma consec_in : forall l i e, consec i l -> In e l -> i <= eidx e < i + N.of_nat (length l).
Proof.
  induction l as [|x r IH]; intros i e H I; [destruct I|].
  destruct H as [E H]. destruct I as [<-|I].
  - cbn [length]. lia.
  - specialize (IH _ _ H I). cbn [length]. lia.
Qed.

Lemma consec_nodup : forall l i, consec i l -> NoDup (map eidx l).
Proof.
  induction l as [|x r IH]; intros i H; cbn; [constructor|].
  destruct H as [E H]. constructor; eauto.
  intros I. apply in_map_iff in I as [e [E2 I]]. pose proof (consec_in _ _ _ H I). lia.
Qed.

Lemma log_wf_last : forall l, log_wf l -> last_idx l = first_idx l + N.of_nat (length l) - 1.
Proof. intros l [NE C]. now apply consec_last. Qed.

(* the entries [f, f+c) of a well-formed log *)
Lemma get_entries_wf : forall l f c,
  log_wf l -> first_idx l <= f ->
  let es := get_entries l (Some f) (Some c) None in
  consec f es /\
  N.of_nat (length es) = N.min c (last_idx l + 1 - f) /\
  exists a b, l = a ++ es ++ b /\ N.of_nat (length a) = N.min (f - first_idx l) (N.of_nat (length l)).
Proof.
  intros l f c [NE C] LE. cbn zeta. unfold get_entries.
  destruct (f <? first_idx l) eqn:E; [lia|].
  set (k := N.to_nat (f - first_idx l)).
  pose proof (consec_skipn k l _ C) as C1.
  pose proof (consec_firstn (N.to_nat c) _ _ C1) as C2.
  pose proof (consec_last _ _ C NE) as LA.
  assert (LN : (length l > 0)%nat) by (destruct l; cbn; [congruence|lia]).
  split; [|split].
  - destruct (Nat.le_gt_cases (length l) k) as [GE|LT].
    + rewrite skipn_all2 by lia. rewrite firstn_nil. exact I.
    + replace (first_idx l + N.of_nat (Nat.min k (length l))) with f in C2 by lia. exact C2.
  - rewrite firstn_length, skipn_length. lia.
  - exists (firstn k l), (skipn (N.to_nat c) (skipn k l)).
    rewrite firstn_skipn, firstn_skipn. split; auto. rewrite firstn_length. lia.
Qed.

(* the apply loop leaves the log and the commit index alone *)
Definition lc (s : S) := (log (nd s), commit (nd s)).

Lemma lc_do_change_cluster : forall a x r s, lc (fst (do_change_cluster a x r s)) = lc s.
Proof.
  intros. unfold do_change_cluster.
  repeat match goal with |- context [if ?b then _ else _] => destruct b end; reflexivity.
Qed.

Lemma lc_do_apply : forall c s, lc (fst (do_apply c s)) = lc s.
Proof.
  intros. unfold do_apply.
  destruct (ck c =? 3).
  - destruct (self_ver (nd s) <? ca c); reflexivity.
  - destruct (membership_of c) as [[a x]|].
    + destruct (applied (nd s) <? replay_idx (nd s)); cbn [fst]; auto. apply lc_do_change_cluster.
    + destruct (ck c =? 0); auto. destruct (cb c =? 1); reflexivity.
Qed.

Lemma lc_apply_one : forall en s, lc (fst (apply_one en s)) = lc s.
Proof.
  intros. rewrite apply_one_unfold. cbn zeta.
  pose proof (lc_do_apply (ecmd en) (pop_wc (eidx en) s)) as L.
  destruct (snd (do_apply (ecmd en) (pop_wc (eidx en) s))); cbn [fst]; auto;
  match goal with |- lc (upd _ ?X) = _ => change (lc X = lc s) end;
  match goal with |- context [sub_loop en ?r ?l ?s1] =>
    destruct (sub_loop_spec en r l s1) as (L1 & _) end;
  unfold lc in *; rewrite L1; exact L.
Qed.

Lemma lc_apply_list : forall es s, lc (apply_list es s) = lc s.
Proof.
  induction es as [|en r IH]; intros s; auto.
  rewrite apply_list_cons. destruct (snd (apply_one en s)).
  - rewrite IH. apply lc_apply_one.
  - apply lc_apply_one.
Qed.

(* ------------------------------------------------------------------ *)
(* C01_apply_consecutive                                                *)
(* ------------------------------------------------------------------ *)

(* the entries apply_entries executes *)
Definition applied_now (s : S) : list entry :=
  if applied (nd s) <? commit (nd s) then
    runnable (self_ver (nd s))
      (get_entries (log (nd s)) (Some (applied (nd s) + 1)) (Some (commit (nd s) - applied (nd s))) None)
  else [].

Lemma apply_entries_unfold : forall e s,
  fst (apply_entries e s) =
  if applied (nd s) <? commit (nd s)
  then apply_list (get_entries (log (nd s)) (Some (applied (nd s) + 1)) (Some (commit (nd s) - applied (nd s))) None) s
  else s.
Proof. intros. unfold apply_entries. destruct (applied (nd s) <? commit (nd s)); reflexivity. Qed.

Theorem apply_consecutive : forall (e : env) (s : S),
  log_wf (log (nd s)) ->
  let s' := fst (apply_entries e s) in
  let es := applied_now s in
  (* what is executed: consecutive indices from applied+1, a contiguous piece of the log *)
  consec (applied (nd s) + 1) es /\
  (exists a b, log (nd s) = a ++ es ++ b) /\
  NoDup (map eidx es) /\
  (* applied ends at the last executed index (or stays) and never passes commit or the log end *)
  applied (nd s') = applied (nd s) + N.of_nat (length es) /\
  (es <> [] -> applied (nd s') = last_idx es) /\
  applied (nd s') <= N.max (applied (nd s)) (N.min (commit (nd s)) (last_idx (log (nd s)))) /\
  (* nothing is skipped: without an entry that needs a newer code version it reaches min(commit, last) *)
  (first_idx (log (nd s)) <= applied (nd s) + 1 -> applied (nd s) <= last_idx (log (nd s)) ->
   (forall en, In en (log (nd s)) -> needs_ver (self_ver (nd s)) (ecmd en) = false) ->
   applied (nd s') = N.max (applied (nd s)) (N.min (commit (nd s)) (last_idx (log (nd s))))) /\
  (* the user state is extended by the replay of exactly these entries; no exception escapes;
     the log and the commit index are not touched *)
  hist (nd s') = hist (nd s) ++ replay es /\
  enabled_ver (nd s') = ver_after (enabled_ver (nd s)) es /\
  exc s' = exc s /\
  log (nd s') = log (nd s) /\ commit (nd s') = commit (nd s).
Proof.
  intros e s WF. cbn zeta. rewrite apply_entries_unfold. unfold applied_now.
  destruct (applied (nd s) <? commit (nd s)) eqn:AC.
  2:{ cbn. rewrite !app_nil_r, N.add_0_r. repeat split; auto; try lia; try congruence.
      - exists [], (log (nd s)). reflexivity.
      - constructor. }
  set (full := get_entries (log (nd s)) (Some (applied (nd s) + 1)) (Some (commit (nd s) - applied (nd s))) None).
  destruct (apply_list_spec full s) as (H1 & H2 & H3 & H4 & H5 & H6 & H7 & H8 & H9 & H10).
  pose proof (lc_apply_list full s) as LC. unfold lc in LC. injection LC as LC1 LC2.
  set (run := runnable (self_ver (nd s)) full) in *.
  destruct (runnable_prefix (self_ver (nd s)) full) as [tl Etl]. fold run in Etl.
  pose proof (log_wf_last _ WF) as LAST.
  destruct (N.le_gt_cases (first_idx (log (nd s))) (applied (nd s) + 1)) as [LE|GT].
  - destruct (get_entries_wf (log (nd s)) (applied (nd s) + 1) (commit (nd s) - applied (nd s)) WF LE)
      as (G1 & G2 & (a & b & G3 & G4)).
    fold full in G1, G2, G3.
    assert (CR : consec (applied (nd s) + 1) run).
    { rewrite Etl in G1. apply consec_app in G1. tauto. }
    assert (LR : N.of_nat (length run) <= N.of_nat (length full)).
    { rewrite Etl, app_length. lia. }
    repeat split; auto.
    + exists a, (tl ++ b). rewrite G3, Etl at 1. now rewrite <- !app_assoc.
    + eapply consec_nodup; eauto.
    + intros NE. rewrite (consec_last _ _ CR NE), H3.
      assert ((length run > 0)%nat) by (destruct run; cbn; [congruence|lia]). lia.
    + rewrite H3. lia.
    + intros _ LA NB. rewrite H3. unfold run. rewrite runnable_none.
      * lia.
      * intros en I. apply NB. rewrite G3. apply in_or_app. right. apply in_or_app. now left.
  - assert (F : full = []).
    { unfold full, get_entries. destruct (applied (nd s) + 1 <? first_idx (log (nd s))) eqn:E; auto. lia. }
    assert (R : run = []) by (unfold run; rewrite F; reflexivity).
    rewrite H1, H2, H3, R. cbn. rewrite N.add_0_r.
    repeat split; auto; try lia; try congruence.
    + exists [], (log (nd s)). reflexivity.
    + constructor.
Qed.

(* ------------------------------------------------------------------ *)
(* C01_state_is_replay, the three local facts                           *)
(* ------------------------------------------------------------------ *)

(* (a) apply_entries extends the user state by the replay of exactly what it executed:
       part of apply_consecutive above. *)

(* (b) serialization captures the user state and the two entries at applied-1 / applied of the
       same instant *)
Theorem compact_captures : forall (e : env) (s : S),
  log_wf (log (nd s)) ->
  pid (sr (nd s)) = 0 ->
  let s' := try_compact e s in
  hist (nd s') = hist (nd s) /\ applied (nd s') = applied (nd s) /\ enabled_ver (nd s') = enabled_ver (nd s) /\
  log (nd s') = log (nd s) /\
  (pid (sr (nd s')) = 0 /\ stored (sr (nd s')) = stored (sr (nd s))
   \/
   exists sn, pid (sr (nd s')) = 1 /\ stored (sr (nd s')) = Some (Good sn) /\ cur_id (sr (nd s')) = eidx (s_e0 sn) /\
     s_hist sn = hist (nd s) /\ s_ver sn = enabled_ver (nd s) /\
     eidx (s_e0 sn) = applied (nd s) - 1 /\ eidx (s_e1 sn) = eidx (s_e0 sn) + 1 /\
     (exists a b, log (nd s) = a ++ s_e0 sn :: s_e1 sn :: b)).
Proof.
  intros e s WF P. cbn zeta. unfold try_compact. rewrite P. cbn [N.eqb negb].
  match goal with |- context [if ?b then s else _] => destruct b end.
  { repeat split; auto. }
  pose proof (log_wf_last _ WF) as LAST.
  destruct (N.le_gt_cases (first_idx (log (nd s))) (applied (nd s) - 1)) as [LE|GT].
  - destruct (get_entries_wf (log (nd s)) (applied (nd s) - 1) 2 WF LE) as (G1 & G2 & (a & b & G3 & G4)).
    destruct (get_entries (log (nd s)) (Some (applied (nd s) - 1)) (Some 2) None) as [|e0 [|e1 r]] eqn:GE.
    + cbn. repeat split; auto.
    + cbn. repeat split; auto.
    + destruct (opt_eqb (Some (eidx e0)) (last_ser_entry (nd s))).
      * cbn. repeat split; auto.
      * cbn. repeat split; auto. right. eexists. repeat split; try reflexivity; cbn [s_e0 s_e1 s_hist s_ver].
        -- destruct G1 as [E0 _]. exact E0.
        -- destruct G1 as [E0 [E1 _]]. lia.
        -- exists a, (r ++ b). rewrite G3 at 1. reflexivity.
  - assert (F : get_entries (log (nd s)) (Some (applied (nd s) - 1)) (Some 2) None = []).
    { unfold get_entries. destruct (applied (nd s) - 1 <? first_idx (log (nd s))) eqn:E; auto. lia. }
    rewrite F. cbn. repeat split; auto.
Qed.

(* (c) loading a dump installs the snapshot's user state, sets applied to the index of its last
       entry; when the log is cleared it becomes [e0; e1] *)
Theorem load_dump_installs : forall (e : env) (clear : bool) (s : S) (sn : snapshot),
  stored (sr (nd s)) = Some (Good sn) ->
  s_ver sn <= self_ver (nd s) ->
  (clear = true -> applied (nd s) < eidx (s_e1 sn)) ->
  let s' := load_dump e clear s in
  hist (nd s') = s_hist sn /\ enabled_ver (nd s') = s_ver sn /\ applied (nd s') = eidx (s_e1 sn) /\
  self_ver (nd s') = self_ver (nd s) /\ commit (nd s') = commit (nd s) /\
  (* the log keeps its entries from the dump's position on when it holds the dump's two entries *)
  log (nd s') = (if ProofsCommit.snap_kept sn (log (nd s))
                 then delete_to (log (nd s)) (eidx (s_e0 sn)) else [s_e0 sn; s_e1 sn]) /\
  (* in every case the log now starts with (entries equal to) e0, e1 or is exactly [e0; e1] *)
  (log (nd s') = [s_e0 sn; s_e1 sn] \/
   exists a b r, log (nd s') = a :: b :: r /\ entry_eqb a (s_e0 sn) = true /\ entry_eqb b (s_e1 sn) = true /\
                 exists pre, log (nd s) = pre ++ a :: b :: r).
Proof.
  intros e clear s sn ST V AH. cbn zeta.
  assert (HB : clear && (eidx (s_e1 sn) <=? applied (nd s)) = false).
  { destruct clear; [|reflexivity]. specialize (AH eq_refl). cbn. apply N.leb_gt. exact AH. }
  destruct (ProofsCommit.load_dump_loaded e clear s sn ST HB V) as [HL HA].
  assert (HH : hist (nd (load_dump e clear s)) = s_hist sn /\ enabled_ver (nd (load_dump e clear s)) = s_ver sn).
  { unfold load_dump. rewrite ST, HB.
    destruct (self_ver (nd s) <? s_ver sn) eqn:E; [lia|]. cbv zeta.
    match goal with |- context [update_cluster ?l ?s4] => set (s5 := s4) end.
    assert (E5 : hist (nd s5) = s_hist sn /\ enabled_ver (nd s5) = s_ver sn).
    { subst s5. repeat (match goal with |- context [if ?b then _ else _] => destruct b end;
                        cbn [nd upd hist enabled_ver set]); split; reflexivity. }
    clearbody s5. destruct E5 as [E5a E5b].
    destruct (dyn (cf e)); [|auto].
    match goal with |- context [if ?b then apply_membership _ _ _ else _] => destruct b end;
      rewrite ?(ProofsCommitBase.fr_apply_membership hist), ?(ProofsCommitBase.fr_apply_membership enabled_ver)
        by (intros; reflexivity);
      rewrite (ProofsCommitBase.fr_update_cluster hist), (ProofsCommitBase.fr_update_cluster enabled_ver)
        by (intros; reflexivity); auto. }
  destruct HH as [H1 H2].
  split; [exact H1|]. split; [exact H2|]. split; [exact HA|].
  split; [apply (ProofsCommitBase.fr_load_dump self_ver); intros; reflexivity|].
  split; [apply (ProofsCommitBase.fr_load_dump commit); intros; reflexivity|].
  split; [exact HL|].
  rewrite HL. destruct (ProofsCommit.snap_kept sn (log (nd s))) eqn:Ek; [|now left].
  destruct (ProofsCommit.snap_kept_split sn _ Ek) as (pre & a & b & r & Hl & Hd & Ha & Hb).
  right. exists a, b, r. rewrite Hd. repeat split; auto. now exists pre.
Qed.
