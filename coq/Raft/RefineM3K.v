(* Tier CM3, part 2 (copy of RefineMK.v; target [kstep3]): the atomic L0 transitions in functional form, each with the frame
   [ext j] it respects (only node j moves; net and grants only grow). *)
From Coq Require Import ZArith NArith List Bool Lia ZifyBool Arith PeanoNat.
From PSO Require Import Raft.Types Raft.RefineMAbs Raft.RefineM3Abs.
From PSO Require AbstractM.Model AbstractM.Lib AbstractM.Kstep.
Import ListNotations.

Section K.
Variable V' : list nat.

Lemma upd_ne {A} (f : nat -> A) n x i : i <> n -> M.upd f n x i = f i.
Proof. apply ML.upd_other. Qed.

Lemma upd_eq {A} (f : nat -> A) n x : M.upd f n x n = x.
Proof. apply ML.upd_same. Qed.

Lemma ext_mk j s y nt gr w l a d :
  incl (M.net s) nt -> incl (M.grants s) gr -> cand_stable (M.nodes s j) y ->
  ext j s (M.mkS (M.upd (M.nodes s) j y) nt gr w l a d).
Proof.
  intros H1 H2 H3. constructor; cbn; auto.
  - intros i Hi. apply upd_ne; auto.
  - rewrite upd_eq. exact H3.
Qed.

Lemma ext_same_nodes j s nt gr w l a d :
  incl (M.net s) nt -> incl (M.grants s) gr -> ext j s (M.mkS (M.nodes s) nt gr w l a d).
Proof. intros H1 H2. constructor; cbn; auto. apply cand_stable_refl. Qed.

(* discharging [cand_stable] for the explicit new node of a rule *)
Ltac cst :=
  unfold M.bump; split; cbn [M.term M.rl M.log M.base M.votesFrom];
  [try lia|
   let Hcr := fresh "Hcr" in let Hct := fresh "Hct" in
   intros Hcr Hct; try discriminate; try lia; try congruence;
   repeat split; auto using incl_refl, incl_tl;
   try (destruct (M.mem _ _); auto using incl_refl, incl_tl)].

Lemma lk s a b : M.link_ok F3 s a b.
Proof. intros H. discriminate. Qed.

(* ---- Timeout (without the possible become-leader) ---- *)
Definition t_timeout (j : nat) (s : M.state) : M.state :=
  let x := M.nodes s j in
  M.mkS (M.upd (M.nodes s) j
           (M.mkN (S (M.term x)) (Some j) M.Candidate (M.log x) (M.commit x) [j] (M.matchIdx x)
                  (M.lf x) (M.base x) (M.noopi x)))
        (M.RequestVote (S (M.term x)) j (length (M.log x)) (M.lastTerm (M.log x)) :: M.net s)
        ((S (M.term x), j, j) :: M.grants s) (M.wins s) (M.llog s) (M.acks s) (M.direct s).

Lemma t_timeout_ok j s :
  M.lf (M.nodes s j) = M.Up -> M.rl (M.nodes s j) <> M.Leader ->
  K3.tcond V' s j ->
  K3.kstep3 V' F3 s (t_timeout j s) /\ ext j s (t_timeout j s).
Proof.
  intros Hj Hr Hg. split; [split|].
  - unfold t_timeout. apply (KS.K_timeout V' F3 s j (M.nodes s j)); auto; [discriminate|apply KS.fupd_upd].
  - right. exists (S (M.term (M.nodes s j))), j, j. split; [reflexivity|]. left. auto.
  - apply ext_mk; [apply incl_tl, incl_refl|apply incl_tl, incl_refl|cst].
Qed.

(* ---- become leader ---- *)
Lemma t_lead_ok j s :
  M.lf (M.nodes s j) = M.Up -> M.rl (M.nodes s j) = M.Candidate ->
  M.majority_of (M.cfg j (M.nodes s j)) (length (M.votesFrom (M.nodes s j))) = true ->
  K3.kstep3 V' F3 s (M.do_lead j s) /\ ext j s (M.do_lead j s).
Proof.
  intros Hj Hr Hm. split; [split; [apply KS.lead_kstep; auto|left; reflexivity]|].
  unfold M.do_lead. apply ext_mk; [apply incl_refl|apply incl_refl|cst].
Qed.

(* ---- adopt a higher term ---- *)
Definition t_adopt (j t : nat) (s : M.state) : M.state := M.set_node s j (M.bump t (M.nodes s j)).

Lemma t_adopt_ok j t s :
  M.lf (M.nodes s j) = M.Up -> (M.term (M.nodes s j) < t)%nat ->
  K3.kstep3 V' F3 s (t_adopt j t s) /\ ext j s (t_adopt j t s).
Proof.
  intros Hj Ht. split; [split|].
  - unfold t_adopt, M.set_node, M.bump. apply (KS.K_adopt V' F3 s j (M.nodes s j) t); auto. apply KS.fupd_upd.
  - left; reflexivity.
  - unfold t_adopt, M.set_node. apply ext_mk; [apply incl_refl|apply incl_refl|cst].
Qed.

(* ---- grant a vote ---- *)
Lemma t_grant_ok j t c li lt s :
  M.lf (M.nodes s j) = M.Up -> In (M.RequestVote t c li lt) (M.net s) ->
  M.rl (M.nodes s j) <> M.Leader -> M.term (M.nodes s j) = t ->
  M.up_to_date (M.log (M.nodes s j)) li lt = true -> M.voted (M.nodes s j) = None ->
  j <> c -> M.linked s c j = true ->
  K3.kstep3 V' F3 s (M.do_grant j t c s) /\ ext j s (M.do_grant j t c s).
Proof.
  intros Hj Hm Hr Ht Hu Hv Hjc Hlk. split; [split|].
  - unfold M.do_grant. apply (KS.K_grant V' F3 s j (M.nodes s j) t c li lt); auto using lk. apply KS.fupd_upd.
  - right. exists t, j, c. split; [reflexivity|]. right. auto.
  - unfold M.do_grant. apply ext_mk; [apply incl_tl, incl_refl|apply incl_tl, incl_refl|cst].
Qed.

(* ---- count a vote ---- *)
Definition t_count (j v : nat) (s : M.state) : M.state :=
  let x := M.nodes s j in
  M.set_node s j (M.mkN (M.term x) (M.voted x) (M.rl x) (M.log x) (M.commit x)
                        (if M.mem v (M.votesFrom x) then M.votesFrom x else v :: M.votesFrom x)
                        (M.matchIdx x) (M.lf x) (M.base x) (M.noopi x)).

Lemma t_count_ok j v s :
  M.lf (M.nodes s j) = M.Up -> In (M.Vote (M.term (M.nodes s j)) v j) (M.net s) ->
  M.rl (M.nodes s j) = M.Candidate -> M.mem v (M.cfg j (M.nodes s j)) = true ->
  K3.kstep3 V' F3 s (t_count j v s) /\ ext j s (t_count j v s).
Proof.
  intros Hj Hm Hr Hc. split; [split|].
  - unfold t_count, M.set_node. apply (KS.K_count V' F3 s j (M.nodes s j) v); auto using lk. apply KS.fupd_upd.
  - left; reflexivity.
  - unfold t_count, M.set_node. apply ext_mk; [apply incl_refl|apply incl_refl|].
    split; cbn [M.term M.rl M.log M.base M.votesFrom]; [lia|]. intros _ _. repeat split; auto.
    destruct (M.mem v (M.votesFrom (M.nodes s j))); [apply incl_refl|apply incl_tl, incl_refl].
Qed.

(* ---- client request ---- *)
Lemma t_client_ok j c s :
  M.lf (M.nodes s j) = M.Up -> M.rl (M.nodes s j) = M.Leader -> M.client_ok F3 j (M.nodes s j) c = true ->
  K3.kstep3 V' F3 s (M.do_client j c s) /\ ext j s (M.do_client j c s).
Proof.
  intros Hj Hr Hg. split; [split|].
  - unfold M.do_client. apply (KS.K_client V' F3 s j (M.nodes s j) c); auto; apply KS.fupd_upd.
  - left; reflexivity.
  - unfold M.do_client. apply ext_mk; [apply incl_refl|apply incl_refl|cst].
Qed.

(* ---- send append entries ---- *)
Lemma t_sendae_ok j d p k s :
  M.lf (M.nodes s j) = M.Up -> M.rl (M.nodes s j) = M.Leader -> (p < length (M.log (M.nodes s j)))%nat ->
  d <> j -> In d (M.cfg j (M.nodes s j)) ->
  K3.kstep3 V' F3 s (M.do_send_ae j d p k s) /\ ext j s (M.do_send_ae j d p k s).
Proof.
  intros Hj Hr Hp Hd Hdc. split; [split|].
  - unfold M.do_send_ae. apply (KS.K_sendae V' F3 s j (M.nodes s j) d p k); auto.
  - left; reflexivity.
  - unfold M.do_send_ae. apply ext_same_nodes; [apply incl_tl|]; apply incl_refl.
Qed.

(* ---- refuse / accept append entries ---- *)
Lemma t_ae_fail_ok j t l pi pt es lc s :
  M.lf (M.nodes s j) = M.Up -> In (M.AppendEntries t l j pi pt es lc) (M.net s) -> j <> l ->
  M.term (M.nodes s j) = t ->
  K3.kstep3 V' F3 s (M.ae_fail j t s) /\ ext j s (M.ae_fail j t s).
Proof.
  intros Hj Hm Hne Ht. split; [split|].
  - unfold M.ae_fail. apply (KS.K_ae_fail V' F3 s j (M.nodes s j) t l pi pt es lc); auto using lk. apply KS.fupd_upd.
  - left; reflexivity.
  - unfold M.ae_fail. apply ext_mk; [apply incl_tl, incl_refl|apply incl_refl|cst].
Qed.

Lemma t_ae_ok_ok j t l p pt es lc pe s :
  M.lf (M.nodes s j) = M.Up -> In (M.AppendEntries t l j (S p) pt es lc) (M.net s) -> j <> l ->
  M.term (M.nodes s j) = t ->
  nth_error (M.log (M.nodes s j)) p = Some pe -> M.eterm pe = pt ->
  K3.kstep3 V' F3 s (M.ae_ok j t (S p) es lc s) /\ ext j s (M.ae_ok j t (S p) es lc s).
Proof.
  intros Hj Hm Hne Ht Hp Hpt. split; [split|].
  - unfold M.ae_ok. apply (KS.K_ae_ok V' F3 s j (M.nodes s j) t l p pt es lc pe); auto using lk. apply KS.fupd_upd.
  - left; reflexivity.
  - unfold M.ae_ok. apply ext_mk; [apply incl_tl, incl_refl|apply incl_refl|cst].
Qed.

(* ---- a success reply reaches the leader ---- *)
Definition t_ar (j f m : nat) (s : M.state) : M.state :=
  let x := M.nodes s j in
  M.set_node s j (M.mkN (M.term x) (M.voted x) (M.rl x) (M.log x) (M.commit x) (M.votesFrom x)
                        (M.upd (M.matchIdx x) f (Nat.max (M.matchIdx x f) m)) (M.lf x) (M.base x) (M.noopi x)).

Lemma t_ar_ok j f m s :
  M.lf (M.nodes s j) = M.Up -> In (M.AppendReply (M.term (M.nodes s j)) f true m) (M.net s) ->
  M.rl (M.nodes s j) = M.Leader ->
  K3.kstep3 V' F3 s (t_ar j f m s) /\ ext j s (t_ar j f m s).
Proof.
  intros Hj Hm Hr. split; [split|].
  - unfold t_ar, M.set_node. apply (KS.K_ar V' F3 s j (M.nodes s j) f m); auto using lk. apply KS.fupd_upd.
  - left; reflexivity.
  - unfold t_ar, M.set_node. apply ext_mk; [apply incl_refl|apply incl_refl|cst].
Qed.

(* ---- advance the commit index ---- *)
Lemma t_commit_ok j p s :
  M.lf (M.nodes s j) = M.Up -> M.rl (M.nodes s j) = M.Leader -> (M.commit (M.nodes s j) <= p)%nat ->
  (p < length (M.log (M.nodes s j)))%nat ->
  M.eterm (nth p (M.log (M.nodes s j)) M.e0) = M.term (M.nodes s j) ->
  M.majority_of (M.cfg j (M.nodes s j)) (length (M.commit_set j p (M.nodes s j))) = true ->
  K3.kstep3 V' F3 s (M.do_commit j p s) /\ ext j s (M.do_commit j p s).
Proof.
  intros Hj Hr Hc Hp He Hm. split; [split|].
  - unfold M.do_commit. apply (KS.K_commit V' F3 s j (M.nodes s j) p); auto. apply KS.fupd_upd.
  - left; reflexivity.
  - unfold M.do_commit. apply ext_mk; [apply incl_refl|apply incl_refl|cst].
Qed.

(* ---- step down ---- *)
Lemma t_stepdown_ok j s :
  M.lf (M.nodes s j) = M.Up -> M.rl (M.nodes s j) = M.Leader ->
  K3.kstep3 V' F3 s (M.do_stepdown j s) /\ ext j s (M.do_stepdown j s).
Proof.
  intros Hj Hr. split; [split|].
  - unfold M.do_stepdown, M.set_node. apply (KS.K_stepdown V' F3 s j (M.nodes s j)); auto. apply KS.fupd_upd.
  - left; reflexivity.
  - unfold M.do_stepdown, M.set_node. apply ext_mk; [apply incl_refl|apply incl_refl|cst].
Qed.

End K.
