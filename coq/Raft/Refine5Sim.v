(* Tier C3, part 3: the local simulation framework with compacted logs (ghost full log) and
   snapshot blobs. *)
From Coq Require Import ZArith NArith List Bool Lia ZifyBool Arith PeanoNat.
From RecordUpdate Require Import RecordSet.
From PSO Require Import Raft.Types Raft.Node Raft.Net Raft.ProofsCommitBase.
From PSO Require Import Raft.ProofsElectionBase Raft.RefineAbs Raft.RefineK Raft.RefineSpecA.
From PSO Require Import Raft.Refine5Abs Raft.Refine5SpecA.
From PSO Require Abstract.Model Abstract.Lib Abstract.Kstep.
Import ListNotations.
Import RecordSetNotations.
Open Scope N_scope.
#[local] Arguments firstn : simpl nomatch.
#[local] Arguments skipn : simpl nomatch.

(* the fields [Rn] reads (besides the transmission table) / the fields [Hn] reads *)
Definition rv (x : node) :=
  (role x, term x, voted x, votes x, log x, commit x, match_idx x, stored (sr x), incoming (sr x)).
Definition hv (x : node) :=
  (log x, queue x, replay_idx x, applied x, readonly x, commit x, srv x).

Lemma rv_eq x y : rv x = rv y ->
  role x = role y /\ term x = term y /\ voted x = voted y /\ votes x = votes y /\ log x = log y /\
  commit x = commit y /\ match_idx x = match_idx y /\ stored (sr x) = stored (sr y) /\
  incoming (sr x) = incoming (sr y).
Proof. unfold rv. intros H. repeat split; congruence. Qed.

Lemma hv_eq x y : hv x = hv y ->
  log x = log y /\ queue x = queue y /\ replay_idx x = replay_idx y /\
  applied x = applied y /\ readonly x = readonly y /\ commit x = commit y /\ srv x = srv y.
Proof. unfold hv. intros H. repeat split; congruence. Qed.

Lemma fw_rv x y : fw x = fw y -> rv x = rv y.
Proof.
  intros H. fwinj_n H F. destruct (srv_eq _ _ Fsrv) as (A & B & C & D). unfold rv. congruence.
Qed.
Lemma fw_hv x y : fw x = fw y -> hv x = hv y.
Proof. intros H. fwinj_n H F. unfold hv. congruence. Qed.
Lemma fv_rv x y : fv x = fv y -> rv x = rv y.
Proof. intros H. apply fw_rv, fv_fw, H. Qed.
Lemma fv_hv x y : fv x = fv y -> hv x = hv y.
Proof. intros H. apply fw_hv, fv_fw, H. Qed.
Lemma fv_trans x y : fv x = fv y -> trans (sr x) = trans (sr y).
Proof. intros H. fvinj H. congruence. Qed.

Lemma committed_app s Tb l r k : S7.committed_upto s Tb l k -> S7.committed_upto s Tb (l ++ r) k.
Proof.
  intros (A & T0 & p0 & B & C & D & E). split; [rewrite app_length; lia|].
  exists T0, p0. repeat split; auto. rewrite firstn_app. replace (k - length l)%nat with 0%nat by lia.
  cbn [firstn]. rewrite app_nil_r. exact E.
Qed.

Section Sim.
Variable c : conf.
Variable V : list nid.
Hypothesis NDV : NoDup V.
Hypothesis VRO : forall v, In v V -> v < RO_BASE.
Hypothesis VNE : V <> [].
Hypothesis Hb1 : 1 < batch c.
Set Default Proof Using "All".

Notation V' := (absV V).
Notation Rn := (Rn c V).
Notation Rmsg := (Rmsg c).
Notation Ro := (Ro c).
Notation Hn := (Hn c).
Notation ksn := (ksn V).
Notation kstar := (kstar V).
Notation pk := (pk c).
Notation snap_valid := (snap_valid c).
Notation blob_valid := (blob_valid c).
Notation held := (held c).

Lemma V'_nodup : NoDup V'.
Proof. apply absV_NoDup. exact NDV. Qed.

Lemma V'_ne : V' <> [].
Proof. unfold absV. destruct V; [contradiction|discriminate]. Qed.

(* ---- facts about valid snapshots ---- *)
Lemma valid_two s Tb Tb' sn sn' :
  KS.kreachable V' s -> snap_valid s Tb sn -> snap_valid s Tb' sn' -> eidx (s_e1 sn) = eidx (s_e1 sn') ->
  s_e1 sn = s_e1 sn' /\ s_e0 sn = s_e0 sn'.
Proof.
  intros HR (_ & _ & K2 & T0 & p0 & D & _ & Lp & E1 & E0) (_ & _ & _ & T1 & p1 & D' & _ & Lp' & E1' & E0') Ek.
  rewrite <- Ek in *. set (k := n2 (eidx (s_e1 sn))) in *.
  pose proof (S2.inv2_kreachable V' s HR) as I2. pose proof (S3.inv3_kreachable V' s HR) as I3.
  pose proof (S4.inv4_kreachable V' s HR) as I4. pose proof (S6.inv6_kreachable V' V'_nodup V'_ne s HR) as I6.
  assert (Hc : firstn k (M.llog s T0) = firstn k (M.llog s T1)).
  { destruct (Nat.le_ge_cases T0 T1) as [L|L].
    - pose proof (S7.direct_compat V' s T0 p0 T1 p1 I2 I3 I4 I6 D D' L) as F.
      symmetry. eapply ML.firstn_le_eq; [|exact F]. lia.
    - pose proof (S7.direct_compat V' s T1 p1 T0 p0 I2 I3 I4 I6 D' D L) as F.
      eapply ML.firstn_le_eq; [|exact F]. lia. }
  assert (A1 : nth_error (M.llog s T0) (k - 1) = nth_error (M.llog s T1) (k - 1)).
  { apply (ML.firstn_eq_nth _ _ k); auto. lia. }
  assert (A0 : nth_error (M.llog s T0) (k - 2) = nth_error (M.llog s T1) (k - 2)).
  { apply (ML.firstn_eq_nth _ _ k); auto. lia. }
  rewrite E1, E1' in A1. rewrite E0, E0' in A0.
  split; apply (absE_inj pk); congruence.
Qed.

Lemma valid_own s j Tb sn :
  KS.kreachable V' s -> snap_valid s Tb sn -> (n2 (eidx (s_e1 sn)) <= M.commit (M.nodes s j))%nat ->
  nth_error (M.log (M.nodes s j)) (n2 (eidx (s_e1 sn)) - 1) = Some (absE pk (s_e1 sn)) /\
  nth_error (M.log (M.nodes s j)) (n2 (eidx (s_e1 sn)) - 2) = Some (absE pk (s_e0 sn)) /\
  (n2 (eidx (s_e1 sn)) <= length (M.log (M.nodes s j)))%nat.
Proof.
  intros HR (_ & _ & K2 & T0 & p0 & D & _ & Lp & E1 & E0) Hk.
  set (k := n2 (eidx (s_e1 sn))) in *.
  pose proof (S2.inv2_kreachable V' s HR) as I2. pose proof (S3.inv3_kreachable V' s HR) as I3.
  pose proof (S4.inv4_kreachable V' s HR) as I4. pose proof (S6.inv6_kreachable V' V'_nodup V'_ne s HR) as I6.
  destruct (S7.I7_node _ (S7.inv7_kreachable V' V'_nodup V'_ne s HR) j) as (A & T1 & p1 & D' & _ & Lp' & F1).
  assert (Hc : firstn k (M.log (M.nodes s j)) = firstn k (M.llog s T0)).
  { assert (F1' : firstn k (M.log (M.nodes s j)) = firstn k (M.llog s T1)).
    { eapply ML.firstn_le_eq; [|exact F1]. lia. }
    rewrite F1'.
    destruct (Nat.le_ge_cases T0 T1) as [L|L].
    - pose proof (S7.direct_compat V' s T0 p0 T1 p1 I2 I3 I4 I6 D D' L) as F.
      eapply ML.firstn_le_eq; [|exact F]. lia.
    - pose proof (S7.direct_compat V' s T1 p1 T0 p0 I2 I3 I4 I6 D' D L) as F.
      symmetry. eapply ML.firstn_le_eq; [|exact F]. lia. }
  split; [|split; [|lia]].
  - rewrite <- E1. apply (ML.firstn_eq_nth _ _ k); auto. lia.
  - rewrite <- E0. apply (ML.firstn_eq_nth _ _ k); auto. lia.
Qed.

(* a leader whose term is not below the snapshot's bound holds the snapshot's entries *)
Lemma valid_in_leader s j Tb sn :
  KS.kreachable V' s -> snap_valid s Tb sn -> M.rl (M.nodes s j) = M.Leader -> (Tb <= M.term (M.nodes s j))%nat ->
  nth_error (M.log (M.nodes s j)) (n2 (eidx (s_e1 sn)) - 1) = Some (absE pk (s_e1 sn)) /\
  nth_error (M.log (M.nodes s j)) (n2 (eidx (s_e1 sn)) - 2) = Some (absE pk (s_e0 sn)) /\
  (n2 (eidx (s_e1 sn)) <= length (M.log (M.nodes s j)))%nat.
Proof.
  intros HR (_ & _ & K2 & T0 & p0 & D & Ht & Lp & E1 & E0) Hl Hle.
  set (k := n2 (eidx (s_e1 sn))) in *.
  pose proof (S2.inv2_kreachable V' s HR) as I2.
  destruct (S2.I2_leader _ _ I2 _ Hl) as [Q HQ].
  assert (Hk0 : (k <= length (M.llog s T0))%nat).
  { assert (k - 1 < length (M.llog s T0))%nat by (apply nth_error_Some; congruence). lia. }
  assert (C0 : S7.committed_upto s T0 (M.llog s T0) k).
  { split; [exact Hk0|]. exists T0, p0. repeat split; auto. }
  pose proof (S7.committed_in_leader V' s _ _ _ _ _ Q I2 (S4.inv4_kreachable V' s HR)
                (S6.inv6_kreachable V' V'_nodup V'_ne s HR) C0 HQ) as F.
  assert (Hle' : (T0 <= M.term (M.nodes s j))%nat) by lia. specialize (F Hle').
  rewrite <- (S3.I3_wlog _ (S3.inv3_kreachable V' s HR) _ _ _ HQ eq_refl) in F.
  split; [|split].
  - rewrite <- E1. symmetry. apply (ML.firstn_eq_nth _ _ k); auto. lia.
  - rewrite <- E0. symmetry. apply (ML.firstn_eq_nth _ _ k); auto. lia.
  - eapply ML.firstn_eq_length; eauto.
Qed.

(* at the moment a voter serializes: its applied prefix is a valid snapshot *)
Lemma valid_at s j Tb (k : nat) e0' e1' :
  S7.committed_upto s Tb (M.log (M.nodes s j)) k -> (2 <= k)%nat ->
  nth_error (M.log (M.nodes s j)) (k - 1) = Some (absE pk e1') ->
  nth_error (M.log (M.nodes s j)) (k - 2) = Some (absE pk e0') ->
  n2 (eidx e1') = k -> small c e0' -> small c e1' ->
  forall h v cl ln, snap_valid s Tb (mkSnap h v e1' e0' cl ln).
Proof.
  intros (Hk & T1 & p1 & D' & Ht & Lp' & F1) K2 E1 E0 Ek S0 S1' h v cl ln.
  unfold Refine5Abs.snap_valid. cbn [s_e0 s_e1]. rewrite Ek.
  split; auto. split; auto. split; auto. exists T1, p1. split; auto. split; auto. split; [lia|].
  split.
  - rewrite <- E1. symmetry. apply (ML.firstn_eq_nth _ _ _ _ F1). lia.
  - rewrite <- E0. symmetry. apply (ML.firstn_eq_nth _ _ _ _ F1). lia.
Qed.

(* ---- the relations depend on few fields ---- *)
Lemma held_rv x y s bl : term y = term x -> held x s bl -> held y s bl.
Proof. unfold Refine5Abs.held. intros E H. rewrite E. exact H. Qed.

Lemma Rn_rv n x y s : rv y = rv x -> applied y = applied x -> tr_ok x y -> Rn n x s -> Rn n y s.
Proof.
  intros H Ha T [A1 A2 A3 A4 A5 A6 A7 A8 A9 A10 A11 A12].
  destruct (rv_eq _ _ H) as (E1 & E2 & E3 & E4 & E5 & E6 & E7 & E8 & E9).
  constructor; rewrite ?E1, ?E2, ?E3, ?E4, ?E5, ?E6, ?E7, ?E8, ?E9, ?Ha; auto.
  - intros bl Hb. eapply held_rv; eauto.
  - intros d bl off Hb. eapply held_rv; [exact E2|].
    destruct (T d bl off Hb) as [H1|(d' & off' & H1)]; eauto.
Qed.

Lemma Hn_hv x y : hv y = hv x -> Hn x -> Hn y.
Proof.
  intros H [A1 A2 A3 A4 A6 A7 A8 A9].
  destruct (hv_eq _ _ H) as (E1 & E2 & E3 & E4 & E5 & E6 & E7).
  destruct (srv_eq _ _ E7) as (P1 & P2 & P3 & P4).
  constructor; rewrite ?E1, ?E2, ?E3, ?E4, ?E5, ?E6, ?P1, ?P2, ?P3, ?P4; auto.
Qed.

Lemma held_le x y s bl : term x <= term y -> held x s bl -> held y s bl.
Proof. unfold Refine5Abs.held. intros E H. eapply blob_valid_le; [|exact H]. lia. Qed.

(* re-establishing the node relation after L0 steps: the blob facts follow by monotonicity *)
Lemma Rn_intro n x x' s s' :
  KS.kreachable V' s -> kstar s s' -> Rn n x s ->
  stored (sr x') = stored (sr x) -> tr_ok x x' -> incoming (sr x') = incoming (sr x) ->
  term x <= term x' ->
  M.term (M.nodes s' (n2 n)) = n2 (term x') ->
  M.voted (M.nodes s' (n2 n)) = option_map n2 (voted x') ->
  M.rl (M.nodes s' (n2 n)) = absR (role x') ->
  (exists full, M.log (M.nodes s' (n2 n)) = absL pk full /\ suffix_of (log x') full) ->
  M.commit (M.nodes s' (n2 n)) = n2 (commit x') ->
  (role x' = CANDIDATE ->
     length (M.votesFrom (M.nodes s' (n2 n))) = n2 (votes x') /\ In (n2 n) (M.votesFrom (M.nodes s' (n2 n)))) ->
  (forall f m, In f V -> f <> n -> aget f (match_idx x') = Some m ->
     (n2 m <= M.matchIdx (M.nodes s' (n2 n)) (n2 f))%nat) ->
  (voted x' = Some n -> In (n2 (term x'), n2 n, n2 n) (M.grants s')) ->
  S7.committed_upto s' (n2 (term x')) (M.log (M.nodes s' (n2 n))) (n2 (applied x')) ->
  Rn n x' s'.
Proof.
  intros HR K [A1 A2 A3 A4 A5 A6 A7 A8 A9 A10 A11 A12] Es T Ei Hc B1 B2 B3 B4 B5 B6 B7 B8 B9.
  constructor; auto.
  - intros bl Hb. rewrite Es in Hb. eapply held_le; [exact Hc|]. eapply held_kstar; eauto.
  - intros d bl off Hb. eapply held_le; [exact Hc|]. eapply held_kstar; eauto.
    destruct (T d bl off Hb) as [H1|(d' & off' & H1)]; eauto.
  - intros ps bl o l Hi Hb. rewrite Ei in Hi. eapply blob_valid_le; [|eapply blob_valid_kstar; eauto]. lia.
Qed.

(* the applied prefix stays committed when the node's log keeps that prefix and its term does not drop *)
Lemma applied_keep n x x' s s' :
  KS.kreachable V' s -> kstar s s' -> Rn n x s -> term x <= term x' -> applied x' = applied x ->
  firstn (n2 (applied x)) (M.log (M.nodes s' (n2 n))) = firstn (n2 (applied x)) (M.log (M.nodes s (n2 n))) ->
  (n2 (applied x) <= length (M.log (M.nodes s' (n2 n))))%nat ->
  S7.committed_upto s' (n2 (term x')) (M.log (M.nodes s' (n2 n))) (n2 (applied x')).
Proof.
  intros HR K RN Ht Ea F Hl. rewrite Ea.
  pose proof (committed_star V _ _ _ _ _ HR K (Rn_applied _ _ _ _ _ RN)) as (A & T0 & p0 & B & C & D & E).
  split; [exact Hl|]. exists T0, p0. split; auto. split; [lia|]. split; auto. rewrite F. exact E.
Qed.

Lemma applied_same n x x' s s' :
  KS.kreachable V' s -> kstar s s' -> Rn n x s -> term x <= term x' -> applied x' = applied x ->
  M.log (M.nodes s' (n2 n)) = M.log (M.nodes s (n2 n)) ->
  S7.committed_upto s' (n2 (term x')) (M.log (M.nodes s' (n2 n))) (n2 (applied x')).
Proof.
  intros HR K RN Ht Ea El. eapply applied_keep; eauto; rewrite El; auto.
  destruct (Rn_applied _ _ _ _ _ RN) as [A _]. exact A.
Qed.

Lemma applied_app n x x' s s' r :
  KS.kreachable V' s -> kstar s s' -> Rn n x s -> term x <= term x' -> applied x' = applied x ->
  M.log (M.nodes s' (n2 n)) = M.log (M.nodes s (n2 n)) ++ r ->
  S7.committed_upto s' (n2 (term x')) (M.log (M.nodes s' (n2 n))) (n2 (applied x')).
Proof.
  intros HR K RN Ht Ea El. destruct (Rn_applied _ _ _ _ _ RN) as [A _].
  eapply applied_keep; eauto; rewrite El.
  - rewrite firstn_app. replace (n2 (applied x) - length (M.log (M.nodes s (n2 n))))%nat with 0%nat by lia.
    cbn [firstn]. apply app_nil_r.
  - rewrite app_length. lia.
Qed.

Lemma committed_le s Tb l k k' : (k' <= k)%nat -> S7.committed_upto s Tb l k -> S7.committed_upto s Tb l k'.
Proof.
  intros Hle (A & T0 & p0 & B & C & D & E). split; [lia|]. exists T0, p0. repeat split; auto; [lia|].
  eapply ML.firstn_le_eq; eauto.
Qed.

(* the apply loop: applied moves up to the commit index *)
Lemma Rn_app n x y s :
  KS.kreachable V' s -> rv y = rv x -> applied y <= commit x -> tr_ok x y -> Rn n x s -> Rn n y s.
Proof.
  intros HR H Ha T [A1 A2 A3 A4 A5 A6 A7 A8 A9 A10 A11 A12].
  destruct (rv_eq _ _ H) as (E1 & E2 & E3 & E4 & E5 & E6 & E7 & E8 & E9).
  constructor; rewrite ?E1, ?E2, ?E3, ?E4, ?E5, ?E6, ?E7, ?E8, ?E9; auto.
  - intros bl Hb. eapply held_rv; eauto.
  - intros d bl off Hb. eapply held_rv; [exact E2|].
    destruct (T d bl off Hb) as [H1|(d' & off' & H1)]; eauto.
  - pose proof (S7.I7_node _ (S7.inv7_kreachable V' V'_nodup V'_ne s HR) (n2 n)) as C7.
    rewrite A1, A5 in C7. eapply committed_le; [|exact C7]. lia.
Qed.

Record LS (n : nid) (s : M.state) (S : Node.S) : Prop := {
  LS_reach : KS.kreachable V' s;
  LS_n : Rn n (nd S) s;
  LS_o : Ro n (outs S) s;
  LS_h : Hn (nd S);
  LS_self : self (nd S) = Some n;
  LS_others : others (nd S) = vminus n V;
  LS_in : In n V
}.

(* the ghost full log *)
Lemma Rn_full n x s :
  KS.kreachable V' s -> Rn n x s ->
  exists full, M.log (M.nodes s (n2 n)) = absL pk full /\ wf1 full /\ suffix_of (log x) full.
Proof.
  intros HR RN. destruct (Rn_log _ _ _ _ _ RN) as (full & E & Sx). exists full. split; auto. split; auto.
  pose proof (S1.inv1_kreachable V' s HR) as I1.
  pose proof (S1.I1_log _ I1 (n2 n)) as Hl. pose proof (S1.I1_ne _ I1 (n2 n)) as Hne.
  rewrite E in Hl, Hne. eapply wf1_of_abs; eauto.
Qed.

Lemma LS_full n s S :
  LS n s S -> exists full, M.log (M.nodes s (n2 n)) = absL pk full /\ wf1 full /\ suffix_of (log (nd S)) full.
Proof. intros L. apply Rn_full; [apply (LS_reach _ _ _ L)|apply (LS_n _ _ _ L)]. Qed.

Lemma LS_j n s S : LS n s S -> In (n2 n) V'.
Proof. intros L. apply absV_In. apply (LS_in _ _ _ L). Qed.

Lemma LS_lt n s S : LS n s S -> n < RO_BASE.
Proof. intros L. apply VRO. apply (LS_in _ _ _ L). Qed.

(* commit never exceeds the (full) log *)
Lemma Rn_commit_le n x s full :
  KS.kreachable V' s -> Rn n x s -> M.log (M.nodes s (n2 n)) = absL pk full ->
  (n2 (commit x) <= length full)%nat.
Proof.
  intros HR RN E. destruct (S7.I7_node _ (S7.inv7_kreachable V' V'_nodup V'_ne s HR) (n2 n)) as (A & _).
  rewrite (Rn_commit _ _ _ _ _ RN), E, absL_length in A. exact A.
Qed.

(* a phase that changes nothing the relation looks at *)
Lemma LS_stutter n s S S' :
  LS n s S -> fv (nd S') = fv (nd S) ->
  (exists new, outs S' = outs S ++ new /\ Ro n new s) -> LS n s S'.
Proof.
  intros [A1 A2 A3 A4 A5 A6 A7] F (new & O & Hnew). pose proof (fv_trans _ _ F) as Ft. fvinj F.
  constructor; auto.
  - eapply Rn_rv; [| |apply tr_ok_same; exact Ft|exact A2]; [apply fv_rv; auto|assumption].
  - rewrite O. apply Ro_app; auto.
  - eapply Hn_hv; [|exact A4]. apply fv_hv. auto.
  - congruence.
  - congruence.
Qed.

Lemma LS_same n s S S' : LS n s S -> nd S' = nd S -> outs S' = outs S -> LS n s S'.
Proof.
  intros L E1 E2. eapply LS_stutter; eauto; [rewrite E1; reflexivity|].
  exists []. rewrite app_nil_r. split; auto. apply Ro_nil.
Qed.

Lemma LS_ksn n s s' S S' :
  ksn (n2 n) s s' -> LS n s S ->
  Rn n (nd S') s' -> Hn (nd S') -> self (nd S') = Some n -> others (nd S') = vminus n V ->
  (exists new, outs S' = outs S ++ new /\ Ro n new s') -> LS n s' S'.
Proof.
  intros K [A1 A2 A3 A4 A5 A6 A7] R' H' Hs Ho (new & O & Hnew).
  constructor; auto.
  - eapply ksn_kreachable; eauto.
  - rewrite O. apply Ro_app; auto. eapply Ro_mono; eauto.
Qed.

Definition simf (n : nid) (f : Node.S -> Node.S) : Prop :=
  forall S s, LS n s S -> exists s', ksn (n2 n) s s' /\ LS n s' (f S).

Lemma simf_andthen n f g : simf n f -> simf n g -> simf n (f ;; g).
Proof.
  intros Hf Hg S s L. rewrite andthen_eq. destruct (Hf S s L) as (s1 & K1 & L1).
  destruct (ok (f S)); [|eauto].
  destruct (Hg (f S) s1 L1) as (s2 & K2 & L2). exists s2. split; auto. eapply ksn_trans; eauto.
Qed.

(* ------------------------------------------------------------------------------------------ *)
Lemma nth_abs l p pe : nth_error l p = Some pe -> nth p (absL pk l) M.e0 = absE pk pe.
Proof. intros H. apply nth_error_nth. rewrite absL_nth, H. reflexivity. Qed.

(* the relation of node n survives steps that leave the nodes alone *)
Lemma Rn_same_nodes n x s s' :
  KS.kreachable V' s -> ksn (n2 n) s s' ->
  (forall i, M.nodes s' i = M.nodes s i) -> Rn n x s -> Rn n x s'.
Proof.
  intros HR K E [A1 A2 A3 A4 A5 A6 A7 A8 A9 A10 A11 A12].
  pose proof (ksn_kstar _ _ _ _ K) as KS. pose proof (ksn_ext _ _ _ _ K) as Ex.
  constructor; rewrite ?E; auto.
  - intros Hv. apply (ext_grants _ _ _ Ex). auto.
  - intros bl Hb. eapply held_kstar; eauto.
  - intros d bl off Hb. eapply held_kstar; eauto.
  - intros ps bl o l Hi Hb. eapply blob_valid_kstar; eauto.
  - eapply committed_star; eauto.
Qed.

Lemma first_is_e0 s j : KS.kreachable V' s -> exists r, M.log (M.nodes s j) = M.e0 :: r.
Proof.
  intros HR. pose proof (S8.I8_log _ (S8.inv8_kreachable V' s HR) j) as H.
  destruct (M.log (M.nodes s j)) as [|a r]; [discriminate|]. injection H as ->. eauto.
Qed.

Section AE.
Variable e : env.
Hypothesis Hc : cf e = c.

(* the AppendEntries / snapshot messages of a leader: K_sendae for each *)
Lemma sim_ae_outs n x full new : forall s,
  KS.kreachable V' s -> Rn n x s -> M.log (M.nodes s (n2 n)) = absL pk full -> wf1 full ->
  In n V -> role x = LEADER ->
  others x = vminus n V -> Forall (fun y => RO_BASE <= y) (readonly x) ->
  Forall (ae_out e full x) new ->
  exists s', ksn (n2 n) s s' /\ (forall i, M.nodes s' i = M.nodes s i) /\ Ro n new s'.
Proof.
  induction new as [|o new IH]; intros s HR RN EL W Hin Hrole Hoth Hro Hall.
  - exists s. split; [constructor|]. split; auto. apply Ro_nil.
  - pose proof (Forall_inv Hall) as Ho. pose proof (Forall_inv_tail Hall) as Hall'.
    assert (Hj : In (n2 n) V') by (apply absV_In; auto).
    assert (Hl : M.rl (M.nodes s (n2 n)) = M.Leader).
    { rewrite (Rn_role _ _ _ _ _ RN), Hrole. reflexivity. }
    assert (Hlen : (0 < length (M.log (M.nodes s (n2 n))))%nat).
    { rewrite EL, absL_length. apply wf1_length_pos; auto. }
    assert (Hhead : exists s1, ksn (n2 n) s s1 /\ (forall i, M.nodes s1 i = M.nodes s i) /\
                               Ro n [o] s1).
    { destruct o as [d m| | | |]; cbn in Ho; try contradiction.
      destruct Ho as [Hd Hm].
      assert (Hnd : n <> d).
      { destruct Hd as [Hd|Hd].
        - rewrite Hoth in Hd. intros ->. apply (vminus_not_in d V). exact Hd.
        - rewrite Forall_forall in Hro. specialize (Hro d Hd). specialize (VRO n Hin). lia. }
      assert (Hany : exists s1, ksn (n2 n) s s1 /\ (forall i, M.nodes s1 i = M.nodes s i) /\
                                some_ae (term x) n s1).
      { destruct (t_sendae_ok V' (n2 n) 0 0 s Hj Hl Hlen) as [K E].
        exists (M.do_send_ae (n2 n) 0 0 s). split; [apply ksn_one; auto|]. split; [reflexivity|].
        unfold some_ae. do 4 eexists. cbn. left. rewrite (Rn_term _ _ _ _ _ RN). reflexivity. }
      destruct m as [| |t cm [[pi pt]|] es|t cm prev lab off len en|t cm p| | |]; cbn in Hm; try contradiction.
      - (* a regular AppendEntries *)
        destruct Hm as (-> & -> & Hpi & (pe & Hpe & Hpt) & (k & Hes) & Hsm).
        assert (Hp : (n2 pi - 1 < length (M.log (M.nodes s (n2 n))))%nat).
        { rewrite EL, absL_length. apply nth_error_Some. congruence. }
        destruct (t_sendae_ok V' (n2 n) (n2 pi - 1) k s Hj Hl Hp) as [K E].
        exists (M.do_send_ae (n2 n) (n2 pi - 1) k s). split; [apply ksn_one; auto|]. split; [reflexivity|].
        intros d' m' [H|[]]. injection H as <- <-. cbn.
        split; [apply VRO; auto|]. split; auto. split.
        { rewrite <- Hc. exact Hsm. }
        left. rewrite (Rn_term _ _ _ _ _ RN), EL, (Rn_commit _ _ _ _ _ RN).
        rewrite (nth_abs _ _ _ Hpe). cbn [M.eterm absE]. rewrite Hpt.
        replace (Sn (n2 pi - 1)) with (n2 pi) by lia.
        rewrite Hes, absL_firstn, absL_skipn. reflexivity.
      - (* prev = None: refused by every receiver *)
        destruct Hm as (-> & -> & _). destruct Hany as (s1 & K1 & E1 & A1).
        exists s1. split; auto. split; auto.
        intros d' m' [H|[]]. injection H as <- <-. cbn. repeat split; auto.
      - (* pieces of a large entry: one AppendEntries with that entry *)
        destruct Hm as (-> & -> & Hi1 & Hen & Hprev).
        assert (Hlg : legit c s en).
        { split; [exact Hi1|].
          pose proof (S3.I3_in _ (S3.inv3_kreachable V' s HR) (n2 n) (n2 (eidx en) - 1)%nat (absE pk en)) as X.
          rewrite EL, absL_nth, Hen in X. exact (X eq_refl). }
        destruct prev as [[pi pt]|].
        + destruct Hprev as (Hpi & (pe & Hpe & Hpt) & Hei).
          assert (Hp : (n2 pi - 1 < length (M.log (M.nodes s (n2 n))))%nat).
          { rewrite EL, absL_length. apply nth_error_Some. congruence. }
          destruct (t_sendae_ok V' (n2 n) (n2 pi - 1) 1 s Hj Hl Hp) as [K E].
          set (s1 := M.do_send_ae (n2 n) (n2 pi - 1) 1 s) in *.
          assert (K1 : ksn (n2 n) s s1) by (apply ksn_one; auto).
          assert (Hnet : In (M.AppendEntries (n2 (term x)) (n2 n) (n2 pi) (n2 pt) (absL pk [en]) (n2 (commit x))) (M.net s1)).
          { unfold s1, M.do_send_ae. cbn [M.net]. left.
            rewrite (Rn_term _ _ _ _ _ RN), EL, (Rn_commit _ _ _ _ _ RN).
            rewrite (nth_abs _ _ _ Hpe). cbn [M.eterm absE]. rewrite Hpt.
            replace (Sn (n2 pi - 1)) with (n2 pi) by lia.
            assert (Hen' : nth_error full (n2 pi) = Some en) by (rewrite <- Hen; f_equal; lia).
            rewrite <- absL_skipn, (skipn_nth_cons _ _ _ Hen'), <- absL_firstn. reflexivity. }
          exists s1. split; auto. split; [reflexivity|].
          intros d' m' [H|[]]. injection H as <- <-. cbn.
          split; [apply VRO; auto|]. split; auto.
          split; [unfold some_ae; eauto|].
          split; [eapply legit_kstar; eauto; eapply ksn_kstar; eauto|].
          intros pi' pt' Hx. injection Hx as <- <-. exact Hnet.
        + destruct Hany as (s1 & K1 & E1 & A1). exists s1. split; auto. split; auto.
          intros d' m' [H|[]]. injection H as <- <-. cbn.
          split; [apply VRO; auto|]. split; auto. split; [exact A1|].
          split; [eapply legit_kstar; eauto; eapply ksn_kstar; eauto|].
          intros pi' pt' Hx. discriminate Hx.
      - (* snapshot pieces *)
        destruct Hm as (-> & -> & Hp).
        destruct p as [|bl off len first last].
        { destruct Hany as (s1 & K1 & E1 & A1). exists s1. split; auto. split; auto.
          intros d' m' [H|[]]. injection H as <- <-. cbn. repeat split; auto. }
        assert (Hh : held x s bl).
        { destruct Hp as [Hp|(d0 & o0 & Hp)]; [apply (Rn_stored _ _ _ _ _ RN _ Hp)|apply (Rn_trans _ _ _ _ _ RN _ _ _ Hp)]. }
        destruct bl as [sn|ln].
        2:{ destruct Hany as (s1 & K1 & E1 & A1). exists s1. split; auto. split; auto.
            intros d' m' [H|[]]. injection H as <- <-. cbn.
            split; [apply VRO; auto|]. split; [auto|]. split; [exact A1|]. split; [exact I|].
            intros _ sn0 Hx. discriminate. }
        assert (Hv : snap_valid s (n2 (term x)) sn) by exact Hh.
        set (k := n2 (eidx (s_e1 sn))) in *.
        assert (Hkc : (n2 (term x) <= M.term (M.nodes s (n2 n)))%nat) by (rewrite (Rn_term _ _ _ _ _ RN); lia).
        destruct (valid_in_leader s (n2 n) _ sn HR Hv Hl Hkc) as (N1 & N0 & Hkl). fold k in N1, N0, Hkl.
        destruct (first_is_e0 s (n2 n) HR) as (r0 & Er).
        assert (K2 : (2 <= k)%nat) by (destruct Hv as (_ & _ & K2 & _); exact K2).
        destruct (t_sendae_ok V' (n2 n) 0 (k - 1) s Hj Hl Hlen) as [K E].
        set (s1 := M.do_send_ae (n2 n) 0 (k - 1) s) in *.
        assert (K1 : ksn (n2 n) s s1) by (apply ksn_one; auto).
        assert (Er0 : exists f0 fr, full = f0 :: fr /\ r0 = absL pk fr /\ absE pk f0 = M.e0).
        { rewrite EL in Er. destruct full as [|f0 fr]; [discriminate|].
          change (absE pk f0 :: absL pk fr = M.e0 :: r0) in Er.
          exists f0, fr. split; [reflexivity|]. split; congruence. }
        destruct Er0 as (f0 & fr & Ef & Er0 & Ef0).
        assert (Hf0 : f0 = e00 c).
        { apply (absE_inj pk). rewrite Ef0. symmetry. apply absE_e00. }
        assert (Hnet : In (M.AppendEntries (n2 (term x)) (n2 n) 1 0 (absL pk (firstn (k - 1) fr)) (n2 (commit x))) (M.net s1)).
        { unfold s1, M.do_send_ae. cbn [M.net]. left.
          rewrite (Rn_term _ _ _ _ _ RN), (Rn_commit _ _ _ _ _ RN), Er, Er0, absL_firstn. reflexivity. }
        assert (Hw : e00 c :: firstn (k - 1) fr = firstn k full).
        { rewrite Ef, Hf0. destruct k as [|k']; [lia|]. cbn [firstn]. replace (Sn k' - 1)%nat with k' by lia. reflexivity. }
        assert (N1' : nth_error full (k - 1) = Some (s_e1 sn)).
        { rewrite EL, absL_nth in N1. destruct (nth_error full (k - 1)) as [y|]; [|discriminate].
          cbn [option_map] in N1. f_equal. apply (absE_inj pk). congruence. }
        assert (N0' : nth_error full (k - 2) = Some (s_e0 sn)).
        { rewrite EL, absL_nth in N0. destruct (nth_error full (k - 2)) as [y|]; [|discriminate].
          cbn [option_map] in N0. f_equal. apply (absE_inj pk). congruence. }
        exists s1. split; auto. split; [reflexivity|].
        intros d' m' [H|[]]. injection H as <- <-. cbn.
        split; [apply VRO; auto|]. split; auto.
        split; [unfold some_ae; eauto|].
        split; [eapply snap_valid_kstar; eauto; eapply ksn_kstar; eauto|].
        intros _ sn0 Hx. injection Hx as <-.
        exists (firstn (k - 1) fr). split; [exact Hnet|]. fold k.
        split.
        { rewrite firstn_length. rewrite EL, absL_length, Ef in Hkl. cbn in Hkl. lia. }
        rewrite Hw. split; rewrite ML.nth_error_firstn_lt by lia; assumption. }
    destruct Hhead as (s1 & K1 & E1 & R1).
    destruct (IH s1) as (s2 & K2 & E2 & R2); auto.
    { eapply ksn_kreachable; eauto. }
    { eapply Rn_same_nodes; eauto. }
    { rewrite E1. exact EL. }
    exists s2. split; [eapply ksn_trans; eauto|]. split; [intros i; rewrite E2; auto|].
    change (o :: new) with ([o] ++ new). apply Ro_app; auto.
    eapply Ro_mono; [|exact K2|exact R1]. eapply ksn_kreachable; eauto.
Qed.

(* ---- becoming leader ---- *)
Lemma majority_abs n x k :
  In n V -> others x = vminus n V ->
  majority k x = true -> M.majority V' (n2 k) = true.
Proof.
  intros Hin Ho Hm. apply (majority_static k x n V NDV Hin Ho) in Hm.
  unfold M.majority. rewrite absV_length. apply Nat.ltb_lt. lia.
Qed.

Lemma sim_become_leader n S s :
  LS n s S -> role (nd S) = CANDIDATE -> majority (votes (nd S)) (nd S) = true ->
  exists s', ksn (n2 n) s s' /\ LS n s' (become_leader e S).
Proof.
  intros L Hr Hm.
  destruct (LS_full _ _ _ L) as (full & EL & W & Sx).
  pose proof (LS_h _ _ _ L) as HH. pose proof (LS_n _ _ _ L) as RN.
  pose proof (LS_j _ _ _ L) as Hj.
  assert (Sm : Forall (small (cf e)) (log (nd S))) by (rewrite Hc; apply (H_small _ _ HH)).
  assert (Hb : 1 < batch (cf e)) by (rewrite Hc; exact Hb1).
  destruct (become_leader_spec e full S W Sx Sm Hb) as (mi & r & new & F & T & Hmi & O & Hr0 & Hnew).
  set (S' := become_leader e S) in *. clearbody S'.
  set (x4 := (nd S) <| role := LEADER |> <| match_idx := mi |> <| log := log (nd S) ++ [noop_entry e (nd S)] |>) in *.
  set (full4 := full ++ [noop_entry e (nd S)]) in *.
  (* the L0 step *)
  assert (Hc0 : M.rl (M.nodes s (n2 n)) = M.Candidate).
  { rewrite (Rn_role _ _ _ _ _ RN), Hr. reflexivity. }
  assert (Hmaj : M.majority V' (length (M.votesFrom (M.nodes s (n2 n)))) = true).
  { rewrite (proj1 (Rn_votes _ _ _ _ _ RN Hr)). eapply majority_abs; eauto using LS_in, LS_others. }
  destruct (t_lead_ok V' (n2 n) s Hj Hc0 Hmaj) as [K E].
  set (s1 := M.do_lead (n2 n) s) in *.
  assert (K1 : ksn (n2 n) s s1) by (apply ksn_one; auto).
  assert (HR : KS.kreachable V' s) by apply (LS_reach _ _ _ L).
  assert (EL0 : M.log (M.nodes s (n2 n)) ++
                 [M.mkE (Sn (length (M.log (M.nodes s (n2 n))))) (M.term (M.nodes s (n2 n))) 0] = absL pk full4).
  { unfold full4. rewrite absL_app, EL. f_equal. cbn [absL map]. f_equal. unfold absE, noop_entry. cbn.
    rewrite Hc. fold pk. rewrite enc_noop, (Rn_term _ _ _ _ _ RN), absL_length.
    rewrite (suffix_last_idx _ _ Sx), (wf1_last_idx _ W). f_equal. lia. }
  assert (EL1 : M.log (M.nodes s1 (n2 n)) = absL pk full4).
  { unfold s1, M.do_lead. cbn [M.nodes]. rewrite upd_eq. cbn [M.log]. exact EL0. }
  assert (RN1 : Rn n x4 s1).
  { pose proof (ksn_kstar _ _ _ _ K1) as KS1.
    destruct RN as [A1 A2 A3 A4 A5 A6 A7 A8 A9 A10 A11 A12].
    constructor; try (unfold s1, M.do_lead; cbn [M.nodes M.grants]; rewrite ?upd_eq;
      cbn [M.term M.voted M.rl M.log M.commit M.votesFrom M.matchIdx]).
    - exact A1.
    - exact A2.
    - reflexivity.
    - exists full4. split; [exact EL0|]. unfold x4, full4. cbn. apply suffix_app. exact Sx.
    - exact A5.
    - intros Hx. compute in Hx. discriminate.
    - intros f m Hf Hne Hg. cbn in Hg.
      assert (Hf0 : aget f mi = Some 0).
      { apply Hmi. rewrite (LS_others _ _ _ L). unfold vminus. apply filter_In. split; auto.
        apply negb_true_iff. apply N.eqb_neq. auto. }
      rewrite Hf0 in Hg. injection Hg as <-. cbn. lia.
    - exact A8.
    - intros bl Hb0. apply (held_kstar c V (nd S) s); auto.
    - intros d bl off Hb0. apply (held_kstar c V (nd S) s); eauto.
    - intros ps bl o l Hi Hb0. apply (blob_valid_kstar c V s); eauto.
    - apply committed_app. eapply (committed_star V s); eauto. }
  assert (W4 : wf1 full4).
  { unfold full4. apply wf1_app; auto. unfold noop_entry. cbn. rewrite (suffix_last_idx _ _ Sx). reflexivity. }
  destruct (sim_ae_outs n x4 full4 new s1) as (s2 & K2 & E2 & R2); auto.
  - eapply ksn_kreachable; eauto.
  - apply (LS_in _ _ _ L).
  - apply (LS_others _ _ _ L).
  - apply (H_ro _ _ HH).
  - exists s2. split; [eapply ksn_trans; eauto|].
    fwinj_n F F.
    assert (HR1 : KS.kreachable V' s1) by (eapply ksn_kreachable; eauto).
    apply (LS_ksn n s s2 S S').
    + eapply ksn_trans; eauto.
    + exact L.
    + eapply Rn_rv; [apply fw_rv; exact F|exact Fapplied| |eapply Rn_same_nodes; eauto].
      intros d bl off Hin. destruct (T d bl off Hin) as [H1|(d' & o' & H1)]; [left|right]; eauto.
    + destruct HH as [B1 B2 B3 B4 B6 B7 B8 B9].
      destruct (srv_eq _ _ Fsrv) as (P1 & P2 & P3 & P4). cbn in P1, P2, P3, P4.
      constructor; rewrite ?P1, ?P2, ?P3, ?P4, ?Fqueue, ?Fapplied, ?Freplay, ?Fro, ?Fcommit; auto.
      * rewrite Flog. apply Forall_app. split; [exact B1|]. constructor; [|constructor].
        exact I.
      * rewrite Flog. pose proof (suffix_ne _ _ Sx) as Hne0.
        destruct (log (nd S)); [contradiction|exact B6].
    + rewrite Fself. apply (LS_self _ _ _ L).
    + rewrite Foth. apply (LS_others _ _ _ L).
    + exists (r ++ new). split; auto. apply Ro_app; auto.
      intros d m Hin. destruct (Hr0 d m Hin).
Qed.

End AE.
End Sim.
