(* Concrete instances for the hypotheses of the C04 theorems: a 3-node cluster that elects node 1,
   commits the no-op, adds node 4, removes node 3 (49 events), and states cut out of that trace. *)
From Coq Require Import ZArith NArith List Bool Lia.
From RecordUpdate Require Import RecordSet.
From PSO Require Import Raft.Types Raft.Node Raft.Net Raft.Obs Raft.ProofsCommitBase Raft.ProofsCommit
  Raft.ProofsMembership Raft.ProofsCommitLog.
Import ListNotations.
Import RecordSetNotations.
Open Scope N_scope.

Definition xc : conf := mkConf 10 100 50 300 1000 1000 true true true 100 1000 100 10 false false.
Definition add4 : cmd := mkCmd 2 1 4 5 20.
Definition rem3 : cmd := mkCmd 2 2 3 5 20.

(* election of node 1, the no-op is replicated to node 2 and committed, `add 4` is submitted and
   appended (index 3) *)
Definition tr1 : list event :=
  [ ERestart 1 [2;3] 0 0 0; ERestart 2 [1;3] 0 0 0; ERestart 3 [1;2] 0 0 0;
    EConnect 1 2; EConnect 2 1; EConnect 1 3; EConnect 3 1; EConnect 2 3; EConnect 3 2;
    ETick 1 200 0 30 [] 0;
    EDeliver 1 2 201 0 []; EDeliver 2 1 202 0 [];
    EDeliver 1 3 203 0 []; EDeliver 3 1 204 0 [];
    EDeliver 1 2 205 0 []; EDeliver 2 1 206 0 [];
    ETick 1 210 0 30 [] 0;
    EAdmin 1 add4 7;
    ETick 1 221 0 30 [] 0 ].
(* `rem 3` is refused while `add 4` is pending; node 3 catches up to index 3, node 2 only to 2 *)
Definition tr2 : list event :=
  [ EAdmin 1 rem3 8; ETick 1 232 0 30 [] 0;
    EDeliver 1 2 233 0 []; EDeliver 2 1 234 0 [];
    EDeliver 1 3 235 0 []; EDeliver 3 1 236 0 [];
    ETick 1 243 0 30 [] 0;
    EDeliver 1 3 244 0 []; EDeliver 3 1 245 0 [];
    EDeliver 1 3 246 0 []; EDeliver 3 1 247 0 [];
    ETick 1 254 0 30 [] 0;
    EAdmin 1 rem3 9; ETick 1 265 0 30 [] 0 ].
(* node 2 catches up, index 3 commits, `rem 3` is accepted (index 4) *)
Definition tr3 : list event :=
  [ EDeliver 1 2 266 0 []; EDeliver 2 1 267 0 [];
    EDeliver 1 2 268 0 []; EDeliver 2 1 269 0 [];
    ETick 1 276 0 30 [] 0;
    EAdmin 1 rem3 10; ETick 1 287 0 30 [] 0 ].

Definition g_after (evs : list event) : gstate :=
  match run_trace xc ginit evs with Some g => g | None => ginit end.
Definition node_of (x : nid) (g : gstate) : node :=
  match aget x (nodes g) with Some n => n | None => init_node (mk_env xc 0 0 0 [] 0) None [] 0 end.

Definition g1 := g_after tr1.
Definition g2 := g_after (tr1 ++ tr2).
Definition g3 := g_after (tr1 ++ tr2 ++ tr3).

Example trace_runs :
  run_trace xc ginit tr1 = Some g1 /\ run_trace xc g1 tr2 = Some g2 /\ run_trace xc g2 tr3 = Some g3.
Proof. vm_compute. auto. Qed.

Lemma runs_through_dec x evs :
  forallb (fun ev => negb (is_restart x ev) && negb (is_kill x ev)) evs = true -> runs_through x evs.
Proof.
  intros H ev Hin. rewrite forallb_forall in H. specialize (H ev Hin).
  apply andb_prop in H. destruct H as [H1 H2]. split; now apply negb_true_iff.
Qed.

(* C04_commit_monotone: hypotheses hold for node 1 over tr2 ++ tr3, and the index really moves *)
Example commit_monotone_example :
  run_trace xc g1 (tr2 ++ tr3) = Some g3 /\ runs_through 1 (tr2 ++ tr3) /\
  aget 1 (nodes g1) = Some (node_of 1 g1) /\ aget 1 (nodes g3) = Some (node_of 1 g3) /\
  commit (node_of 1 g1) = 2 /\ commit (node_of 1 g3) = 3.
Proof.
  split; [vm_compute; reflexivity|]. split; [apply runs_through_dec; vm_compute; reflexivity|].
  vm_compute. auto.
Qed.

(* C04_leader_commit_rule: a leader of a 4-member cluster whose followers acknowledged 2, 3 and 0:
   index 3 is stored by 2 of 4 - not a majority - and commit stays at 2 *)
Definition tick_env (now : Z) : env := mk_env xc now 0 30 [] 0.

Example leader_commit_rule_example_stays :
  let n := node_of 1 g2 in
  role n = LEADER /\ others n = [2; 3; 4] /\ match_idx n = [(2, 2); (3, 3); (4, 0)] /\ commit n = 2 /\
  last_idx (log n) = 3 /\ match_count 3 n = 2 /\ majority 2 n = false /\
  commit (nd (tick_leader (tick_env 270) (start_S (tick_env 270) n))) = 2.
Proof. vm_compute. repeat split; reflexivity. Qed.

(* ... and once node 2 acknowledged index 3 as well (3 of 4) the same rule commits it *)
Definition g2b := g_after (tr1 ++ tr2 ++ [EDeliver 1 2 266 0 []; EDeliver 2 1 267 0 [];
                                            EDeliver 1 2 268 0 []; EDeliver 2 1 269 0 []]).
Example leader_commit_rule_example_moves :
  let n := node_of 1 g2b in
  match_idx n = [(2, 3); (3, 3); (4, 0)] /\ commit n = 2 /\ match_count 3 n = 3 /\ majority 3 n = true /\
  own_term_at n 3 = true /\
  commit (nd (tick_leader (tick_env 276) (start_S (tick_env 276) n))) = 3.
Proof. vm_compute. repeat split; reflexivity. Qed.

(* C04_follower_commit_verified: node 2 learns commit 2 from an append_entries that verifies index 2 *)
Definition g1a := g_after (tr1 ++ [EAdmin 1 rem3 8; ETick 1 232 0 30 [] 0]).
Definition head_msg (a b : nid) (g : gstate) : msg :=
  match chan_get a b g with m :: _ => m | [] => ResponseVote 0 end.

Example follower_commit_example :
  let n := node_of 2 g1a in
  let m := head_msg 1 2 g1a in
  chan_get 1 2 g1a <> [] /\ ae_msg_info m = Some (1, 2) /\ commit n = 1 /\
  commit (nd (on_message (mk_env xc 233 0 DEFAULT_BUDGET [] 0) 1 m n)) = 2.
Proof. vm_compute. repeat split; try reflexivity. discriminate. Qed.

(* C04_match_idx_from_success: the success reply of node 2 raises its slot from 2 to 3 *)
Definition g2a := g_after (tr1 ++ tr2 ++ [EDeliver 1 2 266 0 []]).
Example match_idx_example :
  let n := node_of 1 g2a in
  let m := head_msg 2 1 g2a in
  m = NextIdx (term n) 4 false true /\
  role n = LEADER /\ aget 2 (match_idx n) = Some 2 /\
  aget 2 (match_idx (nd (on_message (mk_env xc 267 0 DEFAULT_BUDGET [] 0) 2 m n))) = Some 3.
Proof. vm_compute. repeat split; reflexivity. Qed.

(* a reply of another term leaves the leader exactly as it was *)
Example stale_reply_example :
  let n := node_of 1 g2a in
  on_message (mk_env xc 267 0 DEFAULT_BUDGET [] 0) 2 (NextIdx 0 4 false true) n
  = start_S (mk_env xc 267 0 DEFAULT_BUDGET [] 0) n.
Proof. apply next_idx_other_term_ignored. left. vm_compute. discriminate. Qed.

(* C04_match_idx_tick_static: a static 3-node configuration, the leader's tick keeps match_idx *)
Definition xs : conf := mkConf 10 100 50 300 1000 1000 true false true 100 1000 100 10 false false.
Definition gs := match run_trace xs ginit (firstn 17 tr1) with Some g => g | None => ginit end.
Example match_idx_tick_static_example :
  let n := node_of 1 gs in let e := mk_env xs 221 0 30 [] 0 in
  dyn (cf e) = false /\ role n = LEADER /\ need_load n = false /\ replay_idx n <= applied n /\
  match_idx n = [(2, 2); (3, 0)].
Proof. vm_compute. repeat split; try reflexivity; discriminate. Qed.

(* C04_applied_monotone_partial: no snapshot is involved in this run, the conditions hold trivially;
   the tick at 276 moves applied from 2 to 3 *)
Example applied_example :
  snap_ahead_tick (tick_env 276) (node_of 1 g2b) /\ applied (node_of 1 g2b) = 2 /\
  applied (nd (on_tick (tick_env 276) (node_of 1 g2b))) = 3.
Proof.
  split; [|vm_compute; auto]. unfold snap_ahead_tick.
  assert (E : need_load (node_of 1 g2b) = false) by (vm_compute; reflexivity).
  rewrite E. cbn [andb]. intros H. discriminate H.
Qed.

(* C04_log_wf: the nodes of the final state are well formed, their logs non-empty, the messages
   in flight well formed, the compaction condition holds *)
Fixpoint consecb (l : list entry) : bool :=
  match l with
  | [] => true
  | e :: r => match r with [] => true | e' :: _ => eidx e' =? eidx e + 1 end && consecb r
  end.
Lemma consecb_ok l : consecb l = true -> consec l.
Proof.
  induction l as [|e r IH]; [intros _; exact I|]. intros H. destruct r as [|e' r']; [cbn; auto|].
  change (((eidx e' =? eidx e + 1) && consecb (e' :: r')) = true) in H.
  apply andb_prop in H. destruct H as [H1 H2]. split; [now apply N.eqb_eq|auto].
Qed.
Fixpoint ssortedb (l : list N) : bool :=
  match l with
  | [] => true
  | x :: r => match r with [] => true | y :: _ => x <? y end && ssortedb r
  end.
Lemma ssortedb_ok l : ssortedb l = true -> ssorted l.
Proof.
  induction l as [|e r IH]; [intros _; exact I|]. intros H. destruct r as [|e' r']; [cbn; auto|].
  change (((e <? e') && ssortedb (e' :: r')) = true) in H.
  apply andb_prop in H. destruct H as [H1 H2]. split; [now apply N.ltb_lt|auto].
Qed.

Lemma sr_wf_init : sr_wf init_ser.
Proof. unfold sr_wf, init_ser. cbn. repeat split; intros; try discriminate; contradiction. Qed.

Example log_wf_example :
  forall x, In x [1; 2; 3] ->
    let n := node_of x g3 in
    node_wf n /\ log n <> [] /\ compact_ok (tick_env 300) n.
Proof.
  intros x Hx. cbv zeta.
  assert (H : consecb (log (node_of x g3)) = true /\ ssortedb (others (node_of x g3)) = true /\
              sr (node_of x g3) = init_ser /\ log (node_of x g3) <> []).
  { destruct Hx as [<-|[<-|[<-|[]]]]; vm_compute; repeat split; discriminate. }
  destruct H as (H1 & H2 & H3 & H4). split; [|split; [exact H4|]].
  - split; [now apply consecb_ok|]. split; [now apply ssortedb_ok|]. rewrite H3. exact sr_wf_init.
  - intros Hp. rewrite H3 in Hp. discriminate Hp.
Qed.

Example msg_wf_example : forall m, In m (chan_get 1 2 g3) -> msg_wf m.
Proof.
  assert (H : forallb (fun m => match m with
                | AE _ _ (Some (pidx, _)) es =>
                  consecb es && match es with [] => true | e0 :: _ => eidx e0 =? pidx + 1 end
                | AE _ _ None _ => true
                | _ => false end) (chan_get 1 2 g3) = true) by (vm_compute; reflexivity).
  intros m Hm. rewrite forallb_forall in H. specialize (H m Hm). clear Hm. cbv beta in H.
  destruct m as [| |t c [[pidx pterm]|] es| | | | |]; try discriminate H; [|exact I].
  apply andb_prop in H. destruct H as [H1 H2]. split; [now apply consecb_ok|].
  intros Hne. destruct es; [contradiction|]. now apply N.eqb_eq in H2.
Qed.

(* get_entries on the leader's log: the two entries with indices 3 and 4 *)
Example get_entries_example :
  let l := log (node_of 1 g3) in
  consec l /\ first_idx l <= 3 /\
  map eidx (get_entries l (Some 3) (Some 2) None) = [3; 4] /\ map eidx l = [1; 2; 3; 4].
Proof. split; [apply consecb_ok; vm_compute; reflexivity|]. vm_compute. repeat split; discriminate. Qed.

(* C04_applied_monotone: a received complete snapshot that is behind the node's position (index 2;
   node 1 of g3 has applied 3) is not installed and not stored either: applied, log and the serializer's
   file stay (since the serializer drops such a file, no fresh compaction has to be requested) *)
Definition old_snap : snapshot :=
  mkSnap [] 0 (mkEntry (noop_cmd 10) 2 1) (mkEntry (noop_cmd 10) 1 0) [1; 2; 3] 50.
Example behind_snapshot_not_installed :
  let n := (node_of 1 g3) in
  let n' := nd (on_message (mk_env xc 300 0 DEFAULT_BUDGET [] 0) 2
                           (AESnap 1 3 (SData (Good old_snap) 0 50 true true)) n) in
  applied n = 3 /\ applied n' = 3 /\ log n' = log n /\ force_compact n' = force_compact n /\
  stored (sr n') = stored (sr n) /\ incoming (sr n') = None.
Proof. vm_compute. repeat split; reflexivity. Qed.

(* the condition on the first tick (restart path) cannot be dropped: a node that has not ticked yet,
   has applied 3 and holds a dump file at index 2 goes back to 2 (state-level witness) *)
Definition xf : conf := mkConf 10 100 50 300 1000 1000 true true true 100 1000 100 10 true false.
Definition other_snap : snapshot :=
  mkSnap [] 0 (mkEntry (noop_cmd 10) 2 7) (mkEntry (noop_cmd 10) 1 7) [1; 2; 3] 50.
Definition restart_node : node :=
  (node_of 1 g3) <| need_load := true |> <| sr := mkSer 0 0 (Some (Good other_snap)) [] None |>.
Example snap_ahead_tick_needed :
  applied restart_node = 3 /\
  applied (nd (on_tick (mk_env xf 300 0 30 [] 0) restart_node)) = 2.
Proof. vm_compute. split; reflexivity. Qed.

(* C04_install_keeps_acknowledged / C09_install_keeps_suffix: node 3 of g3 holds entries 1..3 and has
   applied 1; a snapshot at position 2 whose two entries it holds leaves entry 3 (already
   acknowledged to the leader) in place; a snapshot whose entries it does not hold replaces the log *)
Definition d_entry : entry := mkEntry (noop_cmd 10) 0 0.
Definition held_snap : snapshot :=
  mkSnap [] 0 (nth 1 (log (node_of 3 g3)) d_entry) (nth 0 (log (node_of 3 g3)) d_entry) [1; 2; 3] 50.
Example install_keeps_suffix_example :
  let n := node_of 3 g3 in
  let e := mk_env xc 300 0 DEFAULT_BUDGET [] 0 in
  let p := SData (Good held_snap) 0 50 true true in
  term n <= 1 /\ recv_snapshot p (sr n) = Some (Good held_snap) /\ s_ver held_snap <= self_ver n /\
  applied n < eidx (s_e1 held_snap) /\ consec (log n) /\ snap_kept held_snap (log n) = true /\
  map eidx (log n) = [1; 2; 3] /\
  map eidx (log (nd (on_message e 1 (AESnap 1 3 p) n))) = [1; 2; 3] /\
  applied (nd (on_message e 1 (AESnap 1 3 p) n)) = 2 /\
  snap_kept other_snap (log n) = false /\
  map eterm (log (nd (on_message e 1 (AESnap 1 3 (SData (Good other_snap) 0 50 true true)) n))) = [7; 7].
Proof.
  cbv zeta. split; [vm_compute; discriminate|]. split; [vm_compute; reflexivity|].
  split; [vm_compute; discriminate|]. split; [vm_compute; reflexivity|].
  split; [apply consecb_ok; vm_compute; reflexivity|].
  vm_compute. repeat split; reflexivity.
Qed.
