(* Frame infrastructure shared by the C18 / C20 proofs: what every helper of Node.v leaves alone. *)
From Coq Require Import ZArith NArith List Bool Lia ZifyBool ZifyN.
From RecordUpdate Require Import RecordSet.
From PSO Require Import Raft.Types Raft.Node Raft.Net.
Import ListNotations.
Import RecordSetNotations.
Open Scope N_scope.

(* the election-related part of a node *)
Definition core (n : node) :=
  (self n, role n, term n, voted n, votes n, leader n).

(* what the majority computations read *)
Definition mem_part (n : node) := (others n, last_resp n, match_idx n, commit n).

(* outputs that are not election traffic / role changes *)
Definition benign (o : out) : Prop :=
  match o with
  | Role _ _ => False
  | Send _ (RequestVote _ _ _) => False
  | Send _ (ResponseVote _) => False
  | _ => True
  end.

Definition nomem (o : out) : Prop :=
  match o with TAdd _ => False | TDrop _ => False | _ => True end.

(* strictly sorted member lists *)
Fixpoint srt (l : list N) : Prop :=
  match l with [] => True | x :: r => (forall y, In y r -> x < y) /\ srt r end.

(* a leader holds a match_idx and a last_resp slot for every member *)
Definition slots_ok (n : node) : Prop :=
  srt (others n) /\
  (role n = LEADER -> forall x, In x (others n) -> aget x (match_idx n) <> None /\ aget x (last_resp n) <> None).

Lemma In_sadd : forall x y l, In y (sadd x l) -> y = x \/ In y l.
Proof.
  intros x y l; induction l as [|z l IH]; cbn; [intros [H|[]]; auto|].
  destruct (x <? z); [cbn; intros [H|H]; auto|]. destruct (x =? z); [auto|].
  cbn. intros [H|H]; auto. destruct (IH H); auto.
Qed.

Lemma srt_sadd : forall x l, srt l -> srt (sadd x l).
Proof.
  intros x l; induction l as [|z l IH]; cbn; [intros _; split; [intros y []|exact I]|].
  intros (H1 & H2). destruct (x <? z) eqn:E1.
  - apply N.ltb_lt in E1. cbn. split; [|split; assumption].
    intros y [<-|Hy]; [exact E1|]. specialize (H1 y Hy). lia.
  - destruct (x =? z) eqn:E2; [cbn; split; assumption|].
    apply N.ltb_ge in E1. apply N.eqb_neq in E2. cbn. split; [|apply IH; exact H2].
    intros y Hy. destruct (In_sadd _ _ _ Hy) as [->|Hy']; [lia | auto].
Qed.

Lemma In_sdel : forall x y l, In y (sdel x l) -> In y l.
Proof.
  intros x y l; induction l as [|z l IH]; cbn; [auto|].
  destruct (x =? z); [auto|]. cbn. intros [H|H]; auto.
Qed.

Lemma srt_sdel : forall x l, srt l -> srt (sdel x l).
Proof.
  intros x l; induction l as [|z l IH]; cbn; [auto|]. intros (H1 & H2).
  destruct (x =? z); [exact H2|]. cbn. split; [|apply IH; exact H2].
  intros y Hy. apply H1. eapply In_sdel; exact Hy.
Qed.

Lemma In_sdel_neq : forall x y l, srt l -> In y (sdel x l) -> y <> x.
Proof.
  intros x y l; induction l as [|z l IH]; cbn; [intros _ []|]. intros (H1 & H2).
  destruct (x =? z) eqn:E.
  - apply N.eqb_eq in E; subst z. intros Hy ->. specialize (H1 x Hy). lia.
  - apply N.eqb_neq in E. cbn. intros [<-|Hy]; [auto | apply IH; assumption].
Qed.

(* s' is reached from s by a phase that leaves the election core alone, only appends benign
   outputs, moves the clock forward, and touches others/last_resp/match_idx only together with a
   TAdd/TDrop output (m = true; m = false is for the dump-load path, which replaces `others`) *)
Definition fr (m : bool) (s s' : S) : Prop :=
  exists ex,
    outs s' = outs s ++ ex /\ Forall benign ex /\ core (nd s') = core (nd s) /\
    (m = true -> Forall nomem ex -> mem_part (nd s') = mem_part (nd s)) /\
    (tnow s <= tnow s')%Z /\
    (forall x v, aget x (last_resp (nd s')) = Some v ->
                 aget x (last_resp (nd s)) = Some v \/ (In (TAdd x) ex /\ (tnow s <= v <= tnow s')%Z)) /\
    (need_load (nd s) = false -> need_load (nd s') = false) /\
    (m = true -> slots_ok (nd s) -> slots_ok (nd s')).

Lemma slots_ok_eq : forall a b,
  role a = role b -> others a = others b -> match_idx a = match_idx b -> last_resp a = last_resp b ->
  slots_ok b -> slots_ok a.
Proof. intros a b H1 H2 H3 H4 H. unfold slots_ok. rewrite H1, H2, H3, H4. exact H. Qed.

Lemma fr_same : forall m s s',
  outs s' = outs s -> nd s' = nd s -> (tnow s <= tnow s')%Z -> fr m s s'.
Proof.
  intros m s s' Ho Hn Ht. exists []. rewrite app_nil_r, Hn.
  split; [exact Ho|]. split; [constructor|]. split; [reflexivity|]. split; [reflexivity|].
  split; [exact Ht|]. split; [intros x v H; left; exact H|]. split; auto.
Qed.

Lemma fr_refl : forall m s, fr m s s.
Proof.
  intros; apply fr_same; auto; lia.
Qed.

Lemma fr_trans : forall m s1 s2 s3, fr m s1 s2 -> fr m s2 s3 -> fr m s1 s3.
Proof.
  intros m s1 s2 s3 (e1 & O1 & B1 & C1 & M1 & T1 & L1 & N1 & Q1) (e2 & O2 & B2 & C2 & M2 & T2 & L2 & N2 & Q2).
  exists (e1 ++ e2).
  split; [rewrite O2, O1, app_assoc; reflexivity|].
  split; [apply Forall_app; auto|].
  split; [congruence|].
  split; [intros Hm HF; apply Forall_app in HF as [F1 F2]; rewrite M2, M1; auto|].
  split; [lia|].
  split; [|split; auto].
  intros x v H. destruct (L2 x v H) as [H2 | [H2 H3]].
  - destruct (L1 x v H2) as [H1 | [H1 H4]]; [left; auto | right; split; [apply in_or_app; auto | lia]].
  - right; split; [apply in_or_app; auto | lia].
Qed.

Lemma fr_weaken : forall s s', fr true s s' -> fr false s s'.
Proof.
  intros s s' (ex & O & B & C & M & T & L & Nl & Q). exists ex.
  split; [exact O|]. split; [exact B|]. split; [exact C|]. split; [discriminate|]. split; [exact T|].
  split; [exact L|]. split; [exact Nl | discriminate].
Qed.

Lemma fr_any : forall m s s', fr true s s' -> fr m s s'.
Proof. intros [] s s' H; auto using fr_weaken. Qed.

(* ---- consequences ---- *)
Lemma fr_core : forall m s s', fr m s s' -> core (nd s') = core (nd s).
Proof. intros m s s' (ex & O & B & C & _); exact C. Qed.

Lemma core_fields : forall a b, core a = core b ->
  self a = self b /\ role a = role b /\ term a = term b /\ voted a = voted b /\ votes a = votes b /\
  leader a = leader b.
Proof. unfold core; intros a b H; inversion H; repeat split; auto. Qed.

Lemma fr_outs : forall m s s', fr m s s' -> exists ex, outs s' = outs s ++ ex /\ Forall benign ex.
Proof. intros m s s' (ex & O & B & _); eauto. Qed.

Lemma fr_tnow : forall m s s', fr m s s' -> (tnow s <= tnow s')%Z.
Proof. intros m s s' (ex & O & B & C & M & T & L & Nl & Q); exact T. Qed.

(* ---- primitives ---- *)
Lemma fr_upd : forall m (f : node -> node) s,
  (forall n, core (f n) = core n) -> (forall n, mem_part (f n) = mem_part n) ->
  (forall n, need_load (f n) = need_load n) -> fr m s (upd f s).
Proof.
  intros m f s Hc Hm Hn. exists []. unfold upd; cbn. rewrite app_nil_r.
  split; [reflexivity|]. split; [constructor|]. split; [apply Hc|]. split; [intros; apply Hm|].
  split; [lia|].
  specialize (Hm (nd s)). unfold mem_part in Hm. injection Hm as M1 M2 M3 M4.
  split; [intros x v H; left; rewrite <- M2; exact H|]. split; [rewrite Hn; auto|].
  intros _. apply slots_ok_eq; auto.
  specialize (Hc (nd s)). unfold core in Hc. injection Hc; auto.
Qed.

Lemma fr_emit : forall m o s, benign o -> nomem o -> fr m s (emit o s).
Proof.
  intros m o s Hb Hn. exists [o]. unfold emit; cbn.
  split; [reflexivity|]. split; [repeat constructor; exact Hb|]. split; [reflexivity|]. split; [reflexivity|].
  split; [lia|]. split; [intros x v H; left; exact H|]. split; auto.
Qed.

Lemma fr_raise : forall m c s, fr m s (raise c s).
Proof. intros; apply fr_same; unfold raise; cbn; auto; lia. Qed.

Lemma fr_send : forall m d msg0 s, benign (Send d msg0) -> fr m s (send d msg0 s).
Proof.
  intros m d msg0 s Hb. unfold send. destruct (smem d (tconn (nd s))); [|apply fr_refl].
  apply fr_emit; [exact Hb | exact I].
Qed.

Lemma fr_fire : forall m c r e s, fr m s (fire c r e s).
Proof. intros; unfold fire; destruct c; try apply fr_refl. apply fr_emit; exact I. Qed.

Lemma fr_call_err : forall m e c s, fr m s (call_err e c s).
Proof.
  intros; unfold call_err; destruct c; try apply fr_refl.
  - apply fr_emit; exact I.
  - apply fr_send; exact I.
Qed.

Lemma fr_fold : forall m {A} (f : S -> A -> S) (l : list A) s,
  (forall s x, fr m s (f s x)) -> fr m s (fold_left f l s).
Proof.
  intros m A f l; induction l as [|a l IH]; intros s H; cbn; [apply fr_refl|].
  eapply fr_trans; [apply H | apply IH; exact H].
Qed.

Lemma fr_on_leader_changed : forall m s, fr m s (on_leader_changed s).
Proof.
  intros; unfold on_leader_changed.
  eapply fr_trans; [apply fr_fold; intros; apply fr_fire | apply fr_upd; intros; reflexivity].
Qed.

Lemma fr_send_next_idx : forall m d nx r su s, fr m s (send_next_idx d nx r su s).
Proof. intros; unfold send_next_idx; apply fr_send; exact I. Qed.

(* ---- association lists ---- *)
Lemma aget_aset_same : forall {V} k (v : V) l, aget k (aset k v l) = Some v.
Proof.
  intros V k v l; induction l as [|[k' w] l IH]; cbn.
  - rewrite N.eqb_refl; reflexivity.
  - destruct (k <? k') eqn:E1; cbn; [rewrite N.eqb_refl; reflexivity|].
    destruct (k =? k') eqn:E2; cbn; [rewrite N.eqb_refl; reflexivity|].
    rewrite E2; exact IH.
Qed.

Lemma aget_aset_other : forall {V} k k' (v : V) l, k' <> k -> aget k' (aset k v l) = aget k' l.
Proof.
  intros V k k' v l Hne. assert (k' =? k = false) as E by (apply N.eqb_neq; exact Hne).
  induction l as [|[k2 w] l IH]; cbn.
  - rewrite E; reflexivity.
  - destruct (k <? k2) eqn:E1; cbn; [rewrite E; reflexivity|].
    destruct (k =? k2) eqn:E2; cbn.
    + apply N.eqb_eq in E2; subst k2. rewrite E; reflexivity.
    + destruct (k' =? k2); auto.
Qed.

Lemma aget_adel_other : forall {V} k k' (l : list (N * V)), k' <> k -> aget k' (adel k l) = aget k' l.
Proof.
  intros V k k' l Hne. assert (k' =? k = false) as E by (apply N.eqb_neq; exact Hne).
  induction l as [|[k2 w] l IH]; cbn; [reflexivity|].
  destruct (k =? k2) eqn:E2; cbn.
  - apply N.eqb_eq in E2; subst k2. rewrite E; reflexivity.
  - destruct (k' =? k2); auto.
Qed.

(* ---- membership ---- *)
Lemma aget_aset_some : forall {V} k k' (v : V) l, aget k' l <> None -> aget k' (aset k v l) <> None.
Proof.
  intros V k k' v l H. destruct (N.eq_dec k' k) as [->|Hne].
  - rewrite aget_aset_same; discriminate.
  - rewrite aget_aset_other; auto.
Qed.

Lemma fr_do_change_cluster : forall m add x rev s, fr m s (fst (do_change_cluster add x rev s)).
Proof.
  intros m add x rev s. unfold do_change_cluster.
  destruct (xorb add rev).
  - destruct (self_is x (nd s) || smem x (others (nd s))); cbn; [apply fr_refl|].
    exists [TAdd x]. unfold emit; cbn.
    split; [reflexivity|]. split; [repeat constructor|].
    split; [destruct (role (nd s) =? LEADER); reflexivity|].
    split; [intros _ HF; inversion HF; subst; contradiction|].
    split; [lia|].
    split; [|split; [destruct (role (nd s) =? LEADER); cbn; auto|]].
    + intros y v H. destruct (role (nd s) =? LEADER); cbn in H; [|left; exact H].
      destruct (N.eq_dec y x) as [->|Hne].
      * right. rewrite aget_aset_same in H. inversion H. split; [left; reflexivity | lia].
      * left. rewrite aget_aset_other in H; auto.
    + intros _ (S1 & S2). destruct (role (nd s) =? LEADER) eqn:ER; cbn.
      * split; [apply srt_sadd; exact S1|]. intros Hl y Hy.
        destruct (In_sadd _ _ _ Hy) as [->|Hy'].
        -- change (aget x (aset x 0 (match_idx (nd s))) <> None /\ aget x (aset x (tnow s) (last_resp (nd s))) <> None).
           rewrite !aget_aset_same. split; discriminate.
        -- destruct (S2 Hl y Hy') as (A1 & A2).
           change (aget y (aset x 0 (match_idx (nd s))) <> None /\ aget y (aset x (tnow s) (last_resp (nd s))) <> None).
           split; apply aget_aset_some; assumption.
      * split; [apply srt_sadd; exact S1|]. intros Hl. apply N.eqb_neq in ER. contradiction.
  - destruct (self_is x (nd s)); cbn; [apply fr_refl|].
    destruct (negb (smem x (others (nd s)))); cbn; [apply fr_refl|].
    exists [TDrop x]. unfold emit; cbn.
    split; [reflexivity|]. split; [repeat constructor|].
    split; [reflexivity|].
    split; [intros _ HF; inversion HF; subst; contradiction|].
    split; [lia|]. split; [intros y v H; left; exact H|]. split; [cbn; auto|].
    intros _ (S1 & S2). split; [apply srt_sdel; exact S1|]. intros Hl y Hy.
    destruct (S2 Hl y (In_sdel _ _ _ Hy)) as (A1 & A2).
    split; [|exact A2]. change (aget y (adel x (match_idx (nd s))) <> None).
    rewrite aget_adel_other; [exact A1 | eapply In_sdel_neq; eauto].
Qed.

(* ---- chaining tactic ---- *)
Lemma fr_upd_false : forall (f : node -> node) s,
  (forall n, core (f n) = core n) -> (forall n, last_resp (f n) = last_resp n) ->
  (forall n, need_load (f n) = need_load n) -> fr false s (upd f s).
Proof.
  intros f s Hc Hm Hn. exists []. unfold upd; cbn. rewrite app_nil_r.
  split; [reflexivity|]. split; [constructor|]. split; [apply Hc|]. split; [discriminate|].
  split; [lia|]. split; [intros x v H; left; rewrite <- Hm; exact H|]. split; [rewrite Hn; auto | discriminate].
Qed.

Lemma fr_emit_false : forall o s, benign o -> fr false s (emit o s).
Proof.
  intros o s Hb. exists [o]. unfold emit; cbn.
  split; [reflexivity|]. split; [repeat constructor; exact Hb|]. split; [reflexivity|].
  split; [discriminate|]. split; [lia|]. split; [intros x v H; left; exact H|]. split; [auto | discriminate].
Qed.

Create HintDb frdb.
#[export] Hint Resolve fr_raise fr_fire fr_call_err fr_on_leader_changed fr_send_next_idx
  fr_do_change_cluster : frdb.

Ltac fr0 :=
  first [ solve [auto with frdb]
        | apply fr_upd; intros; reflexivity
        | apply fr_upd_false; intros; reflexivity
        | apply fr_send; exact I
        | apply fr_emit; exact I
        | apply fr_emit_false; exact I ].
Ltac fr1 := first [ apply fr_refl | fr0 ].
Ltac frchain := repeat (first [ fr1 | eapply fr_trans; [| fr0] ]).

Lemma fr_apply_membership : forall m rev es s, fr m s (apply_membership rev es s).
Proof.
  intros; unfold apply_membership. apply fr_fold. intros s0 x.
  destruct (membership_of (ecmd x)) as [[a y]|]; frchain.
Qed.
#[export] Hint Resolve fr_apply_membership : frdb.

Lemma fr_update_cluster : forall new s, fr false s (update_cluster new s).
Proof.
  intros; unfold update_cluster; cbv zeta.
  eapply fr_trans; [| apply fr_fold; intros s0 x; cbv beta; frchain].
  eapply fr_trans; [| fr0].
  apply fr_fold. intros s0 x. frchain.
Qed.
#[export] Hint Resolve fr_update_cluster : frdb.

Lemma fr_get_transmission : forall m e x s, fr m s (fst (get_transmission e x s)).
Proof.
  intros; unfold get_transmission.
  destruct (negb (pid (sr (nd s)) =? 0)); cbn; [fr1|].
  destruct (match aget x (trans (sr (nd s))) with Some t => Some t | None => _ end) as [[b off]|]; cbn; frchain.
Qed.

Lemma fr_cancel_transmission : forall m x s, fr m s (cancel_transmission x s).
Proof. intros; unfold cancel_transmission; frchain. Qed.

Lemma fr_set_transmission : forall m p s, fr m s (fst (set_transmission p s)).
Proof.
  intros; unfold set_transmission. destruct p; cbn; [fr1|].
  destruct (if first then Some [] else incoming (sr (nd s))); cbn; [|fr1].
  destruct last; [destruct (snap_ahead _ _)|]; cbn; frchain.
Qed.
#[export] Hint Resolve fr_get_transmission fr_cancel_transmission fr_set_transmission : frdb.

Lemma fr_load_dump : forall e clear s, fr false s (load_dump e clear s).
Proof.
  intros; unfold load_dump.
  destruct (stored (sr (nd s))) as [[sn|]|]; try fr1.
  destruct (clear && (eidx (s_e1 sn) <=? applied (nd s))); [fr1|].
  destruct (self_ver (nd s) <? s_ver sn); [fr1|]. cbv zeta.
  match goal with |- fr _ _ (if dyn _ then _ else ?Y) => assert (fr false s Y) as HY end.
  { eapply fr_trans; [|fr0].
    match goal with |- fr _ _ (if ?c then upd ?f ?X else ?X) => assert (fr false s X) as HX end.
    { match goal with |- fr _ _ (if ?k then _ else _) => destruct k end; frchain. }
    match goal with |- fr _ _ (if ?c then _ else _) => destruct c end; [|exact HX].
    eapply fr_trans; [exact HX | fr0]. }
  destruct (dyn (cf e)); [|exact HY].
  match goal with |- fr _ _ (if _ then apply_membership _ _ ?U else ?U) => assert (fr false s U) as HU end.
  { eapply fr_trans; [exact HY | apply fr_update_cluster]. }
  match goal with |- fr _ _ (if ?c then _ else _) => destruct c end; [|exact HU].
  eapply fr_trans; [exact HU | apply fr_apply_membership].
Qed.
#[export] Hint Resolve fr_load_dump : frdb.

(* ---- __sendAppendEntries ---- *)
Definition period_ok (e : env) : Prop := (0 <= period (cf e))%Z.

Lemma fr_delta_read : forall m e s, period_ok e -> fr m s (delta_read e s).
Proof.
  intros m e s Hp. unfold delta_read, period_ok in *. cbv zeta.
  destruct (_ && _); exists []; cbn; rewrite app_nil_r;
    (split; [reflexivity|]; split; [constructor|]; split; [reflexivity|]; split; [reflexivity|];
     split; [lia|]; split; [intros x v H; left; exact H|]; split; auto).
Qed.

Lemma fr_send_pieces : forall m fuel x en prev b pos s, fr m s (send_pieces fuel x en prev b pos s).
Proof.
  intros m fuel; induction fuel as [|f IH]; intros; cbn; [fr1|].
  destruct (psize en <=? pos); [fr1|].
  eapply fr_trans; [|apply IH]. frchain.
Qed.
#[export] Hint Resolve fr_send_pieces : frdb.

#[local] Arguments send_pieces : simpl never.
Lemma fr_ae_body : forall m e x next s, fr m s (fst (ae_body e x next s)).
Proof.
  intros; unfold ae_body.
  destruct (first_idx (log (nd s)) <? next).
  - destruct (next <=? last_idx (log (nd s))).
    + destruct (get_entries _ _ _ _) as [|e1 [|e2 r]]; cbn; frchain.
      destruct (batch (cf e) <=? csz (ecmd e1)); cbn; frchain.
    + cbn; frchain.
  - destruct (get_transmission e x s) as [s1 td] eqn:E.
    assert (fr m s s1) as H1 by (change s1 with (fst (s1, td)); rewrite <- E; fr1).
    destruct td as [|b off len fi la]; cbn; [eapply fr_trans; [exact H1|frchain]|].
    destruct la; cbn; [|eapply fr_trans; [exact H1|frchain]].
    destruct (log (nd (send x _ s1))) as [|? [|e1 ?]]; cbn; (eapply fr_trans; [exact H1|frchain]).
Qed.

Lemma fr_ae_loop : forall m fuel e start x single ser_ s, period_ok e -> fr m s (ae_loop fuel e start x single ser_ s).
Proof.
  intros m fuel; induction fuel as [|f IH]; intros e start x single ser_ s Hp; cbn [ae_loop]; [fr1|].
  destruct (aget x (next_idx (nd s))) as [next|]; [|fr1].
  destruct ((next <=? last_idx (log (nd s))) || single || ser_); [|fr1].
  destruct (ae_body e x next s) as [s1 ser'] eqn:E.
  assert (fr m s s1) as H1 by (change s1 with (fst (s1, ser')); rewrite <- E; apply fr_ae_body).
  destruct (ok s1); [|exact H1].
  assert (fr m s (delta_read e s1)) as H2 by (eapply fr_trans; [exact H1 | apply fr_delta_read; exact Hp]).
  destruct (period (cf e) <? tnow (delta_read e s1) - start)%Z; [exact H2|].
  eapply fr_trans; [exact H2 | apply IH; exact Hp].
Qed.

Lemma fr_send_ae : forall m e s, period_ok e -> fr m s (send_ae e s).
Proof.
  intros m e s Hp; unfold send_ae; cbv zeta.
  eapply fr_trans; [| apply fr_fold; intros s0 x].
  - eapply fr_trans with (s <| used := 0 |> <| jmp := false |>).
    + apply fr_same; cbn; auto; lia.
    + fr0.
  - destruct (ok s0); [|fr1].
    destruct (negb (smem x (connected (nd s0)))); [fr1|].
    apply fr_ae_loop; exact Hp.
Qed.

(* ---- apply ---- *)
Lemma fr_do_apply : forall m c s, fr m s (fst (do_apply c s)).
Proof.
  intros; unfold do_apply.
  destruct (ck c =? 3).
  - destruct (self_ver (nd s) <? ca c); cbn; frchain.
  - destruct (membership_of c) as [[a x]|].
    + destruct (applied (nd s) <? replay_idx (nd s)); cbn; frchain.
    + destruct (ck c =? 0); cbn; [|fr1]. destruct (cb c =? 1); cbn; frchain.
Qed.

Lemma fr_apply_one : forall m en s, fr m s (fst (apply_one en s)).
Proof.
  intros; unfold apply_one; cbv zeta.
  match goal with |- context [do_apply ?c ?X] =>
    assert (fr m s X) as H0 by fr0; destruct (do_apply c X) as [s1 ar] eqn:E;
    assert (fr m X s1) as H1 by (change s1 with (fst (s1, ar)); rewrite <- E; apply fr_do_apply) end.
  assert (fr m s s1) as H2 by exact (fr_trans _ _ _ _ H0 H1).
  destruct ar; cbn; try exact H2;
    (eapply fr_trans; [exact H2|]; eapply fr_trans; [|fr0]; apply fr_fold; intros s0 tc;
     destruct (fst tc =? eterm en); fr1).
Qed.

Lemma fr_apply_list : forall m es s, fr m s (apply_list es s).
Proof.
  intros m es; induction es as [|en r IH]; intros; cbn; [fr1|].
  destruct (apply_one en s) as [s1 go] eqn:E.
  assert (fr m s s1) as H1 by (change s1 with (fst (s1, go)); rewrite <- E; apply fr_apply_one).
  destruct go; [|exact H1]. eapply fr_trans; [exact H1 | apply IH].
Qed.

Lemma fr_apply_entries : forall m e s, fr m s (fst (apply_entries e s)).
Proof.
  intros; unfold apply_entries; cbv zeta.
  destruct (applied (nd s) <? commit (nd s)); cbn; [apply fr_apply_list | fr1].
Qed.
#[export] Hint Resolve fr_ae_body fr_do_apply fr_apply_one fr_apply_list fr_apply_entries : frdb.

(* ---- commands ---- *)
Lemma fr_submit : forall m e c cbk s, fr m s (submit e c cbk s).
Proof. intros; unfold submit. destruct (qsize (cf e) <? _); frchain. Qed.

Lemma fr_change_cluster : forall m add x s, fr m s (fst (change_cluster add x s)).
Proof.
  intros; unfold change_cluster; cbv zeta.
  destruct (negb _); cbn; [fr1|].
  match goal with |- context [change_idx (nd ?X)] => assert (fr m s X) as H0 end.
  { destruct (change_idx (nd s)) as [ci|]; [|fr1]. destruct (ci <=? applied (nd s)); frchain. }
  match goal with |- context [change_idx (nd ?X)] => destruct (change_idx (nd X)) end; cbn; [exact H0|].
  eapply fr_trans; [exact H0 | fr0].
Qed.
#[export] Hint Resolve fr_submit fr_change_cluster : frdb.

Lemma fr_check_one : forall m e c cbk s, period_ok e -> fr m s (check_one e c cbk s).
Proof.
  intros m e c cbk s Hp; unfold check_one; cbv zeta.
  destruct (role (nd s) =? LEADER).
  - match goal with |- context [match ?R with None => (s, true) | Some p => _ end] =>
      destruct R as [[a x]|] eqn:ER end.
    + destruct (change_cluster a x s) as [s1 acc] eqn:E.
      assert (fr m s s1) as H1 by (change s1 with (fst (s1, acc)); rewrite <- E; fr0).
      destruct acc.
      * eapply fr_trans; [exact H1|].
        destruct (use_batch (cf e)); [|eapply fr_trans; [|apply fr_send_ae; exact Hp]];
          destruct cbk; frchain.
      * eapply fr_trans; [exact H1|]. destruct cbk; frchain.
    + destruct (use_batch (cf e)); [|eapply fr_trans; [|apply fr_send_ae; exact Hp]];
        destruct cbk; frchain.
  - destruct (leader (nd s)); [|fr1]. destruct cbk; frchain.
Qed.

Lemma fr_check_loop : forall m fuel e start s, period_ok e -> fr m s (check_loop fuel e start s).
Proof.
  intros m fuel; induction fuel as [|f IH]; intros e start s Hp; cbn [check_loop]; [fr1|].
  destruct (tnow s - start <? period (cf e))%Z; [|fr1].
  assert (fr m s match queue (nd s) with
                 | [] => s
                 | (c, cbk) :: rest =>
                   if ok (check_one e c cbk (upd (fun n => n <| queue := rest |>) s))
                   then check_loop f e start (check_one e c cbk (upd (fun n => n <| queue := rest |>) s))
                   else check_one e c cbk (upd (fun n => n <| queue := rest |>) s)
                 end) as H.
  { destruct (queue (nd s)) as [|[c cbk] rest]; [fr1|].
    assert (fr m s (check_one e c cbk (upd (fun n => n <| queue := rest |>) s))) as H1.
    { eapply fr_trans; [|apply fr_check_one; exact Hp]. fr0. }
    destruct (ok _); [|exact H1]. eapply fr_trans; [exact H1 | apply IH; exact Hp]. }
  destruct (leader (nd s)); [exact H|]. destruct (wait_leader (cf e)); [fr1 | exact H].
Qed.

Lemma fr_check_commands : forall m e s, period_ok e -> fr m s (check_commands e s).
Proof. intros; unfold check_commands; apply fr_check_loop; assumption. Qed.

Lemma fr_try_compact : forall m e s, fr m s (try_compact e s).
Proof.
  intros; unfold try_compact; cbv zeta.
  match goal with |- context [if pid (sr (nd s)) =? 1 then upd ?f ?X else ?X] =>
    assert (fr m s (if pid (sr (nd s)) =? 1 then upd f X else X)) as H0 end.
  { destruct (pid (sr (nd s)) =? 1); destruct (pid (sr (nd s)) =? 0); frchain. }
  destruct (negb (pid (sr (nd s)) =? 0)); [exact H0|].
  match goal with |- context [if ?c then _ else _] => destruct c end; [exact H0|].
  eapply fr_trans; [exact H0|].
  match goal with |- context [get_entries ?a ?b ?c ?d] => destruct (get_entries a b c d) as [|e0 [|e1 r]] end;
    frchain.
  destruct (opt_eqb _ _); frchain.
Qed.

Lemma fr_tick_timer : forall m e s, fr m s (tick_timer e s).
Proof. intros; unfold tick_timer; cbv zeta. destruct (_ <? _)%Z; frchain. Qed.

Lemma fr_tick_ready : forall m s, fr m s (tick_ready s).
Proof. intros; unfold tick_ready; cbv zeta. destruct (_ && _); frchain. Qed.

Lemma fr_ae_commit : forall c v s, fr false s (ae_commit c v s).
Proof.
  intros; unfold ae_commit. eapply fr_trans; [|fr0].
  destruct v; [|fr1]. destruct (commit (nd s) <? c); frchain.
Qed.
#[export] Hint Resolve fr_try_compact fr_tick_timer fr_tick_ready fr_ae_commit : frdb.

Lemma fr_tick_send : forall m e need s, period_ok e -> fr m s (tick_send e need s).
Proof.
  intros; unfold tick_send. destruct (role (nd s) =? LEADER); [|fr1].
  destruct (_ || need); [apply fr_send_ae; assumption | fr1].
Qed.
