(* Frame infrastructure shared by the C18 / C20 proofs: what every helper of Node.v leaves alone. *)
From Coq Require Import ZArith NArith List Bool Lia ZifyBool ZifyN.
From RecordUpdate Require Import RecordSet.
From PSO Require Import Raft.Types Raft.Node Raft.Net Raft.Obs.
Import ListNotations.
Import RecordSetNotations.
Open Scope N_scope.

(* the election-related part of a node *)
Definition core (n : node) :=
  (self n, role n, term n, voted n, votes n, leader n, need_load n).

(* what the majority computations read *)
Definition mem_part (n : node) := (others n, last_resp n, match_idx n).

(* outputs that are not election traffic / role changes *)
Definition benign (o : out) : Prop :=
  match o with
  | Role _ _ => False
  | Send _ (RequestVote _ _ _) => False
  | Send _ (ResponseVote _) => False
  | _ => True
  end.

Definition nomem (o : out) : Prop :=
  match o with TAdd _ => False | TDrop _ => False | _ => True end.

(* s' is reached from s by a phase that leaves the election core alone, only appends benign
   outputs, moves the clock forward, and touches others/last_resp/match_idx only together with a
   TAdd/TDrop output (m = true; m = false is for the dump-load path, which replaces `others`) *)
Definition fr (m : bool) (s s' : S) : Prop :=
  exists ex,
    outs s' = outs s ++ ex /\ Forall benign ex /\ core (nd s') = core (nd s) /\
    (m = true -> Forall nomem ex -> mem_part (nd s') = mem_part (nd s)) /\
    (tnow s <= tnow s')%Z /\
    (forall x v, aget x (last_resp (nd s')) = Some v ->
                 aget x (last_resp (nd s)) = Some v \/ (In (TAdd x) ex /\ (tnow s <= v <= tnow s')%Z)).

Lemma fr_refl : forall m s, fr m s s.
Proof.
  intros; exists []; rewrite app_nil_r; repeat split; auto; try lia.
Qed.

Lemma fr_trans : forall m s1 s2 s3, fr m s1 s2 -> fr m s2 s3 -> fr m s1 s3.
Proof.
  intros m s1 s2 s3 (e1 & O1 & B1 & C1 & M1 & T1 & L1) (e2 & O2 & B2 & C2 & M2 & T2 & L2).
  exists (e1 ++ e2). repeat split.
  - rewrite O2, O1, app_assoc; reflexivity.
  - apply Forall_app; auto.
  - congruence.
  - intros Hm HF. apply Forall_app in HF as [F1 F2]. rewrite M2, M1; auto.
  - lia.
  - intros x v H. destruct (L2 x v H) as [H2 | [H2 H3]].
    + destruct (L1 x v H2) as [H1 | [H1 H4]]; [left; auto | right; split; [apply in_or_app; auto | lia]].
    + right; split; [apply in_or_app; auto | lia].
Qed.

Lemma fr_weaken : forall s s', fr true s s' -> fr false s s'.
Proof.
  intros s s' (ex & O & B & C & M & T & L). exists ex; repeat split; auto; try discriminate; apply L; auto.
Qed.

Lemma fr_any : forall m s s', fr true s s' -> fr m s s'.
Proof. intros [] s s' H; auto using fr_weaken. Qed.

(* ---- consequences ---- *)
Lemma fr_core : forall m s s', fr m s s' -> core (nd s') = core (nd s).
Proof. intros m s s' (ex & O & B & C & _); exact C. Qed.

Lemma core_fields : forall a b, core a = core b ->
  self a = self b /\ role a = role b /\ term a = term b /\ voted a = voted b /\ votes a = votes b /\
  leader a = leader b /\ need_load a = need_load b.
Proof. unfold core; intros a b H; inversion H; repeat split; auto. Qed.

Lemma fr_outs : forall m s s', fr m s s' -> exists ex, outs s' = outs s ++ ex /\ Forall benign ex.
Proof. intros m s s' (ex & O & B & _); eauto. Qed.

Lemma fr_tnow : forall m s s', fr m s s' -> (tnow s <= tnow s')%Z.
Proof. intros m s s' (ex & O & B & C & M & T & L); exact T. Qed.

(* ---- primitives ---- *)
Lemma fr_upd : forall m (f : node -> node) s,
  (forall n, core (f n) = core n) -> (forall n, mem_part (f n) = mem_part n) -> fr m s (upd f s).
Proof.
  intros m f s Hc Hm. exists []. unfold upd; cbn. rewrite app_nil_r.
  repeat split; auto; try lia.
  intros x v H. left. specialize (Hm (nd s)). unfold mem_part in Hm.
  assert (last_resp (f (nd s)) = last_resp (nd s)) as H2 by congruence.
  rewrite <- H2; exact H.
Qed.

Lemma fr_emit : forall m o s, benign o -> nomem o -> fr m s (emit o s).
Proof.
  intros m o s Hb Hn. exists [o]. unfold emit; cbn. repeat split; auto; try lia.
Qed.

Lemma fr_raise : forall m c s, fr m s (raise c s).
Proof. intros; exists []; unfold raise; cbn; rewrite app_nil_r; repeat split; auto; lia. Qed.

Lemma fr_send : forall m d msg0 s, benign (Send d msg0) -> fr m s (send d msg0 s).
Proof.
  intros m d msg0 s Hb. unfold send. destruct (smem d (tconn (nd s))); [|apply fr_refl].
  apply fr_emit; [exact Hb | exact I].
Qed.

Lemma fr_fire : forall m c r e s, fr m s (fire c r e s).
Proof. intros; unfold fire; destruct c; try apply fr_refl. apply fr_emit; exact I. Qed.

Lemma fr_call_err : forall m e c s, fr m s (call_err e c s).
Proof.
  intros; unfold call_err; destruct c; try apply fr_refl.
  - apply fr_emit; exact I.
  - apply fr_send; exact I.
Qed.

Lemma fr_fold : forall m {A} (f : S -> A -> S) (l : list A) s,
  (forall s x, fr m s (f s x)) -> fr m s (fold_left f l s).
Proof.
  intros m A f l; induction l as [|a l IH]; intros s H; cbn; [apply fr_refl|].
  eapply fr_trans; [apply H | apply IH; exact H].
Qed.

Lemma fr_on_leader_changed : forall m s, fr m s (on_leader_changed s).
Proof.
  intros; unfold on_leader_changed.
  eapply fr_trans; [apply fr_fold; intros; apply fr_fire | apply fr_upd; intros; reflexivity].
Qed.

Lemma fr_send_next_idx : forall m d nx r su s, fr m s (send_next_idx d nx r su s).
Proof. intros; unfold send_next_idx; apply fr_send; exact I. Qed.

(* ---- association lists ---- *)
Lemma aget_aset_same : forall {V} k (v : V) l, aget k (aset k v l) = Some v.
Proof.
  intros V k v l; induction l as [|[k' w] l IH]; cbn.
  - rewrite N.eqb_refl; reflexivity.
  - destruct (k <? k') eqn:E1; cbn; [rewrite N.eqb_refl; reflexivity|].
    destruct (k =? k') eqn:E2; cbn; [rewrite N.eqb_refl; reflexivity|].
    rewrite E2; exact IH.
Qed.

Lemma aget_aset_other : forall {V} k k' (v : V) l, k' <> k -> aget k' (aset k v l) = aget k' l.
Proof.
  intros V k k' v l Hne. assert (k' =? k = false) as E by (apply N.eqb_neq; exact Hne).
  induction l as [|[k2 w] l IH]; cbn.
  - rewrite E; reflexivity.
  - destruct (k <? k2) eqn:E1; cbn; [rewrite E; reflexivity|].
    destruct (k =? k2) eqn:E2; cbn.
    + apply N.eqb_eq in E2; subst k2. rewrite E; reflexivity.
    + destruct (k' =? k2); auto.
Qed.

Lemma aget_adel_other : forall {V} k k' (l : list (N * V)), k' <> k -> aget k' (adel k l) = aget k' l.
Proof.
  intros V k k' l Hne. assert (k' =? k = false) as E by (apply N.eqb_neq; exact Hne).
  induction l as [|[k2 w] l IH]; cbn; [reflexivity|].
  destruct (k =? k2) eqn:E2; cbn.
  - apply N.eqb_eq in E2; subst k2. rewrite E; reflexivity.
  - destruct (k' =? k2); auto.
Qed.

(* ---- membership ---- *)
Lemma fr_do_change_cluster : forall m add x rev s, fr m s (fst (do_change_cluster add x rev s)).
Proof.
  intros m add x rev s. unfold do_change_cluster.
  destruct (xorb add rev).
  - destruct (self_is x (nd s) || smem x (others (nd s))); cbn; [apply fr_refl|].
    exists [TAdd x]. unfold emit; cbn.
    split; [reflexivity|]. split; [repeat constructor|].
    split; [destruct (role (nd s) =? LEADER); reflexivity|].
    split; [intros _ HF; inversion HF; subst; contradiction|].
    split; [lia|].
    intros y v H. destruct (role (nd s) =? LEADER); cbn in H; [|left; exact H].
    destruct (N.eq_dec y x) as [->|Hne].
    + right. rewrite aget_aset_same in H. inversion H. split; [left; reflexivity | lia].
    + left. rewrite aget_aset_other in H; auto.
  - destruct (self_is x (nd s)); cbn; [apply fr_refl|].
    destruct (negb (smem x (others (nd s)))); cbn; [apply fr_refl|].
    exists [TDrop x]. unfold emit; cbn.
    split; [reflexivity|]. split; [repeat constructor|].
    split; [reflexivity|].
    split; [intros _ HF; inversion HF; subst; contradiction|].
    split; [lia|]. intros y v H; left; exact H.
Qed.

(* ---- chaining tactic ---- *)
Lemma fr_upd_false : forall (f : node -> node) s,
  (forall n, core (f n) = core n) -> (forall n, last_resp (f n) = last_resp n) -> fr false s (upd f s).
Proof.
  intros f s Hc Hm. exists []. unfold upd; cbn. rewrite app_nil_r.
  split; [reflexivity|]. split; [constructor|]. split; [apply Hc|]. split; [discriminate|].
  split; [lia|]. intros x v H; left. rewrite <- Hm; exact H.
Qed.

Lemma fr_emit_false : forall o s, benign o -> fr false s (emit o s).
Proof.
  intros o s Hb. exists [o]. unfold emit; cbn.
  split; [reflexivity|]. split; [repeat constructor; exact Hb|]. split; [reflexivity|].
  split; [discriminate|]. split; [lia|]. intros x v H; left; exact H.
Qed.

Create HintDb frdb.
#[export] Hint Resolve fr_refl fr_raise fr_fire fr_call_err fr_on_leader_changed fr_send_next_idx
  fr_do_change_cluster : frdb.

Ltac fr1 :=
  first [ apply fr_refl
        | solve [auto with frdb]
        | apply fr_upd; intros; reflexivity
        | apply fr_upd_false; intros; reflexivity
        | apply fr_send; exact I
        | apply fr_emit; exact I
        | apply fr_emit_false; exact I ].
Ltac frchain := repeat (first [ fr1 | eapply fr_trans; [| fr1] ]).

Lemma fr_apply_membership : forall m rev es s, fr m s (apply_membership rev es s).
Proof.
  intros; unfold apply_membership. apply fr_fold. intros s0 x.
  destruct (membership_of (ecmd x)) as [[a y]|]; frchain.
Qed.
#[export] Hint Resolve fr_apply_membership : frdb.

Lemma fr_update_cluster : forall new s, fr false s (update_cluster new s).
Proof.
  intros; unfold update_cluster; cbv zeta.
  eapply fr_trans; [| apply fr_fold; intros s0 x; cbv beta; frchain].
  eapply fr_trans; [| fr1].
  apply fr_fold. intros s0 x. frchain.
Qed.
#[export] Hint Resolve fr_update_cluster : frdb.

Lemma fr_get_transmission : forall m e x s, fr m s (fst (get_transmission e x s)).
Proof.
  intros; unfold get_transmission.
  destruct (negb (pid (sr (nd s)) =? 0)); cbn; [fr1|].
  destruct (match aget x (trans (sr (nd s))) with Some t => Some t | None => _ end) as [[b off]|]; cbn; frchain.
Qed.

Lemma fr_cancel_transmission : forall m x s, fr m s (cancel_transmission x s).
Proof. intros; unfold cancel_transmission; frchain. Qed.

Lemma fr_set_transmission : forall m p s, fr m s (fst (set_transmission p s)).
Proof.
  intros; unfold set_transmission. destruct p; cbn; [fr1|].
  destruct (if first then Some [] else incoming (sr (nd s))); cbn; [|fr1].
  destruct last; cbn; frchain.
Qed.
#[export] Hint Resolve fr_get_transmission fr_cancel_transmission fr_set_transmission : frdb.

Lemma fr_load_dump : forall e clear s, fr false s (load_dump e clear s).
Proof.
  intros; unfold load_dump.
  destruct (stored (sr (nd s))) as [[sn|]|]; try fr1.
  destruct (self_ver (nd s) <? s_ver sn); [fr1|].
  match goal with |- fr _ _ (if dyn _ then update_cluster ?l ?X else ?Y) =>
    assert (fr false s Y) as HY end.
  { eapply fr_trans; [|fr1].
    match goal with |- fr _ _ (if ?c then _ else _) => destruct c end.
    - eapply fr_trans; [|fr1].
      destruct clear; [frchain|].
      destruct (get_entries _ _ _ _) as [|a [|b [|? ?]]]; frchain.
      destruct (entry_eqb a (s_e0 sn) && entry_eqb b (s_e1 sn)); frchain.
    - destruct clear; [frchain|].
      destruct (get_entries _ _ _ _) as [|a [|b [|? ?]]]; frchain.
      destruct (entry_eqb a (s_e0 sn) && entry_eqb b (s_e1 sn)); frchain. }
  destruct (dyn (cf e)); [|exact HY].
  eapply fr_trans; [exact HY | apply fr_update_cluster].
Qed.
#[export] Hint Resolve fr_load_dump : frdb.
