(* Tier C, part 11: the refinement theorem for whole runs, and the L0 safety theorems transported
   to L1 runs of the core fragment. *)
From Coq Require Import ZArith NArith List Bool Lia ZifyBool Arith PeanoNat.
From RecordUpdate Require Import RecordSet.
From PSO Require Import Raft.Types Raft.Node Raft.Net Raft.Obs Raft.ProofsCommitBase.
From PSO Require Import Raft.ProofsElectionBase Raft.ProofsElectionFrame Raft.ProofsElectionStep
  Raft.ProofsElectionGhost Raft.ProofsElectionInv Raft.ProofsElectionMain.
From PSO Require Import Raft.RefineAbs Raft.RefineK Raft.RefineSpecA Raft.RefineSim Raft.RefineGlobal
  Raft.RefineMain.
From PSO Require Abstract.Model Abstract.Lib Abstract.Kstep Abstract.Safety1_WF Abstract.Safety2_Election
  Abstract.Safety3_LeaderLog Abstract.Safety4_LogMatching Abstract.Safety6_LeaderCompleteness
  Abstract.Safety7_StateMachine.
Import ListNotations.
Import RecordSetNotations.
Open Scope N_scope.

Module S3 := PSO.Abstract.Safety3_LeaderLog.
Module S4 := PSO.Abstract.Safety4_LogMatching.
Module S6 := PSO.Abstract.Safety6_LeaderCompleteness.
Module S7 := PSO.Abstract.Safety7_StateMachine.

Definition sts_after (st : list nid) (evs : list event) : list nid := fold_left st_after evs st.

Lemma valid_from_app V st a b :
  valid_from V st (a ++ b) = valid_from V st a && valid_from V (sts_after st a) b.
Proof.
  revert st. induction a as [|ev a IH]; intros st; cbn; auto.
  rewrite IH, andb_assoc. reflexivity.
Qed.

Lemma run_ok_app c g a b g1 :
  run_trace c g a = Some g1 -> run_ok c g (a ++ b) = run_ok c g a && run_ok c g1 b.
Proof.
  revert g. induction a as [|ev a IH]; intros g H; cbn in *.
  - injection H as <-. reflexivity.
  - destruct (gstep c g ev) as [[g' r]|]; [|discriminate].
    rewrite (IH g' H). rewrite !andb_assoc. reflexivity.
Qed.

Lemma grun_app c g gh a b g1 gh1 :
  grun c g gh a = Some (g1, gh1) -> grun c g gh (a ++ b) = grun c g1 gh1 b.
Proof.
  revert g gh. induction a as [|ev a IH]; intros g gh H; cbn in *.
  - injection H as <- <-. reflexivity.
  - destruct (gstep c g ev) as [[g' r]|]; [|discriminate]. apply IH. exact H.
Qed.

Section Run.
Variable c : conf.
Variable V : list nid.
Hypothesis NDV : NoDup V.
Hypothesis VRO : forall v, In v V -> v < RO_BASE.
Hypothesis VNE : V <> [].
Hypothesis Hb1 : 1 < batch c.
Hypothesis Hdyn : dyn c = false.
Hypothesis Hfd : file_dump c = false.

Notation V' := (absV V).
Notation GI := (GI c V).
Notation kstar := (kstar V).
Notation pk := (pk c).

Lemma V'_nodup : NoDup V'.
Proof. apply absV_NoDup. exact NDV. Qed.

Lemma V'_ne : V' <> [].
Proof. unfold absV. destruct V; [contradiction|discriminate]. Qed.

Lemma GI_init : GI ginit gh0 [] (M.init V').
Proof.
  constructor.
  - apply inv_init.
  - constructor.
  - constructor.
    + intros v x H. cbn in H. discriminate.
    + intros v Hv _. unfold pristine. cbn. repeat split; reflexivity.
    + intros a b m H. cbn in H. destruct H.
    + intros t v cd H. destruct H.
    + intros v x H. cbn in H. discriminate.
Qed.

(* the forward simulation along a run *)
Theorem run_sim evs : forall g gh st s g' gh',
  GI g gh st s -> valid_from V st evs = true -> run_ok c g evs = true ->
  grun c g gh evs = Some (g', gh') ->
  exists s', kstar s s' /\ GI g' gh' (sts_after st evs) s'.
Proof.
  induction evs as [|ev evs IH]; intros g gh st s g' gh' G Hv Hr Hg; cbn in *.
  - injection Hg as <- <-. exists s. split; [constructor|exact G].
  - apply andb_true_iff in Hv as [Hev Hv].
    apply andb_true_iff in Hr as [Hsm Hr].
    destruct (gstep c g ev) as [[g1 r]|] eqn:Est; [|discriminate].
    apply andb_true_iff in Hr as [Hid Hr].
    destruct (step_sim c V NDV VRO Hb1 Hdyn Hfd g gh st s ev g1 r G Hev Hsm Est Hid) as (s1 & K1 & G1).
    destruct (IH g1 _ _ s1 g' gh' G1 Hv Hr Hg) as (s2 & K2 & G2).
    exists s2. split; auto. eapply kstar_trans; eauto.
Qed.

(* REFINEMENT: every run of the fragment from ginit has a reachable abstract counterpart *)
Theorem refinement evs g gh :
  valid_from V [] evs = true -> run_ok c ginit evs = true ->
  grun c ginit gh0 evs = Some (g, gh) ->
  exists s, KS.kreachable V' s /\ R c V g gh (sts_after [] evs) s.
Proof.
  intros Hv Hr Hg.
  destruct (run_sim evs ginit gh0 [] (M.init V') g gh GI_init Hv Hr Hg) as (s & K & [I HR RR]).
  exists s. auto.
Qed.

(* ---------------------------------------------------------------------------------------- *)
(* consequences on L1 states related to a reachable L0 state                                 *)

Lemma nth_abs_inj la lb p :
  nth_error (absL pk la) p = nth_error (absL pk lb) p -> nth_error la p = nth_error lb p.
Proof.
  rewrite !absL_nth. destruct (nth_error la p) as [a|], (nth_error lb p) as [b|]; cbn [option_map]; intros H;
    try discriminate; auto.
  assert (H' : absE pk a = absE pk b) by congruence. apply absE_inj in H'. congruence.
Qed.

Lemma absL_inj la lb : absL pk la = absL pk lb -> la = lb.
Proof.
  revert lb. induction la as [|a la IH]; intros [|b lb] H; try discriminate; auto.
  change (absE pk a :: absL pk la = absE pk b :: absL pk lb) in H.
  assert (H1 : absE pk a = absE pk b) by congruence.
  assert (H2 : absL pk la = absL pk lb) by congruence.
  apply absE_inj in H1. f_equal; auto.
Qed.

Section State.
Variables (g : gstate) (gh : ghost) (st : list nid) (s : M.state).
Hypothesis G : GI g gh st s.

Lemma GI_node a xa : aget a (nodes g) = Some xa -> a < RO_BASE -> Rn c V a xa s.
Proof.
  intros Ha Hlt. destruct G as [I HR RR]. apply (R_node _ _ _ _ _ _ RR a xa Ha Hlt).
Qed.

Lemma st_log_matching a b xa xb p ea eb :
  aget a (nodes g) = Some xa -> aget b (nodes g) = Some xb -> a < RO_BASE -> b < RO_BASE ->
  nth_error (log xa) p = Some ea -> nth_error (log xb) p = Some eb -> eterm ea = eterm eb ->
  firstn (Sn p) (log xa) = firstn (Sn p) (log xb).
Proof.
  intros Ha Hb Hla Hlb Hea Heb Ht.
  pose proof (GI_node a xa Ha Hla) as Ra. pose proof (GI_node b xb Hb Hlb) as Rb.
  pose proof (S7.k_log_matching V' s (n2 a) (n2 b) p (absE pk ea) (absE pk eb)
                (GI_reach _ _ _ _ _ _ G)) as H.
  rewrite (Rn_log _ _ _ _ _ Ra), (Rn_log _ _ _ _ _ Rb), !absL_nth, Hea, Heb in H.
  specialize (H eq_refl eq_refl). cbn in H. rewrite Ht in H. specialize (H eq_refl).
  rewrite <- !absL_firstn in H. apply absL_inj in H. exact H.
Qed.

Lemma st_state_machine_safety a b xa xb i :
  aget a (nodes g) = Some xa -> aget b (nodes g) = Some xb -> a < RO_BASE -> b < RO_BASE ->
  1 <= i -> i <= commit xa -> i <= commit xb ->
  exists en, nth_error (log xa) (n2 i - 1) = Some en /\ nth_error (log xb) (n2 i - 1) = Some en /\ eidx en = i.
Proof.
  intros Ha Hb Hla Hlb H1 Hca Hcb.
  pose proof (GI_node a xa Ha Hla) as Ra. pose proof (GI_node b xb Hb Hlb) as Rb.
  pose proof (GI_reach _ _ _ _ _ _ G) as HR.
  destruct (S7.k_state_machine_safety V' V'_nodup V'_ne s (n2 a) (n2 b) (n2 i - 1)%nat HR) as [E L].
  { rewrite (Rn_commit _ _ _ _ _ Ra). lia. }
  { rewrite (Rn_commit _ _ _ _ _ Rb). lia. }
  rewrite (Rn_log _ _ _ _ _ Ra), (Rn_log _ _ _ _ _ Rb) in E. apply nth_abs_inj in E.
  rewrite (Rn_log _ _ _ _ _ Ra), absL_length in L.
  destruct (nth_error (log xa) (n2 i - 1)) as [en|] eqn:En; [|apply nth_error_None in En; lia].
  exists en. split; auto. split; auto.
  pose proof (S1.I1_log _ (S1.inv1_kreachable V' s HR) (n2 a) (n2 i - 1)%nat (absE pk en)) as W.
  rewrite (Rn_log _ _ _ _ _ Ra), absL_nth, En in W. destruct (W eq_refl) as [W1 _]. cbn in W1. lia.
Qed.

(* what two voters have APPLIED to their state machines up to a common index is the same entry
   (the apply loop never runs ahead of the commit index: hygiene field H_ac) *)
Lemma st_applied_agree a b xa xb i :
  aget a (nodes g) = Some xa -> aget b (nodes g) = Some xb -> a < RO_BASE -> b < RO_BASE ->
  1 <= i -> i <= applied xa -> i <= applied xb ->
  exists en, nth_error (log xa) (n2 i - 1) = Some en /\ nth_error (log xb) (n2 i - 1) = Some en /\ eidx en = i.
Proof.
  intros Ha Hb Hla Hlb H1 Hia Hib.
  pose proof (H_ac _ _ (R_hyg _ _ _ _ _ _ (GI_R _ _ _ _ _ _ G) a xa Ha)) as Hca.
  pose proof (H_ac _ _ (R_hyg _ _ _ _ _ _ (GI_R _ _ _ _ _ _ G) b xb Hb)) as Hcb.
  apply (st_state_machine_safety a b xa xb i); auto; lia.
Qed.

End State.

(* two moments of one run *)
Lemma stable_star s1 s2 j :
  KS.kreachable V' s1 -> kstar s1 s2 -> S7.stable s1 s2 j.
Proof.
  intros HR K. induction K as [|sa sb K IH Ks]; [apply S7.stable_refl|].
  eapply S7.stable_trans; [exact IH|].
  apply (S7.k_commit_stable V' V'_nodup V'_ne).
  - eapply kstar_kreachable; eauto.
  - exact Ks.
Qed.

Lemma committed_star s1 s2 Tb l k :
  KS.kreachable V' s1 -> kstar s1 s2 -> S7.committed_upto s1 Tb l k -> S7.committed_upto s2 Tb l k.
Proof.
  intros HR K H. induction K as [|sa sb K IH Ks]; auto.
  assert (HRa : KS.kreachable V' sa) by (eapply kstar_kreachable; eauto).
  eapply (S7.committed_mono V' sa sb Tb Tb); eauto.
  - apply (S1.inv1_kreachable V'); auto.
  - apply S2.inv2_kreachable; auto.
  - apply (S3.inv3_kreachable V'); auto.
Qed.

(* a node running at two moments of a run *)
Lemma st_committed_never_change g1 gh1 st1 s1 g2 gh2 st2 s2 a xa1 xa2 i :
  GI g1 gh1 st1 s1 -> GI g2 gh2 st2 s2 -> kstar s1 s2 ->
  aget a (nodes g1) = Some xa1 -> aget a (nodes g2) = Some xa2 -> a < RO_BASE ->
  1 <= i -> i <= commit xa1 ->
  commit xa1 <= commit xa2 /\ nth_error (log xa2) (n2 i - 1) = nth_error (log xa1) (n2 i - 1).
Proof.
  intros G1 G2 K Ha1 Ha2 Hla Hi1 Hi2.
  pose proof (GI_node _ _ _ _ G1 a xa1 Ha1 Hla) as R1. pose proof (GI_node _ _ _ _ G2 a xa2 Ha2 Hla) as R2.
  destruct (stable_star s1 s2 (n2 a) (GI_reach _ _ _ _ _ _ G1) K) as [C F].
  rewrite (Rn_commit _ _ _ _ _ R1), (Rn_commit _ _ _ _ _ R2) in C.
  rewrite (Rn_commit _ _ _ _ _ R1), (Rn_log _ _ _ _ _ R1), (Rn_log _ _ _ _ _ R2) in F.
  split; [lia|]. apply nth_abs_inj. apply (ML.firstn_eq_nth _ _ _ _ F). lia.
Qed.

Lemma st_leader_completeness g1 gh1 st1 s1 g2 gh2 st2 s2 a l xa xl i :
  GI g1 gh1 st1 s1 -> GI g2 gh2 st2 s2 -> kstar s1 s2 ->
  aget a (nodes g1) = Some xa -> aget l (nodes g2) = Some xl -> a < RO_BASE -> l < RO_BASE ->
  role xl = LEADER -> term xa <= term xl -> 1 <= i -> i <= commit xa ->
  nth_error (log xl) (n2 i - 1) = nth_error (log xa) (n2 i - 1).
Proof.
  intros G1 G2 K Ha Hl Hla Hll Hrole Ht Hi1 Hi2.
  pose proof (GI_node _ _ _ _ G1 a xa Ha Hla) as Ra. pose proof (GI_node _ _ _ _ G2 l xl Hl Hll) as Rl.
  pose proof (GI_reach _ _ _ _ _ _ G1) as HR1. pose proof (GI_reach _ _ _ _ _ _ G2) as HR2.
  pose proof (S7.I7_node _ (S7.inv7_kreachable V' V'_nodup V'_ne s1 HR1) (n2 a)) as C1.
  apply (committed_star s1 s2 _ _ _ HR1 K) in C1.
  assert (Hlead : M.rl (M.nodes s2 (n2 l)) = M.Leader).
  { rewrite (Rn_role _ _ _ _ _ Rl), Hrole. reflexivity. }
  pose proof (S2.inv2_kreachable V' s2 HR2) as I2.
  destruct (S2.I2_leader _ _ I2 _ Hlead) as [Q HQ].
  pose proof (S7.committed_in_leader V' s2 _ _ _ _ _ Q I2
                (S4.inv4_kreachable V' s2 HR2) (S6.inv6_kreachable V' V'_nodup V'_ne s2 HR2) C1 HQ) as F.
  rewrite <- (S3.I3_wlog _ (S3.inv3_kreachable V' s2 HR2) _ _ _ HQ eq_refl) in F.
  rewrite (Rn_term _ _ _ _ _ Ra), (Rn_term _ _ _ _ _ Rl) in F.
  assert (Hle : (n2 (term xa) <= n2 (term xl))%nat) by lia. specialize (F Hle).
  rewrite (Rn_log _ _ _ _ _ Ra), (Rn_log _ _ _ _ _ Rl), (Rn_commit _ _ _ _ _ Ra) in F.
  apply nth_abs_inj. symmetry. apply (ML.firstn_eq_nth _ _ _ _ F). lia.
Qed.

End Run.

(* ------------------------------------------------------------------------------------------ *)
(* the theorems on L1 runs                                                                    *)

Lemma core_frag_facts c V evs :
  core_frag c V evs ->
  NoDup V /\ (forall v, In v V -> v < RO_BASE) /\ V <> [] /\ 1 < batch c /\ dyn c = false /\ file_dump c = false /\
  valid_from V [] evs = true /\ run_ok c ginit evs = true.
Proof.
  intros (A & B & C & D & E). unfold valid in D. apply andb_true_iff in D as [D1 D2].
  destruct (Vok_spec V D1) as (ND & HV & HL).
  repeat split; auto. intros ->. cbn in HL. lia.
Qed.

Lemma run_GI c V evs g :
  core_frag c V evs -> run_trace c ginit evs = Some g ->
  exists gh s, GI c V g gh (sts_after [] evs) s.
Proof.
  intros F Hr. destruct (core_frag_facts c V evs F) as (ND & HV & HNE & Hb & Hd & Hf & Hv & Hok).
  destruct (proj1 (grun_run_trace c ginit gh0 evs g) Hr) as [gh Hg].
  destruct (run_sim c V ND HV Hb Hd Hf evs ginit gh0 [] (M.init (absV V)) g gh (GI_init c V) Hv Hok Hg) as (s & K & G).
  eauto.
Qed.

Lemma run_GI2 c V evs1 evs2 g1 g2 :
  core_frag c V (evs1 ++ evs2) -> run_trace c ginit evs1 = Some g1 -> run_trace c g1 evs2 = Some g2 ->
  exists gh1 st1 s1 gh2 st2 s2, GI c V g1 gh1 st1 s1 /\ GI c V g2 gh2 st2 s2 /\ kstar V s1 s2.
Proof.
  intros F Hr1 Hr2. destruct (core_frag_facts c V _ F) as (ND & HV & HNE & Hb & Hd & Hf & Hv & Hok).
  rewrite valid_from_app in Hv. apply andb_true_iff in Hv as [Hv1 Hv2].
  rewrite (run_ok_app c ginit evs1 evs2 g1 Hr1) in Hok. apply andb_true_iff in Hok as [Hok1 Hok2].
  destruct (proj1 (grun_run_trace c ginit gh0 evs1 g1) Hr1) as [gh1 Hg1].
  destruct (proj1 (grun_run_trace c g1 gh1 evs2 g2) Hr2) as [gh2 Hg2].
  destruct (run_sim c V ND HV Hb Hd Hf evs1 ginit gh0 [] _ g1 gh1 (GI_init c V) Hv1 Hok1 Hg1) as (s1 & K1 & G1).
  destruct (run_sim c V ND HV Hb Hd Hf evs2 g1 gh1 _ s1 g2 gh2 G1 Hv2 Hok2 Hg2) as (s2 & K2 & G2).
  do 6 eexists. eauto.
Qed.

(* REFINEMENT *)
Theorem L1_refines_L0_core c V evs g :
  core_frag c V evs -> run_trace c ginit evs = Some g ->
  exists gh s, grun c ginit gh0 evs = Some (g, gh) /\ KS.kreachable (absV V) s /\
               R c V g gh (sts_after [] evs) s.
Proof.
  intros F Hr. destruct (core_frag_facts c V evs F) as (ND & HV & HNE & Hb & Hd & Hf & Hv & Hok).
  destruct (proj1 (grun_run_trace c ginit gh0 evs g) Hr) as [gh Hg].
  destruct (refinement c V ND HV Hb Hd Hf evs g gh Hv Hok Hg) as (s & A & B).
  exists gh, s. auto.
Qed.

Theorem L1_log_matching_core c V evs g a b xa xb p ea eb :
  core_frag c V evs -> run_trace c ginit evs = Some g ->
  aget a (nodes g) = Some xa -> aget b (nodes g) = Some xb -> a < RO_BASE -> b < RO_BASE ->
  nth_error (log xa) p = Some ea -> nth_error (log xb) p = Some eb -> eterm ea = eterm eb ->
  firstn (Sn p) (log xa) = firstn (Sn p) (log xb).
Proof.
  intros F Hr. destruct (core_frag_facts c V evs F) as (ND & HV & HNE & Hb & Hd & Hf & _).
  destruct (run_GI c V evs g F Hr) as (gh & s & G).
  intros. eapply st_log_matching; eauto.
Qed.

Theorem L1_state_machine_safety_core c V evs g a b xa xb i :
  core_frag c V evs -> run_trace c ginit evs = Some g ->
  aget a (nodes g) = Some xa -> aget b (nodes g) = Some xb -> a < RO_BASE -> b < RO_BASE ->
  1 <= i -> i <= commit xa -> i <= commit xb ->
  exists en, nth_error (log xa) (n2 i - 1) = Some en /\ nth_error (log xb) (n2 i - 1) = Some en /\ eidx en = i.
Proof.
  intros F Hr. destruct (core_frag_facts c V evs F) as (ND & HV & HNE & Hb & Hd & Hf & _).
  destruct (run_GI c V evs g F Hr) as (gh & s & G).
  intros. eapply st_state_machine_safety; eauto.
Qed.

Theorem L1_applied_entries_agree_core c V evs g a b xa xb i :
  core_frag c V evs -> run_trace c ginit evs = Some g ->
  aget a (nodes g) = Some xa -> aget b (nodes g) = Some xb -> a < RO_BASE -> b < RO_BASE ->
  1 <= i -> i <= applied xa -> i <= applied xb ->
  exists en, nth_error (log xa) (n2 i - 1) = Some en /\ nth_error (log xb) (n2 i - 1) = Some en /\ eidx en = i.
Proof.
  intros F Hr. destruct (core_frag_facts c V evs F) as (ND & HV & HNE & Hb & Hd & Hf & _).
  destruct (run_GI c V evs g F Hr) as (gh & s & G).
  intros. eapply st_applied_agree; eauto.
Qed.

Theorem L1_committed_never_change_core c V evs1 evs2 g1 g2 a xa1 xa2 i :
  core_frag c V (evs1 ++ evs2) -> run_trace c ginit evs1 = Some g1 -> run_trace c g1 evs2 = Some g2 ->
  aget a (nodes g1) = Some xa1 -> aget a (nodes g2) = Some xa2 -> a < RO_BASE ->
  1 <= i -> i <= commit xa1 ->
  commit xa1 <= commit xa2 /\ nth_error (log xa2) (n2 i - 1) = nth_error (log xa1) (n2 i - 1).
Proof.
  intros F Hr1 Hr2. destruct (core_frag_facts c V _ F) as (ND & HV & HNE & Hb & Hd & Hf & _).
  destruct (run_GI2 c V evs1 evs2 g1 g2 F Hr1 Hr2) as (gh1 & st1 & s1 & gh2 & st2 & s2 & G1 & G2 & K).
  intros Ha1 Ha2 Hla Hi1 Hi2.
  exact (st_committed_never_change c V ND HV HNE Hb Hd Hf g1 gh1 st1 s1 g2 gh2 st2 s2 a xa1 xa2 i G1 G2 K
           Ha1 Ha2 Hla Hi1 Hi2).
Qed.

Theorem L1_leader_completeness_core c V evs1 evs2 g1 g2 a l xa xl i :
  core_frag c V (evs1 ++ evs2) -> run_trace c ginit evs1 = Some g1 -> run_trace c g1 evs2 = Some g2 ->
  aget a (nodes g1) = Some xa -> aget l (nodes g2) = Some xl -> a < RO_BASE -> l < RO_BASE ->
  role xl = LEADER -> term xa <= term xl -> 1 <= i -> i <= commit xa ->
  nth_error (log xl) (n2 i - 1) = nth_error (log xa) (n2 i - 1).
Proof.
  intros F Hr1 Hr2. destruct (core_frag_facts c V _ F) as (ND & HV & HNE & Hb & Hd & Hf & _).
  destruct (run_GI2 c V evs1 evs2 g1 g2 F Hr1 Hr2) as (gh1 & st1 & s1 & gh2 & st2 & s2 & G1 & G2 & K).
  intros Ha Hl Hla Hll Hrole Ht Hi1 Hi2.
  exact (st_leader_completeness c V ND HV HNE Hb Hd Hf g1 gh1 st1 s1 g2 gh2 st2 s2 a l xa xl i G1 G2 K
           Ha Hl Hla Hll Hrole Ht Hi1 Hi2).
Qed.

(* ------------------------------------------------------------------------------------------ *)
(* the same statements with the fragment hypotheses spelled out (exported by Props/TierC.v)   *)

Lemma core_frag_intro c V evs :
  dyn c = false -> file_dump c = false -> 1 < batch c -> valid V evs = true -> run_ok c ginit evs = true ->
  core_frag c V evs.
Proof. intros. repeat split; assumption. Qed.

Lemma TierC_refinement :
  forall (c : conf) (V : list nid) (evs : list event) (g : gstate),
    dyn c = false -> file_dump c = false -> 1 < batch c -> valid V evs = true -> run_ok c ginit evs = true ->
    run_trace c ginit evs = Some g ->
    exists gh s, grun c ginit gh0 evs = Some (g, gh) /\ KS.kreachable (absV V) s /\
                 R c V g gh (sts_after [] evs) s.
Proof. intros c V evs g H1 H2 H3 H4 H5. apply L1_refines_L0_core. apply core_frag_intro; auto. Qed.

Lemma TierC_log_matching :
  forall (c : conf) (V : list nid) (evs : list event) (g : gstate) (a b : nid) (xa xb : node)
         (p : nat) (ea eb : entry),
    dyn c = false -> file_dump c = false -> 1 < batch c -> valid V evs = true -> run_ok c ginit evs = true ->
    run_trace c ginit evs = Some g ->
    aget a (nodes g) = Some xa -> aget b (nodes g) = Some xb -> a < RO_BASE -> b < RO_BASE ->
    nth_error (log xa) p = Some ea -> nth_error (log xb) p = Some eb -> eterm ea = eterm eb ->
    firstn (Datatypes.S p) (log xa) = firstn (Datatypes.S p) (log xb).
Proof.
  intros c V evs g a b xa xb p ea eb H1 H2 H3 H4 H5. apply (L1_log_matching_core c V evs).
  apply core_frag_intro; auto.
Qed.

Lemma TierC_state_machine_safety :
  forall (c : conf) (V : list nid) (evs : list event) (g : gstate) (a b : nid) (xa xb : node) (i : N),
    dyn c = false -> file_dump c = false -> 1 < batch c -> valid V evs = true -> run_ok c ginit evs = true ->
    run_trace c ginit evs = Some g ->
    aget a (nodes g) = Some xa -> aget b (nodes g) = Some xb -> a < RO_BASE -> b < RO_BASE ->
    1 <= i -> i <= commit xa -> i <= commit xb ->
    exists en, nth_error (log xa) (N.to_nat i - 1) = Some en /\
               nth_error (log xb) (N.to_nat i - 1) = Some en /\ eidx en = i.
Proof.
  intros c V evs g a b xa xb i H1 H2 H3 H4 H5. apply (L1_state_machine_safety_core c V evs).
  apply core_frag_intro; auto.
Qed.

Lemma TierC_applied_entries_agree :
  forall (c : conf) (V : list nid) (evs : list event) (g : gstate) (a b : nid) (xa xb : node) (i : N),
    dyn c = false -> file_dump c = false -> 1 < batch c -> valid V evs = true -> run_ok c ginit evs = true ->
    run_trace c ginit evs = Some g ->
    aget a (nodes g) = Some xa -> aget b (nodes g) = Some xb -> a < RO_BASE -> b < RO_BASE ->
    1 <= i -> i <= applied xa -> i <= applied xb ->
    exists en, nth_error (log xa) (N.to_nat i - 1) = Some en /\
               nth_error (log xb) (N.to_nat i - 1) = Some en /\ eidx en = i.
Proof.
  intros c V evs g a b xa xb i H1 H2 H3 H4 H5. apply (L1_applied_entries_agree_core c V evs).
  apply core_frag_intro; auto.
Qed.

Lemma TierC_committed_never_change :
  forall (c : conf) (V : list nid) (evs1 evs2 : list event) (g1 g2 : gstate) (a : nid) (xa1 xa2 : node) (i : N),
    dyn c = false -> file_dump c = false -> 1 < batch c -> valid V (evs1 ++ evs2) = true ->
    run_ok c ginit (evs1 ++ evs2) = true ->
    run_trace c ginit evs1 = Some g1 -> run_trace c g1 evs2 = Some g2 ->
    aget a (nodes g1) = Some xa1 -> aget a (nodes g2) = Some xa2 -> a < RO_BASE ->
    1 <= i -> i <= commit xa1 ->
    commit xa1 <= commit xa2 /\
    nth_error (log xa2) (N.to_nat i - 1) = nth_error (log xa1) (N.to_nat i - 1).
Proof.
  intros c V evs1 evs2 g1 g2 a xa1 xa2 i H1 H2 H3 H4 H5. apply (L1_committed_never_change_core c V evs1 evs2).
  apply core_frag_intro; auto.
Qed.

Lemma TierC_leader_completeness :
  forall (c : conf) (V : list nid) (evs1 evs2 : list event) (g1 g2 : gstate) (a l : nid) (xa xl : node) (i : N),
    dyn c = false -> file_dump c = false -> 1 < batch c -> valid V (evs1 ++ evs2) = true ->
    run_ok c ginit (evs1 ++ evs2) = true ->
    run_trace c ginit evs1 = Some g1 -> run_trace c g1 evs2 = Some g2 ->
    aget a (nodes g1) = Some xa -> aget l (nodes g2) = Some xl -> a < RO_BASE -> l < RO_BASE ->
    role xl = LEADER -> term xa <= term xl -> 1 <= i -> i <= commit xa ->
    nth_error (log xl) (N.to_nat i - 1) = nth_error (log xa) (N.to_nat i - 1).
Proof.
  intros c V evs1 evs2 g1 g2 a l xa xl i H1 H2 H3 H4 H5. apply (L1_leader_completeness_core c V evs1 evs2).
  apply core_frag_intro; auto.
Qed.
