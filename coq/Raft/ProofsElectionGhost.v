(* Election safety (C03/C07), part 5: the ghost-instrumented run (history of wins and vote
   grants), the validity predicate on event lists, the invariant, and channel accounting. *)
From Coq Require Import ZArith NArith List Bool Lia.
From RecordUpdate Require Import RecordSet.
From PSO Require Import Raft.Types Raft.Node Raft.Net Raft.Obs Raft.ProofsElectionBase
  Raft.ProofsElectionFrame Raft.ProofsElectionFrame2 Raft.ProofsElectionStep.
Import ListNotations.
Import RecordSetNotations.
Open Scope N_scope.

(* ---------- ghost history ---------- *)
Record ghost := mkGh {
  wins : list (N * nid);            (* (term, node): a step of node emitted Role _ LEADER in that term *)
  grants : list (N * nid * nid)     (* (term, voter, candidate) *)
}.
Definition gh0 : ghost := mkGh [] [].

(* a voter's step emitted Send cand (ResponseVote t) *)
Definition rv_grants (n : nid) (os : list out) : list (N * nid * nid) :=
  flat_map (fun o => match o with Send d (ResponseVote t) => [(t, n, d)] | _ => [] end) os.

Definition is_win (os : list out) : bool :=
  existsb (fun o => match o with Role _ r => r =? LEADER | _ => false end) os.

(* the node turned candidate: a tick that increased the term (only tick_election does so, and it
   sets voted := Some self, see tick_votes_self below) *)
Definition self_grant (ev : event) (g : gstate) (n : nid) (s : S) : list (N * nid * nid) :=
  match ev with
  | ETick _ _ _ _ _ _ =>
    match aget n (nodes g) with
    | Some x => if term x <? term (nd s) then [(term (nd s), n, n)] else []
    | None => []
    end
  | _ => []
  end.

Definition ghost_step (ev : event) (g : gstate) (r : option (nid * S)) (gh : ghost) : ghost :=
  match r with
  | None => gh
  | Some (n, s) =>
    mkGh ((if is_win (outs s) then [(term (nd s), n)] else []) ++ wins gh)
         (self_grant ev g n s ++ rv_grants n (outs s) ++ grants gh)
  end.

Fixpoint grun (c : conf) (g : gstate) (gh : ghost) (evs : list event) : option (gstate * ghost) :=
  match evs with
  | [] => Some (g, gh)
  | ev :: r =>
    match gstep c g ev with
    | Some (g', res) => grun c g' (ghost_step ev g res gh) r
    | None => None
    end
  end.

Lemma grun_run_trace c g gh evs g' :
  run_trace c g evs = Some g' <-> exists gh', grun c g gh evs = Some (g', gh').
Proof.
  revert g gh. induction evs as [|ev r IH]; simpl; intros g gh.
  - split; [intros H; injection H as <-; eauto | intros [gh' H]; injection H as <- _; auto].
  - destruct (gstep c g ev) as [[g1 res]|]; [apply IH|].
    split; [discriminate | intros [? H]; discriminate].
Qed.

(* ---------- valid event lists (static membership, voters never restarted) ---------- *)
Fixpoint nodupb (l : list N) : bool :=
  match l with [] => true | a :: r => negb (smem a r) && nodupb r end.

Fixpoint leqb (a b : list N) : bool :=
  match a, b with
  | [], [] => true
  | x :: a', y :: b' => (x =? y) && leqb a' b'
  | _, _ => false
  end.

Definition Vok (V : list nid) : bool :=
  nodupb V && forallb (fun v => v <? RO_BASE) V && negb (N.of_nat (length V) =? 0).

Definition ev_ok (V st : list nid) (ev : event) : bool :=
  match ev with
  | ERestart n oth _ _ _ =>
    if n <? RO_BASE then smem n V && negb (smem n st) && leqb oth (vminus n V) else true
  | _ => true
  end.

Definition st_after (st : list nid) (ev : event) : list nid :=
  match ev with
  | ERestart n _ _ _ _ => if n <? RO_BASE then n :: st else st
  | _ => st
  end.

Fixpoint valid_from (V st : list nid) (evs : list event) : bool :=
  match evs with
  | [] => true
  | ev :: r => ev_ok V st ev && valid_from V (st_after st ev) r
  end.

(* V is duplicate-free, all ids below RO_BASE, non-empty; every start of an id below RO_BASE is
   the first start of a member of V, with others = V minus itself.  Everything else is free. *)
Definition valid (V : list nid) (evs : list event) : bool := Vok V && valid_from V [] evs.

Lemma smem_In x l : smem x l = true <-> In x l.
Proof.
  induction l as [|y r IH]; simpl; [split; [discriminate|tauto]|].
  rewrite orb_true_iff, IH, N.eqb_eq. split; intros [H|H]; auto.
Qed.

Lemma nodupb_NoDup l : nodupb l = true -> NoDup l.
Proof.
  induction l as [|a r IH]; simpl; intros H; [constructor|].
  apply andb_true_iff in H as [H1 H2]. constructor; auto.
  intros Hin. apply smem_In in Hin. rewrite Hin in H1. discriminate.
Qed.

Lemma leqb_eq a b : leqb a b = true -> a = b.
Proof.
  revert b. induction a as [|x a IH]; intros [|y b]; simpl; intros H; try discriminate; auto.
  apply andb_true_iff in H as [H1 H2]. apply N.eqb_eq in H1. subst. f_equal; auto.
Qed.

Lemma Vok_spec V : Vok V = true -> NoDup V /\ (forall v, In v V -> v < RO_BASE) /\ (0 < length V)%nat.
Proof.
  unfold Vok. intros H. apply andb_true_iff in H as [H H3]. apply andb_true_iff in H as [H1 H2].
  split; [apply nodupb_NoDup; auto|]. split.
  - intros v Hv. rewrite forallb_forall in H2. apply N.ltb_lt. auto.
  - apply negb_true_iff in H3. apply N.eqb_neq in H3. lia.
Qed.

(* ---------- observers of the ghost and of the channels ---------- *)
Definition gmatch (T : N) (c : nid) (gr : N * nid * nid) : bool := (fst (fst gr) =? T) && (snd gr =? c).
Definition key (gr : N * nid * nid) : N * nid := (fst (fst gr), snd (fst gr)).
Definition nvotes (gh : ghost) (T : N) (c : nid) : nat := cnt (gmatch T c) (grants gh).

Definition is_rv (T : N) (m : msg) : bool := match m with ResponseVote t => t =? T | _ => false end.
Definition contrib (T : N) (c : nid) (ch : nid * nid * list msg) : nat :=
  if snd (fst ch) =? c then cnt (is_rv T) (snd ch) else 0%nat.
Definition inflight (g : gstate) (T : N) (c : nid) : nat := list_sum (map (contrib T c) (chan g)).

Definition counted (g : gstate) (T : N) (c : nid) : nat :=
  match aget c (nodes g) with
  | Some x => if (term x =? T) && negb (role x =? FOLLOWER) then N.to_nat (votes x) else 0%nat
  | None => 0%nat
  end.

Definition rvsend (T : N) (c : nid) (o : out) : bool :=
  match o with Send d (ResponseVote t) => (d =? c) && (t =? T) | _ => false end.

Lemma rv_grants_loud n os : rv_grants n (loud os) = rv_grants n os.
Proof.
  induction os as [|o os IH]; simpl; auto.
  destruct (quiet o) eqn:Q; simpl; rewrite IH.
  - destruct o as [d m| | | |]; auto. destruct m; auto. discriminate.
  - reflexivity.
Qed.

Lemma is_win_loud os : is_win (loud os) = is_win os.
Proof.
  induction os as [|o os IH]; simpl; auto.
  destruct (quiet o) eqn:Q; simpl; rewrite IH; auto.
  destruct o; simpl in *; auto. apply negb_true_iff in Q. rewrite Q. reflexivity.
Qed.

Lemma rvsend_grants T c n os : cnt (gmatch T c) (rv_grants n os) = cnt (rvsend T c) os.
Proof.
  induction os as [|o os IH]; simpl; auto.
  rewrite cnt_app, cnt_cons, IH. f_equal.
  destruct o as [d m| | | |]; auto. destruct m; auto.
  simpl. rewrite cnt_cons, cnt_nil. unfold gmatch. simpl. rewrite andb_comm.
  destruct ((d =? c) && (t =? T)); reflexivity.
Qed.

(* ---------- channels ---------- *)
Definition chmatch (a b : nid) (ch : nid * nid * list msg) : bool := (fst (fst ch) =? a) && (snd (fst ch) =? b).

Lemma sum_filter_le T c (f : nid * nid * list msg -> bool) l :
  (list_sum (map (contrib T c) (filter f l)) <= list_sum (map (contrib T c) l))%nat.
Proof. induction l as [|h t IH]; simpl; auto. destruct (f h); simpl; lia. Qed.

Lemma sum_filter_find T c a b l :
  (list_sum (map (contrib T c) (filter (fun ch => negb (chmatch a b ch)) l))
   + match find (chmatch a b) l with Some ch => contrib T c ch | None => 0 end
   <= list_sum (map (contrib T c) l))%nat.
Proof.
  induction l as [|h t IH]; simpl; auto.
  destruct (chmatch a b h) eqn:M; simpl.
  - pose proof (sum_filter_le T c (fun ch => negb (chmatch a b ch)) t). lia.
  - lia.
Qed.

Lemma list_sum_cons x l : list_sum (x :: l) = (x + list_sum l)%nat.
Proof. reflexivity. Qed.

Lemma inflight_chan_set g a b q T c :
  (inflight (chan_set a b q g) T c + (if N.eqb b c then cnt (is_rv T) (chan_get a b g) else 0)
   <= inflight g T c + (if N.eqb b c then cnt (is_rv T) q else 0))%nat.
Proof.
  unfold inflight.
  change (chan (chan_set a b q g)) with ((a, b, q) :: filter (fun c0 => negb (chmatch a b c0)) (chan g)).
  change (chan_get a b g) with (match find (chmatch a b) (chan g) with Some c0 => snd c0 | None => [] end).
  rewrite map_cons, list_sum_cons.
  pose proof (sum_filter_find T c a b (chan g)) as H.
  unfold contrib at 1. cbn [fst snd].
  destruct (find (chmatch a b) (chan g)) as [ch|] eqn:F.
  - apply find_some in F as [_ F]. unfold chmatch in F. apply andb_true_iff in F as [_ F]. apply N.eqb_eq in F.
    unfold contrib at 2 in H. rewrite F in H. destruct (b =? c); lia.
  - rewrite cnt_nil. destruct (b =? c); lia.
Qed.

Lemma inflight_chan_set_le g a b q T c :
  (cnt (is_rv T) q <= cnt (is_rv T) (chan_get a b g))%nat ->
  (inflight (chan_set a b q g) T c <= inflight g T c)%nat.
Proof. intros H. pose proof (inflight_chan_set g a b q T c). destruct (b =? c); lia. Qed.

Lemma inflight_filter g f T c :
  (inflight (g <| chan := filter f (chan g) |>) T c <= inflight g T c)%nat.
Proof. unfold inflight. cbn. apply sum_filter_le. Qed.

Lemma route_nodes n os g : nodes (route n os g) = nodes g /\ disks (route n os g) = disks g.
Proof.
  unfold route. revert g. induction os as [|o os IH]; simpl; intros g; auto.
  destruct o as [d m| | | |x]; try apply IH.
  - destruct (IH (chan_set n d (chan_get n d g ++ [m]) g)) as [A B]. rewrite A, B. auto.
  - destruct (IH (chan_set x n [] g)) as [A B]. rewrite A, B. auto.
Qed.

Lemma route_inflight n os g T c :
  (inflight (route n os g) T c <= inflight g T c + cnt (rvsend T c) os)%nat.
Proof.
  unfold route. revert g. induction os as [|o os IH]; simpl; intros g; [rewrite cnt_nil; lia|].
  rewrite cnt_cons.
  destruct o as [d m| | | |x]; simpl; try (specialize (IH g); lia).
  - specialize (IH (chan_set n d (chan_get n d g ++ [m]) g)).
    pose proof (inflight_chan_set g n d (chan_get n d g ++ [m]) T c) as H.
    rewrite cnt_app, cnt_cons, cnt_nil in H.
    destruct m; simpl in *; destruct (d =? c); simpl in *; lia.
  - specialize (IH (chan_set x n [] g)).
    pose proof (inflight_chan_set_le g x n [] T c). rewrite cnt_nil in H. lia.
Qed.

Lemma counted_nodes g g' T c : nodes g' = nodes g -> counted g' T c = counted g T c.
Proof. unfold counted. intros ->. reflexivity. Qed.

(* ---------- the invariant ---------- *)
Definition node_ok (V st : list nid) (v : nid) (x : node) : Prop :=
  rinv x /\
  (v < RO_BASE -> In v V /\ In v st /\ self x = Some v /\ others x = vminus v V) /\
  (RO_BASE <= v -> self x = None /\ role x = FOLLOWER).

Record Inv (V : list nid) (g : gstate) (gh : ghost) (st : list nid) : Prop := {
  I_sorted : ksorted (nodes g);
  I_node : forall v x, aget v (nodes g) = Some x -> node_ok V st v x;
  I_disk : forall v d, In (v, d) (disks g) -> v < RO_BASE -> In v st;
  I_grant : forall t v c, In (t, v, c) (grants gh) ->
              In v V /\ In v st /\
              (forall x, aget v (nodes g) = Some x -> t <= term x /\ (t = term x -> voted x = Some c));
  I_key : NoDup (map key (grants gh));
  I_cnt : forall T c, (counted g T c + inflight g T c <= nvotes gh T c)%nat;
  I_win : forall t c, In (t, c) (wins gh) -> (length V < 2 * nvotes gh t c)%nat
}.

Lemma inv_init V : Inv V ginit gh0 [].
Proof.
  constructor; simpl; try (intros; contradiction); try discriminate; try constructor.
Qed.
