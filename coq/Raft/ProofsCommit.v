(* C04, local parts: commit / applied monotone, the follower's and the leader's commit rules,
   match_idx only moves by a success reply of the current term. *)
From Coq Require Import ZArith NArith List Bool Lia.
From RecordUpdate Require Import RecordSet.
From PSO Require Import Raft.Types Raft.Node Raft.Net Raft.Obs Raft.ProofsCommitBase.
Import ListNotations.
Import RecordSetNotations.
Open Scope N_scope.

Ltac frs := intros; reflexivity.

(* ------------------------------------------------------------------------------------------ *)
(* commit never decreases                                                                     *)

Lemma commit_loop_ge f ci nx s : nx <= snd (commit_loop f ci nx s).
Proof.
  revert ci nx s. induction f as [|f IH]; intros ci nx s; cbn [commit_loop]; [cbn; lia|].
  destruct (ci <? last_idx (log (nd s))); [|cbn; lia].
  destruct (existsb _ _); [cbn; lia|].
  destruct (negb _); [cbn; lia|].
  destruct (get_entries _ _ _ _) as [|en r]; [apply IH|].
  destruct (eterm en =? term (nd s)); [|apply IH].
Abort.
