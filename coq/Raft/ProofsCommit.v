(* C04, local parts: commit / applied monotone, the follower's and the leader's commit rules,
   match_idx only moves by a success reply of the current term. *)
From Coq Require Import ZArith NArith List Bool Lia.
From RecordUpdate Require Import RecordSet.
From PSO Require Import Raft.Types Raft.Node Raft.Net Raft.Obs Raft.ProofsCommitBase.
Import ListNotations.
Import RecordSetNotations.
Open Scope N_scope.

Ltac frs := intros; reflexivity.

Lemma andthen_assoc f g h s : ((f ;; g) ;; h) s = (f ;; (g ;; h)) s.
Proof.
  rewrite !andthen_eq. destruct (ok (f s)) eqn:E; [reflexivity|]. now rewrite E.
Qed.

(* ------------------------------------------------------------------------------------------ *)
(* the leader's commit loop                                                                   *)

Definition match_count (ci : N) (n : node) : N :=
  1 + N.of_nat (length (filter (fun x => match aget x (match_idx n) with
                                         | Some m => ci <=? m | None => false end) (others n))).

Definition entry_at (l : list entry) (i : N) : option entry :=
  match get_entries l (Some i) (Some 1) None with en :: _ => Some en | [] => None end.

(* the entry stored at index j carries the node's current term *)
Definition own_term_at (n : node) (j : N) : bool :=
  match entry_at (log n) j with Some en => eterm en =? term n | None => false end.

Definition slot_missing (n : node) : bool :=
  existsb (fun x => match aget x (match_idx n) with None => true | Some _ => false end) (others n).

Lemma commit_loop_ge f ci nx s : nx <= ci -> nx <= snd (commit_loop f ci nx s).
Proof.
  revert ci nx s. induction f as [|f IH]; intros ci nx s Hle; cbn [commit_loop]; [cbn; lia|].
  destruct (ci <? last_idx (log (nd s))); [|cbn; lia].
  destruct (existsb _ _); [cbn; lia|].
  destruct (negb _); [cbn; lia|].
  destruct (get_entries _ _ _ _) as [|en r]; [apply IH; lia|].
  destruct (eterm en =? term (nd s)); [|apply IH; lia].
  specialize (IH (ci + 1) (ci + 1) s). lia.
Qed.

Lemma exc_commit_loop f ci nx s :
  exc (fst (commit_loop f ci nx s)) = exc s \/ exc (fst (commit_loop f ci nx s)) = EXC_KEY.
Proof.
  revert ci nx s. induction f as [|f IH]; intros ci nx s; cbn [commit_loop]; [now left|].
  destruct (ci <? last_idx (log (nd s))); [|now left].
  destruct (existsb _ _); [now right|].
  destruct (negb _); [now left|].
  destruct (get_entries _ _ _ _) as [|en r]; [apply IH|].
  destruct (eterm en =? term (nd s)); apply IH.
Qed.

(* full specification of the loop: [stop] is the last index examined with a majority *)
Lemma commit_loop_spec f ci nx s :
  let n := nd s in
  let nc := snd (commit_loop f ci nx s) in
  exists stop,
    ci <= stop /\ (stop <= last_idx (log n) \/ stop = ci) /\
    (forall j, ci < j <= stop -> majority (match_count j n) n = true) /\
    ((nc = nx /\ forall j, ci < j <= stop -> own_term_at n j = false) \/
     (ci < nc <= stop /\ own_term_at n nc = true /\ forall j, nc < j <= stop -> own_term_at n j = false)) /\
    ((N.to_nat (last_idx (log n) - ci) < f)%nat -> slot_missing n = false ->
       last_idx (log n) <= stop \/ majority (match_count (stop + 1) n) n = false).
Proof.
  cbv zeta. revert ci nx. induction f as [|f IH]; intros ci nx; cbn [commit_loop].
  - exists ci. cbn [snd]. split; [lia|]. split; [lia|]. split; [intros; lia|].
    split; [left; split; [reflexivity|intros; lia]|]. intros; lia.
  - destruct (ci <? last_idx (log (nd s))) eqn:E1.
    2:{ exists ci. cbn [snd]. apply N.ltb_ge in E1. split; [lia|]. split; [lia|]. split; [intros; lia|].
        split; [left; split; [reflexivity|intros; lia]|]. intros _ _. left. lia. }
    apply N.ltb_lt in E1.
    fold (slot_missing (nd s)). destruct (slot_missing (nd s)) eqn:E2.
    { exists ci. cbn [snd]. split; [lia|]. split; [lia|]. split; [intros; lia|].
      split; [left; split; [reflexivity|intros; lia]|].
      intros _ Hf. discriminate Hf. }
    fold (match_count (ci + 1) (nd s)).
    destruct (majority (match_count (ci + 1) (nd s)) (nd s)) eqn:E3; cbn [negb].
    2:{ exists ci. cbn [snd]. split; [lia|]. split; [lia|]. split; [intros; lia|].
        split; [left; split; [reflexivity|intros; lia]|].
        intros _ _. now right. }
    assert (Hown : own_term_at (nd s) (ci + 1) =
                   match get_entries (log (nd s)) (Some (ci + 1)) (Some 1) None with
                   | [] => false | en :: _ => eterm en =? term (nd s) end).
    { unfold own_term_at, entry_at. destruct (get_entries _ _ _ _); reflexivity. }
    assert (Hstep : forall nx',
      (nx' = nx /\ own_term_at (nd s) (ci + 1) = false \/ nx' = ci + 1 /\ own_term_at (nd s) (ci + 1) = true) ->
      let nc := snd (commit_loop f (ci + 1) nx' s) in
      exists stop,
        ci <= stop /\ (stop <= last_idx (log (nd s)) \/ stop = ci) /\
        (forall j, ci < j <= stop -> majority (match_count j (nd s)) (nd s) = true) /\
        ((nc = nx /\ forall j, ci < j <= stop -> own_term_at (nd s) j = false) \/
         (ci < nc <= stop /\ own_term_at (nd s) nc = true /\
          forall j, nc < j <= stop -> own_term_at (nd s) j = false)) /\
        ((N.to_nat (last_idx (log (nd s)) - ci) < Datatypes.S f)%nat -> slot_missing (nd s) = false ->
           last_idx (log (nd s)) <= stop \/
           majority (match_count (stop + 1) (nd s)) (nd s) = false)).
    { intros nx' Hnx'. cbv zeta.
      destruct (IH (ci + 1) nx') as (stop & S1 & S2 & S3 & S4 & S5).
      exists stop. split; [lia|]. split; [lia|]. split.
      { intros j Hj. destruct (N.eq_dec j (ci + 1)) as [->|Hne]; [exact E3|apply S3; lia]. }
      split.
      { destruct S4 as [[Ha Hb]|(Ha & Hb & Hc)].
        - destruct Hnx' as [[-> Ho]|[-> Ho]].
          + left. split; [exact Ha|]. intros j Hj.
            destruct (N.eq_dec j (ci + 1)) as [->|Hne]; [exact Ho|apply Hb; lia].
          + right. rewrite Ha. split; [lia|]. split; [exact Ho|]. intros j Hj. apply Hb. lia.
        - right. split; [lia|]. split; [exact Hb|exact Hc]. }
      intros Hf Hm. apply S5; [lia|reflexivity]. }
    rewrite E2 in Hstep.
    destruct (get_entries (log (nd s)) (Some (ci + 1)) (Some 1) None) as [|en r].
    + apply Hstep. left. now split.
    + destruct (eterm en =? term (nd s)); apply Hstep; [right|left]; now split.
Qed.

Lemma tick_leader_commit e s :
  let n := nd s in
  commit (nd (tick_leader e s)) = commit n \/
  (role n = LEADER /\
   commit (nd (tick_leader e s)) =
     snd (commit_loop (Datatypes.S (N.to_nat (last_idx (log n) - commit n))) (commit n) (commit n) s)).
Proof.
  cbv zeta. unfold tick_leader. destruct (role (nd s) =? LEADER) eqn:Er; [|now left].
  apply N.eqb_eq in Er.
  match goal with |- context [commit_loop ?f ?a ?b s] =>
    pose proof (nd_commit_loop f a b s) as G; destruct (commit_loop f a b s) as [s1 nc] end.
  cbn [fst snd] in *.
  destruct (ok s1); [|left; now rewrite G].
  right. split; [exact Er|].
  set (s2 := if commit (nd s1) =? nc then s1 else upd (fun n => set_commit_meta (n <| commit := nc |>)) s1).
  assert (E2 : commit (nd s2) = nc).
  { subst s2. destruct (commit (nd s1) =? nc) eqn:E; [now apply N.eqb_eq in E|reflexivity]. }
  clearbody s2.
  destruct (existsb _ _); [exact E2|].
  destruct (negb _); [|exact E2].
  cbn. rewrite (fr_set_role commit) by frs. exact E2.
Qed.

(* C04_leader_commit_rule *)
Theorem leader_commit_rule e s :
  let n := nd s in
  let nc := commit (nd (tick_leader e s)) in
  nc = commit n \/
  (role n = LEADER /\ commit n < nc <= last_idx (log n) /\
   own_term_at n nc = true /\
   majority (match_count nc n) n = true /\
   (forall j, commit n < j <= nc -> majority (match_count j n) n = true) /\
   exists stop, nc <= stop <= last_idx (log n) /\
     (forall j, nc < j <= stop -> majority (match_count j n) n = true /\ own_term_at n j = false) /\
     (stop = last_idx (log n) \/ slot_missing n = true \/ majority (match_count (stop + 1) n) n = false)).
Proof.
  cbv zeta. destruct (tick_leader_commit e s) as [H|[Hr H]]; [now left|].
  rewrite H.
  destruct (commit_loop_spec (Datatypes.S (N.to_nat (last_idx (log (nd s)) - commit (nd s))))
              (commit (nd s)) (commit (nd s)) s) as (stop & S1 & S2 & S3 & S4 & S5).
  cbv zeta in *.
  destruct S4 as [[Ha Hb]|(Ha & Hb & Hc)]; [now left|].
  right. split; [exact Hr|]. split; [lia|]. split; [exact Hb|]. split; [apply S3; lia|].
  split; [intros; apply S3; lia|].
  exists stop. split; [lia|]. split; [intros j Hj; split; [apply S3; lia|apply Hc; lia]|].
  destruct (slot_missing (nd s)) eqn:Em; [right; now left|].
  destruct S5 as [S5|S5]; [lia|reflexivity|left; lia|right; right; exact S5].
Qed.

(* ------------------------------------------------------------------------------------------ *)
(* the follower's commit rule                                                                 *)

Lemma ae_commit_spec c v s :
  commit (nd (ae_commit c v s)) =
  match v with
  | Some v => if commit (nd s) <? c then N.max (commit (nd s)) (N.min c v) else commit (nd s)
  | None => commit (nd s)
  end.
Proof.
  unfold ae_commit, set_commit_meta. destruct v as [v|]; [|reflexivity].
  destruct (commit (nd s) <? c); reflexivity.
Qed.

(* index of the last entry the message verifies *)
Definition ae_last (pidx : N) (es : list entry) : N :=
  match last_entry es with Some le => eidx le | None => pidx end.

Local Opaque apply_membership.
(* outcome of ae_regular on [commit] *)
Lemma ae_regular_commit e from c prev new s :
  let n := nd s in
  let n' := nd (ae_regular e from c prev new s) in
  commit n' = commit n \/
  (commit n < commit n' /\
   exists pidx pterm p0 rest,
     prev = Some (pidx, pterm) /\ get_entries (log n) (Some pidx) None None = p0 :: rest /\
     eterm p0 = pterm /\ commit n' = N.min c (ae_last pidx new)).
Proof.
  cbv zeta. unfold ae_regular.
  destruct (get_entries (log (nd s)) (option_map fst prev) None None) as [|p0 ptail] eqn:Ep;
    [left; now rewrite nd_send_next_idx|].
  destruct prev as [[pidx pterm]|]; [|left; now rewrite nd_send_next_idx].
  destruct (negb (eterm p0 =? pterm)) eqn:Et; [left; now rewrite nd_send_next_idx|].
  apply negb_false_iff, N.eqb_eq in Et.
  match goal with |- context [send_next_idx from (Some ?nx) false true ?s1] =>
    set (nx0 := nx); set (s1' := s1) end.
  assert (Ec : commit (nd s1') = commit (nd s)).
  { subst s1'. destruct (dyn (cf e)); rewrite ?(fr_apply_membership commit) by frs; cbn;
      destruct (skipn _ ptail); try reflexivity; destruct (skipn _ new); try reflexivity; cbn;
      rewrite ?(fr_apply_membership commit) by frs; reflexivity. }
  clearbody s1'. rewrite ae_commit_spec, nd_send_next_idx, Ec.
  assert (Enx : nx0 - 1 = ae_last pidx new).
  { subst nx0. unfold ae_last. destruct (last_entry new); lia. }
  rewrite Enx.
  destruct (commit (nd s) <? c) eqn:Ecc; [|now left]. apply N.ltb_lt in Ecc.
  destruct (N.le_gt_cases (N.min c (ae_last pidx new)) (commit (nd s))) as [Hle|Hgt].
  - left. lia.
  - right. split; [lia|]. exists pidx, pterm, p0, ptail. cbn in Ep. repeat split; auto. lia.
Qed.

Local Transparent apply_membership.

(* the snapshot a chunk completes, if any (serializer.setTransmissionData) *)
Definition recv_snapshot (p : snap_part) (z : ser) : option blob :=
  match p with
  | SData b off len first true =>
    match (if first then Some [] else incoming z) with
    | Some ps => Some (assemble_snap (ps ++ [(b, off, len)]))
    | None => None
    end
  | _ => None
  end.

Lemma set_transmission_spec p s :
  let r := set_transmission p s in
  (snd r = true ->
     exists b, recv_snapshot p (sr (nd s)) = Some b /\ stored (sr (nd (fst r))) = Some b).
Proof.
  cbv zeta. unfold set_transmission, recv_snapshot. destruct p as [|b off len first last]; cbn; [discriminate|].
  destruct (if first then Some [] else incoming (sr (nd s))) as [ps|]; cbn; [|discriminate].
  destruct last; cbn; [|discriminate]. destruct (snap_ahead _ _); cbn; [|discriminate].
  intros _. eexists; split; reflexivity.
Qed.

(* does the log hold the snapshot's two entries (same index, term, command)? *)
Definition snap_kept (sn : snapshot) (l : list entry) : bool :=
  match get_entries l (Some (eidx (s_e0 sn))) (Some 2) None with
  | [a; b] => entry_eqb a (s_e0 sn) && entry_eqb b (s_e1 sn)
  | _ => false
  end.

Lemma entry_eqb_eidx a b : entry_eqb a b = true -> eidx a = eidx b.
Proof.
  unfold entry_eqb. intros H. apply andb_prop in H. destruct H as [H _].
  apply andb_prop in H. destruct H as [_ H]. now apply N.eqb_eq.
Qed.

Lemma snap_kept_split sn l :
  snap_kept sn l = true ->
  exists pre a b r, l = pre ++ a :: b :: r /\ delete_to l (eidx (s_e0 sn)) = a :: b :: r /\
                    entry_eqb a (s_e0 sn) = true /\ entry_eqb b (s_e1 sn) = true.
Proof.
  unfold snap_kept, get_entries, delete_to.
  destruct (eidx (s_e0 sn) <? first_idx l); [discriminate|].
  set (k := N.to_nat (eidx (s_e0 sn) - first_idx l)).
  destruct (skipn k l) as [|a [|b r]] eqn:Es; cbn [firstn N.to_nat Pos.to_nat Pos.iter_op Nat.add]; try discriminate.
  change (N.to_nat 2) with 2%nat. cbn [firstn]. intros H. apply andb_prop in H. destruct H as [H1 H2].
  exists (firstn k l), a, b, r. split; [|auto].
  rewrite <- Es. symmetry. apply firstn_skipn.
Qed.

Lemma snap_not_kept_head sn l :
  snap_kept sn l = false ->
  match l with a :: b :: _ => entry_eqb a (s_e0 sn) && entry_eqb b (s_e1 sn) | _ => false end = false.
Proof.
  intros H. destruct l as [|a [|b r]]; try reflexivity.
  destruct (entry_eqb a (s_e0 sn)) eqn:Ea; [|reflexivity]. cbn [andb].
  unfold snap_kept, get_entries in H. cbn [first_idx] in H.
  rewrite <- (entry_eqb_eidx _ _ Ea), N.ltb_irrefl, N.sub_diag in H.
  change (N.to_nat 0) with 0%nat in H. change (N.to_nat 2) with 2%nat in H. cbn [skipn firstn] in H.
  now rewrite Ea in H.
Qed.

(* what a load does to the log and to applied: the log keeps its entries from the snapshot's
   position on when it holds the snapshot's two entries, otherwise it becomes [e0; e1] *)
Lemma load_dump_loaded e cl s sn :
  stored (sr (nd s)) = Some (Good sn) -> cl && (eidx (s_e1 sn) <=? applied (nd s)) = false ->
  s_ver sn <= self_ver (nd s) ->
  log (nd (load_dump e cl s)) =
    (if snap_kept sn (log (nd s)) then delete_to (log (nd s)) (eidx (s_e0 sn)) else [s_e0 sn; s_e1 sn]) /\
  applied (nd (load_dump e cl s)) = eidx (s_e1 sn).
Proof.
  intros Hs Hb Hv. unfold load_dump. rewrite Hs, Hb.
  destruct (self_ver (nd s) <? s_ver sn) eqn:E; [apply N.ltb_lt in E; lia|].
  cbv zeta. cbn [nd upd log set].
  fold (snap_kept sn (log (nd s))).
  match goal with |- context [update_cluster ?l ?s4] => set (s5 := s4) end.
  assert (E5 : log (nd s5) = (if snap_kept sn (log (nd s)) then delete_to (log (nd s)) (eidx (s_e0 sn))
                              else [s_e0 sn; s_e1 sn]) /\ applied (nd s5) = eidx (s_e1 sn)).
  { subst s5. destruct (snap_kept sn (log (nd s))) eqn:Ek.
    - destruct (snap_kept_split sn _ Ek) as (pre & a & b & r & _ & Hd & Ha & Hb2).
      cbn [nd upd log set]. rewrite Hd, Ha, Hb2. cbn. rewrite Hd. auto.
    - cbn [nd upd log set]. rewrite (snap_not_kept_head sn _ Ek). cbn. auto. }
  clearbody s5. destruct E5 as [E5a E5b].
  destruct (dyn (cf e)); [|auto].
  match goal with |- context [if ?b then apply_membership _ _ _ else _] => destruct b end; split;
    rewrite ?(fr_apply_membership log), ?(fr_apply_membership applied) by frs;
    rewrite ?(fr_update_cluster log), ?(fr_update_cluster applied) by frs; assumption.
Qed.

Definition ae_msg_info (m : msg) : option (N * N) :=
  match m with
  | AE t c _ _ | AEPiece t c _ _ _ _ _ | AESnap t c _ => Some (t, c)
  | _ => None
  end.

(* C04_follower_commit_verified *)
Theorem follower_commit_verified e from m n :
  let n' := nd (on_message e from m n) in
  commit n' = commit n \/
  (commit n < commit n' /\
   exists t c, ae_msg_info m = Some (t, c) /\ term n <= t /\ commit n' <= c /\
     match m with
     | AE _ _ prev es =>
       exists pidx pterm p0 rest,
         prev = Some (pidx, pterm) /\ get_entries (log n) (Some pidx) None None = p0 :: rest /\
         eterm p0 = pterm /\ commit n' = N.min c (ae_last pidx es)
     | AEPiece _ _ prev lab off len en =>
       lab <> 1 /\ lab <> 2 /\
       exists pidx pterm p0 rest en',
         prev = Some (pidx, pterm) /\ get_entries (log n) (Some pidx) None None = p0 :: rest /\
         eterm p0 = pterm /\ assemble_entry (recv_t n ++ [(en, off, len)]) = Some en' /\
         commit n' = N.min c (eidx en')
     | AESnap _ _ p =>
       exists sn, recv_snapshot p (sr n) = Some (Good sn) /\ s_ver sn <= self_ver n /\
         log n' = (if snap_kept sn (log n) then delete_to (log n) (eidx (s_e0 sn)) else [s_e0 sn; s_e1 sn]) /\
         commit n' = N.min c (eidx (s_e1 sn))
     | _ => False
     end).
Proof.
  cbv zeta.
  destruct m as [t lli llt|t|t c prev es|t c prev lab off len en|t c p|cm req|req okr a b|t nx r su].
  - left. apply (fr_msg_request_vote commit); frs.
  - left. apply (fr_msg_response_vote commit); frs.
  - (* AE *)
    unfold on_message. rewrite on_append_entries_eq. cbn [nd start_S].
    destruct (t <? term n) eqn:Et; [now left|]. apply N.ltb_ge in Et.
    set (s0 := ae_pre e from t c (start_S e n)).
    assert (E0 : commit (nd s0) = commit n) by (apply (fr_ae_pre commit); frs).
    assert (L0 : log (nd s0) = log n) by (apply (fr_ae_pre log); frs).
    clearbody s0. unfold ae_body_of.
    destruct (ae_regular_commit e from c prev es s0) as [H|(Hlt & pidx & pterm & p0 & rest & H1 & H2 & H3 & H4)];
      cbv zeta in *.
    + left. congruence.
    + right. rewrite E0 in Hlt. split; [exact Hlt|]. exists t, c. split; [reflexivity|]. split; [exact Et|].
      split; [lia|]. exists pidx, pterm, p0, rest. rewrite <- L0. auto.
  - (* AEPiece *)
    unfold on_message. rewrite on_append_entries_eq. cbn [nd start_S].
    destruct (t <? term n) eqn:Et; [now left|]. apply N.ltb_ge in Et.
    set (s0 := ae_pre e from t c (start_S e n)).
    assert (E0 : commit (nd s0) = commit n) by (apply (fr_ae_pre commit); frs).
    assert (L0 : log (nd s0) = log n) by (apply (fr_ae_pre log); frs).
    assert (R0 : recv_t (nd s0) = recv_t n) by (apply (fr_ae_pre recv_t); frs).
    clearbody s0. unfold ae_body_of.
    destruct (lab =? 1) eqn:El1; [left; now rewrite nd_send_next_idx|].
    destruct (recv_t (nd s0)) as [|rt0 rts] eqn:Ert; [left; exact E0|].
    destruct (lab =? 2) eqn:El2; [left; now rewrite nd_send_next_idx|].
    cbn [nd upd].
    destruct (assemble_entry _) as [en'|] eqn:Eas; [|left; exact E0].
    match goal with |- context [ae_regular e from c prev [en'] ?s1] =>
      destruct (ae_regular_commit e from c prev [en'] s1)
        as [H|(Hlt & pidx & pterm & p0 & rest & H1 & H2 & H3 & H4)] end; cbv zeta in *.
    + left. cbn in H. congruence.
    + right. cbn in Hlt, H4. rewrite E0 in Hlt. split; [exact Hlt|]. exists t, c.
      split; [reflexivity|]. split; [exact Et|]. split; [lia|].
      apply N.eqb_neq in El1, El2. split; [exact El1|]. split; [exact El2|].
      exists pidx, pterm, p0, rest, en'. rewrite <- L0, <- R0.
      change (get_entries (log (nd s0)) (Some pidx) None None = p0 :: rest) in H2.
      change (assemble_entry (recv_t (nd s0) ++ [(en, off, len)]) = Some en') in Eas.
      rewrite Ert in Eas. auto.
  - (* AESnap *)
    unfold on_message. rewrite on_append_entries_eq. cbn [nd start_S].
    destruct (t <? term n) eqn:Et; [now left|]. apply N.ltb_ge in Et.
    set (s0 := ae_pre e from t c (start_S e n)).
    assert (E0 : commit (nd s0) = commit n) by (apply (fr_ae_pre commit); frs).
    assert (L0 : sr (nd s0) = sr n) by (apply (fr_ae_pre sr); frs).
    assert (V0 : self_ver (nd s0) = self_ver n) by (apply (fr_ae_pre self_ver); frs).
    assert (L1 : log (nd s0) = log n) by (apply (fr_ae_pre log); frs).
    clearbody s0. unfold ae_body_of.
    pose proof (set_transmission_spec p s0) as Hst. cbv zeta in Hst.
    pose proof (fr_set_transmission commit) as F1.
    pose proof (fr_set_transmission self_ver) as F2.
    pose proof (fr_set_transmission log) as F3.
    specialize (F1 ltac:(frs) p s0). specialize (F2 ltac:(frs) p s0). specialize (F3 ltac:(frs) p s0).
    destruct (set_transmission p s0) as [s2 dn]. cbn [fst snd] in *.
    destruct (dn && load_dump_ok s2) eqn:Ed.
    2:{ left. destruct dn; rewrite ae_commit_spec; rewrite ?(fr_load_dump commit) by frs; congruence. }
    apply andb_prop in Ed. destruct Ed as [-> Hok].
    destruct (Hst eq_refl) as (b & Hb1 & Hb2).
    unfold load_dump_ok in Hok. rewrite Hb2 in Hok. destruct b as [sn|]; [|discriminate].
    apply andb_prop in Hok. destruct Hok as [Hah Hok].
    apply negb_true_iff, N.leb_gt in Hah. apply N.leb_le in Hok.
    assert (Hb : true && (eidx (s_e1 sn) <=? applied (nd s2)) = false) by (cbn; now apply N.leb_gt).
    destruct (load_dump_loaded e true s2 sn Hb2 Hb Hok) as [Hlg Hap].
    rewrite ae_commit_spec, !nd_send_next_idx.
    rewrite (fr_load_dump commit) by frs.
    rewrite (fr_ae_commit log), nd_send_next_idx by frs.
    rewrite Hlg, Hap, F1, E0, F3, L1.
    destruct (commit n <? c) eqn:Ecc; [|now left]. apply N.ltb_lt in Ecc.
    destruct (N.le_gt_cases (N.min c (eidx (s_e1 sn))) (commit n)) as [Hle|Hgt]; [left; lia|].
    right. split; [lia|]. exists t, c. split; [reflexivity|]. split; [exact Et|]. split; [lia|].
    exists sn. rewrite <- L0, <- V0, <- F2. repeat split; auto. lia.
  - left. apply (fr_msg_apply_cmd commit); frs.
  - left. apply (fr_msg_apply_resp commit); frs.
  - left. apply (fr_msg_next_idx commit); frs.
Qed.

(* ------------------------------------------------------------------------------------------ *)
(* C04_commit_monotone                                                                        *)

Lemma commit_mono_tick e n : commit n <= commit (nd (on_tick e n)).
Proof.
  apply (on_tick_rel (fun a b => commit a <= commit b)); intros; try lia.
  - rewrite (fr_tick_load commit) by frs. lia.
  - rewrite (fr_tick_timer commit) by frs. lia.
  - rewrite (fr_tick_election commit) by frs. lia.
  - destruct (tick_leader_commit e s) as [H|[_ H]]; cbv zeta in H; rewrite H; [lia|].
    apply commit_loop_ge. lia.
  - rewrite (fr_apply_entries commit) by frs. lia.
  - rewrite (fr_tick_send commit) by frs. lia.
  - rewrite (fr_tick_ready commit) by frs. lia.
  - rewrite (fr_check_commands commit) by frs. lia.
  - rewrite (fr_try_compact commit) by frs. lia.
Qed.

Lemma commit_mono_msg e from m n : commit n <= commit (nd (on_message e from m n)).
Proof.
  destruct (follower_commit_verified e from m n) as [H|[H _]]; cbv zeta in H; lia.
Qed.

Lemma commit_mono_nstep c MP n n' : nstep c MP n n' -> commit n <= commit n'.
Proof.
  intros H. destruct H.
  - apply commit_mono_tick.
  - apply commit_mono_msg.
  - rewrite (fr_on_connected commit) by frs. lia.
  - rewrite (fr_on_disconnected commit) by frs. lia.
  - unfold api_submit. rewrite (fr_submit commit) by frs. cbn. lia.
  - unfold api_admin. destruct (dyn (cf e)); [rewrite (fr_submit commit) by frs|]; cbn; lia.
  - unfold api_setver. destruct (_ || _); [|rewrite (fr_submit commit) by frs]; cbn; lia.
  - cbn. lia.
Qed.

(* one global step: a node that is neither killed nor restarted keeps or raises its commit index *)
Theorem commit_monotone_step c g ev g' r x n n' :
  gstep c g ev = Some (g', r) ->
  is_restart x ev = false -> is_kill x ev = false ->
  aget x (nodes g) = Some n -> aget x (nodes g') = Some n' ->
  commit n <= commit n'.
Proof.
  intros Hs Hr Hk Hn Hn'.
  destruct (gstep_nstep c (fun _ => True) g ev g' r x n Hs) as (n2 & Hn2 & [->|Hst]); auto.
  - intros a b m _. exact I.
  - rewrite Hn' in Hn2. inversion Hn2. lia.
  - rewrite Hn' in Hn2. inversion Hn2; subst. eapply commit_mono_nstep; eauto.
Qed.

(* the node keeps running through the whole trace *)
Definition runs_through (x : nid) (evs : list event) : Prop :=
  forall ev, In ev evs -> is_restart x ev = false /\ is_kill x ev = false.

Lemma run_trace_rel (R : node -> node -> Prop) c :
  (forall a, R a a) -> (forall a b d, R a b -> R b d -> R a d) ->
  (forall n n', nstep c (fun _ => True) n n' -> R n n') ->
  forall evs g g' x n,
    run_trace c g evs = Some g' -> runs_through x evs ->
    aget x (nodes g) = Some n ->
    exists n', aget x (nodes g') = Some n' /\ R n n'.
Proof.
  intros Rf Tr Hst evs. induction evs as [|ev evs IH]; intros g g' x n Hrun Hthru Hn.
  - cbn in Hrun. inversion Hrun; subst. eauto.
  - cbn in Hrun. destruct (gstep c g ev) as [[g1 r]|] eqn:Es; [|discriminate].
    destruct (Hthru ev (or_introl eq_refl)) as [Hr Hk].
    destruct (gstep_nstep c (fun _ => True) g ev g1 r x n Es) as (n1 & Hn1 & Hrel); auto.
    { intros a b m _. exact I. }
    destruct (IH g1 g' x n1 Hrun) as (n' & Hn' & HR); auto.
    { intros ev' Hin. apply Hthru. now right. }
    exists n'. split; [exact Hn'|]. eapply Tr; [|exact HR].
    destruct Hrel as [->|Hrel]; [apply Rf|apply Hst, Hrel].
Qed.

(* C04_commit_monotone: all schedules, all configurations *)
Theorem commit_monotone_trace c evs g g' x n n' :
  run_trace c g evs = Some g' -> runs_through x evs ->
  aget x (nodes g) = Some n -> aget x (nodes g') = Some n' ->
  commit n <= commit n'.
Proof.
  intros Hrun Hthru Hn Hn'.
  destruct (run_trace_rel (fun a b => commit a <= commit b) c) with (evs := evs) (g := g) (g' := g') (x := x) (n := n)
    as (n2 & Hn2 & Hle); auto; try (intros; lia).
  - intros a b Hst. eapply commit_mono_nstep; eauto.
  - rewrite Hn' in Hn2. inversion Hn2; subst. exact Hle.
Qed.

(* ------------------------------------------------------------------------------------------ *)
(* C04_applied_monotone_partial                                                               *)

Lemma applied_apply_one en s :
  applied (nd s) <= applied (nd (fst (apply_one en s))) <= applied (nd s) + 1.
Proof.
  unfold apply_one.
  match goal with |- context [do_apply ?c ?s1] =>
    pose proof (fr_do_apply applied) as G; specialize (G ltac:(frs) ltac:(frs) ltac:(frs)
      ltac:(frs) ltac:(frs) ltac:(frs) ltac:(frs) c s1);
    destruct (do_apply c s1) as [s2 ar] end.
  cbn [fst] in G. rewrite nd_upd in G. cbn in G.
  destruct ar; cbn [fst]; rewrite ?nd_upd; cbn [applied set]; try lia;
    (rewrite (fr_fold applied); [cbn; lia|intros; destruct (_ =? _); now rewrite nd_fire]).
Qed.

Lemma applied_apply_list es s : applied (nd s) <= applied (nd (apply_list es s)).
Proof.
  revert s. induction es as [|en es IH]; intros s; cbn [apply_list]; [lia|].
  pose proof (applied_apply_one en s) as G. destruct (apply_one en s) as [s1 go]. cbn [fst] in G.
  destruct go; [specialize (IH s1)|]; lia.
Qed.

Lemma applied_apply_entries e s : applied (nd s) <= applied (nd (fst (apply_entries e s))).
Proof.
  unfold apply_entries. destruct (_ <? _); cbn [fst]; [apply applied_apply_list|lia].
Qed.

Lemma applied_load_dump e cl s :
  applied (nd (load_dump e cl s)) = applied (nd s) \/
  exists sn, stored (sr (nd s)) = Some (Good sn) /\ s_ver sn <= self_ver (nd s) /\
             applied (nd (load_dump e cl s)) = eidx (s_e1 sn) /\
             (cl = true -> applied (nd s) < eidx (s_e1 sn)).
Proof.
  unfold load_dump. destruct (stored (sr (nd s))) as [[sn|]|] eqn:Es; try now left.
  destruct (cl && (eidx (s_e1 sn) <=? applied (nd s))) eqn:Eb; [now left|].
  destruct (self_ver (nd s) <? s_ver sn) eqn:Ev; [now left|]. apply N.ltb_ge in Ev.
  right. exists sn. split; [reflexivity|]. split; [exact Ev|]. split.
  - pose proof (load_dump_loaded e cl s sn Es Eb Ev) as [_ H]. unfold load_dump in H.
    rewrite Es, Eb in H. destruct (self_ver (nd s) <? s_ver sn) eqn:E; [apply N.ltb_lt in E; lia|]. exact H.
  - intros ->. cbn in Eb. now apply N.leb_gt in Eb.
Qed.

Definition snap_ahead_tick (e : env) (n : node) : Prop :=
  need_load n && file_dump (cf e) = true ->
  forall sn, stored (sr n) = Some (Good sn) -> s_ver sn <= self_ver n -> applied n <= eidx (s_e1 sn).

Lemma applied_mono_tick e n : snap_ahead_tick e n -> applied n <= applied (nd (on_tick e n)).
Proof.
  intros Hsa. unfold on_tick. rewrite andthen_eq.
  assert (H1 : applied n <= applied (nd (tick_load e (start_S e n)))).
  { unfold tick_load. rewrite nd_upd. cbn [applied set]. cbn [nd start_S].
    destruct (need_load n && file_dump (cf e)) eqn:En; [|cbn; lia].
    destruct (applied_load_dump e false (start_S e n)) as [H|(sn & Hs & Hv & H & _)]; rewrite H; cbn; [lia|].
    apply (Hsa En sn); assumption. }
  destruct (ok _); [|exact H1].
  eapply N.le_trans; [exact H1|]. generalize (tick_load e (start_S e n)). intros s.
  apply (andthen_rel (fun a b => applied a <= applied b)); [intros; lia| |intros].
  { rewrite (fr_tick_timer applied) by frs. lia. }
  apply (andthen_rel (fun a b => applied a <= applied b)); [intros; lia| |intros].
  { rewrite (fr_tick_election applied) by frs. lia. }
  apply (andthen_rel (fun a b => applied a <= applied b)); [intros; lia| |intros].
  { rewrite (fr_tick_leader applied) by frs. lia. }
  pose proof (applied_apply_entries e s'1) as G. destruct (apply_entries e s'1) as [s1 need]. cbn [fst] in G.
  destruct (ok s1); [|exact G]. eapply N.le_trans; [exact G|].
  apply (andthen_rel (fun a b => applied a <= applied b)); [intros; lia| |intros].
  { rewrite (fr_tick_send applied) by frs. lia. }
  apply (andthen_rel (fun a b => applied a <= applied b)); [intros; lia| |intros].
  { rewrite (fr_tick_ready applied) by frs. lia. }
  apply (andthen_rel (fun a b => applied a <= applied b)); [intros; lia| |intros].
  { rewrite (fr_check_commands applied) by frs. lia. }
  rewrite (fr_try_compact applied) by frs. lia.
Qed.

(* a received snapshot is installed only when it is ahead of the node's position, so no message
   handler lowers applied *)
Lemma applied_mono_msg e from m n : applied n <= applied (nd (on_message e from m n)).
Proof.
  destruct m as [t lli llt|t|t c prev es|t c prev lab off len en|t c p|cm req|req okr a b|t nx r su].
  - rewrite (fr_msg_request_vote applied) by frs. lia.
  - rewrite (fr_msg_response_vote applied) by frs. lia.
  - unfold on_message. rewrite on_append_entries_eq. cbn [nd start_S].
    destruct (t <? term n); [cbn; lia|]. unfold ae_body_of.
    rewrite (fr_ae_regular applied), (fr_ae_pre applied) by frs. cbn; lia.
  - unfold on_message. rewrite on_append_entries_eq. cbn [nd start_S].
    destruct (t <? term n); [cbn; lia|]. unfold ae_body_of.
    assert (E0 : applied (nd (ae_pre e from t c (start_S e n))) = applied n)
      by (apply (fr_ae_pre applied); frs).
    destruct (lab =? 1); [rewrite nd_send_next_idx; cbn in *; lia|].
    destruct (recv_t _); [cbn in *; lia|].
    destruct (lab =? 2); [rewrite nd_send_next_idx; cbn in *; lia|].
    destruct (assemble_entry _); [|cbn in *; lia].
    rewrite (fr_ae_regular applied) by frs. cbn in *; lia.
  - unfold on_message. rewrite on_append_entries_eq. cbn [nd start_S].
    destruct (t <? term n) eqn:Et; [cbn; lia|]. apply N.ltb_ge in Et.
    set (s0 := ae_pre e from t c (start_S e n)).
    assert (E0 : applied (nd s0) = applied n) by (apply (fr_ae_pre applied); frs).
    assert (L0 : sr (nd s0) = sr n) by (apply (fr_ae_pre sr); frs).
    assert (V0 : self_ver (nd s0) = self_ver n) by (apply (fr_ae_pre self_ver); frs).
    clearbody s0. unfold ae_body_of.
    pose proof (set_transmission_spec p s0) as Hst. cbv zeta in Hst.
    pose proof (fr_set_transmission applied) as F1.
    pose proof (fr_set_transmission self_ver) as F2.
    specialize (F1 ltac:(frs) p s0). specialize (F2 ltac:(frs) p s0).
    destruct (set_transmission p s0) as [s2 dn]. cbn [fst snd] in *.
    assert (Hld : applied n <= applied (nd (load_dump e true s2))).
    { destruct (applied_load_dump e true s2) as [H|(sn & Hs & Hv & H & Hah)]; rewrite H; [lia|].
      specialize (Hah eq_refl). lia. }
    destruct (dn && load_dump_ok s2); [|destruct dn]; rewrite (fr_ae_commit applied) by frs;
      rewrite ?nd_send_next_idx; lia.
  - rewrite (fr_msg_apply_cmd applied) by frs. lia.
  - rewrite (fr_msg_apply_resp applied) by frs. lia.
  - rewrite (fr_msg_next_idx applied) by frs. lia.
Qed.

(* C04_applied_monotone: every handler and every delivered message; only the load of the dump file
   in a node's first tick (restart path, load_dump e false) needs the stated condition *)
Theorem applied_monotone_handlers c MP n n' :
  nstep c MP n n' ->
  (forall e, cf e = c -> snap_ahead_tick e n) ->
  applied n <= applied n'.
Proof.
  intros H Ht. destruct H.
  - apply applied_mono_tick. auto.
  - apply applied_mono_msg.
  - rewrite (fr_on_connected applied) by frs. lia.
  - rewrite (fr_on_disconnected applied) by frs. lia.
  - unfold api_submit. rewrite (fr_submit applied) by frs. cbn. lia.
  - unfold api_admin. destruct (dyn (cf e)); [rewrite (fr_submit applied) by frs|]; cbn; lia.
  - unfold api_setver. destruct (_ || _); [|rewrite (fr_submit applied) by frs]; cbn; lia.
  - cbn. lia.
Qed.

(* the unconditional statement needs a global invariant for the restart path: the dump a node finds
   in its first tick is not behind what it has applied by then *)
Definition C04_applied_monotone_full : Prop :=
  forall c evs0 evs g g' x n n',
    run_trace c ginit evs0 = Some g -> run_trace c g evs = Some g' -> runs_through x evs ->
    aget x (nodes g) = Some n -> aget x (nodes g') = Some n' -> applied n <= applied n'.

(* Log Matching over all reachable global states (staged, DESIGN 5.3) *)
Definition C04_log_matching_full : Prop :=
  forall c evs g x y nx ny ex ey,
    run_trace c ginit evs = Some g ->
    aget x (nodes g) = Some nx -> aget y (nodes g) = Some ny ->
    In ex (log nx) -> In ey (log ny) -> eidx ex = eidx ey -> eterm ex = eterm ey ->
    forall e1, In e1 (log nx) -> eidx e1 <= eidx ex -> first_idx (log ny) <= eidx e1 ->
    exists e2, In e2 (log ny) /\ eidx e2 = eidx e1 /\ entry_eqb e1 e2 = true.

(* ------------------------------------------------------------------------------------------ *)
(* C04_match_idx_from_success                                                                 *)

(* D17 repair: a reply that belongs to another term (or reaches a non-leader) is ignored *)
Theorem next_idx_other_term_ignored e from t nx r su n :
  t <> term n \/ role n <> LEADER -> on_message e from (NextIdx t nx r su) n = start_S e n.
Proof.
  intros H. unfold on_message. cbn [nd start_S].
  destruct (role n =? LEADER) eqn:Er; cbn [andb]; [|reflexivity].
  destruct (t =? term n) eqn:Et; [|reflexivity].
  apply N.eqb_eq in Er, Et. destruct H; contradiction.
Qed.

Theorem match_idx_from_success e from m n :
  role n = LEADER ->
  let n' := nd (on_message e from m n) in
  match_idx n' = match_idx n \/ role n' <> LEADER \/
  exists nx r m0, m = NextIdx (term n) nx r true /\ aget from (match_idx n) = Some m0 /\
                  m0 < nx - 1 /\ match_idx n' = aset from (nx - 1) (match_idx n).
Proof.
  intros Hr. cbv zeta.
  destruct m as [t lli llt|t|t c prev es|t c prev lab off len en|t c p|cm req|req okr a b|t nx r su].
  - left. apply (fr_msg_request_vote match_idx); frs.
  - left. unfold on_message. cbn [nd start_S]. rewrite Hr. reflexivity.
  - unfold on_message. rewrite on_append_entries_eq. cbn [nd start_S].
    destruct (t <? term n); [now left|]. right. left.
    rewrite (fr_ae_body_of role) by frs. rewrite role_ae_pre. discriminate.
  - unfold on_message. rewrite on_append_entries_eq. cbn [nd start_S].
    destruct (t <? term n); [now left|]. right. left.
    rewrite (fr_ae_body_of role) by frs. rewrite role_ae_pre. discriminate.
  - unfold on_message. rewrite on_append_entries_eq. cbn [nd start_S].
    destruct (t <? term n); [now left|]. right. left.
    rewrite (fr_ae_body_of role) by frs. rewrite role_ae_pre. discriminate.
  - left. apply (fr_msg_apply_cmd match_idx); frs.
  - left. apply (fr_msg_apply_resp match_idx); frs.
  - unfold on_message. cbn [nd start_S]. rewrite Hr. cbn [N.eqb Pos.eqb andb LEADER].
    destruct (t =? term n) eqn:Et; [|now left]. apply N.eqb_eq in Et. subst t.
    destruct su.
    2:{ left. destruct r; cbn; reflexivity. }
    set (s1 := if r then _ else _).
    assert (E1 : match_idx (nd s1) = match_idx n) by (subst s1; destruct r; reflexivity).
    clearbody s1.
    destruct (aget from (match_idx (nd s1))) as [m0|] eqn:Em.
    + destruct (m0 <? nx - 1) eqn:El.
      * right. right. exists nx, r, m0. apply N.ltb_lt in El. rewrite <- E1.
        repeat split; auto. destruct (ok _); reflexivity.
      * left. destruct (ok s1); cbn; exact E1.
    + left. cbn. exact E1.
Qed.

(* hence, as long as the node stays leader, every slot only grows on a message *)
Corollary match_idx_grows_on_message e from m n y a b :
  role n = LEADER -> role (nd (on_message e from m n)) = LEADER ->
  aget y (match_idx n) = Some a -> aget y (match_idx (nd (on_message e from m n))) = Some b ->
  a <= b.
Proof.
  intros Hr Hr' Ha Hb.
  destruct (match_idx_from_success e from m n Hr) as [H|[H|(nx & r & m0 & -> & Hm0 & Hlt & H)]].
  - rewrite H in Hb. rewrite Ha in Hb. inversion Hb. lia.
  - contradiction.
  - rewrite H, aget_aset in Hb. destruct (y =? from) eqn:E.
    + apply N.eqb_eq in E. subst y. rewrite Ha in Hm0. inversion Hm0; inversion Hb. lia.
    + rewrite Ha in Hb. inversion Hb. lia.
Qed.

Lemma nd_fold_fire (subs : list (N * cbref)) t r s :
  nd (fold_left (fun s tc => if fst tc =? t then fire (snd tc) r SUCCESS s
                             else fire (snd tc) 0 DISCARDED s) subs s) = nd s.
Proof.
  revert s. induction subs as [|tc subs IH]; intros s; cbn [fold_left]; [reflexivity|].
  rewrite IH. destruct (_ =? _); apply nd_fire.
Qed.

(* static membership: a tick of a leader does not touch match_idx.  [replay_idx <= applied] says the
   node is not replaying a journal (a replayed membership command takes effect even when dynamic
   membership is switched off, syncobj.py:838-842). *)
Theorem match_idx_tick_static e n :
  dyn (cf e) = false -> role n = LEADER -> need_load n = false -> replay_idx n <= applied n ->
  match_idx (nd (on_tick e n)) = match_idx n.
Proof.
  intros Hd Hr Hnl Hrp.
  set (P := fun s : S => match_idx (nd s) = match_idx n /\ replay_idx (nd s) <= applied (nd s)).
  assert (Hco : forall c cbk s, match_idx (nd (check_one e c cbk s)) = match_idx (nd s)).
  { intros c cbk s. unfold check_one. rewrite Hd.
    destruct (role (nd s) =? LEADER).
    - destruct (use_batch (cf e)); rewrite ?(fr_send_ae match_idx) by frs; destruct cbk; cbn;
        rewrite ?nd_send; reflexivity.
    - destruct (leader (nd s)); [destruct cbk|rewrite nd_call_err]; cbn; rewrite ?nd_send; reflexivity. }
  assert (Hcl : forall f st s, match_idx (nd (check_loop f e st s)) = match_idx (nd s)).
  { induction f as [|f IH]; intros st s; cbn [check_loop]; [reflexivity|].
    destruct (_ <? _)%Z; [|reflexivity].
    assert (K : match_idx (nd (match queue (nd s) with
              | [] => s
              | (c, cbk) :: rest =>
                let s := upd (fun n => n <| queue := rest |>) s in
                let s := check_one e c cbk s in
                if ok s then check_loop f e st s else s end)) = match_idx (nd s)).
    { destruct (queue (nd s)) as [|[c cbk] rest]; [reflexivity|].
      cbv zeta. destruct (ok _); rewrite ?IH, Hco; reflexivity. }
    destruct (leader (nd s)); [exact K|]. destruct (wait_leader (cf e)); [reflexivity|exact K]. }
  assert (Hone : forall en s, P s -> P (fst (apply_one en s))).
  { intros en s [P1 P2]. unfold apply_one.
    match goal with |- context [do_apply ?c ?s1] =>
      assert (D : match_idx (nd (fst (do_apply c s1))) = match_idx n /\
                  replay_idx (nd (fst (do_apply c s1))) = replay_idx (nd s) /\
                  applied (nd (fst (do_apply c s1))) = applied (nd s)) end.
    { unfold do_apply. cbn [nd upd applied replay_idx set].
      destruct (ck (ecmd en) =? 3); [destruct (_ <? _); cbn; auto|].
      destruct (membership_of (ecmd en)) as [[a x]|] eqn:Em.
      - destruct (applied (nd s) <? replay_idx (nd s)) eqn:Erp; [apply N.ltb_lt in Erp; lia|]. cbn. auto.
      - destruct (ck (ecmd en) =? 0); [destruct (cb (ecmd en) =? 1)|]; cbn; auto. }
    destruct (do_apply _ _) as [s3 ar]. cbn [fst] in D. destruct D as (D1 & D2 & D3).
    unfold P.
    destruct ar; cbn [fst]; try (split; [exact D1|lia]); rewrite nd_upd; cbn [match_idx replay_idx applied set];
      rewrite nd_fold_fire; (split; [exact D1|lia]). }
  assert (Hlist : forall es s, P s -> P (apply_list es s)).
  { induction es as [|en es IH]; intros s Hs; cbn [apply_list]; [exact Hs|].
    pose proof (Hone en s Hs) as A1. destruct (apply_one en s) as [s4 go]. cbn [fst] in A1.
    destruct go; [apply IH|]; exact A1. }
  assert (Hfr : forall (h : S -> S),
            (forall s, match_idx (nd (h s)) = match_idx (nd s)) ->
            (forall s, replay_idx (nd (h s)) = replay_idx (nd s)) ->
            (forall s, applied (nd (h s)) = applied (nd s)) -> forall s, P s -> P (h s)).
  { intros h H1 H2 H3 s [P1 P2]. unfold P. rewrite H1, H2, H3. split; assumption. }
  unfold on_tick. rewrite andthen_eq.
  assert (E1 : tick_load e (start_S e n) = upd (fun n => n <| need_load := false |>) (start_S e n)).
  { unfold tick_load. cbn [nd start_S]. rewrite Hnl. reflexivity. }
  rewrite E1. set (s1 := upd _ (start_S e n)).
  assert (P1 : P s1 /\ role (nd s1) = LEADER) by (subst s1; cbn; repeat split; auto).
  clearbody s1. destruct P1 as [P1 R1]. clear E1.
  destruct (ok s1); [|apply P1]. rewrite andthen_eq.
  assert (P2 : P (tick_timer e s1) /\ role (nd (tick_timer e s1)) = LEADER).
  { split; [|rewrite (fr_tick_timer role) by frs; exact R1].
    apply Hfr; auto; intros; [apply (fr_tick_timer match_idx)|apply (fr_tick_timer replay_idx)|
                              apply (fr_tick_timer applied)]; frs. }
  destruct P2 as [P2 R2]. generalize dependent (tick_timer e s1). intros s2 P2 R2.
  destruct (ok s2); [|apply P2]. rewrite andthen_eq.
  assert (H3 : tick_election e s2 = s2).
  { unfold tick_election. destruct (self (nd s2)); [|reflexivity]. rewrite R2. reflexivity. }
  rewrite H3. destruct (ok s2); [|apply P2].
  enough (G : P ((tick_leader e;;
       (fun s : S =>
        let (s0, need) := apply_entries e s in
        if ok s0 then (tick_send e need;; tick_ready;; check_commands e;; try_compact e) s0 else s0)) s2))
    by apply G.
  apply andthen_inv; [| |exact P2].
  { apply Hfr; intros; [apply (fr_tick_leader match_idx)|apply (fr_tick_leader replay_idx)|
                        apply (fr_tick_leader applied)]; frs. }
  intros s3 P3.
  assert (A : P (fst (apply_entries e s3))).
  { unfold apply_entries. destruct (_ <? _); cbn [fst]; [apply Hlist|]; exact P3. }
  destruct (apply_entries e s3) as [s4 need]. cbn [fst] in A.
  destruct (ok s4); [|exact A].
  apply andthen_inv; [| |exact A].
  { apply Hfr; intros; [apply (fr_tick_send match_idx)|apply (fr_tick_send replay_idx)|
                        apply (fr_tick_send applied)]; frs. }
  intros s5 P5. apply andthen_inv; [| |exact P5].
  { apply Hfr; intros; [apply (fr_tick_ready match_idx)|apply (fr_tick_ready replay_idx)|
                        apply (fr_tick_ready applied)]; frs. }
  intros s6 P6. apply andthen_inv; [| |exact P6].
  { apply Hfr; intros; [apply Hcl|apply (fr_check_commands replay_idx)|
                        apply (fr_check_commands applied)]; frs. }
  apply Hfr; intros; [apply (fr_try_compact match_idx)|apply (fr_try_compact replay_idx)|
                      apply (fr_try_compact applied)]; frs.
Qed.

(* ------------------------------------------------------------------------------------------ *)
(* C04_install_keeps_acknowledged: installing a snapshot keeps what the follower holds behind it *)

(* since the serializer keeps a complete file only when it is a snapshot ahead of the node, the
   received blob has to be ahead of the node's position *)
Lemma set_transmission_recv p s b :
  recv_snapshot p (sr (nd s)) = Some b -> snap_ahead b (applied (nd s)) = true ->
  snd (set_transmission p s) = true /\ stored (sr (nd (fst (set_transmission p s)))) = Some b.
Proof.
  unfold recv_snapshot, set_transmission. destruct p as [|b0 off len first last]; [discriminate|].
  destruct last; [|discriminate].
  destruct (if first then Some [] else incoming (sr (nd s))) as [ps|]; [|discriminate].
  intros H Hah. inversion H. subst b. rewrite Hah. cbn. auto.
Qed.

Lemma outs_ae_commit c v s : outs (ae_commit c v s) = outs s.
Proof. unfold ae_commit. destruct v; [destruct (_ <? _)|]; reflexivity. Qed.

Theorem install_keeps_acknowledged e from t c p n sn :
  term n <= t -> recv_snapshot p (sr n) = Some (Good sn) ->
  s_ver sn <= self_ver n -> applied n < eidx (s_e1 sn) ->
  let s' := on_message e from (AESnap t c p) n in
  let n' := nd s' in
  applied n' = eidx (s_e1 sn) /\
  (snap_kept sn (log n) = true ->
     log n' = delete_to (log n) (eidx (s_e0 sn)) /\
     exists pre a b r, log n = pre ++ a :: b :: r /\
       entry_eqb a (s_e0 sn) = true /\ entry_eqb b (s_e1 sn) = true /\ log n' = a :: b :: r) /\
  (snap_kept sn (log n) = false -> log n' = [s_e0 sn; s_e1 sn]) /\
  (smem from (tconn n') = true ->
     In (Send from (NextIdx (term n') (eidx (s_e1 sn) + 1) false true)) (outs s')).
Proof.
  intros Ht Hr Hv Ha. cbv zeta.
  unfold on_message. rewrite on_append_entries_eq. cbn [nd start_S].
  destruct (t <? term n) eqn:Et; [apply N.ltb_lt in Et; lia|].
  set (s0 := ae_pre e from t c (start_S e n)).
  assert (A0 : applied (nd s0) = applied n) by (apply (fr_ae_pre applied); frs).
  assert (L0 : sr (nd s0) = sr n) by (apply (fr_ae_pre sr); frs).
  assert (V0 : self_ver (nd s0) = self_ver n) by (apply (fr_ae_pre self_ver); frs).
  assert (G0 : log (nd s0) = log n) by (apply (fr_ae_pre log); frs).
  clearbody s0. unfold ae_body_of.
  rewrite <- L0 in Hr.
  assert (Hah : snap_ahead (Good sn) (applied (nd s0)) = true)
    by (cbn; rewrite A0; apply negb_true_iff, N.leb_gt; exact Ha).
  destruct (set_transmission_recv p s0 _ Hr Hah) as [Hd Hst].
  pose proof (fr_set_transmission applied) as F1. specialize (F1 ltac:(frs) p s0).
  pose proof (fr_set_transmission self_ver) as F2. specialize (F2 ltac:(frs) p s0).
  pose proof (fr_set_transmission log) as F3. specialize (F3 ltac:(frs) p s0).
  destruct (set_transmission p s0) as [s2 dn]. cbn [fst snd] in *. subst dn.
  assert (Hok : load_dump_ok s2 = true).
  { unfold load_dump_ok. rewrite Hst, F1, A0, F2, V0.
    apply andb_true_intro. split; [apply negb_true_iff, N.leb_gt; exact Ha|apply N.leb_le; exact Hv]. }
  rewrite Hok. cbn [andb].
  assert (Hb : true && (eidx (s_e1 sn) <=? applied (nd s2)) = false)
    by (cbn; apply N.leb_gt; now rewrite F1, A0).
  assert (Hv2 : s_ver sn <= self_ver (nd s2)) by now rewrite F2, V0.
  destruct (load_dump_loaded e true s2 sn Hst Hb Hv2) as [Hlg Hap].
  rewrite F3, G0 in Hlg.
  set (L := load_dump e true s2) in *.
  rewrite (fr_ae_commit applied), (fr_ae_commit log), (fr_ae_commit tconn), (fr_ae_commit term) by frs.
  rewrite !nd_send_next_idx, outs_ae_commit. rewrite Hap.
  split; [reflexivity|]. split; [|split].
  - intros Hk. rewrite Hk in Hlg. destruct (snap_kept_split sn _ Hk) as (pre & a & b & r & H1 & H2 & H3 & H4).
    split; [exact Hlg|]. exists pre, a, b, r. rewrite Hlg. auto.
  - intros Hk. now rewrite Hk in Hlg.
  - intros Hc. unfold send_next_idx, send. rewrite Hc. cbn. apply in_or_app. right. now left.
Qed.
