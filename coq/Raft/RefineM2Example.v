(* Tier CM2, part 12: non-vacuity.  Three voters {1,2,3}; node 1 leads term 1 (node 2 receives nothing); the new
   voter 4 is added (entry 3), entry 4 is committed by {1,3,4}; node 1 compacts its log behind the membership
   entry (snapshot at index 4 with member set [1;2;3;4], first index 3); the lagging voter 2 rejects, gets the
   snapshot, installs it and ends with the member table [1;3;4]; then node 2 runs into its election timeout and
   wins term 2 with the votes of 3 and 4 (3 of the 4 members).  Every hypothesis of the Tier CM2 theorems holds
   of the run (vm_compute). *)
From Coq Require Import ZArith NArith List Bool Lia.
From RecordUpdate Require Import RecordSet.
From PSO Require Import Raft.Types Raft.Node Raft.Net Raft.Obs.
From PSO Require Raft.RefineM2Finding.
From PSO Require Import Raft.ProofsElectionBase Raft.ProofsElectionGhost Raft.ProofsMembership Raft.RefineMAbs Raft.RefineMMain Raft.RefineM2Abs Raft.RefineM2Main
  Raft.RefineM2Final.
Import ListNotations.
Import RecordSetNotations.
Open Scope N_scope.

Definition x_conf : conf := mkConf 10 40 20 1000 1000 100 true true true 1000 100000 10 5 false false.
Definition x_V : list nid := [1; 2; 3].
Definition x_mf : N -> N -> N * N := fun _ _ => (1, 10).
Definition x_add4 : cmd := mkCmd 2 1 4 1 10.
Definition x_cmd (k : N) : cmd := mkCmd 0 k 0 1 10.
Definition xT (z : Z) (n : N) : event := ETick n z 0 30 [] 9.
Definition xD (z : Z) (a b : N) : event := EDeliver a b z 0 [].
Definition xconn (a b : N) : list event := [EConnect a b; EConnect b a].

Definition x_trace1 : list event :=
  [ERestart 1 [2;3] 0 0 1; ERestart 2 [1;3] 0 0 1; ERestart 3 [1;2] 0 0 1] ++
  xconn 1 2 ++ xconn 1 3 ++ xconn 2 3 ++
  [xT 50 1; ELose 1 2 1; xD 51 1 3; xD 52 3 1; ELose 1 2 1; xD 53 1 3; xD 54 3 1; xT 61 1;
   ERestart 4 [1;2;3] 62 0 1] ++ xconn 4 1 ++ xconn 4 2 ++ xconn 4 3 ++
  [EAdmin 1 x_add4 20; xT 63 1; ELose 1 2 1; xD 64 1 3; xD 65 3 1;
   xT 74 1; ELose 1 2 1; xD 75 1 3; xD 75 1 4; xD 76 3 1; xD 76 4 1;
   xT 85 1; ELose 1 2 1; xD 86 1 3; xD 86 1 4; xD 87 3 1; xD 87 4 1; xT 88 1;
   ESubmit 1 (x_cmd 7) 21; xT 89 1; xT 96 1; ELose 1 2 1; xD 97 1 3; xD 97 1 4; xD 98 3 1; xD 98 4 1; xT 99 1;
   ECompact 1; xT 100 1; xT 101 1].
Definition x_trace2 : list event :=
  [xT 107 1; xD 108 1 2; xD 109 2 1; ELose 1 3 1; ELose 1 4 1;
   xT 118 1; ELose 1 3 1; ELose 1 4 1; xD 119 1 2; xD 119 1 2].
Definition x_trace3 : list event :=
  [ELose 1 2 5; ELose 2 1 5; xT 170 2; ELose 2 1 1; xD 171 2 3; xD 171 2 4; xD 172 3 2; xD 172 4 2].
Definition x_trace : list event := x_trace1 ++ x_trace2 ++ x_trace3.

Example x_in_fragment : core_fragM2 x_conf x_mf x_V x_trace.
Proof. repeat split; vm_compute; reflexivity. Qed.

Definition xlog (x : node) := map (fun e => (eidx e, eterm e, ck (ecmd e), cb (ecmd e))) (log x).

Example x_runs :
  exists g1 g2 g3 l1 m2 sn k1 k2 k3 k4,
    run_trace x_conf ginit x_trace1 = Some g1 /\ run_trace x_conf g1 x_trace2 = Some g2 /\
    run_trace x_conf g2 x_trace3 = Some g3 /\ run_trace x_conf ginit x_trace = Some g3 /\
    (* after the change and the compaction: leader 1 has cut its log behind the membership entry (index 3) *)
    aget 1 (nodes g1) = Some l1 /\ role l1 = LEADER /\ others l1 = [2; 3; 4] /\ commit l1 = 4 /\
    xlog l1 = [(3, 1, 2, 4); (4, 1, 0, 0)] /\
    stored (sr l1) = Some (Good sn) /\ eidx (s_e1 sn) = 4 /\ s_cluster sn = [1; 2; 3; 4] /\
    (* the lagging voter 2 has installed the snapshot: member table from the snapshot *)
    aget 2 (nodes g2) = Some m2 /\ others m2 = [1; 3; 4] /\ applied m2 = 4 /\ xlog m2 = [(3, 1, 2, 4); (4, 1, 0, 0)] /\
    (* the later election under that member set: 2 leads term 2, elected by {2,3,4} of {1,2,3,4} *)
    aget 1 (nodes g3) = Some k1 /\ aget 2 (nodes g3) = Some k2 /\ aget 3 (nodes g3) = Some k3 /\ aget 4 (nodes g3) = Some k4 /\
    role k2 = LEADER /\ term k2 = 2 /\ votes k2 = 3 /\ others k2 = [1; 3; 4] /\
    voted k3 = Some 2 /\ voted k4 = Some 2 /\ term k1 = 1.
Proof.
  do 10 eexists.
  split; [vm_compute; reflexivity|]. split; [vm_compute; reflexivity|]. split; [vm_compute; reflexivity|].
  split; [vm_compute; reflexivity|]. split; [vm_compute; reflexivity|].
  split; [vm_compute; reflexivity|]. split; [vm_compute; reflexivity|]. split; [vm_compute; reflexivity|].
  split; [vm_compute; reflexivity|]. split; [vm_compute; reflexivity|].
  vm_compute. repeat split; reflexivity.
Qed.

(* the theorems apply to the run *)
Example x_members_instance :
  forall g m2, run_trace x_conf ginit (x_trace1 ++ x_trace2) = Some g -> aget 2 (nodes g) = Some m2 ->
    exists full, suffix_of (log m2) full /\ others m2 = fold_members (vminus 2 x_V) full (Some 2).
Proof.
  intros g m2 Hr H2.
  assert (F : core_fragM2 x_conf x_mf x_V (x_trace1 ++ x_trace2)) by (repeat split; vm_compute; reflexivity).
  destruct F as (A & B & C & D & E).
  destruct (TierCM2_members_follow_log x_conf x_mf x_V _ g 2 m2 A B C D E Hr H2 eq_refl) as (full & P & Q & _).
  eauto.
Qed.

Example x_one_leader_instance :
  forall g a b xa xb, run_trace x_conf ginit x_trace = Some g ->
    aget a (nodes g) = Some xa -> aget b (nodes g) = Some xb -> a < RO_BASE -> b < RO_BASE ->
    role xa = LEADER -> role xb = LEADER -> term xa = term xb -> a = b.
Proof.
  intros g a b xa xb Hr. destruct x_in_fragment as (A & B & C & D & E).
  apply (TierCM2_one_leader_per_term x_conf x_mf x_V x_trace g a b xa xb A B C D E Hr).
Qed.

(* what the fragment excludes (KF-C10-3): run B of RefineM2Finding.v is rejected, and exactly by [snap_ok]:
   up to the tick in which node 5 takes its snapshot (event 89 = tick 155 of node 5) every check holds *)
Example x_finding_run_not_in_fragment :
  run_okM2 RefineM2Finding.fc x_mf RefineM2Finding.fV ginit [] RefineM2Finding.finding_trace = false /\
  run_okM2 RefineM2Finding.fc x_mf RefineM2Finding.fV ginit [] (firstn 89 RefineM2Finding.finding_trace) = true /\
  nth_error RefineM2Finding.finding_trace 89 = Some (RefineM2Finding.T 155 5) /\
  run_okM2 RefineM2Finding.fc x_mf RefineM2Finding.fV ginit [] (firstn 90 RefineM2Finding.finding_trace) = false.
Proof. repeat split; vm_compute; reflexivity. Qed.
