(* C05, elections resolve, part 3: the vote.  A member whose log is not more up to date grants its vote
   (C05_vote_granted); a candidate counts the votes and the one that completes a majority makes it
   leader, which sends append_entries to every connected member at once (C05_majority_elects); a
   rival's request and a late vote change nothing; the first append_entries of the new term tells a
   member who the leader is. *)
From Coq Require Import ZArith NArith List Bool Lia.
From RecordUpdate Require Import RecordSet.
From PSO Require Import Raft.Types Raft.Node Raft.Net Raft.ProofsSnapshotBase Raft.ProofsCommitBase
  Raft.ProofsProgressElectBase Raft.ProofsProgressElectTick.
Import ListNotations.
Import RecordSetNotations.
Open Scope N_scope.

(* ---------- C05_vote_granted ---------- *)
(* the model's comparison in the RequestVote handler: (llt, lli) is at least as up to date as n's log *)
Definition log_ok_for (lli llt : N) (n : node) : Prop :=
  last_term (log n) < llt \/ (last_term (log n) = llt /\ last_idx (log n) <= lli).

Lemma vote_granted e from t lli llt ny :
  self ny <> None ->
  (term ny < t \/ (term ny = t /\ role ny = FOLLOWER /\ voted ny = None)) ->
  log_ok_for lli llt ny -> smem from (tconn ny) = true ->
  let s := on_message e from (RequestVote t lli llt) ny in
  self (nd s) = self ny /\ others (nd s) = others ny /\ tconn (nd s) = tconn ny /\ log (nd s) = log ny /\
  role (nd s) = FOLLOWER /\ term (nd s) = t /\ voted (nd s) = Some from /\
  leader (nd s) = (if term ny <? t then None else leader ny) /\
  wire (outs s) = [Send from (ResponseVote t)].
Proof.
  intros Hs Ht Hl Hc. cbv zeta. unfold on_message. cbn [nd start_S].
  destruct (self ny) as [me|] eqn:Es; [|congruence].
  assert (B1 : llt <? last_term (log ny) = false) by (apply N.ltb_ge; destruct Hl as [H|[H _]]; lia).
  assert (B2 : (llt =? last_term (log ny)) && (lli <? last_idx (log ny)) = false).
  { destruct Hl as [H|[H1 H2]].
    - assert (E : llt =? last_term (log ny) = false) by (apply N.eqb_neq; lia). rewrite E. reflexivity.
    - assert (E : lli <? last_idx (log ny) = false) by (apply N.ltb_ge; lia). rewrite E. apply andb_false_r. }
  match goal with |- context [role (nd ?a) =? FOLLOWER] => set (s1 := a) end.
  assert (F1 : self (nd s1) = Some me /\ others (nd s1) = others ny /\ tconn (nd s1) = tconn ny /\
               log (nd s1) = log ny /\ role (nd s1) = FOLLOWER /\ term (nd s1) = t /\ voted (nd s1) = None /\
               leader (nd s1) = (if term ny <? t then None else leader ny) /\ wire (outs s1) = []).
  { subst s1. destruct Ht as [Ht|(Ht & Hr & Hv)].
    - assert (B0 : term ny <? t = true) by (apply N.ltb_lt; exact Ht). rewrite B0.
      unfold set_role. cbv zeta. cbn. destruct (role ny =? FOLLOWER); cbn; auto 10.
    - assert (B0 : term ny <? t = false) by (apply N.ltb_ge; lia). rewrite B0. cbn. auto 10. }
  clearbody s1. destruct F1 as (A1 & A2 & A3 & A4 & A5 & A6 & A7 & A8 & A9).
  rewrite A5, A6, A4, A7, N.leb_refl, B1, B2. cbn [N.eqb orb].
  unfold send. rewrite nd_upd. cbn [tconn set]. rewrite A3, Hc.
  cbn. rewrite wire_app, A9. cbn. auto 10.
Qed.

(* a candidate that has voted for itself refuses a rival of its own term, silently *)
Lemma rival_request_ignored e from t lli llt nx v :
  self nx <> None -> term nx = t -> voted nx = Some v ->
  on_message e from (RequestVote t lli llt) nx = start_S e nx.
Proof.
  intros Hs Ht Hv. unfold on_message. cbn [nd start_S].
  destruct (self nx) as [me|]; [|congruence].
  assert (B0 : term nx <? t = false) by (apply N.ltb_ge; lia). rewrite B0.
  cbn [nd start_S]. rewrite Hv.
  repeat match goal with |- context [if ?b then _ else _] => destruct b end; reflexivity.
Qed.

(* a vote that does not fit (not a candidate any more, or another term) is dropped *)
Lemma late_vote_ignored e from t nx :
  (role nx <> CANDIDATE \/ t <> term nx) -> on_message e from (ResponseVote t) nx = start_S e nx.
Proof.
  intros H. unfold on_message. cbn [nd start_S].
  destruct ((role nx =? CANDIDATE) && (t =? term nx)) eqn:E; [|reflexivity].
  apply andb_true_iff in E as [E1 E2]. apply N.eqb_eq in E1, E2. destruct H; congruence.
Qed.

(* a vote that does not complete a majority is counted and nothing else happens *)
Lemma vote_counted e from nx :
  role nx = CANDIDATE -> majority (votes nx + 1) nx = false ->
  on_message e from (ResponseVote (term nx)) nx = upd (fun n => n <| votes := votes n + 1 |>) (start_S e nx).
Proof.
  intros Hr Hm. unfold on_message. cbn [nd start_S]. rewrite Hr, !N.eqb_refl. cbn [andb].
  cbv zeta.
  assert (E : majority (votes (nd (upd (fun n => n <| votes := votes n + 1 |>) (start_S e nx))))
                       (nd (upd (fun n => n <| votes := votes n + 1 |>) (start_S e nx))) = false) by exact Hm.
  rewrite E. reflexivity.
Qed.

(* ---------- append_entries traffic of one term ---------- *)
Definition is_ae (T : N) (m : msg) : bool :=
  match m with
  | AE t _ _ _ => t =? T
  | AEPiece t _ _ _ _ _ _ => t =? T
  | AESnap t _ _ => t =? T
  | _ => false
  end.

Definition ae_out (T : N) (o : out) : Prop :=
  match o with Send _ m => is_ae T m = true | TDrop _ => False | _ => True end.

Lemma sent_to_app_nonempty d a b : sent_to d a <> [] \/ sent_to d b <> [] -> sent_to d (a ++ b) <> [].
Proof.
  rewrite sent_to_app. intros [H|H] E; apply app_eq_nil in E as [E1 E2]; contradiction.
Qed.

Lemma outs_delta_read e s : outs (delta_read e s) = outs s /\ exc (delta_read e s) = exc s.
Proof. unfold delta_read. cbv zeta. destruct (_ && _); cbn; auto. Qed.

Lemma send_pieces_spec T z en prev b : forall fuel pos s,
  term (nd s) = T ->
  let s' := send_pieces fuel z en prev b pos s in
  nd s' = nd s /\ exc s' = exc s /\
  exists add, outs s' = outs s ++ add /\ Forall (ae_out T) add /\
    ((1 <= fuel)%nat -> pos < psize en -> smem z (tconn (nd s)) = true -> sent_to z add <> []).
Proof.
  induction fuel as [|f IH]; intros pos s Ht; cbn [send_pieces]; cbv zeta.
  - repeat split; auto. exists []. rewrite app_nil_r. repeat split; auto. intros; lia.
  - destruct (psize en <=? pos) eqn:Ep.
    + repeat split; auto. exists []. rewrite app_nil_r. repeat split; auto.
      intros _ Hp. apply N.leb_le in Ep. lia.
    + match goal with |- context [send z ?m s] => set (M := m) end.
      assert (Ht1 : term (nd (send z M s)) = T) by (rewrite nd_send; exact Ht).
      destruct (IH (pos + b) (send z M s) Ht1) as (I1 & I2 & add & I3 & I4 & _). cbv zeta in I1, I2, I3.
      rewrite I1, I2, nd_send, exc_send. repeat split; auto.
      unfold send in I3 |- *. destruct (smem z (tconn (nd s))) eqn:Ec.
      * exists (Send z M :: add). rewrite I3. cbn. rewrite <- app_assoc. repeat split; auto.
        -- constructor; auto. subst M. cbn. rewrite Ht. apply N.eqb_refl.
        -- intros _ _ _. cbn. rewrite N.eqb_refl. discriminate.
      * exists add. rewrite I3. repeat split; auto. intros _ _ Hc. discriminate.
Qed.

Lemma send_spec T z m s :
  term (nd s) = T -> is_ae T m = true ->
  exists add, outs (send z m s) = outs s ++ add /\ Forall (ae_out T) add /\
    (smem z (tconn (nd s)) = true -> sent_to z add <> []).
Proof.
  intros Ht Hm. unfold send. destruct (smem z (tconn (nd s))).
  - exists [Send z m]. repeat split; auto. intros _. cbn. rewrite N.eqb_refl. discriminate.
  - exists []. rewrite app_nil_r. repeat split; auto. discriminate.
Qed.

(* ---------- the log of a fresh leader ---------- *)
Lemma first_idx_app1 L en : L <> [] -> first_idx (L ++ [en]) = first_idx L.
Proof. destruct L; [congruence|reflexivity]. Qed.

Lemma last_idx_app1 L en : last_idx (L ++ [en]) = eidx en.
Proof. unfold last_idx. rewrite last_entry_app1. reflexivity. Qed.

Lemma wf_span L : log_wf L -> L <> [] -> last_idx L + 1 = first_idx L + N.of_nat (length L).
Proof. intros H Hn. apply consec_last_idx; auto. Qed.

Lemma get_noop L en b :
  log_wf L -> L <> [] -> eidx en = last_idx L + 1 ->
  get_entries (L ++ [en]) (Some (last_idx L + 1)) None (Some b) = [en].
Proof.
  intros Hw Hn He. unfold get_entries. rewrite first_idx_app1 by exact Hn.
  pose proof (wf_span L Hw Hn) as Hs.
  assert (Hlen : (1 <= length L)%nat) by (destruct L; [congruence|cbn; lia]).
  destruct (last_idx L + 1 <? first_idx L) eqn:E; [apply N.ltb_lt in E; lia|].
  replace (N.to_nat (last_idx L + 1 - first_idx L)) with (length L) by lia.
  rewrite skipn_app_exact. cbn. destruct (b <=? csz (ecmd en)); reflexivity.
Qed.

Lemma ae_loop_S f e start x single ser_ s :
  ae_loop (Datatypes.S f) e start x single ser_ s =
  match aget x (next_idx (nd s)) with
  | None => raise EXC_KEY s
  | Some next =>
    if (next <=? last_idx (log (nd s))) || single || ser_ then
      let (s, ser') := ae_body e x next s in
      if ok s then
        let s := delta_read e s in
        if (period (cf e) <? tnow s - start)%Z then s
        else ae_loop f e start x false ser' s
      else s
    else s
  end.
Proof. reflexivity. Qed.

(* ---------- the send loop towards one member, right after the no-op was appended ---------- *)
Section OneTarget.
Variables (e : env) (T : N) (L : list entry) (en : entry).
Hypothesis HLwf : log_wf L.
Hypothesis HLne : L <> [].
Hypothesis Hen : eidx en = last_idx L + 1.
Hypothesis Hps : 0 < psize en.

Let k := last_idx L + 1.

Definition nxt_ok (s : S) (z : nid) : Prop :=
  exists nx, aget z (next_idx (nd s)) = Some nx /\ (nx = k \/ nx = k + 1).

Lemma ae_loop_target fuel start z s :
  (2 <= fuel)%nat -> log (nd s) = L ++ [en] -> term (nd s) = T -> exc s = 0 -> nxt_ok s z ->
  let s' := ae_loop fuel e start z true false s in
  exc s' = 0 /\
  (forall w, aget w (next_idx (nd s')) = if w =? z then Some (k + 1) else aget w (next_idx (nd s))) /\
  exists add, outs s' = outs s ++ add /\ Forall (ae_out T) add /\
    (smem z (tconn (nd s)) = true -> sent_to z add <> []).
Proof.
  intros Hf Hlog Ht Hx (nx & Hnx & Hk). cbv zeta.
  destruct fuel as [|[|f]]; try lia.
  rewrite ae_loop_S. rewrite Hnx. rewrite orb_true_r. cbn [orb].
  pose proof (wf_span L HLwf HLne) as Hsp.
  assert (Hlen : (1 <= length L)%nat) by (destruct L; [congruence|cbn; lia]).
  assert (Hli : last_idx (log (nd s)) = k) by (rewrite Hlog, last_idx_app1; exact Hen).
  assert (Hfi : first_idx (log (nd s)) = first_idx L) by (rewrite Hlog; apply first_idx_app1; exact HLne).
  (* the body *)
  assert (B : exists s1 ser', ae_body e z nx s = (s1, ser') /\ ser' = false /\ exc s1 = 0 /\
                log (nd s1) = L ++ [en] /\
                (forall w, aget w (next_idx (nd s1)) = if w =? z then Some (k + 1) else aget w (next_idx (nd s))) /\
                exists add, outs s1 = outs s ++ add /\ Forall (ae_out T) add /\
                  (smem z (tconn (nd s)) = true -> sent_to z add <> [])).
  { unfold ae_body. cbv zeta. rewrite Hfi, Hli.
    assert (C1 : first_idx L <? nx = true) by (apply N.ltb_lt; subst k; lia). rewrite C1.
    destruct Hk as [Hk|Hk]; subst nx.
    - (* the no-op goes out *)
      rewrite N.leb_refl. subst k. rewrite Hlog, get_noop by auto.
      change (last_idx [en]) with (eidx en).
      match goal with |- context [upd ?f s] => set (s0 := upd f s) end.
      assert (N0 : forall w, aget w (next_idx (nd s0)) =
                             if w =? z then Some (last_idx L + 1 + 1) else aget w (next_idx (nd s))).
      { intros w. subst s0. rewrite nd_upd. cbn. rewrite pe_aget_aset, Hen. reflexivity. }
      assert (T0 : term (nd s0) = T) by exact Ht.
      assert (C0 : tconn (nd s0) = tconn (nd s)) by reflexivity.
      destruct (batch (cf e) <=? csz (ecmd en)).
      + match goal with |- context [send_pieces ?fu z en ?pv ?b 0 s0] =>
          destruct (send_pieces_spec T z en pv b fu 0 s0 T0) as (P1 & P2 & add & P3 & P4 & P5);
          cbv zeta in P1, P2, P3; set (s1 := send_pieces fu z en pv b 0 s0) in * end.
        exists s1, false. split; [reflexivity|]. split; [reflexivity|].
        rewrite P2, P1. split; [exact Hx|]. split; [exact Hlog|]. split; [exact N0|].
        exists add. split; [exact P3|]. split; [exact P4|].
        intros Hc. apply P5; [apply le_n_S, Nat.le_0_l | exact Hps | rewrite C0; exact Hc].
      + match goal with |- context [send z ?m s0] =>
          destruct (send_spec T z m s0 T0) as (add & P3 & P4 & P5); [cbn; rewrite Ht; apply N.eqb_refl|];
          set (s1 := send z m s0) in * end.
        exists s1, false. split; [reflexivity|]. split; [reflexivity|].
        subst s1. rewrite exc_send, nd_send. split; [exact Hx|]. split; [exact Hlog|]. split; [exact N0|].
        exists add. auto.
    - (* a heartbeat *)
      assert (C2 : k + 1 <=? k = false) by (apply N.leb_gt; lia). rewrite C2.
      match goal with |- context [send z ?m s] =>
        destruct (send_spec T z m s Ht) as (add & P3 & P4 & P5); [cbn; rewrite Ht; apply N.eqb_refl|];
        set (s1 := send z m s) in * end.
      exists s1, false. split; [reflexivity|]. split; [reflexivity|].
      subst s1. rewrite exc_send, nd_send. split; [exact Hx|]. split; [exact Hlog|]. split.
      + intros w. destruct (w =? z) eqn:E; auto. apply N.eqb_eq in E; subst w. exact Hnx.
      + exists add. auto. }
  destruct B as (s1 & ser' & Eb & -> & X1 & L1 & N1 & add & O1 & F1 & S1).
  rewrite Eb. unfold ok. rewrite X1. cbn [N.eqb].
  destruct (outs_delta_read e s1) as (D1 & D2).
  assert (Stop : ae_loop (Datatypes.S f) e start z false false (delta_read e s1) = delta_read e s1).
  { rewrite ae_loop_S. rewrite nd_delta_read, N1, N.eqb_refl, L1, last_idx_app1, Hen. fold k.
    assert (C2 : k + 1 <=? k = false) by (apply N.leb_gt; lia). rewrite C2. reflexivity. }
  assert (Fin : exc (delta_read e s1) = 0 /\
    (forall w, aget w (next_idx (nd (delta_read e s1))) = if w =? z then Some (k + 1) else aget w (next_idx (nd s))) /\
    exists add, outs (delta_read e s1) = outs s ++ add /\ Forall (ae_out T) add /\
      (smem z (tconn (nd s)) = true -> sent_to z add <> [])).
  { rewrite D2, D1, nd_delta_read. split; [exact X1|]. split; [exact N1|]. exists add. auto. }
  destruct (_ <? _)%Z; [exact Fin | rewrite Stop; exact Fin].
Qed.

(* ---------- the whole fan-out ---------- *)
Definition fan_inv (tg : list nid) (TC CN : list nid) (s : S) : Prop :=
  exc s = 0 /\ log (nd s) = L ++ [en] /\ term (nd s) = T /\ tconn (nd s) = TC /\ connected (nd s) = CN /\
  forall z, In z tg -> nxt_ok s z.

Definition fan_step (fuel : nat) (start : Z) (s : S) (x : nid) : S :=
  if ok s then
    if negb (smem x (connected (nd s))) then cancel_transmission x s
    else ae_loop fuel e start x true false s
  else s.

Definition keepE (n : node) := (log n, term n, tconn n, connected n).

Lemma fan_step_spec fuel start tg TC CN s z :
  (2 <= fuel)%nat -> fan_inv tg TC CN s -> In z tg ->
  fan_inv tg TC CN (fan_step fuel start s z) /\
  exists add, outs (fan_step fuel start s z) = outs s ++ add /\ Forall (ae_out T) add /\
    (smem z CN = true -> smem z TC = true -> sent_to z add <> []).
Proof.
  intros Hf (X & Lg & Tm & Tc & Cn & Nx) Hz. unfold fan_step, ok. rewrite X. cbn [N.eqb].
  rewrite Cn. destruct (smem z CN) eqn:Ec; cbn [negb].
  - destruct (ae_loop_target fuel start z s Hf Lg Tm X (Nx z Hz)) as (A1 & A2 & add & A3 & A4 & A5).
    cbv zeta in A1, A2, A3.
    pose proof (fr_ae_loop keepE) as K.
    specialize (K ltac:(reflexivity) ltac:(reflexivity) fuel e start z true false s).
    set (s' := ae_loop fuel e start z true false s) in *.
    unfold keepE in K. injection K as K1 K2 K3 K4.
    split.
    + unfold fan_inv. rewrite K1, K2, K3, K4. repeat split; auto.
      intros w Hw. destruct (Nx w Hw) as (nx & Hnx & Hk). unfold nxt_ok. rewrite A2.
      destruct (w =? z); [exists (k + 1); auto | exists nx; auto].
    + exists add. split; [exact A3|]. split; [exact A4|]. intros _ Hc. apply A5. rewrite Tc. exact Hc.
  - split.
    + unfold fan_inv, cancel_transmission. rewrite nd_upd. cbn. repeat split; auto.
    + exists []. rewrite app_nil_r. repeat split; auto. discriminate.
Qed.

Lemma fan_fold_spec fuel start tg TC CN : (2 <= fuel)%nat -> forall l s,
  incl l tg -> fan_inv tg TC CN s ->
  fan_inv tg TC CN (fold_left (fan_step fuel start) l s) /\
  exists add, outs (fold_left (fan_step fuel start) l s) = outs s ++ add /\ Forall (ae_out T) add /\
    forall y, In y l -> smem y CN = true -> smem y TC = true -> sent_to y add <> [].
Proof.
  intros Hf. induction l as [|z l IH]; intros s Hi Inv; cbn [fold_left].
  - split; auto. exists []. rewrite app_nil_r. split; [reflexivity|]. split; [constructor|]. intros y [].
  - destruct (fan_step_spec fuel start tg TC CN s z Hf Inv) as (I1 & add1 & O1 & F1 & S1).
    { apply Hi. left. reflexivity. }
    destruct (IH (fan_step fuel start s z)) as (I2 & add2 & O2 & F2 & S2); auto.
    { intros w Hw. apply Hi. right. exact Hw. }
    split; auto. exists (add1 ++ add2). rewrite O2, O1, <- app_assoc. split; auto. split.
    + apply Forall_app. auto.
    + intros y [<-|Hy] Hc Ht; apply sent_to_app_nonempty; [left|right]; auto.
Qed.

Lemma send_ae_fan s :
  let tg := targets e (nd s) in
  fan_inv tg (tconn (nd s)) (connected (nd s)) s ->
  fan_inv tg (tconn (nd s)) (connected (nd s)) (send_ae e s) /\
  others (nd (send_ae e s)) = others (nd s) /\ readonly (nd (send_ae e s)) = readonly (nd s) /\
  exists add, outs (send_ae e s) = outs s ++ add /\ Forall (ae_out T) add /\
    forall y, In y tg -> smem y (connected (nd s)) = true -> smem y (tconn (nd s)) = true -> sent_to y add <> [].
Proof.
  cbv zeta. intros Inv.
  pose proof (fr_send_ae (fun n => (others n, readonly n))) as K.
  specialize (K ltac:(reflexivity) ltac:(reflexivity) ltac:(reflexivity) e s). cbv beta in K.
  injection K as K1 K2. split; [|split; [exact K1|split; [exact K2|]]].
  - unfold send_ae. cbv zeta.
    match goal with |- context [fold_left _ _ ?s0] => set (s1 := s0) end.
    match goal with |- context [fold_left ?f _ s1] => set (F := f) end.
    assert (E : F = fan_step (Datatypes.S (N.to_nat (budget e) + length (targets e (nd s1)) + 1)) (tnow s1)) by reflexivity.
    rewrite E.
    assert (T1 : targets e (nd s1) = targets e (nd s)) by reflexivity.
    rewrite T1.
    apply fan_fold_spec; [lia | apply incl_refl |].
    destruct Inv as (X & Lg & Tm & Tc & Cn & Nx). subst s1. unfold fan_inv. repeat split; auto.
  - unfold send_ae. cbv zeta.
    match goal with |- context [fold_left _ _ ?s0] => set (s1 := s0) end.
    match goal with |- context [fold_left ?f _ s1] => set (F := f) end.
    assert (E : F = fan_step (Datatypes.S (N.to_nat (budget e) + length (targets e (nd s1)) + 1)) (tnow s1)) by reflexivity.
    rewrite E.
    assert (T1 : targets e (nd s1) = targets e (nd s)) by reflexivity.
    rewrite T1.
    assert (Inv1 : fan_inv (targets e (nd s)) (tconn (nd s)) (connected (nd s)) s1).
    { destruct Inv as (X & Lg & Tm & Tc & Cn & Nx). subst s1. unfold fan_inv. repeat split; auto. }
    assert (Hfu : forall a b, (2 <= Datatypes.S (a + b + 1))%nat) by (intros; lia).
    destruct (fan_fold_spec _ (tnow s1) _ _ _ (Hfu (N.to_nat (budget e)) (length (targets e (nd s))))
                (targets e (nd s)) s1 (incl_refl _) Inv1) as (_ & add & O & Fa & Sa).
    exists add. split; [exact O|]. split; auto.
Qed.

End OneTarget.

(* ---------- who is sent to ---------- *)
Lemma targets_sub e n z : In z (targets e n) -> smem z (sunion (others n) (readonly n)) = true.
Proof.
  unfold targets. destruct (is_perm (order e) (sunion (others n) (readonly n))) eqn:P.
  - unfold is_perm in P. apply andb_true_iff in P as [P _]. apply andb_true_iff in P as [_ P].
    intros Hz. rewrite forallb_forall in P. apply P. exact Hz.
  - apply pe_smem_In.
Qed.

Lemma targets_others e n y : In y (others n) -> In y (targets e n).
Proof.
  intros Hy.
  assert (Hu : smem y (sunion (others n) (readonly n)) = true).
  { rewrite pe_smem_sunion. apply orb_true_iff. left. apply pe_smem_In. exact Hy. }
  unfold targets. destruct (is_perm (order e) (sunion (others n) (readonly n))) eqn:P.
  - unfold is_perm in P. apply andb_true_iff in P as [_ P]. rewrite forallb_forall in P.
    apply pe_smem_In. apply P. apply pe_smem_In. exact Hu.
  - apply pe_smem_In. exact Hu.
Qed.

Lemma targets_eq e n n' : others n = others n' -> readonly n = readonly n' -> targets e n = targets e n'.
Proof. intros H1 H2. unfold targets. rewrite H1, H2. reflexivity. Qed.

(* ---------- __onBecomeLeader ---------- *)
Definition keepL (n : node) := (self n, others n, readonly n, connected n, tconn n, term n, voted n, votes n, log n).

Lemma lead_fold now U : forall n,
  let f := fun (n : node) (x : nid) =>
     n <| next_idx := aset x (last_idx (log n) + 1) (next_idx n) |>
       <| match_idx := aset x 0 (match_idx n) |>
       <| last_resp := aset x now (last_resp n) |>
       <| sr := (sr n) <| trans := adel x (trans (sr n)) |> |> in
  keepL (fold_left f U n) = keepL n /\
  forall z, aget z (next_idx (fold_left f U n)) =
            if smem z U then Some (last_idx (log n) + 1) else aget z (next_idx n).
Proof.
  cbv zeta. induction U as [|x U IH]; intros n; cbn [fold_left smem].
  - auto.
  - match goal with |- context [fold_left ?f U ?n1] => destruct (IH n1) as [I1 I2] end.
    split.
    + rewrite I1. reflexivity.
    + intros z. rewrite I2. cbn. rewrite pe_aget_aset.
      destruct (z =? x); cbn; destruct (smem z U); reflexivity.
Qed.

Lemma psize_noop pk i t : 0 < pk -> 0 < psize (mkEntry (noop_cmd pk) i t).
Proof.
  intros H. unfold psize, int_size. cbn.
  destruct (i <? 256); destruct (t <? 256); destruct (i <? 65536); destruct (t <? 65536); lia.
Qed.

Lemma Forall_ae_out_weak T add : Forall (ae_out T) add ->
  no_tdrop add /\ forall d m, In m (sent_to d add) -> is_ae T m = true.
Proof.
  intros H. rewrite Forall_forall in H. split.
  - intros z Hz. apply (H _ Hz).
  - intros d m Hm. unfold sent_to in Hm. apply in_flat_map in Hm as (o & Ho & Hm).
    destruct o as [d' m'| | | |]; try destruct Hm.
    destruct (d' =? d); [|destruct Hm]. destruct Hm as [<-|[]]. apply (H _ Ho).
Qed.

Lemma become_leader_sends e s :
  exc s = 0 -> log_wf (log (nd s)) -> log (nd s) <> [] -> 0 < noop_pk (cf e) ->
  let s' := become_leader e s in
  exists add, outs s' = outs s ++ add /\ Forall (ae_out (term (nd s))) add /\
    forall y, In y (others (nd s)) -> smem y (connected (nd s)) = true -> smem y (tconn (nd s)) = true ->
              sent_to y add <> [].
Proof.
  intros Hx Hw Hn Hpk. cbv zeta. unfold become_leader. cbv zeta.
  set (T := term (nd s)). set (L := log (nd s)) in *.
  set (en := mkEntry (noop_cmd (noop_pk (cf e))) (last_idx L + 1) T).
  match goal with |- context [(_ ;; _) ?s0] => set (sE := s0) end.
  assert (HE : exc sE = 0 /\ keepL (nd sE) = (self (nd s), others (nd s), readonly (nd s), connected (nd s),
                 tconn (nd s), T, voted (nd s), votes (nd s), L ++ [en]) /\
               (exists add0, outs sE = outs s ++ add0 /\ Forall (ae_out T) add0) /\
               forall z, smem z (sunion (others (nd s)) (readonly (nd s))) = true ->
                         aget z (next_idx (nd sE)) = Some (last_idx L + 1)).
  { subst sE.
    set (sB := set_role LEADER (upd (fun n => n <| leader := self n |>) s)).
    assert (HB : exc sB = 0 /\ keepL (nd sB) = keepL (nd s) /\
                 exists add0, outs sB = outs s ++ add0 /\ Forall (ae_out T) add0).
    { subst sB. unfold set_role. cbv zeta. destruct (_ =? _); cbn.
      - repeat split; auto. exists []. rewrite app_nil_r. auto.
      - repeat split; auto. eexists. split; [reflexivity|]. constructor; [exact I|constructor]. }
    clearbody sB. destruct HB as (B1 & B2 & B3).
    set (sC := upd (fun n => n <| last_resp := [] |>) sB).
    assert (HC : exc sC = 0 /\ keepL (nd sC) = keepL (nd s) /\ outs sC = outs sB) by (subst sC; cbn; auto).
    clearbody sC. destruct HC as (C1 & C2 & C3).
    rewrite !nd_upd.
    match goal with |- context [fold_left ?f ?U (nd sC)] =>
      destruct (lead_fold (tnow sC) U (nd sC)) as [D1 D2]; cbv zeta in D1, D2;
      set (nD := fold_left f U (nd sC)) in * end.
    pose proof (D1 : keepL nD = keepL (nd sC)) as D1'.
    pose proof (D2 : forall z, aget z (next_idx nD) =
                      if smem z (sunion (others (nd sC)) (readonly (nd sC)))
                      then Some (last_idx (log (nd sC)) + 1) else aget z (next_idx (nd sC))) as D2'.
    clear D1 D2. rename D1' into D1. rename D2' into D2.
    assert (KD : keepL nD = keepL (nd s)) by congruence.
    unfold keepL in KD. injection KD as k1 k2 k3 k4 k5 k6 k7 k8 k9.
    assert (KC : others (nd sC) = others (nd s) /\ readonly (nd sC) = readonly (nd s) /\ log (nd sC) = L).
    { unfold keepL in C2. injection C2. auto. }
    destruct KC as (c1 & c2 & c3).
    clearbody nD.
    split; [exact C1|]. split.
    - unfold log_add, keepL. cbn. rewrite k1, k2, k3, k4, k5, k6, k7, k8, k9. reflexivity.
    - split.
      + cbn. rewrite C3. exact B3.
      + intros z Hz. unfold log_add. cbn. rewrite D2, c1, c2, Hz, c3. reflexivity. }
  clearbody sE. destruct HE as (E1 & E2 & (add0 & E3 & E4) & E5).
  unfold keepL in E2. injection E2 as e1 e2 e3 e4 e5 e6 e7 e8 e9.
  assert (Hen : eidx en = last_idx L + 1) by reflexivity.
  assert (Hps : 0 < psize en) by (apply psize_noop; exact Hpk).
  assert (Inv : fan_inv T L en (targets e (nd sE)) (tconn (nd sE)) (connected (nd sE)) sE).
  { unfold fan_inv. repeat split; auto.
    intros z Hz. exists (last_idx L + 1). split; [|left; reflexivity].
    apply E5. apply targets_sub in Hz. rewrite e2, e3 in Hz. exact Hz. }
  destruct (send_ae_fan e T L en Hw Hn Hen Hps sE Inv) as (I1 & O1 & R1 & add1 & A1 & A2 & A3).
  assert (Hy : forall y, In y (others (nd s)) -> In y (targets e (nd sE))).
  { intros y H. apply targets_others. rewrite e2. exact H. }
  rewrite andthen_eq.
  destruct (use_batch (cf e)).
  - unfold ok. rewrite E1. cbn [N.eqb].
    exists (add0 ++ add1). rewrite A1, E3, <- app_assoc. split; [reflexivity|]. split; [apply Forall_app; auto|].
    intros y H1 H2 H3. apply sent_to_app_nonempty. right. apply A3; [auto | rewrite e4; exact H2 | rewrite e5; exact H3].
  - set (s1 := send_ae e sE) in *.
    assert (X1 : exc s1 = 0) by (destruct I1 as (X & _); exact X).
    unfold ok. rewrite X1. cbn [N.eqb].
    assert (T1 : tconn (nd s1) = tconn (nd sE)) by (destruct I1 as (_ & _ & _ & H & _); exact H).
    assert (C1 : connected (nd s1) = connected (nd sE)) by (destruct I1 as (_ & _ & _ & _ & H & _); exact H).
    assert (G1 : targets e (nd s1) = targets e (nd sE)) by (apply targets_eq; auto).
    assert (Inv1 : fan_inv T L en (targets e (nd s1)) (tconn (nd s1)) (connected (nd s1)) s1).
    { rewrite G1, T1, C1. exact I1. }
    destruct (send_ae_fan e T L en Hw Hn Hen Hps s1 Inv1) as (_ & _ & _ & add2 & A1' & A2' & A3').
    exists (add0 ++ add1 ++ add2). rewrite A1', A1, E3, <- !app_assoc. split; [reflexivity|].
    split; [apply Forall_app; split; [exact E4|apply Forall_app; split; assumption]|].
    intros y H1 H2 H3. apply sent_to_app_nonempty. right. apply sent_to_app_nonempty. left.
    apply A3; [auto | rewrite e4; exact H2 | rewrite e5; exact H3].
Qed.

(* C05_majority_elects *)
Lemma majority_elects e from nx me :
  self nx = Some me -> role nx = CANDIDATE -> majority (votes nx + 1) nx = true ->
  log_wf (log nx) -> log nx <> [] -> 0 < noop_pk (cf e) ->
  let s := on_message e from (ResponseVote (term nx)) nx in
  self (nd s) = Some me /\ others (nd s) = others nx /\ readonly (nd s) = readonly nx /\
  connected (nd s) = connected nx /\ tconn (nd s) = tconn nx /\
  role (nd s) = LEADER /\ term (nd s) = term nx /\ voted (nd s) = voted nx /\ leader (nd s) = Some me /\
  no_tdrop (outs s) /\
  (forall d m, In m (sent_to d (outs s)) -> is_ae (term nx) m = true) /\
  (forall y, In y (others nx) -> smem y (connected nx) = true -> smem y (tconn nx) = true ->
             sent_to y (outs s) <> []).
Proof.
  intros Hs Hr Hm Hw Hn Hpk. cbv zeta. unfold on_message. cbn [nd start_S].
  rewrite Hr, !N.eqb_refl. cbn [andb]. cbv zeta.
  set (s0 := upd (fun n => n <| votes := votes n + 1 |>) (start_S e nx)).
  assert (M0 : majority (votes (nd s0)) (nd s0) = true) by exact Hm.
  rewrite M0.
  destruct (become_leader_role e s0) as (R1 & R2 & R3).
  pose proof (fr_become_leader (fun n => (self n, others n, readonly n, connected n, tconn n, term n, voted n))) as F.
  specialize (F ltac:(reflexivity) ltac:(reflexivity) ltac:(reflexivity) ltac:(reflexivity) ltac:(reflexivity)
    ltac:(reflexivity) ltac:(reflexivity) ltac:(reflexivity) ltac:(reflexivity) e s0).
  cbv beta in F. injection F as F1 F2 F3 F4 F5 F6 F7.
  destruct (become_leader_sends e s0) as (add & A1 & A2 & A3); auto.
  set (s' := become_leader e s0) in *. clearbody s'.
  change (outs s0) with (@nil out) in A1. cbn [app] in A1.
  destruct (Forall_ae_out_weak _ _ A2) as (W1 & W2).
  rewrite A1, R1, R2, F1, F2, F3, F4, F5, F6, F7. cbn.
  repeat split; auto.
Qed.

(* ---------- the first append_entries of the new term ---------- *)
Definition fcore (n : node) := (self n, role n, term n, voted n, leader n).

Lemma ae_sets_leader e from m ny T :
  is_ae T m = true -> term ny <= T ->
  let s := on_message e from m ny in
  self (nd s) = self ny /\ role (nd s) = FOLLOWER /\ term (nd s) = T /\
  voted (nd s) = (if term ny <? T then None else voted ny) /\ leader (nd s) = Some from.
Proof.
  intros Hm Ht. cbv zeta.
  assert (G : forall t c, t = T ->
    fcore (nd (on_append_entries e from m t c (start_S e ny))) =
    (self ny, FOLLOWER, T, (if term ny <? T then None else voted ny), Some from)).
  { intros t c ->. rewrite on_append_entries_eq. cbn [nd start_S].
    assert (B : T <? term ny = false) by (apply N.ltb_ge; exact Ht). rewrite B.
    pose proof (fr_ae_body_of fcore) as F.
    rewrite F by (intros; reflexivity). clear F.
    unfold ae_pre. cbv zeta.
    match goal with |- context [upd (fun n => n <| leader := Some from |>) ?a] => set (s2 := a) end.
    assert (E2 : fcore (nd s2) = fcore ny).
    { subst s2. destruct (opt_eqb _ _); [reflexivity|].
      rewrite (fr_on_leader_changed fcore) by (intros; reflexivity). reflexivity. }
    clearbody s2. unfold fcore in E2. injection E2 as a1 a2 a3 a4 a5.
    rewrite nd_upd. cbn [nd upd term set].
    unfold set_role. cbv zeta.
    change (term (nd (upd (fun n => n <| leader := Some from |>) s2))) with (term (nd s2)).
    rewrite a3.
    destruct (term ny <? T) eqn:Et.
    - destruct (_ =? FOLLOWER); unfold fcore; cbn; rewrite a1; reflexivity.
    - assert (term ny = T) by (apply N.ltb_ge in Et; lia).
      destruct (_ =? FOLLOWER); unfold fcore; cbn; rewrite a1, a3, a4; congruence. }
  assert (Fin : fcore (nd (on_message e from m ny)) =
                (self ny, FOLLOWER, T, (if term ny <? T then None else voted ny), Some from)).
  { destruct m; try discriminate; cbn in Hm; apply N.eqb_eq in Hm; unfold on_message; cbv zeta; apply G; exact Hm. }
  unfold fcore in Fin. injection Fin. auto.
Qed.
