(* Tier CM2, part 4 (merge of Refine2TickA.v and RefineMTickA.v): the phases of _onTick for a voter with
   dynamic membership and compacted logs, first half: load, timers, election timeout, the leader's commit
   advance and fallback. *)
From Coq Require Import ZArith NArith List Bool Lia ZifyBool Arith PeanoNat.
From RecordUpdate Require Import RecordSet.
From PSO Require Import Raft.Types Raft.Node Raft.Net Raft.ProofsCommitBase Raft.ProofsCommit.
From PSO Require Import Raft.ProofsElectionBase Raft.ProofsMembership Raft.ProofsMembershipInv.
From PSO Require Import Raft.RefineMAbs Raft.RefineMEff Raft.RefineMCfg Raft.RefineMK Raft.RefineMSpecA Raft.RefineMTickA.
From PSO Require Import Raft.RefineM2Abs Raft.RefineM2SpecA Raft.RefineM2Sim.
From PSO Require AbstractM.Model AbstractM.Lib AbstractM.Kstep AbstractM.Cfg AbstractM.SafetyAll.
Import ListNotations.
Import RecordSetNotations.
Open Scope N_scope.
#[local] Arguments firstn : simpl nomatch.
#[local] Arguments skipn : simpl nomatch.

Section Tick.
Variable c : conf.
Variable mf : N -> N -> N * N.
Variable V : list nid.
Hypothesis NDV : NoDup V.
Hypothesis SV : ssorted V.
Hypothesis VNE : V <> [].
Hypothesis VRO : forall v, In v V -> v < RO_BASE.
Hypothesis Hb1 : 1 < batch c.
Hypothesis Hdyn : dyn c = true.
Hypothesis Hfd : file_dump c = false.
Variable e : env.
Hypothesis Hc : cf e = c.

Notation V' := (absV V).
Notation Rn := (Rn c mf V).
Notation Rmsg := (Rmsg c mf V).
Notation Ro := (Ro c mf V).
Notation Hn := (Hn c mf).
Notation ksn := (ksn V).
Notation LS := (LS c mf V).
Notation simf := (simf c mf V).
Notation pk := (pk c).
Notation small := (small c mf).
Set Default Proof Using "All".
Notation LS_full := (LS_full c mf V NDV SV VNE VRO Hb1).
Notation LS_up := (LS_up c mf V NDV SV VNE VRO Hb1).
Notation LS_ms := (LS_ms c mf V NDV SV VNE VRO Hb1).
Notation LS_sorted := (LS_sorted c mf V NDV SV VNE VRO Hb1).
Notation LS_cfg_len := (LS_cfg_len c mf V NDV SV VNE VRO Hb1).
Notation LS_not_self := (LS_not_self c mf V NDV SV VNE VRO Hb1).
Notation LS_in_cfg := (LS_in_cfg c mf V NDV SV VNE VRO Hb1).
Notation LS_oth_nodup := (LS_oth_nodup c mf V NDV SV VNE VRO Hb1).
Notation majority_abs := (majority_abs c mf V NDV SV VNE VRO Hb1).
Notation LS_stutter := (LS_stutter c mf V NDV SV VNE VRO Hb1).
Notation LS_stutter_w := (LS_stutter_w c mf V NDV SV VNE VRO Hb1).
Notation LS_same := (LS_same c mf V NDV SV VNE VRO Hb1).
Notation LS_ksn := (LS_ksn c mf V NDV SV VNE VRO Hb1).
Notation simf_andthen := (simf_andthen c mf V NDV SV VNE VRO Hb1).
Notation simf_stutter := (simf_stutter c mf V NDV SV VNE VRO Hb1).
Notation sim_ae_outs := (sim_ae_outs c mf V NDV SV VNE VRO Hb1 e Hc).
Notation sim_become_leader := (sim_become_leader c mf V NDV SV VNE VRO Hb1 e Hc).
Notation Rn_intro := (Rn_intro c mf V NDV SV VNE VRO Hb1).
Notation Rn_rv := (Rn_rv c mf V NDV SV VNE VRO Hb1).
Notation Hn_hv := (Hn_hv c mf V NDV SV VNE VRO Hb1).
Notation Rn_same_nodes := (Rn_same_nodes c mf V NDV SV VNE VRO Hb1).
Notation kall := (kall V NDV VNE).
Notation base_abs := (base_abs c mf V NDV SV VNE VRO Hb1).
Notation nth_abs := (nth_abs c mf V NDV SV VNE VRO Hb1).
Notation fold_rv_nd := (fold_rv_nd c V NDV SV VNE VRO Hb1 Hdyn Hfd e Hc).
Notation fold_rv_grow_in := (fold_rv_grow_in c V NDV SV VNE VRO Hb1 Hdyn Hfd e Hc).

(* outputs whose Send parts all have their image in net *)
Definition okout (n : nid) (s : M.state) (o : out) : Prop :=
  match o with Send d m => Rmsg n d m s | _ => True end.

Lemma grow_Ro (P : out -> Prop) n s (S S' : Node.S) : (forall o, P o -> okout n s o) -> grow P S S' ->
  exists new, outs S' = outs S ++ new /\ Ro n new s.
Proof.
  intros H (new & O & A). exists new. split; auto. intros d m Hin.
  rewrite Forall_forall in A. apply (H _ (A _ Hin)).
Qed.

Lemma nosend_okout n s o : nosend o -> okout n s o.
Proof. destruct o; cbn; auto. intros []. Qed.

Lemma LS_quiet n s (S S' : Node.S) : LS n s S -> fvm (nd S') = fvm (nd S) -> grow nosend S S' -> LS n s S'.
Proof.
  intros L F G. eapply LS_stutter; eauto.
  apply (grow_Ro nosend n s S S'); [intros o; apply nosend_okout|exact G].
Qed.

Definition hv0 (x : node) := (sr x, log x, queue x, replay_idx x, applied x, readonly x, commit x, others x).

Lemma Hn_hv0 x y : hv0 y = hv0 x -> pend y -> Hn x -> Hn y.
Proof.
  intros H P [A1 A2 A3 A4 A5 A6 A7 A8 A9 A10]. unfold hv0 in H. injection H as E1 E2 E3 E4 E5 E6 E7 E8.
  constructor; rewrite ?E1, ?E2, ?E3, ?E4, ?E5, ?E6, ?E7, ?E8; auto.
Qed.

(* ---- tick_load, tick_timer, tick_ready ---- *)
Lemma LS_tick_load n S s : LS n s S -> LS n s (tick_load e S).
Proof.
  intros L. unfold tick_load.
  rewrite Hc, Hfd, andb_false_r. apply (LS_quiet n s S); [exact L|reflexivity|apply grow_upd].
Qed.

Lemma sim_tick_load n : simf n (tick_load e).
Proof. intros S s L. exists s. split; [constructor|apply LS_tick_load; exact L]. Qed.

Lemma LS_tick_timer n S s : LS n s S -> LS n s (tick_timer e S).
Proof.
  intros L. unfold tick_timer.
  destruct (_ <? _)%Z; [|exact L]. apply (LS_quiet n s S); [exact L|reflexivity|apply grow_upd].
Qed.

Lemma sim_tick_timer n : simf n (tick_timer e).
Proof. intros S s L. exists s. split; [constructor|apply LS_tick_timer; exact L]. Qed.

Lemma sim_tick_ready n : simf n tick_ready.
Proof.
  intros S s L. exists s. split; [constructor|]. unfold tick_ready.
  destruct (_ && _); [|exact L]. apply (LS_quiet n s S); [exact L|reflexivity|apply grow_upd].
Qed.

(* ---- send_ae by a leader ---- *)
Lemma fwm_send_ae S0 : fw (nd (send_ae e S0)) = fw (nd S0) -> fwm (nd (send_ae e S0)) = fwm (nd S0).
Proof.
  intros F. apply fwm_intro; [exact F|apply (fr_send_ae noop_idx); frs|apply (fr_send_ae change_idx); frs].
Qed.

Lemma LS_oth_cfg n s S : LS n s S ->
  forall d, In d (others (nd S)) -> In (n2 d) (M.cfg (n2 n) (M.nodes s (n2 n))) /\ d <> n.
Proof.
  intros L d Hd. split; [apply (LS_in_cfg _ _ _ _ L); exact Hd|].
  intros ->. apply (LS_not_self _ _ _ L). exact Hd.
Qed.

Lemma sim_send_ae n S s :
  LS n s S -> role (nd S) = LEADER -> exists s', ksn (n2 n) s s' /\ LS n s' (send_ae e S).
Proof.
  intros L Hr. destruct (LS_full _ _ _ L) as (full & EL & W & Sx & Smf & Hof).
  pose proof (LS_h _ _ _ _ _ _ L) as HH.
  assert (Sm : Forall (RefineMAbs.small (cf e)) (log (nd S))).
  { rewrite Hc. apply (Forall_small_old c mf). apply (H_small _ _ _ HH). }
  destruct (send_ae_spec e full S W Sx Sm) as (F & T & new & O & A).
  destruct (sim_ae_outs n (nd S) full new s) as (s1 & K1 & E1 & R1); auto.
  - apply (LS_reach _ _ _ _ _ _ L).
  - apply (LS_n _ _ _ _ _ _ L).
  - apply (LS_lt _ _ _ _ _ _ L).
  - apply (LS_oth_cfg _ _ _ L).
  - apply (H_ro _ _ _ HH).
  - exists s1. split; auto.
    pose proof (fwm_send_ae S F) as FM.
    fwinj_n F F.
    apply (LS_ksn n s s1 S); auto.
    + eapply Rn_rv; [apply fwm_rv; exact FM|exact T|].
      eapply Rn_same_nodes; eauto; [apply (LS_reach _ _ _ _ _ _ L)|apply (LS_n _ _ _ _ _ _ L)].
    + eapply Hn_hv; [apply fwm_hv; exact FM|exact HH].
    + rewrite Fself. apply (LS_self _ _ _ _ _ _ L).
    + exists new. auto.
Qed.

(* ---- the election timeout ---- *)
Lemma sim_tick_election n S s :
  LS n s S ->
  (term (nd (tick_election e S)) <> term (nd S) -> M.self_member V' (n2 n) (M.nodes s (n2 n)) = true) ->
  exists s', ksn (n2 n) s s' /\ LS n s' (tick_election e S).
Proof.
  intros L Htg.
  assert (Hmem : ((role (nd S) =? FOLLOWER) || (role (nd S) =? CANDIDATE)) &&
                 (deadline (nd S) <? tnow S)%Z && connected_to_anyone (nd S) = true ->
                 M.self_member V' (n2 n) (M.nodes s (n2 n)) = true).
  { intros G. apply Htg. unfold tick_election. rewrite (LS_self _ _ _ _ _ _ L), G. cbv zeta.
    match goal with |- context [if ?b then _ else _] => destruct b end;
      rewrite ?(fr_become_leader term) by frs; rewrite (fr_on_leader_changed term) by frs;
      rewrite fold_rv_nd, nd_upd, nd_set_role; cbn; lia. }
  clear Htg. revert Hmem.
  unfold tick_election. rewrite (LS_self _ _ _ _ _ _ L).
  destruct (_ && _) eqn:G; [|intros _; exists s; split; [constructor|exact L]].
  intros Hsm. specialize (Hsm eq_refl).
  apply andb_true_iff in G as [G _]. apply andb_true_iff in G as [G _].
  set (x := nd S) in *.
  set (s1 := upd (fun n0 => n0 <| deadline := (tnow S + gen_timeout e)%Z |> <| leader := None |>) S).
  set (s3 := upd (fun n0 => n0 <| term := term n0 + 1 |> <| voted := Some n |> <| votes := 1 |>)
                 (set_role CANDIDATE s1)).
  set (m := RequestVote (term (nd s3)) (last_idx (log (nd s3))) (last_term (log (nd s3)))).
  set (s4 := fold_left (fun s0 x0 => send x0 m s0) (others (nd s3)) s3).
  set (s5 := on_leader_changed s4).
  assert (N3 : nd s3 = x <| deadline := (tnow S + gen_timeout e)%Z |> <| leader := None |>
                         <| role := CANDIDATE |> <| term := term x + 1 |> <| voted := Some n |> <| votes := 1 |>).
  { unfold s3. rewrite nd_upd, nd_set_role. reflexivity. }
  assert (Hm : m = RequestVote (term x + 1) (last_idx (log x)) (last_term (log x))).
  { unfold m. rewrite N3. reflexivity. }
  assert (N5 : fvm (nd s5) = fvm (x <| role := CANDIDATE |> <| term := term x + 1 |> <| voted := Some n |> <| votes := 1 |>)).
  { unfold s5. rewrite olc_nd. unfold s4. rewrite fold_rv_nd, N3. reflexivity. }
  assert (G5 : grow (fun o => nosend o \/ exists d, In d (others x) /\ o = Send d m) S s5).
  { set (P := fun o => nosend o \/ exists d, In d (others x) /\ o = Send d m).
    assert (G1 : grow P S s1) by (unfold s1; apply grow_upd).
    assert (G2 : grow P s1 (set_role CANDIDATE s1)) by (apply grow_set_role; unfold P; auto).
    assert (G3 : grow P (set_role CANDIDATE s1) s3) by (unfold s3; apply grow_upd).
    assert (G4 : grow P s3 s4).
    { unfold s4. replace (others (nd s3)) with (others x) by (rewrite N3; reflexivity).
      apply fold_rv_grow_in. }
    assert (G6 : grow P s4 s5) by (unfold s5; apply olc_grow; unfold P; auto).
    eapply grow_trans; [exact G1|]. eapply grow_trans; [exact G2|]. eapply grow_trans; [exact G3|].
    eapply grow_trans; [exact G4|exact G6]. }
  clearbody s5. clear s4. rewrite Hm in G5. clear Hm. clear m. clear N3. clear s3. clear s1.
  pose proof (LS_n _ _ _ _ _ _ L) as RN. destruct (LS_full _ _ _ L) as (full & EL & W & Sx & Smf & Hof).
  pose proof (LS_up _ _ _ L) as Hj. fold x in RN, Sx, Hof.
  (* the L0 timeout *)
  assert (Hnl : M.rl (M.nodes s (n2 n)) <> M.Leader).
  { rewrite (Rn_role _ _ _ _ _ _ RN). intros Hx. apply absR_leader in Hx. rewrite Hx in G. discriminate. }
  destruct (t_timeout_ok V' (n2 n) s Hj Hnl Hsm) as [K E].
  set (s1 := t_timeout (n2 n) s) in *.
  assert (K1 : ksn (n2 n) s s1) by (apply ksn_one; auto).
  pose proof (fvm_fv _ _ N5) as N5'. pose proof (fvm_noop _ _ N5) as Fnoop. pose proof (fvm_change _ _ N5) as Fchg.
  cbn in Fnoop, Fchg.
  pose proof (fvm_trans _ _ N5) as Ft. cbn in Ft.
  fvinj_n N5' F.
  assert (RN1 : Rn n (nd s5) s1).
  { apply (Rn_intro n x (nd s5) s s1); auto.
    - apply (LS_reach _ _ _ _ _ _ L).
    - eapply ksn_kstar; eauto.
    - congruence.
    - apply tr_ok_same. exact Ft.
    - congruence.
    - rewrite Fcommit. lia.
    - unfold s1, t_timeout; cbn [M.nodes]; rewrite upd_eq; cbn [M.lf]. exact Hj.
    - unfold s1, t_timeout; cbn [M.nodes]; rewrite upd_eq; cbn [M.term]. rewrite Fterm, (Rn_term _ _ _ _ _ _ RN). lia.
    - unfold s1, t_timeout; cbn [M.nodes]; rewrite upd_eq; cbn [M.voted]. rewrite Fvoted. reflexivity.
    - unfold s1, t_timeout; cbn [M.nodes]; rewrite upd_eq; cbn [M.rl]. rewrite Frole. reflexivity.
    - unfold s1, t_timeout; cbn [M.nodes]; rewrite upd_eq; cbn [M.log]. rewrite Flog, Foth. exists full. auto.
    - unfold s1, t_timeout; cbn [M.nodes]; rewrite upd_eq; cbn [M.commit]. rewrite Fcommit. apply (Rn_commit _ _ _ _ _ _ RN).
    - intros _. unfold s1, t_timeout; cbn [M.nodes]; rewrite upd_eq; cbn [M.votesFrom]. rewrite Fvotes.
      split; [reflexivity|left; reflexivity].
    - intros f m0 Hf Hne Hg. unfold s1, t_timeout; cbn [M.nodes]; rewrite upd_eq; cbn [M.matchIdx].
      rewrite Fmatch in Hg. rewrite Foth in Hf. apply (Rn_match _ _ _ _ _ _ RN f m0 Hf Hne Hg).
    - intros _. unfold s1, t_timeout. cbn [M.grants]. left. rewrite Fterm, (Rn_term _ _ _ _ _ _ RN). f_equal. f_equal. lia.
    - intros Hx. rewrite Frole in Hx. discriminate. }
  assert (L5 : LS n s1 s5).
  { apply (LS_ksn n s s1 S); auto.
    - eapply Hn_hv0; [| |apply (LS_h _ _ _ _ _ _ L)]; [unfold hv0; fold x; congruence|].
      apply pend_not_leader. rewrite Frole. discriminate.
    - rewrite Fself. apply (LS_self _ _ _ _ _ _ L).
    - eapply grow_Ro; [|exact G5]. intros o [Ho|(d & Hd & ->)]; [apply nosend_okout; auto|].
      cbn. split; [apply (LS_lt _ _ _ _ _ _ L)|]. split.
      { intros <-. apply (LS_not_self _ _ _ L). exact Hd. }
      split.
      { unfold s1, t_timeout. cbn [M.net]. left.
        rewrite (Rn_term _ _ _ _ _ _ RN), EL, absL_length, absL_lastTerm.
        rewrite (suffix_last_idx _ _ Sx), (suffix_last_term _ _ Sx), (wf1_last_idx _ W). f_equal; lia. }
      (* the request goes to a member of the candidate's table *)
      pose proof (LS_in_cfg _ _ _ d L Hd) as Hcf.
      unfold cand_knows, s1, t_timeout. cbn [M.nodes]. rewrite upd_eq. cbn [M.term M.rl].
      rewrite (Rn_term _ _ _ _ _ _ RN). fold x. split; [lia|]. intros _ _.
      unfold M.cfg in *. cbn [M.base M.log]. exact Hcf. }
  destruct (majority (votes (nd s5)) (nd s5)) eqn:Mj.
  - destruct (sim_become_leader n s5 s1 L5) as (s2 & K2 & L2); auto.
    exists s2. split; auto. eapply ksn_trans; eauto.
  - exists s1. split; auto.
Qed.

(* ---- the leader: commit advance and fallback ---- *)
Lemma sim_commit n S s nc :
  LS n s S -> role (nd S) = LEADER -> commit (nd S) < nc -> nc <= last_idx (log (nd S)) ->
  own_term_at (nd S) nc = true -> majority (match_count nc (nd S)) (nd S) = true ->
  exists s', ksn (n2 n) s s' /\ LS n s' (upd (fun x => set_commit_meta (x <| commit := nc |>)) S).
Proof.
  intros L Hr Hlt Hle Hown Hmaj.
  pose proof (LS_n _ _ _ _ _ _ L) as RN. destruct (LS_full _ _ _ L) as (full & EL & W & Sx & Smf & Hof).
  pose proof (LS_up _ _ _ L) as Hj. pose proof (LS_h _ _ _ _ _ _ L) as HH.
  pose proof (majority_abs _ _ _ _ L Hmaj) as Hmaj0.
  pose proof (LS_ms _ _ _ L) as Hms.
  pose proof (LS_sorted _ _ _ L) as Hso.
  set (x := nd S) in *.
  assert (Hl : M.rl (M.nodes s (n2 n)) = M.Leader) by (rewrite (Rn_role _ _ _ _ _ _ RN), Hr; reflexivity).
  set (p := (n2 nc - 1)%nat).
  assert (Hlen : length (M.log (M.nodes s (n2 n))) = n2 (last_idx (log x))).
  { rewrite EL, absL_length, (suffix_last_idx _ _ Sx), (wf1_last_idx _ W). lia. }
  assert (Hfi : first_idx (log x) <= nc).
  { pose proof (H_fi _ _ _ HH). pose proof (H_ac _ _ _ HH). fold x in H, H0. lia. }
  (* the entry at nc *)
  unfold own_term_at, entry_at in Hown. rewrite (suffix_ge _ _ W Sx) in Hown by exact Hfi.
  rewrite ge_one in Hown by (auto; pose proof (suffix_first_pos _ _ W Sx); lia).
  destruct (nth_error full (n2 nc - 1)) as [en|] eqn:Een; [|discriminate].
  apply N.eqb_eq in Hown.
  assert (K : KS.kstep V' F0 s (M.do_commit (n2 n) p s) /\ ext (n2 n) s (M.do_commit (n2 n) p s)).
  { apply t_commit_ok; auto.
    - rewrite (Rn_commit _ _ _ _ _ _ RN). unfold p. lia.
    - rewrite Hlen. unfold p. lia.
    - rewrite EL. fold p in Een. rewrite (nth_abs _ _ _ Een). cbn. rewrite (Rn_term _ _ _ _ _ _ RN). congruence.
    - (* the majority *)
      unfold M.majority_of in *. apply Nat.ltb_lt. apply Nat.ltb_lt in Hmaj0.
      assert (Hcnt : (n2 (match_count nc x) <= length (M.commit_set (n2 n) p (M.nodes s (n2 n))))%nat).
      { unfold M.commit_set, M.cfg. cbn [filter]. rewrite Nat.eqb_refl. cbn [orb length].
        unfold match_count.
        pose proof (count_ms (fun f => match aget f (match_idx x) with Some m => nc <=? m | None => false end)
                      (fun f => (f =? (n2 n))%nat || (Sn p <=? M.matchIdx (M.nodes s (n2 n)) f)%nat)
                      (others x) (M.others (n2 n) (M.nodes s (n2 n))) (ssorted_NoDup _ Hso) Hms) as Hc0.
        assert (H1 : forall f : nid, In f (others x) ->
                  match aget f (match_idx x) with Some m => nc <=? m | None => false end = true ->
                  ((n2 f =? (n2 n))%nat || (Sn p <=? M.matchIdx (M.nodes s (n2 n)) (n2 f))%nat) = true).
        { intros f Hf Hh. destruct (aget f (match_idx x)) as [m|] eqn:Eg; [|discriminate].
          assert (Hne : f <> n) by (intros ->; apply (LS_not_self _ _ _ L); exact Hf).
          pose proof (Rn_match _ _ _ _ _ _ RN f m Hf Hne Eg) as A7. apply orb_true_iff. right. apply Nat.leb_le.
          unfold p. lia. }
        specialize (Hc0 H1). unfold M.others in Hc0. unfold nid in *. lia. }
      lia. }
  destruct K as [K E].
  exists (M.do_commit (n2 n) p s). split; [apply ksn_one; auto|].
  apply (LS_ksn n s (M.do_commit (n2 n) p s) S).
  - apply ksn_one; auto.
  - exact L.
  - rewrite nd_upd. apply (Rn_intro n x _ s (M.do_commit (n2 n) p s)); auto;
      try (unfold M.do_commit; cbn [M.nodes M.grants]; rewrite ?upd_eq;
           cbn [M.term M.voted M.rl M.log M.commit M.votesFrom M.matchIdx M.lf M.noopi]).
    + apply (LS_reach _ _ _ _ _ _ L).
    + eapply ksn_kstar. apply ksn_one; eauto.
    + apply tr_ok_same. reflexivity.
    + cbn. lia.
    + exact Hj.
    + apply (Rn_term _ _ _ _ _ _ RN).
    + apply (Rn_voted _ _ _ _ _ _ RN).
    + apply (Rn_role _ _ _ _ _ _ RN).
    + exists full. auto.
    + cbn. unfold p. lia.
    + apply (Rn_votes _ _ _ _ _ _ RN).
    + apply (Rn_match _ _ _ _ _ _ RN).
    + apply (Rn_self _ _ _ _ _ _ RN).
    + apply (Rn_noop _ _ _ _ _ _ RN).
  - destruct HH as [B1 B2 B3 B4 B5 B6 B7 B8 B9 B10].
    constructor; rewrite ?nd_upd; cbn; auto. unfold x in *. lia.
  - apply (LS_self _ _ _ _ _ _ L).
  - exists []. rewrite app_nil_r. split; auto. apply Ro_nil.
Qed.

Lemma sim_stepdown n S s :
  LS n s S -> role (nd S) = LEADER ->
  exists s', ksn (n2 n) s s' /\ LS n s' (upd (fun x => x <| leader := None |>) (set_role FOLLOWER S)).
Proof.
  intros L Hr.
  pose proof (LS_n _ _ _ _ _ _ L) as RN. pose proof (LS_up _ _ _ L) as Hj.
  assert (Hl : M.rl (M.nodes s (n2 n)) = M.Leader) by (rewrite (Rn_role _ _ _ _ _ _ RN), Hr; reflexivity).
  destruct (t_stepdown_ok V' (n2 n) s Hj Hl) as [K E].
  exists (M.do_stepdown (n2 n) s). split; [apply ksn_one; auto|].
  apply (LS_ksn n s (M.do_stepdown (n2 n) s) S).
  - apply ksn_one; auto.
  - exact L.
  - rewrite nd_upd, nd_set_role.
    apply (Rn_intro n (nd S) _ s (M.do_stepdown (n2 n) s)); auto;
      try (unfold M.do_stepdown, M.set_node; cbn [M.nodes M.grants]; rewrite ?upd_eq;
           cbn [M.term M.voted M.rl M.log M.commit M.votesFrom M.matchIdx M.lf M.noopi]).
    + apply (LS_reach _ _ _ _ _ _ L).
    + eapply ksn_kstar. apply ksn_one; eauto.
    + apply tr_ok_same. reflexivity.
    + cbn. lia.
    + exact Hj.
    + apply (Rn_term _ _ _ _ _ _ RN).
    + apply (Rn_voted _ _ _ _ _ _ RN).
    + reflexivity.
    + apply (Rn_log _ _ _ _ _ _ RN).
    + apply (Rn_commit _ _ _ _ _ _ RN).
    + intros Hx. compute in Hx. discriminate.
    + apply (Rn_match _ _ _ _ _ _ RN).
    + apply (Rn_self _ _ _ _ _ _ RN).
    + intros Hx. compute in Hx. discriminate.
  - eapply Hn_hv0; [| |apply (LS_h _ _ _ _ _ _ L)]; [rewrite nd_upd, nd_set_role; reflexivity|].
    apply pend_not_leader. rewrite nd_upd, nd_set_role. cbn. discriminate.
  - rewrite nd_upd, nd_set_role. apply (LS_self _ _ _ _ _ _ L).
  - apply (grow_Ro nosend); [intros o; apply nosend_okout|].
    eapply grow_trans; [|apply grow_upd]. apply grow_set_role. auto.
Qed.

Lemma sim_tick_leader n : simf n (tick_leader e).
Proof.
  intros S s L. unfold tick_leader.
  destruct (role (nd S) =? LEADER) eqn:Er; [|exists s; split; [constructor|exact L]].
  apply N.eqb_eq in Er.
  set (fuel := Datatypes.S (N.to_nat (last_idx (log (nd S)) - commit (nd S)))).
  pose proof (nd_commit_loop fuel (commit (nd S)) (commit (nd S)) S) as N1.
  pose proof (outs_commit_loop fuel (commit (nd S)) (commit (nd S)) S) as O1.
  destruct (commit_loop_spec fuel (commit (nd S)) (commit (nd S)) S) as (stop & T1 & T2 & T3 & T4 & _).
  cbv zeta in T4.
  destruct (commit_loop fuel (commit (nd S)) (commit (nd S)) S) as [s1 nc] eqn:Ecl.
  cbn [fst snd] in *.
  assert (L1 : LS n s s1) by (eapply (LS_same n s S); eauto).
  destruct (ok s1); [|exists s; split; [constructor|exact L1]].
  (* the commit step *)
  assert (Hstep : exists s2, ksn (n2 n) s s2 /\
            LS n s2 (if commit (nd s1) =? nc then s1 else upd (fun x => set_commit_meta (x <| commit := nc |>)) s1) /\
            role (nd (if commit (nd s1) =? nc then s1 else upd (fun x => set_commit_meta (x <| commit := nc |>)) s1)) = LEADER).
  { destruct (commit (nd s1) =? nc) eqn:Ec.
    - exists s. split; [constructor|]. split; auto. rewrite N1. exact Er.
    - apply N.eqb_neq in Ec. rewrite N1 in Ec.
      destruct T4 as [[T4 _]|(T4 & T5 & _)]; [congruence|].
      assert (B0 : role (nd s1) = LEADER) by (rewrite N1; exact Er).
      assert (B1 : commit (nd s1) < nc) by (rewrite N1; lia).
      assert (B2 : nc <= last_idx (log (nd s1))) by (rewrite N1; destruct T2; lia).
      assert (B3 : own_term_at (nd s1) nc = true) by (rewrite N1; exact T5).
      assert (B4 : majority (match_count nc (nd s1)) (nd s1) = true) by (rewrite N1; apply T3; lia).
      destruct (sim_commit n s1 s nc L1 B0 B1 B2 B3 B4) as (s2 & K2 & L2).
      exists s2. split; [exact K2|]. split; [exact L2|]. rewrite nd_upd. cbn. exact B0. }
  destruct Hstep as (s2 & K2 & L2 & Hr2).
  set (S2 := if commit (nd s1) =? nc then s1 else _) in *. clearbody S2.
  set (S3 := upd (fun n0 => n0 <| leader_commit := Some (commit n0) |>) S2).
  assert (L3 : LS n s2 S3).
  { apply (LS_quiet n s2 S2); [exact L2|reflexivity|apply grow_upd]. }
  assert (Hr3 : role (nd S3) = LEADER) by exact Hr2.
  cbv zeta.
  match goal with |- context [existsb ?f ?l] => destruct (existsb f l) end.
  - exists s2. split; auto. eapply (LS_same n s2 S3); eauto.
  - match goal with |- context [negb ?b] => destruct b end; cbn [negb].
    + exists s2. split; auto.
    + destruct (sim_stepdown n S3 s2 L3 Hr3) as (s3 & K3 & L4).
      exists s3. split; auto. eapply ksn_trans; eauto.
Qed.

End Tick.
